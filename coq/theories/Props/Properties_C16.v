(* Properties_C16.v -- property C16: the AVL tree stays a correct balanced
   ordered set under any history.  Statements only; every proof is
   `exact <lemma of Avl/AvlProofs.v>`. *)

From Coq Require Import List ZArith Bool Sorted.
From Ivv Require Import Avl.AvlModel Avl.AvlProofs.
Import ListNotations.
Local Open Scope Z_scope.

(* The invariant: recorded heights exact, subtree heights differ by at most
   one, keys strictly increasing in-order. *)
Definition C16_Inv (t : tree) : Prop := avl t /\ sorted (inorder t).

(* Reference semantics: a strictly sorted list of keys. *)
Definition ref_step (s : list Z) (o : op) : list Z :=
  match o with
  | Ins k => if existsb (Z.eqb k) s then s else ins_sorted k s
  | Del k => remove Z.eq_dec k s
  end.

(* Every history from the empty tree: invariant holds and the content is
   exactly the inserted-and-not-deleted keys, in order. *)
Theorem C16_history :
  forall ops : list op,
    C16_Inv (run ops E) /\ inorder (run ops E) = fold_left ref_step ops [].
Proof. exact avl_history. Qed.
Print Assumptions C16_history.

(* Single steps from any tree satisfying the invariant (any balanced shape). *)
Theorem C16_insert_fresh :
  forall t k, C16_Inv t -> ~ In k (inorder t) ->
    exists t', insert k t = Some t' /\ C16_Inv t' /\ inorder t' = ins_sorted k (inorder t).
Proof. exact avl_insert_fresh. Qed.
Print Assumptions C16_insert_fresh.

(* Inserting a key that is present fails (-1) and produces no new tree. *)
Theorem C16_insert_duplicate :
  forall t k, C16_Inv t -> In k (inorder t) ->
    insert k t = None /\ step t (Ins k) = (t, -1).
Proof. exact avl_insert_duplicate. Qed.
Print Assumptions C16_insert_duplicate.

Theorem C16_delete_present :
  forall t k, C16_Inv t -> In k (inorder t) ->
    exists t', delete k t = Some t' /\ C16_Inv t' /\ inorder t' = remove Z.eq_dec k (inorder t).
Proof. exact avl_delete_present. Qed.
Print Assumptions C16_delete_present.

(* Traversal with next from min / prev from max (parent-pointer walks). *)
Theorem C16_traversal :
  forall t, C16_Inv t -> forward t = inorder t /\ backward t = rev (inorder t).
Proof. exact avl_traversal. Qed.
Print Assumptions C16_traversal.

(* Logarithmic height: a balanced tree of height h has at least fib(h+2)-1 nodes. *)
Theorem C16_height_log :
  forall t, avl t -> (fibZ (Z.to_nat (ht t) + 2) - 1 <= Z.of_nat (size t)).
Proof. exact avl_height_fib. Qed.
Print Assumptions C16_height_log.

(* The boolean monitor used on implementation dumps decides the invariant. *)
Theorem C16_monitor_sound :
  forall t, inv_b t = true <-> C16_Inv t.
Proof. exact inv_b_spec. Qed.
Print Assumptions C16_monitor_sound.

(* Non-vacuity: a concrete history with rotations of all four kinds, a
   duplicate insert and deletes of leaf / interior / root nodes. *)
Example C16_nonvacuous :
  let ops := [Ins 5; Ins 3; Ins 8; Ins 1; Ins 4; Ins 7; Ins 9; Ins 2; Ins 6; Ins 3;
              Del 5; Del 1; Del 9; Ins 10; Ins 11; Del 4] in
  inv_b (run ops E) = true /\ inorder (run ops E) = [2; 3; 6; 7; 8; 10; 11].
Proof. vm_compute. split; reflexivity. Qed.
