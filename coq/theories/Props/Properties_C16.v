(* Properties_C16.v -- property C16: the AVL tree stays a correct balanced
   ordered set under any history.  Statements only; every proof is
   `exact <lemma of Avl/AvlProofs.v>`. *)

From Coq Require Import List ZArith Bool Sorted.
From Ivv Require Import Avl.AvlModel Avl.AvlProofs.
From Ivv Require Gen.LeafAvl Avl.AvlLink.
Import ListNotations.
Local Open Scope Z_scope.

(* The invariant: recorded heights exact, subtree heights differ by at most
   one, keys strictly increasing in-order. *)
Definition C16_Inv (t : tree) : Prop := avl t /\ sorted (inorder t).

(* Reference semantics: a strictly sorted list of keys. *)
Definition ref_step (s : list Z) (o : op) : list Z :=
  match o with
  | Ins k => if existsb (Z.eqb k) s then s else ins_sorted k s
  | Del k => remove Z.eq_dec k s
  end.

(* Every history from the empty tree: invariant holds and the content is
   exactly the inserted-and-not-deleted keys, in order. *)
Theorem C16_history :
  forall ops : list op,
    C16_Inv (run ops E) /\ inorder (run ops E) = fold_left ref_step ops [].
Proof. exact avl_history. Qed.
Print Assumptions C16_history.

(* Single steps from any tree satisfying the invariant (any balanced shape). *)
Theorem C16_insert_fresh :
  forall t k, C16_Inv t -> ~ In k (inorder t) ->
    exists t', insert k t = Some t' /\ C16_Inv t' /\ inorder t' = ins_sorted k (inorder t).
Proof. exact avl_insert_fresh. Qed.
Print Assumptions C16_insert_fresh.

(* Inserting a key that is present fails (-1) and produces no new tree. *)
Theorem C16_insert_duplicate :
  forall t k, C16_Inv t -> In k (inorder t) ->
    insert k t = None /\ step t (Ins k) = (t, -1).
Proof. exact avl_insert_duplicate. Qed.
Print Assumptions C16_insert_duplicate.

Theorem C16_delete_present :
  forall t k, C16_Inv t -> In k (inorder t) ->
    exists t', delete k t = Some t' /\ C16_Inv t' /\ inorder t' = remove Z.eq_dec k (inorder t).
Proof. exact avl_delete_present. Qed.
Print Assumptions C16_delete_present.

(* Traversal with next from min / prev from max (parent-pointer walks). *)
Theorem C16_traversal :
  forall t, C16_Inv t -> forward t = inorder t /\ backward t = rev (inorder t).
Proof. exact avl_traversal. Qed.
Print Assumptions C16_traversal.

(* Logarithmic height: a balanced tree of height h has at least fib(h+2)-1 nodes. *)
Theorem C16_height_log :
  forall t, avl t -> (fibZ (Z.to_nat (ht t) + 2) - 1 <= Z.of_nat (size t)).
Proof. exact avl_height_fib. Qed.
Print Assumptions C16_height_log.

(* The boolean monitor used on implementation dumps decides the invariant. *)
Theorem C16_monitor_sound :
  forall t, inv_b t = true <-> C16_Inv t.
Proof. exact inv_b_spec. Qed.
Print Assumptions C16_monitor_sound.

(* THE HEIGHT / BALANCE ARITHMETIC OF THE MODEL IS THE CODE.  Gen/LeafAvl.v is regenerated on every run by gen/c2gallina.py
   from the clang AST of the current src/iv_avl.c, C integer semantics explicit (Base/CSem.v, None = null dereference /
   signed overflow): height() -> avl_height, recalc_height() -> avl_recalc_height (the value stored into the uint8_t
   field), balance() -> avl_balance, and of rebalance_node() `bal = balance(root)`, `if (bal == -2)`,
   `if (balance(root->left) <= 0)`, `else if (bal == 2)`, `if (balance(root->right) < 0)`.  A node pointer is its address;
   adr is ANY map from subtrees to addresses that is 0 exactly on the empty tree (Avl.AvlLink.addressing, satisfiable).
   For stored heights that are uint8_t values: height() = ht; recalc_height() stores ht (mk l k r) modulo 256, i.e. exactly
   the model's height below 255 (C16_height_log: a tree that high has more than 2^176 nodes); balance() = balance; and
   rebalance_node written with the translated tests (Avl.AvlLink.rebalance_node_code: thresholds -2 / 2 / <= 0 / < 0, choice
   among the four rotations) is defined and equal to the model's rebalance_node. *)
Theorem C16_balance_arith_is_the_code :
  forall adr, Ivv.Avl.AvlLink.addressing adr ->
  (forall t, Ivv.Gen.LeafAvl.avl_height (adr t) (ht t) = Some (ht t)) /\
  (forall l k r, 0 <= ht l <= 255 -> 0 <= ht r <= 255 ->
     Ivv.Gen.LeafAvl.avl_recalc_height (adr l) (ht l) (adr r) (ht r) = Some (ht (mk l k r) mod 256)) /\
  (forall l k r, 0 <= ht l < 255 -> 0 <= ht r < 255 ->
     Ivv.Gen.LeafAvl.avl_recalc_height (adr l) (ht l) (adr r) (ht r) = Some (ht (mk l k r))) /\
  (forall l k h r, 0 <= ht l <= 255 -> 0 <= ht r <= 255 ->
     Ivv.Gen.LeafAvl.avl_balance (adr r) (ht r) (adr l) (ht l) = Some (balance (N l k h r))) /\
  (forall bal, Ivv.Gen.LeafAvl.avl_rebalance_left_heavy bal = Some (bal =? -2)) /\
  (forall bal, Ivv.Gen.LeafAvl.avl_rebalance_right_heavy bal = Some (bal =? 2)) /\
  (forall l k h r, Ivv.Avl.AvlLink.kids_u8 (N l k h r) ->
     Ivv.Avl.AvlLink.rebalance_node_code adr (N l k h r) = Some (rebalance_node (N l k h r))).
Proof. exact Ivv.Avl.AvlLink.avl_link_all. Qed.
Print Assumptions C16_balance_arith_is_the_code.

(* Non-vacuity: a concrete history with rotations of all four kinds, a
   duplicate insert and deletes of leaf / interior / root nodes. *)
Example C16_nonvacuous :
  let ops := [Ins 5; Ins 3; Ins 8; Ins 1; Ins 4; Ins 7; Ins 9; Ins 2; Ins 6; Ins 3;
              Del 5; Del 1; Del 9; Ins 10; Ins 11; Del 4] in
  inv_b (run ops E) = true /\ inorder (run ops E) = [2; 3; 6; 7; 8; 10; 11].
Proof. vm_compute. split; reflexivity. Qed.

(* ================================================================== *)
(* Pointer level: the left/right/parent/height fields of struct        *)
(* iv_avl_node as read and written by iv_avl.c (Avl/AvlPtrModel.v).    *)
(* RepF f s root t: store s / root pointer represent the functional    *)
(* tree t, f = key -> node id; includes parent-pointer consistency and *)
(* absence of sharing (NoDup of the node ids).                         *)
(* ================================================================== *)
From Ivv Require Import Avl.AvlPtrModel Avl.AvlPtrRep Avl.AvlPtrInsert Avl.AvlPtrTrav Avl.AvlPtrTop Avl.AvlPtrC16 Avl.AvlPtrHist.

(* iv_avl_tree_insert on a represented tree: no NULL/dangling dereference, no
   fuel exhaustion once fuel > depth (= height, C16_ptr_fuel), and the new store
   represents exactly the functional result; a duplicate key returns -1 and
   writes nothing; nodes outside the tree (other than the inserted one) keep
   all their fields. *)
Theorem C16_ptr_refines_functional_insert :
  forall f s root t a n fuel,
    RepF f s root t -> C16_Inv t -> PM.find a s = Some n -> (depth t < fuel)%nat ->
    (~ In (n_key n) (inorder t) ->
       exists t' s' root' f',
         AvlModel.insert (n_key n) t = Some t'
         /\ iv_avl_tree_insert fuel (mkState s root) (Some a) = Ok (mkState s' root', 0)
         /\ RepF f' s' root' t'
         /\ C16_Inv t' /\ inorder t' = ins_sorted (n_key n) (inorder t)
         /\ f' (n_key n) = a /\ (forall k, In k (inorder t) -> f' k = f k)
         /\ frame_except (a :: map f (inorder t)) s s')
    /\ (In (n_key n) (inorder t) ->
          AvlModel.insert (n_key n) t = None
          /\ iv_avl_tree_insert fuel (mkState s root) (Some a) = Ok (mkState s root, -1)).
Proof. exact ptr_insert_C16. Qed.
Print Assumptions C16_ptr_refines_functional_insert.

(* Double registration: iv_avl_tree_insert called with the node object that is
   ALREADY linked in the tree (a = f k, the node holding key k; leaf, interior
   node or root).  It returns -1 without a single store: the whole state --
   including left/right/parent/height of that very node -- is unchanged.  (The
   present-key half of the theorem above already covers every argument node a
   with that key, linked or not; this is the linked case spelled out.) *)
Theorem C16_ptr_reinsert_linked_node :
  forall f s root t k fuel,
    RepF f s root t -> C16_Inv t -> In k (inorder t) -> (depth t <= fuel)%nat ->
    exists n, PM.find (f k) s = Some n /\ n_key n = k
      /\ AvlModel.insert k t = None
      /\ iv_avl_tree_insert fuel (mkState s root) (Some (f k)) = Ok (mkState s root, -1).
Proof. exact ptr_reinsert_linked_C16. Qed.
Print Assumptions C16_ptr_reinsert_linked_node.

(* iv_avl_tree_delete of the node carrying key k (leaf, or victim swap from the
   taller side followed by rebalance_path): same guarantees; the deleted
   object is no longer a node of the tree. *)
Theorem C16_ptr_refines_functional_delete :
  forall f s root t k fuel,
    RepF f s root t -> C16_Inv t -> In k (inorder t) -> (depth t <= fuel)%nat ->
    exists t' s' root',
      AvlModel.delete k t = Some t'
      /\ iv_avl_tree_delete fuel (mkState s root) (Some (f k)) = Ok (mkState s' root')
      /\ RepF f s' root' t'
      /\ C16_Inv t' /\ inorder t' = remove Z.eq_dec k (inorder t)
      /\ ~ In (f k) (map f (inorder t'))
      /\ frame_except (map f (inorder t)) s s'.
Proof. exact ptr_delete_C16. Qed.
Print Assumptions C16_ptr_refines_functional_delete.

(* What RepF says about the raw pointers: the node ids are pairwise distinct;
   the root's parent is NULL; every child's parent field points back to its
   parent; every non-root node is the left or right child of its parent. *)
Theorem C16_ptr_parent_pointers :
  forall f s root t, RepF f s root t -> parent_ok s root (map f (inorder t)).
Proof. exact ptr_parent_C16. Qed.
Print Assumptions C16_ptr_parent_pointers.

(* iv_avl_tree_for_each (next from min) visits the nodes in key order and stops
   after size t iterations; prev from max is the reverse; min / max / next /
   prev are the extremes and the in-order successor / predecessor. *)
Theorem C16_ptr_traversal :
  forall f s root t fuel,
    RepF f s root t -> (depth t <= fuel)%nat ->
    forward_ptr (size t) fuel (mkState s root) = Ok (map f (inorder t))
    /\ backward_ptr (size t) fuel (mkState s root) = Ok (map f (rev (inorder t)))
    /\ keys_of s (map f (inorder t)) = inorder t
    /\ iv_avl_tree_min fuel (mkState s root) = Ok (hd_ptr f (inorder t))
    /\ iv_avl_tree_max fuel (mkState s root) = Ok (hd_ptr f (rev (inorder t)))
    /\ (forall a k b, inorder t = a ++ k :: b ->
          iv_avl_tree_next fuel (mkState s root) (Some (f k)) = Ok (hd_ptr f b)
          /\ iv_avl_tree_prev fuel (mkState s root) (Some (f k)) = Ok (hd_ptr f (rev a))).
Proof. exact ptr_traversal_C16. Qed.
Print Assumptions C16_ptr_traversal.

(* the loop bound is the height of the tree (logarithmic by C16_height_log) *)
Theorem C16_ptr_fuel :
  forall t, avl t -> Z.of_nat (depth t) = ht t.
Proof. exact ptr_fuel_is_height. Qed.
Print Assumptions C16_ptr_fuel.

(* Whole histories as the C driver executes them (malloc of a node with garbage
   fields g/gh for every insert, free after a rejected insert, BST lookup +
   delete + free): from the empty tree the pointer-level run never reports a
   NULL / dangling dereference or exhausted loop bound (fuel > number of
   operations suffices) and ends in a store representing run ops E, so
   C16_history and all statements above hold of the pointer structure. *)
Theorem C16_ptr_history :
  forall ops fuel g gh, (length ops < fuel)%nat ->
    exists m f,
      prun fuel g gh (map to_pop ops) empty_machine = Ok m
      /\ RepF f (st_store (m_state m)) (st_root (m_state m)) (run ops E)
      /\ C16_Inv (run ops E).
Proof. exact ptr_history. Qed.
Print Assumptions C16_ptr_history.

(* The same for histories that also contain PReins k = insert of the node that
   is already linked under key k (for the functional model: Ins k, a rejected
   duplicate). *)
Theorem C16_ptr_history_reinsert :
  forall pops fuel g gh, (length pops < fuel)%nat ->
    exists m f,
      prun fuel g gh pops empty_machine = Ok m
      /\ RepF f (st_store (m_state m)) (st_root (m_state m)) (run (map pop_op pops) E)
      /\ C16_Inv (run (map pop_op pops) E).
Proof. exact ptr_history_pops. Qed.
Print Assumptions C16_ptr_history_reinsert.

(* Non-vacuity at the pointer level: a history with both double rotations
   (i20: right-left, i7 and i9: left-right), both single rotations, a duplicate,
   a leaf delete, a delete of the root whose victim is the minimum of the right
   subtree two levels down (d7), a delete whose victim is the maximum of the
   left subtree (d8), an absent key, and re-inserts of the already linked root
   (PReins 7), of a linked leaf and interior node, and PReins of an absent key.  After every operation the store
   satisfies RepF of the functional model's tree, the return codes agree and
   iv_avl_tree_for_each enumerates the nodes in order. *)
Example C16_ptr_nonvacuous :
  let pops := [PIns 10; PIns 30; PIns 20; PIns 5; PIns 7; PIns 40; PIns 50; PIns 3; PIns 1; PIns 8; PIns 9;
               PIns 6; PIns 20; PReins 7; PReins 6; PReins 20; PReins 99; PDel 99; PDel 10; PDel 7;
               PDel 50; PDel 40; PDel 8; PDel 99] in
  check_hist 8 pops empty_machine E = true
  /\ (exists m, prun 8 (Some 1%positive) 170 pops empty_machine = Ok m
        /\ RepF (fof (st_store (m_state m))) (st_store (m_state m)) (st_root (m_state m))
             (run (map pop_op pops) E)
        /\ inorder (run (map pop_op pops) E) = [1; 3; 5; 6; 9; 20; 30]).
Proof.
  cbv zeta. split; [vm_compute; reflexivity|].
  destruct (hist_ok_spec 8
    [PIns 10; PIns 30; PIns 20; PIns 5; PIns 7; PIns 40; PIns 50; PIns 3; PIns 1; PIns 8; PIns 9;
     PIns 6; PIns 20; PReins 7; PReins 6; PReins 20; PReins 99; PDel 99; PDel 10; PDel 7;
     PDel 50; PDel 40; PDel 8; PDel 99]) as (m & A & B);
    [vm_compute; reflexivity|].
  exists m. split; [exact A|]. split; [exact B|]. vm_compute. reflexivity.
Qed.
