(* Properties_C07.v -- property C07: iv_main returns iff nothing is registered or quit; never hangs or spins.  Statements only.
   Every theorem quantifies over ALL well-formed scenarios: all handler scripts, all kernel behaviours the scenario
   language can express (conditions changed at any point, ready order rotations, external posts), all four poll
   methods, all fault sets (EINTR at any wait / epoll_ctl, missing system calls), any wait limit. *)
From Coq Require Import List ZArith Bool Lia.
From Ivv Require Import Core.Kernel Core.CoreTypes Core.CoreFd Core.CoreModel Core.Monitors Core.GuardMon Core.CoreSpec
  Core.CoreInv Core.CoreRel Core.CorePhase2AcctC07 Core.CorePhase2AcctIdleTop Core.CoreAll Core.CoreExamples.
Import ListNotations.
Local Open Scope Z_scope.

Definition no_code (codes : list Z) (tr : list Z) : Prop := forall c, In c tr -> ~ In c codes.

(* returns only when quit or nothing registered (701/702/703), continues only when not quit and something is
   registered (704/705), accounting returns to zero after tear-down (706), a reported descriptor leads to a
   callback (707), never sleeps with an undelivered self-post (708/710), callbacks only inside iv_main (709),
   never polls repeatedly without dispatching (711, guard monitor 1103) *)
Theorem C07_main_loop :
  forall sc, wf_scenario sc -> mon_C07 (run_scenario sc) = true.
Proof. exact core_mon_C07. Qed.
Print Assumptions C07_main_loop.

Theorem C07_no_busy_poll :
  forall sc, wf_scenario sc -> no_code [1103] (gmon_fails sc (run_scenario sc)).
Proof. exact core_gmon_1103. Qed.
Print Assumptions C07_no_busy_poll.

(* "it blocks in the kernel only when nothing is due", for the other kinds of due work (708/710 above cover posted
   events): no sleeping wait is entered while a timer is already due at the loop's clock (403), none lasts beyond the
   earliest expiry (404), none is unbounded with a timer registered (405), none sleeps or hangs with a task
   registered (602/604), none with a posted raw event (901/902).  The codes are those of C04/C06/C09; they are
   repeated here because the clause is part of this property's statement. *)
Theorem C07_blocks_only_when_nothing_due :
  forall sc, wf_scenario sc -> no_code [403; 404; 405; 602; 604; 901; 902] (mon_fails (run_scenario sc)).
Proof.
  intros sc WF c Hin _. pose proof (core_mon_all sc WF) as H. unfold mon_all in H.
  destruct (mon_fails (run_scenario sc)); [contradiction|discriminate].
Qed.
Print Assumptions C07_blocks_only_when_nothing_due.

(* "every wake-up makes progress ... never hangs or spins", for chains of tasks: a task runs at most once per
   iteration (603), so a chain of tasks that keep scheduling their successor -- also through freshly initialised task
   objects -- goes through the quit test and the kernel poll of iv_main between any two of its steps and cannot keep
   iv_main from returning after iv_quit *)
Theorem C07_task_chains_yield :
  forall sc, wf_scenario sc -> no_code [603] (mon_fails (run_scenario sc)).
Proof.
  intros sc WF c Hin _. pose proof (core_mon_all sc WF) as H. unfold mon_all in H.
  destruct (mon_fails (run_scenario sc)); [contradiction|discriminate].
Qed.
Print Assumptions C07_task_chains_yield.

(* non-vacuity: a well-formed run on every poll method that registers every kind of object, sleeps until a timer is
   due, dispatches, and returns from iv_main exactly when the last object has been unregistered (TEnd 0 0: not quit,
   object count 0) *)
Example C07_nonvacuous :
  forall be, In be [0; 1; 2; 3] ->
    wf_scenario (ex_all be) /\ In (TEnd 0 0) (run_scenario (ex_all be)) /\ ~ In TLimit (run_scenario (ex_all be)) /\
    ~ In THang (run_scenario (ex_all be)) /\ mon_fails (run_scenario (ex_all be)) = [].
Proof.
  intros be H. assert (Hb : 0 <= be <= 3) by (cbn [In] in H; intuition lia).
  pose proof (ex_all_runs be H) as R. cbv zeta in R.
  destruct R as (_ & _ & _ & _ & _ & R6 & _ & R8 & R9 & R10 & _).
  exact (conj (ex_all_wf be Hb) (conj R6 (conj R8 (conj R9 R10)))).
Qed.

(* ---- tie (a): the decision points the model uses at this place ARE the current C text (Core/CoreLeafLink.v;
   Gen/LeafCore*.v is re-translated from /repo/src by gen/c2gallina.py on every run of this check) ---- *)
From Ivv Require Import Base.CSem Gen.LeafCoreFd Gen.LeafCoreTask Gen.LeafCoreMain Gen.LeafCoreEpoll Gen.LeafCorePoll Core.CoreLeafLink.

(* the exit test of iv_main (`st->quit || !st->numobjs`) and the run-timers test are the translated C *)
Theorem C07_exit_test_is_the_code :
  forall (q : bool) n, core_main_exit_test (b2z q) n = Some (q || (n =? 0)).
Proof. exact leaf_main_exit_test. Qed.
Print Assumptions C07_exit_test_is_the_code.

Theorem C07_timeout_check_is_the_code :
  forall s abs, int_ok (last_abs_count s + 1) -> timeout_check_code s abs = Some (timeout_check s abs).
Proof. exact timeout_check_is_the_code. Qed.
Print Assumptions C07_timeout_check_is_the_code.

(* iv_event_post from the owner thread (the wake-up of a self-post is the loop's internal task): the model's event_post is
   built from the translated tests and stores of the C function; calls of iv_list_empty / iv_task_registered inside the
   tests are instantiated with the model's lists *)
From Ivv Require Import Gen.LeafCoreEvent Gen.LeafCoreLists.
Theorem C07_event_post_is_the_code :
  forall s j, event_post_code s j = Some (event_post s j).
Proof. exact event_post_is_the_code. Qed.
Print Assumptions C07_event_post_is_the_code.

(* non-vacuity of the hypotheses of the *_is_the_code theorems above: the initial loop state of a well-formed scenario, on
   every poll method, has its int-typed counters in int range *)
Example C07_link_hypotheses_hold :
  forall be, In be [0; 1; 2; 3] ->
    int_ok (last_abs_count (core0 (ex_all be)) + 1) /\ int_ok (numobjs (core0 (ex_all be)) + 1).
Proof.
  intros be H. cbn [In] in H. unfold int_ok.
  destruct H as [<-|[<-|[<-|[<-|[]]]]]; vm_compute; repeat split; discriminate.
Qed.
