(* Properties_C07.v -- property C07: iv_main returns iff nothing is registered or quit; never hangs or spins.  Statements only.
   Every theorem quantifies over ALL well-formed scenarios: all handler scripts, all kernel behaviours the scenario
   language can express, all four poll methods, all fault sets, any wait limit.
   STATUS: the full statement of this property on the core model is `mon_C07 (run_scenario sc) = true`
   (see Properties_C07.v.draft); the theorems below are the monitor clauses already proved (named _partial);
   the remaining clauses (711, 1103: no busy polling) are checked on every implementation AND model trace by the extracted monitor
   while their proofs are being completed. *)
From Coq Require Import List ZArith Bool.
From Ivv Require Import Core.Kernel Core.CoreTypes Core.CoreFd Core.CoreModel Core.Monitors Core.CoreSpec
  Core.CoreRel Core.CoreCodes Core.CoreCodes2.
Import ListNotations.
Local Open Scope Z_scope.

(* callbacks only inside iv_main (709); the quit flag reported at return is the tracked one (703); the loop does not
   enter a wait after iv_quit (704) *)
Theorem C07_quit_and_nesting_partial :
  forall sc, wf_scenario sc -> no_code [703; 704; 709] (mon_fails (run_scenario sc)).
Proof. intros sc Hwf. eapply no_code_sub; [|exact (codes_handlers sc Hwf)]. simpl; intros c Hc; intuition. Qed.
Print Assumptions C07_quit_and_nesting_partial.

(* iv_main returns only when quit was called or nothing is registered, and with nothing registered it does return
   (701/702: the end record's object count is the tracked one and is 0 unless quit); the loop never sleeps or hangs with
   nothing registered (705); the object accounting is balanced at tear-down (706); a wait entered while a timer is due
   or a task is pending does not block (708/710); a wait that reports a ready user descriptor is followed by a callback before
   the next wait (707) *)
Theorem C07_termination_and_progress_partial :
  forall sc, wf_scenario sc -> no_code [701; 702; 705; 706; 707; 708; 710] (mon_fails (run_scenario sc)).
Proof. exact codes_acct. Qed.
Print Assumptions C07_termination_and_progress_partial.
