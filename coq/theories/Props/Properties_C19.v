(* Properties_C19.v -- property C19: iv_popen wires the child, always terminates and reaps it, releases
   everything.  Statements only; proofs are `exact <lemma of Misc/PopenProofs.v>`.

   Reading guide.  Misc/PopenModel.v part 1 is a sequential model of ONE request written after iv_popen.c;
   `erun (submitted now) o` runs it under the environment oracle o : list env -- ANY interleaving of: the child
   changes state (any status word: exits at once, on the first SIGTERM, never on SIGTERM, between two
   signals; stop / continue noise), the SIGCHLD reaper runs (in whatever thread), the owner loop runs the
   expired signal_timer or the pending completion (either order), the clock advances, the user closes the
   request.  p_log is the sequence of observable events (close, kill(sig) with iv_now, reaped status);
   `pcheck strict` is the acceptor/monitor that is also run on the implementation's logs.
   strict = true: signal times must EQUAL their due time; holds when the loop is prompt (oracle_ok true: the
   clock never passes the expiry of the registered timer), which is how the virtual clock of the harness
   behaves unless the scenario disturbs it. *)
From Coq Require Import List ZArith Bool.
From Ivv Require Import Misc.PopenModel Misc.PopenProofs.
From Ivv Require Gen.LeafPopen Misc.PopenLink.
Import ListNotations.
Local Open Scope Z_scope.

(* Escalation.  (1) For every oracle the model's events are accepted by pcheck (and the model never aborts or
   touches freed memory); with a prompt loop they are accepted by the strict check.  (2) In every accepted
   event sequence there is no signal before the close, and from the close at time t on the signals follow the
   schedule esc_ok t 0.  (3) The schedule spelled out: the n-th signal (n = 0, 1, ..) is SIGTERM for n < 5
   and SIGKILL afterwards, is sent no earlier than t + n * 5 s, and exactly then when strict.  (The sequence
   ends when the termination is reaped: C19_no_signal_after_reap.) *)
Theorem C19_escalation :
  (forall now o, pcheck false (rev (p_log (erun (submitted now) o))) = true /\ p_err (erun (submitted now) o) = None) /\
  (forall now o, oracle_ok true (submitted now) o -> pcheck true (rev (p_log (erun (submitted now) o))) = true) /\
  (forall strict ls d c, prun strict (COpen d) ls = Some c ->
     match split_close ls with
     | None => kills_of ls = []
     | Some (pre, t, post) => kills_of pre = [] /\ esc_ok strict t 0 (kills_of post)
     end) /\
  (forall strict kl due k n sig now, esc_ok strict due k kl -> 0 <= k -> nth_error kl n = Some (sig, now) ->
     sig = expected_sig (k + Z.of_nat n) /\ due + Z.of_nat n * INTERVAL <= now /\
     (strict = true -> now = due + Z.of_nat n * INTERVAL)) /\
  (forall n, 0 <= n -> expected_sig n = if n <? 5 then SIGTERM else SIGKILL).
Proof.
  exact (conj model_trace_accepted (conj model_trace_accepted_strict (conj escalation_accepted (conj esc_nth expected_sig_spec)))).
Qed.
Print Assumptions C19_escalation.

(* THE ESCALATION DECISION OF THE MODEL IS THE CODE.  Gen/LeafPopen.v is regenerated on every run by gen/c2gallina.py from
   the clang AST of the current src/iv_popen.c (macros expanded: MAX_SIGTERM_COUNT, SIGNAL_INTERVAL of the source, SIGTERM /
   SIGKILL of <signal.h>), C integer semantics explicit (Base/CSem.v, None = signed overflow):
   `signum = (ch->num_kills++ < MAX_SIGTERM_COUNT) ? SIGTERM : SIGKILL;` -> popen_signum : counter -> Some (signal, new counter),
   `ch->signal_timer.expires.tv_sec += SIGNAL_INTERVAL;` -> popen_rearm_sec, `ch->num_kills = 0;` of the close -> popen_close_kills.
   For every int counter whose increment does not overflow the translated statement yields the model's expected_sig and
   counter + 1 (it is undefined exactly when the increment overflows: after 2^31 signals); the re-arm adds INTERVAL; the
   model's timer handler logs the translated signal and stores the translated counter; the close stores the translated 0. *)
Theorem C19_escalation_is_the_code :
  (forall k, Ivv.Gen.LeafPopen.popen_signum k =
             if Ivv.Base.CSem.c_in_s 32 (k + 1) then Some (expected_sig k, k + 1) else None) /\
  (forall k, 0 <= k < 2 ^ 31 - 1 -> Ivv.Gen.LeafPopen.popen_signum k = Some (if k <? 5 then 15 else 9, k + 1)) /\
  (forall sec nsec, - 2 ^ 63 <= sec + 5 < 2 ^ 63 ->
     exists sec', Ivv.Gen.LeafPopen.popen_rearm_sec sec = Some sec' /\
                  sec' * 1000000000 + nsec = (sec * 1000000000 + nsec) + INTERVAL) /\
  (forall s sig k', p_rec s = true -> Ivv.Gen.LeafPopen.popen_signum (p_kills s) = Some (sig, k') ->
     p_kills (timer_handler s) = k' /\
     (p_dead s = false ->
        p_log (timer_handler s) = PKill sig (p_now s) :: p_log s /\ p_timer (timer_handler s) = Some (p_now s + INTERVAL))) /\
  (forall s, p_parent s = true -> p_reqchild s = true -> p_rec s = true ->
     Some (p_kills (close s)) = Ivv.Gen.LeafPopen.popen_close_kills tt).
Proof.
  exact (conj Ivv.Misc.PopenLink.leaf_signum_all (conj Ivv.Misc.PopenLink.leaf_signum_values (conj Ivv.Misc.PopenLink.leaf_rearm
        (conj Ivv.Misc.PopenLink.timer_handler_is_the_code Ivv.Misc.PopenLink.close_is_the_code)))).
Qed.
Print Assumptions C19_escalation_is_the_code.

(* Once the termination of the child has been reaped (by any thread; before the close or between any two
   signals) no further signal is sent, whatever happens afterwards. *)
Theorem C19_no_signal_after_reap : forall now o1 o2,
  p_kid (erun (submitted now) o1) = Reaped ->
  filter is_kill (p_log (erun (submitted now) (o1 ++ o2))) = filter is_kill (p_log (erun (submitted now) o1)).
Proof. exact no_signal_after_reap. Qed.
Print Assumptions C19_no_signal_after_reap.

(* Released.  At every point of every run: no abort (iv_timer_unregister of an unregistered timer), no use
   after free, the record is freed at most once; once it is freed the wait interest is unregistered, the timer
   is not registered, no loop object is held and the child has been reaped (no zombie).  While a closed
   request's record exists its timer is registered (the child keeps being signalled / the clean-up stays
   armed); and once the termination is reaped the next expiry of that timer releases everything without
   sending a signal.  (The request structure is written only while p_parent holds: Misc/PopenModel.wait_handler.) *)
Theorem C19_released : forall now o, let s := erun (submitted now) o in
  p_err s = None /\ p_frees s <= 1 /\
  (p_rec s = false -> p_wait_reg s = false /\ p_timer s = None /\ objs s = 0 /\ p_frees s = 1 /\ p_kid s = Reaped) /\
  (p_parent s = false -> p_rec s = true -> p_timer s <> None) /\
  (p_parent s = false -> p_kid s = Reaped -> p_rec s = true ->
     forall e, p_timer s = Some e -> e <= p_now s ->
       p_rec (timer_handler s) = false /\ objs (timer_handler s) = 0 /\ p_log (timer_handler s) = p_log s /\ p_frees (timer_handler s) = 1).
Proof. exact released. Qed.
Print Assumptions C19_released.

(* Descriptor wiring (transcription of iv_popen_request_submit / iv_popen_child): for type "r" the parent gets
   the read end and has closed the write end, the child has the write end on fd 1 and /dev/null on fd 0 and
   fd 2 and none of the temporaries; mirrored for type "w".  pr, pw = the pipe, dn = the /dev/null descriptor. *)
Theorem C19_submit_result : forall pr pw dn, 2 < pr -> 2 < pw -> 2 < dn -> pr <> pw -> pr <> dn -> pw <> dn ->
  (fst (parent_script true pr pw) = pr /\ snd (parent_script true pr pw) pr = Some PipeR /\ snd (parent_script true pr pw) pw = None /\
   child_script true pr pw dn 1 = Some PipeW /\ child_script true pr pw dn 0 = Some DevNull /\ child_script true pr pw dn 2 = Some DevNull /\
   child_script true pr pw dn pr = None /\ child_script true pr pw dn pw = None /\ child_script true pr pw dn dn = None) /\
  (fst (parent_script false pr pw) = pw /\ snd (parent_script false pr pw) pw = Some PipeW /\ snd (parent_script false pr pw) pr = None /\
   child_script false pr pw dn 0 = Some PipeR /\ child_script false pr pw dn 1 = Some DevNull /\ child_script false pr pw dn 2 = Some DevNull /\
   child_script false pr pw dn pr = None /\ child_script false pr pw dn pw = None /\ child_script false pr pw dn dn = None).
Proof. exact submit_result. Qed.
Print Assumptions C19_submit_result.

(* Non-vacuity: the child ignores SIGTERM.  Close at 1 s; five SIGTERM at 1, 6, .., 21 s, SIGKILL at 26 s; the
   child dies, is reaped (after a stop/continue pair reported earlier); the completion frees the record. *)
Definition sec (n : Z) : Z := n * 1000000000.
Definition ex_oracle : list env :=
  [EAdvance (sec 1); EChild 4991; EReap; ECompletion; EClose; ETimer;
   EAdvance (sec 5); ETimer; EChild 65535; EAdvance (sec 5); EReap; ETimer; ECompletion;
   EAdvance (sec 5); ETimer; EAdvance (sec 5); ETimer; EAdvance (sec 5); ETimer;
   EChild 9; ETimer; EReap; EAdvance (sec 5); ECompletion; ETimer; EAdvance (sec 5); ETimer].

Example C19_nonvacuous :
  let s := erun (submitted 0) ex_oracle in
  oracle_ok true (submitted 0) ex_oracle /\
  rev (p_log s) = [PReap 4991; PClose (sec 1); PKill SIGTERM (sec 1); PKill SIGTERM (sec 6); PReap 65535; PKill SIGTERM (sec 11);
                   PKill SIGTERM (sec 16); PKill SIGTERM (sec 21); PKill SIGKILL (sec 26); PReap 9] /\
  pcheck true (rev (p_log s)) = true /\ pfinal true (rev (p_log s)) = true /\
  p_rec s = false /\ p_frees s = 1 /\ objs s = 0 /\ p_kid s = Reaped /\ p_err s = None.
Proof.
  vm_compute. repeat split; intros; try discriminate; try reflexivity;
    match goal with H : Some _ = Some _ |- _ => inversion H; subst; clear H end;
    match goal with H : _ = Gt |- _ => vm_compute in H; discriminate H end.
Qed.
