(* Properties_C04.v -- property C04: Timers fire exactly once, never early, and the loop never oversleeps.  Statements only.
   Every theorem quantifies over ALL well-formed scenarios: all handler scripts, all kernel behaviours the scenario
   language can express (conditions changed at any point, ready order rotations, external posts), all four poll
   methods, all fault sets (EINTR at any wait / epoll_ctl, missing system calls), any wait limit. *)
From Coq Require Import List ZArith Bool Lia.
From Ivv Require Import Core.Kernel Core.CoreTypes Core.CoreFd Core.CoreModel Core.Monitors Core.GuardMon Core.CoreSpec
  Core.CoreInv Core.CoreRel Core.CorePhase2Time Core.FairMon Core.FairMonProof Core.CoreExamples Base.LeafLink.
Import ListNotations.
Local Open Scope Z_scope.

Definition no_code (codes : list Z) (tr : list Z) : Prop := forall c, In c tr -> ~ In c codes.

(* never early (401), loop clock <= true clock (406), no timer due when the loop sleeps (403), no oversleep beyond the
   earliest expiry rounded up to a millisecond on the ms back ends (404), never blocked for ever with a timer
   registered (405), clock monotone across waits (407); at most once per registration is clause 102 *)
Theorem C04_timers :
  forall sc, wf_scenario sc -> mon_C04 (run_scenario sc) = true /\ no_code [102] (mon_fails (run_scenario sc)).
Proof. exact core_mon_C04. Qed.
Print Assumptions C04_timers.

(* the time arithmetic is that of the translated C functions *)
Theorem C04_to_msec_is_the_code :
  forall ts tn as_ an, ok_nsec tn -> ok_nsec an -> Ivv.Gen.Leaf.to_msec ts tn 1 as_ an = msec_of_rel (if ns ts tn <? ns as_ an then ns as_ an - ns ts tn else 0).
Proof. exact leaf_to_msec. Qed.
Print Assumptions C04_to_msec_is_the_code.

Theorem C04_to_msec_rounds_up :
  forall r, 0 <= r -> r / NS < 86400 -> r <= msec_of_rel r * 1000000 < r + 1000000.
Proof. exact msec_of_rel_bounds. Qed.
Print Assumptions C04_to_msec_rounds_up.

Theorem C04_timespec_cmp_is_the_code :
  forall as_ an bs bn, ok_nsec an -> ok_nsec bn -> Ivv.Gen.Leaf.timespec_cmp 1 as_ an bs bn = abs_cmp (Some (ns as_ an)) (ns bs bn).
Proof. exact leaf_timespec_cmp. Qed.
Print Assumptions C04_timespec_cmp_is_the_code.

(* "invoked exactly once ... unless unregistered first", the dispatch half: every timer that is registered and due when
   a kernel wait returns is run (or unregistered by another handler) before the loop enters the next wait AND before
   iv_main returns -- a handler of the same expired batch that calls iv_quit, or tasks that keep the loop from
   sleeping, do not make the loop abandon or postpone it (monitor Core/FairMon.v, clause 605) *)
Theorem C04_due_timers_run :
  forall sc, wf_scenario sc -> fair_fails (run_scenario sc) = [].
Proof. exact core_fair. Qed.
Print Assumptions C04_due_timers_run.

(* non-vacuity: a well-formed run on every poll method in which a timer registered 5 ms ahead fires exactly at its
   expiry (loop clock 1005000000 = registration time + 5 ms) after a wait that slept until then *)
Example C04_nonvacuous :
  forall be, In be [0; 1; 2; 3] ->
    wf_scenario (ex_all be) /\ In (TCallTimer 0 1005000000) (run_scenario (ex_all be)) /\ mon_fails (run_scenario (ex_all be)) = [].
Proof.
  intros be H. split; [apply ex_all_wf; cbn [In] in H; intuition lia|].
  pose proof (ex_all_runs be H) as R. cbv zeta in R. tauto.
Qed.

(* ---- tie (a): the decision points the model uses at this place ARE the current C text (Core/CoreLeafLink.v;
   Gen/LeafCore*.v is re-translated from /repo/src by gen/c2gallina.py on every run of this check) ---- *)
From Ivv Require Import Base.CSem Gen.LeafCoreFd Gen.LeafCoreTask Gen.LeafCoreMain Gen.LeafCoreEpoll Gen.LeafCorePoll Core.CoreLeafLink.

(* iv_fd_timeout_check (when the deadline moves into the kernel timer, when it is kept, cleared, counted) is built from
   the translated tests and stores of the C function *)
Theorem C04_timeout_check_is_the_code :
  forall s abs, int_ok (last_abs_count s + 1) -> timeout_check_code s abs = Some (timeout_check s abs).
Proof. exact timeout_check_is_the_code. Qed.
Print Assumptions C04_timeout_check_is_the_code.

Theorem C04_run_timers_reset_is_the_code :
  forall rt : bool, core_par_rt (b2z rt) = Some rt /\ core_par_count_reset tt = Some 0.
Proof. exact poll_and_run_reset_is_the_code. Qed.
Print Assumptions C04_run_timers_reset_is_the_code.

(* non-vacuity of the hypotheses of the *_is_the_code theorems above: the initial loop state of a well-formed scenario, on
   every poll method, has its int-typed counters in int range *)
Example C04_link_hypotheses_hold :
  forall be, In be [0; 1; 2; 3] ->
    int_ok (last_abs_count (core0 (ex_all be)) + 1) /\ int_ok (numobjs (core0 (ex_all be)) + 1).
Proof.
  intros be H. cbn [In] in H. unfold int_ok.
  destruct H as [<-|[<-|[<-|[<-|[]]]]]; vm_compute; repeat split; discriminate.
Qed.
