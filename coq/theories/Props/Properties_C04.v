(* Properties_C04.v -- property C04: Timers fire exactly once, never early, and the loop never oversleeps.  Statements only.
   Every theorem quantifies over ALL well-formed scenarios: all handler scripts, all kernel behaviours the scenario
   language can express, all four poll methods, all fault sets, any wait limit.
   STATUS: the full statement of this property on the core model is `mon_C04 (run_scenario sc) = true /\ no_code [102] ...`
   (see Properties_C04.v.draft); the theorems below are the monitor clauses already proved (named _partial);
   the remaining clauses (401 403 404 405) are checked on every implementation AND model trace by the extracted monitor
   while their proofs are being completed. *)
From Coq Require Import List ZArith Bool.
From Ivv Require Import Core.Kernel Core.CoreTypes Core.CoreFd Core.CoreModel Core.Monitors Core.CoreSpec
  Core.CoreRel Core.CoreCodes Base.LeafLink.
Import ListNotations.
Local Open Scope Z_scope.

(* at most once per registration (102); the loop clock shown to a timer handler never runs ahead of the true clock
   (406) and time never runs backwards across a wait (407) *)
Theorem C04_at_most_once_partial :
  forall sc, wf_scenario sc -> no_code [102] (mon_fails (run_scenario sc)).
Proof. intros sc Hwf. eapply no_code_sub; [|exact (codes_C01 sc Hwf)]. simpl; intros c Hc; intuition. Qed.
Print Assumptions C04_at_most_once_partial.

Theorem C04_clock_partial :
  forall sc, wf_scenario sc -> no_code [406; 407] (mon_fails (run_scenario sc)).
Proof. intros sc Hwf. eapply no_code_sub; [|exact (codes_handlers sc Hwf)]. simpl; intros c Hc; intuition. Qed.
Print Assumptions C04_clock_partial.

(* the time arithmetic of the model is that of the C functions (re-translated from the source on every run) *)
Theorem C04_to_msec_is_the_code :
  forall ts tn as_ an, ok_nsec tn -> ok_nsec an -> Ivv.Gen.Leaf.to_msec ts tn 1 as_ an = msec_of_rel (if ns ts tn <? ns as_ an then ns as_ an - ns ts tn else 0).
Proof. exact leaf_to_msec. Qed.
Print Assumptions C04_to_msec_is_the_code.

Theorem C04_to_msec_rounds_up :
  forall r, 0 <= r -> r / NS < 86400 -> r <= msec_of_rel r * 1000000 < r + 1000000.
Proof. exact msec_of_rel_bounds. Qed.
Print Assumptions C04_to_msec_rounds_up.

Theorem C04_timespec_gt_is_the_code :
  forall as_ an bs bn, ok_nsec an -> ok_nsec bn -> Ivv.Gen.Leaf.timespec_gt as_ an bs bn = if ns bs bn <? ns as_ an then 1 else 0.
Proof. exact leaf_timespec_gt. Qed.
Print Assumptions C04_timespec_gt_is_the_code.

Theorem C04_timespec_cmp_is_the_code :
  forall as_ an bs bn, ok_nsec an -> ok_nsec bn -> Ivv.Gen.Leaf.timespec_cmp 1 as_ an bs bn = abs_cmp (Some (ns as_ an)) (ns bs bn).
Proof. exact leaf_timespec_cmp. Qed.
Print Assumptions C04_timespec_cmp_is_the_code.

