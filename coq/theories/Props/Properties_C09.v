(* Properties_C09.v -- property C09: iv_event_raw: posts from threads, signal handlers, children reach the owner.  Statements only.
   Every theorem quantifies over ALL well-formed scenarios: all handler scripts, all kernel behaviours the scenario
   language can express, all four poll methods, all fault sets, any wait limit.
   STATUS: the full statement of this property on the core model is `mon_C09 (run_scenario sc) = true`
   (see Properties_C09.v.draft); the theorems below are the monitor clauses already proved (named _partial);
   the remaining clauses (901 902) are checked on every implementation AND model trace by the extracted monitor
   while their proofs are being completed. *)
From Coq Require Import List ZArith Bool.
From Ivv Require Import Core.Kernel Core.CoreTypes Core.CoreFd Core.CoreModel Core.Monitors Core.CoreSpec
  Core.CoreRel Core.CoreCodes.
Import ListNotations.
Local Open Scope Z_scope.

(* a raw-event callback is only for a registered object *)
Theorem C09_registered_partial :
  forall sc, wf_scenario sc -> no_code [105] (mon_fails (run_scenario sc)).
Proof. intros sc Hwf. eapply no_code_sub; [|exact (codes_C01 sc Hwf)]. simpl; intros c Hc; intuition. Qed.
Print Assumptions C09_registered_partial.

