(* Properties_C09.v -- property C09: iv_event_raw: posts from threads, signal handlers, children reach the owner.  Statements only.
   Every theorem quantifies over ALL well-formed scenarios: all handler scripts, all kernel behaviours the scenario
   language can express (conditions changed at any point, ready order rotations, external posts), all four poll
   methods, all fault sets (EINTR at any wait / epoll_ctl, missing system calls), any wait limit. *)
From Coq Require Import List ZArith Bool Lia.
From Ivv Require Import Core.Kernel Core.CoreTypes Core.CoreFd Core.CoreModel Core.Monitors Core.GuardMon Core.CoreSpec
  Core.CoreInv Core.CoreRel Core.CorePhase2TimeC09 Core.CoreExamples.
Import ListNotations.
Local Open Scope Z_scope.

Definition no_code (codes : list Z) (tr : list Z) : Prop := forall c, In c tr -> ~ In c codes.

(* a raw-event callback only for a registered object (105); the loop never sleeps (902) nor blocks for ever (901)
   while a post made after the last handler entry is undelivered -- on eventfd2, old eventfd and the pipe fall-back *)
Theorem C09_raw_posts_delivered :
  forall sc, wf_scenario sc -> mon_C09 (run_scenario sc) = true.
Proof. exact core_mon_C09. Qed.
Print Assumptions C09_raw_posts_delivered.

(* non-vacuity: a well-formed run on every poll method in which a raw event is posted from a timer handler, the next
   wait returns at once with the raw event's descriptor reported and its handler runs *)
Example C09_nonvacuous :
  forall be, In be [0; 1; 2; 3] ->
    wf_scenario (ex_all be) /\ In (TCallRaw 0) (run_scenario (ex_all be)) /\ mon_fails (run_scenario (ex_all be)) = [].
Proof.
  intros be H. split; [apply ex_all_wf; cbn [In] in H; intuition lia|].
  pose proof (ex_all_runs be H) as R. cbv zeta in R. tauto.
Qed.
