(* Properties_C09.v -- property C09: iv_event_raw: posts from threads, signal handlers, children reach the owner.  Statements only.
   Every theorem quantifies over ALL well-formed scenarios: all handler scripts, all kernel behaviours the scenario
   language can express (conditions changed at any point, ready order rotations, external posts), all four poll
   methods, all fault sets (EINTR at any wait / epoll_ctl, missing system calls), any wait limit. *)
From Coq Require Import List ZArith Bool Lia.
From Ivv Require Import Core.Kernel Core.CoreTypes Core.CoreFd Core.CoreModel Core.Monitors Core.GuardMon Core.CoreSpec
  Core.CoreInv Core.CoreRel Core.CorePhase2TimeC09 Core.CoreExamples.
Import ListNotations.
Local Open Scope Z_scope.

Definition no_code (codes : list Z) (tr : list Z) : Prop := forall c, In c tr -> ~ In c codes.

(* a raw-event callback only for a registered object (105); the loop never sleeps (902) nor blocks for ever (901)
   while a post made after the last handler entry is undelivered -- on eventfd2, old eventfd and the pipe fall-back *)
Theorem C09_raw_posts_delivered :
  forall sc, wf_scenario sc -> mon_C09 (run_scenario sc) = true.
Proof. exact core_mon_C09. Qed.
Print Assumptions C09_raw_posts_delivered.

(* non-vacuity: a well-formed run on every poll method in which a raw event is posted from a timer handler, the next
   wait returns at once with the raw event's descriptor reported and its handler runs *)
Example C09_nonvacuous :
  forall be, In be [0; 1; 2; 3] ->
    wf_scenario (ex_all be) /\ In (TCallRaw 0) (run_scenario (ex_all be)) /\ mon_fails (run_scenario (ex_all be)) = [].
Proof.
  intros be H. split; [apply ex_all_wf; cbn [In] in H; intuition lia|].
  pose proof (ex_all_runs be H) as R. cbv zeta in R. tauto.
Qed.

(* ---- tie (a), round 9: eventfd-backed vs pipe-backed is decided per object and the read / write sizes and the second
   close follow from it, as in the current C text of src/iv_event_raw_posix.c (Core/CoreLeafLink.v; Gen/LeafCoreRaw.v is
   re-translated by gen/c2gallina.py on every run of this check) ---- *)
From Ivv Require Import Base.CSem Gen.LeafCoreRaw Core.CoreLeafLink.

Theorem C09_raw_sizes_are_the_code :
  forall s j,
  raw_toread (rw_wfd s j) (rw_rfd s j) = Some (if raw_is_pipe s j then 1024 else 8) /\
  raw_post_pipe (rw_wfd s j) (rw_rfd s j) = Some (raw_is_pipe s j) /\
  raw_unreg_pipe (rw_wfd s j) (rw_rfd s j) = Some (raw_is_pipe s j) /\
  raw_post_size_pipe tt = Some 1 /\ raw_post_size_efd tt = Some 8.
Proof. exact leaf_raw_sizes. Qed.
Print Assumptions C09_raw_sizes_are_the_code.

Theorem C09_raw_post_is_the_code :
  forall s j,
  match raw_post_pipe (rw_wfd s j) (rw_rfd s j), raw_post_size_pipe tt, raw_post_size_efd tt with
  | Some pipe, Some n1, Some n8 =>
      Some (set_kern s (fst (if pipe then k_write (kern s) (rw_wfd s j) n1 0 else k_write (kern s) (rw_wfd s j) n8 1)))
  | _, _, _ => None
  end = Some (raw_post s j).
Proof. exact raw_post_is_the_code. Qed.
Print Assumptions C09_raw_post_is_the_code.

Theorem C09_raw_unregister_is_the_code :
  forall s j,
  raw_unregister s j =
  bind (fd_unregister s (RAW_KEY j)) (fun s =>
    let s := do_close s (rw_rfd s j) in
    match raw_unreg_pipe (rw_wfd s j) (rw_rfd s j) with
    | Some pipe =>
        let s := if pipe then do_close s (rw_wfd s j) else s in
        R (set_rw s (upd (rw_reg s) j false) (rw_rfd s) (rw_wfd s))
    | None => halt s TCrash
    end).
Proof. exact raw_unregister_is_the_code. Qed.
Print Assumptions C09_raw_unregister_is_the_code.
