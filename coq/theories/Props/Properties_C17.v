(* Properties_C17.v -- property C17: iv_fd_pump relays the byte stream intact
   and reports its state truthfully.  Statements only; every proof is
   `exact <lemma of Pump/PumpProofs.v>`.

   Vocabulary (Pump/PumpModel.v): a `world` is one thread with n pump slots
   sharing the per-thread buffer cache, in transfer mode m (RW: read/write
   through the 4096-byte buffer, SP: splice through a pipe).  `run` executes a
   history `ops` (init / destroy / pump / is_done on any slot, every pump call
   with its own oracle: the answers of the kernel to each read / splice /
   FIONREAD / write attempt and of malloc) and returns the final world and the
   trace (per operation: return code and ordered list of effects).  All
   theorems quantify over ALL histories, i.e. all input lengths and chunkings,
   back-pressure patterns, EOF offsets, EINTR patterns, error points, both
   modes, any number of pumps. *)

From Coq Require Import List ZArith Bool.
From Ivv Require Import Pump.PumpModel Pump.PumpMonitor Pump.PumpBasics Pump.PumpProofs.
Import ListNotations.
Local Open Scope Z_scope.

(* `hist_of k tr hist0` (PumpProofs.v) reads off the trace what pump k did since
   its last init:  h_consumed = concatenation of the bytes returned by its
   read/splice-in calls, h_written = concatenation of the bytes accepted by
   its write/splice-out calls, h_shut = number of shutdown(SHUT_WR) calls,
   h_eof = some input attempt returned 0. *)

(* No model step ever reaches a crash outcome (NULL buffer, uninitialised
   data, buffer overflow, blocking splice, iv_fatal). *)
Theorem C17_no_crash :
  forall m n ops o oc, ~ In (o, Bad oc) (snd (run (world0 m n) ops)).
Proof. exact pump_no_bad_outcome. Qed.
Print Assumptions C17_no_crash.

(* written ++ buffered = consumed at all times: nothing lost, duplicated or
   reordered; the buffered amount is ip->bytes and never exceeds the capacity.
   (After a failed call the buffer has been released: what was written is
   still a prefix of what was consumed.) *)
Theorem C17_stream_intact :
  forall m n ops k s,
    nth_error (w_slots (fst (run (world0 m n) ops))) k = Some (Some s) ->
    let h := hist_of k (snd (run (world0 m n) ops)) hist0 in
    exists buffered,
      h_written h ++ buffered = h_consumed h /\
      (s_dead s = false -> buf (s_p s) = buffered) /\
      bytes (s_p s) = zlen buffered /\ zlen buffered <= cap m.
Proof. exact stream_intact. Qed.
Print Assumptions C17_stream_intact.

(* shutdown is issued at most once, only with RELAY_EOF, and exactly when
   saw_fin = 2;  saw_fin = 2 iff EOF was seen and everything consumed has
   been written;  saw_fin = 0 iff no EOF was seen. *)
Theorem C17_eof_after_drain :
  forall m n ops k s,
    nth_error (w_slots (fst (run (world0 m n) ops))) k = Some (Some s) ->
    let h := hist_of k (snd (run (world0 m n) ops)) hist0 in
    let p := s_p s in
    (saw_fin p = 0 \/ saw_fin p = 1 \/ saw_fin p = 2) /\
    h_shut h = (if s_relay s && (saw_fin p =? 2) then 1 else 0) /\
    (saw_fin p = 0 <-> h_eof h = false) /\
    (saw_fin p = 2 <-> h_eof h = true /\ h_written h = h_consumed h) /\
    (saw_fin p = 1 -> bytes p <> 0) /\ (saw_fin p = 2 -> bytes p = 0).
Proof. exact eof_after_drain. Qed.
Print Assumptions C17_eof_after_drain.

(* A pump call on any reachable pump that has not failed before: -1 exactly
   when an I/O error / write returning 0 / malloc failure occurred in this
   call, 0 exactly when (no error and) saw_fin = 2 afterwards, 1 otherwise. *)
Theorem C17_return_code :
  forall m s cache o,
    reachable m s cache -> s_dead s = false ->
    let r := pump_call m (s_relay s) cache (s_p s) o in
    r_oc r = Ok /\
    (r_ret r = -1 <-> has_error (r_eff r) = true) /\
    (r_ret r = 0 <-> has_error (r_eff r) = false /\ saw_fin (r_p r) = 2) /\
    (r_ret r = 1 <-> has_error (r_eff r) = false /\ saw_fin (r_p r) <> 2).
Proof. exact return_code. Qed.
Print Assumptions C17_return_code.

(* ... and 0 on every later call: nothing is read, written or changed. *)
Theorem C17_done_stays_done :
  forall m s cache o,
    reachable m s cache -> s_dead s = false -> saw_fin (s_p s) = 2 ->
    let r := pump_call m (s_relay s) cache (s_p s) o in
    r_oc r = Ok /\ r_ret r = 0 /\ r_p r = s_p s /\ r_cache r = cache /\ r_eff r = [EBands false false].
Proof. exact done_stays_done. Qed.
Print Assumptions C17_done_stays_done.

(* The last set_bands(pin, pout) of every successful call:
   saw_fin = 0: pin = not full, pout = (bytes <> 0);  saw_fin = 1: (0,1);  saw_fin = 2: (0,0);
   bytes is the length of the buffered data;  in read/write mode full <-> bytes = 4096;
   before EOF the pump never asks for nothing (no deadlock). *)
Theorem C17_bands_truthful :
  forall m s cache o,
    reachable m s cache -> s_dead s = false ->
    let r := pump_call m (s_relay s) cache (s_p s) o in
    let p' := r_p r in
    r_ret r <> -1 ->
    last_bands (r_eff r) None = Some (expected_bands p') /\
    bytes p' = zlen (buf p') /\ bytes p' <= cap m /\
    (m = RW -> full p' = (bytes p' =? BUF_SIZE)) /\
    (saw_fin p' = 0 -> fst (expected_bands p') = true \/ snd (expected_bands p') = true).
Proof. exact bands_truthful. Qed.
Print Assumptions C17_bands_truthful.

(* The cache never exceeds 20 buffers; every buffer ever allocated is in the
   cache, held by a pump, or was freed (exactly once: the balance is exact);
   a pump holds a buffer iff it has data buffered (and has not failed). *)
Theorem C17_buffer_cache :
  forall m n ops,
    let w := fst (run (world0 m n) ops) in
    let tr := snd (run (world0 m n) ops) in
    0 <= w_cache w <= MAX_CACHED_BUFS /\
    w_cache w = allocs_of tr - frees_of tr - held_w (w_slots w) /\
    forall k s, nth_error (w_slots w) k = Some (Some s) ->
                have_buf (s_p s) = negb (s_dead s) && negb (bytes (s_p s) =? 0).
Proof. exact buffer_cache. Qed.
Print Assumptions C17_buffer_cache.

(* The boolean monitor that the check runs on implementation traces accepts
   every trace of the model (so a rejected implementation trace is a trace no
   model history produces).  The monitor checks, effect by effect: input only
   before EOF and while not full, asking for exactly the room left; output
   only with data pending, offering all of it; bytes written = next pending
   bytes; shutdown only with RELAY_EOF, after EOF, with nothing pending, once;
   nothing after an error; rc and final bands as above; buffer balance in
   [0, 20]. *)
Theorem C17_monitor_accepts :
  forall m n ops, snd (mon_run m (mons0 n) (snd (run (world0 m n) ops))) = true.
Proof. exact pump_monitor_accepts. Qed.
Print Assumptions C17_monitor_accepts.

(* Non-vacuity: a read/write-mode history with partial reads (EINTR first), a
   partial write, back-pressure, EOF with data still buffered, drain, relayed
   shutdown, a second pump that fails on a write error, and destroy. *)
Example C17_nonvacuous :
  let o1 := {| o_alloc := true; o_rd := [REintr; RData [1; 2; 3; 4; 5]]; o_fion := None; o_wr := [WAccept 2] |} in
  let o2 := {| o_alloc := true; o_rd := [RData [6; 7]]; o_fion := None; o_wr := [WWould] |} in
  let o3 := {| o_alloc := true; o_rd := [REof]; o_fion := None; o_wr := [WEintr; WAccept 3] |} in
  let o4 := {| o_alloc := true; o_rd := [RData [9]]; o_fion := None; o_wr := [WAccept 100] |} in
  let o5 := {| o_alloc := true; o_rd := [RData [8; 8]]; o_fion := None; o_wr := [WErr] |} in
  let ops := [Init 0 true; Pump 0 o1; Pump 0 o2; Init 1 false; Pump 0 o3; Pump 1 o5; Pump 0 o4; Pump 0 o4;
              IsDone 0; Pump 1 o5; Destroy 1; Destroy 0] in
  let tr := snd (run (world0 RW 3) ops) in
  map (fun x => match snd x with Done rc _ => rc | Skip => 7 | Bad _ => 9 end) tr
    = [0; 1; 1; 0; 1; -1; 0; 0; 1; 7; 0; 0] /\
  h_consumed (hist_of 0 tr hist0) = [1; 2; 3; 4; 5; 6; 7] /\
  h_written (hist_of 0 tr hist0) = [1; 2; 3; 4; 5; 6; 7] /\
  h_shut (hist_of 0 tr hist0) = 1 /\
  snd (mon_run RW (mons0 3) tr) = true.
Proof. vm_compute. repeat split; reflexivity. Qed.

(* ---- what is NOT true, stated precisely ---- *)

(* (1) Splice mode: "pin <-> buffer space remains (and no EOF)" is false.  `full`
   is a heuristic there (EAGAIN on input + FIONREAD > 0 means "the pipe must
   be full"): when data arrives between the splice and the ioctl the pump
   stops asking for input although the pipe is almost empty -- until the next
   successful write clears `full` (pout is requested, so the stream keeps
   moving; C17_bands_truthful's last clause).  Witness: 1 byte buffered,
   65535 bytes of room, set_bands(0, 1). *)
Theorem C17_splice_pin_iff_space_refuted :
  exists ops,
    let w := fst (run (world0 SP 1) ops) in
    let tr := snd (run (world0 SP 1) ops) in
    exists s es, nth_error (w_slots w) 0 = Some (Some s) /\
      last (map snd tr) Skip = Done 1 es /\
      last_bands es None = Some (false, true) /\
      saw_fin (s_p s) = 0 /\ zlen (buf (s_p s)) = 1 /\ 1 < PIPE_CAP.
Proof.
  exists [Init 0 false;
          Pump 0 {| o_alloc := true; o_rd := [RData [42]]; o_fion := Some 0; o_wr := [WWould] |};
          Pump 0 {| o_alloc := true; o_rd := [RWould]; o_fion := Some 5; o_wr := [WWould] |}].
  vm_compute. eexists. eexists. repeat split; reflexivity.
Qed.
Print Assumptions C17_splice_pin_iff_space_refuted.

(* (2) After iv_fd_pump_pump returned -1 the object must not be pumped again
   (the drivers skip such calls, `s_dead`).  What the code would do: the
   buffer has been released but ip->bytes keeps its value, so the next call
   either dereferences the NULL ip->buf (try_output) or takes a fresh buffer
   whose first ip->bytes bytes are uninitialised and relays them. *)
Theorem C17_pump_after_error_unsafe :
  exists m s cache o1 o2,
    reachable m s cache /\ s_dead s = false /\
    let r1 := pump_call m (s_relay s) cache (s_p s) o1 in
    r_oc r1 = Ok /\ r_ret r1 = -1 /\
    r_oc (pump_call m (s_relay s) (r_cache r1) (r_p r1) o2) = Garbage.
Proof.
  exists RW, {| s_p := pump_init; s_relay := false; s_dead := false |}, 0,
    {| o_alloc := true; o_rd := [RData [1; 2; 3]]; o_fion := None; o_wr := [WErr] |},
    {| o_alloc := true; o_rd := [RData [4]]; o_fion := None; o_wr := [WAccept 10] |}.
  split; [exists 1%nat, [Init 0 false], 0%nat; vm_compute; split; reflexivity|].
  vm_compute. repeat split; reflexivity.
Qed.
Print Assumptions C17_pump_after_error_unsafe.
