(* Properties_C18.v -- property C18: Memory/descriptor hygiene: only owned memory touched, everything released.  Statements only.
   Every theorem quantifies over ALL well-formed scenarios: all handler scripts, all kernel behaviours the scenario
   language can express (conditions changed at any point, ready order rotations, external posts), all four poll
   methods, all fault sets (EINTR at any wait / epoll_ctl, missing system calls), any wait limit. *)
From Coq Require Import List ZArith Bool Lia.
From Ivv Require Import Core.Kernel Core.CoreTypes Core.CoreFd Core.CoreModel Core.Monitors Core.GuardMon Core.CoreSpec
  Core.CoreInv Core.CoreRel Core.CoreCodes Core.CoreCodes2 Core.CoreExamples.
From Ivv Require Small.TlsModel Small.TlsProofs Small.TlsLink Gen.LeafTls.
From Ivv Require Small.ListPtrModel Small.ListPtrBase Small.ListPtrOps Small.ListPtrOps2 Small.ListPtrOps3 Small.ListPtrTop
  Small.ListPtrHist.
Import ListNotations.
Local Open Scope Z_scope.


(* no out-of-model access and no abort (1801/1804: array bounds of the poll back end, heap and radix indices,
   NULL slots), every descriptor the library created is closed after iv_deinit (1802), accounting zero after
   tear-down (706) *)
Theorem C18_hygiene :
  forall sc, wf_scenario sc -> mon_C18 (run_scenario sc) = true /\ no_code [706] (mon_fails (run_scenario sc)).
Proof. exact core_mon_C18. Qed.
Print Assumptions C18_hygiene.

(* the model only calls handlers of objects that are registered (the access discipline behind "only owned memory or
   registered objects") *)
Theorem C18_only_registered_objects :
  forall sc, wf_scenario sc -> no_code [101; 102; 103; 104; 105] (mon_fails (run_scenario sc)).
Proof. exact CoreCodes.codes_C01. Qed.
Print Assumptions C18_only_registered_objects.

(* the state invariant behind 1801/1804: no well-formed run reaches an out-of-model access or a library abort *)
Theorem C18_no_crash :
  forall sc, wf_scenario sc -> ~ In TCrash (run_scenario sc) /\ ~ In TFatal (run_scenario sc).
Proof. exact core_no_crash. Qed.
Print Assumptions C18_no_crash.

(* non-vacuity: a well-formed run on every poll method that uses every kind of object and ends with all library
   descriptors closed (TDone 0) and zero accounting (TEnd 0 0) *)
Example C18_nonvacuous :
  forall be, In be [0; 1; 2; 3] ->
    wf_scenario (ex_all be) /\ In (TEnd 0 0) (run_scenario (ex_all be)) /\ In (TDone 0) (run_scenario (ex_all be)) /\
    In (TCallRaw 0) (run_scenario (ex_all be)).
Proof.
  intros be H. split; [apply ex_all_wf; cbn [In] in H; intuition lia|].
  pose proof (ex_all_runs be H) as R. cbv zeta in R. tauto.
Qed.


(* ======================================================================================================
   The two small pieces every other model abstracts away, inside the verified model:
   src/iv_tls.c (the per-thread state block with module areas at aligned offsets) and
   src/include/iv_list.h (the intrusive circular doubly linked lists under every registration list).
   ====================================================================================================== *)

Section Tls.
Import Small.TlsModel Small.TlsProofs.

(* iv_tls.c layout.  For EVERY sequence of registrations made before iv_init with sizes >= 0 and every
   sizeof(struct iv_state) = S >= 1: registration never aborts and keeps ids / sizes / hooks / order; the total
   is a multiple of 16 and >= S; every offset is a multiple of 16, >= S (so the area is disjoint from struct
   iv_state = [0, S)), not 0 (so the "unregistered" test of __iv_tls_user_ptr cannot misfire), and the area
   [off, off + size) lies inside [0, total); areas are laid out in registration order (before u v = u's area ends
   at or before v's starts) hence pairwise disjoint; the total is align16 S + the sum of the sizes rounded up *)
Theorem C18_tls_areas_disjoint_aligned :
  forall S us, 1 <= S -> sizes_ok us ->
  exists t, tls_register_all (tls_start S) us = Done t /\
    map u_id (t_users t) = map u_id us /\ map u_size (t_users t) = map u_size us /\
    map u_init (t_users t) = map u_init us /\ map u_deinit (t_users t) = map u_deinit us /\
    tls_total_state_size t mod 16 = 0 /\ S <= tls_total_state_size t /\
    Forall (fun u => u_off u mod 16 = 0 /\ S <= u_off u /\ u_off u <> 0 /\
                     0 <= u_off u /\ u_off u + u_size u <= tls_total_state_size t) (t_users t) /\
    ForallOrdPairs before (t_users t) /\
    ForallOrdPairs area_disjoint (t_users t) /\
    tls_total_state_size t = align16 S + fold_right (fun u acc => align16 (u_size u) + acc) 0 us.
Proof. exact tls_areas_disjoint_aligned. Qed.
Print Assumptions C18_tls_areas_disjoint_aligned.

(* iv_tls_thread_init calls every non-NULL init hook exactly once, in registration order, each with the area of
   its own user; iv_tls_thread_deinit likewise; after iv_init every registration attempt aborts *)
Theorem C18_tls_hooks_order :
  forall S us, 1 <= S -> sizes_ok us -> NoDup (map u_id us) ->
  exists t, tls_register_all (tls_start S) us = Done t /\
    let '(t1, ic) := tls_thread_init t in
    let dc := tls_thread_deinit t1 in
    map fst ic = map u_id (filter u_init us) /\ NoDup (map fst ic) /\
    map fst dc = map u_id (filter u_deinit us) /\ NoDup (map fst dc) /\
    (forall id off, In (id, off) ic -> exists u, In u (t_users t) /\ u_id u = id /\ u_off u = off /\ u_init u = true) /\
    (forall id off, In (id, off) dc -> exists u, In u (t_users t) /\ u_id u = id /\ u_off u = off /\ u_deinit u = true) /\
    (forall u, tls_user_register t1 u = Fatal).
Proof. exact tls_hooks_order. Qed.
Print Assumptions C18_tls_hooks_order.

(* __iv_tls_user_ptr: a registered user gets state + its offset (NULL without a state block), never the abort;
   a struct whose state_offset is still 0 aborts *)
Theorem C18_tls_user_ptr :
  (forall S us, 1 <= S -> sizes_ok us ->
     exists t, tls_register_all (tls_start S) us = Done t /\
       forall u, In u (t_users t) ->
         tls_user_ptr true u = Done (Some (u_off u)) /\ tls_user_ptr false u = Done None) /\
  (forall b u, u_off u = 0 -> tls_user_ptr b u = Fatal).
Proof. split; [exact tls_user_ptr_registered | exact tls_user_ptr_unregistered]. Qed.
Print Assumptions C18_tls_user_ptr.

(* the bit arithmetic: (x + 15) & ~15 = 16 * ((x + 15) / 16); and the int-overflow bound, explicit: the C
   computation (int + size_t in unsigned long, & (unsigned long)~15, converted back to int) equals the model's as
   long as last_offset + sizeof_state <= 2^31 - 16; the first sizes beyond that store a NEGATIVE last_offset; for a
   whole registration sequence it suffices that the final total stays below 2^31 *)
Theorem C18_tls_offset_arith :
  (forall x, 0 <= x < 2147483648 - 15 ->
     align16 x = 16 * ((x + 15) / 16) /\ x <= align16 x < x + 16 /\ align16 x mod 16 = 0 /\ align16 x < 2147483648) /\
  (forall last size, 0 <= last -> 0 <= size -> last + size <= 2147483648 - 16 ->
     c_advance last size = tls_advance last size) /\
  (forall last size, 0 <= last -> 0 <= size -> 2147483648 - 16 < last + size <= 4294967296 - 16 ->
     c_advance last size = tls_advance last size - 4294967296 /\ c_advance last size < 0) /\
  (forall us last, 0 <= last -> last mod 16 = 0 -> sizes_ok us ->
     last + fold_right (fun u acc => align16 (u_size u) + acc) 0 us < 2147483648 ->
     forall l1 u l2, us = l1 ++ u :: l2 ->
       let cur := last + fold_right (fun u acc => align16 (u_size u) + acc) 0 l1 in
       c_advance cur (u_size u) = tls_advance cur (u_size u)).
Proof.
  split; [exact align16_int_range |]. split; [exact c_advance_exact |]. split; [exact c_advance_overflow |].
  exact tls_no_int_overflow.
Qed.
Print Assumptions C18_tls_offset_arith.

(* tie (a): the translation of iv_tls_user_register and of the initialiser of last_offset, regenerated from the
   current C source on every run (Gen/LeafTls.v), IS the model's computation: stored state_offset, new last_offset,
   the abort after iv_init, and the list primitive called (1 = iv_list_add_tail) *)
Theorem C18_tls_leaf :
  (forall S, Ivv.Gen.LeafTls.tls_initial_offset S = t_last (tls_start S)) /\
  (forall t u,
     Ivv.Gen.LeafTls.tls_user_register (u_size u) (if t_inited t then 1 else 0) (t_last t) =
     match tls_user_register t u with
     | Done (t', u') => Some (0, u_off u', t_last t', 1)
     | Fatal => None
     end).
Proof. split; [exact Small.TlsLink.leaf_tls_initial_offset | exact Small.TlsLink.leaf_tls_user_register]. Qed.
Print Assumptions C18_tls_leaf.

(* non-vacuity: S = 1424 (the value on this platform), the five users the library registers plus four of the
   harness with sizes 24, 0, 100, 7: offsets as observed on the implementation, hooks in order *)
Example C18_tls_nonvacuous :
  let us := [mkUser 1000 80 true false 0; mkUser 1001 24 true true 0; mkUser 1002 16 true false 0;
             mkUser 1003 16 true true 0; mkUser 1004 232 true false 0;
             mkUser 0 24 true true 0; mkUser 1 0 true false 0; mkUser 2 100 false false 0; mkUser 3 7 false true 0] in
  sizes_ok us /\ NoDup (map u_id us) /\
  match tls_run_all 1424 us with
  | Done r => map u_off (r_users r) = [1424; 1504; 1536; 1552; 1568; 1808; 1840; 1840; 1952] /\ r_total r = 1968 /\
              map fst (r_init_calls r) = [1000; 1001; 1002; 1003; 1004; 0; 1] /\
              map fst (r_deinit_calls r) = [1001; 1003; 0; 3] /\ r_late r = true
  | Fatal => False
  end /\
  c_advance 2147483632 1 = -2147483648.
Proof.
  cbv zeta. split; [| split; [| split]].
  - repeat constructor; discriminate.
  - repeat constructor; cbn; intuition discriminate.
  - vm_compute. repeat split; reflexivity.
  - vm_compute. reflexivity.
Qed.
End Tls.

Section Lists.
Import Small.ListPtrModel Small.ListPtrBase Small.ListPtrOps Small.ListPtrOps2 Small.ListPtrOps3 Small.ListPtrTop
  Small.ListPtrHist.
Local Close Scope Z_scope.

(* iv_list.h at pointer level.  Rep s head l: in store s the circular list with head `head` holds exactly the
   nodes l, in order -- following next from head visits l and returns to head, prev is the inverse of next on the
   way, no node occurs twice.  Every operation, run on ANY store that represents its argument lists, succeeds (no
   NULL / dangling dereference) and yields a store representing the result of the obvious list operation *)
Theorem C18_list_ops_refine :
  (forall s h, alloc s h -> exists s', list_init s (Some h) = Ok s' /\ Rep s' h []) /\
  (forall s h l n, Rep s h l -> alloc s n -> ~ In n (h :: l) ->
     exists s', list_add s (Some n) (Some h) = Ok s' /\ Rep s' h (n :: l)) /\
  (forall s h l n, Rep s h l -> alloc s n -> ~ In n (h :: l) ->
     exists s', list_add_tail s (Some n) (Some h) = Ok s' /\ Rep s' h (l ++ [n])) /\
  (forall s h l n, Rep s h l -> In n l ->
     exists s', list_del s (Some n) = Ok s' /\ Rep s' h (remove Pos.eq_dec n l) /\
                nxt s' n = Some None /\ prv s' n = Some None) /\
  (forall s h l1 n l2, Rep s h (l1 ++ n :: l2) ->
     exists s', list_del_init s (Some n) = Ok s' /\ Rep s' h (l1 ++ l2) /\ Rep s' n [] /\
                list_empty s' (Some n) = Ok true) /\
  (forall s h l, Rep s h l -> list_empty s (Some h) = Ok (match l with [] => true | _ => false end)) /\
  (forall s h l n, Rep s h l -> In n l -> list_empty s (Some n) = Ok false) /\
  (forall s a la h lh, Rep s a la -> Rep s h lh -> disjoint (h :: lh) (a :: la) ->
     exists s', list_splice s (Some a) (Some h) = Ok s' /\ Rep s' h (la ++ lh)) /\
  (forall s a la h lh, Rep s a la -> Rep s h lh -> disjoint (h :: lh) (a :: la) ->
     exists s', list_splice_tail s (Some a) (Some h) = Ok s' /\ Rep s' h (lh ++ la)) /\
  (forall s a la h lh, Rep s a la -> Rep s h lh -> disjoint (h :: lh) (a :: la) ->
     exists s', list_splice_init s (Some a) (Some h) = Ok s' /\ Rep s' h (la ++ lh) /\ Rep s' a []) /\
  (forall s a la h lh, Rep s a la -> Rep s h lh -> disjoint (h :: lh) (a :: la) ->
     exists s', list_splice_tail_init s (Some a) (Some h) = Ok s' /\ Rep s' h (lh ++ la) /\ Rep s' a []) /\
  (forall s o l n, Rep s o l -> alloc s n -> ~ In n (o :: l) ->
     exists s', list_steal s (Some o) (Some n) = Ok s' /\ Rep s' n l /\ Rep s' o []) /\
  (forall s h l fuel, Rep s h l -> (length l < fuel)%nat -> list_for_each fuel body_nop s (Some h) = Ok (s, l)) /\
  (forall v s h l fuel, Rep s h l -> (length l < fuel)%nat ->
     exists s', list_for_each_safe fuel (body_del v) s (Some h) = Ok (s', l) /\
                Rep s' h (filter (fun x => negb (mem_pos x v)) l)) /\
  (forall v s h l fuel, Rep s h l -> (length l < fuel)%nat ->
     exists s', list_for_each_safe fuel (body_del_init v) s (Some h) = Ok (s', l) /\
                Rep s' h (filter (fun x => negb (mem_pos x v)) l)).
Proof. exact list_ops_refine. Qed.
Print Assumptions C18_list_ops_refine.

(* frame.  touches s s' N P: s' differs from s at most in the next fields of the nodes N and the prev fields of
   the nodes P, and allocates nothing.  Each operation touches only the head, the node and their neighbours
   (first_of / last_of, themselves nodes of the list: last clause); nodes outside are bit-for-bit unchanged and
   every list disjoint from them survives *)
Theorem C18_list_frame :
  (forall s h, alloc s h ->
     exists s', list_init s (Some h) = Ok s' /\ touches s s' [h] [h]) /\
  (forall s h l n, Rep s h l -> alloc s n -> ~ In n (h :: l) ->
     exists s', list_add s (Some n) (Some h) = Ok s' /\ touches s s' [n; h] [n; first_of h l]) /\
  (forall s h l n, Rep s h l -> alloc s n -> ~ In n (h :: l) ->
     exists s', list_add_tail s (Some n) (Some h) = Ok s' /\ touches s s' [n; last_of h l] [n; h]) /\
  (forall s h l1 n l2, Rep s h (l1 ++ n :: l2) ->
     exists s', list_del s (Some n) = Ok s' /\ touches s s' [n; last_of h l1] [n; first_of h l2]) /\
  (forall s h l1 n l2, Rep s h (l1 ++ n :: l2) ->
     exists s', list_del_init s (Some n) = Ok s' /\ touches s s' [n; last_of h l1] [n; first_of h l2]) /\
  (forall s a la h lh, Rep s a la -> Rep s h lh -> disjoint (h :: lh) (a :: la) ->
     exists s', list_splice s (Some a) (Some h) = Ok s' /\
                touches s s' [h; last_of a la] [first_of a la; first_of h lh]) /\
  (forall s a la h lh, Rep s a la -> Rep s h lh -> disjoint (h :: lh) (a :: la) ->
     exists s', list_splice_tail s (Some a) (Some h) = Ok s' /\
                touches s s' [last_of h lh; last_of a la] [first_of a la; h]) /\
  (forall s a la h lh, Rep s a la -> Rep s h lh -> disjoint (h :: lh) (a :: la) ->
     exists s', list_splice_init s (Some a) (Some h) = Ok s' /\
                touches s s' [a; h; last_of a la] [a; first_of a la; first_of h lh]) /\
  (forall s a la h lh, Rep s a la -> Rep s h lh -> disjoint (h :: lh) (a :: la) ->
     exists s', list_splice_tail_init s (Some a) (Some h) = Ok s' /\
                touches s s' [a; last_of h lh; last_of a la] [a; first_of a la; h]) /\
  (forall s o l n, Rep s o l -> alloc s n -> ~ In n (o :: l) ->
     exists s', list_steal s (Some o) (Some n) = Ok s' /\
                touches s s' [o; n; last_of o l] [o; n; first_of o l]) /\
  (forall v s h l fuel, Rep s h l -> (length l < fuel)%nat ->
     exists s', list_for_each_safe fuel (body_del v) s (Some h) = Ok (s', l) /\
                (forall k, ~ In k (h :: l) -> PM.find k s' = PM.find k s) /\ (forall k, alloc s' k <-> alloc s k)) /\
  (forall s s' N P k, touches s s' N P -> ~ In k N -> ~ In k P -> PM.find k s' = PM.find k s) /\
  (forall s s' N P h l, touches s s' N P -> disjoint (h :: l) (N ++ P) -> Rep s h l -> Rep s' h l) /\
  (forall h l, In (first_of h l) (h :: l) /\ In (last_of h l) (h :: l)).
Proof. exact list_frame. Qed.
Print Assumptions C18_list_frame.

(* histories.  Abstract state: the heads in use with the elements of their lists (astate), all nodes pairwise
   distinct; Inv s a: every list of a is represented in s.  astep a o a' is the VALID use of operation o (the
   node added / the new head is on no list, the node deleted is on a list, splice between two different heads,
   ...) with its effect on the abstract state.  EVERY history of valid operations over a pool of allocated nodes
   smaller than the loop bound runs without a NULL / dangling dereference and without exhausting a loop bound,
   and ends in a store that represents the abstract end state *)
Theorem C18_list_histories :
  forall fuel (U : list positive) os a a',
  asteps a os a' -> forall s,
  Inv s a -> (forall k, In k U -> alloc s k) -> incl (flat a) U ->
  (forall o n, In o os -> new_node o = Some n -> In n U) ->
  (length U < fuel)%nat ->
  exists s' obs, run fuel s os = Ok (s', obs) /\ Inv s' a' /\ (forall k, alloc s' k <-> alloc s k).
Proof. exact valid_history_preserves. Qed.
Print Assumptions C18_list_histories.

(* non-vacuity: a pool of 6 nodes, heads 1 and 2; list 1 built with add_tail 3, add_tail 4, add 5 is [5; 3; 4],
   list 2 = [6]; deleting 3 inside iv_list_for_each_safe visits 5, 3, 4 and leaves [5; 4]; the same deletion inside
   the plain iv_list_for_each dereferences NULL; del_init leaves the node testing "empty" *)
Example C18_list_nonvacuous :
  match ex_store with
  | Ok s =>
    list_for_each 8 body_nop s (Some 1%positive) = Ok (s, [5; 3; 4]%positive) /\
    list_for_each 8 body_nop s (Some 2%positive) = Ok (s, [6]%positive) /\
    (match list_for_each_safe 8 (body_del [3%positive]) s (Some 1%positive) with
     | Ok (s', vis) => vis = [5; 3; 4]%positive /\ list_for_each 8 body_nop s' (Some 1%positive) = Ok (s', [5; 4]%positive) /\
                       field s' 3%positive = Some (None, None) /\ field s' 6%positive = field s 6%positive
     | _ => False
     end) /\
    list_for_each 8 (body_del [3%positive]) s (Some 1%positive) = ErrNull /\
    (match list_del_init s (Some 3%positive) with
     | Ok s' => list_empty s' (Some 3%positive) = Ok true /\ list_empty s (Some 3%positive) = Ok false
     | _ => False
     end)
  | _ => False
  end /\
  (* a valid history (init, add_tail, add, steal, for_each_safe + del) and what it computes *)
  asteps [] ex_history [(2, [5]); (1, [])]%positive /\ Inv (pool_start 6) [] /\
  (match run 8 (pool_start 6) ex_history with
   | Ok (s', obs) => obs = [ObsNone; ObsNone; ObsNone; ObsNone; ObsVisited [5; 3]%positive] /\
                     list_for_each 8 body_nop s' (Some 2%positive) = Ok (s', [5]%positive)
   | _ => False
   end).
Proof.
  split; [vm_compute; repeat split; reflexivity |].
  split; [exact ex_history_valid |]. split; [split; [constructor | intros h l []] |].
  vm_compute. split; reflexivity.
Qed.
End Lists.
