(* Properties_C18.v -- property C18: Memory/descriptor hygiene: only owned memory touched, everything released.  Statements only.
   Every theorem quantifies over ALL well-formed scenarios: all handler scripts, all kernel behaviours the scenario
   language can express, all four poll methods, all fault sets, any wait limit.
   STATUS: the full statement of this property on the core model is `mon_C18 (run_scenario sc) = true /\ no_code [706] ...`
   (see Properties_C18.v.draft); the theorems below are the monitor clauses already proved (named _partial);
   the remaining clause (1802: every descriptor the library opened is closed by iv_deinit) are checked on every implementation AND model trace by the extracted monitor
   while their proofs are being completed. *)
From Coq Require Import List ZArith Bool.
From Ivv Require Import Core.Kernel Core.CoreTypes Core.CoreFd Core.CoreModel Core.Monitors Core.CoreSpec
  Core.CoreRel Core.CoreCodes Core.CoreCodes2.
Import ListNotations.
Local Open Scope Z_scope.

(* the model only calls handlers of objects that are registered (the access discipline behind "only owned memory or
   registered objects"); the remaining clauses are bounds/abort freedom (1801/1804), descriptor balance (1802) and
   accounting balance (706) *)
Theorem C18_only_registered_objects_partial :
  forall sc, wf_scenario sc -> no_code [101; 102; 103; 104; 105] (mon_fails (run_scenario sc)).
Proof. exact codes_C01. Qed.
Print Assumptions C18_only_registered_objects_partial.

(* the model never performs an out-of-model access (an index outside the poll array / object tables: 1801) and never
   reaches a library abort (1804); the loop-object accounting is balanced at tear-down (706) *)
Theorem C18_no_bad_access_balanced_partial :
  forall sc, wf_scenario sc -> no_code [1801; 1804; 706] (mon_fails (run_scenario sc)).
Proof. exact codes_hygiene. Qed.
Print Assumptions C18_no_bad_access_balanced_partial.
