(* Properties_C18.v -- property C18: Memory/descriptor hygiene: only owned memory touched, everything released.  Statements only.
   Every theorem quantifies over ALL well-formed scenarios: all handler scripts, all kernel behaviours the scenario
   language can express (conditions changed at any point, ready order rotations, external posts), all four poll
   methods, all fault sets (EINTR at any wait / epoll_ctl, missing system calls), any wait limit. *)
From Coq Require Import List ZArith Bool Lia.
From Ivv Require Import Core.Kernel Core.CoreTypes Core.CoreFd Core.CoreModel Core.Monitors Core.GuardMon Core.CoreSpec
  Core.CoreInv Core.CoreRel Core.CoreCodes Core.CoreCodes2 Core.CoreExamples.
Import ListNotations.
Local Open Scope Z_scope.


(* no out-of-model access and no abort (1801/1804: array bounds of the poll back end, heap and radix indices,
   NULL slots), every descriptor the library created is closed after iv_deinit (1802), accounting zero after
   tear-down (706) *)
Theorem C18_hygiene :
  forall sc, wf_scenario sc -> mon_C18 (run_scenario sc) = true /\ no_code [706] (mon_fails (run_scenario sc)).
Proof. exact core_mon_C18. Qed.
Print Assumptions C18_hygiene.

(* the model only calls handlers of objects that are registered (the access discipline behind "only owned memory or
   registered objects") *)
Theorem C18_only_registered_objects :
  forall sc, wf_scenario sc -> no_code [101; 102; 103; 104; 105] (mon_fails (run_scenario sc)).
Proof. exact CoreCodes.codes_C01. Qed.
Print Assumptions C18_only_registered_objects.

(* the state invariant behind 1801/1804: no well-formed run reaches an out-of-model access or a library abort *)
Theorem C18_no_crash :
  forall sc, wf_scenario sc -> ~ In TCrash (run_scenario sc) /\ ~ In TFatal (run_scenario sc).
Proof. exact core_no_crash. Qed.
Print Assumptions C18_no_crash.

(* non-vacuity: a well-formed run on every poll method that uses every kind of object and ends with all library
   descriptors closed (TDone 0) and zero accounting (TEnd 0 0) *)
Example C18_nonvacuous :
  forall be, In be [0; 1; 2; 3] ->
    wf_scenario (ex_all be) /\ In (TEnd 0 0) (run_scenario (ex_all be)) /\ In (TDone 0) (run_scenario (ex_all be)) /\
    In (TCallRaw 0) (run_scenario (ex_all be)).
Proof.
  intros be H. split; [apply ex_all_wf; cbn [In] in H; intuition lia|].
  pose proof (ex_all_runs be H) as R. cbv zeta in R. tauto.
Qed.
