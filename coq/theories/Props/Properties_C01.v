(* Properties_C01.v -- property C01: no callback and no access after an
   unregister call returned.  Statements only. *)
From Coq Require Import List ZArith Bool.
From Ivv Require Import Core.Kernel Core.CoreTypes Core.CoreFd Core.CoreModel Core.Monitors Core.CoreSpec
  Core.CoreInv Core.CoreRel.
Import ListNotations.
Local Open Scope Z_scope.

(* In every trace of every well-formed scenario (all handler scripts, all kernel
   behaviours the scenario language can express, all four poll methods, all
   fault sets, any wait limit), every callback is for an object that is
   registered at that moment according to the log of API calls: no descriptor /
   timer / task / event / raw-event handler runs between the return of its
   unregister call and its next registration; timers and tasks are already
   unregistered when their handler is entered. *)
Theorem C01_no_call_after_unregister :
  forall sc, wf_scenario sc -> mon_C01 (run_scenario sc) = true.
Proof. exact core_mon_C01. Qed.
Print Assumptions C01_no_call_after_unregister.

(* The mechanism: when iv_fd_unregister returns, the descriptor object is on no
   internal list, is not the descriptor being dispatched, and (epoll) the kernel
   interest set no longer has an entry for it, (poll) it has no slot in the
   pollfd array -- so nothing can reach the object any more and it may be freed.  (k < 16: a user
   descriptor object; the descriptors inside raw events are unregistered through iv_event_raw_unregister.) *)
Theorem C01_fd_unregister_unlinks :
  forall s k s', Inv s -> k < 16 -> registered (getfd s k) = true -> fd_unregister s k = R s' ->
    Inv s' /\ ~ In k (active s') /\ ~ In k (notify s') /\ ~ In k (pkeys s') /\
    handled s' <> Some k /\ ep_find (ep (kern s')) (fdnum (getfd s' k)) = false.
Proof. exact fd_unregister_unlinks. Qed.
Print Assumptions C01_fd_unregister_unlinks.

(* the model never reaches an out-of-model access or a library abort *)
Theorem C01_no_crash :
  forall sc, wf_scenario sc -> ~ In TCrash (run_scenario sc) /\ ~ In TFatal (run_scenario sc).
Proof. exact core_no_crash. Qed.
Print Assumptions C01_no_crash.

Example C01_nonvacuous :
  let sc := {| sc_backend := 0; sc_faults := no_faults; sc_limit := 8;
               sc_setup := [AFdSetH 0 0 (Some 1); AFdReg 0; AFdSetH 1 0 (Some 2); AFdReg 1; AKSet 0 1; AKSet 1 1];
               sc_handlers := fun k => if k =? 1 then [[AFdUnreg 1; AFdFresh 1; AFdUnreg 0; AFdFresh 0]] else [];
               sc_wait := fun _ => []; sc_rot := fun _ => 0 |} in
  mon_all (run_scenario sc) = true /\ In (TCallFd 0 0 1 0) (run_scenario sc) /\ ~ In (TCallFd 1 0 2 1) (run_scenario sc).
Proof. vm_compute. split; [reflexivity|]. split; [tauto|]. intros H; repeat (destruct H as [H|H]; [discriminate H|]); exact H. Qed.
