(* CorePhase2TimeC09.v -- property C09 of the tracker (codes 901 902 and 105): a raw event
   that was posted since its handler last ran is readable at every kernel wait, so the
   loop neither sleeps nor hangs on it.  Exports core_mon_C09. *)
From Coq Require Import List ZArith Bool Lia.
From Ivv Require Import Core.Kernel Core.CoreTypes Core.CoreFd Core.CoreModel Core.Monitors Core.CoreSpec
  Core.CoreRel Core.CoreInvBase Core.CoreInvDefs Core.CoreInvFd Core.CoreInvPoll Core.CoreInvReg Core.CoreInvObj
  Core.CoreInvTm Core.CoreInvLoop Core.CoreInvWait Core.CoreInvTop Core.CoreInv
  Core.CorePhase2K1Base Core.CorePhase2K1Fd Core.CorePhase2K1Act Core.CorePhase2K1Inv Core.CorePhase2K1Loop
  Core.CorePhase2TimeMon Core.CorePhase2TimeFr Core.CorePhase2TimeT1 Core.CorePhase2TimeReq Core.CorePhase2TimeT1W
  Core.CorePhase2Time
  Core.CorePhase2TimeR3K Core.CorePhase2TimeR3 Core.CorePhase2TimeR3A Core.CorePhase2TimeR3L Core.CorePhase2TimeR3W
  Core.CorePhase2FdBase Core.CorePhase2FdMon Core.CorePhase2FdStep.
Import ListNotations.
Local Open Scope Z_scope.

#[local] Instance RA_on : RawAssume := True.

(* ---------- a posted raw event is readable ---------- *)
Lemma raw_cond_in : forall s j, InvW s -> R3 s -> r16 j -> rw_reg s j = true -> a_rwp (mst s) j = true ->
  has (k_cond (kern s) (rw_rfd s j)) B_IN = true /\ k_open (kern s) (rw_rfd s j) <> None.
Proof.
  intros s j I R J RG AP. destruct (raw_facts s j I RG) as (_ & _ & K).
  assert (POS : forall v, k_get (kern s) (rw_rfd s j) = Some v -> 0 < vcnt v).
  { intros v G. apply (r3_cnt _ R j J RG v G). exact AP. }
  destruct (raw_is_pipe s j).
  - destruct K as (_ & _ & vr & vw & Or & KR & _). pose proof (k_open_get _ _ _ Or) as [Gr _].
    split; [|congruence]. unfold k_cond. rewrite Gr, KR.
    change (K_PIPE_R =? K_SCRIPTED) with false. change (K_PIPE_R =? K_EVENTFD) with false. change (K_PIPE_R =? K_PIPE_R) with true.
    cbv iota. pose proof (POS vr Gr) as P. apply Z.ltb_lt in P. rewrite P. destruct (vpeer_open vr); reflexivity.
  - destruct K as (_ & _ & vr & Or & KE). pose proof (k_open_get _ _ _ Or) as [Gr _].
    split; [|congruence]. unfold k_cond. rewrite Gr, KE.
    change (K_EVENTFD =? K_SCRIPTED) with false. change (K_EVENTFD =? K_EVENTFD) with true.
    cbv iota. pose proof (POS vr Gr) as P. apply Z.ltb_lt in P. rewrite P. reflexivity.
Qed.

Lemma raw_bands : forall s j, InvW s -> rw_reg s j = true ->
  registered (fdt s (16 + j)) = true /\ fdnum (fdt s (16 + j)) = rw_rfd s j /\ bands_of (fdt s (16 + j)) = M_IN.
Proof.
  intros s j I RG. pose proof (iw_dyn _ I) as D. pose proof (dy_range _ D j RG) as G.
  destruct (dy_obj _ D j RG) as (A & B & C & E). split; [rewrite (dy_reg _ D j G); exact RG|]. split; [exact A|].
  unfold bands_of. rewrite B, C, E. reflexivity.
Qed.

Lemma ready_e : forall s, J true s -> InvW s -> R3 s -> KX (kern s) -> is_epoll s = true -> notify s = [] ->
  forall j, inr16 j -> a_rw (mst s) j = true -> a_rwp (mst s) j = true ->
  exists e, In e (ep (kern s)) /\ ep_ready_bits (kern s) e <> 0.
Proof.
  intros s Jh I R K IE NT j J AW AP.
  assert (RG : rw_reg s j = true) by (rewrite <- (J_AgRw _ _ Jh j J); exact AW).
  destruct (raw_bands s j I RG) as (RR & FN & BD).
  destruct (inv_kernel_interest s (16 + j) I IE RR) as (H1 & _ & H3).
  assert (RB : regb (fdt s (16 + j)) = M_IN) by (rewrite H3; [exact BD|rewrite NT; intros []]).
  destruct H1 as (e & IN & EF & _ & EV); [rewrite RB; discriminate|].
  exists e. split; [exact IN|].
  destruct (raw_cond_in s j I R J RG AP) as [C _].
  unfold ep_ready_bits. rewrite (proj1 (proj2 K e IN)). cbn [negb]. rewrite EF, FN, C, EV, RB.
  change (has (epoll_mask M_IN) B_IN) with true. cbn [andb].
  assert (NN : forall (b : bool) x, 0 <= (if b then x else 0) \/ x < 0) by (intros b x; destruct b; lia).
  unfold B_IN, B_OUT, B_HUP, B_ERR. 
  repeat match goal with |- context [if ?c then _ else _] => destruct c end; lia.
Qed.

Lemma ready_p : forall s, J true s -> InvW s -> R3 s -> is_epoll s = false ->
  forall j, inr16 j -> a_rw (mst s) j = true -> a_rwp (mst s) j = true ->
  exists p, In p (pfds s) /\ poll_revents (kern s) (fst p) (snd p) <> 0.
Proof.
  intros s Jh I R IE j J AW AP.
  assert (RG : rw_reg s j = true) by (rewrite <- (J_AgRw _ _ Jh j J); exact AW).
  destruct (raw_bands s j I RG) as (RR & FN & BD).
  destruct (inv_poll_slot s (16 + j) I IE RR) as (_ & H2).
  pose proof (inv_wanted s (16 + j) I RR) as W. rewrite BD in W.
  destruct H2 as (_ & _ & PF); [rewrite W; discriminate|].
  exists (fdnum (fdt s (16 + j)), poll_mask (wanted (fdt s (16 + j)))). split; [eapply nth_error_In; exact PF|].
  cbn [fst snd]. rewrite FN, W. destruct (raw_cond_in s j I R J RG AP) as [C O].
  unfold poll_revents. destruct (k_open (kern s) (rw_rfd s j)); [|contradiction]. rewrite C.
  change (has (poll_mask M_IN) B_IN) with true. cbn [andb].
  unfold B_IN, B_OUT, B_HUP, B_ERR.
  repeat match goal with |- context [if ?c then _ else _] => destruct c end; lia.
Qed.

(* ---------- wait_enter on states that differ only in loop-private fields ---------- *)
Lemma wait_action_rawsame : forall a x y y', wf_wait_action a -> rawsame x y -> do_action y a = R y' ->
  exists x', do_action x a = R x' /\ rawsame x' y'.
Proof.
  intros a x y y' W [K T F P PK N RR RF WF' EF]. destruct a; cbn [wf_wait_action] in W; try contradiction; unfold do_action; cbv zeta.
  - intros E. inversion E; subst. eexists. split; [reflexivity|]. constructor; cbn [kern set_kern emit set_trace trace fdt pfds pkeys notify rw_reg rw_rfd rw_wfd efd_raw]; congruence.
  - intros E. inversion E; subst. eexists. split; [reflexivity|]. constructor; cbn [kern set_kern emit set_trace trace fdt pfds pkeys notify rw_reg rw_rfd rw_wfd efd_raw]; congruence.
  - rewrite RR. destruct (rw_reg x j); intros E; inversion E; subst.
    + eexists. split; [reflexivity|]. unfold raw_post, raw_is_pipe. cbn [efd_raw emit set_trace kern rw_wfd rw_rfd]. rewrite WF', RF, K.
      destruct (negb (rw_wfd x j =? rw_rfd x j)); destruct (k_write _ _ _ _); constructor;
        cbn [kern set_kern emit set_trace trace fdt pfds pkeys notify rw_reg rw_rfd rw_wfd efd_raw]; congruence.
    + eexists. split; [reflexivity|]. constructor; assumption.
  - intros E. inversion E; subst. eexists. split; [reflexivity|]. constructor; cbn [kern set_kern emit set_trace trace fdt pfds pkeys notify rw_reg rw_rfd rw_wfd efd_raw]; congruence.
Qed.

Lemma wait_acts_rawsame : forall l x y y', Forall wf_wait_action l -> rawsame x y -> run_acts y l = R y' ->
  exists x', run_acts x l = R x' /\ rawsame x' y'.
Proof.
  induction l as [|a l IH]; intros x y y' W RS; cbn [run_acts].
  - intros E. inversion E; subst. exists x. auto.
  - inversion W as [|? ? W1 W2]; subst. destruct (do_action y a) as [y1|y1] eqn:D; cbn [bind]; [|discriminate].
    intros E. destruct (wait_action_rawsame a x y y1 W1 RS D) as (x1 & D1 & RS1). rewrite D1. cbn [bind].
    apply (IH x1 y1 y' W2 RS1 E).
Qed.

Lemma wait_enter_rawsame : forall sc x y y', wf_scenario sc -> rawsame x y -> wait_enter sc y = R y' ->
  exists x', wait_enter sc x = R x' /\ rawsame x' y'.
Proof.
  intros sc x y y' WF RS. pose proof RS as [K T F P PK N RR RF WF' EF]. unfold wait_enter. rewrite K.
  destruct (sc_limit sc <? nwait (kern x) + 1); [discriminate|].
  apply wait_acts_rawsame; [apply (wf_waits sc WF)|]. constructor; cbn [kern set_kern trace fdt pfds pkeys notify rw_reg rw_rfd rw_wfd efd_raw]; congruence.
Qed.

Lemma RawQe_rawsame : forall x y, rawsame x y ->
  (forall j, inr16 j -> a_rw (mst x) j = true -> a_rwp (mst x) j = true -> exists e, In e (ep (kern x)) /\ ep_ready_bits (kern x) e <> 0) ->
  RawQe y.
Proof.
  intros x y [K T _ _ _ _ _ _ _ _] H _ j J A B. assert (M : mst y = mst x) by (apply mst_trace; exact T).
  rewrite M in A, B. rewrite K. apply (H j J A B).
Qed.

Lemma RawQp_rawsame : forall x y, rawsame x y ->
  (forall j, inr16 j -> a_rw (mst x) j = true -> a_rwp (mst x) j = true -> exists p, In p (pfds x) /\ poll_revents (kern x) (fst p) (snd p) <> 0) ->
  RawQp y.
Proof.
  intros x y [K T _ P _ _ _ _ _ _] H _ j J A B. assert (M : mst y = mst x) by (apply mst_trace; exact T).
  rewrite M in A, B. rewrite K, P. apply (H j J A B).
Qed.

Section C09.
Variable sc : scenario.
Hypothesis WF : wf_scenario sc.
Let dok := CoreInv.do_action_ok.

(* a state from which an epoll / poll wait may be entered *)
Lemma RawE_of : forall s, J true s -> InvW s -> RK s -> is_epoll s = true -> notify s = [] -> RawE sc s.
Proof.
  intros s Jh I RKs IE NT s0 s2 RS E.
  destruct (wait_enter_rawsame sc s s0 s2 WF RS E) as (s1 & E1 & RS1).
  pose proof (wait_enter_post sc WF true s Jh) as P. pose proof (wait_enter_ok sc WF s I) as OK.
  pose proof (wait_enter_QI sc WF s I RKs) as Q. rewrite E1 in P, OK, Q. cbn [okr QI ARes] in *.
  destruct P as (J1 & _). destruct OK as (I1 & KO1 & _). destruct Q as (_ & R1 & K1).
  apply (RawQe_rawsame s1 s2 RS1). apply ready_e; try assumption.
  - unfold is_epoll. rewrite (ko_method _ _ KO1). exact IE.
  - rewrite (ko_notify _ _ KO1). exact NT.
Qed.

Lemma RawP_of : forall s, J true s -> InvW s -> RK s -> is_epoll s = false -> RawP sc s.
Proof.
  intros s Jh I RKs IE s0 s2 RS E.
  destruct (wait_enter_rawsame sc s s0 s2 WF RS E) as (s1 & E1 & RS1).
  pose proof (wait_enter_post sc WF true s Jh) as P. pose proof (wait_enter_ok sc WF s I) as OK.
  pose proof (wait_enter_QI sc WF s I RKs) as Q. rewrite E1 in P, OK, Q. cbn [okr QI ARes] in *.
  destruct P as (J1 & _). destruct OK as (I1 & KO1 & _). destruct Q as (_ & R1 & K1).
  apply (RawQp_rawsame s1 s2 RS1). apply ready_p; try assumption.
  unfold is_epoll. rewrite (ko_method _ _ KO1). exact IE.
Qed.

Lemma RawM_of : forall s, J true s -> InvW s -> RK s -> RawM sc s.
Proof.
  intros s Jh I RKs. unfold RawM. destruct (is_epoll s) eqn:IE; [|apply RawP_of; assumption].
  intros s1 F1.
  destruct (flush_pending_ok (S (length (notify s))) s I IE ltac:(lia)) as (s1' & F1' & I1 & N1 & _).
  rewrite F1 in F1'. inversion F1'; subst s1'.
  pose proof (J_inner_res s _ _ Jh (flush_pending_res (S (length (notify s))) s (j_fd _ _ Jh) IE)) as P.
  pose proof (CorePhase2TimeFr.flush_pending_FF (S (length (notify s))) s) as FP.
  pose proof (flush_pending_st0 (S (length (notify s))) s) as ST.
  rewrite F1 in *. unfold FFr in FP. cbn [res_state] in FP, ST.
  destruct P as (J1 & _ & E1); [intros s1' (X & Y & _); split; [apply Inner_W; exact X|exact Y]|].
  assert (RK1 : RK s1).
  { destruct RKs as [R K]. split; [apply (R3_F3n s s1 R (InvW_RawFacts s I)); apply FF_F3; exact FP|apply (s0_kx _ _ ST K)]. }
  apply RawE_of; try assumption.
  destruct E1 as (X & _). rewrite (Inner_is_epoll _ _ X). exact IE.
Qed.

Lemma RawPR_of : forall s abs, J true s -> InvW s -> RK s -> RawPR sc s abs.
Proof.
  intros s abs Jh I RKs. unfold RawPR. destruct (Z.eqb_spec (method s) M_ET) as [ME|NE]; [|apply RawM_of; assumption].
  intros s0 fl E.
  pose proof (timeout_check_post s abs Jh ME) as P. pose proof (timeout_check_ok sc WF dok s abs I ME) as TC.
  pose proof (timeout_check_RK s abs I RKs) as TR. rewrite E in P, TC, TR. cbn [fst PostQ okr PQ ARes] in *.
  apply RawM_of; [apply P|apply TC|exact TR].
Qed.
End C09.

(* ---------- the initial state ---------- *)
Lemma KP_kernel0 : forall f, KP (kernel0 f).
Proof.
  intros f. split; [intros fd H; exfalso; apply H; reflexivity|]. split; [intros fd v H; discriminate H|cbn; lia].
Qed.

Lemma KP_fold_user : forall l k, Forall (fun i => 0 <= i < 16) l -> KP k -> KP (fold_left k_user_fd l k).
Proof.
  induction l as [|i l IH]; intros k F K; cbn [fold_left]; [exact K|]. inversion F; subst.
  apply IH; [assumption|]. apply (CNT_user_fd k i); assumption.
Qed.

Lemma KXP_core0 : forall sc, KP (kern (core0 sc)) /\ KX (kern (core0 sc)).
Proof.
  intros sc. unfold core0.
  set (k0 := fold_left k_user_fd (zseq 0 16) (kernel0 (sc_faults sc))).
  assert (P0 : KP k0).
  { apply KP_fold_user; [|apply KP_kernel0]. apply Forall_forall. intros x H. apply In_zseq in H. lia. }
  assert (X0 : KX k0).
  { assert (KF : forall l k, KX k -> KX (fold_left k_user_fd l k)).
    { induction l as [|i l IH]; intros k K; cbn [fold_left]; [exact K|apply IH; apply KX_user_fd; exact K]. }
    apply KF. split; [split; [cbn; lia|intros i v _ H; discriminate H]|intros e []]. }
  assert (G : forall efd k, (if (sc_backend sc =? M_ET) || (sc_backend sc =? M_EP) then k_epoll_create k0 else (-1, k0)) = (efd, k) ->
              KP k /\ KX k).
  { intros efd k E. destruct ((sc_backend sc =? M_ET) || (sc_backend sc =? M_EP)); [|inversion E; subst; split; assumption].
    unfold k_epoll_create in E. pose proof (CNT_alloc k0 K_EPOLL ltac:(discriminate) ltac:(discriminate) P0) as (P1 & _).
    destruct X0 as [V EE]. pose proof (KV_alloc k0 K_EPOLL V) as [V1 _].
    destruct (k_alloc k0 K_EPOLL) as [a b] eqn:A. inversion E; subst. cbn [snd] in *. split; [exact P1|].
    split; [exact V1|]. unfold k_alloc in A. inversion A; subst. exact EE. }
  destruct (if (sc_backend sc =? M_ET) || (sc_backend sc =? M_EP) then k_epoll_create k0 else (-1, k0)) as [efd k] eqn:E.
  exact (G efd k eq_refl).
Qed.

Lemma RK_core0 : forall sc, RK (core0 sc).
Proof.
  intros sc. destruct (KXP_core0 sc) as [P X]. split; [|exact X].
  assert (RW : rw_reg (core0 sc) = fun _ => false).
  { unfold core0. destruct (if (sc_backend sc =? M_ET) || (sc_backend sc =? M_EP) then _ else _) as [efd k]. reflexivity. }
  assert (M : mst (core0 sc) = mon0).
  { unfold core0. destruct (if (sc_backend sc =? M_ET) || (sc_backend sc =? M_EP) then _ else _) as [efd k]. reflexivity. }
  constructor; [exact P| |].
  - intros j _ A. rewrite M in A. discriminate A.
  - intros j _ A. rewrite RW in A. discriminate A.
Qed.

(* ---------- whole runs ---------- *)
Theorem core_raw_codes : forall sc, wf_scenario sc ->
  forall c, In c [901; 902] -> ~ In c (mon_fails (run_scenario sc)).
Proof.
  intros sc WF c Hc.
  pose proof (@core_G1 RA_on sc WF CoreInv.do_action_ok RK) as G.
  apply G.
  - intros s Jh IT RKs. apply RawPR_of; [exact WF|exact Jh|apply (proj1 (proj1 IT))|exact RKs].
  - intros s s' Jh IT [R K] E. destruct IT as [[IW Qt] _].
    pose proof (run_timers_QI sc WF s IW R K ltac:(split; [apply (q_batch _ Qt)|split; [apply (q_cur _ Qt)|apply (q_evb _ Qt)]])) as Q.
    rewrite E in Q. cbn [QI ARes] in Q. destruct Q as (_ & A & B). split; assumption.
  - intros s s' Jh IT [R K] E. destruct IT as [[IW Qt] _].
    pose proof (run_tasks_QI sc WF s IW R K ltac:(split; [apply (q_batch _ Qt)|split; [apply (q_cur _ Qt)|apply (q_evb _ Qt)]])) as Q.
    rewrite E in Q. cbn [QI ARes] in Q. destruct Q as (_ & A & B). split; assumption.
  - intros s s' Jh IT RKs E.
    pose proof (poll_and_run_PQ sc WF s (AbsOf s) (proj1 (InvT_LoopInv s) IT) RKs) as Q.
    rewrite E in Q. exact Q.
  - apply RK_core0.
  - intros s l s' _ IW [R K] W E. pose proof (run_acts_QI l s IW R K W) as Q.
    rewrite E in Q. cbn [QI ARes] in Q. destruct Q as (_ & A & B). split; assumption.
  - intros s RKs. apply (RK_same (emit s TMain)); [apply RK_emit; [exact RKs|exact I]|reflexivity..].
  - right. split; [exact I|exact Hc].
Qed.

Theorem core_mon_C09 : forall sc, wf_scenario sc -> mon_C09 (run_scenario sc) = true.
Proof.
  intros sc WF. unfold mon_C09. apply andb_true_iff. split.
  - unfold none_in. apply negb_true_iff.
    destruct (existsb (in_range 900 1000) (mon_fails (run_scenario sc))) eqn:E; [|reflexivity].
    apply existsb_exists in E. destruct E as (c & H & R). exfalso.
    unfold in_range in R. apply andb_true_iff in R. destruct R as [R1 R2]. apply Z.leb_le in R1. apply Z.ltb_lt in R2.
    pose proof (core_raw_codes sc WF c) as TC.
    destruct (fails_codes _ _ H) as (e & CE).
    destruct e; cbn [codes_of] in CE; try (destruct n); cbn [In] in CE;
      repeat (destruct CE as [<-|CE]; [try lia; try (apply TC; [cbn; tauto|exact H])|]); try contradiction.
  - apply negb_true_iff. destruct (mem_z 105 (mon_fails (run_scenario sc))) eqn:E; [|reflexivity].
    apply mem_z_In in E. pose proof (core_mon_good sc WF 105 E) as K. vm_compute in K. discriminate K.
Qed.

Print Assumptions core_mon_C09.
