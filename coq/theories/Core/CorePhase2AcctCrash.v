(* CorePhase2AcctCrash.v -- codes 1801 / 1804: a recorded crash or abort needs a TCrash /
   TFatal event in the trace, and CoreInv.core_no_crash excludes those. *)
From Coq Require Import List ZArith Bool Lia.
From Ivv Require Import Core.Kernel Core.CoreTypes Core.CoreFd Core.CoreModel Core.Monitors Core.CoreSpec
  Core.CoreRelBase Core.CorePhase2AcctTr Core.CorePhase2AcctMon.
From Ivv Require Core.CoreInv.
Import ListNotations.
Local Open Scope Z_scope.

Lemma code_1801_event : forall e, In 1801 (ev_codes e) -> e = TCrash.
Proof. intros e H. destruct e; try destruct n; cbn [ev_codes In] in H; try reflexivity; intuition discriminate. Qed.

Lemma code_1804_event : forall e, In 1804 (ev_codes e) -> e = TFatal.
Proof. intros e H. destruct e; try destruct n; cbn [ev_codes In] in H; try reflexivity; intuition discriminate. Qed.

Theorem core_code_1801 : forall sc, wf_scenario sc -> ~ In 1801 (mon_fails (run_scenario sc)).
Proof.
  intros sc WF. apply no_event_no_code. intros e I C. apply code_1801_event in C. subst e.
  exact (proj1 (CoreInv.core_no_crash sc WF) I).
Qed.

Theorem core_code_1804 : forall sc, wf_scenario sc -> ~ In 1804 (mon_fails (run_scenario sc)).
Proof.
  intros sc WF. apply no_event_no_code. intros e I C. apply code_1804_event in C. subst e.
  exact (proj2 (CoreInv.core_no_crash sc WF) I).
Qed.

Print Assumptions core_code_1801.
Print Assumptions core_code_1804.
