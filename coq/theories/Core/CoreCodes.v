(* CoreCodes.v -- per-property corollaries of the phase-1 theorems (Core/CoreRel.v): which monitor clauses are
   already proved for every well-formed scenario. *)
From Coq Require Import List ZArith Bool.
From Ivv Require Import Core.Kernel Core.CoreTypes Core.CoreFd Core.CoreModel Core.Monitors Core.CoreSpec Core.CoreRel.
Import ListNotations.
Local Open Scope Z_scope.

Definition no_code (codes : list Z) (tr : list Z) : Prop := forall c, In c tr -> ~ In c codes.

Lemma none_in_no_code lo hi l c : none_in lo hi l = true -> In c l -> ~ (lo <= c < hi).
Proof.
  unfold none_in. intros H Hin [H1 H2].
  apply negb_true_iff in H. rewrite <- not_true_iff_false in H. apply H.
  apply existsb_exists. exists c. split; [exact Hin|].
  unfold in_range. apply andb_true_iff. split; [apply Z.leb_le | apply Z.ltb_lt]; assumption.
Qed.

Lemma codes_handlers sc :
  wf_scenario sc -> no_code [301; 302; 709; 703; 704; 801; 406; 407; 1502] (mon_fails (run_scenario sc)).
Proof.
  intros Hwf c Hin Hc.
  destruct (core_mon_handlers sc Hwf c Hin) as (H1 & H2 & H3 & H4 & H5 & H6 & H7 & H8 & H9).
  simpl in Hc. intuition congruence.
Qed.

Lemma codes_C01 sc : wf_scenario sc -> no_code [101; 102; 103; 104; 105] (mon_fails (run_scenario sc)).
Proof.
  intros Hwf c Hin Hc.
  pose proof (core_mon_C01 sc Hwf) as H. unfold mon_C01 in H.
  apply (none_in_no_code 100 200 _ c H Hin).
  simpl in Hc.
  repeat (destruct Hc as [Hc|Hc]; [subst c; split; [discriminate | reflexivity]|]).
  contradiction.
Qed.

Lemma no_code_sub big small tr : (forall c, In c small -> In c big) -> no_code big tr -> no_code small tr.
Proof. intros Hs H c Hin Hc. exact (H c Hin (Hs c Hc)). Qed.
