(* CorePhase2AcctTear.v -- the tear-down phase unregisters every user-visible object. *)
From Coq Require Import List ZArith Bool Lia.
From Ivv Require Import Core.Kernel Core.CoreTypes Core.CoreFd Core.CoreModel Core.Monitors Core.CoreSpec
  Core.CoreRel Core.CorePhase2AcctTr Core.CorePhase2AcctMon Core.CorePhase2AcctFd Core.CorePhase2AcctAct
  Core.CorePhase2AcctLoop.
From Ivv Require Timer.HeapModel Timer.HeapFacts.
Import ListNotations.
Local Open Scope Z_scope.

Definition DRes (P : core -> core -> Prop) (s : core) (r : res) : Prop :=
  match r with R s' => P s s' | Halt _ => True end.

Lemma Down_emit : forall s e, Down s (emit s e).
Proof. intros. apply Down_same; reflexivity. Qed.

Lemma unreg_fd : forall s i, inr16 i ->
  DRes (fun s s' => Down s s' /\ registered (fdt s' i) = false) s (do_action s (AFdUnreg i)).
Proof.
  intros s i I. cbn [do_action]. destruct (registered (getfd s i)) eqn:RG; [|split; [apply Down_refl|exact RG]].
  pose proof (fd_unregister_ASk (emit s (TAct (AFdUnreg i))) i) as Q.
  destruct (fd_unregister _ i) as [s'|s']; cbn [DRes ARes] in *; [|exact Logic.I].
  destruct Q. split; [|rewrite ak_reg, Z.eqb_refl; reflexivity].
  intros k K. unfold timer_registered, task_registered. rewrite ak_reg, ak_heap, ak_tasks, ak_cur, ak_evr, ak_rw.
  cbn [fdt heap tasks cur ev_reg rw_reg emit set_trace]. destruct (k =? i); auto.
Qed.

Lemma unreg_tm : forall b s i, J b s -> inr16 i ->
  DRes (fun s s' => Down s s' /\ timer_registered s' i = false) s (do_action s (ATmUnreg i)).
Proof.
  intros b s i Jh I. cbn [do_action]. destruct (timer_registered s i) eqn:RG; [|split; [apply Down_refl|exact RG]].
  destruct (J_SiTm _ _ Jh) as [HI HR].
  destruct (heap_unreg_spec (heap s) (tmid i) HI (treg_true _ _ RG)) as (h' & U & I' & T1 & T2 & T3).
  rewrite U. unfold lift_heap. cbn [DRes]. split.
  - intros k K. unfold timer_registered, task_registered. cbn [fdt heap tasks cur ev_reg rw_reg emit set_trace set_numobjs set_heap].
    repeat split; auto. intros H.
    destruct (Z.eq_dec k i) as [->|N]; [rewrite T1; reflexivity|].
    assert (NT : tmid k <> tmid i) by (intros E; apply N; apply tmid_inj; [apply K|apply I|exact E]).
    apply negb_false_iff. apply Z.eqb_eq. apply (proj2 (T2 _ NT)). apply negb_false_iff in H. apply Z.eqb_eq in H. exact H.
  - unfold timer_registered. cbn [heap set_numobjs set_heap]. rewrite T1. reflexivity.
Qed.

Lemma unreg_tk : forall s i,
  DRes (fun s s' => Down s s' /\ task_registered s' i = false) s (do_action s (ATkUnreg i)).
Proof.
  intros s i. cbn [do_action]. destruct (task_registered s i) eqn:RG; [|split; [apply Down_refl|exact RG]].
  cbn [DRes]. set (s' := task_unregister _ i).
  assert (TL : tasks s' ++ curl s' = remove_z i (tasks s ++ curl s)).
  { unfold s', task_unregister, curl. cbn [tasks cur set_tasks set_numobjs emit set_trace].
    rewrite remove_z_app. destruct (cur s); reflexivity. }
  assert (TR : forall k, task_registered s' k = true -> task_registered s k = true /\ k <> i).
  { intros k H. apply task_registered_In in H. rewrite TL in H. apply In_remove_z in H.
    split; [apply task_registered_In; apply H|apply H]. }
  split.
  - intros k K. unfold timer_registered. repeat split; auto.
    intros H. destruct (task_registered s' k) eqn:E; [|reflexivity]. destruct (TR k E) as [E1 _]. congruence.
  - destruct (task_registered s' i) eqn:E; [|reflexivity]. destruct (TR i E) as [_ E1]. congruence.
Qed.

Lemma unreg_ev : forall b s i, J b s -> inr16 i ->
  DRes (fun s s' => Down s s' /\ ev_reg s' i = false) s (do_action s (AEvUnreg i)).
Proof.
  intros b s i Jh I. cbn [do_action]. destruct (ev_reg s i) eqn:RG; [|split; [apply Down_refl|exact RG]].
  set (ex := emit s (TAct (AEvUnreg i))).
  pose proof (event_unregister_spec ex i (FdI_emit _ _ _ (j_fd _ _ Jh)) (FdX_emit _ _ (j_fx _ _ Jh)) I RG) as Q.
  destruct (event_unregister ex i) as [s'|s']; cbn [DRes FdRes] in *; [|exact Logic.I].
  destruct Q as (RS & _ & _ & _ & _ & ER & RW). destruct RS.
  split; [|rewrite ER; unfold upd; rewrite Z.eqb_refl; reflexivity].
  intros k K. unfold timer_registered, task_registered. rewrite rs_heap, rs_tasks, rs_cur, ER, (RW k K).
  destruct (rs_user k K) as [_ E]. rewrite E. cbn [fdt heap tasks cur ev_reg rw_reg emit set_trace ex].
  repeat split; auto. unfold upd. destruct (k =? i); auto.
Qed.

Lemma unreg_rw : forall b s i, J b s -> inr16 i ->
  DRes (fun s s' => Down s s' /\ rw_reg s' i = false) s (do_action s (ARwUnreg i)).
Proof.
  intros b s i Jh I. cbn [do_action]. destruct (rw_reg s i) eqn:RG; [|split; [apply Down_refl|exact RG]].
  set (ex := emit s (TAct (ARwUnreg i))).
  pose proof (j_fx _ _ Jh) as X. apply (FdX_emit s (TAct (ARwUnreg i))) in X.
  destruct (proj1 (FdX_split _) X) as (XA & _ & _).
  pose proof (raw_unregister_spec ex i (FdI_emit _ _ _ (j_fd _ _ Jh)) XA ltac:(unfold inr16 in I; lia)) as Q.
  destruct (raw_unregister ex i) as [s'|s']; cbn [DRes FdRes] in *; [|exact Logic.I].
  destruct Q as (RS & ES & _ & _ & RW). destruct RS, ES.
  split; [|rewrite RW; unfold upd; rewrite Z.eqb_refl; reflexivity].
  intros k K. unfold timer_registered, task_registered. rewrite rs_heap, rs_tasks, rs_cur, es_evr, RW.
  destruct (rs_user k K) as [_ E]. rewrite E. cbn [fdt heap tasks cur ev_reg rw_reg emit set_trace ex].
  repeat split; auto. unfold upd. destruct (k =? i); auto.
Qed.

(* J, Acc and the flags together *)
Definition PT (b : bool) (P : core -> core -> Prop) (s : core) (r : res) : Prop :=
  match r with R s' => J b s' /\ Acc s' /\ Bq s s' /\ Down s s' /\ P s s' | Halt _ => True end.

Lemma PT_of : forall b (P : core -> core -> Prop) s a, J b s -> Acc s -> wf_action a ->
  DRes (fun s s' => Down s s' /\ P s s') s (do_action s a) -> PT b P s (do_action s a).
Proof.
  intros b P s a Jh A W D. pose proof (do_action_PJA b s a Jh A W) as Q.
  destruct (do_action s a) as [s'|s']; cbn [PT PJA DRes] in *; [|exact Logic.I].
  destruct Q as (Q1 & Q2 & _ & Q4), D as [D1 D2]. auto.
Qed.

Lemma teardown_obj_PT : forall b s i, J b s -> Acc s -> inr16 i ->
  PT b (fun _ s' => Off s' i) s (teardown_obj s i).
Proof.
  intros b s i Jh A I. unfold teardown_obj.
  pose proof (PT_of b (fun _ s' => registered (fdt s' i) = false) s (AFdUnreg i) Jh A I (unreg_fd s i I)) as P1.
  destruct (do_action s (AFdUnreg i)) as [s1|s1]; cbn [bind PT] in *; [|exact Logic.I].
  destruct P1 as (J1 & A1 & B1 & D1 & O1).
  pose proof (PT_of b (fun _ s' => timer_registered s' i = false) s1 (ATmUnreg i) J1 A1 I (unreg_tm b s1 i J1 I)) as P2.
  destruct (do_action s1 (ATmUnreg i)) as [s2|s2]; cbn [bind PT] in *; [|exact Logic.I].
  destruct P2 as (J2 & A2 & B2 & D2 & O2).
  pose proof (PT_of b (fun _ s' => task_registered s' i = false) s2 (ATkUnreg i) J2 A2 I (unreg_tk s2 i)) as P3.
  destruct (do_action s2 (ATkUnreg i)) as [s3|s3]; cbn [bind PT] in *; [|exact Logic.I].
  destruct P3 as (J3 & A3 & B3 & D3 & O3).
  pose proof (PT_of b (fun _ s' => ev_reg s' i = false) s3 (AEvUnreg i) J3 A3 I (unreg_ev b s3 i J3 I)) as P4.
  destruct (do_action s3 (AEvUnreg i)) as [s4|s4]; cbn [bind PT] in *; [|exact Logic.I].
  destruct P4 as (J4 & A4 & B4 & D4 & O4).
  pose proof (PT_of b (fun _ s' => rw_reg s' i = false) s4 (ARwUnreg i) J4 A4 I (unreg_rw b s4 i J4 I)) as P5.
  destruct (do_action s4 (ARwUnreg i)) as [s5|s5]; cbn [PT] in *; [|exact Logic.I].
  destruct P5 as (J5 & A5 & B5 & D5 & O5).
  split; [exact J5|split; [exact A5|split; [|split]]].
  - exact (Bq_trans _ _ _ B1 (Bq_trans _ _ _ B2 (Bq_trans _ _ _ B3 (Bq_trans _ _ _ B4 B5)))).
  - exact (Down_trans _ _ _ D1 (Down_trans _ _ _ D2 (Down_trans _ _ _ D3 (Down_trans _ _ _ D4 D5)))).
  - destruct (D2 i I) as (X1 & _), (D3 i I) as (Y1 & Y2 & _), (D4 i I) as (Z1 & Z2 & Z3 & _), (D5 i I) as (W1 & W2 & W3 & W4 & _).
    repeat split; auto.
Qed.

Lemma teardown_PT : forall b l s, J b s -> Acc s -> Forall inr16 l ->
  PT b (fun s0 s' => forall i, inr16 i -> (In i l \/ Off s0 i) -> Off s' i) s (teardown s l).
Proof.
  intros b l. induction l as [|i l IH]; intros s Jh A OK; cbn [teardown].
  - cbn [PT]. split; [exact Jh|split; [exact A|split; [apply Bq_refl|split; [apply Down_refl|]]]].
    intros i I [[]|H]. exact H.
  - inversion OK as [|? ? O1 O2]; subst.
    pose proof (teardown_obj_PT b s i Jh A O1) as P1.
    destruct (teardown_obj s i) as [s1|s1]; cbn [bind PT] in *; [|exact Logic.I].
    destruct P1 as (J1 & A1 & B1 & D1 & F1).
    pose proof (IH s1 J1 A1 O2) as P2.
    destruct (teardown s1 l) as [s2|s2]; cbn [PT] in *; [|exact Logic.I].
    destruct P2 as (J2 & A2 & B2 & D2 & F2).
    split; [exact J2|split; [exact A2|split; [eapply Bq_trans; eassumption|split; [eapply Down_trans; eassumption|]]]].
    intros k K [[E|H]|H].
    + subst k. apply (F2 i K). right. exact F1.
    + apply (F2 k K). left. exact H.
    + apply (F2 k K). right. apply (Down_Off s s1 k K D1 H).
Qed.

Lemma zseq_inr16 : Forall inr16 (zseq 0 16).
Proof. apply Forall_forall. intros x H. apply In_zseq in H. unfold inr16. lia. Qed.

Lemma teardown_all_off : forall b s, J b s -> Acc s ->
  match teardown s (zseq 0 16) with
  | R s' => J b s' /\ Acc s' /\ Bq s s' /\ (forall i, inr16 i -> Off s' i)
  | Halt _ => True
  end.
Proof.
  intros b s Jh A. pose proof (teardown_PT b (zseq 0 16) s Jh A zseq_inr16) as P.
  destruct (teardown s (zseq 0 16)) as [s'|s']; cbn [PT] in *; [|exact Logic.I].
  destruct P as (P1 & P2 & P3 & _ & P5). split; [exact P1|split; [exact P2|split; [exact P3|]]].
  intros i I. apply (P5 i I). left. apply In_zseq. unfold inr16 in I. lia.
Qed.
