(* CorePhase2FdMon.v -- the tracker of Monitors.v and the guard monitor seen through
   interface lemmas for the descriptor clauses: which events can add the codes
   201 202 203 204 303 304 (tracker) and 1104 (guard monitor), and how the fields
   w_gnd / called / expect evolve. *)
From Coq Require Import List ZArith Bool Lia.
From Ivv Require Import Core.Kernel Core.CoreTypes Core.CoreFd Core.CoreModel Core.Monitors Core.GuardMon
  Core.CoreRelBase.
Import ListNotations.
Local Open Scope Z_scope.

(* turn the outermost let of the argument into a local definition *)
Ltac lift_let2 := lazymatch goal with
  | |- ?F (let x := ?v in @?b x) = ?R =>
      let y := fresh x in set (y := v); change (F (b y) = R); cbv beta
  | |- ?F (let x := ?v in @?b x) =>
      let y := fresh x in set (y := v); change (F (b y)); cbv beta
  end.

Lemma fails_action2 : forall m a, fails (mon_action m a) = fails m.
Proof. intros m a. destruct a; reflexivity. Qed.

(* the codes whose absence is proved here: the whole ranges 200..300 and 303..399 (201 202 203 204 303 304
   are the only codes of Monitors.v in them) *)
Definition okc2 (c : Z) : bool := negb (in_range 200 301 c) && negb (in_range 303 400 c).
Definition Good2 (m : mon) : Prop := forall c, In c (fails m) -> okc2 c = true.

Lemma Good2_fail : forall m c, Good2 m -> okc2 c = true -> Good2 (m_fail m c).
Proof.
  intros m c G K x H. unfold m_fail in H. cbn [fails] in H.
  destruct (mem_z c (fails m)); [apply G; assumption|].
  apply in_app_or in H. destruct H as [H|[H|[]]]; [apply G; assumption|subst; assumption].
Qed.
Lemma Good2_chk_ok : forall m b c, Good2 m -> okc2 c = true -> Good2 (chk m b c).
Proof. intros m b c G K. unfold chk. destruct b; [assumption|apply Good2_fail; assumption]. Qed.
Lemma Good2_chk_true : forall m b c, Good2 m -> b = true -> Good2 (chk m b c).
Proof. intros m b c G K. subst b. exact G. Qed.

Lemma Good2_m_fds : forall m a b c, Good2 m -> Good2 (m_fds m a b c). Proof. intros; assumption. Qed.
Lemma Good2_m_tms : forall m a b, Good2 m -> Good2 (m_tms m a b). Proof. intros; assumption. Qed.
Lemma Good2_m_tks : forall m a b, Good2 m -> Good2 (m_tks m a b). Proof. intros; assumption. Qed.
Lemma Good2_m_evs : forall m a b, Good2 m -> Good2 (m_evs m a b). Proof. intros; assumption. Qed.
Lemma Good2_m_rws : forall m a b, Good2 m -> Good2 (m_rws m a b). Proof. intros; assumption. Qed.
Lemma Good2_m_loop : forall m a b c d, Good2 m -> Good2 (m_loop m a b c d). Proof. intros; assumption. Qed.
Lemma Good2_m_wait : forall m a b c d e f, Good2 m -> Good2 (m_wait m a b c d e f). Proof. intros; assumption. Qed.
Lemma Good2_m_iter : forall m a b c d, Good2 m -> Good2 (m_iter m a b c d). Proof. intros; assumption. Qed.
Lemma Good2_m_spin : forall m a b c d, Good2 m -> Good2 (m_spin m a b c d). Proof. intros; assumption. Qed.

Ltac g2step :=
  match goal with
  | |- Good2 (chk _ _ ?c) => first [ apply Good2_chk_ok; [ | vm_compute; reflexivity ] | apply Good2_chk_true ]
  | |- Good2 (m_fail _ ?c) => apply Good2_fail; [ | vm_compute; reflexivity ]
  | |- Good2 (m_fds _ _ _ _) => apply Good2_m_fds
  | |- Good2 (m_tms _ _ _) => apply Good2_m_tms
  | |- Good2 (m_tks _ _ _) => apply Good2_m_tks
  | |- Good2 (m_evs _ _ _) => apply Good2_m_evs
  | |- Good2 (m_rws _ _ _) => apply Good2_m_rws
  | |- Good2 (m_loop _ _ _ _ _) => apply Good2_m_loop
  | |- Good2 (m_wait _ _ _ _ _ _ _) => apply Good2_m_wait
  | |- Good2 (m_iter _ _ _ _ _) => apply Good2_m_iter
  | |- Good2 (m_spin _ _ _ _ _) => apply Good2_m_spin
  end.

(* Good2 only reads fails *)
Lemma Good2_same : forall m m', fails m' = fails m -> Good2 m -> Good2 m'.
Proof. intros m m' E G c H. rewrite E in H. apply G; assumption. Qed.

(* the three fields of the dispatch clauses *)
Definition tv (m : mon) : list (Z * Z) * list (Z * Z) * list (Z * Z) := (w_gnd m, called m, expect m).

Lemma tv_chk : forall m b c, tv (chk m b c) = tv m.
Proof. intros m b c. destruct b; reflexivity. Qed.
Lemma tv_fail : forall m c, tv (m_fail m c) = tv m. Proof. reflexivity. Qed.

Lemma tv_on_call : forall m, tv (on_call m) = tv m.
Proof. intros m. unfold on_call, chk. destruct (a_main m); reflexivity. Qed.

Lemma Good2_on_call : forall m, Good2 m -> Good2 (on_call m).
Proof.
  intros m G. unfold on_call. cbv zeta.
  repeat g2step. assumption.
Qed.

(* events that neither touch the three fields nor add one of the codes *)
Definition sil (e : tev) : Prop :=
  match e with
  | TAct _ | TCallFd _ _ _ _ | TWait _ _ _ _ _ _ | TRet (Some _) _ _ | TEnd _ _ => False
  | _ => True
  end.

Ltac chks := unfold chk; repeat match goal with |- context [if ?b then _ else _] => destruct b end.

Lemma sil_tv : forall m e, sil e -> tv (mon_step m e) = tv m.
Proof.
  intros m e S. destruct e; try destruct S; try (destruct n; [destruct S|]); cbn [mon_step]; try reflexivity.
  - cbv zeta. transitivity (tv (on_call m)); [|apply tv_on_call]. chks; reflexivity.
  - cbv zeta. transitivity (tv (on_call m)); [|apply tv_on_call]. chks; reflexivity.
  - cbv zeta. transitivity (tv (on_call m)); [|apply tv_on_call]. chks; reflexivity.
  - cbv zeta. transitivity (tv (on_call m)); [|apply tv_on_call]. chks; reflexivity.
  - cbv zeta. chks; reflexivity.
  - destruct (rc =? 0); [|reflexivity]. destruct (kind =? 0); [reflexivity|]. destruct (kind =? 1); reflexivity.
  - chks; reflexivity.
  - chks; reflexivity.
  - chks; reflexivity.
Qed.

Lemma sil_good : forall m e, sil e -> Good2 m -> Good2 (mon_step m e).
Proof.
  intros m e S G. destruct e; try destruct S; try (destruct n; [destruct S|]); cbn [mon_step]; try assumption.
  - cbv zeta. pose proof (Good2_on_call m G) as GO.
    repeat g2step. exact GO.
  - cbv zeta. pose proof (Good2_on_call m G) as GO.
    repeat g2step. exact GO.
  - cbv zeta. pose proof (Good2_on_call m G) as GO.
    repeat g2step. exact GO.
  - cbv zeta. pose proof (Good2_on_call m G) as GO.
    repeat g2step. exact GO.
  - cbv zeta.
    repeat g2step. exact G.
  - destruct (rc =? 0); [|assumption]. destruct (kind =? 0); [assumption|]. destruct (kind =? 1); assumption.
  - repeat g2step. assumption.
  - repeat g2step. assumption.
  - repeat g2step. assumption.
  - repeat g2step. assumption.
  - repeat g2step. assumption.
Qed.

(* ---------- logged actions ---------- *)
Definition expect_after (a : action) (l : list (Z * Z)) : list (Z * Z) :=
  match a with
  | AFdUnreg i => remove_obj i l
  | AFdSetH i b _ => remove_pair (i, b) l
  | _ => l
  end.

Lemma tv_action : forall m a, tv (mon_action m a) = (w_gnd m, called m, expect_after a (expect m)).
Proof. intros m a. destruct a; reflexivity. Qed.

Lemma Good2_action : forall m a, Good2 m -> Good2 (mon_action m a).
Proof. intros m a G. apply (Good2_same m); [apply fails_action2|assumption]. Qed.

(* ---------- a descriptor callback ---------- *)
Lemma tv_TCallFd : forall m o b h ck,
  tv (mon_step m (TCallFd o b h ck)) = (w_gnd m, (o, b) :: called m, remove_pair (o, b) (expect m)).
Proof.
  intros. cbn [mon_step]. cbv zeta.
  pose proof (tv_on_call m) as T. revert T. generalize (on_call m). intros m0 T.
  unfold tv in T. injection T as T1 T2 T3.
  unfold tv. chks; cbn [w_gnd called expect m_iter m_fail]; rewrite ?T1, ?T2, ?T3; reflexivity.
Qed.

Lemma good2_TCallFd : forall m o b h ck, Good2 m ->
  band_holds b (gnd_of (w_gnd m) o) = true -> mem_pair (o, b) (called m) = false ->
  Good2 (mon_step m (TCallFd o b h ck)).
Proof.
  intros m o b h ck G B C. cbn [mon_step]. cbv zeta.
  pose proof (Good2_on_call m G) as GO.
  pose proof (tv_on_call m) as T. revert GO T. generalize (on_call m). intros m0 GO T.
  unfold tv in T. injection T as T1 T2 T3.
  assert (W : forall x b1 c1 b2 c2 b3 c3, w_gnd (chk (chk (chk x b1 c1) b2 c2) b3 c3) = w_gnd x) by (intros; chks; reflexivity).
  assert (K : forall x b1 c1 b2 c2 b3 c3 b4 c4, called (chk (chk (chk (chk x b1 c1) b2 c2) b3 c3) b4 c4) = called x)
    by (intros; chks; reflexivity).
  repeat g2step; try exact GO.
  - rewrite W, T1. exact B.
  - rewrite K, T2, C. reflexivity.
Qed.

(* ---------- iteration boundaries ---------- *)
Lemma expected_interest_ext : forall m m' p, a_fd m' = a_fd m -> a_fh m' = a_fh m ->
  expected_interest m' p = expected_interest m p.
Proof. intros m m' p A B. unfold expected_interest, wanted_of. rewrite A, B. reflexivity. Qed.

Lemma good2_close : forall m, Good2 m -> expect m = [] -> Good2 (close_iteration m).
Proof.
  intros m G E. unfold close_iteration. cbv zeta. repeat g2step. exact G. rewrite E. reflexivity.
Qed.

Lemma tv_close : forall m, called (close_iteration m) = [] /\ expect (close_iteration m) = [].
Proof. intros m. split; reflexivity. Qed.

Lemma good2_TWait : forall m n call mx t i g, Good2 m -> expect m = [] ->
  list_eqb3 (user_interest i) (expected_interest m (2 <=? call)) = true ->
  Good2 (mon_step m (TWait n call mx t i g)).
Proof.
  intros m n call mx t i g G E L. cbn [mon_step]. cbv zeta.
  pose proof (good2_close m G E) as GC.
  repeat g2step; try exact GC.
  rewrite (expected_interest_ext m (close_iteration m)); [exact L| |]; unfold close_iteration; cbv zeta; chks; reflexivity.
Qed.

Lemma tv_TWait : forall m n call mx t i g, tv (mon_step m (TWait n call mx t i g)) = (g, [], []).
Proof. intros. cbn [mon_step]. cbv zeta. unfold tv. chks; reflexivity. Qed.

Lemma wcall_TWait : forall m n call mx t i g,
  w_call (mon_step m (TWait n call mx t i g)) = call /\ w_max (mon_step m (TWait n call mx t i g)) = mx.
Proof. intros. cbn [mon_step]. cbv zeta. split; reflexivity. Qed.

Lemma good2_TEnd : forall m q n, Good2 m -> expect m = [] -> Good2 (mon_step m (TEnd q n)).
Proof.
  intros m q n G E. cbn [mon_step]. cbv zeta. pose proof (good2_close m G E) as GC.
  repeat g2step. exact GC.
Qed.

(* ---------- the wait returns ---------- *)
Definition cond202 (m : mon) (clk : Z) : bool :=
  negb ((a_clk m <? clk) && match ready_wanted m (w_gnd m) with [] => false | _ => true end).
Definition cond203 (m : mon) (n : Z) (fds : list Z) : bool :=
  match filter (fun p => negb (mem_z (100 + fst p) fds)) (ready_wanted m (w_gnd m)) with
  | [] => true
  | _ => negb (2 <=? w_call m) && (w_max m <=? n)
  end.

Lemma good2_TRet_some : forall m n fds clk, Good2 m -> cond202 m clk = true -> cond203 m n fds = true ->
  Good2 (mon_step m (TRet (Some n) fds clk)).
Proof.
  intros m n fds clk G C2 C3. lazy beta iota delta [mon_step]. repeat lift_let2.
  assert (G0 : Good2 m0) by (unfold m0; apply Good2_chk_true; [assumption|exact C2]).
  assert (W0 : w_max m0 = w_max m) by (unfold m0; chks; reflexivity).
  assert (G1 : Good2 m1) by (unfold m1; apply Good2_chk_true; [assumption|rewrite W0; exact C3]).
  assert (G2 : Good2 m2) by (unfold m2; g2step; assumption).
  assert (G3 : Good2 m3) by (unfold m3; g2step; assumption).
  assert (G4 : Good2 m4) by (unfold m4; g2step; assumption).
  assert (G5 : Good2 m5) by (unfold m5; g2step; assumption).
  assert (G6 : Good2 m6).
  { unfold m6. destruct (slept && negb (a_stale m5)); [|assumption].
    destruct (min_expiry m5); [|assumption]. cbv zeta. repeat g2step; assumption. }
  assert (G7 : Good2 m7) by (unfold m7; g2step; assumption).
  unfold m10, m9, m8. clearbody m7. repeat g2step. assumption.
Qed.

Lemma tv_TRet_some : forall m n fds clk,
  tv (mon_step m (TRet (Some n) fds clk)) =
  (w_gnd m, [], filter (fun p => mem_z (100 + fst p) fds) (ready_wanted m (w_gnd m))).
Proof.
  intros. lazy beta iota delta [mon_step]. repeat lift_let2.
  unfold tv, m10, m9, m8. cbn [w_gnd called expect m_iter m_spin m_loop m_wait].
  assert (W : w_gnd m7 = w_gnd m); [|rewrite W; reflexivity].
  assert (V0 : w_gnd m0 = w_gnd m) by (unfold m0; chks; reflexivity).
  assert (V1 : w_gnd m1 = w_gnd m) by (unfold m1; rewrite <- V0; chks; reflexivity).
  assert (V2 : w_gnd m2 = w_gnd m) by (unfold m2; rewrite <- V1; chks; reflexivity).
  assert (V3 : w_gnd m3 = w_gnd m) by (unfold m3; rewrite <- V2; chks; reflexivity).
  assert (V4 : w_gnd m4 = w_gnd m) by (unfold m4; rewrite <- V3; chks; reflexivity).
  assert (V5 : w_gnd m5 = w_gnd m) by (unfold m5; rewrite <- V4; chks; reflexivity).
  assert (V6 : w_gnd m6 = w_gnd m).
  { unfold m6. destruct (slept && negb (a_stale m5)); [|exact V5].
    destruct (min_expiry m5); [|exact V5]. cbv zeta. rewrite <- V5. chks; reflexivity. }
  unfold m7. rewrite <- V6. chks; reflexivity.
Qed.

(* ---------- the guard monitor ---------- *)
Lemma gfail_in : forall g c x, In x (g_fails (g_fail g c)) -> x = c \/ In x (g_fails g).
Proof.
  intros g c x H. unfold g_fail in H. cbn [g_fails] in H. destruct (mem_z c (g_fails g)); [auto|].
  apply in_app_or in H. destruct H as [H|[H|[]]]; auto.
Qed.

Lemma nf_boundary : forall g, In 1104 (g_fails (boundary g)) -> In 1104 (g_fails g).
Proof.
  intros g H. unfold boundary in H. destruct (leftovers g); [|assumption].
  apply gfail_in in H. destruct H as [H|H]; [discriminate H|assumption].
Qed.

Lemma nf_idle : forall g, In 1104 (g_fails (idle_boundary g)) -> In 1104 (g_fails g).
Proof.
  intros g H. unfold idle_boundary in H. cbv zeta in H. cbn [g_fails g_set_idle] in H.
  destruct (2 <=? (if g_idle_now g then g_idle g + 1 else 0)); [|assumption].
  apply gfail_in in H. destruct H as [H|H]; [discriminate H|assumption].
Qed.

Lemma gm_boundary : forall g, g_m (boundary g) = g_m g.
Proof. intros g. unfold boundary. destruct (leftovers g); reflexivity. Qed.
Lemma gm_idle : forall g, g_m (idle_boundary g) = g_m g.
Proof. intros g. unfold idle_boundary. cbv zeta. destruct (2 <=? _); reflexivity. Qed.
Lemma gd_boundary : forall g, g_done (boundary g) = g_done g.
Proof. intros g. unfold boundary. destruct (leftovers g); reflexivity. Qed.

Lemma script_of_fst : forall sc g key,
  g_m (fst (script_of sc g key)) = g_m g /\ g_fails (fst (script_of sc g key)) = g_fails g.
Proof. intros sc g key. unfold script_of. destruct (sc_handlers sc key); split; reflexivity. Qed.

Definition stale_at (m : mon) (i : list (Z * Z * bool)) : bool :=
  existsb (fun e => let fd := fst (fst e) in (100 <=? fd) && (fd <? 116) && negb (a_fd m (fd - 100))) i.

Section Guard.
Variable sc : scenario.

Lemma gstep_done : forall g e, g_done (gstep sc g e) = false -> g_done g = false.
Proof. intros g e H. destruct (g_done g) eqn:D; [|reflexivity]. unfold gstep in H. rewrite D in H. congruence. Qed.

Lemma consume_keep : forall g a,
  g_m (match consume g (g_todo g) a with
       | Some _ => g
       | None => if a_main (g_m g) && negb (g_wloaded g)
                 then g_set_wait (g_with (boundary g) (g_m (boundary g)) (sc_wait sc (g_nwait g + 1))) (g_nwait g) true
                 else g
       end) = g_m g /\
  (In 1104 (g_fails (match consume g (g_todo g) a with
       | Some _ => g
       | None => if a_main (g_m g) && negb (g_wloaded g)
                 then g_set_wait (g_with (boundary g) (g_m (boundary g)) (sc_wait sc (g_nwait g + 1))) (g_nwait g) true
                 else g
       end)) -> In 1104 (g_fails g)).
Proof.
  intros g a. destruct (consume g (g_todo g) a); [split; auto|].
  destruct (a_main (g_m g) && negb (g_wloaded g)); [|split; auto].
  cbn [g_m g_set_wait g_with g_fails]. split; [apply gm_boundary|apply nf_boundary].
Qed.

(* the guard monitor carries the tracker along *)
Lemma gstep_m : forall g e, g_done g = false -> g_m (gstep sc g e) = mon_step (g_m g) e.
Proof.
  intros g e D. unfold gstep. rewrite D.
  destruct e; try reflexivity.
  - (* TCallFd *)
    destruct (script_of sc _ hid) as [g1 l] eqn:S. cbn [g_m g_with].
    pose proof (script_of_fst sc (g_set_idle (track (boundary g) (TCallFd obj band hid cookie)) false (g_idle g)) hid) as [A _].
    rewrite S in A. cbn [fst] in A. rewrite A. cbn [g_m g_set_idle track g_with]. rewrite gm_boundary. reflexivity.
  - destruct (script_of sc _ (HK_T + j)) as [g1 l] eqn:S. cbn [g_m g_with].
    pose proof (script_of_fst sc (g_set_idle (track (boundary g) (TCallTimer j now)) false (g_idle g)) (HK_T + j)) as [A _].
    rewrite S in A. cbn [fst] in A. rewrite A. cbn [g_m g_set_idle track g_with]. rewrite gm_boundary. reflexivity.
  - destruct (script_of sc _ (HK_K + j)) as [g1 l] eqn:S. cbn [g_m g_with].
    pose proof (script_of_fst sc (g_set_idle (track (boundary g) (TCallTask j)) false (g_idle g)) (HK_K + j)) as [A _].
    rewrite S in A. cbn [fst] in A. rewrite A. cbn [g_m g_set_idle track g_with]. rewrite gm_boundary. reflexivity.
  - destruct (script_of sc _ (HK_E + j)) as [g1 l] eqn:S. cbn [g_m g_with].
    pose proof (script_of_fst sc (g_set_idle (track (boundary g) (TCallEvent j)) false (g_idle g)) (HK_E + j)) as [A _].
    rewrite S in A. cbn [fst] in A. rewrite A. cbn [g_m g_set_idle track g_with]. rewrite gm_boundary. reflexivity.
  - destruct (script_of sc _ (HK_R + j)) as [g1 l] eqn:S. cbn [g_m g_with].
    pose proof (script_of_fst sc (g_set_idle (track (boundary g) (TCallRaw j)) false (g_idle g)) (HK_R + j)) as [A _].
    rewrite S in A. cbn [fst] in A. rewrite A. cbn [g_m g_set_idle track g_with]. rewrite gm_boundary. reflexivity.
  - (* TWait *)
    rewrite gm_idle. cbn [g_m g_set_wait g_with]. f_equal.
    destruct (existsb _ interest); destruct (g_wloaded _); rewrite ?gm_boundary; reflexivity.
  - (* TRet *)
    destruct n; reflexivity.
  - (* TAct *)
    cbv zeta. cbn [track g_m g_with]. f_equal.
    pose proof (consume_keep g a) as [A _]. set (g1 := match consume g (g_todo g) a with Some _ => g | None => _ end) in *.
    rewrite <- A.
    destruct (consume g1 (g_todo g1) a); destruct a; reflexivity.
  - (* TMain *) cbn [g_m g_with]. rewrite gm_boundary. reflexivity.
  - (* TEnd *) rewrite gm_idle. cbn [g_m g_with]. rewrite gm_boundary. reflexivity.
  - (* TTear *) cbn [g_m g_with]. rewrite gm_boundary. reflexivity.
Qed.

Lemma gstep_nf : forall g e,
  (forall n c mx t i gd, e = TWait n c mx t i gd -> g_done g = false -> stale_at (g_m g) i = false) ->
  In 1104 (g_fails (gstep sc g e)) -> In 1104 (g_fails g).
Proof.
  intros g e ST H. unfold gstep in H. destruct (g_done g) eqn:D; [assumption|].
  destruct e; try exact H.
  - destruct (script_of sc _ hid) as [g1 l] eqn:S. cbn [g_fails g_with] in H.
    pose proof (script_of_fst sc (g_set_idle (track (boundary g) (TCallFd obj band hid cookie)) false (g_idle g)) hid) as [_ A].
    rewrite S in A. cbn [fst] in A. rewrite A in H. apply nf_boundary. exact H.
  - destruct (script_of sc _ (HK_T + j)) as [g1 l] eqn:S. cbn [g_fails g_with] in H.
    pose proof (script_of_fst sc (g_set_idle (track (boundary g) (TCallTimer j now)) false (g_idle g)) (HK_T + j)) as [_ A].
    rewrite S in A. cbn [fst] in A. rewrite A in H. apply nf_boundary. exact H.
  - destruct (script_of sc _ (HK_K + j)) as [g1 l] eqn:S. cbn [g_fails g_with] in H.
    pose proof (script_of_fst sc (g_set_idle (track (boundary g) (TCallTask j)) false (g_idle g)) (HK_K + j)) as [_ A].
    rewrite S in A. cbn [fst] in A. rewrite A in H. apply nf_boundary. exact H.
  - destruct (script_of sc _ (HK_E + j)) as [g1 l] eqn:S. cbn [g_fails g_with] in H.
    pose proof (script_of_fst sc (g_set_idle (track (boundary g) (TCallEvent j)) false (g_idle g)) (HK_E + j)) as [_ A].
    rewrite S in A. cbn [fst] in A. rewrite A in H. apply nf_boundary. exact H.
  - destruct (script_of sc _ (HK_R + j)) as [g1 l] eqn:S. cbn [g_fails g_with] in H.
    pose proof (script_of_fst sc (g_set_idle (track (boundary g) (TCallRaw j)) false (g_idle g)) (HK_R + j)) as [_ A].
    rewrite S in A. cbn [fst] in A. rewrite A in H. apply nf_boundary. exact H.
  - (* TWait *)
    apply nf_idle in H. cbn [g_fails g_set_wait g_with track] in H.
    pose proof (ST _ _ _ _ _ _ eq_refl eq_refl) as NS. unfold stale_at in NS. cbv zeta in NS. rewrite NS in H.
    destruct (g_wloaded g); apply nf_boundary in H; [exact H|]. cbn [g_fails g_with] in H. apply nf_boundary. exact H.
  - destruct n; exact H.
  - (* TAct *)
    cbv zeta in H. cbn [track g_fails g_with] in H.
    pose proof (consume_keep g a) as [_ A]. set (g1 := match consume g (g_todo g) a with Some _ => g | None => _ end) in *.
    apply A. clear A.
    assert (H2 : In 1104 (g_fails (match consume g1 (g_todo g1) a with
                                    | Some rest => g_with g1 (g_m g1) rest | None => g_fail g1 1101 end))).
    { destruct a; exact H. }
    destruct (consume g1 (g_todo g1) a); [exact H2|].
    apply gfail_in in H2. destruct H2 as [H2|H2]; [discriminate H2|exact H2].
  - (* TMain *) cbn [g_fails g_with track] in H. apply nf_boundary. exact H.
  - (* TEnd *) apply nf_idle in H. cbn [g_fails g_with track] in H. apply nf_boundary. exact H.
  - (* TTear *) cbn [g_fails g_with track] in H. apply nf_boundary. exact H.
Qed.

Lemma gmon_run_snoc : forall tr e, gmon_run sc (tr ++ [e]) = gstep sc (gmon_run sc tr) e.
Proof. intros. unfold gmon_run. rewrite fold_left_app. reflexivity. Qed.

Lemma mon_run_snoc : forall tr e, mon_run (tr ++ [e]) = mon_step (mon_run tr) e.
Proof. intros. unfold mon_run. rewrite fold_left_app. reflexivity. Qed.

Lemma gm_track : forall tr, g_done (gmon_run sc tr) = false -> g_m (gmon_run sc tr) = mon_run tr.
Proof.
  intros tr. induction tr as [|e tr IH] using rev_ind; intros D; [reflexivity|].
  rewrite gmon_run_snoc in *. rewrite mon_run_snoc. pose proof (gstep_done _ _ D) as D0.
  rewrite gstep_m by assumption. rewrite IH by assumption. reflexivity.
Qed.

(* ---------- the two monitors on the trace of a model state ---------- *)
Definition gst (s : core) : gmon := gmon_run sc (rev (trace s)).

Lemma gst_emit : forall s e, gst (emit s e) = gstep sc (gst s) e.
Proof. intros s e. unfold gst, emit. cbn [trace set_trace rev]. apply gmon_run_snoc. Qed.

Lemma gst_m : forall s, g_done (gst s) = false -> g_m (gst s) = mst s.
Proof. intros s D. apply gm_track. exact D. Qed.

Definition G2 (s : core) : Prop := Good2 (mst s) /\ ~ In 1104 (g_fails (gst s)).

Lemma G2_trace : forall s s', trace s' = trace s -> G2 s -> G2 s'.
Proof. intros s s' E [A B]. unfold G2, gst, mst in *. rewrite E. split; assumption. Qed.

(* an event other than a kernel wait *)
Lemma G2_emit : forall s e, G2 s -> Good2 (mon_step (mst s) e) ->
  (forall n c mx t i gd, e = TWait n c mx t i gd -> stale_at (mst s) i = false) -> G2 (emit s e).
Proof.
  intros s e [A B] G W. split; [rewrite mst_emit; exact G|].
  rewrite gst_emit. intro H. apply B. revert H. apply gstep_nf.
  intros n c mx t i gd E D. rewrite gst_m by assumption. eapply W. eassumption.
Qed.

Lemma G2_sil : forall s e, sil e -> G2 s -> G2 (emit s e).
Proof.
  intros s e S G. apply G2_emit; [assumption|apply sil_good; [assumption|apply G]|].
  intros n c mx t i gd E. subst e. destruct S.
Qed.

Lemma G2_act : forall s a, G2 s -> G2 (emit s (TAct a)).
Proof.
  intros s a G. apply G2_emit; [assumption|cbn [mon_step]; apply Good2_action; apply G|].
  intros n c mx t i gd E. discriminate E.
Qed.

End Guard.
