(* CorePhase2TimeR3L.v -- the raw-event invariant R3 (together with CoreInv's InvW) through
   handler scripts and the callback dispatchers. *)
From Coq Require Import List ZArith Bool Lia.
From Ivv Require Import Core.Kernel Core.CoreTypes Core.CoreFd Core.CoreModel Core.Monitors Core.CoreSpec
  Core.CoreRelBase Core.CoreInvBase Core.CoreInvDefs Core.CoreInvFd Core.CoreInvPoll Core.CoreInvReg Core.CoreInvObj
  Core.CoreInvTm Core.CoreInvLoop Core.CoreInv
  Core.CorePhase2K1Base Core.CorePhase2K1Fd Core.CorePhase2K1Act Core.CorePhase2K1Inv Core.CorePhase2K1Loop
  Core.CorePhase2TimeMon Core.CorePhase2TimeFr Core.CorePhase2TimeT1
  Core.CorePhase2TimeR3K Core.CorePhase2TimeR3 Core.CorePhase2TimeR3A Core.CorePhase2FdBase Core.CorePhase2FdMon Core.CorePhase2FdStep.
From Ivv Require Timer.HeapModel Timer.HeapSpec Timer.HeapProofs Timer.HeapBase Timer.HeapFacts Timer.HeapUnreg.
Import ListNotations.
Local Open Scope Z_scope.

Definition IR (s : core) : Prop := InvW s /\ R3 s /\ KX (kern s).
Definition QI (r : res) : Prop := ARes IR r.

Lemma QI_of : forall s r, PK s r -> Q3r r -> KX (kern (res_state r)) -> QI r.
Proof.
  intros s r P Q K. destruct r; cbn [QI ARes Q3r res_state] in *; [|exact I]. unfold PK in P. cbn [ARes] in P.
  split; [apply P|split; [exact Q|exact K]].
Qed.

Lemma QI_bind : forall r f, QI r -> (forall s1, InvW s1 -> R3 s1 -> KX (kern s1) -> QI (f s1)) -> QI (bind r f).
Proof. intros r f Q K. destruct r as [s1|s1]; cbn [bind QI ARes] in *; [apply K; apply Q|exact I]. Qed.

Lemma QI_same : forall s, InvW s -> R3 s -> KX (kern s) -> QI (R s).
Proof. intros s A B C. split; [exact A|split; assumption]. Qed.

Lemma InvW_UF : forall s, InvW s -> UF s.
Proof. intros s I k K. apply (fv_user _ _ (iw_fd _ I) k K). Qed.

Lemma do_action_KX : forall s a, wf_action a -> UF s -> KX (kern s) -> KX (kern (res_state (do_action s a))).
Proof.
  intros s a W U K. destruct (do_action_st s a W U) as [E|(s0 & L & [[T _]|[T _]] & _)].
  - rewrite E. exact K.
  - apply (st_kx _ _ _ _ T). rewrite (lg_kern _ _ _ L). exact K.
  - apply (st_kx _ _ _ _ T). rewrite (lg_kern _ _ _ L). exact K.
Qed.

Lemma R3_emit_plain : forall s e, R3 s ->
  match e with TAct _ | TCallRaw _ => False | _ => True end -> R3 (emit s e).
Proof.
  intros s e R C. apply R3_emit; [exact R|]. rewrite a_rwp_step. destruct e; try contradiction; reflexivity.
Qed.

Section Loop.
Variable sc : scenario.
Hypothesis WF : wf_scenario sc.
Let dok := CoreInv.do_action_ok.
Let Hh := wf_handlers sc WF.

Lemma do_action_QI : forall s a, InvW s -> R3 s -> KX (kern s) -> wf_action a -> QI (do_action s a).
Proof.
  intros s a I R K W. apply (QI_of s); [apply (do_action_K dok); assumption|apply do_action_R3; assumption|].
  apply do_action_KX; [exact W|apply InvW_UF; exact I|exact K].
Qed.

Lemma run_acts_QI : forall l s, InvW s -> R3 s -> KX (kern s) -> Forall wf_action l -> QI (run_acts s l).
Proof.
  induction l as [|a l IH]; intros s I R K W; cbn [run_acts]; [apply QI_same; assumption|].
  inversion W as [|? ? W1 W2]; subst. apply QI_bind; [apply do_action_QI; assumption|]. intros s1 I1 R1 K1. apply IH; assumption.
Qed.

Lemma run_script_QI : forall s key, InvW s -> R3 s -> KX (kern s) -> QI (run_script sc s key).
Proof.
  intros s key I R K. unfold run_script. pose proof (Hh key) as F.
  destruct (sc_handlers sc key) as [|l0 ls] eqn:E; [apply QI_same; assumption|].
  apply run_acts_QI; [apply InvW_set_invoc; exact I|apply (R3_same s _ R); reflexivity|exact K|].
  apply Forall_nth_d; [exact F|constructor].
Qed.

Lemma events_loop_QI : forall fuel s, InvW s -> R3 s -> KX (kern s) -> QI (events_loop sc fuel s).
Proof.
  induction fuel as [|f IH]; intros s I R K; cbn [events_loop]; destruct (ev_batch s) as [|ie rest] eqn:E;
    try (apply QI_same; assumption); try exact Logic.I.
  cbv zeta. set (s1 := set_evlists s (ev_pending s) rest).
  assert (I1 : InvW s1).
  { apply InvW_evlists; [assumption| |].
    - intros j J. rewrite E. apply in_app_or in J. apply in_or_app. destruct J; [left; assumption|right; right; assumption].
    - pose proof (ev_nodup _ (iw_ev _ I)) as ND. rewrite E in ND. apply NoDup_remove_1 in ND. assumption. }
  assert (I2 : InvW (emit s1 (TCallEvent ie))) by (apply InvW_emit; [assumption|discriminate..]).
  assert (R2 : R3 (emit s1 (TCallEvent ie))) by (apply R3_emit_plain; [apply (R3_same s s1 R); reflexivity|exact Logic.I]).
  apply QI_bind; [apply run_script_QI; assumption|]. intros s2 I2' R2' K2'.
  destruct rest; [apply QI_same; assumption|apply IH; assumption].
Qed.

Lemma run_pending_events_QI : forall s, InvW s -> R3 s -> KX (kern s) -> QI (run_pending_events sc s).
Proof.
  intros s I R K. unfold run_pending_events. destruct (ev_pending s) as [|p0 p] eqn:E; [apply QI_same; assumption|].
  set (s1 := set_evlists s [] (p0 :: p)).
  assert (I1 : InvW s1).
  { apply InvW_evlists; [assumption| |].
    - intros j J. rewrite E. apply in_or_app. left. exact J.
    - pose proof (ev_nodup _ (iw_ev _ I)) as ND. rewrite E in ND. apply NoDup_app_l in ND. exact ND. }
  apply events_loop_QI; [exact I1|apply (R3_same s s1 R); reflexivity|exact K].
Qed.

(* reading a descriptor *)
Lemma read_err_same : forall k fd c k1 e, k_read k fd c = (k1, inr e) -> k1 = k.
Proof.
  intros k fd c k1 e. unfold k_read. destruct (k_open k fd) as [v|]; [|intros E; inversion E; reflexivity].
  repeat match goal with |- context [if ?c then _ else _] => destruct c end; intros E; inversion E; reflexivity.
Qed.

Lemma read_nonneg : forall k fd c v0, k_get k fd = Some v0 -> 0 <= vcnt v0 ->
  forall v, k_get (fst (k_read k fd c)) fd = Some v -> 0 <= vcnt v.
Proof.
  intros k fd c v0 G0 NN v. unfold k_read. destruct (k_open k fd) as [w|] eqn:O; cbn [fst]; [|intros G; rewrite G0 in G; inversion G; subst; exact NN].
  apply k_open_get in O. destruct O as [O _]. rewrite G0 in O. inversion O; subst w.
  repeat match goal with |- context [if ?c then _ else _] => destruct c end; cbn [fst]; intros G;
    first [rewrite k_get_put, Z.eqb_refl in G | rewrite G0 in G]; inversion G; subst; cbn [vcnt with_cnt with_timer]; lia.
Qed.

Lemma raw_got_event_QI : forall s j, InvW s -> R3 s -> KX (kern s) -> rw_reg s j = true -> QI (raw_got_event sc s j).
Proof.
  intros s j I R K RJ. unfold raw_got_event. cbv zeta.
  set (toread := if raw_is_pipe s j then 1024 else 8).
  pose proof (raw_got_event_K sc WF dok s j I RJ) as PKK. unfold raw_got_event in PKK. cbv zeta in PKK. fold toread in PKK.
  pose proof (kstable_read (kern s) (rw_rfd s j) toread) as KS.
  pose proof (CNTx_read (kern s) (rw_rfd s j) toread) as CR.
  pose proof (read_err_same (kern s) (rw_rfd s j) toread) as RE.
  pose proof (read_nonneg (kern s) (rw_rfd s j) toread) as RN.
  pose proof (KX_read (kern s) (rw_rfd s j) toread K) as KR.
  pose proof (dy_range _ (iw_dyn _ I) j RJ) as JR.
  destruct (k_read (kern s) (rw_rfd s j) toread) as [k1 [n|e]]; cbn [fst] in KS, CR, RN, KR.
  - destruct (n =? 0); [exact Logic.I|].
    set (s1 := set_kern s k1) in *.
    assert (I1 : InvW s1) by (apply InvW_kstable; assumption).
    (* the other raw events keep their counters *)
    assert (OTH : forall j', r16 j' -> rw_reg s j' = true -> j' <> j ->
              rw_reg s j' = true /\ rw_rfd s1 j' = rw_rfd s j' /\ 1000 <= rw_rfd s j' /\ ~ (rw_rfd s j' = rw_rfd s j) /\
              k_get (kern s) (rw_rfd s j') <> None).
    { intros j' J' RG N. destruct (raw_facts s j' I RG) as (L & EX & _).
      split; [exact RG|]. split; [reflexivity|]. split; [exact L|]. split; [apply (raw_distinct s j' j I RG RJ N)|exact EX]. }
    destruct (Z.eqb_spec j KICK_RAW) as [EK|NK].
    + apply run_pending_events_QI; [exact I1| |exact KR].
      apply (R3_upd (fun x => x = rw_rfd s j) s s1 R CR).
      * intros j' J' A. apply (r3_reg _ R j' J' A).
      * intros j' J' RG. left. assert (N : j' <> j) by (unfold r16, KICK_RAW in *; lia).
        destruct (OTH j' J' RG N) as (A1 & A2 & A3 & A4 & A5). repeat split; auto.
    + assert (J16 : r16 j) by (unfold r16, KICK_RAW in *; lia).
      assert (I2 : InvW (emit s1 (TCallRaw j))) by (apply InvW_emit; [exact I1|discriminate..]).
      apply run_script_QI; [exact I2| |exact KR].
      assert (M : a_rwp (mst (emit s1 (TCallRaw j))) = upd (a_rwp (mst s)) j false) by (rewrite mst_emit, a_rwp_step; reflexivity).
      apply (R3_upd (fun x => x = rw_rfd s j) s (emit s1 (TCallRaw j)) R CR).
      * intros j' J' A. rewrite M in A. unfold upd in A. destruct (Z.eqb_spec j' j); [discriminate A|apply (r3_reg _ R j' J' A)].
      * intros j' J' RG. destruct (Z.eq_dec j' j) as [->|N].
        -- right. intros v G. rewrite M. unfold upd. rewrite Z.eqb_refl. split; [|discriminate].
           destruct (raw_facts s j I RJ) as (_ & EX & _). destruct (k_get (kern s) (rw_rfd s j)) as [v0|] eqn:G0; [|contradiction].
           apply (RN v0 eq_refl (proj1 (r3_cnt _ R j J16 RJ v0 G0)) v G).
        -- left. destruct (OTH j' J' RG N) as (A1 & A2 & A3 & A4 & A5). repeat split; auto.
           rewrite M. unfold upd. destruct (Z.eqb_spec j' j); [contradiction|auto].
  - destruct e; try exact Logic.I. rewrite (RE k1 EAGAIN eq_refl). cbn [QI ARes]. split.
    + rewrite (RE k1 EAGAIN eq_refl) in KS. apply InvW_kstable; assumption.
    + split; [apply (R3_same s _ R); reflexivity|exact K].
Qed.

Lemma call_fd_QI : forall s k band h, InvW s -> R3 s -> KX (kern s) -> registered (fdt s k) = true -> hsel (fdt s k) h ->
  QI (call_fd sc s k band h).
Proof.
  intros s k band h I R K RG HS. unfold call_fd. destruct h as [hid|]; [|apply QI_same; assumption].
  pose proof (fv_range _ _ (iw_fd _ I) k RG) as RNG.
  assert (RUN : QI (run_script sc (emit s (TCallFd k band hid (cookie (getfd s k)))) hid)).
  { apply run_script_QI; [apply InvW_emit; [exact I|discriminate..]|apply R3_emit_plain; [exact R|exact Logic.I]|exact K]. }
  destruct (Z_lt_ge_dec k 16) as [U|D].
  - destruct (dy_userh _ (iw_dyn _ I) k ltac:(lia)) as (A & B & C).
    assert (0 <= hid < 16) by (destruct HS as [Q|[Q|Q]]; symmetry in Q; [apply A|apply B|apply C]; assumption).
    destruct (Z.leb_spec 1000 hid); [lia|]. exact RUN.
  - set (j := k - 16). assert (J : 0 <= j <= 16) by (subst j; lia).
    assert (KJ : k = 16 + j) by (subst j; lia).
    pose proof (dy_reg _ (iw_dyn _ I) j J) as RR. rewrite <- KJ, RG in RR. symmetry in RR.
    destruct (dy_obj _ (iw_dyn _ I) j RR) as (_ & A & B & C). rewrite <- KJ in A, B, C.
    assert (hid = 1000 + j).
    { destruct HS as [Q|[Q|Q]]; rewrite ?A, ?B, ?C in Q; try discriminate. unfold H_RAW in Q. congruence. }
    subst hid. destruct (Z.leb_spec 1000 (1000 + j)); [|lia].
    replace (1000 + j - 1000) with j by lia. apply raw_got_event_QI; assumption.
Qed.

Lemma guarded_call_QI : forall s k (b : bool) band (sel : fdo -> option Z), InvW s -> R3 s -> KX (kern s) ->
  (handled s = Some k \/ handled s = None) -> (forall f, hsel f (sel f)) ->
  QI (match handled s with
      | Some _ => if b then call_fd sc s k band (sel (getfd s k)) else R s
      | None => R s
      end).
Proof.
  intros s k b band sel I R K H SEL.
  destruct (handled s) as [k'|] eqn:E; [|apply QI_same; assumption].
  destruct H as [H|H]; [|discriminate]. injection H as ->. destruct b; [|apply QI_same; assumption].
  apply call_fd_QI; [exact I|exact R|exact K|apply (handled_reg _ _ I E)|apply SEL].
Qed.

Lemma dispatch_active_QI : forall fuel s, InvW s -> R3 s -> KX (kern s) -> QI (dispatch_active sc fuel s).
Proof.
  induction fuel as [|f IH]; intros s I RR KK; cbn [dispatch_active]; destruct (active s) as [|k rest] eqn:E;
    try (apply QI_same; assumption); try exact Logic.I.
  cbv zeta. set (s1 := set_handled (set_active s rest) (Some k)).
  pose proof (iw_fd _ I) as FI.
  assert (LK : live s (-1) k) by (apply (fv_active _ _ FI); rewrite E; left; reflexivity).
  assert (I1 : InvW s1).
  { apply InvW_act_handled; [assumption| |].
    - intros k0 H. apply (fv_active _ _ FI). rewrite E. right. assumption.
    - intros k0 H. injection H as <-. assumption. }
  assert (R1 : R3 s1) by (apply (R3_same s s1 RR); reflexivity).
  assert (H1 : handled s1 = Some k) by reflexivity.
  assert (RG1 : registered (fdt s1 k) = true) by (apply live_none in LK; apply LK).
  (* error band *)
  assert (P1 : okr (fun s' => StepT s1 s' /\ (handled s' = Some k \/ handled s' = None))
                   (if has (ready (getfd s1 k)) M_ERR then call_fd sc s1 k 2 (h_err (getfd s1 k)) else R s1)).
  { destruct (has (ready (getfd s1 k)) M_ERR).
    - eapply okr_weaken; [apply (call_fd_ok sc Hh dok s1 k 2 _ I1 RG1); right; right; reflexivity|].
      intros s' S. split; [assumption|]. destruct (fr_handled _ _ (proj1 (proj2 S))) as [Q|Q]; [left; congruence|right; assumption].
    - cbn [okr]. split; [apply StepT_refl; assumption|left; assumption]. }
  assert (K1 : QI (if has (ready (getfd s1 k)) M_ERR then call_fd sc s1 k 2 (h_err (getfd s1 k)) else R s1)).
  { destruct (has (ready (getfd s1 k)) M_ERR); [|apply QI_same; assumption].
    apply call_fd_QI; [exact I1|exact R1|exact KK|exact RG1|right; right; reflexivity]. }
  destruct (if has (ready (getfd s1 k)) M_ERR then call_fd sc s1 k 2 (h_err (getfd s1 k)) else R s1) as [s2|s2];
    unfold QI in *; cbn [bind okr ARes] in *; [|exact Logic.I].
  destruct P1 as [_ H2], K1 as (I2 & R2 & K2').
  (* input band *)
  pose proof (guarded_call sc Hh dok s2 k (has (ready (getfd s2 k)) M_IN) 0 h_in I2 H2 ltac:(intros; left; reflexivity)) as P2.
  pose proof (guarded_call_QI s2 k (has (ready (getfd s2 k)) M_IN) 0 h_in I2 R2 K2' H2 ltac:(intros; left; reflexivity)) as K2.
  destruct (match handled s2 with
            | Some _ => if has (ready (getfd s2 k)) M_IN then call_fd sc s2 k 0 (h_in (getfd s2 k)) else R s2
            | None => R s2 end) as [s3|s3]; unfold QI in *; cbn [bind okr ARes] in *; [|exact Logic.I].
  destruct P2 as [_ H3], K2 as (I3 & R3' & K3').
  (* output band *)
  pose proof (guarded_call sc Hh dok s3 k (has (ready (getfd s3 k)) M_OUT) 1 h_out I3 H3 ltac:(intros; right; left; reflexivity)) as P3.
  pose proof (guarded_call_QI s3 k (has (ready (getfd s3 k)) M_OUT) 1 h_out I3 R3' K3' H3 ltac:(intros; right; left; reflexivity)) as K3.
  destruct (match handled s3 with
            | Some _ => if has (ready (getfd s3 k)) M_OUT then call_fd sc s3 k 1 (h_out (getfd s3 k)) else R s3
            | None => R s3 end) as [s4|s4]; unfold QI in *; cbn [bind okr ARes] in *; [|exact Logic.I].
  destruct P3 as [_ H4], K3 as (I4 & R4 & K4').
  apply (IH s4 I4 R4 K4').
Qed.

(* ---------- timers ---------- *)
Lemma timers_dispatch_QI : forall fuel s, InvW s -> R3 s -> KX (kern s) -> QI (timers_dispatch sc fuel s).
Proof.
  induction fuel as [|f IH]; intros s I R K; cbn [timers_dispatch]; destruct (HeapModel.batch (heap s)) as [|t rest] eqn:E;
    try (apply QI_same; assumption); try exact Logic.I.
  cbv zeta.
  pose proof (HeapFacts.HeapInv_Inv _ (iw_heap _ I)) as HI.
  assert (T0 : HeapModel.tidx (heap s) t = 0).
  { apply (proj1 (HeapFacts.i_batch _ HI)). rewrite E. left. reflexivity. }
  destruct (HeapUnreg.pop_inv (heap s) t HI T0) as (HI1 & _ & _ & _ & B1 & N1 & _).
  rewrite E in HI1, B1, N1. cbn [HeapModel.remove_first] in HI1, B1, N1. rewrite Pos.eqb_refl in HI1, B1, N1.
  set (h1 := HeapModel.set_idx (HeapModel.set_batch (heap s) rest) t (-1)) in *.
  set (s1 := set_heap s h1).
  assert (I1 : InvW s1) by (apply InvW_set_heap; [assumption|apply HeapFacts.Inv_HeapInv; assumption|assumption]).
  pose proof (InvW_validate s1 I1) as I2. set (s2 := validate_now s1) in *.
  assert (I3 : InvW (emit s2 (TCallTimer (Z.pos t - 1) (time s2)))) by (apply InvW_emit; [exact I2|discriminate..]).
  assert (R2 : R3 s2) by (apply R3_validate; apply (R3_same s s1 R); reflexivity).
  assert (R3' : R3 (emit s2 (TCallTimer (Z.pos t - 1) (time s2)))) by (apply R3_emit_plain; [exact R2|exact Logic.I]).
  assert (K3 : KX (kern (emit s2 (TCallTimer (Z.pos t - 1) (time s2))))).
  { unfold s2, validate_now. destruct (time_valid s1); exact K. }
  apply QI_bind; [apply run_script_QI; assumption|]. intros s4 I4 R4 K4. apply IH; assumption.
Qed.

Lemma run_timers_QI : forall s, InvW s -> R3 s -> KX (kern s) -> Q3 s -> QI (run_timers sc s).
Proof.
  intros s I R K Q. unfold run_timers. destruct (HeapModel.num (heap s) =? 0); [apply QI_same; assumption|].
  cbv zeta. pose proof (InvW_validate s I) as I1. set (s1 := validate_now s) in *.
  assert (H1 : heap s1 = heap s) by apply heap_validate.
  destruct (HeapProofs.heap_collect_ok (heap s1) (time s1)) as (h' & C & HI' & _).
  { rewrite H1. apply (iw_heap _ I). }
  { rewrite H1. apply Q. }
  rewrite C. unfold lift_heap. cbn [bind].
  destruct (heap_step s1 h' I1 HI') as (I2 & N2). cbv zeta in I2, N2.
  set (s2 := set_numobjs (set_heap s1 h') _) in *.
  apply timers_dispatch_QI; [exact I2| |unfold s2, s1, validate_now; destruct (time_valid s); exact K].
  apply (R3_same s1 s2); [apply R3_validate; exact R|reflexivity..].
Qed.

(* ---------- tasks ---------- *)
Lemma tasks_loop_QI : forall fuel s, InvW s -> R3 s -> KX (kern s) -> QI (tasks_loop sc fuel s).
Proof.
  induction fuel as [|f IH]; intros s I R K; cbn [tasks_loop]; destruct (cur s) as [[|k rest]|] eqn:E;
    try (apply QI_same; assumption); try exact Logic.I.
  - pose proof (tasks_loop_K sc WF dok 0 s I) as PKK. cbn [tasks_loop] in PKK. rewrite E in PKK.
    unfold PK in PKK. cbn [ARes QI] in *. split; [apply PKK|split; [apply (R3_same s _ R); reflexivity|exact K]].
  - pose proof (tasks_loop_K sc WF dok 1 s I) as PKK. cbn [tasks_loop] in PKK. rewrite E in PKK.
    unfold PK in PKK. cbn [ARes QI] in *. split; [apply PKK|split; [apply (R3_same s _ R); reflexivity|exact K]].
  - cbv zeta.
    set (s1 := set_epoch (set_numobjs (set_tasks s (tasks s) (Some rest)) (numobjs s - 1)) (epoch s) (upd (tepoch s) k (epoch s))).
    assert (C0 : curl s = k :: rest) by (unfold curl; rewrite E; reflexivity).
    assert (C1 : curl s1 = rest) by reflexivity.
    pose proof (tk_nodup _ (iw_task _ I)) as ND. rewrite C0 in ND.
    assert (I1 : InvW s1).
    { apply (InvW_tasks_set dok s); try reflexivity; [assumption|constructor; reflexivity| | |].
      - rewrite C0, C1. change (tasks s1) with (tasks s). intros x X. apply in_app_or in X. apply in_or_app.
        destruct X; [left; assumption|right; right; assumption].
      - rewrite C1. change (tasks s1) with (tasks s). apply NoDup_remove_1 in ND. exact ND.
      - rewrite C0, C1. change (tasks s1) with (tasks s). change (numobjs s1) with (numobjs s - 1).
        rewrite !app_length. cbn [length]. lia. }
    assert (R1 : R3 s1) by (apply (R3_same s s1 R); reflexivity).
    apply QI_bind; [|intros s2 I2 R2 K2; apply IH; assumption].
    destruct (k =? LOCAL_TASK); [apply run_pending_events_QI; assumption|].
    apply run_script_QI; [apply InvW_emit; [exact I1|discriminate..]|apply R3_emit_plain; [exact R1|exact Logic.I]|exact K].
Qed.

Lemma run_tasks_QI : forall s, InvW s -> R3 s -> KX (kern s) -> Q3 s -> QI (run_tasks sc s).
Proof.
  intros s I R K Q. unfold run_tasks. cbv zeta.
  set (s1 := set_epoch (set_tasks s [] (Some (tasks s))) ((epoch s + 1) mod 4294967296) (tepoch s)).
  destruct Q as (Qb & Qc & Qe).
  assert (C0 : curl s = []) by (unfold curl; rewrite Qc; reflexivity).
  assert (C1 : curl s1 = tasks s) by reflexivity.
  assert (I1 : InvW s1).
  { apply (InvW_tasks_set dok s); try reflexivity; [assumption|constructor; reflexivity| | |].
    - rewrite C0, C1, app_nil_r. intros k0 K0. exact K0.
    - rewrite C1. pose proof (tk_nodup _ (iw_task _ I)) as ND. rewrite C0, app_nil_r in ND. exact ND.
    - rewrite C0, C1, app_nil_r. reflexivity. }
  apply tasks_loop_QI; [exact I1|apply (R3_same s s1 R); reflexivity|exact K].
Qed.
End Loop.
