(* FairMon.v -- trace monitor for the "timers are serviced every iteration" clause of C06 (code 605).
   Independent of Monitors.v (its own, minimal tracking of the registered timers), so that the tracker monitor and
   its proofs are not disturbed.

   Clause 605: every timer that is registered and due (expiry <= clock) when a kernel wait RETURNS is run (or
   unregistered) before the NEXT kernel wait is entered -- whatever that next wait's timeout is, in particular when
   it is the zero-timeout poll made because tasks are pending (a chain of self-re-registering tasks does not keep due
   timers from running).  A wait that was interrupted (EINTR) creates no obligation: on the epoll-timerfd method the
   loop deliberately goes straight back to the kernel when the deadline lives in the kernel timer.
   The same obligation holds when iv_main RETURNS (TEnd) instead of entering another wait. *)
From Coq Require Import List ZArith Bool.
From Ivv Require Import Core.Kernel Core.CoreTypes.
Import ListNotations.
Local Open Scope Z_scope.

Record fmon := mkF {
  f_reg : Z -> bool;          (* timer j registered *)
  f_exp : Z -> Z;             (* its absolute expiry *)
  f_due : list Z;             (* timers that were due at the last normal return from a wait and have not run yet *)
  f_fail : bool;
}.

Definition f_init : fmon := mkF (fun _ => false) (fun _ => 0) [] false.

Definition all_timers : list Z := [0; 1; 2; 3; 4; 5; 6; 7; 8; 9; 10; 11; 12; 13; 14; 15].

Definition f_drop (j : Z) (l : list Z) : list Z := filter (fun k => negb (k =? j)) l.

Definition f_step (m : fmon) (e : tev) : fmon :=
  match e with
  | TAct (ATmRegAbs j x) => mkF (upd (f_reg m) j true) (upd (f_exp m) j x) (f_drop j (f_due m)) (f_fail m)
  | TAct (ATmUnreg j) => mkF (upd (f_reg m) j false) (f_exp m) (f_drop j (f_due m)) (f_fail m)
  | TCallTimer j _ => mkF (upd (f_reg m) j false) (f_exp m) (f_drop j (f_due m)) (f_fail m)
  | TRet (Some _) _ clk =>
      mkF (f_reg m) (f_exp m) (filter (fun j => f_reg m j && (f_exp m j <=? clk)) all_timers) (f_fail m)
  | TRet None _ _ => mkF (f_reg m) (f_exp m) [] (f_fail m)
  | TWait _ _ _ _ _ _ =>
      mkF (f_reg m) (f_exp m) (f_due m) (f_fail m || match f_due m with [] => false | _ => true end)
  | TEnd _ _ =>
      (* iv_main returns (iv_quit, or nothing left): the timers that were due at the last wake-up have all run -- a
         quit from one timer's handler does not abandon the rest of the expired batch *)
      mkF (f_reg m) (f_exp m) (f_due m) (f_fail m || match f_due m with [] => false | _ => true end)
  | _ => m
  end.

Definition fair_fails (tr : list tev) : list Z :=
  if f_fail (fold_left f_step tr f_init) then [605] else [].
