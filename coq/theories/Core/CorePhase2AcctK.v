(* CorePhase2AcctK.v -- codes 705, 708, 710: a wait can only sleep when no task is pending and no
   event is posted.  Assembly of the tracker-side chain (CorePhase2AcctWait: "Clean S5" through
   iv_fd_poll_and_run modulo the kernel-timer hypothesis) with the kernel-timer invariant
   (CorePhase2K1) and the state invariant (the CoreInv files).  Everything is stated for an arbitrary
   `do_action_ok` (the statement of CoreInv.do_action_ok). *)
From Coq Require Import List ZArith Bool Lia.
From Ivv Require Import Core.Kernel Core.CoreTypes Core.CoreFd Core.CoreModel Core.CoreSpec Core.Monitors.
From Ivv Require Import Core.CoreRel Core.CorePhase2AcctTr Core.CorePhase2AcctTr2 Core.CorePhase2AcctMon
  Core.CorePhase2AcctMon2 Core.CorePhase2AcctAct Core.CorePhase2AcctLoop Core.CorePhase2AcctEv
  Core.CorePhase2AcctEvLoop Core.CorePhase2AcctWait Core.CorePhase2AcctEnd.
From Ivv Require Import Core.CoreInvBase Core.CoreInvDefs Core.CoreInvFd Core.CoreInvPoll Core.CoreInvReg Core.CoreInvObj
  Core.CoreInvTm Core.CoreInvLoop Core.CoreInvWait Core.CoreInvTop.
From Ivv Require Import Core.CorePhase2K1.
From Ivv Require Timer.HeapModel.
Import ListNotations.
Local Open Scope Z_scope.

Section K.
Variable sc : scenario.
Hypothesis WF : wf_scenario sc.
Hypothesis do_action_ok : forall s a, InvW s -> wf_action a -> okr (StepW s) (do_action s a).
Let Hh := wf_handlers sc WF.

(* ---------- the kernel-timer hypothesis of poll_and_run_CE ---------- *)
(* With a task pending the timeout is `Some 0`; when iv_fd_timeout_check answers "the kernel timer
   covers it", the timer descriptor is armed at dd (last_abs) with last_abs <= 0 <= clock, so it is
   readable and the epoll wait with timeout -1 returns at once. *)
Lemma HK_due : forall s, LoopInv s -> LKM s -> method s = M_ET ->
  forall s0, timeout_check s (Some 0) = (R s0, true) ->
  forall s1, epoll_flush_pending (S (length (notify s0))) s0 = R s1 -> WS s1 -> Due sc s1 (numfds s0 + 1).
Proof.
  intros s (I & Q & TM & AC) L ME s0 TC s1 FL W1.
  pose proof (ms_kinv _ (iw_misc _ I)) as KI. destruct KI as [KN _].
  pose proof (timeout_check_ok sc WF do_action_ok s (Some 0) I ME) as TCO. rewrite TC in TCO. cbn [fst okr] in TCO.
  destruct TCO as (I0 & F0 & TM0 & IE0).
  pose proof (timeout_check_LK s (Some 0) s0 true (L ME) ltac:(lia) ME TC) as L0.
  destruct (timeout_check_true s (Some 0) s0 TC) as (M0 & C0 & CMP).
  assert (LA0 : last_abs s0 <= 0).
  { revert CMP. unfold abs_cmp. destruct (Z.ltb_spec 0 (last_abs s0)); [lia|]. intros _. assumption. }
  destruct (flush_pending_K s0 I0 IE0) as (s1' & E & I1 & T1 & NF & _). rewrite FL in E. inversion E; subst s1'. clear E.
  assert (NN : 1 <= numfds s0 + 1).
  { rewrite (ac_numfds _ (iw_acct _ I0)). pose proof (cntf_nonneg (fun k => registered (fdt s0 k)) (zseq 0 33)). lia. }
  assert (G : forall s', InvW s' -> TFs s1 s' -> WS s' -> forall s2, wait_enter sc s' = R s2 ->
            nosleep_e (kern s2) (numfds s0 + 1) (-1) (sc_rot sc (nwait (kern s2)))).
  { intros s' I' T' W' s2 WE.
    pose proof (wait_enter_K sc WF do_action_ok s' I') as P. rewrite WE in P. unfold PK in P. cbn [ARes] in P. destruct P as [I2 T2].
    pose proof (wait_enter_WS sc WF s' W') as P. rewrite WE in P. destruct P as [W2 _].
    assert (T02 : TFs s0 s2) by (eapply TFs_trans; [exact T1|eapply TFs_trans; [exact T'|exact T2]]).
    pose proof (LK_TFs _ _ L0 T02) as L2.
    destruct (timer_ready s2 L2) as (e & IE & RB).
    - rewrite (tf_method _ _ _ T02), M0. exact ME.
    - rewrite (tf_lac _ _ _ T02). exact C0.
    - rewrite (tf_la _ _ _ T02). exact LA0.
    - apply (xi_clock _ (ws_xi _ W2)).
    - apply (nosleep_e_ready _ _ _ _ e IE RB NN). }
  intros s' [->| ->] s2 WE.
  - apply (G s1 I1 (TFs_refl _) W1 s2 WE).
  - apply (G (set_epoll s1 (epfd s1) (tfd s1) false)); [| |apply WS_set_epoll; exact W1|exact WE].
    + apply (InvW_coresame s1); [constructor; reflexivity|apply (ms_nobad _ (iw_misc _ I1))|exact I1].
    + apply TFs_plain; reflexivity.
Qed.

(* ---------- the three invariants carried round iv_main ---------- *)
Record MI (s : core) : Prop := { mi_x : MLX s; mi_l : LoopInv s; mi_k : LKM s }.

Definition MIr (r : res) : Prop := match r with R s => MI s | Halt _ => True end.

Lemma run_timers_MI : forall s, MI s -> MIr (run_timers sc s).
Proof.
  intros s [[[Jh A C B] X EB] L K].
  pose proof (run_timers_PJA sc WF s Jh A) as P. pose proof (run_timers_batch sc s) as PB.
  pose proof (run_timers_XI sc WF s Jh A X EB) as PX.
  pose proof (run_timers_ok sc Hh do_action_ok s (proj1 L) (proj1 (proj2 L))) as PL.
  pose proof (run_timers_K sc WF do_action_ok s (proj1 L) (proj1 (proj2 L))) as PKK.
  destruct (run_timers sc s) as [s1|s1]; unfold PXb, PK in *; cbn [PJAt ARes okr MIr] in *; [|exact Logic.I].
  destruct P as (P1 & P2 & P3), PX as [PX1 PX2]. constructor.
  - constructor; [constructor|..]; [exact P1|exact P2|apply (proj2 P3); exact C|apply PB; [exact B|reflexivity]|exact PX1|exact PX2].
  - apply (LoopInv_Ph sc WF do_action_ok s s1 L PL).
  - apply (LKM_TFs s s1 K (proj2 PKK)).
Qed.

Lemma run_tasks_MI : forall s, MI s -> MIr (run_tasks sc s).
Proof.
  intros s [[[Jh A C B] X EB] L K].
  pose proof (run_tasks_PJAT sc WF s Jh A C) as P. pose proof (run_tasks_XI sc WF s Jh A X EB C) as PX.
  pose proof (run_tasks_ok sc Hh do_action_ok s (proj1 L) (proj1 (proj2 L))) as PL.
  pose proof (run_tasks_K sc WF do_action_ok s (proj1 L) (proj1 (proj2 L))) as PKK.
  destruct (run_tasks sc s) as [s1|s1]; unfold PXb, PK in *; cbn [PJAT ARes okr MIr] in *; [|exact Logic.I].
  destruct P as (P1 & P2 & P3 & P4), PX as [PX1 PX2]. constructor.
  - constructor; [constructor|..]; [exact P1|exact P2|exact P3| |exact PX1|exact PX2].
    apply P4. exact B.
  - apply (LoopInv_Ph sc WF do_action_ok s s1 L PL).
  - apply (LKM_TFs s s1 K (proj2 PKK)).
Qed.

Lemma poll_and_run_MI : forall s abs, MI s -> quit s = false -> MIr (fst (poll_and_run sc s abs)).
Proof.
  intros s abs [[[Jh A C B] X EB] L K] Q.
  pose proof (poll_and_run_PJA0 sc WF s abs Jh A Q) as P. pose proof (poll_and_run_XI sc WF s abs Jh A X EB Q) as PX.
  pose proof (poll_and_run_ok sc WF do_action_ok s abs L) as PL.
  pose proof (poll_and_run_LKM sc WF do_action_ok s abs) as PKK.
  destruct (fst (poll_and_run sc s abs)) as [s1|s1]; unfold PXb in *; cbn [PJA0 ARes okr MIr] in *; [|exact Logic.I].
  destruct P as (P1 & P2 & P3 & P4), PX as [PX1 PX2]. constructor.
  - constructor; [constructor|..]; [exact P1|exact P2|apply P3; exact C|apply P4; exact B|exact PX1|exact PX2].
  - apply PL.
  - apply (PKK s1 L K eq_refl).
Qed.

Lemma MI_WS : forall s, MI s -> quit s = false -> numobjs s <> 0 -> WS s.
Proof. intros s [[[Jh A C B] X EB] L K] Q N. constructor; assumption. Qed.

(* ---------- iv_main ---------- *)
Lemma main_loop_CE : forall fuel s rt, MI s -> Clean S5 (mst s) ->
  Clean S5 (mst (res_state (main_loop sc fuel s rt))).
Proof.
  induction fuel as [|fuel IH]; intros s rt M C; cbn [main_loop].
  { cbn [halt res_state]. apply Clean_emit. apply Clean_step; [apply q5_quiet; exact Logic.I|exact C]. }
  assert (P1 : MIr (if rt then run_timers sc s else R s) /\
               Clean S5 (mst (res_state (if rt then run_timers sc s else R s)))).
  { destruct rt; [|split; [exact M|exact C]].
    split; [apply run_timers_MI; exact M|]. apply (Clean5_ch s); [apply run_timers_exth|exact C]. }
  destruct (if rt then run_timers sc s else R s) as [s1|s1]; cbn [bind res_state MIr] in *; [|apply P1].
  destruct P1 as [M1 C1].
  pose proof (run_tasks_MI s1 M1) as M2.
  assert (C2 : Clean S5 (mst (res_state (run_tasks sc s1)))) by (apply (Clean5_ch s1); [apply run_tasks_exth|exact C1]).
  destruct (run_tasks sc s1) as [s2|s2]; cbn [bind res_state MIr] in *; [|exact C2].
  destruct (quit s2 || (numobjs s2 =? 0)) eqn:QN; [exact C2|].
  apply orb_false_iff in QN. destruct QN as [Q2 N2]. apply Z.eqb_neq in N2.
  set (abs := match tasks s2 with _ :: _ => Some 0 | [] => soonest_timeout s2 end).
  pose proof (MI_WS s2 M2 Q2 N2) as W2.
  assert (TA : tasks s2 <> [] -> abs = Some 0).
  { unfold abs. destruct (tasks s2); [intros H; exfalso; apply H; reflexivity|reflexivity]. }
  pose proof (poll_and_run_MI s2 abs M2 Q2) as M3.
  assert (C3 : Clean S5 (mst (res_state (fst (poll_and_run sc s2 abs))))).
  { apply (poll_and_run_CE sc WF s2 abs W2 TA); [|exact C2].
    intros ME T s0 TC W0 s1' FL W1'. rewrite (TA T) in TC.
    apply (HK_due s2 (mi_l _ M2) (mi_k _ M2) ME s0 TC s1' FL W1'). }
  destruct (poll_and_run sc s2 abs) as [r rt']. cbn [fst] in *.
  destruct r as [s3|s3]; cbn [bind res_state MIr] in *; [|exact C3].
  apply IH; assumption.
Qed.

(* ---------- the initial state ---------- *)
Lemma fold_user_clock : forall l k, clock (fold_left k_user_fd l k) = clock k.
Proof. induction l as [|i l IH]; intros k; cbn [fold_left]; [reflexivity|]. rewrite IH. reflexivity. Qed.

Lemma core0_XI : XI (core0 sc) /\ ev_batch (core0 sc) = [] /\ LKM (core0 sc) /\ Clean S5 (mst (core0 sc)).
Proof.
  unfold core0.
  assert (CK : forall b : bool, clock (snd (if b then k_epoll_create (fold_left k_user_fd (zseq 0 16) (kernel0 (sc_faults sc)))
                                     else (-1, fold_left k_user_fd (zseq 0 16) (kernel0 (sc_faults sc))))) = 1000000000).
  { intros []; cbn [snd k_epoll_create k_alloc]; [cbn [clock k_put k_set_vfds k_set_next]|]; rewrite fold_user_clock; reflexivity. }
  specialize (CK ((sc_backend sc =? M_ET) || (sc_backend sc =? M_EP))).
  destruct (if (sc_backend sc =? M_ET) || (sc_backend sc =? M_EP) then _ else _) as [efd k]. cbn [snd] in CK.
  split; [|split; [reflexivity|split; [|intros c []]]].
  - constructor; cbn [kern ev_pending time_valid].
    + intros j _ H. discriminate H.
    + intros H. exfalso. apply H. reflexivity.
    + rewrite CK. lia.
    + intros H. discriminate H.
  - intros M. apply LK_trivial; [reflexivity|]. intros _. cbn. discriminate.
Qed.

(* ---------- whole runs ---------- *)
Theorem core_clean5 : Clean S5 (mon_run (run_scenario sc)).
Proof.
  unfold run_scenario.
  match goal with |- Clean S5 (mon_run (rev (trace (res_state ?r)))) => change (Clean S5 (mst (res_state r))) end.
  destruct (core0_Acc sc) as (A0 & B0 & _). destruct core0_XI as (X0 & E0 & K0 & C0).
  destruct (core0_Inv sc WF) as (I0 & TM0 & N0).
  assert (L0 : LoopInv (core0 sc)) by (apply LoopInv_Inv; split; assumption).
  pose proof (run_acts_PJA false (sc_setup sc) (core0 sc) (core0_J sc) A0 (wf_setup sc WF)) as P0.
  pose proof (run_acts_XI false (sc_setup sc) (core0 sc) (core0_J sc) A0 X0 (wf_setup sc WF)) as PX0.
  pose proof (run_acts_ok do_action_ok (sc_setup sc) (core0 sc) (proj1 I0) (wf_setup sc WF)) as PL0.
  pose proof (run_acts_K do_action_ok (sc_setup sc) (core0 sc) (proj1 I0) (wf_setup sc WF)) as PK0.
  pose proof (run_acts_ext (sc_setup sc) (core0 sc)) as T0. unfold RExt in T0.
  destruct (run_acts (core0 sc) (sc_setup sc)) as [s1|s1]; unfold PXI, PK in *; cbn [bind PJA ARes okr res_state] in *;
    [|apply (Clean5_ca _ _ T0 C0)].
  destruct P0 as (J1 & A1 & F1 & B1), PX0 as [X1 EB1].
  pose proof (Clean5_ca _ _ T0 C0) as C1.
  pose proof (LoopInv_StepT _ _ L0 PL0) as L1.
  pose proof (LKM_TFs _ _ K0 (proj2 PK0)) as K1'.
  (* iv_main is entered *)
  set (s2 := set_quit (emit s1 TMain) false).
  pose proof (J_main_enter s1 J1) as J2. fold s2 in J2.
  assert (C2 : Clean S5 (mst s2)).
  { change (mst s2) with (mst (emit s1 TMain)). apply Clean_emit. apply Clean_step; [apply q5_quiet; exact Logic.I|exact C1]. }
  assert (A2 : Acc s2).
  { apply (Acc_plain (fun _ => True) s1 s2 A1); try reflexivity.
    exists [TMain]. split; [reflexivity|constructor; [exact Logic.I|constructor]]. }
  assert (M2 : MI s2).
  { constructor; [constructor; [constructor|..]|..].
    - exact J2.
    - exact A2.
    - change (cur s1 = None). apply (proj2 F1). apply core0_cur.
    - change (HeapModel.batch (heap s1) = []). apply B1. exact B0.
    - apply (XI_plain (emit s1 TMain) s2); try reflexivity. apply XI_emit; [exact X1|exact Logic.I].
    - change (ev_batch s1 = []). apply EB1. exact E0.
    - apply (proj1 (main_enter s1 L1)).
    - apply (LKM_TFs s1 s2 K1'). apply TFs_plain; reflexivity. }
  pose proof (main_loop_CE (Z.to_nat (sc_limit sc) + 2) s2 true M2 C2) as C3.
  destruct (main_loop sc (Z.to_nat (sc_limit sc) + 2) s2 true) as [s3|s3]; cbn [bind res_state] in *; [|exact C3].
  (* iv_main returns; tear-down: no wait any more *)
  set (s4 := emit s3 (TEnd (if quit s3 then 1 else 0) (numobjs s3))).
  assert (C4 : Clean S5 (mst s4)).
  { unfold s4. apply Clean_emit. apply Clean_step; [apply q5_quiet; exact Logic.I|exact C3]. }
  pose proof (teardown_ext (zseq 0 16) s4) as T5. unfold RExt in T5.
  pose proof (Clean5_ca _ _ T5 C4) as C5.
  destruct (teardown s4 (zseq 0 16)) as [s5|s5]; cbn [bind res_state] in *; [|exact C5].
  apply Clean_emit. apply Clean_step; [apply q5_quiet; exact Logic.I|].
  apply (Clean5_ca (emit s5 (TTear (numobjs s5)))); [apply deinit_ext|].
  apply Clean_emit. apply Clean_step; [apply q5_quiet; exact Logic.I|exact C5].
Qed.

End K.

(* ---------- exported statements ---------- *)
From Ivv Require Core.CoreInv.

Theorem core_code_705 : forall sc, wf_scenario sc -> ~ In 705 (mon_fails (run_scenario sc)).
Proof. intros sc WF H. apply (core_clean5 sc WF CoreInv.do_action_ok 705 H). cbn. tauto. Qed.

Theorem core_code_708 : forall sc, wf_scenario sc -> ~ In 708 (mon_fails (run_scenario sc)).
Proof. intros sc WF H. apply (core_clean5 sc WF CoreInv.do_action_ok 708 H). cbn. tauto. Qed.

Theorem core_code_710 : forall sc, wf_scenario sc -> ~ In 710 (mon_fails (run_scenario sc)).
Proof. intros sc WF H. apply (core_clean5 sc WF CoreInv.do_action_ok 710 H). cbn. tauto. Qed.

Print Assumptions core_code_705.
Print Assumptions core_code_708.
Print Assumptions core_code_710.
