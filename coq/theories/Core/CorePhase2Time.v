(* CorePhase2Time.v -- the "nothing due when the loop sleeps" clauses of the tracker
   (Monitors.v) hold on every run of a well-formed scenario: exported statements.

   Build order: CorePhase2TimeMon, CorePhase2TimeFr, CorePhase2TimeT1, CorePhase2TimeT1L,
   CorePhase2TimeMon2, CorePhase2TimeSl, CorePhase2TimeReq, CorePhase2TimeT1W, CorePhase2Time
   (after the CoreRel, CoreInv and CorePhase2K1 families). *)
From Coq Require Import List ZArith Bool Lia.
From Ivv Require Import Core.Kernel Core.CoreTypes Core.CoreFd Core.CoreModel Core.Monitors Core.CoreSpec
  Core.CoreRel Core.CoreInv Core.CorePhase2TimeMon Core.CorePhase2TimeT1 Core.CorePhase2TimeT1W.
Import ListNotations.
Local Open Scope Z_scope.

(* codes 401 603 602 604 403 404 405, without any assumption on the raw events *)
Theorem core_time_codes : forall sc, wf_scenario sc ->
  forall c, In c [401; 603; 602; 604; 403; 404; 405] -> ~ In c (mon_fails (run_scenario sc)).
Proof.
  intros sc WF c Hc.
  pose proof (@core_G1 False sc WF CoreInv.do_action_ok (fun _ => True)) as G.
  apply G; try (intros; exact I).
  - intros s _ _ _. apply (@RawPR_off False). intros H; exact H.
  - left. exact Hc.
Qed.

Theorem core_code_401 : forall sc, wf_scenario sc -> ~ In 401 (mon_fails (run_scenario sc)).
Proof. intros sc WF. apply (core_time_codes sc WF). cbn; tauto. Qed.
Theorem core_code_603 : forall sc, wf_scenario sc -> ~ In 603 (mon_fails (run_scenario sc)).
Proof. intros sc WF. apply (core_time_codes sc WF). cbn; tauto. Qed.
Theorem core_code_602 : forall sc, wf_scenario sc -> ~ In 602 (mon_fails (run_scenario sc)).
Proof. intros sc WF. apply (core_time_codes sc WF). cbn; tauto. Qed.
Theorem core_code_604 : forall sc, wf_scenario sc -> ~ In 604 (mon_fails (run_scenario sc)).
Proof. intros sc WF. apply (core_time_codes sc WF). cbn; tauto. Qed.
Theorem core_code_403 : forall sc, wf_scenario sc -> ~ In 403 (mon_fails (run_scenario sc)).
Proof. intros sc WF. apply (core_time_codes sc WF). cbn; tauto. Qed.
Theorem core_code_404 : forall sc, wf_scenario sc -> ~ In 404 (mon_fails (run_scenario sc)).
Proof. intros sc WF. apply (core_time_codes sc WF). cbn; tauto. Qed.
Theorem core_code_405 : forall sc, wf_scenario sc -> ~ In 405 (mon_fails (run_scenario sc)).
Proof. intros sc WF. apply (core_time_codes sc WF). cbn; tauto. Qed.

(* every recorded code comes from some event *)
Lemma fails_codes : forall tr c, In c (mon_fails tr) -> exists e, In c (codes_of e).
Proof.
  intros tr c. unfold mon_fails, mon_run.
  assert (G : forall l m, In c (fails (fold_left mon_step l m)) -> In c (fails m) \/ exists e, In c (codes_of e)).
  { induction l as [|e l IH]; intros m H; cbn [fold_left] in H; [left; exact H|].
    destruct (IH _ H) as [H1|H1]; [|right; exact H1].
    apply In_fails_step in H1. destruct H1 as [H1|H1]; [left; exact H1|right; exists e; exact H1]. }
  intros H. destruct (G _ _ H) as [[]|E]. exact E.
Qed.

Theorem core_mon_C04 : forall sc, wf_scenario sc ->
  mon_C04 (run_scenario sc) = true /\ (forall c, In c (mon_fails (run_scenario sc)) -> ~ In c [102]).
Proof.
  intros sc WF. split.
  - unfold mon_C04, none_in. apply negb_true_iff.
    destruct (existsb (in_range 400 500) (mon_fails (run_scenario sc))) eqn:E; [|reflexivity].
    apply existsb_exists in E. destruct E as (c & H & R). exfalso.
    unfold in_range in R. apply andb_true_iff in R. destruct R as [R1 R2]. apply Z.leb_le in R1. apply Z.ltb_lt in R2.
    destruct (core_mon_handlers sc WF c H) as (_ & _ & _ & _ & _ & _ & N406 & N407 & _).
    pose proof (core_time_codes sc WF c) as TC.
    destruct (fails_codes _ _ H) as (e & CE).
    destruct e; cbn [codes_of] in CE; try (destruct n); cbn [In] in CE;
      repeat (destruct CE as [<-|CE]; [try lia; try (apply TC; [cbn; tauto|exact H])|]); try contradiction.
  - intros c H [<-|[]]. pose proof (core_mon_good sc WF 102 H) as K. vm_compute in K. discriminate K.
Qed.

Theorem core_mon_C06 : forall sc, wf_scenario sc -> mon_C06 (run_scenario sc) = true.
Proof.
  intros sc WF. unfold mon_C06. apply andb_true_iff. split.
  - unfold none_in. apply negb_true_iff.
    destruct (existsb (in_range 600 700) (mon_fails (run_scenario sc))) eqn:E; [|reflexivity].
    apply existsb_exists in E. destruct E as (c & H & R). exfalso.
    unfold in_range in R. apply andb_true_iff in R. destruct R as [R1 R2]. apply Z.leb_le in R1. apply Z.ltb_lt in R2.
    pose proof (core_time_codes sc WF c) as TC.
    destruct (fails_codes _ _ H) as (e & CE).
    destruct e; cbn [codes_of] in CE; try (destruct n); cbn [In] in CE;
      repeat (destruct CE as [<-|CE]; [try lia; try (apply TC; [cbn; tauto|exact H])|]); try contradiction.
  - apply negb_true_iff. destruct (mem_z 103 (mon_fails (run_scenario sc))) eqn:E; [|reflexivity].
    apply mem_z_In in E. pose proof (core_mon_good sc WF 103 E) as K. vm_compute in K. discriminate K.
Qed.

Print Assumptions core_time_codes.
Print Assumptions core_mon_C04.
Print Assumptions core_mon_C06.
