(* CoreRel.v -- the tracker of Monitors.v agrees with the model state along every
   run of a well-formed scenario (relation Rel, invariant J), and the monitor
   clauses that follow from the agreement alone: C01 (codes 101-105) and the codes
   301 302 709 703 704 801 406 407 1502.

   Build order: CoreRelBase, CoreRelMon, CoreRelDefs, CoreRelFd, CoreRelTm,
   CoreRelAct, CoreRelLoop, CoreRelWait, CoreRel. *)
From Coq Require Import List ZArith Bool Lia.
From Ivv Require Import Core.Kernel Core.CoreTypes Core.CoreFd Core.CoreModel Core.Monitors Core.CoreSpec.
From Ivv Require Export Core.CoreRelBase Core.CoreRelMon Core.CoreRelDefs Core.CoreRelFd Core.CoreRelTm
  Core.CoreRelAct Core.CoreRelLoop Core.CoreRelWait.
From Ivv Require Timer.HeapModel Timer.HeapBase Timer.HeapFacts Timer.HeapProofs.
Import ListNotations.
Local Open Scope Z_scope.

(* the state invariants needed by the relation, as one predicate *)
Definition RelInv (s : core) : Prop := SI s /\ FdI s (-1) /\ FdX s.

Lemma J_Rel : forall b s, J b s -> Rel s.
Proof. intros b s Jh. apply (j_ag _ _ Jh). Qed.
Lemma J_RelInv : forall b s, J b s -> RelInv s.
Proof. intros b s [A B C D E F]. split; [exact B|split; [exact C|exact D]]. Qed.
Lemma J_Good : forall b s, J b s -> Goodm (mst s).
Proof. intros b s Jh. apply (j_good _ _ Jh). Qed.

Section Main.
Variable sc : scenario.
Hypothesis WF : wf_scenario sc.

(* ---------- iv_main ---------- *)
Lemma main_loop_post : forall fuel s rt, J true s -> cur s = None ->
  match main_loop sc fuel s rt with R s' => J true s' | Halt s' => Goodm (mst s') end.
Proof.
  induction fuel as [|fuel IH]; intros s rt Jh C; cbn [main_loop].
  - unfold halt. rewrite mst_emit. apply good_quiet; [right; left; reflexivity|apply (j_good _ _ Jh)].
  - assert (P1 : Post true s (if rt then run_timers sc s else R s)).
    { destruct rt; [apply run_timers_post; assumption|apply Post_same; assumption]. }
    destruct (if rt then run_timers sc s else R s) as [s1|s1]; cbn [bind Post] in *; [|exact P1].
    destruct P1 as [J1 F1].
    pose proof (run_tasks_post sc WF s1 J1 (proj2 F1 C)) as P2.
    destruct (run_tasks sc s1) as [s2|s2]; cbn [bind PostT] in *; [|exact P2].
    destruct P2 as [J2 C2].
    destruct (quit s2 || (numobjs s2 =? 0)) eqn:QN; [exact J2|].
    apply orb_false_iff in QN. destruct QN as [Q2 _].
    set (abs := match tasks s2 with _ :: _ => Some 0 | [] => soonest_timeout s2 end).
    pose proof (poll_and_run_post sc WF s2 abs J2 Q2) as P3.
    destruct (poll_and_run sc s2 abs) as [r rt']. cbn [fst] in P3.
    destruct r as [s3|s3]; cbn [bind Post0] in *; [|exact P3].
    destruct P3 as [J3 C3]. apply IH; [exact J3|apply C3; exact C2].
Qed.

(* ---------- the initial state ---------- *)
Lemma ksame_fold_user : forall l k, ksame k (fold_left k_user_fd l k).
Proof.
  induction l as [|i l IH]; intros k; cbn [fold_left]; [apply ksame_refl|].
  eapply ksame_trans; [apply (ksame_user_fd k i)|apply IH].
Qed.

Lemma core0_J : J false (core0 sc).
Proof.
  unfold core0.
  set (k0 := fold_left k_user_fd (zseq 0 16) (kernel0 (sc_faults sc))).
  assert (K0 : ksame (kernel0 (sc_faults sc)) k0) by apply ksame_fold_user.
  assert (G : exists efd k, (if (sc_backend sc =? M_ET) || (sc_backend sc =? M_EP) then k_epoll_create k0 else (-1, k0)) = (efd, k) /\
              ksame (kernel0 (sc_faults sc)) k).
  { destruct ((sc_backend sc =? M_ET) || (sc_backend sc =? M_EP)).
    - unfold k_epoll_create. pose proof (ksame_alloc k0 K_EPOLL) as KA. destruct (k_alloc k0 K_EPOLL) as [efd k]. cbn [snd] in KA.
      exists efd, k. split; [reflexivity|exact (ksame_trans _ _ _ K0 KA)].
    - exists (-1), k0. split; [reflexivity|exact K0]. }
  destruct G as (efd & k & -> & (KC & KF & KE)).
  cbn [clock flt ep kernel0] in KC, KF, KE.
  set (s0 := {| fdt := fun i => fd_fresh (100 + i) i; active := []; handled := None; numfds := 0;
     last_abs := 0; last_abs_count := 0; method := sc_backend sc; notify := []; epfd := efd; tfd := -1;
     pwait2 := true; efd_epoll := 2; efd_raw := 2; active_fd := 0; active_ref := 0; active_wr := -1;
     pfds := []; pkeys := []; quit := false; numobjs := 0; heap := HeapModel.init; time := 0;
     time_valid := false; tasks := []; cur := None; epoch := 0; tepoch := fun _ => 0;
     ev_pending := []; ev_batch := []; ev_count := 0; ev_reg := fun _ => false; use_raw := false;
     rw_reg := fun _ => false; rw_rfd := fun _ => 0; rw_wfd := fun _ => 0;
     kern := k; trace := [TInit (sc_backend sc)]; invoc := fun _ => 0 |}).
  assert (M0 : mst s0 = mon0) by reflexivity.
  assert (TI : forall t, HeapModel.tidx HeapModel.init t = -1).
  { intros t. unfold HeapModel.tidx. rewrite HeapBase.tget_init. reflexivity. }
  constructor; rewrite ?M0.
  - constructor; cbn [s0 fdt heap tasks cur ev_reg ev_pending ev_batch rw_reg quit kern mon0
                      a_fd a_fh a_ck a_tm a_exp a_tk a_ev a_evp a_rw a_quit a_clk
                      registered h_in h_out h_err cookie fd_fresh]; try reflexivity.
    + intros j _. unfold timer_registered. cbn [s0 heap]. rewrite TI. reflexivity.
    + intros j _ H. unfold timer_registered in H. cbn [s0 heap] in H. rewrite TI in H. discriminate H.
    + intros j _ H. discriminate H.
    + symmetry. exact KC.
  - constructor; cbn [s0 heap time time_valid tasks ev_pending ev_batch ev_reg kern]; unfold curl; cbn [s0 cur app].
    + apply HeapProofs.Inv_init.
    + intros t H. rewrite TI in H. contradiction.
    + discriminate.
    + intros x [].
    + constructor.
    + intros x [].
    + constructor.
  - constructor.
    + intros x [].
    + intros x H. discriminate H.
    + intros x [].
    + intros _. split; [reflexivity|exact KE].
    + intros _. reflexivity.
    + cbn [s0 kern]. rewrite KE. intros e [].
    + reflexivity.
    + intros n x H. cbn [s0 pkeys] in H. destruct n; discriminate H.
  - constructor; cbn [s0 fdt rw_reg use_raw ev_count ev_reg registered h_in h_out h_err fd_fresh]; try discriminate; try reflexivity.
    + intros x _. repeat split; discriminate.
    + intros x _. repeat split; discriminate.
  - reflexivity.
  - intros c [].
Qed.

Lemma core0_cur : cur (core0 sc) = None.
Proof.
  unfold core0. destruct (if (sc_backend sc =? M_ET) || (sc_backend sc =? M_EP) then _ else _) as [efd k]. reflexivity.
Qed.

(* ---------- iv_main entered / left ---------- *)
Lemma J_main_enter : forall s, J false s -> J true (set_quit (emit s TMain) false).
Proof.
  intros s Jh. set (s1 := set_quit (emit s TMain) false).
  assert (MS : mst s1 = mon_step (mst s) TMain) by (change (mst s1) with (mst (emit s TMain)); apply mst_emit).
  apply J_JM. rewrite MS.
  set (m' := mon_step (mst s) TMain).
  destruct (mview_fields m' _ (mview_TMain (mst s))) as (Q1 & Q2 & Q3 & Q4 & Q5 & Q6 & Q7 & Q8 & Q9 & Q10 & Q11 & Q12).
  cbn [a_fd a_fh a_ck a_tm a_exp a_tk a_ev a_evp a_rw a_main a_quit a_clk m_loop] in *.
  apply (JM_upd2 false true s s1 m' Jh); try assumption;
    try (solve [left; repeat split; first [reflexivity | assumption | intros; apply fkeep_refl]]).
  - apply good_TMain. apply (j_good _ _ Jh).
  - right. exact Q11.
  - apply (FdI_keep s s1 (-1) (j_fd _ _ Jh)); reflexivity.
  - apply (FdX_keep s s1 (j_fx _ _ Jh)); try reflexivity; intros; repeat split.
Qed.

Lemma J_main_leave : forall s, J true s -> J false (emit s (TEnd (if quit s then 1 else 0) (numobjs s))).
Proof.
  intros s Jh. apply J_emit_step.
  set (m' := mon_step (mst s) (TEnd (if quit s then 1 else 0) (numobjs s))).
  destruct (mview_fields m' _ (mview_TEnd (mst s) _ _)) as (Q1 & Q2 & Q3 & Q4 & Q5 & Q6 & Q7 & Q8 & Q9 & Q10 & Q11 & Q12).
  cbn [a_fd a_fh a_ck a_tm a_exp a_tk a_ev a_evp a_rw a_main a_quit a_clk m_loop] in *.
  apply (JM_upd2 true false s s m' Jh); try assumption;
    try (solve [left; repeat split; first [reflexivity | assumption | intros; apply fkeep_refl]]).
  - unfold m'. apply good_TEnd; [apply (j_good _ _ Jh)|].
    rewrite (ag_quit _ _ (j_ag _ _ Jh)). destruct (quit s); reflexivity.
  - apply (j_fd _ _ Jh).
  - apply (j_fx _ _ Jh).
Qed.

(* ---------- tear-down ---------- *)
Lemma teardown_obj_post : forall b s i, J b s -> ok_idx i -> Post b s (teardown_obj s i).
Proof.
  intros b s i Jh I. unfold teardown_obj.
  eapply Post_bind; [apply do_action_post; [assumption|exact I]|]. intros s1 J1 _.
  eapply Post_bind; [apply do_action_post; [assumption|exact I]|]. intros s2 J2 _.
  eapply Post_bind; [apply do_action_post; [assumption|exact I]|]. intros s3 J3 _.
  eapply Post_bind; [apply do_action_post; [assumption|exact I]|]. intros s4 J4 _.
  apply do_action_post; [assumption|exact I].
Qed.

Lemma teardown_post : forall b l s, J b s -> Forall ok_idx l -> Post b s (teardown s l).
Proof.
  intros b l. induction l as [|i l IH]; intros s Jh OK; cbn [teardown].
  - apply Post_same. assumption.
  - inversion OK as [|? ? O1 O2]; subst.
    eapply Post_bind; [apply teardown_obj_post; assumption|]. intros s1 J1 _. apply IH; assumption.
Qed.

Lemma zseq_ok : Forall ok_idx (zseq 0 16).
Proof. apply Forall_forall. intros x H. apply In_zseq in H. unfold ok_idx. lia. Qed.

Lemma mst_deinit : forall s, mst (deinit sc s) = mst s.
Proof.
  intros s. unfold deinit. destruct ((sc_backend sc =? M_ET) || (sc_backend sc =? M_EP)); [|reflexivity].
  rewrite mst_do_close. destruct (tfd s =? -1); [reflexivity|apply mst_do_close].
Qed.

(* ---------- whole runs ---------- *)
Theorem core_good : Goodm (mon_run (run_scenario sc)).
Proof.
  unfold run_scenario.
  match goal with |- Goodm (mon_run (rev (trace (res_state ?r)))) => change (Goodm (mst (res_state r))) end.
  pose proof (run_acts_post false (sc_setup sc) (core0 sc) core0_J (wf_setup sc WF)) as P0.
  destruct (run_acts (core0 sc) (sc_setup sc)) as [s1|s1]; cbn [bind Post res_state] in *; [|exact P0].
  destruct P0 as [J1 F1].
  pose proof (J_main_enter s1 J1) as J2.
  assert (C2 : cur (set_quit (emit s1 TMain) false) = None) by (apply (proj2 F1); apply core0_cur).
  pose proof (main_loop_post (Z.to_nat (sc_limit sc) + 2) _ true J2 C2) as P3.
  destruct (main_loop sc (Z.to_nat (sc_limit sc) + 2) (set_quit (emit s1 TMain) false) true) as [s3|s3];
    cbn [bind res_state] in *; [|exact P3].
  pose proof (J_main_leave s3 P3) as J4.
  pose proof (teardown_post false (zseq 0 16) _ J4 zseq_ok) as P5.
  destruct (teardown (emit s3 (TEnd (if quit s3 then 1 else 0) (numobjs s3))) (zseq 0 16)) as [s5|s5];
    cbn [bind Post res_state] in *; [|exact P5].
  destruct P5 as [J5 _].
  rewrite mst_emit. apply good_TDone. rewrite mst_deinit. rewrite mst_emit. apply good_TTear. apply (j_good _ _ J5).
Qed.

End Main.

(* ---------- exported monitor theorems ---------- *)
Theorem core_mon_good : forall sc, wf_scenario sc ->
  forall c, In c (mon_fails (run_scenario sc)) -> okcode c = true.
Proof. intros sc WF c H. apply (core_good sc WF c H). Qed.

Theorem core_mon_C01 : forall sc, wf_scenario sc -> mon_C01 (run_scenario sc) = true.
Proof.
  intros sc WF. unfold mon_C01, none_in. apply negb_true_iff.
  destruct (existsb (in_range 100 200) (mon_fails (run_scenario sc))) eqn:E; [|reflexivity].
  apply existsb_exists in E. destruct E as (c & H & R).
  pose proof (core_mon_good sc WF c H) as K. unfold okcode in K. rewrite R in K. discriminate K.
Qed.

Theorem core_mon_handlers : forall sc, wf_scenario sc -> forall c, In c (mon_fails (run_scenario sc)) ->
  c <> 301 /\ c <> 302 /\ c <> 709 /\ c <> 703 /\ c <> 704 /\ c <> 801 /\ c <> 406 /\ c <> 407 /\ c <> 1502.
Proof.
  intros sc WF c H. pose proof (core_mon_good sc WF c H) as K.
  unfold okcode in K. apply andb_true_iff in K. destruct K as [_ K]. apply negb_true_iff in K.
  repeat split; intros ->; vm_compute in K; discriminate K.
Qed.

Print Assumptions core_mon_C01.
Print Assumptions core_mon_handlers.
