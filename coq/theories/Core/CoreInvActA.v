(* CoreInvActA.v -- the single-action lemma for every action except the six
   that register / unregister / post events and raw events (CoreInvAct.v). *)
From Coq Require Import List ZArith Bool Lia.
From Ivv Require Import Core.Kernel Core.CoreTypes Core.CoreFd Core.CoreModel Core.CoreSpec
  Core.CoreInvBase Core.CoreInvDefs Core.CoreInvFd Core.CoreInvPoll Core.CoreInvReg Core.CoreInvObj
  Core.CoreInvAct Core.CoreInvTm Core.CoreInvLoop.
From Ivv Require Timer.HeapModel Timer.HeapSpec.
Import ListNotations.
Local Open Scope Z_scope.

Lemma StepW_refl : forall s, InvW s -> StepW s s.
Proof. intros. split; [assumption|apply Fr_refl]. Qed.
Lemma StepW_trans : forall a b c, StepW a b -> StepW b c -> StepW a c.
Proof. intros a b c (A1&A2) (B1&B2). split; [assumption|eapply Fr_trans; eassumption]. Qed.
Lemma StepW_T : forall s s', StepT s s' -> StepW s s'.
Proof. intros s s' (A&B&_). split; assumption. Qed.

Lemma StepW_emit : forall s e, InvW s -> e <> TCrash -> e <> TFatal -> StepW s (emit s e).
Proof. intros. apply StepW_T. apply StepT_emit; assumption. Qed.

Lemma okr_pre : forall s s0 r, StepW s s0 -> okr (StepW s0) r -> okr (StepW s) r.
Proof. intros s s0 r A H. eapply okr_weaken; [exact H|]. intros s' B. eapply StepW_trans; eassumption. Qed.

(* ---------- descriptor objects rewritten by the application ---------- *)
Lemma cookie_ok : forall s i c, InvW s -> 0 <= i < 16 -> InvW (putfd s i (fd_with_cookie (fdt s i) c)).
Proof.
  intros s i c I K.
  assert (LS : libsame (fd_with_cookie (fdt s i) c) (fdt s i)) by (repeat split).
  assert (HO : hids_ok (fd_with_cookie (fdt s i) c) (fun h => 0 <= h < 16)) by (apply (dy_userh _ (iw_dyn _ I) i K)).
  apply (InvWx_InvW i); [apply InvWx_putfd_user; assumption|].
  pose proof (iw_sync _ I i) as S. unfold sync_at in *. sp. rewrite upd_same.
  cbn [fd_with_cookie registered wanted regb pidx bands_of h_in h_out h_err]. exact S.
Qed.

Lemma fresh_ok : forall s i, InvW s -> 0 <= i < 16 -> registered (fdt s i) = false ->
  InvW (putfd s i (fd_fresh (100 + i) i)).
Proof.
  intros s i [A B C D E F G H] K R.
  assert (U : forall k0, k0 <> i -> fdt (putfd s i (fd_fresh (100 + i) i)) k0 = fdt s k0) by (intros k0 N; sp; apply upd_other; assumption).
  assert (US : fdt (putfd s i (fd_fresh (100 + i) i)) i = fd_fresh (100 + i) i) by (sp; apply upd_same).
  constructor.
  - apply FdInv_putfd_dead; [assumption| |reflexivity|intros _; reflexivity].
    intros L. apply live_none in L. destruct L as [_ L]. congruence.
  - intros k0. destruct (Z.eq_dec k0 i) as [->|N].
    + unfold sync_at. rewrite US. intros Q. discriminate Q.
    + apply sync_at_same with (s := s); [apply U; assumption|reflexivity|reflexivity|reflexivity|apply B].
  - destruct C. constructor; try assumption.
    + intros j J. rewrite U by lia. apply dy_reg; assumption.
    + intros j J. rewrite U by (apply dy_range in J; lia). apply dy_obj; assumption.
    + intros k0 K0. destruct (Z.eq_dec k0 i) as [->|N]; [|rewrite U by assumption; apply dy_userh; assumption].
      rewrite US. unfold hids_ok. cbn [h_in h_out h_err fd_fresh]. split; [|split]; intros h0 H0; discriminate H0.
  - exact D.
  - apply (TaskInv_same s); [reflexivity..|exact E].
  - apply (EvInv_same s); [constructor; reflexivity|exact F].
  - destruct G as [G1 G2]. constructor; [|exact G2]. change (numfds (putfd s i (fd_fresh (100 + i) i))) with (numfds s).
    rewrite G1. apply cntf_ext. intros x _. destruct (Z.eq_dec x i) as [->|N]; [rewrite US; exact R|rewrite U by assumption; reflexivity].
  - apply (Misc_same s); [reflexivity..|exact H].
Qed.

Lemma Fr_putfd : forall s i f, Fr s (putfd s i f).
Proof. intros. fr_triv. Qed.

(* ---------- close() of a scripted descriptor that is not registered ---------- *)
Lemma user_close_get : forall k i fd, fd <> 100 + i -> k_get (k_user_close k i) fd = k_get k fd.
Proof.
  intros k i fd N. unfold k_user_close. destruct (k_get k (100 + i)); [|reflexivity].
  rewrite k_get_put. destruct (Z.eqb_spec fd (100 + i)); [contradiction|reflexivity].
Qed.
Lemma user_close_open : forall k i fd, fd <> 100 + i -> k_open (k_user_close k i) fd = k_open k fd.
Proof. intros. unfold k_open. rewrite user_close_get by assumption. reflexivity. Qed.
Lemma user_close_some : forall k i fd, k_get k fd <> None -> k_get (k_user_close k i) fd <> None.
Proof.
  intros k i fd H. unfold k_user_close. destruct (k_get k (100 + i)) eqn:G; [|assumption].
  rewrite k_get_put. destruct (Z.eqb_spec fd (100 + i)); [discriminate|assumption].
Qed.
Lemma user_close_rest : forall k i, ep (k_user_close k i) = ep k /\ next_fd (k_user_close k i) = next_fd k /\
  flt (k_user_close k i) = flt k /\ nwait (k_user_close k i) = nwait k.
Proof. intros. unfold k_user_close. destruct (k_get k (100 + i)); repeat split. Qed.

Lemma pipe_ok_same : forall k k' r w, (forall fd, 1000 <= fd -> k_open k' fd = k_open k fd) -> pipe_ok k r w -> pipe_ok k' r w.
Proof.
  intros k k' r w H (X & Y & v & vw & A & B). split; [assumption|]. split; [assumption|].
  exists v, vw. rewrite !H by assumption. exact (conj A B).
Qed.
Lemma evfd_ok_same : forall k k' r w, (forall fd, 1000 <= fd -> k_open k' fd = k_open k fd) -> evfd_ok k r w -> evfd_ok k' r w.
Proof.
  intros k k' r w H (X & Y & v & A). split; [assumption|]. split; [assumption|]. exists v. rewrite H by assumption. exact A.
Qed.

Lemma user_close_ok : forall s i, InvW s -> 0 <= i < 16 -> registered (fdt s i) = false ->
  InvW (set_kern s (k_user_close (kern s) i)).
Proof.
  intros s i [A B C D E F G H] K R.
  destruct (user_close_rest (kern s) i) as (EP & NX & FL & NW).
  assert (BIG : forall fd, 1000 <= fd -> k_open (k_user_close (kern s) i) fd = k_open (kern s) fd).
  { intros fd Q. apply user_close_open. lia. }
  assert (BIGG : forall fd, 1000 <= fd -> k_get (k_user_close (kern s) i) fd = k_get (kern s) fd).
  { intros fd Q. apply user_close_get. lia. }
  constructor.
  - apply FdInv_kern; [assumption|exact EP| |intros fd Q; apply user_close_some; assumption].
    intros k L. rewrite user_close_open; [apply (fv_open _ _ A); assumption|].
    destruct (Z_lt_ge_dec k 16) as [U|V].
    + apply live_none in L. destruct L as [L1 L2]. rewrite (fv_user _ _ A k) by lia. intros Q.
      assert (k = i) by lia. subst k. congruence.
    + pose proof (fv_dyn _ _ A k ltac:(lia) L). lia.
  - intros k. apply sync_at_same with (s := s); try reflexivity. apply B.
  - destruct C. constructor; sp; try assumption.
    + intros j J. specialize (dy_kern j J). dyk; [eapply pipe_ok_same|eapply evfd_ok_same]; eassumption.
    + intros J. destruct (dy_act J) as (X & (v & V1 & V2) & W). split; [assumption|]. split.
      * exists v. rewrite BIG by assumption. tauto.
      * destruct W as [W|W]; [left; assumption|right; eapply pipe_ok_same; eassumption].
    + destruct dy_tfd as [T|(T & v & V1 & V2)]; [left; assumption|right]. split; [assumption|]. exists v.
      rewrite BIGG by assumption. tauto.
    + rewrite EP. intros e He Q. destruct (dy_tfdent e He Q) as (v & V1 & V2). exists v. rewrite BIG; [tauto|].
      destruct (fv_ent _ _ A e He) as [((L&_)&_)|[(L&_)|(_&L1&_&L2)]]; lia.
  - exact D.
  - apply (TaskInv_same s); [reflexivity..|exact E].
  - apply (EvInv_same s); [constructor; reflexivity|exact F].
  - destruct G. constructor; assumption.
  - destruct H as [H1 H2 H3 [K1 K2]]. constructor; sp; try assumption.
    + rewrite FL. assumption.
    + constructor; [rewrite NX; assumption|]. intros fd Q. rewrite NX. apply K2.
      destruct (Z.eq_dec fd (100 + i)) as [->|N]; [|rewrite user_close_get in Q; assumption].
      destruct (k_get (kern s) (100 + i)) eqn:Z0; [discriminate|]. unfold k_user_close in Q. rewrite Z0 in Q. rewrite Z0 in Q. exact Q.
Qed.

(* ---------- iv_event_post from the owner thread ---------- *)
Lemma NoDup_ins_mid : forall (a b : list Z) x, NoDup (a ++ b) -> ~ In x (a ++ b) -> NoDup ((a ++ [x]) ++ b).
Proof.
  intros a b x ND NI. rewrite <- app_assoc. cbn [app].
  induction a as [|y a IH]; cbn [app] in *.
  - constructor; assumption.
  - inversion ND as [|? ? N1 N2]; subst. constructor.
    + rewrite in_app_iff in *. cbn [In]. intros [Q|[Q|Q]]; [apply N1; left; assumption|subst; apply NI; left; reflexivity|apply N1; right; assumption].
    + apply IH; [assumption|]. intros Q. apply NI. right. assumption.
Qed.

Lemma event_post_ok : forall s j, InvW s -> ev_reg s j = true -> StepW s (event_post s j).
Proof.
  intros s j I R. unfold event_post. cbv zeta. destruct (ev_on_list s j) eqn:OL; [apply StepW_refl; assumption|].
  unfold ev_on_list in OL. apply orb_false_iff in OL. destruct OL as [O1 O2].
  apply memz_nIn in O1. apply memz_nIn in O2.
  set (s1 := set_evlists s (ev_pending s ++ [j]) (ev_batch s)).
  assert (I1 : InvW s1).
  { apply (InvW_fdcs s); try assumption; [fc_refl|apply (ms_nobad _ (iw_misc _ I))|apply (iw_heap _ I)| | |].
    - apply (TaskInv_same s); [reflexivity..|apply (iw_task _ I)].
    - pose proof (iw_ev _ I) as []. constructor; try assumption.
      + intros x X. change (In x ((ev_pending s ++ [j]) ++ ev_batch s)) in X. rewrite !in_app_iff in X. cbn [In] in X.
        destruct X as [[X|[<-|[]]]|X]; [apply ev_lists; apply in_or_app; left; assumption|assumption|apply ev_lists; apply in_or_app; right; assumption].
      + change (NoDup ((ev_pending s ++ [j]) ++ ev_batch s)). apply NoDup_ins_mid; [assumption|].
        rewrite in_app_iff. tauto.
    - pose proof (iw_acct _ I) as []. constructor; assumption. }
  assert (F1 : Fr s s1) by fr_triv.
  match goal with |- context [if ?c then _ else _] => destruct c eqn:C end; [|split; assumption].
  apply andb_true_iff in C. destruct C as [_ C]. apply negb_true_iff in C.
  eapply StepW_trans; [split; eassumption|]. apply task_register_ok; [assumption|unfold LOCAL_TASK; lia|exact C].
Qed.

(* ---------- the actions ---------- *)
Definition actA (a : action) : Prop :=
  match a with
  | AEvReg _ | AEvUnreg _ | ARwReg _ | ARwUnreg _ | ARwPost _ => False
  | _ => True
  end.

Lemma kern_step : forall s e k', InvW s -> e <> TCrash -> e <> TFatal -> kstable (kern s) k' ->
  StepW s (set_kern (emit s e) k').
Proof.
  intros s e k' I A B KS. pose proof (StepW_emit s e I A B) as (I1 & F1).
  split; [apply (InvW_kstable _ k' I1); exact KS|]. eapply Fr_trans; [exact F1|]. apply Fr_set_kern. apply (kt_nwait _ _ KS).
Qed.

Lemma do_action_ok_A : forall s a, InvW s -> wf_action a -> actA a -> okr (StepW s) (do_action s a).
Proof.
  intros s a I W AA.
  assert (SAME : okr (StepW s) (R s)) by (cbn [okr]; apply StepW_refl; assumption).
  assert (EX : StepW s (emit s (TAct a))) by (apply StepW_emit; [assumption|discriminate..]).
  pose proof (proj1 EX) as IX.
  destruct a; cbn [wf_action actA] in W, AA; try contradiction; cbn [do_action]; cbv zeta; unfold getfd.
  - (* AFdReg *)
    destruct (registered (fdt s i)) eqn:R; [exact SAME|]. destruct (k_open (kern s) (fdnum (fdt s i))) eqn:O; [|exact SAME].
    apply (okr_pre _ _ _ EX). apply fd_register_InvW; [assumption|exact W|exact R|]. change (k_open (kern s) (fdnum (fdt s i)) <> None). congruence.
  - (* AFdTry *)
    destruct (registered (fdt s i)) eqn:R; [exact SAME|].
    pose proof (fd_register_try_InvW _ i IX W R) as H.
    destruct (fd_register_try (emit s (TAct (AFdTry i))) i) as [r fl]. cbn [fst] in H.
    apply (okr_pre _ _ _ EX). eapply okr_bind; [exact H|]. intros s1 S1. cbn [okr].
    eapply StepW_trans; [exact S1|]. apply StepW_emit; [apply S1|discriminate..].
  - (* AFdUnreg *)
    destruct (registered (fdt s i)) eqn:R; [|exact SAME]. apply (okr_pre _ _ _ EX).
    eapply okr_weaken; [apply (fd_unregister_InvW _ i IX R); unfold ok_idx in W; lia|]. intros s1 (S1 & _). exact S1.
  - (* AFdSetH *)
    apply (okr_pre _ _ _ EX). apply fd_set_handler_InvW; [assumption|apply W|apply W].
  - (* AFdCookie *)
    cbn [okr]. eapply StepW_trans; [exact EX|]. split; [apply (cookie_ok _ i c IX W)|apply Fr_putfd].
  - (* AFdFresh *)
    destruct (registered (fdt s i)) eqn:R; [exact SAME|]. cbn [okr]. eapply StepW_trans; [exact EX|].
    split; [apply (fresh_ok _ i IX W R)|apply Fr_putfd].
  - (* AKSet *)
    cbn [okr]. apply kern_step; [assumption|discriminate..|apply kstable_set_cond].
  - (* AKClose *)
    destruct (registered (fdt s i)) eqn:R; [exact SAME|]. cbn [okr]. eapply StepW_trans; [exact EX|].
    split; [apply (user_close_ok _ i IX W R)|]. apply Fr_set_kern. apply (user_close_rest (kern s) i).
  - (* AKOpen *)
    cbn [okr]. apply kern_step; [assumption|discriminate..|]. apply kstable_user_fd. unfold ok_idx in W. lia.
  - (* ATmRegAbs *)
    destruct (timer_registered s j) eqn:T; [exact SAME|]. apply (okr_pre _ _ _ EX). apply (timer_reg_ok _ j e IX T).
  - (* ATmRegRel *)
    destruct (timer_registered s j) eqn:T; [exact SAME|].
    pose proof (StepT_validate s I) as S1. set (s1 := validate_now s) in *.
    pose proof (StepT_emit s1 (TAct (ATmRegAbs j (time s1 + d))) (proj1 S1) ltac:(discriminate) ltac:(discriminate)) as S2.
    apply (okr_pre _ _ _ (StepW_T _ _ (StepT_trans _ _ _ S1 S2))).
    assert (T2 : timer_registered (emit s1 (TAct (ATmRegAbs j (time s1 + d)))) j = false).
    { unfold timer_registered in *. change (heap (emit s1 (TAct (ATmRegAbs j (time s1 + d))))) with (heap s1).
      subst s1. rewrite heap_validate. exact T. }
    exact (timer_reg_ok _ j (time s1 + d) (proj1 S2) T2).
  - (* ATmUnreg *)
    destruct (timer_registered s j) eqn:T; [|exact SAME]. apply (okr_pre _ _ _ EX). apply (timer_unreg_ok _ j IX T).
  - (* ATmFresh *)
    destruct (timer_registered s j); [exact SAME|exact EX].
  - (* ATkReg *)
    destruct (task_registered s j) eqn:T; [exact SAME|]. cbn [okr]. eapply StepW_trans; [exact EX|].
    apply task_register_ok; [assumption|unfold ok_idx in W; lia|exact T].
  - (* ATkUnreg *)
    destruct (task_registered s j) eqn:T; [|exact SAME]. cbn [okr]. eapply StepW_trans; [exact EX|].
    apply task_unregister_ok; [assumption|unfold ok_idx in W; lia|exact T].
  - (* ATkFresh *)
    destruct (task_registered s j) eqn:T; [exact SAME|]. cbn [okr]. eapply StepW_trans; [exact EX|].
    exact (task_fresh_ok _ j IX).
  - (* AEvPost *)
    destruct (ev_reg s j) eqn:T; [|exact SAME]. cbn [okr]. eapply StepW_trans; [exact EX|].
    apply event_post_ok; [assumption|exact T].
  - (* AEvFresh *)
    destruct (ev_reg s j); [exact SAME|exact EX].
  - (* ARwFresh *)
    destruct (rw_reg s j); [exact SAME|exact EX].
  - (* AQuit *)
    cbn [okr]. eapply StepW_trans; [exact EX|]. split; [|fr_triv].
    apply (InvW_coresame (emit s (TAct AQuit))); [cs_refl|apply (ms_nobad _ (iw_misc _ IX))|exact IX].
  - (* AClockAdv *)
    cbn [okr]. apply kern_step; [assumption|discriminate..|apply kstable_clock].
  - (* AInvalidate *)
    cbn [okr]. eapply StepW_trans; [exact EX|]. apply StepW_T. apply StepT_invalidate. assumption.
  - (* AValidate *)
    cbn [okr]. eapply StepW_trans; [exact EX|]. apply StepW_T. apply StepT_validate. assumption.
Qed.
