(* FairMonProof.v -- clause 605 (FairMon.v) holds on every run of a well-formed scenario. *)
From Coq Require Import List ZArith Bool Lia.
From Ivv Require Import Core.Kernel Core.CoreTypes Core.CoreFd Core.CoreModel Core.Monitors Core.FairMon Core.CoreSpec
  Core.CoreRel Core.CorePhase2AcctTr Core.CorePhase2AcctTr2 Core.CorePhase2TimeMon Core.CorePhase2TimeFr Core.CorePhase2TimeT1 Core.CorePhase2TimeT1L
  Core.CorePhase2TimeMon2 Core.CorePhase2TimeSl Core.CorePhase2TimeReq.
From Ivv Require Import Core.CoreInvBase Core.CoreInvDefs Core.CoreInvObj Core.CoreInvLoop Core.CoreInvWait Core.CoreInvTop Core.CoreInv.
From Ivv Require Import Core.CorePhase2K1Base Core.CorePhase2K1Fd Core.CorePhase2K1Act Core.CorePhase2K1Inv
  Core.CorePhase2K1Loop Core.CorePhase2K1Wait Core.CorePhase2K1Poll Core.CorePhase2K1 Core.CorePhase2TimeT1W.
From Ivv Require Import Core.FairMonBase Core.FairMonAct Core.FairMonLoop Core.FairMonTimers Core.FairMonKern Core.FairMonWait Core.FairMonPoll.
From Ivv Require Timer.HeapModel Timer.HeapFacts.
Import ListNotations.
Local Open Scope Z_scope.

Local Instance RAF : RawAssume := False.

Lemma FairI_weaken : forall rt s, FairI rt s -> FairI true s.
Proof. intros rt s [A [B|[C D]]]; split; try assumption; [left; exact B|right; split; [reflexivity|exact D]]. Qed.

Section Main.
Variable sc : scenario.
Hypothesis WF : wf_scenario sc.
Let dao := CoreInv.do_action_ok.

(* ---------- poll / ppoll: the timers run after every return ---------- *)
Lemma do_poll_wait_fair : forall s call timeout, f_fail (fst s) = false -> f_due (fst s) = [] ->
  MPF true (Datatypes.fst (do_poll_wait sc s call timeout)) /\ snd (do_poll_wait sc s call timeout) = true.
Proof.
  intros s call timeout FF0 FD. unfold do_poll_wait.
  pose proof (wait_enter_qf sc s) as X.
  destruct (wait_enter sc s) as [s1|s1]; unfold RExt in X; cbn [res_state] in X; cbn [Datatypes.fst snd MPF].
  2:{ split; [|reflexivity]. destruct (TrExt_qf _ _ X) as [A _]. congruence. }
  destruct (TrExt_qf _ _ X) as [A _].
  assert (FD1 : f_due (fst s1) = []) by (apply (TrExt_qf_nil s s1 X FD)).
  cbv zeta. set (s2 := emit s1 (TWait _ _ _ _ _ _)).
  assert (F2 : f_fail (fst s2) = false /\ f_due (fst s2) = []).
  { unfold s2. rewrite fst_emit. cbn [f_step f_fail f_due]. rewrite FD1, A, FF0. split; reflexivity. }
  destruct F2 as [FF2 FD2]. change (kern s2) with (kern s1). change (pfds s2) with (pfds s1). change (pkeys s2) with (pkeys s1).
  destruct (mem_z _ _); cbn [Datatypes.fst snd MPF].
  - split; [|reflexivity]. split; [|left].
    + destruct (0 <? timeout); cbn [invalidate_now]; match goal with |- f_fail (fst ?S) = false =>
        assert (E : fst S = f_step (fst s2) (TRet None [] (clock (kern S)))) by (rewrite <- fst_emit; apply fst_same; reflexivity); rewrite E end; exact FF2.
    + destruct (0 <? timeout); cbn [invalidate_now]; match goal with |- f_due (fst ?S) = [] =>
        assert (E : fst S = f_step (fst s2) (TRet None [] (clock (kern S)))) by (rewrite <- fst_emit; apply fst_same; reflexivity); rewrite E end; reflexivity.
  - destruct (k_poll_sleep (kern s1) (pfds s1) timeout) as [k1 revs|]; cbn [Datatypes.fst snd MPF halt].
    + split; [|reflexivity].
      set (s3 := emit (set_kern s2 k1) (TRet (Some (count_nonzero revs)) (reported_pfds (pfds s1) revs) (clock k1))).
      pose proof (poll_activate_FF (pkeys s3) revs (invalidate_now s3)) as FA.
      apply (FairI_of_FP (clock k1) s3).
      * unfold s3. rewrite fst_emit. exact FF2.
      * unfold s3. rewrite fst_emit. apply due_ok_ret.
      * apply TrExt_FF in FA. eapply TrExt_l; [|exact FA]. reflexivity.
      * destruct FA as (L & _ & _). destruct (lf_fields _ _ L) as (_ & _ & TV & _ & _ & _ & _ & C).
        split; [rewrite C; cbn; lia|rewrite TV; cbn; discriminate].
    + split; [|reflexivity]. rewrite fst_emit. exact FF2.
Qed.

Lemma poll_poll_fair : forall s abs, f_fail (fst s) = false -> f_due (fst s) = [] ->
  MPF true (Datatypes.fst (poll_poll sc s abs)) /\ snd (poll_poll sc s abs) = true.
Proof.
  intros s abs FF0 FD. unfold poll_poll.
  assert (V : forall s0, trace s0 = trace s ->
    let r := (let '(s1, ms) := to_msec s0 abs in do_poll_wait sc s1 2 (if ms <? 0 then -1 else ms * 1000000)) in
    MPF true (Datatypes.fst r) /\ snd r = true).
  { intros s0 E. pose proof (to_msec_trace s0 abs) as T. destruct (to_msec s0 abs) as [s1 ms]. cbn [Datatypes.fst] in T. cbv zeta.
    apply do_poll_wait_fair; rewrite (fst_same s s1) by congruence; assumption. }
  destruct (method s =? M_PP); [|apply V; reflexivity].
  pose proof (to_relative_trace s abs) as T. destruct (to_relative s abs) as [s1 rel]. cbn [Datatypes.fst] in T.
  destruct (no_ppoll _); [apply V; exact T|].
  apply do_poll_wait_fair; rewrite (fst_same s s1) by congruence; assumption.
Qed.

(* ---------- iv_fd_poll_and_run ---------- *)
Lemma dispatch_fair : forall rt s1, J true s1 -> FairI rt s1 ->
  MPF rt (dispatch_active sc (S (length (active s1))) s1).
Proof.
  intros rt s1 J1 [FF1 H]. pose proof (dispatch_active_exth sc (S (length (active s1))) s1) as X.
  assert (Xq : TrExt qf s1 (res_state (dispatch_active sc (S (length (active s1))) s1))) by (eapply TrExt_weaken; [exact ch_qf|exact X]).
  destruct H as [NIL|(RT & clk & P & DK)].
  - destruct (dispatch_active sc (S (length (active s1))) s1) as [s2|s2]; cbn [MPF res_state] in *.
    + apply (FairI_nil rt s1 s2); assumption.
    + destruct (TrExt_qf _ _ Xq) as [A _]. congruence.
  - subst rt. assert (F1 : FP clk false s1) by (split; [exact P|discriminate]).
    pose proof (dispatch_active_FP sc WF clk false (S (length (active s1))) s1 J1 F1) as Q.
    destruct (dispatch_active sc (S (length (active s1))) s1) as [s2|s2]; cbn [MPF res_state FQ] in *.
    + apply (FairI_of_FP clk s1 s2); try assumption. apply Q.
    + destruct (TrExt_qf _ _ Xq) as [A _]. congruence.
Qed.

Lemma KH_armed : forall s s0, J true s -> cur s = None -> HeapModel.batch (heap s) = [] -> heap s0 = heap s ->
  ArmedT s0 (dd (last_abs s0)) -> 0 <= abs_cmp (AbsOf s) (last_abs s0) -> KH s0.
Proof.
  intros s s0 Jh C B H AR CMP. right. exists (dd (last_abs s0)). split; [exact AR|].
  intros j JR TR. unfold timer_registered in TR. rewrite H in *. destruct (J_SiTm _ _ Jh) as [HI _].
  destruct (soonest_min s j HI B TR) as (a & SO & LE). unfold AbsOf in CMP. unfold dd.
  destruct (tasks s).
  - rewrite SO in CMP. apply abs_cmp_ge in CMP. destruct (Z.eqb_spec (last_abs s0) 0); lia.
  - apply abs_cmp_ge in CMP. destruct (Z.eqb_spec (last_abs s0) 0); lia.
Qed.

Lemma KH_none : forall s s0, J true s -> HeapModel.batch (heap s) = [] -> heap s0 = heap s -> AbsOf s = None -> KH s0.
Proof.
  intros s s0 Jh B H AO. left. intros j JR. destruct (timer_registered s0 j) eqn:TR; [|reflexivity]. exfalso.
  unfold timer_registered in TR. rewrite H in TR. destruct (J_SiTm _ _ Jh) as [HI _].
  destruct (soonest_min s j HI B TR) as (a & SO & _). unfold AbsOf in AO. destruct (tasks s); [congruence|discriminate].
Qed.

Lemma poll_and_run_fair : forall s, J true s -> InvW s -> LKM s -> quit s = false -> cur s = None ->
  HeapModel.batch (heap s) = [] -> 1 <= clock (kern s) -> f_fail (fst s) = false -> f_due (fst s) = [] ->
  MPF (snd (poll_and_run sc s (AbsOf s))) (Datatypes.fst (poll_and_run sc s (AbsOf s))).
Proof.
  intros s Jh IW LM Q C B CK FF0 FD. unfold poll_and_run. set (abs := AbsOf s).
  assert (DISP : forall s0 r rt, Post0 true s0 r -> MPF rt r ->
            MPF rt (bind r (fun s1 => dispatch_active sc (S (length (active s1))) s1))).
  { intros s0 r rt P M. destruct r as [s1|s1]; cbn [bind Post0 MPF] in *; [|exact M].
    destruct P as [J1 _]. apply dispatch_fair; assumption. }
  assert (EP : forall s0 a, J true s0 -> InvW s0 -> quit s0 = false -> is_epoll s0 = true -> F0 s s0 ->
            (method s0 = M_ET -> a = None -> KH s0) ->
            MPF (snd (epoll_poll sc s0 a)) (Datatypes.fst (epoll_poll sc s0 a))).
  { intros s0 a J0 I0 Q0 IE0 F00 HK. destruct F00 as [L X]. destruct (lf_fields _ _ L) as (_ & _ & _ & _ & _ & _ & _ & C0).
    apply TrX_qf in X. destruct (TrExt_qf _ _ X) as [A _].
    apply epoll_poll_fair; try assumption; [lia|congruence|apply (TrExt_qf_nil s s0 X FD)]. }
  destruct (Z.eqb_spec (method s) M_ET) as [ME|NE].
  - pose proof (CoreInv.timeout_check_ok' sc WF s abs IW ME) as TC.
    pose proof (timeout_check_post s abs Jh ME) as TP.
    pose proof (timeout_check_F0 s abs) as TF.
    destruct (timeout_check s abs) as [[s0|s0] fl] eqn:TCE; cbn [Datatypes.fst okr PostQ] in *; unfold F0r in TF; cbn [res_state] in TF.
    2:{ cbn [Datatypes.fst snd bind MPF]. destruct TF as [_ X]. apply TrX_qf in X. destruct (TrExt_qf _ _ X) as [A _]. congruence. }
    destruct TC as (I0 & _ & TM0 & IE0). destruct TP as (J0 & _ & Q0). rewrite Q in Q0.
    pose proof (ms_kinv _ (iw_misc _ IW)) as KI. destruct KI as [KN _].
    pose proof (timeout_check_LK s abs s0 fl (LM ME) ltac:(lia) ME TCE) as L0.
    assert (H0 : heap s0 = heap s) by (destruct TF as [L _]; apply (lf_fields _ _ L)).
    destruct fl.
    + destruct (timeout_check_true dao s abs s0 TCE ME) as (M0 & C5 & CMP).
      pose proof (m_poll_post sc WF s0 None J0 Q0) as MP.
      pose proof (EP s0 None J0 I0 Q0 IE0 TF (fun _ _ => KH_armed s s0 Jh C B H0 (LK_ArmedT s0 L0 M0 C5) CMP)) as E.
      unfold m_poll in *. rewrite IE0 in *.
      destruct (epoll_poll sc s0 None) as [r rt]. cbn [Datatypes.fst snd] in *.
      apply (DISP s0).
      * destruct r as [s1|s1]; cbn [bind Post0] in *; [|exact MP]. destruct MP as [J1 C1].
        split; [destruct rt; [apply J_set_last_abs; exact J1|exact J1]|destruct rt; exact C1].
      * destruct r as [s1|s1]; cbn [bind MPF] in *; [|exact E]. destruct rt; [|exact E].
        destruct E as [A [N|(_ & clk & P & DK)]]; split; try exact A; [left; exact N|right; split; [reflexivity|]].
        exists clk. split; [exact P|exact DK].
    + pose proof (m_poll_post sc WF s0 abs J0 Q0) as MP.
      pose proof (EP s0 abs J0 I0 Q0 IE0 TF (fun _ AN => KH_none s s0 Jh B H0 AN)) as E.
      unfold m_poll in *. rewrite IE0 in *.
      destruct (epoll_poll sc s0 abs) as [r rt]. cbn [Datatypes.fst snd] in *.
      apply (DISP s0); assumption.
  - pose proof (m_poll_post sc WF s abs Jh Q) as MP. unfold m_poll in *.
    destruct (is_epoll s) eqn:IE.
    + pose proof (EP s abs Jh IW Q IE (F0_refl s) (fun M _ => ltac:(contradiction))) as E.
      destruct (epoll_poll sc s abs) as [r rt]. cbn [Datatypes.fst snd] in *. apply (DISP s); assumption.
    + destruct (poll_poll_fair s abs FF0 FD) as [E RT].
      destruct (poll_poll sc s abs) as [r rt]. cbn [Datatypes.fst snd] in *. subst rt. apply (DISP s); assumption.
Qed.

(* ---------- iv_main ---------- *)
Lemma qf_res : forall s r, RExt ch s r -> f_fail (fst s) = false -> f_fail (fst (res_state r)) = false.
Proof. intros s r X F. destruct (TrExt_qf s (res_state r) (TrExt_weaken ch qf _ _ ch_qf X)) as [A _]. congruence. Qed.

(* iv_main is left with no debt open (the TEnd event that follows fails like a TWait) *)
Definition MLF (r : res) : Prop :=
  match r with R s' => f_fail (fst s') = false /\ f_due (fst s') = [] | Halt s' => f_fail (fst s') = false end.

Lemma main_loop_fair : forall fuel s rt, J true s -> T1 s -> InvT s -> LKM s ->
  nwait (kern s) <= sc_limit sc -> ran (mst s) = [] -> FairI rt s ->
  MLF (main_loop sc fuel s rt).
Proof.
  induction fuel as [|fuel IH]; intros s rt Jh T IT LM NW RN FI; cbn [main_loop].
  - cbn [halt MLF]. rewrite fst_emit. apply FI.
  - destruct (InvT_parts s IT) as (IW & C & B & Q3s).
    assert (P1 : Post true s (if rt then run_timers sc s else R s)).
    { destruct rt; [apply run_timers_post; assumption|apply Post_same; assumption]. }
    assert (QT : Q1 s (if rt then run_timers sc s else R s)).
    { destruct rt; [apply run_timers_Q1; assumption|apply Q1_same; assumption]. }
    assert (K1' : forall s1, (if rt then run_timers sc s else R s) = R s1 -> InvT s1 /\ LKM s1 /\ nwait (kern s1) = nwait (kern s)).
    { intros s1 E. destruct rt; [|inversion E; subst; auto].
      destruct IT as [IV TM]. pose proof (run_timers_ok' sc WF s IW Q3s) as OK. rewrite E in OK. cbn [okr] in OK.
      destruct (Ph_Inv sc WF s s1 IV OK) as (IV1 & N1 & TM1).
      pose proof (run_timers_K sc WF dao s IW Q3s) as PKK. rewrite E in PKK. unfold PK in PKK. cbn [ARes] in PKK.
      split; [split; [exact IV1|eapply TfdM_tm; eassumption]|]. split; [eapply LKM_TFs; [exact LM|apply PKK]|exact N1]. }
    assert (FX1 : RExt ch s (if rt then run_timers sc s else R s)) by (destruct rt; [apply run_timers_exth|apply TrExt_refl]).
    assert (FN1 : forall s1, (if rt then run_timers sc s else R s) = R s1 -> f_due (fst s1) = []).
    { intros s1 E. destruct FI as [_ [NIL|(RT & clk & P & DK)]].
      - rewrite E in FX1. apply (TrExt_qf_nil s s1 (TrExt_weaken ch qf _ _ ch_qf FX1) NIL).
      - subst rt. apply (run_timers_fair sc WF clk s s1 Jh DK P B E). }
    pose proof (qf_res _ _ FX1 (proj1 FI)) as FF1.
    destruct (if rt then run_timers sc s else R s) as [s1|s1]; cbn [bind Post Q1 res_state MLF] in *; [|exact FF1].
    destruct P1 as [J1 F1]. destruct QT as [TS1 [R1 BF1]]. destruct (K1' s1 eq_refl) as (IT1 & LM1 & NW1).
    specialize (FN1 s1 eq_refl).
    destruct (InvT_parts s1 IT1) as (IW1 & C1 & B1 & Q31).
    pose proof (run_tasks_post sc WF s1 J1 C1) as P2.
    pose proof (run_tasks_Q1 sc WF s1 J1 TS1 C1 (R1 RN)) as Q2.
    assert (K2 : forall s2, run_tasks sc s1 = R s2 -> InvT s2 /\ LKM s2 /\ nwait (kern s2) = nwait (kern s1)).
    { intros s2 E. destruct IT1 as [IV TM]. pose proof (run_tasks_ok' sc WF s1 IW1 Q31) as OK. rewrite E in OK. cbn [okr] in OK.
      destruct (Ph_Inv sc WF s1 s2 IV OK) as (IV2 & N2 & TM2).
      pose proof (run_tasks_K sc WF dao s1 IW1 Q31) as PKK. rewrite E in PKK. unfold PK in PKK. cbn [ARes] in PKK.
      split; [split; [exact IV2|eapply TfdM_tm; eassumption]|]. split; [eapply LKM_TFs; [exact LM1|apply PKK]|exact N2]. }
    pose proof (run_tasks_exth sc s1) as FX2.
    pose proof (qf_res _ _ FX2 FF1) as FF2.
    destruct (run_tasks sc s1) as [s2|s2]; cbn [bind PostT Q1T res_state MLF] in *; [|exact FF2].
    destruct P2 as [J2 C2]. destruct Q2 as [TS2 BF2]. destruct (K2 s2 eq_refl) as (IT2 & LM2 & NW2).
    assert (FN2 : f_due (fst s2) = []) by (apply (TrExt_qf_nil s1 s2 (TrExt_weaken ch qf _ _ ch_qf FX2) FN1)).
    destruct (InvT_parts s2 IT2) as (IW2 & _ & B2 & Q32).
    destruct (quit s2 || (numobjs s2 =? 0)) eqn:QN; [cbn [MLF]; split; [exact FF2|exact FN2]|].
    apply orb_false_iff in QN. destruct QN as [Q2' _].
    change (match tasks s2 with _ :: _ => Some 0 | [] => soonest_timeout s2 end) with (AbsOf s2).
    pose proof (poll_and_run_post sc WF s2 (AbsOf s2) J2 Q2') as P3.
    pose proof (poll_and_run_Q1 sc WF dao s2 J2 TS2 Q2' IW2 LM2 C2 B2 (RawPR_off sc s2 (AbsOf s2) (fun H => H))) as Q3.
    pose proof (poll_and_run_inv sc WF s2 (AbsOf s2)) as PI.
    pose proof (poll_and_run_LKM sc WF dao s2 (AbsOf s2)) as PL.
    assert (CK2 : 1 <= clock (kern s2)) by (destruct (t1_stale _ TS2) as (_ & X & _); exact X).
    pose proof (poll_and_run_fair s2 J2 IW2 LM2 Q2' C2 B2 CK2 FF2 FN2) as PF.
    destruct (poll_and_run sc s2 (AbsOf s2)) as [r rt']. cbn [Datatypes.fst snd] in P3, Q3, PI, PL, PF.
    destruct r as [s3|s3]; cbn [bind Post0 Q1W Q1T MPF res_state MLF] in *; [|exact PF].
    destruct P3 as [J3 C3]. destruct Q3 as (TS3 & RN3 & BF3).
    destruct (PI s3 IT2 eq_refl) as (IT3 & N3 & N3').
    specialize (PL s3 (proj1 (InvT_LoopInv s2) IT2) LM2 eq_refl).
    apply IH; assumption.
Qed.

(* ---------- whole runs ---------- *)
Lemma fst_core0 : fst (core0 sc) = f_init.
Proof. unfold core0. destruct (if (sc_backend sc =? M_ET) || (sc_backend sc =? M_EP) then _ else _) as [efd k]. reflexivity. Qed.

Lemma ca_res : forall s r, RExt ca s r -> f_fail (fst s) = false -> f_fail (fst (res_state r)) = false.
Proof. intros s r X F. destruct (TrExt_qf s (res_state r) (TrExt_weaken ca qf _ _ ca_qf X)) as [A _]. congruence. Qed.

Theorem core_fair_run : fair_fails (run_scenario sc) = [].
Proof.
  unfold fair_fails, run_scenario.
  match goal with |- (if f_fail (fold_left f_step (rev (trace (res_state ?r))) f_init) then _ else _) = _ =>
    change (fold_left f_step (rev (trace (res_state r))) f_init) with (fst (res_state r)); enough (E : f_fail (fst (res_state r)) = false) by (rewrite E; reflexivity) end.
  destruct (@core0_T1 RAF sc) as [T0 RN0].
  destruct (core0_Inv sc WF) as (I0 & TM0 & N0).
  assert (L0 : LoopInv (core0 sc)) by (apply LoopInv_Inv; split; assumption).
  pose proof (run_acts_post false (sc_setup sc) (core0 sc) (core0_J sc) (wf_setup sc WF)) as P0.
  pose proof (run_acts_Q1 false (sc_setup sc) (core0 sc) (core0_J sc) T0 (wf_setup sc WF)) as Q0.
  pose proof (run_acts_ok dao (sc_setup sc) (core0 sc) (proj1 I0) (wf_setup sc WF)) as OK0.
  pose proof (run_acts_K dao (sc_setup sc) (core0 sc) (proj1 I0) (wf_setup sc WF)) as PK0.
  pose proof (run_acts_ext (sc_setup sc) (core0 sc)) as X0.
  assert (FF00 : f_fail (fst (core0 sc)) = false) by (rewrite fst_core0; reflexivity).
  pose proof (ca_res _ _ X0 FF00) as FFA.
  assert (FD1 : forall s1, run_acts (core0 sc) (sc_setup sc) = R s1 -> f_due (fst s1) = []).
  { intros s1 E. rewrite E in X0. apply (TrExt_qf_nil (core0 sc) s1 (TrExt_weaken ca qf _ _ ca_qf X0)). rewrite fst_core0. reflexivity. }
  destruct (run_acts (core0 sc) (sc_setup sc)) as [s1|s1]; cbn [bind Post Q1 res_state okr] in *; [|exact FFA].
  specialize (FD1 s1 eq_refl).
  destruct P0 as [J1 F1]. destruct Q0 as [TS1 [R1 _]].
  pose proof (LoopInv_StepT _ _ L0 OK0) as L1.
  assert (N1 : nwait (kern s1) = 0) by (rewrite (fr_nwait _ _ (proj1 (proj2 OK0))); exact N0).
  unfold PK in PK0. cbn [ARes] in PK0. pose proof (LKM_TFs _ _ (core0_LKM sc) (proj2 PK0)) as LM1.
  pose proof (J_main_enter s1 J1) as J2.
  destruct (T1_plain_event s1 TMain TS1 I) as [TM RM].
  destruct (main_enter s1 L1) as (L2 & N2).
  set (s2 := set_quit (emit s1 TMain) false) in *.
  assert (TS2 : T1 s2) by (apply (T1_setters (emit s1 TMain) s2 TM); reflexivity).
  assert (RN2 : ran (mst s2) = []) by (change (mst s2) with (mst (emit s1 TMain)); rewrite RM; apply R1; exact RN0).
  assert (LM2 : LKM s2) by (apply (LKM_TFs s1 s2 LM1); apply TFs_plain; reflexivity).
  pose proof (wf_limit sc WF) as LIM.
  assert (FI2 : FairI true s2).
  { unfold FairI. change (fst s2) with (fst (emit s1 TMain)). rewrite fst_emit. cbn [f_step]. split; [exact FFA|left; exact FD1]. }
  pose proof (main_loop_fair (Z.to_nat (sc_limit sc) + 2) s2 true J2 TS2 (proj2 (InvT_LoopInv s2) L2) LM2
                ltac:(rewrite N2, N1; lia) RN2 FI2) as FM.
  destruct (main_loop sc (Z.to_nat (sc_limit sc) + 2) s2 true) as [s3|s3]; cbn [bind res_state MLF] in *; [|exact FM].
  destruct FM as [FM FDM].
  set (s4 := emit s3 (TEnd (if quit s3 then 1 else 0) (numobjs s3))).
  assert (FF4 : f_fail (fst s4) = false) by (unfold s4; rewrite fst_emit; cbn [f_step f_fail]; rewrite FM, FDM; reflexivity).
  pose proof (teardown_ext (zseq 0 16) s4) as X5. pose proof (ca_res _ _ X5 FF4) as FF5.
  destruct (teardown s4 (zseq 0 16)) as [s5|s5]; cbn [bind res_state] in *; [|exact FF5].
  rewrite fst_emit. cbn [f_step].
  destruct (TrExt_qf _ _ (TrExt_weaken ca qf _ _ ca_qf (deinit_ext sc (emit s5 (TTear (numobjs s5)))))) as [A _].
  rewrite A, fst_emit. exact FF5.
Qed.

End Main.

Theorem core_fair : forall sc, wf_scenario sc -> fair_fails (run_scenario sc) = [].
Proof. intros sc WF. apply core_fair_run. exact WF. Qed.

Print Assumptions core_fair.
