(* CoreInvObj.v -- the components of InvW across steps of the descriptor layer;
   timers, tasks, events, raw events; do_action, run_acts, run_script. *)
From Coq Require Import List ZArith Bool Lia.
From Ivv Require Import Core.Kernel Core.CoreTypes Core.CoreFd Core.CoreModel Core.CoreSpec
  Core.CoreInvBase Core.CoreInvDefs Core.CoreInvFd Core.CoreInvPoll Core.CoreInvReg.
From Ivv Require Timer.HeapModel Timer.HeapSpec Timer.HeapProofs.
Import ListNotations.
Local Open Scope Z_scope.

(* ---------- components under a step of the descriptor layer ---------- *)
Lemma kctl_KInv : forall k k', kctl k k' -> KInv k -> KInv k'.
Proof.
  intros k k' K [A B]. pose proof K as (V&N&_). constructor.
  - rewrite N. assumption.
  - intros fd H. rewrite N. apply B. rewrite <- (kctl_get _ _ fd K). assumption.
Qed.

Lemma Misc_step : forall k s s', FdStep k s s' -> Misc s -> Misc s'.
Proof.
  intros k s s' S [A B C D]. pose proof (fs_rest _ _ _ S) as RS. pose proof (fs_kctl _ _ _ S) as K.
  constructor.
  - rewrite (rs_trace _ _ RS). assumption.
  - rewrite (rs_method _ _ RS). assumption.
  - rewrite (restsame_epoll _ _ RS). destruct K as (_&_&_&_&->). assumption.
  - eapply kctl_KInv; eassumption.
Qed.

Lemma curl_same : forall s s', cur s' = cur s -> curl s' = curl s.
Proof. intros s s' H. unfold curl. rewrite H. reflexivity. Qed.

Lemma TaskInv_same : forall s s', tasks s' = tasks s -> cur s' = cur s -> TaskInv s -> TaskInv s'.
Proof. intros s s' A B [C D]. constructor; rewrite A, (curl_same _ _ B); assumption. Qed.

Lemma EvInv_same : forall s s', restsame s s' -> EvInv s -> EvInv s'.
Proof.
  intros s s' RS [A B C D E F G]. pose proof (restsame_epoll _ _ RS) as EE. destruct RS.
  constructor; rewrite ?rs_evp, ?rs_evb, ?rs_evc, ?rs_evr, ?rs_ur, ?rs_rr, ?rs_ar, ?EE; assumption.
Qed.

Lemma pipe_ok_kctl : forall k k' r w, kctl k k' -> pipe_ok k r w -> pipe_ok k' r w.
Proof.
  intros k k' r w K (v & vw & A & B & C & D & E & F & G). exists v, vw.
  rewrite !(kctl_open _ _ _ K). tauto.
Qed.
Lemma evfd_ok_kctl : forall k k' r w, kctl k k' -> evfd_ok k r w -> evfd_ok k' r w.
Proof. intros k k' r w K (A & v & B & C). split; [assumption|]. exists v. rewrite (kctl_open _ _ _ K). tauto. Qed.

Lemma DynInv_step : forall k s s', FdStep k s s' -> DynInv s ->
  (forall j, 0 <= j <= 16 -> registered (fdt s' (16 + j)) = registered (fdt s (16 + j))) -> DynInv s'.
Proof.
  intros k s s' S D RG. pose proof (fs_rest _ _ _ S) as RS. pose proof (fs_kctl _ _ _ S) as K.
  pose proof (restsame_epoll _ _ RS) as EE.
  assert (FL : flt (kern s') = flt (kern s)) by (destruct K as (_&_&_&_&->); reflexivity).
  destruct RS. destruct D. constructor.
  - intros j. rewrite rs_rr. auto.
  - intros j H. rewrite RG, rs_rr by assumption. auto.
  - intros j H. rewrite rs_rr in H. destruct (fs_hsame _ _ _ S (16 + j)) as (A&B&C&E&_).
    rewrite A, B, C, E, rs_rf. auto.
  - intros j H. rewrite rs_rr in H. rewrite rs_er, rs_rf, rs_rwf. specialize (dy_kern j H).
    destruct (efd_raw s =? 0); [eapply pipe_ok_kctl|eapply evfd_ok_kctl]; eassumption.
  - rewrite rs_er, FL. assumption.
  - rewrite rs_er, FL, rs_rr. assumption.
  - rewrite rs_er. assumption.
  - intros k0 H. destruct (fs_hsame _ _ _ S k0) as (_&B&C&E&_). unfold hids_ok. rewrite B, C, E. apply dy_userh. assumption.
  - rewrite rs_ar, rs_af, rs_aw. intros H. destruct (dy_act H) as [(v & A & B) C]. split.
    + exists v. rewrite (kctl_open _ _ _ K). tauto.
    + destruct C as [C|C]; [left; assumption|right; eapply pipe_ok_kctl; eassumption].
  - rewrite rs_ar, rs_aw. assumption.
  - rewrite rs_ar, rs_rr, rs_rf, rs_af. assumption.
  - rewrite rs_tfd. destruct dy_tfd as [A|(A & v & B & C)]; [left; assumption|right].
    split; [assumption|]. exists v. rewrite (kctl_get _ _ _ K). tauto.
  - intros e H Q. rewrite rs_tfd, (kctl_open _ _ _ K). apply (dy_tfdent e); [|assumption].
    apply (fs_epneg _ _ _ S); [lia|assumption].
Qed.

Lemma DynInv_step_user : forall k s s', FdStep k s s' -> DynInv s -> 0 <= k < 16 -> DynInv s'.
Proof.
  intros k s s' S D K. eapply DynInv_step; try eassumption.
  intros j H. apply (fs_reg _ _ _ S). lia.
Qed.

Lemma sync_step : forall k s s', FdStep k s s' -> (forall k0, sync_at s k0) -> sync_at s' k ->
  forall k0, sync_at s' k0.
Proof.
  intros k s s' S A B k0. destruct (Z.eq_dec k0 k) as [->|N]; [assumption|].
  apply (fs_sync _ _ _ S); auto.
Qed.

(* ---------- accounting ---------- *)
Definition regf (s : core) : Z -> bool := fun k => registered (fdt s k).

Lemma Acct_fd : forall k s s' d, Acct s -> FdStep k s s' -> 0 <= k <= 32 ->
  (d = 0 /\ registered (fdt s' k) = registered (fdt s k) \/
   d = 1 /\ registered (fdt s k) = false /\ registered (fdt s' k) = true \/
   d = -1 /\ registered (fdt s k) = true /\ registered (fdt s' k) = false) ->
  numfds s' = numfds s + d -> numobjs s' = numobjs s + d -> Acct s'.
Proof.
  intros k s s' d [A B] S K C NF NO. pose proof (fs_rest _ _ _ S) as RS.
  assert (IN : In k (zseq 0 33)) by (apply In_zseq'; lia).
  assert (CNT : cntf (regf s') (zseq 0 33) = cntf (regf s) (zseq 0 33) + d).
  { destruct C as [(->&C)|[(->&C1&C2)|(->&C1&C2)]].
    - rewrite Z.add_0_r. apply cntf_ext. intros x _. unfold regf.
      destruct (Z.eq_dec x k) as [->|N]; [assumption|apply (fs_reg _ _ _ S); assumption].
    - apply (cntf_flip (regf s) (regf s') _ k); try assumption; [apply NoDup_zseq|].
      intros x N. unfold regf. symmetry. apply (fs_reg _ _ _ S). assumption.
    - assert (cntf (regf s) (zseq 0 33) = cntf (regf s') (zseq 0 33) + 1); [|lia].
      apply (cntf_flip (regf s') (regf s) _ k); try assumption; [apply NoDup_zseq|].
      intros x N. unfold regf. apply (fs_reg _ _ _ S). assumption. }
  constructor.
  - change (numfds s' = cntf (regf s') (zseq 0 33)). rewrite CNT, NF. change (cntf (regf s) (zseq 0 33)) with (cntf (fun k => registered (fdt s k)) (zseq 0 33)). lia.
  - rewrite NO, NF, B. destruct RS. rewrite rs_heap, rs_tasks, rs_evc, rs_ar. unfold curl. rewrite rs_cur. lia.
Qed.

(* ---------- the frame relation ---------- *)
Lemma tmeasure_same : forall s s', cur s' = cur s -> tepoch s' = tepoch s -> epoch s' = epoch s ->
  tmeasure s' = tmeasure s.
Proof. intros s s' A B C. unfold tmeasure, tcount, curl. rewrite A, B, C. reflexivity. Qed.

Lemma Fr_refl : forall s, Fr s s.
Proof. intros. constructor; try reflexivity; try lia; tauto. Qed.
Lemma Fr_trans : forall a b c, Fr a b -> Fr b c -> Fr a c.
Proof.
  intros a b c [A1 A2 A3 A4 A5 A6 A7 A8] [B1 B2 B3 B4 B5 B6 B7 B8]. constructor; try lia; try congruence.
  - auto.
  - destruct B8 as [B8|B8]; [rewrite B8; assumption|right; assumption].
Qed.

Lemma Fr_restsame : forall s s', restsame s s' -> nwait (kern s') = nwait (kern s) ->
  (length (active s') <= length (active s))%nat -> (handled s' = handled s \/ handled s' = None) -> Fr s s'.
Proof.
  intros s s' RS NW A H. pose proof (tmeasure_same s s' (rs_cur _ _ RS) (rs_tepoch _ _ RS) (rs_epoch _ _ RS)) as TM.
  destruct RS. constructor; try assumption.
  - rewrite rs_heap. lia.
  - rewrite rs_evb. lia.
  - lia.
  - congruence.
Qed.

Lemma Fr_fdstep : forall k s s', FdStep k s s' -> (length (active s') <= length (active s))%nat ->
  (handled s' = handled s \/ handled s' = None) -> Fr s s'.
Proof.
  intros k s s' S A H. apply Fr_restsame; try assumption; [apply (fs_rest _ _ _ S)|].
  destruct (fs_kctl _ _ _ S) as (_&_&_&N&_). assumption.
Qed.

(* assembling InvW after a descriptor-layer step on a user descriptor *)
Lemma InvW_fdstep : forall k s s', InvW s -> FdStep k s s' -> 0 <= k < 16 ->
  FdInv (-1) s' -> sync_at s' k -> Acct s' -> InvW s'.
Proof.
  intros k s s' [A B C D E F G H] S K I' SY AC. pose proof (fs_rest _ _ _ S) as RS. constructor.
  - assumption.
  - eapply sync_step; eassumption.
  - eapply DynInv_step_user; eassumption.
  - rewrite (rs_heap _ _ RS). assumption.
  - eapply TaskInv_same; [apply (rs_tasks _ _ RS)|apply (rs_cur _ _ RS)|assumption].
  - eapply EvInv_same; eassumption.
  - assumption.
  - eapply Misc_step; eassumption.
Qed.

(* ---------- states that agree on every field the invariant reads ---------- *)
Record coresame (s s' : core) : Prop := {
  cs_fdt : fdt s' = fdt s; cs_active : active s' = active s; cs_handled : handled s' = handled s;
  cs_numfds : numfds s' = numfds s; cs_method : method s' = method s; cs_notify : notify s' = notify s;
  cs_tfd : tfd s' = tfd s; cs_er : efd_raw s' = efd_raw s;
  cs_af : active_fd s' = active_fd s; cs_ar : active_ref s' = active_ref s; cs_aw : active_wr s' = active_wr s;
  cs_pfds : pfds s' = pfds s; cs_pkeys : pkeys s' = pkeys s; cs_numobjs : numobjs s' = numobjs s;
  cs_heap : heap s' = heap s; cs_tasks : tasks s' = tasks s; cs_cur : cur s' = cur s;
  cs_evp : ev_pending s' = ev_pending s; cs_evb : ev_batch s' = ev_batch s; cs_evc : ev_count s' = ev_count s;
  cs_evr : ev_reg s' = ev_reg s; cs_ur : use_raw s' = use_raw s;
  cs_rr : rw_reg s' = rw_reg s; cs_rf : rw_rfd s' = rw_rfd s; cs_rwf : rw_wfd s' = rw_wfd s;
  cs_kern : kern s' = kern s;
}.

Ltac cs_rw CS :=
  rewrite ?(cs_fdt _ _ CS), ?(cs_active _ _ CS), ?(cs_handled _ _ CS), ?(cs_numfds _ _ CS), ?(cs_method _ _ CS),
    ?(cs_notify _ _ CS), ?(cs_tfd _ _ CS), ?(cs_er _ _ CS), ?(cs_af _ _ CS), ?(cs_ar _ _ CS), ?(cs_aw _ _ CS),
    ?(cs_pfds _ _ CS), ?(cs_pkeys _ _ CS), ?(cs_numobjs _ _ CS), ?(cs_heap _ _ CS), ?(cs_tasks _ _ CS),
    ?(cs_cur _ _ CS), ?(cs_evp _ _ CS), ?(cs_evb _ _ CS), ?(cs_evc _ _ CS), ?(cs_evr _ _ CS), ?(cs_ur _ _ CS),
    ?(cs_rr _ _ CS), ?(cs_rf _ _ CS), ?(cs_rwf _ _ CS), ?(cs_kern _ _ CS).

Lemma InvW_coresame : forall s s', coresame s s' -> nobad (trace s') -> InvW s -> InvW s'.
Proof.
  intros s s' CS NB [A B C D E F G H]. constructor.
  - eapply FdInv_eq; [exact A|intros k; rewrite (cs_fdt _ _ CS); tauto|apply CS..].
  - intros k. unfold sync_at, is_epoll. cs_rw CS. apply B.
  - destruct C. constructor; unfold is_epoll; cs_rw CS; assumption.
  - cs_rw CS. assumption.
  - destruct E. constructor; unfold curl; cs_rw CS; assumption.
  - destruct F. constructor; unfold is_epoll; cs_rw CS; assumption.
  - destruct G. constructor; unfold curl; cs_rw CS; assumption.
  - destruct H. constructor; unfold is_epoll; cs_rw CS; assumption.
Qed.

Ltac cs_refl := constructor; reflexivity.

Lemma nobad_emit : forall s e, nobad (trace s) -> e <> TCrash -> e <> TFatal -> nobad (trace (emit s e)).
Proof. intros. sp. apply nobad_cons; assumption. Qed.

Lemma InvW_emit : forall s e, InvW s -> e <> TCrash -> e <> TFatal -> InvW (emit s e).
Proof.
  intros s e I A B. apply (InvW_coresame s (emit s e)); [cs_refl| |exact I].
  apply nobad_emit; [apply (ms_nobad _ (iw_misc _ I))|assumption..].
Qed.
