(* CoreInvObj.v -- the components of InvW across steps of the descriptor layer;
   timers, tasks, events, raw events; do_action, run_acts, run_script. *)
From Coq Require Import List ZArith Bool Lia.
From Ivv Require Import Core.Kernel Core.CoreTypes Core.CoreFd Core.CoreModel Core.CoreSpec
  Core.CoreInvBase Core.CoreInvDefs Core.CoreInvFd Core.CoreInvPoll Core.CoreInvReg.
From Ivv Require Timer.HeapModel Timer.HeapSpec Timer.HeapProofs.
Import ListNotations.
Local Open Scope Z_scope.

(* ---------- components under a step of the descriptor layer ---------- *)
Lemma kctl_KInv : forall k k', kctl k k' -> KInv k -> KInv k'.
Proof.
  intros k k' K [A B]. pose proof K as (V&N&_). constructor.
  - rewrite N. assumption.
  - intros fd H. rewrite N. apply B. rewrite <- (kctl_get _ _ fd K). assumption.
Qed.

Lemma Misc_step : forall k s s', FdStep k s s' -> Misc s -> Misc s'.
Proof.
  intros k s s' S [A B C D]. pose proof (fs_rest _ _ _ S) as RS. pose proof (fs_kctl _ _ _ S) as K.
  constructor.
  - rewrite (rs_trace _ _ RS). assumption.
  - rewrite (rs_method _ _ RS). assumption.
  - rewrite (restsame_epoll _ _ RS). destruct K as (_&_&_&_&->). assumption.
  - eapply kctl_KInv; eassumption.
Qed.

Lemma curl_same : forall s s', cur s' = cur s -> curl s' = curl s.
Proof. intros s s' H. unfold curl. rewrite H. reflexivity. Qed.

Lemma TaskInv_same : forall s s', tasks s' = tasks s -> cur s' = cur s -> TaskInv s -> TaskInv s'.
Proof. intros s s' A B [C D]. constructor; rewrite A, (curl_same _ _ B); assumption. Qed.

Lemma EvInv_same : forall s s', restsame s s' -> EvInv s -> EvInv s'.
Proof.
  intros s s' RS [A B C D E F G]. pose proof (restsame_epoll _ _ RS) as EE. destruct RS.
  constructor; rewrite ?rs_evp, ?rs_evb, ?rs_evc, ?rs_evr, ?rs_ur, ?rs_rr, ?rs_ar, ?EE; assumption.
Qed.

Lemma pipe_ok_kctl : forall k k' r w, kctl k k' -> pipe_ok k r w -> pipe_ok k' r w.
Proof.
  intros k k' r w K (X & Y & v & vw & A & B & C & D & E & F & G). split; [assumption|]. split; [assumption|]. exists v, vw.
  rewrite !(kctl_open _ _ _ K). tauto.
Qed.
Lemma evfd_ok_kctl : forall k k' r w, kctl k k' -> evfd_ok k r w -> evfd_ok k' r w.
Proof. intros k k' r w K (X & A & v & B & C). split; [assumption|]. split; [assumption|]. exists v. rewrite (kctl_open _ _ _ K). tauto. Qed.

Lemma DynInv_step : forall k s s', FdStep k s s' -> DynInv s ->
  (forall j, 0 <= j <= 16 -> registered (fdt s' (16 + j)) = registered (fdt s (16 + j))) -> DynInv s'.
Proof.
  intros k s s' S D RG. pose proof (fs_rest _ _ _ S) as RS. pose proof (fs_kctl _ _ _ S) as K.
  pose proof (restsame_epoll _ _ RS) as EE.
  assert (FL : flt (kern s') = flt (kern s)) by (destruct K as (_&_&_&_&->); reflexivity).
  destruct RS. destruct D. constructor.
  - intros j. rewrite rs_rr. auto.
  - intros j H. rewrite RG, rs_rr by assumption. auto.
  - intros j H. rewrite rs_rr in H. destruct (fs_hsame _ _ _ S (16 + j)) as (A&B&C&E&_).
    rewrite A, B, C, E, rs_rf. auto.
  - intros j H. rewrite rs_rr in H. unfold raw_is_pipe. rewrite rs_rf, rs_rwf. specialize (dy_kern j H).
    unfold raw_is_pipe in dy_kern.
    destruct (negb (rw_wfd s j =? rw_rfd s j)); [eapply pipe_ok_kctl|eapply evfd_ok_kctl]; eassumption.
  - rewrite rs_er. assumption.
  - intros k0 H. destruct (fs_hsame _ _ _ S k0) as (_&B&C&E&_). unfold hids_ok. rewrite B, C, E. apply dy_userh. assumption.
  - rewrite rs_ar, rs_af, rs_aw. intros H. destruct (dy_act H) as (X & (v & A & B) & C). split; [assumption|]. split.
    + exists v. rewrite (kctl_open _ _ _ K). tauto.
    + destruct C as [C|C]; [left; assumption|right; eapply pipe_ok_kctl; eassumption].
  - rewrite rs_ar, rs_aw. assumption.
  - rewrite rs_ar, rs_rr, rs_rf, rs_af. assumption.
  - rewrite rs_tfd. destruct dy_tfd as [A|(A & v & B & C)]; [left; assumption|right].
    split; [assumption|]. exists v. rewrite (kctl_get _ _ _ K). tauto.
  - intros e H Q. rewrite rs_tfd, (kctl_open _ _ _ K). apply (dy_tfdent e); [|assumption].
    apply (fs_epneg _ _ _ S); [lia|assumption].
Qed.

Lemma DynInv_step_user : forall k s s', FdStep k s s' -> DynInv s -> 0 <= k < 16 -> DynInv s'.
Proof.
  intros k s s' S D K. eapply DynInv_step; try eassumption.
  intros j H. apply (fs_reg _ _ _ S). lia.
Qed.

Lemma sync_step : forall k s s', FdStep k s s' -> (forall k0, sync_at s k0) -> sync_at s' k ->
  forall k0, sync_at s' k0.
Proof.
  intros k s s' S A B k0. destruct (Z.eq_dec k0 k) as [->|N]; [assumption|].
  apply (fs_sync _ _ _ S); auto.
Qed.

(* ---------- accounting ---------- *)
Definition regf (s : core) : Z -> bool := fun k => registered (fdt s k).

Lemma Acct_fd : forall k s s' d, Acct s -> FdStep k s s' -> 0 <= k <= 32 ->
  (d = 0 /\ registered (fdt s' k) = registered (fdt s k) \/
   d = 1 /\ registered (fdt s k) = false /\ registered (fdt s' k) = true \/
   d = -1 /\ registered (fdt s k) = true /\ registered (fdt s' k) = false) ->
  numfds s' = numfds s + d -> numobjs s' = numobjs s + d -> Acct s'.
Proof.
  intros k s s' d [A B] S K C NF NO. pose proof (fs_rest _ _ _ S) as RS.
  assert (IN : In k (zseq 0 33)) by (apply In_zseq'; lia).
  assert (CNT : cntf (regf s') (zseq 0 33) = cntf (regf s) (zseq 0 33) + d).
  { destruct C as [(->&C)|[(->&C1&C2)|(->&C1&C2)]].
    - rewrite Z.add_0_r. apply cntf_ext. intros x _. unfold regf.
      destruct (Z.eq_dec x k) as [->|N]; [assumption|apply (fs_reg _ _ _ S); assumption].
    - apply (cntf_flip (regf s) (regf s') _ k); try assumption; [apply NoDup_zseq|].
      intros x N. unfold regf. symmetry. apply (fs_reg _ _ _ S). assumption.
    - assert (cntf (regf s) (zseq 0 33) = cntf (regf s') (zseq 0 33) + 1); [|lia].
      apply (cntf_flip (regf s') (regf s) _ k); try assumption; [apply NoDup_zseq|].
      intros x N. unfold regf. apply (fs_reg _ _ _ S). assumption. }
  constructor.
  - change (numfds s' = cntf (regf s') (zseq 0 33)). rewrite CNT, NF. change (cntf (regf s) (zseq 0 33)) with (cntf (fun k => registered (fdt s k)) (zseq 0 33)). lia.
  - rewrite NO, NF, B. destruct RS. rewrite rs_heap, rs_tasks, rs_evc, rs_ar. unfold curl. rewrite rs_cur. lia.
Qed.

(* ---------- the frame relation ---------- *)
Lemma tmeasure_same : forall s s', cur s' = cur s -> tepoch s' = tepoch s -> epoch s' = epoch s ->
  tmeasure s' = tmeasure s.
Proof. intros s s' A B C. unfold tmeasure, tcount, curl. rewrite A, B, C. reflexivity. Qed.

Lemma Fr_refl : forall s, Fr s s.
Proof. intros. constructor; try reflexivity; try lia; tauto. Qed.
Lemma Fr_trans : forall a b c, Fr a b -> Fr b c -> Fr a c.
Proof.
  intros a b c [A1 A2 A3 A4 A5 A6 A7 A8] [B1 B2 B3 B4 B5 B6 B7 B8]. constructor; try lia; try congruence.
  - auto.
  - destruct B8 as [B8|B8]; [rewrite B8; assumption|right; assumption].
Qed.

Lemma Fr_restsame : forall s s', restsame s s' -> nwait (kern s') = nwait (kern s) ->
  (length (active s') <= length (active s))%nat -> (handled s' = handled s \/ handled s' = None) -> Fr s s'.
Proof.
  intros s s' RS NW A H. pose proof (tmeasure_same s s' (rs_cur _ _ RS) (rs_tepoch _ _ RS) (rs_epoch _ _ RS)) as TM.
  destruct RS. constructor; try assumption.
  - rewrite rs_heap. lia.
  - rewrite rs_evb. lia.
  - lia.
  - congruence.
Qed.

Lemma Fr_fdstep : forall k s s', FdStep k s s' -> (length (active s') <= length (active s))%nat ->
  (handled s' = handled s \/ handled s' = None) -> Fr s s'.
Proof.
  intros k s s' S A H. apply Fr_restsame; try assumption; [apply (fs_rest _ _ _ S)|].
  destruct (fs_kctl _ _ _ S) as (_&_&_&N&_). assumption.
Qed.

(* assembling InvW after a descriptor-layer step on a user descriptor *)
Lemma InvW_fdstep : forall k s s', InvW s -> FdStep k s s' -> 0 <= k < 16 ->
  FdInv (-1) s' -> sync_at s' k -> Acct s' -> InvW s'.
Proof.
  intros k s s' [A B C D E F G H] S K I' SY AC. pose proof (fs_rest _ _ _ S) as RS. constructor.
  - assumption.
  - eapply sync_step; eassumption.
  - eapply DynInv_step_user; eassumption.
  - rewrite (rs_heap _ _ RS). assumption.
  - eapply TaskInv_same; [apply (rs_tasks _ _ RS)|apply (rs_cur _ _ RS)|assumption].
  - eapply EvInv_same; eassumption.
  - assumption.
  - eapply Misc_step; eassumption.
Qed.

(* ---------- states that agree on every field the invariant reads ---------- *)
Record coresame (s s' : core) : Prop := {
  cs_fdt : fdt s' = fdt s; cs_active : active s' = active s; cs_handled : handled s' = handled s;
  cs_numfds : numfds s' = numfds s; cs_method : method s' = method s; cs_notify : notify s' = notify s;
  cs_tfd : tfd s' = tfd s; cs_er : efd_raw s' = efd_raw s;
  cs_af : active_fd s' = active_fd s; cs_ar : active_ref s' = active_ref s; cs_aw : active_wr s' = active_wr s;
  cs_pfds : pfds s' = pfds s; cs_pkeys : pkeys s' = pkeys s; cs_numobjs : numobjs s' = numobjs s;
  cs_heap : heap s' = heap s; cs_tasks : tasks s' = tasks s; cs_cur : cur s' = cur s;
  cs_evp : ev_pending s' = ev_pending s; cs_evb : ev_batch s' = ev_batch s; cs_evc : ev_count s' = ev_count s;
  cs_evr : ev_reg s' = ev_reg s; cs_ur : use_raw s' = use_raw s;
  cs_rr : rw_reg s' = rw_reg s; cs_rf : rw_rfd s' = rw_rfd s; cs_rwf : rw_wfd s' = rw_wfd s;
  cs_kern : kern s' = kern s;
}.

Ltac cs_rw CS :=
  rewrite ?(cs_fdt _ _ CS), ?(cs_active _ _ CS), ?(cs_handled _ _ CS), ?(cs_numfds _ _ CS), ?(cs_method _ _ CS),
    ?(cs_notify _ _ CS), ?(cs_tfd _ _ CS), ?(cs_er _ _ CS), ?(cs_af _ _ CS), ?(cs_ar _ _ CS), ?(cs_aw _ _ CS),
    ?(cs_pfds _ _ CS), ?(cs_pkeys _ _ CS), ?(cs_numobjs _ _ CS), ?(cs_heap _ _ CS), ?(cs_tasks _ _ CS),
    ?(cs_cur _ _ CS), ?(cs_evp _ _ CS), ?(cs_evb _ _ CS), ?(cs_evc _ _ CS), ?(cs_evr _ _ CS), ?(cs_ur _ _ CS),
    ?(cs_rr _ _ CS), ?(cs_rf _ _ CS), ?(cs_rwf _ _ CS), ?(cs_kern _ _ CS).

Lemma InvW_coresame : forall s s', coresame s s' -> nobad (trace s') -> InvW s -> InvW s'.
Proof.
  intros s s' CS NB [A B C D E F G H]. constructor.
  - eapply FdInv_eq; [exact A|intros k; rewrite (cs_fdt _ _ CS); tauto|apply CS..].
  - intros k. unfold sync_at, is_epoll. cs_rw CS. apply B.
  - destruct C. constructor; unfold is_epoll, raw_is_pipe in *; cs_rw CS; assumption.
  - cs_rw CS. assumption.
  - destruct E. constructor; unfold curl; cs_rw CS; assumption.
  - destruct F. constructor; unfold is_epoll; cs_rw CS; assumption.
  - destruct G. constructor; unfold curl; cs_rw CS; assumption.
  - destruct H. constructor; unfold is_epoll; cs_rw CS; assumption.
Qed.

Ltac cs_refl := constructor; reflexivity.

Lemma nobad_emit : forall s e, nobad (trace s) -> e <> TCrash -> e <> TFatal -> nobad (trace (emit s e)).
Proof. intros. sp. apply nobad_cons; assumption. Qed.

Lemma InvW_emit : forall s e, InvW s -> e <> TCrash -> e <> TFatal -> InvW (emit s e).
Proof.
  intros s e I A B. apply (InvW_coresame s (emit s e)); [cs_refl| |exact I].
  apply nobad_emit; [apply (ms_nobad _ (iw_misc _ I))|assumption..].
Qed.

Lemma Misc_same : forall s s', trace s' = trace s -> method s' = method s -> kern s' = kern s -> Misc s -> Misc s'.
Proof. intros s s' A B C [D E F G]. constructor; unfold is_epoll; rewrite ?A, ?B, ?C; assumption. Qed.

(* InvW with the agreement clause suspended for one descriptor *)
Record InvWx (k : Z) (s : core) : Prop := {
  ix_fd : FdInv (-1) s;
  ix_sync : forall k0, k0 <> k -> sync_at s k0;
  ix_dyn : DynInv s;
  ix_heap : HeapSpec.HeapInv (heap s);
  ix_task : TaskInv s;
  ix_ev : EvInv s;
  ix_acct : Acct s;
  ix_misc : Misc s;
}.
Lemma InvW_InvWx : forall k s, InvW s -> InvWx k s.
Proof. intros k s []. constructor; auto. Qed.
Lemma InvWx_InvW : forall k s, InvWx k s -> sync_at s k -> InvW s.
Proof.
  intros k s [] S. constructor; auto. intros k0. destruct (Z.eq_dec k0 k) as [->|N]; auto.
Qed.

Lemma InvWx_fdstep : forall k s s', InvWx k s -> FdStep k s s' -> 0 <= k < 16 ->
  FdInv (-1) s' -> Acct s' -> InvWx k s'.
Proof.
  intros k s s' [A B C D E F G H] S K I' AC. pose proof (fs_rest _ _ _ S) as RS. constructor.
  - assumption.
  - intros k0 N. apply (fs_sync _ _ _ S); auto.
  - eapply DynInv_step_user; eassumption.
  - rewrite (rs_heap _ _ RS). assumption.
  - eapply TaskInv_same; [apply (rs_tasks _ _ RS)|apply (rs_cur _ _ RS)|assumption].
  - eapply EvInv_same; eassumption.
  - assumption.
  - eapply Misc_step; eassumption.
Qed.

(* a user descriptor object is rewritten: fields the library owns are kept *)
Definition libsame (f' f : fdo) : Prop :=
  fdnum f' = fdnum f /\ registered f' = registered f /\ wanted f' = wanted f /\ regb f' = regb f /\
  pidx f' = pidx f.

Lemma InvWx_putfd_user : forall s k f', InvW s -> 0 <= k < 16 -> libsame f' (fdt s k) ->
  hids_ok f' (fun h => 0 <= h < 16) -> InvWx k (putfd s k f').
Proof.
  intros s k f' [A B C D E F G H] K (L1&L2&L3&L4&L5) HO. constructor.
  - apply FdInv_putfd_soft; assumption.
  - intros k0 N. apply sync_at_same with (s := s); sp; try reflexivity; [apply upd_other; assumption|apply B].
  - destruct C. constructor; sp; try assumption.
    + intros j J. rewrite upd_other by lia. auto.
    + intros j J. rewrite upd_other by (apply dy_range in J; lia). auto.
    + intros k0 K0. unfold upd. destruct (Z.eqb_spec k0 k) as [->|N]; auto.
  - exact D.
  - apply (TaskInv_same s); [reflexivity..|exact E].
  - apply (EvInv_same s); [constructor; reflexivity|exact F].
  - destruct G as [G1 G2]. constructor; sp; [|exact G2]. rewrite G1. apply cntf_ext. intros x _.
    unfold upd. destruct (Z.eqb_spec x k) as [->|N]; congruence.
  - apply (Misc_same s); [reflexivity..|exact H].
Qed.

(* ---------- descriptor actions on user descriptors ---------- *)
Lemma fd_unregister_InvW : forall s k, InvW s -> registered (fdt s k) = true -> k < 16 ->
  okr (fun s' => StepW s s' /\ UnregPost k s s') (fd_unregister s k).
Proof.
  intros s k I R K. pose proof (fv_range _ _ (iw_fd _ I) k R) as RG.
  eapply okr_weaken; [apply (fd_unregister_ok s k (iw_fd _ I) R)|].
  intros s' U. split; [|exact U]. destruct U as (A & B & C & D & E & F & G & H & J & L & M & N & O).
  split.
  - apply (InvW_fdstep k s s'); try assumption; try lia.
    + unfold sync_at. rewrite C. discriminate.
    + apply (Acct_fd k s s' (-1)); try assumption; try lia; [apply (iw_acct _ I)|].
      right; right. tauto.
  - apply (Fr_fdstep k); try assumption. rewrite L. apply remz_length.
Qed.

Lemma fd_register_InvW : forall s k, InvW s -> 0 <= k < 16 -> registered (fdt s k) = false ->
  k_open (kern s) (fdnum (fdt s k)) <> None -> okr (StepW s) (fd_register s k).
Proof.
  intros s k I K R O.
  eapply okr_weaken; [apply (fd_register_ok s k (iw_fd _ I)); apply RegPre_user; try assumption; apply (iw_fd _ I)|].
  intros s' (A & B & C & D & E & F & G & H). split.
  - apply (InvW_fdstep k s s'); try assumption.
    apply (Acct_fd k s s' 1); try assumption; try lia; [apply (iw_acct _ I)|]. right; left. tauto.
  - apply (Fr_fdstep k); try assumption; [rewrite E; lia|left; assumption].
Qed.

Lemma fd_register_try_InvW : forall s k, InvW s -> 0 <= k < 16 -> registered (fdt s k) = false ->
  okr (StepW s) (fst (fd_register_try s k)).
Proof.
  intros s k I K R.
  eapply okr_weaken; [apply (fd_register_try_ok s k (iw_fd _ I) K R)|].
  intros s' (A & B & C & D & E). split; [|apply (Fr_fdstep k); try assumption; [rewrite C; lia|left; assumption]].
  destruct (snd (fd_register_try s k)).
  - destruct E as (E1 & E2 & E3). apply (InvW_fdstep k s s'); try assumption.
    + unfold sync_at. rewrite E1. discriminate.
    + apply (Acct_fd k s s' 0); try assumption; try lia; [apply (iw_acct _ I)|]. left. split; [reflexivity|congruence].
  - destruct E as (E1 & E2 & E3 & E4). apply (InvW_fdstep k s s'); try assumption.
    apply (Acct_fd k s s' 1); try assumption; try lia; [apply (iw_acct _ I)|]. right; left. tauto.
Qed.

Lemma fd_set_handler_InvW : forall s k band h, InvW s -> 0 <= k < 16 ->
  match h with Some x => 0 <= x < 16 | None => True end -> okr (StepW s) (fd_set_handler s k band h).
Proof.
  intros s k band h I K H. unfold fd_set_handler, getfd.
  set (f' := if band =? 0 then fd_with_handlers (fdt s k) h (h_out (fdt s k)) (h_err (fdt s k))
             else if band =? 1 then fd_with_handlers (fdt s k) (h_in (fdt s k)) h (h_err (fdt s k))
             else fd_with_handlers (fdt s k) (h_in (fdt s k)) (h_out (fdt s k)) h).
  assert (LS : libsame f' (fdt s k)).
  { subst f'. destruct (band =? 0); [|destruct (band =? 1)]; repeat split. }
  assert (HO : hids_ok f' (fun x => 0 <= x < 16)).
  { destruct (dy_userh _ (iw_dyn _ I) k K) as (A & B & C).
    assert (HH : forall x, h = Some x -> 0 <= x < 16) by (intros x Q; subst h; exact H).
    subst f'. destruct (band =? 0); [|destruct (band =? 1)]; unfold hids_ok; cbn [fd_with_handlers h_in h_out h_err];
      (split; [|split]); assumption. }
  pose proof (InvWx_putfd_user s k f' I K LS HO) as I1.
  set (s1 := putfd s k f') in *.
  assert (F1 : Fr s s1) by (apply Fr_restsame; [constructor; reflexivity|reflexivity|change (active s1) with (active s); lia|left; reflexivity]).
  assert (RG1 : registered (fdt s1 k) = registered (fdt s k)).
  { subst s1. sp. rewrite upd_same. apply LS. }
  destruct (registered (fdt s k)) eqn:R.
  - assert (L1 : live s1 (-1) k) by (apply live_none; split; [lia|assumption]).
    eapply okr_weaken; [apply (notify_fd_ok (-1) s1 k (ix_fd _ _ I1) L1)|].
    intros s' (A & B & C & _ & D & E & _ & G). rewrite RG1 in E.
    split; [|eapply Fr_trans; [exact F1|]; apply (Fr_fdstep k); try assumption;
             [rewrite (kn_active _ _ C); lia|left; apply (kn_handled _ _ C)]].
    apply (InvWx_InvW k).
    + apply (InvWx_fdstep k s1 s'); try assumption.
      apply (Acct_fd k s1 s' 0); try assumption; try lia; [apply (ix_acct _ _ I1)|left; split; [reflexivity|assumption]| |].
      * rewrite (kn_numfds _ _ C). lia.
      * rewrite (kn_numobjs _ _ C). lia.
    + apply sync_at_intro; [|assumption]. intros _. rewrite E. symmetry. apply (FdStep_bands _ _ _ B).
  - cbn [okr]. split; [|assumption]. apply (InvWx_InvW k); [assumption|].
    unfold sync_at. rewrite RG1. discriminate.
Qed.

(* ---------- kernel-side changes that keep every descriptor's identity ---------- *)
Lemma pipe_ok_kstable : forall k k' r w, kstable k k' -> pipe_ok k r w -> pipe_ok k' r w.
Proof.
  intros k k' r w S (X & Y & v & vw & A & B & C & D & E & F & G).
  destruct (kstable_open _ _ _ _ S A) as (v' & A' & Q). destruct (Q X) as (Q1 & Q2 & Q3).
  destruct (kstable_open _ _ _ _ S E) as (vw' & E' & P). destruct (P Y) as (P1 & P2 & P3).
  split; [assumption|]. split; [assumption|]. exists v', vw'. repeat split; congruence.
Qed.
Lemma evfd_ok_kstable : forall k k' r w, kstable k k' -> evfd_ok k r w -> evfd_ok k' r w.
Proof.
  intros k k' r w S (X & A & v & B & C). destruct (kstable_open _ _ _ _ S B) as (v' & B' & Q).
  destruct (Q X) as (Q1 & _). split; [assumption|]. split; [assumption|]. exists v'. split; congruence.
Qed.
Lemma KInv_kstable : forall k k', kstable k k' -> KInv k -> KInv k'.
Proof.
  intros k k' S [A B]. pose proof (kt_next _ _ S) as N. constructor; [lia|].
  intros fd H. destruct (k_get k fd) eqn:G; [assert (fd < next_fd k) by (apply B; congruence); lia|].
  destruct (kt_none _ _ S fd G) as [Q|[Q|Q]]; [contradiction|lia|lia].
Qed.

Lemma InvW_kstable : forall s k', InvW s -> kstable (kern s) k' -> InvW (set_kern s k').
Proof.
  intros s k' [A B C D E F G H] S. constructor.
  - apply FdInv_kern; [assumption|apply (kt_ep _ _ S)| |].
    + intros k L. eapply kstable_open_some; [eassumption|]. apply (fv_open _ _ A). assumption.
    + intros fd Q. eapply kstable_get_some; eassumption.
  - intros k. apply sync_at_same with (s := s); try reflexivity. apply B.
  - destruct C. constructor; sp; try assumption.
    + intros j J. specialize (dy_kern j J). change (raw_is_pipe (set_kern s k') j) with (raw_is_pipe s j).
      destruct (raw_is_pipe s j); [eapply pipe_ok_kstable|eapply evfd_ok_kstable]; eassumption.
    + intros J. destruct (dy_act J) as (X & (v & V1 & V2) & W). split; [assumption|]. split.
      * destruct (kstable_open _ _ _ _ S V1) as (v' & V1' & Q). destruct (Q X) as (Q1 & _).
        exists v'. split; [assumption|]. rewrite Q1. assumption.
      * destruct W as [W|W]; [left; assumption|right; eapply pipe_ok_kstable; eassumption].
    + destruct dy_tfd as [T|(T & v & V1 & V2)]; [left; assumption|right]. split; [assumption|].
      destruct (kstable_get_kind _ _ _ _ S V1 T) as (v' & V1' & Q). exists v'. split; congruence.
    + rewrite (kt_ep _ _ S). intros e He Q. destruct (dy_tfdent e He Q) as (v & V1 & V2).
      assert (T : 1000 <= tfd s).
      { destruct (fv_ent _ _ A e He) as [((L&_)&_)|[(L&_)|(_&L1&_&L2)]]; first [lia|destruct L; lia]. }
      destruct (kstable_open _ _ _ _ S V1) as (v' & V1' & Q'). destruct (Q' T) as (Q1 & _).
      exists v'. split; congruence.
  - exact D.
  - apply (TaskInv_same s); [reflexivity..|exact E].
  - apply (EvInv_same s); [constructor; reflexivity|exact F].
  - destruct G. constructor; assumption.
  - destruct H. constructor; sp; try assumption.
    + rewrite (kt_flt _ _ S). assumption.
    + eapply KInv_kstable; eassumption.
Qed.

Lemma Fr_set_kern : forall s k', nwait k' = nwait (kern s) -> Fr s (set_kern s k').
Proof. intros. apply Fr_restsame; [constructor; reflexivity|assumption|sp; lia|left; reflexivity]. Qed.

(* ---------- states that agree on the descriptor layer ---------- *)
Record fdcs (s s' : core) : Prop := {
  fc_fdt : fdt s' = fdt s; fc_active : active s' = active s; fc_handled : handled s' = handled s;
  fc_numfds : numfds s' = numfds s; fc_method : method s' = method s; fc_notify : notify s' = notify s;
  fc_tfd : tfd s' = tfd s; fc_er : efd_raw s' = efd_raw s;
  fc_af : active_fd s' = active_fd s; fc_ar : active_ref s' = active_ref s; fc_aw : active_wr s' = active_wr s;
  fc_pfds : pfds s' = pfds s; fc_pkeys : pkeys s' = pkeys s;
  fc_rr : rw_reg s' = rw_reg s; fc_rf : rw_rfd s' = rw_rfd s; fc_rwf : rw_wfd s' = rw_wfd s;
  fc_kern : kern s' = kern s;
}.
Ltac fc_rw CS :=
  rewrite ?(fc_fdt _ _ CS), ?(fc_active _ _ CS), ?(fc_handled _ _ CS), ?(fc_numfds _ _ CS), ?(fc_method _ _ CS),
    ?(fc_notify _ _ CS), ?(fc_tfd _ _ CS), ?(fc_er _ _ CS), ?(fc_af _ _ CS), ?(fc_ar _ _ CS), ?(fc_aw _ _ CS),
    ?(fc_pfds _ _ CS), ?(fc_pkeys _ _ CS), ?(fc_rr _ _ CS), ?(fc_rf _ _ CS), ?(fc_rwf _ _ CS), ?(fc_kern _ _ CS).

Lemma InvW_fdcs : forall s s', fdcs s s' -> InvW s -> nobad (trace s') -> HeapSpec.HeapInv (heap s') ->
  TaskInv s' -> EvInv s' -> Acct s' -> InvW s'.
Proof.
  intros s s' CS [A B C D E F G H] NB HI TI EI AC. constructor; try assumption.
  - eapply FdInv_eq; [exact A|intros k; rewrite (fc_fdt _ _ CS); tauto|apply CS..].
  - intros k. unfold sync_at, is_epoll. fc_rw CS. apply B.
  - destruct C. constructor; unfold is_epoll, raw_is_pipe in *; fc_rw CS; assumption.
  - destruct H. constructor; unfold is_epoll; fc_rw CS; assumption.
Qed.
Ltac fc_refl := constructor; reflexivity.

(* ---------- timers ---------- *)
Lemma heap_step : forall s h', InvW s -> HeapSpec.HeapInv h' ->
  let s' := set_numobjs (set_heap s h') (numobjs s + (HeapModel.numobjs h' - HeapModel.numobjs (heap s))) in
  InvW s' /\ (nwait (kern s') = nwait (kern s)).
Proof.
  intros s h' I HI s'. split; [|reflexivity].
  apply (InvW_fdcs s s'); try assumption; [fc_refl|apply (ms_nobad _ (iw_misc _ I))| | |].
  - apply (TaskInv_same s); [reflexivity..|apply (iw_task _ I)].
  - pose proof (iw_ev _ I) as []. constructor; assumption.
  - pose proof (iw_acct _ I) as [A B]. constructor; [exact A|]. subst s'. sp.
    assert (N1 : HeapModel.numobjs h' = HeapModel.num h') by apply HI.
    assert (N2 : HeapModel.numobjs (heap s) = HeapModel.num (heap s)) by apply (iw_heap _ I).
    rewrite B, N1, N2. change (curl (set_numobjs (set_heap s h') _)) with (curl s). lia.
Qed.

From Ivv Require Timer.HeapBase Timer.HeapFacts Timer.HeapDispatch.

Lemma Fr_heap : forall s h' n, (length (HeapModel.batch h') <= length (HeapModel.batch (heap s)))%nat ->
  Fr s (set_numobjs (set_heap s h') n).
Proof.
  intros s h' n H. constructor; sp; try reflexivity; try lia; try tauto.
Qed.

Lemma lift_heap_ok : forall s o h', InvW s -> o = HeapModel.Ok h' -> HeapSpec.HeapInv h' ->
  (length (HeapModel.batch h') <= length (HeapModel.batch (heap s)))%nat ->
  okr (StepW s) (lift_heap s o).
Proof.
  intros s o h' I -> HI L. unfold lift_heap. cbn [okr]. split.
  - apply (heap_step s h' I HI).
  - apply Fr_heap. assumption.
Qed.

Lemma timer_reg_ok : forall s j e, InvW s -> timer_registered s j = false ->
  okr (StepW s) (lift_heap s (HeapModel.register (HeapModel.set_exp (heap s) (tmid j) e) (tmid j))).
Proof.
  intros s j e I T. unfold timer_registered in T. apply negb_false_iff in T. apply Z.eqb_eq in T.
  pose proof (iw_heap _ I) as HI.
  assert (HI' : HeapSpec.HeapInv (HeapModel.set_exp (heap s) (tmid j) e)).
  { apply HeapFacts.Inv_HeapInv. apply HeapDispatch.set_exp_inv; [apply HeapFacts.HeapInv_Inv; assumption|assumption]. }
  destruct (HeapProofs.heap_register_ok _ (tmid j) HI') as (h' & R' & I' & _ & _ & B' & _).
  - apply HeapBase.tget_set_exp_same.
  - rewrite HeapBase.tidx_set_exp. assumption.
  - eapply lift_heap_ok; try eassumption.
    destruct (HeapBase.set_exp_fields (heap s) (tmid j) e) as (_&_&_&Bt&_). rewrite B', Bt. lia.
Qed.

Lemma timer_unreg_ok : forall s j, InvW s -> timer_registered s j = true ->
  okr (StepW s) (lift_heap s (HeapModel.unregister (heap s) (tmid j))).
Proof.
  intros s j I T. unfold timer_registered in T. apply negb_true_iff in T. apply Z.eqb_neq in T.
  pose proof (iw_heap _ I) as HI.
  assert (GE : -1 <= HeapModel.tidx (heap s) (tmid j)) by apply HI.
  destruct (Z.eq_dec (HeapModel.tidx (heap s) (tmid j)) 0) as [Z0|NZ].
  - destruct (HeapProofs.heap_unregister_expired_ok _ _ HI Z0) as (h' & U & I' & _ & _ & NI & SUB).
    eapply lift_heap_ok; try eassumption.
    apply NoDup_incl_length; [apply I'|]. intros t Ht.
    destruct (Pos.eq_dec t (tmid j)) as [->|N]; [contradiction|]. apply SUB; assumption.
  - destruct (HeapProofs.heap_unregister_ok _ (tmid j) HI ltac:(lia)) as (h' & U & I' & _ & _ & _ & B' & _).
    eapply lift_heap_ok; try eassumption. rewrite B'. lia.
Qed.
