(* CoreExamples.v -- concrete well-formed scenarios used by the non-vacuity Examples of the Props files: the
   hypotheses `wf_scenario sc` of the core theorems are satisfiable by runs in which every kind of object is
   registered, fires and is unregistered, on every poll method. *)
From Coq Require Import List ZArith Bool Lia.
From Ivv Require Import Core.Kernel Core.CoreTypes Core.CoreFd Core.CoreModel Core.Monitors Core.GuardMon Core.CoreSpec.
Import ListNotations.
Local Open Scope Z_scope.

(* one descriptor (handler 1, cookie 7) that becomes readable during the first wait and unregisters itself, one
   timer 5 ms ahead whose handler posts a raw event, one task, one iv_event posted before iv_main and unregistered
   from its handler, one raw event unregistered from its handler *)
Definition ex_all (be : Z) : scenario :=
  {| sc_backend := be; sc_faults := no_faults; sc_limit := 8;
     sc_setup := [AFdSetH 0 0 (Some 1); AFdCookie 0 7; AFdReg 0; ATmRegRel 0 5000000; ATkReg 0; AEvReg 0; ARwReg 0; AEvPost 0];
     sc_handlers := fun k => if k =? 1 then [[AFdUnreg 0]] else if k =? 100 then [[ARwPost 0]]
                             else if k =? 300 then [[AEvUnreg 0]] else if k =? 400 then [[ARwUnreg 0]] else [];
     sc_wait := fun k => if k =? 1 then [AKSet 0 1] else [];
     sc_rot := fun _ => 0 |}.

Lemma ex_all_wf : forall be, 0 <= be <= 3 -> wf_scenario (ex_all be).
Proof.
  intros be Hbe. constructor; cbn [ex_all sc_backend sc_limit sc_setup sc_handlers sc_wait sc_faults].
  - exact Hbe.
  - lia.
  - repeat constructor; unfold ok_idx; lia.
  - intros k. destruct (k =? 1); [repeat constructor; unfold ok_idx; lia|].
    destruct (k =? 100); [repeat constructor; unfold ok_idx; lia|].
    destruct (k =? 300); [repeat constructor; unfold ok_idx; lia|].
    destruct (k =? 400); [repeat constructor; unfold ok_idx; lia|]. constructor.
  - intros k. destruct (k =? 1); [repeat constructor; unfold ok_idx; lia|constructor].
  - cbn. discriminate.
  - cbn. lia.
  - cbn. lia.
Qed.

(* what happens in these runs (epoll-timerfd = 0 and poll = 3 shown; computed) *)
Lemma ex_all_runs : forall be, In be [0; 1; 2; 3] ->
  let tr := run_scenario (ex_all be) in
  In (TCallFd 0 0 1 7) tr /\ In (TCallTimer 0 1005000000) tr /\ In (TCallTask 0) tr /\ In (TCallEvent 0) tr /\
  In (TCallRaw 0) tr /\ In (TEnd 0 0) tr /\ In (TDone 0) tr /\ ~ In TLimit tr /\ ~ In THang tr /\
  mon_fails tr = [] /\ gmon_fails (ex_all be) tr = [].
Proof.
  intros be H. cbn [In] in H.
  destruct H as [<-|[<-|[<-|[<-|[]]]]]; vm_compute;
    repeat split; try tauto; try (intros H; repeat (destruct H as [H|H]; [discriminate H|]); exact H).
Qed.

(* the same program under faults: epoll_pwait2 and timerfd missing (ENOSYS from the first call), eventfd2 and eventfd
   missing (pipe fall-back for the raw event and the kick descriptor), the second wait interrupted (EINTR) *)
Definition ex_faults : faults :=
  {| no_pwait2 := true; perm_pwait2 := false; no_timerfd := true; no_ppoll := true;
     no_eventfd2 := true; no_eventfd := true; no_create1 := false; emfile := false;
     eintr_waits := [2]; eintr_ctl := 0; efd_ok := 0 |}.

Definition ex_all_f (be : Z) : scenario :=
  {| sc_backend := be; sc_faults := ex_faults; sc_limit := 10;
     sc_setup := sc_setup (ex_all be); sc_handlers := sc_handlers (ex_all be);
     sc_wait := sc_wait (ex_all be); sc_rot := fun _ => 0 |}.

Lemma ex_all_f_wf : forall be, 0 <= be <= 3 -> wf_scenario (ex_all_f be).
Proof.
  intros be Hbe. pose proof (ex_all_wf be Hbe) as W. destruct W as [W1 W2 W3 W4 W5 W6 W7 W8].
  constructor; cbn [ex_all_f sc_backend sc_limit sc_setup sc_handlers sc_wait sc_faults]; try assumption;
    try (cbn; lia); try (cbn; discriminate).
Qed.

Definition has_eintr (tr : list tev) : bool :=
  existsb (fun e => match e with TRet None _ _ => true | _ => false end) tr.
Definition calls_fd (tr : list tev) : bool :=
  existsb (fun e => match e with TCallFd 0 0 1 7 => true | _ => false end) tr.
Definition calls_raw (tr : list tev) : bool :=
  existsb (fun e => match e with TCallRaw 0 => true | _ => false end) tr.
Definition calls_timer (tr : list tev) : bool :=
  existsb (fun e => match e with TCallTimer 0 _ => true | _ => false end) tr.

Lemma ex_all_f_runs : forall be, In be [0; 1; 2; 3] ->
  let tr := run_scenario (ex_all_f be) in
  has_eintr tr = true /\ calls_fd tr = true /\ calls_raw tr = true /\ calls_timer tr = true /\
  mon_fails tr = [] /\ gmon_fails (ex_all_f be) tr = [].
Proof.
  intros be H. cbn [In] in H.
  destruct H as [<-|[<-|[<-|[<-|[]]]]]; vm_compute; repeat split.
Qed.

(* eventfd2 / eventfd start failing (ENOSYS) after ONE descriptor has been created: raw event 0 is registered
   while eventfd creation works (eventfd-backed: one descriptor for both ends), raw event 1 after the cut
   (pipe-backed: two descriptors).  Both are posted before iv_main and again from outside at the second wait; both
   handlers run twice and unregister their object the second time (one close for the eventfd, two for the pipe). *)
Definition ex_cut_faults : faults :=
  {| no_pwait2 := false; perm_pwait2 := false; no_timerfd := false; no_ppoll := false;
     no_eventfd2 := true; no_eventfd := true; no_create1 := false; emfile := false;
     eintr_waits := []; eintr_ctl := 0; efd_ok := 1 |}.

Definition ex_cut (be : Z) : scenario :=
  {| sc_backend := be; sc_faults := ex_cut_faults; sc_limit := 8;
     sc_setup := [ARwReg 0; ARwReg 1; ARwPost 0; ARwPost 1];
     sc_handlers := fun k => if k =? 400 then [[]; [ARwUnreg 0]] else if k =? 401 then [[]; [ARwUnreg 1]] else [];
     sc_wait := fun k => if k =? 2 then [ARwPost 0; ARwPost 1] else [];
     sc_rot := fun _ => 0 |}.

Lemma ex_cut_wf : forall be, 0 <= be <= 3 -> wf_scenario (ex_cut be).
Proof.
  intros be Hbe. constructor; cbn [ex_cut sc_backend sc_limit sc_setup sc_handlers sc_wait sc_faults].
  - exact Hbe.
  - lia.
  - repeat constructor; unfold ok_idx; lia.
  - intros k. destruct (k =? 400); [repeat constructor; unfold ok_idx; lia|].
    destruct (k =? 401); [repeat constructor; unfold ok_idx; lia|]. constructor.
  - intros k. destruct (k =? 2); [repeat constructor; unfold ok_idx; lia|constructor].
  - cbn. discriminate.
  - cbn. lia.
  - cbn. lia.
Qed.

Definition count_ev (p : tev -> bool) (tr : list tev) : nat := length (filter p tr).
Definition is_raw_call (j : Z) (e : tev) : bool := match e with TCallRaw i => i =? j | _ => false end.
Definition is_close (e : tev) : bool := match e with TKClose _ => true | _ => false end.

(* first descriptor the library creates for a raw event: 1001 under the epoll methods (1000 is the epoll
   descriptor), 1000 under poll / ppoll *)
Definition ex_cut_base (be : Z) : Z := if be <? 2 then 1001 else 1000.

Lemma ex_cut_runs : forall be, In be [0; 1; 2; 3] ->
  let tr := run_scenario (ex_cut be) in
  efd_ok (sc_faults (ex_cut be)) = 1 /\
  count_ev (is_raw_call 0) tr = 2%nat /\ count_ev (is_raw_call 1) tr = 2%nat /\
  (* raw event 0: one descriptor (eventfd); raw event 1: the next two (pipe) *)
  In (TKClose (ex_cut_base be)) tr /\ In (TKClose (ex_cut_base be + 1)) tr /\ In (TKClose (ex_cut_base be + 2)) tr /\
  count_ev is_close tr = (if be <? 2 then 4%nat else 3%nat) /\
  In (TEnd 0 0) tr /\ In (TDone 0) tr /\ ~ In TLimit tr /\ ~ In THang tr /\
  mon_fails tr = [] /\ gmon_fails (ex_cut be) tr = [].
Proof.
  intros be H. cbn [In] in H.
  destruct H as [<-|[<-|[<-|[<-|[]]]]]; vm_compute;
    repeat split; try tauto; try (intros H; repeat (destruct H as [H|H]; [discriminate H|]); exact H).
Qed.
