(* CoreInvDefs.v -- the state invariant of the core-loop model (definitions only).
   Components: KInv (virtual kernel), FdInv (descriptor table, epoll / poll back
   ends, kernel interest list), Sync (per-descriptor agreement of wanted /
   registered bands / poll slot), DynInv (descriptors created by the library:
   raw events, the kick descriptor, the timer descriptor), HeapI, TaskInv,
   EvInv, Acct (accounting), Misc. *)
From Coq Require Import List ZArith Bool Lia.
From Ivv Require Import Core.Kernel Core.CoreTypes Core.CoreFd Core.CoreModel Core.CoreInvBase.
From Ivv Require Timer.HeapModel Timer.HeapSpec.
Import ListNotations.
Local Open Scope Z_scope.

(* ---------- virtual kernel ---------- *)
Record KInv (k : kernel) : Prop := {
  ki_next : 1000 <= next_fd k;
  ki_alloc : forall fd, k_get k fd <> None -> fd < next_fd k;
}.

(* ---------- descriptors ---------- *)
(* x: a key that may still be linked although it is no longer registered (the
   descriptor in the middle of iv_fd_unregister); -1 = none *)
Definition live (s : core) (x k : Z) : Prop :=
  0 <= k <= 32 /\ (registered (fdt s k) = true \/ k = x).

Definition entry_ok (s : core) (x : Z) (e : epent) : Prop :=
  (live s x (en_data e) /\ en_fd e = fdnum (fdt s (en_data e)) /\ regb (fdt s (en_data e)) <> 0 /\
   en_events e = epoll_mask (regb (fdt s (en_data e)))) \/
  (en_data e = -1 /\ en_fd e = active_fd s /\ active_ref s = 1 /\ en_events e = 0 /\ 1000 <= en_fd e) \/
  (en_data e = -2 /\ en_fd e = tfd s /\ en_events e = B_IN /\ 1000 <= en_fd e).

Record FdInv (x : Z) (s : core) : Prop := {
  fv_range : forall k, registered (fdt s k) = true -> 0 <= k <= 32;
  fv_user : forall k, 0 <= k < 16 -> fdnum (fdt s k) = 100 + k;
  fv_dyn : forall k, 16 <= k -> live s x k -> 1000 <= fdnum (fdt s k);
  fv_open : forall k, live s x k -> k_open (kern s) (fdnum (fdt s k)) <> None;
  fv_inj : forall k1 k2, live s x k1 -> live s x k2 -> fdnum (fdt s k1) = fdnum (fdt s k2) -> k1 = k2;
  fv_active : forall k, In k (active s) -> live s x k;
  fv_handled : forall k, handled s = Some k -> live s x k;
  fv_notify : forall k, In k (notify s) -> live s x k;
  fv_poll_excl : is_epoll s = false -> notify s = [] /\ ep (kern s) = [];
  fv_epoll_excl : is_epoll s = true -> pfds s = [] /\ pkeys s = [];
  (* epoll: the kernel interest list *)
  fv_ent : forall e, In e (ep (kern s)) -> entry_ok s x e;
  fv_has : is_epoll s = true -> forall k, live s x k -> regb (fdt s k) <> 0 ->
           exists e, In e (ep (kern s)) /\ en_fd e = fdnum (fdt s k) /\ en_data e = k;
  fv_none : is_epoll s = true -> forall k, live s x k -> regb (fdt s k) = 0 ->
            ep_find (ep (kern s)) (fdnum (fdt s k)) = false;
  fv_nodup : NoDup (map en_fd (ep (kern s)));
  fv_ealloc : forall e, In e (ep (kern s)) -> k_get (kern s) (en_fd e) <> None;
  fv_ref : active_ref s = 0 \/ active_ref s = 1;
  fv_kick : active_ref s = 1 -> exists e, In e (ep (kern s)) /\ en_fd e = active_fd s /\ en_data e = -1;
  (* poll: the pollfd array *)
  fv_plen : length (pfds s) = length (pkeys s);
  fv_pkey : forall n k, nth_error (pkeys s) n = Some k ->
            live s x k /\ pidx (fdt s k) = Z.of_nat n /\
            exists ev, nth_error (pfds s) n = Some (fdnum (fdt s k), ev);
  fv_pidx : is_epoll s = false -> forall k, live s x k ->
            pidx (fdt s k) = -1 \/ (0 <= pidx (fdt s k) /\ nth_error (pkeys s) (Z.to_nat (pidx (fdt s k))) = Some k);
}.

(* bands with handlers *)
Definition bands_of (f : fdo) : Z :=
  (match h_in f with Some _ => M_IN | None => 0 end) +
  (match h_out f with Some _ => M_OUT | None => 0 end) +
  (match h_err f with Some _ => M_ERR | None => 0 end).

(* per-descriptor agreement (suspended for a descriptor in the middle of an API call) *)
Definition sync_at (s : core) (k : Z) : Prop :=
  registered (fdt s k) = true ->
  wanted (fdt s k) = bands_of (fdt s k) /\
  (is_epoll s = true -> (In k (notify s) <-> regb (fdt s k) <> wanted (fdt s k))) /\
  (is_epoll s = false ->
     (pidx (fdt s k) <> -1 <-> wanted (fdt s k) <> 0) /\
     (forall p, nth_error (pfds s) (Z.to_nat (pidx (fdt s k))) = Some p -> pidx (fdt s k) <> -1 ->
                snd p = poll_mask (wanted (fdt s k)))).

(* unregistered descriptors are completely unlinked *)
Definition unlinked (s : core) (k : Z) : Prop :=
  ~ In k (active s) /\ ~ In k (notify s) /\ ~ In k (pkeys s) /\ handled s <> Some k /\
  (forall e, In e (ep (kern s)) -> en_data e <> k).

(* ---------- descriptors created by the library ---------- *)
Definition pipe_ok (k : kernel) (r w : Z) : Prop :=
  1000 <= r /\ 1000 <= w /\
  exists v vw, k_open k r = Some v /\ vkind v = K_PIPE_R /\ vpeer v = w /\ vpeer_open v = true /\
               k_open k w = Some vw /\ vkind vw = K_PIPE_W /\ vpeer vw = r.

Definition evfd_ok (k : kernel) (r w : Z) : Prop :=
  1000 <= r /\ w = r /\ exists v, k_open k r = Some v /\ vkind v = K_EVENTFD.

Definition hids_ok (f : fdo) (P : Z -> Prop) : Prop :=
  (forall h, h_in f = Some h -> P h) /\ (forall h, h_out f = Some h -> P h) /\ (forall h, h_err f = Some h -> P h).

Record DynInv (s : core) : Prop := {
  dy_range : forall j, rw_reg s j = true -> 0 <= j <= 16;
  dy_reg : forall j, 0 <= j <= 16 -> registered (fdt s (16 + j)) = rw_reg s j;
  dy_obj : forall j, rw_reg s j = true ->
           fdnum (fdt s (16 + j)) = rw_rfd s j /\ h_in (fdt s (16 + j)) = Some (H_RAW j) /\
           h_out (fdt s (16 + j)) = None /\ h_err (fdt s (16 + j)) = None;
  dy_kern : forall j, rw_reg s j = true ->
            (* the transport is a property of the object (one descriptor for both ends = eventfd), not of the
               current value of the eventfd_in_use flag: eventfd creation may start failing mid-run *)
            if raw_is_pipe s j then pipe_ok (kern s) (rw_rfd s j) (rw_wfd s j)
            else evfd_ok (kern s) (rw_rfd s j) (rw_wfd s j);
  dy_modes : efd_raw s = 0 \/ efd_raw s = 1 \/ efd_raw s = 2;
  dy_userh : forall k, 0 <= k < 16 -> hids_ok (fdt s k) (fun h => 0 <= h < 16);
  (* the kick descriptor of the epoll back ends *)
  dy_act : active_ref s = 1 ->
           1000 <= active_fd s /\
           (exists v, k_open (kern s) (active_fd s) = Some v /\
                      ((vkind v = K_EVENTFD /\ active_wr s = -1) \/ (vkind v = K_PIPE_R /\ active_wr s <> -1))) /\
           (active_wr s = -1 \/ pipe_ok (kern s) (active_fd s) (active_wr s));
  dy_actwr : active_ref s = 0 -> active_wr s = -1;
  dy_actraw : active_ref s = 1 -> forall j, rw_reg s j = true -> rw_rfd s j <> active_fd s;
  (* the timer descriptor *)
  dy_tfd : tfd s = -1 \/ (1000 <= tfd s /\ exists v, k_get (kern s) (tfd s) = Some v /\ vkind v = K_TIMERFD);
  dy_tfdent : forall e, In e (ep (kern s)) -> en_data e = -2 ->
              exists v, k_open (kern s) (tfd s) = Some v /\ vkind v = K_TIMERFD;
}.

(* case split on the transport of raw event j in a goal / hypothesis pair about dy_kern *)
Ltac dyk := unfold raw_is_pipe in *; sp;
  match goal with |- context [if negb (rw_wfd ?s ?j =? rw_rfd ?s ?j) then _ else _] =>
    destruct (negb (rw_wfd s j =? rw_rfd s j)) end.

(* ---------- tasks, events, accounting ---------- *)
Definition curl (s : core) : list Z := match cur s with Some c => c | None => [] end.

Record TaskInv (s : core) : Prop := {
  tk_range : forall k, In k (tasks s ++ curl s) -> 0 <= k <= 16;
  tk_nodup : NoDup (tasks s ++ curl s);
}.

Record EvInv (s : core) : Prop := {
  ev_range : forall j, ev_reg s j = true -> 0 <= j < 16;
  ev_lists : forall j, In j (ev_pending s ++ ev_batch s) -> ev_reg s j = true;
  ev_nodup : NoDup (ev_pending s ++ ev_batch s);
  ev_cnt : ev_count s = cntf (ev_reg s) (zseq 0 16);
  ev_kick : rw_reg s 16 = true <-> (use_raw s = true /\ 1 <= ev_count s);
  ev_ref : active_ref s = 1 <-> (use_raw s = false /\ 1 <= ev_count s);
  ev_poll : is_epoll s = false -> active_ref s = 0;
}.

Record Acct (s : core) : Prop := {
  ac_numfds : numfds s = cntf (fun k => registered (fdt s k)) (zseq 0 33);
  ac_numobjs : numobjs s = numfds s + HeapModel.num (heap s) + Z.of_nat (length (tasks s ++ curl s))
                           + ev_count s + active_ref s;
}.

Record Misc (s : core) : Prop := {
  ms_nobad : nobad (trace s);
  ms_method : 0 <= method s <= 3;
  ms_emfile : is_epoll s = true -> emfile (flt (kern s)) = false;
  ms_kinv : KInv (kern s);
}.

(* the invariant that holds wherever a handler script can run *)
Record InvW (s : core) : Prop := {
  iw_fd : FdInv (-1) s;
  iw_sync : forall k, sync_at s k;
  iw_dyn : DynInv s;
  iw_heap : HeapSpec.HeapInv (heap s);
  iw_task : TaskInv s;
  iw_ev : EvInv s;
  iw_acct : Acct s;
  iw_misc : Misc s;
}.

(* clauses that are suspended inside the loop phases *)
Record Quiet (s : core) : Prop := {
  q_batch : HeapModel.batch (heap s) = [];
  q_cur : cur s = None;
  q_evb : ev_batch s = [];
  q_active : active s = [];
}.

Definition Inv (s : core) : Prop := InvW s /\ Quiet s.

(* ---------- what a handler script can do to the loop's local data ---------- *)
Definition tcount (s : core) : nat :=
  length (filter (fun k => negb (mem_z k (curl s)) && negb (tepoch s k =? epoch s)) (zseq 0 17)).
Definition tmeasure (s : core) : nat := (length (curl s) + tcount s)%nat.

Record Fr (s s' : core) : Prop := {
  fr_nwait : nwait (kern s') = nwait (kern s);
  fr_batch : (length (HeapModel.batch (heap s')) <= length (HeapModel.batch (heap s)))%nat;
  fr_evb : (length (ev_batch s') <= length (ev_batch s))%nat;
  fr_act : (length (active s') <= length (active s))%nat;
  fr_epoch : epoch s' = epoch s;
  fr_tm : (tmeasure s' <= tmeasure s)%nat;
  fr_cur : cur s = None -> cur s' = None;
  fr_handled : handled s' = handled s \/ handled s' = None;
}.

Definition StepW (s s' : core) : Prop := InvW s' /\ Fr s s'.
