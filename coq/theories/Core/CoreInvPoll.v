(* CoreInvPoll.v -- the poll back ends (iv_fd_poll_notify_fd) preserve FdInv. *)
From Coq Require Import List ZArith Bool Lia.
From Ivv Require Import Core.Kernel Core.CoreTypes Core.CoreFd Core.CoreModel
  Core.CoreInvBase Core.CoreInvDefs Core.CoreInvFd.
Import ListNotations.
Local Open Scope Z_scope.

Lemma FdInv_rebuild_poll : forall x s s',
  FdInv x s -> is_epoll s = false ->
  (forall k, registered (fdt s' k) = registered (fdt s k) /\ fdnum (fdt s' k) = fdnum (fdt s k) /\
             regb (fdt s' k) = regb (fdt s k)) ->
  active s' = active s -> handled s' = handled s -> notify s' = notify s ->
  method s' = method s -> kern s' = kern s ->
  active_fd s' = active_fd s -> active_ref s' = active_ref s -> tfd s' = tfd s ->
  length (pfds s') = length (pkeys s') ->
  (forall n k, nth_error (pkeys s') n = Some k ->
     live s x k /\ pidx (fdt s' k) = Z.of_nat n /\ exists ev, nth_error (pfds s') n = Some (fdnum (fdt s k), ev)) ->
  (forall k, live s x k ->
     pidx (fdt s' k) = -1 \/ (0 <= pidx (fdt s' k) /\ nth_error (pkeys s') (Z.to_nat (pidx (fdt s' k))) = Some k)) ->
  FdInv x s'.
Proof.
  intros x s s' I E F Ea Eh En Em Ek Eaf Ear Et H1 H2 H3.
  assert (L : forall k, live s' x k <-> live s x k).
  { intros k. unfold live. destruct (F k) as (->&_). tauto. }
  assert (Fn : forall k, fdnum (fdt s' k) = fdnum (fdt s k)) by (intros k; apply (F k)).
  assert (Fr : forall k, regb (fdt s' k) = regb (fdt s k)) by (intros k; apply (F k)).
  assert (Ee : is_epoll s' = false) by (unfold is_epoll in *; rewrite Em; assumption).
  constructor; try assumption.
  - intros k. destruct (F k) as (->&_). apply (fv_range _ _ I).
  - intros k H. rewrite Fn. apply (fv_user _ _ I); assumption.
  - intros k A B. rewrite Fn. apply L in B. apply (fv_dyn _ _ I); assumption.
  - intros k A. rewrite Fn, Ek. apply L in A. apply (fv_open _ _ I); assumption.
  - intros k1 k2 A B. rewrite !Fn. apply L in A. apply L in B. apply (fv_inj _ _ I); assumption.
  - intros k A. rewrite Ea in A. apply L. apply (fv_active _ _ I); assumption.
  - intros k A. rewrite Eh in A. apply L. apply (fv_handled _ _ I); assumption.
  - intros k A. rewrite En in A. apply L. apply (fv_notify _ _ I); assumption.
  - intros _. rewrite En, Ek. apply (fv_poll_excl _ _ I). assumption.
  - congruence.
  - rewrite Ek. intros e H. destruct (fv_poll_excl _ _ I E) as [_ Q]. rewrite Q in H. contradiction.
  - congruence.
  - congruence.
  - rewrite Ek. apply (fv_nodup _ _ I).
  - rewrite Ek. apply (fv_ealloc _ _ I).
  - rewrite Ear. apply (fv_ref _ _ I).
  - rewrite Ear, Ek, Eaf. apply (fv_kick _ _ I).
  - intros n k A. destruct (H2 n k A) as (B&C&D). rewrite Fn, L. tauto.
  - intros _ k A. apply L in A. apply H3. assumption.
Qed.

Lemma pkeys_pos_inj : forall x s n m k, FdInv x s ->
  nth_error (pkeys s) n = Some k -> nth_error (pkeys s) m = Some k -> n = m.
Proof.
  intros x s n m k I A B. destruct (fv_pkey _ _ I n k A) as (_&P&_). destruct (fv_pkey _ _ I m k B) as (_&Q&_). lia.
Qed.

Lemma pkeys_nodup : forall x s, FdInv x s -> NoDup (pkeys s).
Proof.
  intros x s I. apply NoDup_nth_error. intros i j H E.
  destruct (nth_error_ex _ _ _ H) as (k & A). rewrite A in E. symmetry in E.
  eapply pkeys_pos_inj; eassumption.
Qed.

Lemma pkeys_len : forall x s, FdInv x s -> (length (pkeys s) <= 33)%nat.
Proof.
  intros x s I. apply NoDup_range_length; [eapply pkeys_nodup; eassumption|].
  intros k H. apply In_nth_error in H. destruct H as (n & H).
  destruct (fv_pkey _ _ I n k H) as ((A&_)&_). lia.
Qed.

Lemma pidx_pos : forall x s k, FdInv x s -> is_epoll s = false -> live s x k -> pidx (fdt s k) <> -1 ->
  0 <= pidx (fdt s k) /\ nth_error (pkeys s) (Z.to_nat (pidx (fdt s k))) = Some k /\
  (Z.to_nat (pidx (fdt s k)) < length (pkeys s))%nat.
Proof.
  intros x s k I E L N. destruct (fv_pidx _ _ I E k L) as [A|[A B]]; [contradiction|].
  split; [assumption|]. split; [assumption|]. eapply nth_error_lt; eassumption.
Qed.

Lemma pidx_none_notin : forall x s k, FdInv x s -> pidx (fdt s k) = -1 -> ~ In k (pkeys s).
Proof.
  intros x s k I P H. apply In_nth_error in H. destruct H as (n & H).
  destruct (fv_pkey _ _ I n k H) as (_&Q&_). lia.
Qed.

Record keepP (s s' : core) : Prop := {
  kp_active : active s' = active s; kp_handled : handled s' = handled s;
  kp_numfds : numfds s' = numfds s; kp_numobjs : numobjs s' = numobjs s;
  kp_notify : notify s' = notify s; kp_kern : kern s' = kern s;
}.

Definition PollPost (x k : Z) (s s' : core) : Prop :=
  FdInv x s' /\ FdStep k s s' /\ keepP s s' /\
  (forall k0, exists i, fdt s' k0 = fd_with_pidx (fdt s k0) i) /\
  (pidx (fdt s' k) <> -1 <-> wanted (fdt s k) <> 0) /\
  (forall p, nth_error (pfds s') (Z.to_nat (pidx (fdt s' k))) = Some p -> pidx (fdt s' k) <> -1 ->
             snd p = poll_mask (wanted (fdt s k))).

Lemma FdStep_poll : forall k s s', kern s' = kern s ->
  (forall k0, exists i, fdt s' k0 = fd_with_pidx (fdt s k0) i) -> restsame s s' ->
  (forall k0, k0 <> k -> sync_at s k0 -> sync_at s' k0) -> FdStep k s s'.
Proof.
  intros k s s' K F R S. constructor; try assumption.
  - rewrite K. apply kctl_refl.
  - rewrite K. tauto.
  - intros k0. destruct (F k0) as (i & ->). repeat split.
  - intros k0 _. destruct (F k0) as (i & ->). reflexivity.
Qed.

Lemma sync_poll_transfer : forall s s' k0 i, is_epoll s = false -> restsame s s' ->
  fdt s' k0 = fd_with_pidx (fdt s k0) i ->
  (registered (fdt s k0) = true ->
   (i <> -1 <-> pidx (fdt s k0) <> -1) /\
   (pidx (fdt s k0) <> -1 ->
    nth_error (pfds s') (Z.to_nat i) = nth_error (pfds s) (Z.to_nat (pidx (fdt s k0))))) ->
  sync_at s k0 -> sync_at s' k0.
Proof.
  unfold sync_at. intros s s' k0 i E R F PN S. rewrite (restsame_epoll _ _ R), E, F.
  cbn [fd_with_pidx registered wanted pidx regb bands_of h_in h_out h_err].
  intros RG. destruct (PN RG) as [P N]. destruct (S RG) as (A & _ & C). split; [exact A|]. split; [discriminate|].
  intros _. destruct (C E) as (C1 & C2). split; [rewrite P; exact C1|].
  intros p Hp Hi. apply C2; [|apply P; assumption]. rewrite <- N; [assumption|]. apply P. assumption.
Qed.

(* branch A: a new slot is appended *)
Lemma poll_notify_A : forall x s k, FdInv x s -> is_epoll s = false -> live s x k ->
  pidx (fdt s k) = -1 -> wanted (fdt s k) <> 0 ->
  let f := fdt s k in let n := Z.of_nat (length (pfds s)) in
  let s1 := putfd s k (fd_with_pidx f n) in
  PollPost x k s (set_poll s1 (pfds s1 ++ [(fdnum f, poll_mask (wanted f))]) (pkeys s1 ++ [k])).
Proof.
  intros x s k I E L P W f n s1. subst f s1. sp.
  assert (LEN : length (pfds s) = length (pkeys s)) by apply (fv_plen _ _ I).
  assert (NK : ~ In k (pkeys s)) by (eapply pidx_none_notin; eassumption).
  assert (FD : forall k0, exists i, upd (fdt s) k (fd_with_pidx (fdt s k) n) k0 = fd_with_pidx (fdt s k0) i).
  { intros k0. unfold upd. destruct (Z.eqb_spec k0 k) as [->|N]; [exists n; reflexivity|].
    exists (pidx (fdt s k0)). destruct (fdt s k0); reflexivity. }
  assert (RS : forall a b, restsame s (set_poll (set_fdt s a) b (pkeys s ++ [k]))) by (intros; constructor; reflexivity).
  unfold PollPost. sp. split; [|split; [|split; [constructor; reflexivity|split; [exact FD|]]]].
  - eapply FdInv_rebuild_poll with (s := s); try eassumption; try reflexivity; sp.
    + intros k0. unfold upd. destruct (Z.eqb_spec k0 k) as [->|N]; repeat split.
    + rewrite !app_length. cbn [length]. lia.
    + intros m k0 H. rewrite nth_error_snoc in H. rewrite nth_error_snoc. rewrite LEN.
      destruct (Nat.ltb_spec m (length (pkeys s))) as [Lt|Ge].
      * destruct (fv_pkey _ _ I m k0 H) as (A&B&C). split; [assumption|].
        assert (k0 <> k) by (intro; subst; apply NK; eapply nth_error_In; eassumption).
        rewrite upd_other by assumption. tauto.
      * destruct (Nat.eqb_spec m (length (pkeys s))) as [->|N]; [|discriminate]. injection H as <-.
        rewrite upd_same. cbn [fd_with_pidx pidx]. split; [assumption|]. split; [subst n; lia|eauto].
    + intros k0 L0. unfold upd. destruct (Z.eqb_spec k0 k) as [->|N].
      * right. cbn [fd_with_pidx pidx]. subst n. split; [lia|]. rewrite Nat2Z.id, nth_error_snoc, LEN.
        rewrite Nat.ltb_irrefl, Nat.eqb_refl. reflexivity.
      * destruct (fv_pidx _ _ I E k0 L0) as [A|[A B]]; [left; assumption|right]. split; [assumption|].
        rewrite nth_error_snoc. pose proof (nth_error_lt _ _ _ _ B) as Lt.
        apply Nat.ltb_lt in Lt. rewrite Lt. assumption.
  - apply FdStep_poll; sp; [reflexivity|exact FD|apply RS|].
    intros k0 N S. apply (sync_poll_transfer s _ k0 (pidx (fdt s k0))); sp; try assumption.
    + apply RS.
    + rewrite upd_other by assumption. destruct (fdt s k0); reflexivity.
    + intros RG. split; [tauto|]. intros Q.
      assert (L0 : live s x k0) by (split; [apply (fv_range _ _ I); assumption|left; assumption]).
      destruct (pidx_pos _ _ _ I E L0 Q) as (_ & _ & Lt). rewrite <- LEN in Lt.
      rewrite nth_error_snoc. apply Nat.ltb_lt in Lt. rewrite Lt. reflexivity.
  - rewrite upd_same. cbn [fd_with_pidx pidx]. split.
    + split; [intros _; assumption|intros _; subst n; lia].
    + intros p Hp _. subst n. rewrite Nat2Z.id, nth_error_snoc in Hp. rewrite Nat.ltb_irrefl, Nat.eqb_refl in Hp.
      injection Hp as <-. reflexivity.
Qed.
