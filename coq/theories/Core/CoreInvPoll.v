(* CoreInvPoll.v -- the poll back ends (iv_fd_poll_notify_fd) preserve FdInv. *)
From Coq Require Import List ZArith Bool Lia.
From Ivv Require Import Core.Kernel Core.CoreTypes Core.CoreFd Core.CoreModel
  Core.CoreInvBase Core.CoreInvDefs Core.CoreInvFd.
Import ListNotations.
Local Open Scope Z_scope.

Lemma FdInv_rebuild_poll : forall x s s',
  FdInv x s -> is_epoll s = false ->
  (forall k, registered (fdt s' k) = registered (fdt s k) /\ fdnum (fdt s' k) = fdnum (fdt s k) /\
             regb (fdt s' k) = regb (fdt s k)) ->
  active s' = active s -> handled s' = handled s -> notify s' = notify s ->
  method s' = method s -> kern s' = kern s ->
  active_fd s' = active_fd s -> active_ref s' = active_ref s -> tfd s' = tfd s ->
  length (pfds s') = length (pkeys s') ->
  (forall n k, nth_error (pkeys s') n = Some k ->
     live s x k /\ pidx (fdt s' k) = Z.of_nat n /\ exists ev, nth_error (pfds s') n = Some (fdnum (fdt s k), ev)) ->
  (forall k, live s x k ->
     pidx (fdt s' k) = -1 \/ (0 <= pidx (fdt s' k) /\ nth_error (pkeys s') (Z.to_nat (pidx (fdt s' k))) = Some k)) ->
  FdInv x s'.
Proof.
  intros x s s' I E F Ea Eh En Em Ek Eaf Ear Et H1 H2 H3.
  assert (L : forall k, live s' x k <-> live s x k).
  { intros k. unfold live. destruct (F k) as (->&_). tauto. }
  assert (Fn : forall k, fdnum (fdt s' k) = fdnum (fdt s k)) by (intros k; apply (F k)).
  assert (Fr : forall k, regb (fdt s' k) = regb (fdt s k)) by (intros k; apply (F k)).
  assert (Ee : is_epoll s' = false) by (unfold is_epoll in *; rewrite Em; assumption).
  constructor; try assumption.
  - intros k. destruct (F k) as (->&_). apply (fv_range _ _ I).
  - intros k H. rewrite Fn. apply (fv_user _ _ I); assumption.
  - intros k A B. rewrite Fn. apply L in B. apply (fv_dyn _ _ I); assumption.
  - intros k A. rewrite Fn, Ek. apply L in A. apply (fv_open _ _ I); assumption.
  - intros k1 k2 A B. rewrite !Fn. apply L in A. apply L in B. apply (fv_inj _ _ I); assumption.
  - intros k A. rewrite Ea in A. apply L. apply (fv_active _ _ I); assumption.
  - intros k A. rewrite Eh in A. apply L. apply (fv_handled _ _ I); assumption.
  - intros k A. rewrite En in A. apply L. apply (fv_notify _ _ I); assumption.
  - intros _. rewrite En, Ek. apply (fv_poll_excl _ _ I). assumption.
  - congruence.
  - rewrite Ek. intros e H. destruct (fv_poll_excl _ _ I E) as [_ Q]. rewrite Q in H. contradiction.
  - congruence.
  - congruence.
  - rewrite Ek. apply (fv_nodup _ _ I).
  - rewrite Ek. apply (fv_ealloc _ _ I).
  - rewrite Ear. apply (fv_ref _ _ I).
  - rewrite Ear, Ek, Eaf. apply (fv_kick _ _ I).
  - intros n k A. destruct (H2 n k A) as (B&C&D). rewrite Fn, L. tauto.
  - intros _ k A. apply L in A. apply H3. assumption.
Qed.

Lemma pkeys_pos_inj : forall x s n m k, FdInv x s ->
  nth_error (pkeys s) n = Some k -> nth_error (pkeys s) m = Some k -> n = m.
Proof.
  intros x s n m k I A B. destruct (fv_pkey _ _ I n k A) as (_&P&_). destruct (fv_pkey _ _ I m k B) as (_&Q&_). lia.
Qed.

Lemma pkeys_nodup : forall x s, FdInv x s -> NoDup (pkeys s).
Proof.
  intros x s I. apply NoDup_nth_error. intros i j H E.
  destruct (nth_error_ex _ _ _ H) as (k & A). rewrite A in E. symmetry in E.
  eapply pkeys_pos_inj; eassumption.
Qed.

Lemma pkeys_len : forall x s, FdInv x s -> (length (pkeys s) <= 33)%nat.
Proof.
  intros x s I. apply NoDup_range_length; [eapply pkeys_nodup; eassumption|].
  intros k H. apply In_nth_error in H. destruct H as (n & H).
  destruct (fv_pkey _ _ I n k H) as ((A&_)&_). lia.
Qed.

Lemma pidx_pos : forall x s k, FdInv x s -> is_epoll s = false -> live s x k -> pidx (fdt s k) <> -1 ->
  0 <= pidx (fdt s k) /\ nth_error (pkeys s) (Z.to_nat (pidx (fdt s k))) = Some k /\
  (Z.to_nat (pidx (fdt s k)) < length (pkeys s))%nat.
Proof.
  intros x s k I E L N. destruct (fv_pidx _ _ I E k L) as [A|[A B]]; [contradiction|].
  split; [assumption|]. split; [assumption|]. eapply nth_error_lt; eassumption.
Qed.

Lemma pidx_none_notin : forall x s k, FdInv x s -> pidx (fdt s k) = -1 -> ~ In k (pkeys s).
Proof.
  intros x s k I P H. apply In_nth_error in H. destruct H as (n & H).
  destruct (fv_pkey _ _ I n k H) as (_&Q&_). lia.
Qed.

Record keepP (s s' : core) : Prop := {
  kp_active : active s' = active s; kp_handled : handled s' = handled s;
  kp_numfds : numfds s' = numfds s; kp_numobjs : numobjs s' = numobjs s;
  kp_notify : notify s' = notify s; kp_kern : kern s' = kern s;
}.

Definition PollPost (x k : Z) (s s' : core) : Prop :=
  FdInv x s' /\ FdStep k s s' /\ keepP s s' /\
  (forall k0, exists i, fdt s' k0 = fd_with_pidx (fdt s k0) i) /\
  (pidx (fdt s' k) <> -1 <-> wanted (fdt s k) <> 0) /\
  (forall p, nth_error (pfds s') (Z.to_nat (pidx (fdt s' k))) = Some p -> pidx (fdt s' k) <> -1 ->
             snd p = poll_mask (wanted (fdt s k))).

Lemma FdStep_poll : forall k s s', kern s' = kern s ->
  (forall k0, exists i, fdt s' k0 = fd_with_pidx (fdt s k0) i) -> restsame s s' ->
  (forall k0, k0 <> k -> sync_at s k0 -> sync_at s' k0) -> FdStep k s s'.
Proof.
  intros k s s' K F R S. constructor; try assumption.
  - rewrite K. apply kctl_refl.
  - rewrite K. tauto.
  - intros k0. destruct (F k0) as (i & ->). repeat split.
  - intros k0 _. destruct (F k0) as (i & ->). reflexivity.
Qed.

Lemma sync_poll_transfer : forall s s' k0 i, is_epoll s = false -> restsame s s' ->
  fdt s' k0 = fd_with_pidx (fdt s k0) i ->
  (registered (fdt s k0) = true ->
   (i <> -1 <-> pidx (fdt s k0) <> -1) /\
   (pidx (fdt s k0) <> -1 ->
    nth_error (pfds s') (Z.to_nat i) = nth_error (pfds s) (Z.to_nat (pidx (fdt s k0))))) ->
  sync_at s k0 -> sync_at s' k0.
Proof.
  unfold sync_at. intros s s' k0 i E R F PN S. rewrite (restsame_epoll _ _ R), E, F.
  cbn [fd_with_pidx registered wanted pidx regb bands_of h_in h_out h_err].
  intros RG. destruct (PN RG) as [P N]. destruct (S RG) as (A & _ & C). split; [exact A|]. split; [discriminate|].
  intros _. destruct (C E) as (C1 & C2). split; [rewrite P; exact C1|].
  intros p Hp Hi. apply C2; [|apply P; assumption]. rewrite <- N; [assumption|]. apply P. assumption.
Qed.

(* branch A: a new slot is appended *)
Lemma poll_notify_A : forall x s k, FdInv x s -> is_epoll s = false -> live s x k ->
  pidx (fdt s k) = -1 -> wanted (fdt s k) <> 0 ->
  let f := fdt s k in let n := Z.of_nat (length (pfds s)) in
  let s1 := putfd s k (fd_with_pidx f n) in
  PollPost x k s (set_poll s1 (pfds s1 ++ [(fdnum f, poll_mask (wanted f))]) (pkeys s1 ++ [k])).
Proof.
  intros x s k I E L P W f n s1. subst f s1. sp.
  assert (LEN : length (pfds s) = length (pkeys s)) by apply (fv_plen _ _ I).
  assert (NK : ~ In k (pkeys s)) by (eapply pidx_none_notin; eassumption).
  assert (FD : forall k0, exists i, upd (fdt s) k (fd_with_pidx (fdt s k) n) k0 = fd_with_pidx (fdt s k0) i).
  { intros k0. unfold upd. destruct (Z.eqb_spec k0 k) as [->|N]; [exists n; reflexivity|].
    exists (pidx (fdt s k0)). destruct (fdt s k0); reflexivity. }
  assert (RS : forall a b, restsame s (set_poll (set_fdt s a) b (pkeys s ++ [k]))) by (intros; constructor; reflexivity).
  unfold PollPost. sp. split; [|split; [|split; [constructor; reflexivity|split; [exact FD|]]]].
  - eapply FdInv_rebuild_poll with (s := s); try eassumption; try reflexivity; sp.
    + intros k0. unfold upd. destruct (Z.eqb_spec k0 k) as [->|N]; repeat split.
    + rewrite !app_length. cbn [length]. lia.
    + intros m k0 H. rewrite nth_error_snoc in H. rewrite nth_error_snoc. rewrite LEN.
      destruct (Nat.ltb_spec m (length (pkeys s))) as [Lt|Ge].
      * destruct (fv_pkey _ _ I m k0 H) as (A&B&C). split; [assumption|].
        assert (k0 <> k) by (intro; subst; apply NK; eapply nth_error_In; eassumption).
        rewrite upd_other by assumption. tauto.
      * destruct (Nat.eqb_spec m (length (pkeys s))) as [->|N]; [|discriminate]. injection H as <-.
        rewrite upd_same. cbn [fd_with_pidx pidx]. split; [assumption|]. split; [subst n; lia|eauto].
    + intros k0 L0. unfold upd. destruct (Z.eqb_spec k0 k) as [->|N].
      * right. cbn [fd_with_pidx pidx]. subst n. split; [lia|]. rewrite Nat2Z.id, nth_error_snoc, LEN.
        rewrite Nat.ltb_irrefl, Nat.eqb_refl. reflexivity.
      * destruct (fv_pidx _ _ I E k0 L0) as [A|[A B]]; [left; assumption|right]. split; [assumption|].
        rewrite nth_error_snoc. pose proof (nth_error_lt _ _ _ _ B) as Lt.
        apply Nat.ltb_lt in Lt. rewrite Lt. assumption.
  - apply FdStep_poll; sp; [reflexivity|exact FD|apply RS|].
    intros k0 N S. apply (sync_poll_transfer s _ k0 (pidx (fdt s k0))); sp; try assumption.
    + apply RS.
    + rewrite upd_other by assumption. destruct (fdt s k0); reflexivity.
    + intros RG. split; [tauto|]. intros Q.
      assert (L0 : live s x k0) by (split; [apply (fv_range _ _ I); assumption|left; assumption]).
      destruct (pidx_pos _ _ _ I E L0 Q) as (_ & _ & Lt). rewrite <- LEN in Lt.
      rewrite nth_error_snoc. apply Nat.ltb_lt in Lt. rewrite Lt. reflexivity.
  - rewrite upd_same. cbn [fd_with_pidx pidx]. split.
    + split; [intros _; assumption|intros _; subst n; lia].
    + intros p Hp _. subst n. rewrite Nat2Z.id, nth_error_snoc in Hp. rewrite Nat.ltb_irrefl, Nat.eqb_refl in Hp.
      injection Hp as <-. reflexivity.
Qed.

Lemma fd_with_pidx_id : forall f, fd_with_pidx f (pidx f) = f.
Proof. intros []; reflexivity. Qed.

(* branch D: nothing to do *)
Lemma poll_notify_D : forall x s k, FdInv x s -> is_epoll s = false ->
  pidx (fdt s k) = -1 -> wanted (fdt s k) = 0 -> PollPost x k s s.
Proof.
  intros x s k I E P W. unfold PollPost. split; [assumption|]. split; [apply FdStep_refl|].
  split; [constructor; reflexivity|]. split; [intros k0; exists (pidx (fdt s k0)); symmetry; apply fd_with_pidx_id|].
  split; [tauto|]. intros p _ H. contradiction.
Qed.

(* branch C: the events of an existing slot are rewritten *)
Lemma poll_notify_C : forall x s k p, FdInv x s -> is_epoll s = false -> live s x k ->
  pidx (fdt s k) <> -1 -> wanted (fdt s k) <> 0 ->
  nth_z (pfds s) (pidx (fdt s k)) = Some p ->
  PollPost x k s (set_poll s (set_nth (pfds s) (Z.to_nat (pidx (fdt s k))) (fst p, poll_mask (wanted (fdt s k)))) (pkeys s)).
Proof.
  intros x s k p I E L P W NP.
  destruct (pidx_pos _ _ _ I E L P) as (P0 & PK & Lt).
  assert (LEN : length (pfds s) = length (pkeys s)) by apply (fv_plen _ _ I).
  rewrite nth_z_nat in NP by assumption.
  set (i := Z.to_nat (pidx (fdt s k))) in *.
  assert (FD : forall k0, exists j, fdt s k0 = fd_with_pidx (fdt s k0) j).
  { intros k0; exists (pidx (fdt s k0)); symmetry; apply fd_with_pidx_id. }
  assert (RS : forall a, restsame s (set_poll s a (pkeys s))) by (intros; constructor; reflexivity).
  destruct (fv_pkey _ _ I i k PK) as (_ & _ & ev & PF). rewrite PF in NP. injection NP as <-. cbn [fst].
  unfold PollPost. sp. split; [|split; [|split; [constructor; reflexivity|split; [exact FD|]]]].
  - eapply FdInv_rebuild_poll with (s := s); try eassumption; try reflexivity; sp.
    + intros; repeat split.
    + rewrite set_nth_length. assumption.
    + intros m k0 H. destruct (fv_pkey _ _ I m k0 H) as (A&B&ev0&C). split; [assumption|]. split; [assumption|].
      rewrite nth_error_set_nth. destruct (Nat.eqb_spec m i) as [->|N]; cbn [andb]; [|eauto].
      rewrite LEN. apply Nat.ltb_lt in Lt. rewrite Lt.
      assert (k0 = k) by congruence. subst k0. eauto.
    + intros k0 L0. apply (fv_pidx _ _ I E k0 L0).
  - apply FdStep_poll; sp; [reflexivity|exact FD|apply RS|].
    intros k0 N S. apply (sync_poll_transfer s _ k0 (pidx (fdt s k0))); sp; try assumption.
    + apply RS.
    + symmetry; apply fd_with_pidx_id.
    + intros RG. split; [tauto|]. intros Q.
      assert (L0 : live s x k0) by (split; [apply (fv_range _ _ I); assumption|left; assumption]).
      destruct (pidx_pos _ _ _ I E L0 Q) as (_ & PK0 & _).
      rewrite nth_error_set_nth. destruct (Nat.eqb_spec (Z.to_nat (pidx (fdt s k0))) i) as [Q'|Q']; [|reflexivity].
      exfalso. apply N. rewrite Q' in PK0. congruence.
  - split; [tauto|]. intros q Hq _. fold i in Hq. rewrite nth_error_set_nth, Nat.eqb_refl, LEN in Hq.
    apply Nat.ltb_lt in Lt. rewrite Lt in Hq. injection Hq as <-. reflexivity.
Qed.

(* branch B: the slot is removed, the last slot takes its place *)
Definition poll_remove (s : core) (k : Z) : core :=
  let f := getfd s k in
  let n := Z.of_nat (length (pfds s)) in
  let last := n - 1 in
  let s1 :=
      if negb (pidx f =? last) then
        match nth_z (pfds s) last, nth_z (pkeys s) last with
        | Some pl, Some kl =>
            let s' := set_poll s (set_nth (pfds s) (Z.to_nat (pidx f)) pl)
                                 (set_nth (pkeys s) (Z.to_nat (pidx f)) kl) in
            putfd s' kl (fd_with_pidx (getfd s' kl) (pidx f))
        | _, _ => s
        end
      else s in
  let s2 := set_poll s1 (firstn (Z.to_nat last) (pfds s1)) (firstn (Z.to_nat last) (pkeys s1)) in
  putfd s2 k (fd_with_pidx (getfd s2 k) (-1)).

Lemma poll_remove_last : forall s k, pidx (fdt s k) = Z.of_nat (length (pfds s)) - 1 ->
  let m := Z.to_nat (Z.of_nat (length (pfds s)) - 1) in
  poll_remove s k = putfd (set_poll s (firstn m (pfds s)) (firstn m (pkeys s))) k (fd_with_pidx (fdt s k) (-1)).
Proof.
  intros s k H m. unfold poll_remove, getfd. cbv zeta.
  replace (pidx (fdt s k) =? Z.of_nat (length (pfds s)) - 1) with true by (symmetry; apply Z.eqb_eq; assumption).
  reflexivity.
Qed.

Lemma poll_notify_B1 : forall x s k, FdInv x s -> is_epoll s = false -> live s x k ->
  pidx (fdt s k) = Z.of_nat (length (pfds s)) - 1 -> wanted (fdt s k) = 0 -> pidx (fdt s k) <> -1 ->
  PollPost x k s (poll_remove s k).
Proof.
  intros x s k I E L PL W P.
  destruct (pidx_pos _ _ _ I E L P) as (P0 & PK & Lt).
  assert (LEN : length (pfds s) = length (pkeys s)) by apply (fv_plen _ _ I).
  rewrite (poll_remove_last s k PL). cbv zeta.
  set (m := Z.to_nat (Z.of_nat (length (pfds s)) - 1)).
  assert (Mi : m = Z.to_nat (pidx (fdt s k))) by (subst m; rewrite PL; reflexivity).
  assert (Ml : S m = length (pkeys s)) by (subst m; lia).
  assert (FD : forall k0, exists j, upd (fdt s) k (fd_with_pidx (fdt s k) (-1)) k0 = fd_with_pidx (fdt s k0) j).
  { intros k0. unfold upd. destruct (Z.eqb_spec k0 k) as [->|N]; [exists (-1); reflexivity|].
    exists (pidx (fdt s k0)). symmetry. apply fd_with_pidx_id. }
  assert (RS : forall a b c, restsame s (set_fdt (set_poll s a b) c)) by (intros; constructor; reflexivity).
  assert (OTH : forall k0, live s x k0 -> k0 <> k -> pidx (fdt s k0) <> -1 ->
                (Z.to_nat (pidx (fdt s k0)) < m)%nat).
  { intros k0 L0 N Q. destruct (pidx_pos _ _ _ I E L0 Q) as (_ & PK0 & Lt0).
    assert (Z.to_nat (pidx (fdt s k0)) <> m) by (intro Q'; rewrite Mi in Q'; rewrite Q' in PK0; congruence). lia. }
  unfold PollPost. sp. split; [|split; [|split; [constructor; reflexivity|split; [exact FD|]]]].
  - eapply FdInv_rebuild_poll with (s := s); try eassumption; try reflexivity; sp.
    + intros k0. unfold upd. destruct (Z.eqb_spec k0 k) as [->|N]; repeat split.
    + rewrite !firstn_length. lia.
    + intros j k0 H. rewrite nth_error_firstn in H. rewrite nth_error_firstn.
      destruct (Nat.ltb_spec j m) as [Lj|Gj]; [|discriminate].
      destruct (fv_pkey _ _ I j k0 H) as (A&B&C). split; [assumption|].
      assert (k0 <> k) by (intro; subst k0; assert (j = Z.to_nat (pidx (fdt s k))) by (eapply pkeys_pos_inj; eassumption); lia).
      rewrite upd_other by assumption. tauto.
    + intros k0 L0. unfold upd. destruct (Z.eqb_spec k0 k) as [->|N]; [left; reflexivity|].
      destruct (fv_pidx _ _ I E k0 L0) as [A|[A B]]; [left; assumption|right]. split; [assumption|].
      rewrite nth_error_firstn. assert (Q : pidx (fdt s k0) <> -1) by lia.
      pose proof (OTH k0 L0 N Q) as Lt0. apply Nat.ltb_lt in Lt0. rewrite Lt0. assumption.
  - apply FdStep_poll; sp; [reflexivity|exact FD|apply RS|].
    intros k0 N S. apply (sync_poll_transfer s _ k0 (pidx (fdt s k0))); sp; try assumption.
    + apply RS.
    + rewrite upd_other by assumption. symmetry; apply fd_with_pidx_id.
    + intros RG. split; [tauto|]. intros Q.
      assert (L0 : live s x k0) by (split; [apply (fv_range _ _ I); assumption|left; assumption]).
      pose proof (OTH k0 L0 N Q) as Lt0. rewrite nth_error_firstn. apply Nat.ltb_lt in Lt0. rewrite Lt0. reflexivity.
  - rewrite upd_same. cbn [fd_with_pidx pidx]. split; [split; intros H; exfalso; auto|].
    intros p _ H. exfalso; auto.
Qed.

Lemma poll_remove_swap : forall s k pl kl, pidx (fdt s k) <> Z.of_nat (length (pfds s)) - 1 ->
  nth_z (pfds s) (Z.of_nat (length (pfds s)) - 1) = Some pl ->
  nth_z (pkeys s) (Z.of_nat (length (pfds s)) - 1) = Some kl -> kl <> k ->
  let m := Z.to_nat (Z.of_nat (length (pfds s)) - 1) in
  let i := Z.to_nat (pidx (fdt s k)) in
  poll_remove s k =
  set_poll (set_fdt s (upd (upd (fdt s) kl (fd_with_pidx (fdt s kl) (pidx (fdt s k)))) k (fd_with_pidx (fdt s k) (-1))))
           (firstn m (set_nth (pfds s) i pl)) (firstn m (set_nth (pkeys s) i kl)).
Proof.
  intros s k pl kl H A B N m i. unfold poll_remove, getfd. cbv zeta.
  replace (pidx (fdt s k) =? Z.of_nat (length (pfds s)) - 1) with false by (symmetry; apply Z.eqb_neq; assumption).
  cbn [negb]. rewrite A, B. unfold putfd. sp. rewrite (upd_other _ _ kl _ k) by congruence. reflexivity.
Qed.

Lemma poll_notify_B2 : forall x s k, FdInv x s -> is_epoll s = false -> live s x k ->
  pidx (fdt s k) <> Z.of_nat (length (pfds s)) - 1 -> wanted (fdt s k) = 0 -> pidx (fdt s k) <> -1 ->
  PollPost x k s (poll_remove s k).
Proof.
  intros x s k I E L PL W P.
  destruct (pidx_pos _ _ _ I E L P) as (P0 & PK & Lt).
  assert (LEN : length (pfds s) = length (pkeys s)) by apply (fv_plen _ _ I).
  set (i := Z.to_nat (pidx (fdt s k))) in *.
  set (m := Z.to_nat (Z.of_nat (length (pfds s)) - 1)).
  assert (Ml : S m = length (pkeys s)) by (subst m; lia).
  assert (Lim : (i < m)%nat) by (subst i m; lia).
  destruct (nth_error_ex _ (pkeys s) m ltac:(lia)) as (kl & KL).
  destruct (fv_pkey _ _ I m kl KL) as (LL & PIL & evl & PFL).
  assert (NKL : kl <> k).
  { intro; subst kl. assert (m = i) by (eapply pkeys_pos_inj; eassumption). lia. }
  assert (ZM : Z.of_nat (length (pfds s)) - 1 = Z.of_nat m) by (subst m; lia).
  rewrite (poll_remove_swap s k (fdnum (fdt s kl), evl) kl PL); try assumption;
    [|rewrite nth_z_nat by lia; exact PFL|rewrite nth_z_nat by lia; exact KL].
  cbv zeta. fold i m. set (pl := (fdnum (fdt s kl), evl)) in *.
  set (g := upd (upd (fdt s) kl (fd_with_pidx (fdt s kl) (pidx (fdt s k)))) k (fd_with_pidx (fdt s k) (-1))).
  assert (Gk : g k = fd_with_pidx (fdt s k) (-1)) by (subst g; apply upd_same).
  assert (Gl : g kl = fd_with_pidx (fdt s kl) (pidx (fdt s k))).
  { subst g. rewrite upd_other by assumption. apply upd_same. }
  assert (Go : forall k0, k0 <> k -> k0 <> kl -> g k0 = fdt s k0).
  { intros k0 A B. subst g. rewrite !upd_other by assumption. reflexivity. }
  assert (FD : forall k0, exists j, g k0 = fd_with_pidx (fdt s k0) j).
  { intros k0. destruct (Z.eq_dec k0 k) as [->|N1]; [eexists; exact Gk|].
    destruct (Z.eq_dec k0 kl) as [->|N2]; [eexists; exact Gl|].
    exists (pidx (fdt s k0)). rewrite Go by assumption. symmetry. apply fd_with_pidx_id. }
  assert (RS : forall a b c, restsame s (set_poll (set_fdt s c) a b)) by (intros; constructor; reflexivity).
  assert (NK : forall j, nth_error (firstn m (set_nth (pkeys s) i kl)) j =
               if (j <? m)%nat then (if (j =? i)%nat then Some kl else nth_error (pkeys s) j) else None).
  { intros j. rewrite nth_error_firstn, nth_error_set_nth. apply Nat.ltb_lt in Lt. rewrite Lt, andb_true_r. reflexivity. }
  assert (NP : forall j, nth_error (firstn m (set_nth (pfds s) i pl)) j =
               if (j <? m)%nat then (if (j =? i)%nat then Some pl else nth_error (pfds s) j) else None).
  { intros j. rewrite nth_error_firstn, nth_error_set_nth. rewrite LEN. apply Nat.ltb_lt in Lt. rewrite Lt, andb_true_r. reflexivity. }
  assert (OTH : forall k0, live s x k0 -> k0 <> k -> k0 <> kl -> pidx (fdt s k0) <> -1 ->
                (Z.to_nat (pidx (fdt s k0)) < m)%nat /\ Z.to_nat (pidx (fdt s k0)) <> i).
  { intros k0 L0 N1 N2 Q. destruct (pidx_pos _ _ _ I E L0 Q) as (_ & PK0 & Lt0).
    assert (Z.to_nat (pidx (fdt s k0)) <> m) by (intro Q'; rewrite Q' in PK0; congruence).
    assert (Z.to_nat (pidx (fdt s k0)) <> i) by (intro Q'; rewrite Q' in PK0; congruence). lia. }
  unfold PollPost. sp. split; [|split; [|split; [constructor; reflexivity|split; [exact FD|]]]].
  - eapply FdInv_rebuild_poll with (s := s); try eassumption; try reflexivity; sp.
    + intros k0. destruct (FD k0) as (j & ->). repeat split.
    + rewrite !firstn_length, !set_nth_length. lia.
    + intros j k0 H. rewrite NK in H. rewrite NP.
      destruct (Nat.ltb_spec j m) as [Lj|Gj]; [|discriminate].
      destruct (Nat.eqb_spec j i) as [->|Nj].
      * injection H as <-. split; [assumption|]. rewrite Gl. cbn [fd_with_pidx pidx]. split; [subst i; lia|exists evl; reflexivity].
      * destruct (fv_pkey _ _ I j k0 H) as (A&B&C). split; [assumption|].
        assert (k0 <> k) by (intro; subst k0; apply Nj; eapply pkeys_pos_inj; eassumption).
        assert (k0 <> kl) by (intro; subst k0; assert (j = m) by (eapply pkeys_pos_inj; eassumption); lia).
        rewrite Go by assumption. tauto.
    + intros k0 L0. destruct (Z.eq_dec k0 k) as [->|N1]; [left; rewrite Gk; reflexivity|].
      destruct (Z.eq_dec k0 kl) as [->|N2].
      * right. rewrite Gl. cbn [fd_with_pidx pidx]. split; [assumption|]. fold i. rewrite NK.
        apply Nat.ltb_lt in Lim. rewrite Lim, Nat.eqb_refl. reflexivity.
      * rewrite Go by assumption. destruct (fv_pidx _ _ I E k0 L0) as [A|[A B]]; [left; assumption|right].
        split; [assumption|]. assert (Q : pidx (fdt s k0) <> -1) by lia.
        destruct (OTH k0 L0 N1 N2 Q) as [Lt0 Ni]. rewrite NK. apply Nat.ltb_lt in Lt0. rewrite Lt0.
        apply Nat.eqb_neq in Ni. rewrite Ni. assumption.
  - apply FdStep_poll; sp; [reflexivity|exact FD|apply RS|].
    intros k0 N S. destruct (Z.eq_dec k0 kl) as [->|N2].
    + apply (sync_poll_transfer s _ kl (pidx (fdt s k))); sp; try assumption; [apply RS|].
      intros RG. split; [split; intros _; lia|]. intros _. fold i. rewrite NP.
      apply Nat.ltb_lt in Lim. rewrite Lim, Nat.eqb_refl. rewrite PIL, Nat2Z.id. symmetry. exact PFL.
    + apply (sync_poll_transfer s _ k0 (pidx (fdt s k0))); sp; try assumption; [apply RS| |].
      * rewrite Go by assumption. symmetry. apply fd_with_pidx_id.
      * intros RG. split; [tauto|]. intros Q.
        assert (L0 : live s x k0) by (split; [apply (fv_range _ _ I); assumption|left; assumption]).
        destruct (OTH k0 L0 N N2 Q) as [Lt0 Ni]. rewrite NP. apply Nat.ltb_lt in Lt0. rewrite Lt0.
        apply Nat.eqb_neq in Ni. rewrite Ni. reflexivity.
  - rewrite Gk. cbn [fd_with_pidx pidx]. split; [split; intros H; exfalso; auto|].
    intros p _ H. exfalso; auto.
Qed.

Lemma poll_notify_unfold : forall s k,
  poll_notify_fd s k =
  let f := getfd s k in
  let n := Z.of_nat (length (pfds s)) in
  if (pidx f =? -1) && negb (wanted f =? 0) then
    if 65536 <=? n then halt s TCrash else
    let s1 := putfd s k (fd_with_pidx f n) in
    R (set_poll s1 (pfds s1 ++ [(fdnum f, poll_mask (wanted f))]) (pkeys s1 ++ [k]))
  else if negb (pidx f =? -1) && (wanted f =? 0) then
    if (pidx f <? 0) || (n - 1 <? pidx f) then halt s TCrash else R (poll_remove s k)
  else if negb (pidx f =? -1) then
    match nth_z (pfds s) (pidx f) with
    | Some p => R (set_poll s (set_nth (pfds s) (Z.to_nat (pidx f)) (fst p, poll_mask (wanted f))) (pkeys s))
    | None => halt s TCrash
    end
  else R s.
Proof. reflexivity. Qed.

Lemma poll_notify_ok : forall x s k, FdInv x s -> is_epoll s = false -> live s x k ->
  okr (PollPost x k s) (poll_notify_fd s k).
Proof.
  intros x s k I E L. rewrite poll_notify_unfold. unfold getfd. cbv zeta.
  assert (LEN : length (pfds s) = length (pkeys s)) by apply (fv_plen _ _ I).
  pose proof (pkeys_len _ _ I) as PL.
  destruct (Z.eqb_spec (pidx (fdt s k)) (-1)) as [P|P]; destruct (Z.eqb_spec (wanted (fdt s k)) 0) as [W|W];
    cbn [andb negb].
  - cbn [okr]. apply poll_notify_D; assumption.
  - destruct (Z.leb_spec 65536 (Z.of_nat (length (pfds s)))) as [H|H]; [lia|].
    cbn [okr]. apply poll_notify_A; assumption.
  - destruct (pidx_pos _ _ _ I E L P) as (P0 & PK & Lt).
    destruct (Z.ltb_spec (pidx (fdt s k)) 0) as [H|H]; [lia|].
    destruct (Z.ltb_spec (Z.of_nat (length (pfds s)) - 1) (pidx (fdt s k))) as [H'|H']; [lia|].
    cbn [orb okr]. destruct (Z.eq_dec (pidx (fdt s k)) (Z.of_nat (length (pfds s)) - 1)).
    + apply poll_notify_B1; assumption.
    + apply poll_notify_B2; assumption.
  - destruct (pidx_pos _ _ _ I E L P) as (P0 & PK & Lt).
    destruct (fv_pkey _ _ I _ _ PK) as (_ & _ & ev & PF).
    rewrite nth_z_nat by assumption. rewrite PF. cbn [okr]. apply (poll_notify_C x s k (fdnum (fdt s k), ev)); try assumption.
    rewrite nth_z_nat by assumption. assumption.
Qed.
