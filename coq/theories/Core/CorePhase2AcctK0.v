(* CorePhase2AcctK0.v -- code 711, part: under the epoll-timerfd method the timer descriptor is
   armed only while last_abs_count = 5 (K0); reading it disarms it.  Companion of CorePhase2K1. *)
From Coq Require Import List ZArith Bool Lia.
From Ivv Require Import Core.Kernel Core.CoreTypes Core.CoreFd Core.CoreModel Core.CoreSpec
  Core.CoreInvBase Core.CoreInvDefs Core.CoreInvFd Core.CoreInvPoll Core.CoreInvReg Core.CoreInvObj
  Core.CoreInvTm Core.CoreInvLoop Core.CoreInvWait Core.CoreRelBase Core.CorePhase2K1.
From Ivv Require Core.CorePhase2AcctWait.
Import ListNotations.
Local Open Scope Z_scope.

(* the timer descriptor is not armed and has not fired *)
Definition UA (s : core) : Prop :=
  tfd s = -1 \/ exists v, k_get (kern s) (tfd s) = Some v /\ vdeadline v = 0 /\ vfired v = false.

Definition K0 (s : core) : Prop := method s = M_ET -> last_abs_count s <> 5 -> UA s.

Lemma UA_TFs : forall s s', UA s -> TFs s s' -> UA s'.
Proof.
  intros s s' [E|(v & G & D & F)] T; unfold UA; rewrite (tf_tfd _ _ _ T); [left; exact E|right].
  destruct (kt_vfd _ _ _ (tf_k _ _ _ T) v G) as (v' & G' & (S1 & S2 & S3 & S4)).
  exists v'. split; [exact G'|]. split; congruence.
Qed.

Lemma K0_TFs : forall s s', K0 s -> TFs s s' -> K0 s'.
Proof.
  intros s s' K T M C. rewrite (tf_method _ _ _ T) in M. rewrite (tf_lac _ _ _ T) in C. apply (UA_TFs s s' (K M C) T).
Qed.

Lemma UA_plain : forall s s', kern s' = kern s -> tfd s' = tfd s -> UA s -> UA s'.
Proof. intros s s' K T U. unfold UA in *. rewrite K, T. exact U. Qed.

Lemma UA_settime0 : forall s, TEnt s -> UA (tfd_settime s 0).
Proof.
  intros s TE. unfold UA. cbn [tfd kern tfd_settime emit set_trace set_kern].
  destruct (Z.eq_dec (tfd s) (-1)) as [E|NE]; [left; exact E|right].
  destruct (TE NE) as (v & e & O & _). unfold k_timerfd_settime. rewrite O.
  exists (with_timer v 0 false). rewrite k_get_put', Z.eqb_refl. repeat split.
Qed.

Lemma UA_read : forall s k1 x, TEnt s -> tfd s <> -1 -> k_read (kern s) (tfd s) 8 = (k1, inl x) -> UA (set_kern s k1).
Proof.
  intros s k1 x T NT. unfold k_read. intros E. right. cbn [tfd kern set_kern].
  destruct (T NT) as (v & e & O & KD & _). rewrite O in E.
  rewrite KD in E. change (K_TIMERFD =? K_EVENTFD) with false in E. change (K_TIMERFD =? K_PIPE_R) with false in E.
  change (K_TIMERFD =? K_TIMERFD) with true in E. cbv iota in E.
  destruct (has (k_cond (kern s) (tfd s)) B_IN); inversion E; subst.
  exists (with_timer v 0 false). rewrite k_get_put', Z.eqb_refl. repeat split.
Qed.

Lemma set_poll_timeout_K0 : forall s a s0, set_poll_timeout s a = (R s0, false) -> method s0 <> M_ET.
Proof.
  intros s a s0. unfold set_poll_timeout. destruct (tfd s =? -1).
  - destruct (k_timerfd_create (kern s)) as [k1 [fd|e]].
    + cbv zeta. destruct (ctl_retry _ _ _ _ _) as [s1 e]. destruct e; discriminate.
    + intros E. inversion E; subst. cbn. discriminate.
  - discriminate.
Qed.

Lemma set_poll_timeout_cnt : forall s a s0 fl, set_poll_timeout s a = (R s0, fl) -> last_abs_count s0 = last_abs_count s.
Proof.
  intros s a s0 fl. unfold set_poll_timeout. destruct (tfd s =? -1).
  - destruct (k_timerfd_create (kern s)) as [k1 [fd|e]].
    + cbv zeta. destruct (ctl_retry _ _ _ _ _) as [s1 e] eqn:C. destruct e; [discriminate|]. intros E. inversion E; subst.
      unfold ctl_retry in C. destruct (k_epoll_ctl _ _ _ _ _) as [k2 r2]. destruct r2 as [e2|]; [destruct e2|]; try (inversion C; subst; reflexivity).
      destruct (k_epoll_ctl k2 _ _ _ _) as [k3 r3]. inversion C; subst. reflexivity.
    + intros E. inversion E; subst. reflexivity.
  - intros E. inversion E; subst. reflexivity.
Qed.

Lemma timeout_check_K0 : forall s abs s0 fl, LK s -> K0 s -> method s = M_ET -> timeout_check s abs = (R s0, fl) -> K0 s0.
Proof.
  intros s abs s0 fl [TE _] K ME. unfold timeout_check. cbv zeta.
  destruct ((last_abs_count s =? 5) && (0 <=? abs_cmp abs (last_abs s))) eqn:G.
  { intros E. inversion E; subst. exact K. }
  set (s1 := if last_abs_count s =? 5 then tfd_settime s 0 else s).
  assert (U1 : UA s1 /\ method s1 = M_ET /\ last_abs_count s1 = last_abs_count s /\ tfd s1 = tfd s).
  { unfold s1. destruct (Z.eqb_spec (last_abs_count s) 5) as [C5|N5].
    - split; [apply UA_settime0; exact TE|repeat split; exact ME].
    - split; [apply (K ME N5)|repeat split; exact ME]. }
  destruct U1 as (U1 & M1 & C1 & T1).
  destruct (abs_cmp abs (last_abs s) =? 0).
  - set (s2 := if last_abs_count s1 <? 5 then _ else s1).
    assert (U2 : UA s2 /\ method s2 = M_ET) by (unfold s2; destruct (last_abs_count s1 <? 5); split; try assumption; apply (UA_plain s1); try reflexivity; exact U1).
    destruct U2 as [U2 M2].
    destruct (Z.eqb_spec (last_abs_count s2) 5) as [C5|N5]; [|intros E; inversion E; subst; intros _ _; exact U2].
    destruct abs as [a|]; [|intros E; inversion E; subst; intros _ _; exact U2].
    intros E. destruct fl.
    + intros _ C. rewrite (set_poll_timeout_cnt _ _ _ _ E) in C. contradiction.
    + intros M. exfalso. exact (set_poll_timeout_K0 _ _ _ E M).
  - destruct abs as [a|]; intros E; inversion E; subst; intros _ _; (apply (UA_plain s1); [reflexivity|reflexivity|exact U1]).
Qed.

Lemma epoll_process_tmr : forall evs s re tm, snd (epoll_process s evs re tm) = true -> tm = true \/ method s = M_ET.
Proof.
  induction evs as [|[[fd bits] data] evs IH]; intros s re tm H; cbn [epoll_process] in H; [left; exact H|].
  destruct (data =? -1); [apply (IH _ _ _ H)|].
  destruct ((data =? -2) && (method s =? M_ET)) eqn:D.
  - right. apply andb_true_iff in D. destruct D as [_ D]. apply Z.eqb_eq in D. exact D.
  - destruct (IH _ _ _ H) as [A|A]; [left; exact A|right].
    rewrite <- (kf_method _ _ _ (activate_KF 0 s data bits)). exact A.
Qed.

Section Poll0.
Variable sc : scenario.
Hypothesis WF : wf_scenario sc.
Hypothesis do_action_ok : forall s a, InvW s -> wf_action a -> okr (StepW s) (do_action s a).
Let Hh := wf_handlers sc WF.

(* iv_fd_epoll_poll: either the timer descriptor is untouched, or it has been read *)
Lemma epoll_poll_U : forall s abs s', InvW s -> Q3 s -> TfdM s -> is_epoll s = true -> TEnt s ->
  fst (epoll_poll sc s abs) = R s' ->
  (TFs s s' /\ (abs = None -> method s = M_ET -> snd (epoll_poll sc s abs) = false)) \/
  (TM4 s s' /\ UA s' /\ method s = M_ET).
Proof.
  intros s abs s' I Q TM IE TE. unfold epoll_poll. cbv zeta.
  destruct (flush_pending_K s I IE) as (s1 & FL & I1 & T1 & NF1 & _). rewrite FL.
  assert (TM1 : TfdM s1) by (unfold TfdM in *; rewrite (tf_tfd _ _ _ T1), (tf_method _ _ _ T1); exact TM).
  set (maxev := if method s =? M_ET then numfds s + 1 else if numfds s =? 0 then 1 else numfds s).
  pose proof (epoll_wait_m_ok sc WF do_action_ok s1 abs maxev I1 TM1) as W.
  pose proof (epoll_wait_m_K sc WF do_action_ok s1 abs maxev I1 TM1) as KW.
  destruct (epoll_wait_m sc s1 abs maxev) as [s2 evs|s2|r]; cbn [WPost PKw fst snd] in *.
  - destruct W as (I2 & _ & _ & _ & EV2 & RD2). destruct KW as [_ T2].
    assert (T02 : TFs s s2) by (eapply TFs_trans; eassumption).
    set (s3 := invalidate_now s2).
    assert (I3 : InvW s3) by (apply InvW_invalidate; exact I2).
    assert (T03 : TFs s s3) by (eapply TFs_trans; [exact T02|apply TFs_plain; reflexivity]).
    destruct (epoll_process_ok evs s3 false false I3 EV2) as (I4 & _ & TMR).
    pose proof (epoll_process_KF (tfd s3) evs s3 false false) as K4.
    pose proof (epoll_process_tmr evs s3 false false) as PT.
    destruct (epoll_process s3 evs false false) as [[s4 re] tmr]. cbn [fst snd] in *.
    assert (T04 : TFs s s4) by (eapply TFs_trans; [exact T03|apply KF_TF; exact K4]).
    pose proof (TEnt_TFs _ _ TE T04) as TE4.
    destruct tmr.
    + (* the timer descriptor is read *)
      assert (ME : method s = M_ET).
      { destruct (PT eq_refl) as [X|X]; [discriminate X|]. rewrite <- (tf_method _ _ _ T03). exact X. }
      pose proof (kstable_read (kern s4) (tfd s4) 8) as KS.
      destruct (k_read (kern s4) (tfd s4) 8) as [k1 [x|e]] eqn:RD; cbn [fst] in KS; [|cbn [bind halt]; discriminate].
      cbn [bind]. set (s5 := set_kern s4 k1).
      assert (I5 : InvW s5) by (apply InvW_kstable; assumption).
      assert (U5 : UA s5).
      { destruct (Z.eq_dec (tfd s4) (-1)) as [E|NE]; [left; exact E|]. apply (UA_read s4 k1 x TE4 NE RD). }
      assert (M5 : TM4 s s5) by (apply (TM4_trans _ s4); [apply TFs_TM4; exact T04|constructor; reflexivity]).
      destruct re.
      * pose proof (run_pending_events_K sc WF do_action_ok s5 I5) as P.
        destruct (run_pending_events sc s5) as [s6|s6]; unfold PK in P; cbn [ARes] in P; [|discriminate].
        intros E. inversion E; subst. destruct P as [I6 T6]. right.
        split; [eapply TM4_trans; [exact M5|apply TFs_TM4; exact T6]|]. split; [apply (UA_TFs s5 s' U5 T6)|exact ME].
      * intros E. inversion E; subst. right. split; [exact M5|]. split; [exact U5|exact ME].
    + cbn [bind].
      assert (RT : abs = None -> method s = M_ET -> (if method s =? M_ET then match abs with Some _ => true | None => false end else true) || false = false).
      { intros -> ->. reflexivity. }
      destruct re.
      * pose proof (run_pending_events_K sc WF do_action_ok s4 I4) as P.
        destruct (run_pending_events sc s4) as [s6|s6]; unfold PK in P; cbn [ARes] in P; [|discriminate].
        intros E. inversion E; subst. destruct P as [I6 T6]. left. split; [eapply TFs_trans; eassumption|exact RT].
      * intros E. inversion E; subst. left. split; [exact T04|exact RT].
  - destruct W as (I2 & _). destruct KW as [_ T2]. intros E. inversion E; subst. left.
    split; [eapply TFs_trans; [exact T1|]; eapply TFs_trans; [exact T2|apply TFs_plain; reflexivity]|].
    intros -> ->. reflexivity.
  - destruct r; [destruct W|discriminate].
Qed.

(* iv_fd_poll_and_run *)
Lemma poll_and_run_K0 : forall s abs s', LoopInv s -> LKM s -> K0 s -> fst (poll_and_run sc s abs) = R s' -> K0 s'.
Proof.
  intros s abs s' (I & Q & TM & AC) L K. unfold poll_and_run.
  pose proof (ms_kinv _ (iw_misc _ I)) as KI. destruct KI as [KN _].
  assert (DISP : forall s1, InvW s1 -> K0 s1 -> dispatch_active sc (S (length (active s1))) s1 = R s' -> K0 s').
  { intros s1 I1 K1 E. pose proof (dispatch_active_K sc WF do_action_ok (S (length (active s1))) s1 I1) as P.
    rewrite E in P. unfold PK in P. cbn [ARes] in P. destruct P as [_ T]. apply (K0_TFs s1 s' K1 T). }
  destruct (Z.eqb_spec (method s) M_ET) as [ME|NE].
  - pose proof (timeout_check_ok sc WF do_action_ok s abs I ME) as TC.
    destruct (timeout_check s abs) as [[s0|s0] fl] eqn:TCE; cbn [fst okr] in TC; [|cbn [fst bind]; discriminate].
    destruct TC as (I0 & F0 & TM0 & IE0).
    pose proof (timeout_check_LK s abs s0 fl (L ME) ltac:(lia) ME TCE) as L0.
    pose proof (timeout_check_K0 s abs s0 fl (L ME) K ME TCE) as K00.
    pose proof (TcFr_Q3 _ _ F0 Q) as Q0.
    assert (MP : forall a r rt, m_poll sc s0 a = (r, rt) -> forall s1, r = R s1 ->
               InvW s1 /\ K0 s1 /\ (a = None -> method s0 = M_ET -> rt = true -> UA s1)).
    { intros a r rt MPE s1 ->. unfold m_poll in MPE. rewrite IE0 in MPE.
      assert (E1 : fst (epoll_poll sc s0 a) = R s1) by (rewrite MPE; reflexivity).
      destruct (epoll_poll_T sc WF do_action_ok s0 a s1 I0 Q0 TM0 IE0 (proj1 L0) E1) as (I1 & _).
      split; [exact I1|].
      destruct (epoll_poll_U s0 a s1 I0 Q0 TM0 IE0 (proj1 L0) E1) as [[T RT]|(M4 & U & _)].
      - split; [apply (K0_TFs s0 s1 K00 T)|]. intros A M0 X. rewrite MPE in RT. cbn [snd] in RT. rewrite (RT A M0) in X. discriminate X.
      - split; [intros _ _; exact U|intros _ _ _; exact U]. }
    destruct fl.
    + destruct (m_poll sc s0 None) as [r rt] eqn:MPE. cbn [fst].
      destruct r as [s1|s1]; cbn [bind]; [|discriminate].
      destruct (MP None (R s1) rt MPE s1 eq_refl) as (I1 & K1 & U1).
      assert (M0 : method s0 = M_ET) by (rewrite (proj1 (CorePhase2AcctWait.timeout_check_true s abs s0 TCE)); exact ME).
      destruct rt.
      * apply DISP; [apply (InvW_coresame s1); [constructor; reflexivity|apply (ms_nobad _ (iw_misc _ I1))|exact I1]|].
        intros _ _. apply (UA_plain s1); [reflexivity|reflexivity|]. apply (U1 eq_refl M0 eq_refl).
      * apply DISP; assumption.
    + destruct (m_poll sc s0 abs) as [r rt] eqn:MPE. cbn [fst].
      destruct r as [s1|s1]; cbn [bind]; [|discriminate].
      destruct (MP abs (R s1) rt MPE s1 eq_refl) as (I1 & K1 & _). apply DISP; assumption.
  - (* the other methods never become epoll-timerfd *)
    assert (NM : forall s1, InvW s1 -> method s1 <> M_ET -> dispatch_active sc (S (length (active s1))) s1 = R s' -> K0 s').
    { intros s1 I1 N1 E. apply (DISP s1 I1); [|exact E]. intros X. contradiction. }
    unfold m_poll. destruct (is_epoll s) eqn:IE.
    + destruct (epoll_poll sc s abs) as [r rt] eqn:MP. cbn [fst].
      destruct r as [s1|s1]; cbn [bind]; [|discriminate].
      assert (E1 : fst (epoll_poll sc s abs) = R s1) by (rewrite MP; reflexivity).
      assert (TE : TEnt s) by (intros X; exfalso; apply NE; apply TM; exact X).
      destruct (epoll_poll_T sc WF do_action_ok s abs s1 I Q TM IE TE E1) as (I1 & _ & M41 & _).
      apply NM; [exact I1|rewrite (t4_method _ _ M41); exact NE].
    + destruct (poll_poll sc s abs) as [r rt] eqn:MP. cbn [fst].
      destruct r as [s1|s1]; cbn [bind]; [|discriminate].
      assert (E1 : fst (poll_poll sc s abs) = R s1) by (rewrite MP; reflexivity).
      pose proof (poll_poll_ok sc WF do_action_ok s abs I Q TM IE) as PP. rewrite E1 in PP. cbn [okr] in PP.
      apply NM; [apply PP|apply (poll_poll_noET sc WF do_action_ok s abs s1 I IE E1)].
Qed.

End Poll0.
