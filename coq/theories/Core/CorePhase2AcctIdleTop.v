(* CorePhase2AcctIdleTop.v -- code 1103 of the guard monitor: the loop never polls twice in a row
   without sleeping, reporting or running a callback.  iv_main and whole runs. *)
From Coq Require Import List ZArith Bool Lia.
From Ivv Require Import Core.Kernel Core.CoreTypes Core.CoreFd Core.CoreModel Core.CoreSpec Core.Monitors Core.GuardMon.
From Ivv Require Import Core.CoreInvBase Core.CoreInvDefs Core.CoreInvFd Core.CoreInvPoll Core.CoreInvReg Core.CoreInvObj
  Core.CoreInvLoop Core.CoreInvWait.
From Ivv Require Import Core.CoreRel Core.CorePhase2FdBase Core.CorePhase2FdMon Core.CorePhase2FdStep Core.CorePhase2FdInv
  Core.CorePhase2FdLoop Core.CorePhase2FdWait Core.CorePhase2FdTop.
From Ivv Require Import Core.CorePhase2AcctTr Core.CorePhase2AcctTr2 Core.CorePhase2AcctMon Core.CorePhase2AcctNc
  Core.CorePhase2AcctNcWait Core.CorePhase2AcctIdle Core.CorePhase2AcctIdleLoop Core.CorePhase2AcctIdleWait Core.CorePhase2AcctIdleTv.
From Ivv Require Timer.HeapModel Timer.HeapSpec.
Import ListNotations.
Local Open Scope Z_scope.

Lemma soonest_abs : forall h e, HeapSpec.HeapInv h -> HeapModel.soonest h = Some e -> exists t, HeapSpec.abs h t = Some e.
Proof.
  intros h e (N & _ & _ & _ & F & _) S. unfold HeapModel.soonest in S.
  destruct (Z.eqb_spec (HeapModel.num h) 0) as [Z0|NZ]; [discriminate S|].
  destruct (F 1 ltac:(lia)) as (t & G & TI). rewrite G in S. inversion S; subst e.
  exists t. unfold HeapSpec.abs. rewrite TI. reflexivity.
Qed.

Section Top1103.
Variable sc : scenario.
Hypothesis WF : wf_scenario sc.
Hypothesis DA : forall s a, InvW s -> wf_action a -> okr (StepW s) (do_action s a).
Hypothesis C0 : LoopInv (core0 sc).
Let Hh := wf_handlers sc WF.

Notation GIs := (GIs sc).
Notation Still := (CorePhase2AcctIdleWait.Still sc).
Notation NotIdle := (NotIdle sc).

Lemma Still_Tv : forall s, Still s <-> CorePhase2AcctIdleTv.Still sc s.
Proof. intros s. unfold CorePhase2AcctIdleWait.Still, CorePhase2AcctIdleTv.Still. tauto. Qed.

Lemma main_loop_G : forall fuel s rt, LoopInv s -> Y sc true s -> expect (mst s) = [] -> GIs s ->
  (rt = false -> NotIdle s) -> (Still s -> time_valid s = false) ->
  GIs (res_state (main_loop sc fuel s rt)).
Proof.
  induction fuel as [|fuel IH]; intros s rt L H E G0 NI TV0; cbn [main_loop].
  - cbn [halt res_state]. apply GIs_emit; [exact G0|exact I].
  - pose proof L as (I0 & Q0 & T0 & A0).
    assert (P1 : match (if rt then run_timers sc s else R s) with
                 | R s1 => LoopInv s1 /\ Y sc true s1 /\ expect (mst s1) = [] /\ GIs s1
                 | Halt s1 => GIs s1 end).
    { destruct rt; [|auto].
      pose proof (run_timers_ok sc Hh DA s I0 Q0) as R1. pose proof (run_timers_Y sc WF s H) as R2.
      pose proof (run_timers_exth sc s) as T1. unfold RExt in T1.
      pose proof (GIs_ext sc ch s _ ch_nrs T1 G0) as G1.
      destruct (run_timers sc s) as [s1|s1]; cbn [okr PostY res_state] in *; [|exact G1].
      destruct R2 as (Y1 & M1 & _). destruct (LoopInv_Ph sc WF DA s s1 L R1) as [L1 _].
      split; [exact L1|]. split; [exact Y1|]. split; [apply (MF_idle s s1 M1 A0 E)|exact G1]. }
    destruct (if rt then run_timers sc s else R s) as [s1|s1] eqn:ER; cbn [bind res_state]; [|exact P1].
    destruct P1 as (L1 & Y1 & E1 & G1). pose proof L1 as (I1 & Q1 & T1 & A1).
    pose proof (run_tasks_ok sc Hh DA s1 I1 Q1) as R1.
    pose proof (run_tasks_Y sc WF s1 Y1 (proj1 (proj2 Q1))) as R2.
    pose proof (run_tasks_exth sc s1) as TT. unfold RExt in TT.
    pose proof (GIs_ext sc ch s1 _ ch_nrs TT G1) as G2.
    destruct (run_tasks sc s1) as [s2|s2] eqn:ET; cbn [okr PostTY bind res_state] in *; [|exact G2].
    destruct R2 as (Y2 & M2 & _). destruct (LoopInv_Ph sc WF DA s1 s2 L1 R1) as [L2 _].
    destruct (MF_idle s1 s2 M2 A1 E1) as [A2 E2].
    destruct (quit s2 || (numobjs s2 =? 0)) eqn:QN; [exact G2|].
    apply orb_false_iff in QN. destruct QN as [Q2 _].
    set (abs := match tasks s2 with _ :: _ => Some 0 | [] => soonest_timeout s2 end).
    assert (W2 : WP sc s2) by (constructor; [apply L2|exact Y2|exact A2|exact E2|exact Q2]).
    assert (NZ : Still s2 -> NZabs s2 abs).
    { intros S2. pose proof (Still_ext sc ch s1 s2 ch_nrs TT S2) as S1.
      destruct rt.
      2:{ exfalso. inversion ER; subst s1. destruct S1 as [D X]. rewrite (NI eq_refl D) in X. discriminate X. }
      pose proof (run_timers_exth sc s) as TR. unfold RExt in TR. rewrite ER in TR. cbn [res_state] in TR.
      pose proof (Still_ext sc ch s s1 ch_nrs TR S1) as S0.
      destruct (run_timers_idle sc s s1 I0 (proj1 Q0) ER (proj1 S1) (proj2 S1)) as (TK & KE & HP).
      destruct (run_tasks_idle sc s1 s2 ET (proj1 S2) (proj2 S2)) as (TS2 & H2 & TM2 & TV2 & K2).
      unfold abs. rewrite TS2. unfold soonest_timeout. rewrite H2.
      destruct (HeapModel.soonest (heap s1)) as [e|] eqn:SO; [|left; reflexivity].
      destruct HP as [Z0|(TV1 & AB & TC)]; [unfold HeapModel.soonest in SO; rewrite Z0 in SO; discriminate SO|].
      destruct (soonest_abs _ _ (iw_heap _ I1) SO) as (t & AT).
      right. exists e. split; [reflexivity|]. split; [rewrite TV2; exact TV1|]. split; [rewrite TM2; apply (AB t e AT)|].
      rewrite TM2, K2, KE, (TC (TV0 S0)). lia. }
    pose proof (poll_and_run_W sc WF DA s2 abs W2) as P3.
    pose proof (poll_and_run_ok sc WF DA s2 abs L2) as P4.
    pose proof (poll_and_run_G sc WF DA s2 abs W2 G2 NZ) as P5.
    pose proof (poll_and_run_tv sc s2 abs) as P6.
    destruct (poll_and_run sc s2 abs) as [r rt']. cbn [fst snd] in P3, P4, P5, P6.
    destruct r as [s3|s3]; cbn [bind IdleOut okr res_state] in *; [|exact P5].
    destruct P3 as (Y3 & A3 & E3). destruct P4 as (L3 & _). destruct P5 as [G3 N3].
    apply IH; try assumption. intros S3. apply (P6 s3 eq_refl). apply Still_Tv. exact S3.
Qed.

Lemma core0_GI : GIs (core0 sc) /\ NotIdle (core0 sc).
Proof.
  unfold core0. destruct (if (sc_backend sc =? M_ET) || (sc_backend sc =? M_EP) then _ else _) as [efd k].
  split.
  - unfold CorePhase2AcctIdleLoop.GIs, gst, gmon_run. cbn. split; [intros []|]. split; [left; reflexivity|discriminate].
  - intros _. reflexivity.
Qed.

Theorem core_no_1103 : ~ In 1103 (gmon_fails sc (run_scenario sc)).
Proof.
  unfold run_scenario, gmon_fails.
  match goal with |- ~ In 1103 (g_fails (gmon_run sc (rev (trace (res_state ?r))))) =>
    change (~ f1103 (gst sc (res_state r))); cut (GIs (res_state r)); [intros (NF & _); exact NF|] end.
  destruct core0_GI as [G0 N0]. destruct (core0_Y sc C0) as (Y0 & A0 & E0).
  pose proof (run_acts_Y sc false (sc_setup sc) (core0 sc) Y0 (wf_setup sc WF)) as P0.
  pose proof (run_acts_ok DA (sc_setup sc) (core0 sc) (proj1 C0) (wf_setup sc WF)) as Q0.
  pose proof (run_acts_ext (sc_setup sc) (core0 sc)) as T0. unfold RExt in T0.
  pose proof (GIs_ext sc ca _ _ ca_nrs T0 G0) as G1.
  pose proof (NotIdle_ext sc ca _ _ ca_nrs T0 N0) as N1.
  destruct (run_acts (core0 sc) (sc_setup sc)) as [s1|s1]; cbn [bind PostY okr res_state] in *; [|exact G1].
  destruct P0 as (Y1 & M1 & _). pose proof (LoopInv_StepT2 _ _ C0 Q0) as L1.
  destruct (MF_idle _ _ M1 A0 E0) as [A1 E1].
  set (s2 := set_quit (emit s1 TMain) false).
  assert (Y2 : Y sc true s2).
  { destruct Y1 as [J1 K U G]. constructor; [apply J_main_enter; exact J1|exact K|exact U|].
    apply (G2_trace sc (emit s1 TMain)); [reflexivity|apply G2_sil; [exact I|exact G]]. }
  assert (E2 : expect (mst s2) = []).
  { change (mst s2) with (mst (emit s1 TMain)). rewrite mst_emit.
    destruct (tv_fields _ _ (sil_tv (mst s1) TMain I)) as (_ & _ & T). rewrite T. exact E1. }
  assert (G2 : GIs s2) by (apply (GIs_trace sc (emit s1 TMain)); [reflexivity|apply GIs_emit; [exact G1|exact I]]).
  assert (N2 : NotIdle s2).
  { apply (NotIdle_trace sc (emit s1 TMain)); [reflexivity|].
    apply (NotIdle_ext sc (fun e => e = TMain) s1); [intros e ->; exact I|apply TrExt_emit; reflexivity|exact N1]. }
  pose proof (main_loop_G (Z.to_nat (sc_limit sc) + 2) s2 true (LoopInv_main_enter s1 L1) Y2 E2 G2 ltac:(discriminate)) as P3.
  specialize (P3 ltac:(intros [D X]; rewrite (N2 D) in X; discriminate X)).
  pose proof (main_loop_ext sc (Z.to_nat (sc_limit sc) + 2) s2 true) as T3. unfold RExt in T3.
  destruct (main_loop sc (Z.to_nat (sc_limit sc) + 2) s2 true) as [s3|s3]; cbn [bind res_state] in *; [|exact P3].
  set (s4 := emit s3 (TEnd (if quit s3 then 1 else 0) (numobjs s3))).
  assert (G4 : GIs s4) by (apply GIs_emit; [exact P3|exact I]).
  pose proof (teardown_ext (zseq 0 16) s4) as T5. unfold RExt in T5.
  pose proof (GIs_ext sc ca _ _ ca_nrs T5 G4) as G5.
  destruct (teardown s4 (zseq 0 16)) as [s5|s5]; cbn [bind res_state] in *; [|exact G5].
  apply GIs_emit; [|exact I].
  apply (GIs_ext sc ca (emit s5 (TTear (numobjs s5)))); [exact ca_nrs|apply deinit_ext|].
  apply GIs_emit; [exact G5|exact I].
Qed.

End Top1103.

(* ---------- exported statement ---------- *)
From Ivv Require Core.CoreInv Core.CorePhase2Fd.

Theorem core_gmon_1103 : forall sc, wf_scenario sc -> forall c, In c (gmon_fails sc (run_scenario sc)) -> ~ In c [1103].
Proof.
  intros sc WF c H [<-|[]].
  exact (core_no_1103 sc WF CoreInv.do_action_ok (CorePhase2Fd.core0_LoopInv sc WF) H).
Qed.

Print Assumptions core_gmon_1103.
