(* CorePhase2AcctOwnAct.v -- code 1802, part 2: every open library-created descriptor has an owner
   (the epoll descriptor, the timer descriptor, a registered raw event, the kick descriptor);
   preservation by raw events, events and every action. *)
From Coq Require Import List ZArith Bool Lia.
From Ivv Require Import Core.Kernel Core.CoreTypes Core.CoreFd Core.CoreModel Core.CoreSpec Core.CoreRelBase
  Core.CorePhase2K1Base Core.CorePhase2K1Fd Core.CorePhase2AcctOwn.
Import ListNotations.
Local Open Scope Z_scope.

Definition Own (s : core) (fd : Z) : Prop :=
  fd = epfd s \/ fd = tfd s \/
  (exists j, rw_reg s j = true /\ (fd = rw_rfd s j \/ fd = rw_wfd s j)) \/
  (active_ref s <> 0 /\ (fd = active_fd s \/ fd = active_wr s)).

Definition OD (s : core) : Prop := forall fd, 1000 <= fd -> k_open (kern s) fd <> None -> Own s fd.

Lemma Own_owners : forall s s' fd, owners s' = owners s -> Own s fd -> Own s' fd.
Proof.
  intros s s' fd E. unfold owners in E. inversion E as [[E1 E2 E3 E4 E5 E6 E7 E8 E9]]. unfold Own.
  rewrite E1, E2, E4, E5, E6, E7, E8, E9. tauto.
Qed.

Lemma OD_OF : forall s s', OD s -> OF s s' -> OD s'.
Proof.
  intros s s' D [K E] fd L O. destruct (K fd L O) as [O1|[]]. apply (Own_owners s s' fd E). apply D; assumption.
Qed.

(* allocation frame: the descriptors in N may be new *)
Record OA (N : list Z) (s s' : core) : Prop := { oa_k : KOn N (kern s) (kern s'); oa_own : owners s' = owners s }.

Lemma OF_OA : forall s s', OF s s' -> OA [] s s'. Proof. intros s s' [K E]. constructor; assumption. Qed.
Lemma OA_l : forall N a b c, OF a b -> OA N b c -> OA N a c.
Proof. intros N a b c [A1 A2] [B1 B2]. constructor; [eapply KOn_l; eassumption|congruence]. Qed.
Lemma OA_r : forall N a b c, OA N a b -> OF b c -> OA N a c.
Proof. intros N a b c [A1 A2] [B1 B2]. constructor; [eapply KOn_r; eassumption|congruence]. Qed.
Lemma OA_kern : forall N s k', KOn N (kern s) k' -> OA N s (set_kern s k').
Proof. intros. constructor; [assumption|reflexivity]. Qed.

(* the general step: new descriptors get an owner, owners that go away leave closed descriptors *)
Lemma OD_step : forall N s s', OD s -> KOn N (kern s) (kern s') ->
  (forall fd, 1000 <= fd -> Own s fd -> Own s' fd \/ k_open (kern s') fd = None) ->
  (forall fd, In fd N -> Own s' fd) -> OD s'.
Proof.
  intros N s s' D K M NW fd L O. destruct (K fd L O) as [O1|I1]; [|apply NW; exact I1].
  destruct (M fd L (D fd L O1)) as [A|A]; [exact A|contradiction].
Qed.

(* ---------- allocation ---------- *)
Lemma alloc_KOn : forall k kind, KOn [fst (k_alloc k kind)] k (snd (k_alloc k kind)).
Proof.
  intros k kind. unfold k_alloc. cbn [fst snd]. eapply KOn_l; [|apply KOn_put]. apply KO_fields. reflexivity.
Qed.

Lemma eventfd_KOn : forall k b,
  KOn (match snd (k_eventfd k b) with inl fd => [fd] | inr _ => [] end) k (fst (k_eventfd k b)).
Proof.
  intros k b. unfold k_eventfd. destruct (emfile _); [apply KO_refl|]. destruct (_ && _); [apply KO_refl|].
  pose proof (alloc_KOn k K_EVENTFD) as A. destruct (k_alloc k K_EVENTFD) as [fd k1]. exact A.
Qed.

Lemma grab_KOn : forall k u,
  KOn (match snd (fst (eventfd_grab k u)) with inl fd => [fd] | inr _ => [] end) k (fst (fst (eventfd_grab k u))).
Proof.
  intros k u. unfold eventfd_grab.
  assert (OLD : forall k0 u0, KO k k0 ->
    let x := (if negb (u0 =? 0) then
      match k_eventfd k0 false with
      | (k1, inl fd) => (k1, inl fd, u0)
      | (k1, inr e) => if is_enosys e then (k1, @inr Z errno ENOSYS, 0) else (k1, inr e, u0)
      end
    else (k0, inr ENOSYS, 0)) in
    KOn (match snd (fst x) with inl fd => [fd] | inr _ => [] end) k (fst (fst x))).
  { intros k0 u0 K0. cbv zeta. destruct (negb (u0 =? 0)); [|exact K0].
    pose proof (eventfd_KOn k0 false) as A.
    destruct (k_eventfd k0 false) as [k1 [fd|e]]; cbn [fst snd] in *.
    - eapply KOn_l; eassumption.
    - destruct (is_enosys e); cbn [fst snd]; eapply KO_trans; eassumption. }
  destruct (u =? 2).
  - pose proof (eventfd_KOn k true) as A.
    destruct (k_eventfd k true) as [k1 [fd|e]]; cbn [fst snd] in *; [exact A|].
    destruct (_ || _); [|exact A]. apply (OLD k1 1 A).
  - apply (OLD k u (KO_refl k)).
Qed.

Lemma pipe_KOn : forall k,
  KOn (match snd (k_pipe k) with Some (r, w) => [r; w] | None => [] end) k (fst (k_pipe k)).
Proof.
  intros k. unfold k_pipe. destruct (emfile _); [apply KO_refl|].
  unfold k_alloc. cbn [fst snd].
  set (r := next_fd k). set (k1 := k_put (k_set_next k (r + 1)) r (vfd0 K_PIPE_R)).
  set (w := next_fd k1). set (k2 := k_put (k_set_next k1 (w + 1)) w (vfd0 K_PIPE_W)).
  assert (A1 : KOn [r] k k1) by (eapply KOn_l; [|apply KOn_put]; apply KO_fields; reflexivity).
  assert (A2 : KOn [w] k1 k2) by (eapply KOn_l; [|apply KOn_put]; apply KO_fields; reflexivity).
  pose proof (KOn_trans _ _ _ _ _ A1 A2) as A12. cbn [app] in A12.
  assert (A3 : KOn [r] k2 (k_put k2 r (with_peer (vfd0 K_PIPE_R) w true))) by apply KOn_put.
  pose proof (KOn_trans _ _ _ _ _ A12 A3) as A123. cbn [app] in A123.
  pose proof (KOn_trans _ _ _ _ _ A123 (KOn_put (k_put k2 r (with_peer (vfd0 K_PIPE_R) w true)) w (with_peer (vfd0 K_PIPE_W) r true))) as A.
  cbn [app] in A. intros fd L O. destruct (A fd L O) as [H|H]; [left; exact H|right].
  cbn [In] in *. tauto.
Qed.

Lemma KOn_incl : forall N N' k k', KOn N k k' -> (forall x, In x N -> In x N') -> KOn N' k k'.
Proof. intros N N' k k' A H fd L O. destruct (A fd L O) as [B|B]; [left; exact B|right; apply H; exact B]. Qed.

Lemma upd_same : forall A (f : Z -> A) j v, upd f j v j = v.
Proof. intros. unfold upd. rewrite Z.eqb_refl. reflexivity. Qed.
Lemma upd_other : forall A (f : Z -> A) j v i, i <> j -> upd f j v i = f i.
Proof. intros. unfold upd. destruct (Z.eqb_spec i j); [contradiction|reflexivity]. Qed.

(* ---------- raw events ---------- *)
Lemma raw_tail_O : forall s0 s j rfd wfd, OD s0 -> rw_reg s0 j = false -> OA [rfd; wfd] s0 s ->
  ARes OD
       (bind (fd_register (putfd s (RAW_KEY j) (fd_with_handlers (fd_fresh rfd (1000 + j)) (Some (H_RAW j)) None None)) (RAW_KEY j))
             (fun s => R (set_rw s (upd (rw_reg s) j true) (upd (rw_rfd s) j rfd) (upd (rw_wfd s) j wfd)))).
Proof.
  intros s0 s j rfd wfd D RJ S.
  set (f := fd_with_handlers _ _ _ _). set (s1 := putfd s (RAW_KEY j) f).
  eapply ARes_bind; [apply fd_register_OF|]. cbn beta. intros s2 Q. cbn [ARes].
  assert (S2 : OA [rfd; wfd] s0 s2) by (eapply OA_r; [eapply OA_r; [exact S|apply (OF_putfd s (RAW_KEY j) f)]|exact Q]).
  destruct S2 as [K E]. unfold owners in E. inversion E as [[E1 E2 E3 E4 E5 E6 E7 E8 E9]].
  apply (OD_step [rfd; wfd] s0); [exact D|exact K| |].
  - intros fd _ [H|[H|[(j' & RJ' & H)|H]]]; left; unfold Own; cbn [epfd tfd rw_reg rw_rfd rw_wfd active_ref active_fd active_wr set_rw].
    + left. congruence.
    + right; left. congruence.
    + right; right; left. exists j'. assert (NJ : j' <> j) by (intros ->; congruence).
      rewrite !upd_other by exact NJ. rewrite E4, E5, E6. tauto.
    + right; right; right. rewrite E7, E8, E9. exact H.
  - intros fd IN. right; right; left. exists j. cbn [rw_reg rw_rfd rw_wfd set_rw]. rewrite !upd_same.
    split; [reflexivity|]. destruct IN as [<-|[<-|[]]]; tauto.
Qed.

Lemma raw_register_O : forall s j, OD s -> rw_reg s j = false -> ARes OD (fst (raw_register s j)).
Proof.
  intros s j D RJ. unfold raw_register.
  assert (ST2 : forall s1, OF s s1 ->
    ARes OD (fst (let '(s, got, failed) :=
        if efd_raw s1 =? 0 then
          match k_pipe (kern s1) with
          | (k1, Some (r, w)) => (set_kern s1 k1, Some (r, w), false)
          | (k1, None) => (set_kern s1 k1, None, true)
          end
        else (s1, None, true) in
      match got with
      | None => (R s, true)
      | Some (rfd, wfd) =>
          let key := RAW_KEY j in
          let f := fd_with_handlers (fd_fresh rfd (1000 + j)) (Some (H_RAW j)) None None in
          let s := putfd s key f in
          (bind (fd_register s key) (fun s =>
             R (set_rw s (upd (rw_reg s) j true) (upd (rw_rfd s) j rfd) (upd (rw_wfd s) j wfd))), false)
      end))).
  { intros s1 S1. destruct (efd_raw s1 =? 0); [|cbv beta iota; cbn [fst ARes]; eapply OD_OF; eassumption].
    pose proof (pipe_KOn (kern s1)) as K.
    destruct (k_pipe (kern s1)) as [k1 [[r w]|]]; cbn [fst snd] in K; cbv beta iota zeta; cbn [fst].
    - apply (raw_tail_O s); [exact D|exact RJ|]. eapply OA_l; [exact S1|apply OA_kern; exact K].
    - cbn [ARes]. eapply OD_OF; [exact D|]. eapply OF_trans; [exact S1|apply OF_kern; exact K]. }
  destruct (negb (efd_raw s =? 0)).
  - pose proof (grab_KOn (kern s) (efd_raw s)) as K.
    destruct (eventfd_grab (kern s) (efd_raw s)) as [[k1 [fd|e]] u]; cbn [fst snd] in K; cbv beta iota.
    + cbn [fst]. apply (raw_tail_O s); [exact D|exact RJ|].
      apply (OA_r _ _ (set_kern s k1)); [apply OA_kern; eapply KOn_incl; [exact K|cbn [In]; tauto]|of_plain].
    + assert (S1 : OF s (set_efd (set_kern s k1) (efd_epoll s) u)).
      { apply (OF_trans _ (set_kern s k1)); [apply OF_kern; exact K|of_plain]. }
      destruct (negb (is_enosys e)).
      * cbn [fst ARes]. eapply OD_OF; eassumption.
      * apply ST2. exact S1.
  - cbv beta iota. apply ST2. apply OF_refl.
Qed.

Lemma do_close_er : forall s fd, efd_raw (do_close s fd) = efd_raw s.
Proof. intros. unfold do_close. destruct (k_close _ _) as [k1 ok]. destruct ok; reflexivity. Qed.

Lemma KO_none : forall k k' fd, KO k k' -> 1000 <= fd -> k_open k fd = None -> k_open k' fd = None.
Proof.
  intros k k' fd K L O. destruct (k_open k' fd) eqn:O'; [|reflexivity].
  destruct (K fd L ltac:(rewrite O'; discriminate)) as [A|[]]. contradiction.
Qed.

Lemma raw_unregister_O : forall s j, OD s -> ARes OD (raw_unregister s j).
Proof.
  intros s j D. unfold raw_unregister.
  pose proof (fd_unregister_OF s (RAW_KEY j)) as Q.
  pose proof (CorePhase2K1Fd.fd_unregister_KF (fdnum (fdt s (RAW_KEY j)) + 1) s (RAW_KEY j) ltac:(lia)) as QK.
  destruct (fd_unregister s (RAW_KEY j)) as [s1|s1]; cbn [bind ARes] in *; [|exact I]. cbv zeta.
  pose proof (CorePhase2K1Fd.kf_er _ _ _ QK) as ER1.
  destruct Q as [K1 E1]. pose proof E1 as E1'. unfold owners in E1'. inversion E1' as [[F1 F2 F3 F4 F5 F6 F7 F8 F9]].
  set (s2 := do_close s1 (rw_rfd s1 j)).
  destruct (do_close_OF s1 (rw_rfd s1 j)) as [A2 C2]. fold s2 in A2, C2.
  set (s3 := if raw_is_pipe s2 j then do_close s2 (rw_wfd s2 j) else s2).
  assert (RW2 : rw_rfd s2 = rw_rfd s /\ rw_wfd s2 = rw_wfd s).
  { destruct A2 as [_ E2]. unfold owners in E2. inversion E2 as [[G1 G2 G3 G4 G5 G6 G7 G8 G9]]. split; congruence. }
  assert (RP2 : raw_is_pipe s2 j = raw_is_pipe s j) by (unfold raw_is_pipe; destruct RW2 as [-> ->]; reflexivity).
  assert (A3 : OF s2 s3 /\ (raw_is_pipe s j = true -> k_open (kern s3) (rw_wfd s j) = None)).
  { unfold s3. rewrite RP2.
    destruct (raw_is_pipe s j); [|split; [apply OF_refl|discriminate]].
    destruct (do_close_OF s2 (rw_wfd s2 j)) as [B C]. split; [exact B|]. intros _.
    replace (rw_wfd s j) with (rw_wfd s2 j); [exact C|apply (f_equal (fun f => f j) (proj2 RW2))]. }
  destruct A3 as [A3 C3].
  assert (A : OF s s3) by (eapply OF_trans; [constructor; eassumption|]; eapply OF_trans; eassumption).
  destruct A as [K E]. unfold owners in E. inversion E as [[H1 H2 H3 H4 H5 H6 H7 H8 H9]].
  apply (OD_step [] s); [exact D|exact K| |intros fd []].
  intros fd L [H|[H|[(j' & RJ' & H)|H]]]; unfold Own; cbn [epfd tfd rw_reg rw_rfd rw_wfd active_ref active_fd active_wr set_rw kern].
  - left. left. congruence.
  - left. right; left. congruence.
  - destruct (Z.eq_dec j' j) as [->|NJ].
    + right. destruct H as [H|H].
      * rewrite H. apply (KO_none (kern s2)); [apply (of_k _ _ A3)|rewrite <- H; exact L|rewrite <- F5; exact C2].
      * destruct (raw_is_pipe s j) eqn:RP; [rewrite H; apply C3; reflexivity|].
        assert (EV : rw_wfd s j = rw_rfd s j) by (unfold raw_is_pipe in RP; apply negb_false_iff in RP; apply Z.eqb_eq in RP; exact RP).
        rewrite H, EV. apply (KO_none (kern s2)); [apply (of_k _ _ A3)|rewrite <- EV, <- H; exact L|rewrite <- F5; exact C2].
    + left. right; right; left. exists j'. rewrite upd_other by exact NJ. rewrite H4, H5, H6. tauto.
  - left. right; right; right. rewrite H7, H8, H9. exact H.
Qed.

Lemma raw_post_OF : forall s j, OF s (raw_post s j).
Proof.
  intros s j. unfold raw_post.
  match goal with |- context [let '(k1, _) := ?X in _] => assert (K : KO (kern s) (fst X)); [|destruct X as [k1 x]] end.
  { destruct (raw_is_pipe _ _); apply KO_write. }
  cbn [fst] in K. apply OF_kern. exact K.
Qed.

(* ---------- the kick descriptor ---------- *)
Lemma event_rx_on_O : forall s, OD s -> 0 <= active_ref s ->
  ARes (fun s' => OD s' /\ rw_reg s' = rw_reg s) (fst (event_rx_on s)).
Proof.
  intros s D NN. unfold event_rx_on.
  set (P := fun s1 => exists N, KOn N (kern s) (kern s1) /\
      (epfd s1, tfd s1, rw_reg s1, rw_rfd s1, rw_wfd s1) = (epfd s, tfd s, rw_reg s, rw_rfd s, rw_wfd s) /\
      active_ref s1 = active_ref s /\
      ((active_ref s <> 0 /\ N = [] /\ active_fd s1 = active_fd s /\ active_wr s1 = active_wr s) \/
       (active_ref s = 0 /\ forall x, In x N -> x = active_fd s1 \/ x = active_wr s1))).
  match goal with |- context [match ?X with R _ => _ | Halt _ => _ end] =>
    assert (Q : ARes P X); [|destruct X as [s1|s1]] end.
  { destruct (Z.eqb_spec (active_ref s) 0) as [Z0|NZ].
    2:{ cbn [ARes]. exists []. split; [apply KO_refl|]. split; [reflexivity|]. split; [reflexivity|]. left. tauto. }
    pose proof (grab_KOn (kern s) (efd_epoll s)) as K.
    destruct (eventfd_grab (kern s) (efd_epoll s)) as [[k1 [fd|e]] u]; cbn [fst snd] in K.
    - pose proof (KO_write k1 fd 8 1) as K2. destruct (k_write k1 fd 8 1) as [k2 x]. cbn [fst] in K2. cbn [ARes].
      exists [fd]. split; [eapply KOn_r; eassumption|]. split; [reflexivity|]. split; [reflexivity|]. right. split; [exact Z0|].
      intros y [<-|[]]. left. reflexivity.
    - cbv zeta. set (s0 := set_efd (set_kern s k1) u (efd_raw s)).
      pose proof (pipe_KOn (kern s0)) as KP.
      destruct (k_pipe (kern s0)) as [k2 [[r w]|]]; cbn [fst snd] in KP; [|exact I].
      pose proof (KO_write k2 w 1 0) as K3. destruct (k_write k2 w 1 0) as [k3 [n|e3]]; cbn [fst] in K3; [|exact I].
      cbn [ARes]. exists [r; w]. split.
      + eapply KOn_l; [exact K|]. eapply KOn_r; [exact KP|exact K3].
      + split; [reflexivity|]. split; [reflexivity|]. right. split; [exact Z0|].
        intros x [<-|[<-|[]]]; [left|right]; reflexivity. }
  - cbn [ARes] in Q. destruct Q as (N & K & E & AR & CASE). cbv zeta.
    set (s2 := set_activefd s1 (active_fd s1) (active_ref s1 + 1)).
    destruct (ctl_retry s2 CTL_ADD (active_fd s2) 0 (-1)) as [s3 e] eqn:C. apply ctl_retry_OF in C.
    assert (D3 : OD s3 /\ rw_reg s3 = rw_reg s).
    { destruct C as [KC EC]. unfold owners in EC. inversion EC as [[C1 C2 C3 C4 C5 C6 C7 C8 C9]].
      inversion E as [[E1 E2 E4 E5 E6]]. split; [|congruence]. cbn [s2 epfd tfd rw_reg rw_rfd rw_wfd active_fd active_wr active_ref set_activefd] in *.
      apply (OD_step N s); [exact D|eapply KOn_r; [exact K|exact KC]| |].
      - intros fd _ [H|[H|[(j' & RJ' & H)|H]]]; left; unfold Own.
        + left. congruence.
        + right; left. congruence.
        + right; right; left. exists j'. rewrite C4, C5, C6, E4, E5, E6. tauto.
        + right; right; right. destruct CASE as [(NZ & _ & A1 & A2)|(Z0 & _)]; [|tauto].
          rewrite C7, C8, C9, A1, A2, AR. split; [lia|apply H].
      - intros fd IN. right; right; right. rewrite C7, C8, C9.
        destruct CASE as [(_ & -> & _)|(Z0 & NW)]; [destruct IN|]. split; [lia|apply NW; exact IN]. }
    destruct e; cbn [fst ARes]; [exact D3|]. split; [eapply OD_OF; [apply D3|of_plain]|apply D3].
  - cbn [fst ARes]. exact I.
Qed.

Lemma event_rx_off_O : forall s, OD s -> ARes OD (event_rx_off s).
Proof.
  intros s D. unfold event_rx_off.
  destruct (ctl_retry s CTL_DEL (active_fd s) 0 (-1)) as [s1 e] eqn:C. apply ctl_retry_OF in C.
  destruct e; [exact I|]. cbv zeta. cbn [ARes].
  destruct C as [K1 E1]. unfold owners in E1. inversion E1 as [[C1 C2 C3 C4 C5 C6 C7 C8 C9]].
  set (s2 := set_activefd s1 (active_fd s1) (active_ref s1 - 1)).
  match goal with |- OD (set_numobjs ?S3 _) => set (s3 := S3) end.
  assert (A3 : KO (kern s1) (kern s3) /\
               (epfd s3, tfd s3, rw_reg s3, rw_rfd s3, rw_wfd s3) = (epfd s1, tfd s1, rw_reg s1, rw_rfd s1, rw_wfd s1) /\
               active_ref s3 = active_ref s1 - 1 /\
               (active_ref s1 - 1 <> 0 -> active_fd s3 = active_fd s1 /\ active_wr s3 = active_wr s1) /\
               (active_ref s1 - 1 = 0 -> (1000 <= active_fd s1 -> k_open (kern s3) (active_fd s1) = None) /\
                                          (1000 <= active_wr s1 -> k_open (kern s3) (active_wr s1) = None))).
  { unfold s3. change (active_ref s2) with (active_ref s1 - 1).
    destruct (Z.eqb_spec (active_ref s1 - 1) 0) as [Z0|NZ].
    2:{ split; [apply KO_refl|]. split; [reflexivity|]. split; [reflexivity|]. split; [intros _; split; reflexivity|intros X; contradiction]. }
    destruct (do_close_OF s2 (active_fd s2)) as [[KA EA] CA]. set (sa := do_close s2 (active_fd s2)) in *.
    unfold owners in EA. inversion EA as [[A1 A2 A3 A4 A5 A6 A7 A8 A9]].
    destruct (Z.eqb_spec (active_wr sa) (-1)) as [W1|NW].
    - split; [exact KA|]. split; [congruence|]. split; [rewrite A9; reflexivity|]. split; [intros X; exfalso; lia|].
      intros _. split; [intros _; try rewrite A7; exact CA|]. intros LW. rewrite A8 in W1. change (active_wr s2) with (active_wr s1) in W1. lia.
    - destruct (do_close_OF sa (active_wr sa)) as [[KB EB] CB]. set (sb := do_close sa (active_wr sa)) in *.
      unfold owners in EB. inversion EB as [[B1 B2 B3 B4 B5 B6 B7 B8 B9]].
      cbn [kern epfd tfd rw_reg rw_rfd rw_wfd active_ref set_activewr].
      split; [eapply KO_trans; eassumption|]. split; [congruence|]. split; [rewrite B9, A9; reflexivity|]. split; [intros X; exfalso; lia|].
      intros _. split.
      + intros LL. rewrite ?B7, ?A7 in LL |- *. apply (KO_none (kern sa)); [exact KB|exact LL|exact CA].
      + intros _. rewrite ?B8 in *. exact CB. }
  destruct A3 as (K3 & E3 & R3 & NZ3 & Z3). inversion E3 as [[F1 F2 F4 F5 F6]].
  apply (OD_step [] s); [exact D|cbn [kern set_numobjs]; eapply KO_trans; eassumption| |intros fd []].
  intros fd L [H|[H|[(j' & RJ' & H)|H]]]; unfold Own; cbn [epfd tfd rw_reg rw_rfd rw_wfd active_ref active_fd active_wr set_numobjs kern].
  - left. left. congruence.
  - left. right; left. congruence.
  - left. right; right; left. exists j'. rewrite F4, F5, F6, C4, C5, C6. tauto.
  - destruct (Z.eq_dec (active_ref s1 - 1) 0) as [Z0|NZ].
    + right. destruct (Z3 Z0) as [CA CW]. destruct H as [_ [H|H]]; rewrite H in *.
      * rewrite <- C7. apply CA. rewrite C7. exact L.
      * rewrite <- C8. apply CW. rewrite C8. exact L.
    + left. right; right; right. destruct (NZ3 NZ) as [X1 X2]. rewrite R3, X1, X2, C7, C8. split; [exact NZ|apply H].
Qed.

(* ---------- events ---------- *)
Lemma event_register_O : forall s j, OD s -> 0 <= active_ref s -> (ev_count s = 0 -> rw_reg s KICK_RAW = false) ->
  ARes OD (fst (event_register s j)).
Proof.
  intros s j D NN KR. unfold event_register. cbv zeta.
  set (s0 := set_ev (set_numobjs s (numobjs s + 1)) _ _ _).
  assert (T0 : OF s s0) by (unfold s0; of_plain).
  destruct (Z.eqb_spec (ev_count (set_numobjs s (numobjs s + 1))) 0) as [Z0|NZ].
  2:{ cbn [fst bind ARes]. eapply OD_OF; [exact D|]. eapply OF_trans; [exact T0|of_plain]. }
  specialize (KR Z0).
  assert (ST : forall r, ARes (fun s' => OD s' /\ rw_reg s' = rw_reg s) r ->
    ARes OD (fst (let '(r0, failed) :=
          match r with
          | Halt s1 => (Halt s1, false)
          | R s1 =>
              if use_raw s1 then
                match raw_register s1 KICK_RAW with
                | (R s2, true) =>
                    (R (set_numobjs (set_ev s2 (ev_count s2 - 1) (ev_reg s2) (use_raw s2)) (numobjs s2 - 1)), true)
                | (r2, fl) => (r2, fl)
                end
              else (R s1, false)
          end in
        if failed then (r0, true)
        else (bind r0 (fun s => R (set_ev s (ev_count s) (upd (ev_reg s) j true) (use_raw s))), false)))).
  { intros r Q. destruct r as [s1|s1]; [|exact I]. cbn [ARes] in Q. destruct Q as [D1 R1].
    destruct (use_raw s1).
    - pose proof (raw_register_O s1 KICK_RAW D1 ltac:(rewrite R1; exact KR)) as Q2.
      destruct (raw_register s1 KICK_RAW) as [[s2|s2] fl]; cbn [fst ARes] in Q2; destruct fl; cbn [fst bind ARes]; try exact I.
      + eapply OD_OF; [exact Q2|of_plain].
      + eapply OD_OF; [exact Q2|of_plain].
    - cbn [fst bind ARes]. eapply OD_OF; [exact D1|of_plain]. }
  assert (D0 : OD s0) by (eapply OD_OF; eassumption).
  destruct (negb (use_raw s0)).
  - destruct (is_epoll s0).
    + pose proof (event_rx_on_O s0 D0 NN) as Q.
      destruct (event_rx_on s0) as [[s1|s1] fl]; cbn [fst ARes] in Q; [destruct fl|].
      * apply (ST (R _)). cbn [ARes]. destruct Q as [Q1 Q2]. split; [eapply OD_OF; [exact Q1|of_plain]|exact Q2].
      * apply (ST (R s1)). exact Q.
      * apply (ST (Halt s1)). exact I.
    + apply (ST (R _)). cbn [ARes]. split; [eapply OD_OF; [exact D0|of_plain]|reflexivity].
  - apply (ST (R s0)). cbn [ARes]. split; [exact D0|reflexivity].
Qed.

Lemma event_unregister_O : forall s j, OD s -> ARes OD (event_unregister s j).
Proof.
  intros s j D. unfold event_unregister. cbv zeta.
  set (s0 := set_ev _ _ _ _). assert (D0 : OD s0) by (eapply OD_OF; [exact D|unfold s0; of_plain]).
  eapply ARes_bind with (P := OD).
  - destruct (Z.eqb_spec (ev_count s0) 0) as [Z0|NZ]; [|exact D0].
    destruct (use_raw s0) eqn:UR; [|apply event_rx_off_O; exact D0].
    apply raw_unregister_O; exact D0.
  - cbn beta. intros s1 Q. cbn [ARes]. eapply OD_OF; [exact Q|of_plain].
Qed.

(* ---------- every action ---------- *)
(* what the state invariant has to supply *)
Record OH (s : core) : Prop := {
  oh_ref : 0 <= active_ref s;
  oh_kick : ev_count s = 0 -> rw_reg s KICK_RAW = false;
  oh_evk : use_raw s = true -> 1 <= ev_count s -> rw_reg s KICK_RAW = true }.

Lemma OD_after : forall s e r, (OD (emit s e) -> ARes OD r) -> OD s -> ARes OD r.
Proof. intros s e r H D. apply H. eapply OD_OF; [exact D|of_plain]. Qed.

Lemma OD_res : forall r (e : core -> tev), ARes OD r -> ARes OD (bind r (fun s => R (emit s (e s)))).
Proof. intros r e H. eapply ARes_bind; [exact H|]. cbn beta. intros s1 Q. cbn [ARes]. eapply OD_OF; [exact Q|of_plain]. Qed.

Lemma OD_ARes : forall s r, OD s -> ARes (OF s) r -> ARes OD r.
Proof. intros s r D H. eapply ARes_imp; [exact H|]. cbn beta. intros s1 Q. eapply OD_OF; eassumption. Qed.

Lemma lift_heap_OF : forall s o, ARes (OF s) (lift_heap s o).
Proof. intros s [h|h|]; cbn [lift_heap ARes halt]; [of_plain|exact I|exact I]. Qed.

Lemma OF_validate : forall s, OF s (validate_now s).
Proof. intros. unfold validate_now. dm; [apply OF_refl|of_plain]. Qed.

Lemma OF_emit : forall s e, OF s (emit s e). Proof. intros. of_plain. Qed.

Lemma OF_kern_act : forall s a k', KO (kern s) k' -> OF s (set_kern (emit s (TAct a)) k').
Proof. intros. constructor; [assumption|reflexivity]. Qed.

Ltac ofa := match goal with |- ARes (OF ?s) ?r =>
  match r with context [emit s (TAct ?a)] =>
    eapply ARes_imp; [|cbn beta; intros ? ?; eapply OF_trans; [apply (OF_emit s (TAct a))|eassumption]] end end.

Theorem do_action_O : forall s a, OD s -> OH s -> wf_action a -> ARes OD (do_action s a).
Proof.
  intros s a D H W. destruct a; cbn [do_action wf_action] in *; unfold ok_idx in *.
  - (* AFdReg *) apply (OD_ARes s _ D). repeat dm; cbn [ARes]; try apply OF_refl. ofa. apply fd_register_OF.
  - (* AFdTry *) dm; [exact D|].
    pose proof (fd_register_try_OF (emit s (TAct (AFdTry i))) i) as Q.
    destruct (fd_register_try _ i) as [r failed]. cbn [fst] in Q.
    apply (OD_res r (fun _ => TRes 0 i (if failed then -1 else 0))).
    eapply OD_ARes; [|exact Q]. eapply OD_OF; [exact D|apply OF_emit].
  - (* AFdUnreg *) apply (OD_ARes s _ D). dm; [|apply OF_refl]. ofa. apply fd_unregister_OF.
  - apply (OD_ARes s _ D). ofa. apply fd_set_handler_OF.
  - cbn [ARes]. eapply OD_OF; [exact D|of_plain].
  - dm; cbn [ARes]; [exact D|eapply OD_OF; [exact D|of_plain]].
  - (* AKSet *) cbn [ARes]. eapply OD_OF; [exact D|]. apply OF_kern_act. unfold k_set_cond.
    destruct (k_get (kern s) (100 + i)) as [v|] eqn:G; [|apply KO_refl]. apply KO_put_user. lia.
  - (* AKClose *) dm; cbn [ARes]; [exact D|]. eapply OD_OF; [exact D|]. apply OF_kern_act. unfold k_user_close.
    destruct (k_get (kern s) (100 + i)) as [v|] eqn:G; [|apply KO_refl]. apply KO_put_user. lia.
  - (* AKOpen *) cbn [ARes]. eapply OD_OF; [exact D|]. apply OF_kern_act. unfold k_user_fd. apply KO_put_user. lia.
  - apply (OD_ARes s _ D). dm; [apply OF_refl|]. ofa. apply lift_heap_OF.
  - apply (OD_ARes s _ D). dm; [apply OF_refl|]. cbv zeta. eapply ARes_imp; [apply lift_heap_OF|]. cbn beta. intros s1 Q.
    eapply OF_trans; [|exact Q]. eapply OF_trans; [apply OF_validate|apply OF_emit].
  - apply (OD_ARes s _ D). dm; [|apply OF_refl]. ofa. apply lift_heap_OF.
  - dm; cbn [ARes]; [exact D|eapply OD_OF; [exact D|of_plain]].
  - dm; cbn [ARes]; [exact D|]. eapply OD_OF; [exact D|]. apply OF_plain; unfold task_register; cbv zeta; repeat dm; reflexivity.
  - dm; cbn [ARes]; [|exact D]. eapply OD_OF; [exact D|of_plain].
  - dm; cbn [ARes]; [exact D|]. eapply OD_OF; [exact D|of_plain].
  - (* AEvReg *) dm; [exact D|].
    assert (Q : ARes OD (fst (event_register (emit s (TAct (AEvReg j))) j))).
    { apply event_register_O; [eapply OD_OF; [exact D|apply OF_emit]|apply (oh_ref _ H)|apply (oh_kick _ H)]. }
    destruct (event_register _ j) as [r failed]. cbn [fst] in Q.
    apply (OD_res r (fun _ => TRes 1 j (if failed then -1 else 0))). exact Q.
  - (* AEvUnreg *) destruct (ev_reg s j) eqn:ER; [|exact D].
    apply event_unregister_O; eapply OD_OF; [exact D|apply OF_emit].
  - dm; cbn [ARes]; [|exact D]. eapply OD_OF; [exact D|]. apply OF_plain; unfold event_post; repeat dm; try reflexivity;
      unfold task_register; cbv zeta; repeat dm; reflexivity.
  - dm; cbn [ARes]; [exact D|eapply OD_OF; [exact D|of_plain]].
  - (* ARwReg *) destruct (rw_reg s j) eqn:RG; [exact D|].
    assert (Q : ARes OD (fst (raw_register (emit s (TAct (ARwReg j))) j))).
    { apply raw_register_O; [eapply OD_OF; [exact D|apply OF_emit]|exact RG]. }
    destruct (raw_register _ j) as [r failed]. cbn [fst] in Q.
    apply (OD_res r (fun _ => TRes 2 j (if failed then -1 else 0))). exact Q.
  - (* ARwUnreg *) destruct (rw_reg s j) eqn:RG; [|exact D].
    apply raw_unregister_O; eapply OD_OF; [exact D|apply OF_emit].
  - dm; cbn [ARes]; [|exact D]. eapply OD_OF; [exact D|]. eapply OF_trans; [apply (OF_emit s (TAct (ARwPost j)))|apply raw_post_OF].
  - dm; cbn [ARes]; [exact D|eapply OD_OF; [exact D|of_plain]].
  - cbn [ARes]. eapply OD_OF; [exact D|of_plain].
  - cbn [ARes]. eapply OD_OF; [exact D|]. apply OF_kern_act. apply KO_fields. reflexivity.
  - cbn [ARes]. eapply OD_OF; [exact D|of_plain].
  - cbn [ARes]. eapply OD_OF; [exact D|]. eapply OF_trans; [apply (OF_emit s (TAct AValidate))|apply OF_validate].
Qed.
