(* CorePhase2TimeR3.v -- the raw-event invariant R1 of DESIGN A.8: a raw event that was
   posted since its handler last ran has a non-zero counter (eventfd) / fill (pipe).
   Definitions and the frames of the descriptor, event and raw-event layers. *)
From Coq Require Import List ZArith Bool Lia.
From Ivv Require Import Core.Kernel Core.CoreTypes Core.CoreFd Core.CoreModel Core.Monitors Core.CoreSpec
  Core.CoreRelBase Core.CoreInvBase Core.CorePhase2TimeMon Core.CorePhase2TimeFr Core.CorePhase2TimeT1 Core.CorePhase2TimeR3K.
Import ListNotations.
Local Open Scope Z_scope.

Definition r16 (j : Z) : Prop := 0 <= j < 16.

Record R3 (s : core) : Prop := {
  r3_kp : KP (kern s);
  r3_reg : forall j, r16 j -> a_rwp (mst s) j = true -> rw_reg s j = true;
  r3_cnt : forall j, r16 j -> rw_reg s j = true -> forall v, k_get (kern s) (rw_rfd s j) = Some v ->
           0 <= vcnt v /\ (a_rwp (mst s) j = true -> 0 < vcnt v) }.

(* frame: the counters of all dynamic descriptors outside X, the raw-event table below 16 *)
Record F3 (X : Z -> Prop) (s s' : core) : Prop := {
  f3_cnt : CNTx X (kern s) (kern s');
  f3_rw : forall j, r16 j -> rw_reg s' j = rw_reg s j /\ rw_rfd s' j = rw_rfd s j /\ rw_wfd s' j = rw_wfd s j;
  f3_efd : efd_raw s' = efd_raw s \/ True;
  f3_tr : TrX s s' }.

Lemma F3_refl : forall X s, F3 X s s.
Proof. intros. constructor; [apply CNTx_refl|auto|auto|apply TrX_refl]. Qed.

Lemma F3_trans : forall X a b c, F3 X a b -> F3 X b c -> F3 X a c.
Proof.
  intros X a b c [A1 A2 A3 A4] [B1 B2 B3 B4]. constructor; [eapply CNTx_trans; eassumption| |auto|eapply TrX_trans; eassumption].
  intros j J. destruct (A2 j J) as (P & Q & W). destruct (B2 j J) as (P' & Q' & W'). repeat split; congruence.
Qed.

Lemma F3_weaken : forall (X Y : Z -> Prop) s s', (forall fd, X fd -> Y fd) -> F3 X s s' -> F3 Y s s'.
Proof. intros X Y s s' H [A B C D]. constructor; [eapply CNTx_weaken; eassumption|exact B|exact C|exact D]. Qed.

Definition F3n := F3 (fun _ => False).

Lemma lk_fields3 : forall s s', lk s' = lk s ->
  vfds (kern s') = vfds (kern s) /\ next_fd (kern s') = next_fd (kern s) /\ rw_reg s' = rw_reg s /\
  rw_rfd s' = rw_rfd s /\ rw_wfd s' = rw_wfd s.
Proof. intros s s' H. unfold lk in H. inversion H. repeat split; assumption. Qed.

Lemma FF_F3 : forall s s', FF s s' -> F3n s s'.
Proof.
  intros s s' (_ & L & T). destruct (lk_fields3 _ _ L) as (V & N & A & B & C).
  constructor; [apply CNT_fields; assumption|intros j _; rewrite A, B, C; auto|auto|exact T].
Qed.

Lemma F3_kern : forall X s k1, CNTx X (kern s) k1 -> F3 X s (set_kern s k1).
Proof. intros X s k1 H. constructor; [exact H|auto|auto|apply TrX_same; reflexivity]. Qed.

Lemma F3_plain : forall s s', kern s' = kern s -> rw_reg s' = rw_reg s -> rw_rfd s' = rw_rfd s -> rw_wfd s' = rw_wfd s ->
  trace s' = trace s -> F3n s s'.
Proof.
  intros s s' K A B C T. constructor; [rewrite K; apply CNTx_refl|intros j _; rewrite A, B, C; auto|auto|apply TrX_same; exact T].
Qed.

Definition F3r (X : Z -> Prop) (s : core) (r : res) : Prop := match r with R s' => F3 X s s' | Halt _ => True end.

Lemma F3r_bind : forall X s r f, F3r X s r -> (forall s1, F3 X s s1 -> F3r X s1 (f s1)) -> F3r X s (bind r f).
Proof.
  intros X s r f H K. destruct r as [s1|s1]; cbn [bind F3r] in *; [|exact I].
  specialize (K s1 H). destruct (f s1); cbn [F3r] in *; [eapply F3_trans; eassumption|exact I].
Qed.

Lemma FFr_F3r : forall s r, FFr s r -> F3r (fun _ => False) s r.
Proof. intros s r H. destruct r; cbn [F3r]; [apply FF_F3; exact H|exact I]. Qed.

(* the invariant across a frame *)
Lemma R3_F3 : forall (X : Z -> Prop) s s', R3 s -> F3 X s s' ->
  (forall j, r16 j -> rw_reg s j = true ->
     1000 <= rw_rfd s j /\ ~ X (rw_rfd s j) /\ k_get (kern s) (rw_rfd s j) <> None) -> R3 s'.
Proof.
  intros X s s' [KPs RG CN] [C RW _ T] H.
  destruct (C KPs) as (KP' & NX & CC).
  destruct (silent_ghost _ _ (TrX_silent _ _ T)) as (_ & _ & AR).
  constructor; [exact KP'| |].
  - intros j J A. rewrite AR in A. rewrite (proj1 (RW j J)). apply RG; assumption.
  - intros j J R v G. destruct (RW j J) as (E1 & E2 & _). rewrite E1 in R. rewrite E2 in G. rewrite AR.
    destruct (H j J R) as (L & NXX & EX).
    destruct (k_get (kern s) (rw_rfd s j)) as [v0|] eqn:G0; [|contradiction].
    destruct (CC _ v0 L NXX G0) as (v' & G' & E). rewrite G in G'. inversion G'; subst v'. rewrite E. apply (CN j J R v0 G0).
Qed.

(* ---------- fresh descriptors ---------- *)
Lemma CNT_absorb : forall (X : Z -> Prop) k0 k1 k2, CNT k0 k1 -> CNTx X k1 k2 -> (forall x, X x -> next_fd k0 <= x) -> CNT k0 k2.
Proof.
  intros X k0 k1 k2 A B FR K. pose proof K as (KI0 & _). destruct (A K) as (K1 & N1 & C1). destruct (B K1) as (K2 & N2 & C2).
  split; [exact K2|split; [lia|]]. intros fd v F _ G.
  destruct (C1 fd v F (fun H => H) G) as (v1 & G1 & E1).
  assert (NX : ~ X fd).
  { intros XX. specialize (FR fd XX). assert (fd < next_fd k0) by (apply KI0; congruence). lia. }
  destruct (C2 fd v1 F NX G1) as (v2 & G2 & E2). exists v2. split; [exact G2|congruence].
Qed.

Lemma k_get_set_nefd : forall k n fd, k_get (k_set_nefd k n) fd = k_get k fd.
Proof. reflexivity. Qed.

Lemma eventfd_new : forall k b k1 fd, k_eventfd k b = (k1, inl fd) -> fd = next_fd k /\ k_get k1 fd = Some (vfd0 K_EVENTFD).
Proof.
  intros k b k1 fd. unfold k_eventfd. destruct (emfile (flt k)); [discriminate|].
  destruct (efd_cut k && (no_eventfd (flt k) || (b && no_eventfd2 (flt k)))); [discriminate|].
  unfold k_alloc. intros E. inversion E; subst. rewrite k_get_set_nefd, k_get_put, Z.eqb_refl. auto.
Qed.

Lemma eventfd_next : forall k b, next_fd k <= next_fd (fst (k_eventfd k b)).
Proof.
  intros k b. unfold k_eventfd. destruct (emfile (flt k)); [cbn; lia|].
  destruct (efd_cut k && (no_eventfd (flt k) || (b && no_eventfd2 (flt k)))); cbn; lia.
Qed.

Lemma grab_new : forall k u k1 fd u', eventfd_grab k u = (k1, inl fd, u') ->
  next_fd k <= fd /\ k_get k1 fd = Some (vfd0 K_EVENTFD).
Proof.
  intros k u k1 fd u'. unfold eventfd_grab.
  assert (OP : forall k0 u0, (if negb (u0 =? 0) then
      match k_eventfd k0 false with
      | (k1, inl fd) => (k1, inl fd, u0)
      | (k1, inr e) => if is_enosys e then (k1, @inr Z errno ENOSYS, 0) else (k1, inr e, u0)
      end
    else (k0, inr ENOSYS, 0)) = (k1, inl fd, u') -> next_fd k0 <= fd /\ k_get k1 fd = Some (vfd0 K_EVENTFD)).
  { intros k0 u0. destruct (negb (u0 =? 0)); [|discriminate].
    destruct (k_eventfd k0 false) as [k2 [fd2|e]] eqn:E.
    - intros H. inversion H; subst. destruct (eventfd_new _ _ _ _ E) as [-> G]. split; [lia|exact G].
    - destruct (is_enosys e); discriminate. }
  destruct (u =? 2).
  - destruct (k_eventfd k true) as [k2 [fd2|e]] eqn:E.
    + intros H. inversion H; subst. destruct (eventfd_new _ _ _ _ E) as [-> G]. split; [lia|exact G].
    + destruct (is_enosys e || is_einval e); [|discriminate].
      intros H. destruct (OP k2 1 H) as [A B]. pose proof (eventfd_next k true) as N. rewrite E in N. cbn [fst] in N. split; [lia|exact B].
  - apply OP.
Qed.

Lemma grab_next : forall k u, next_fd k <= next_fd (fst (fst (eventfd_grab k u))).
Proof.
  intros k u. unfold eventfd_grab.
  assert (OP : forall k0 u0, next_fd k0 <= next_fd (fst (fst (if negb (u0 =? 0) then
      match k_eventfd k0 false with
      | (k1, inl fd) => (k1, inl fd, u0)
      | (k1, inr e) => if is_enosys e then (k1, @inr Z errno ENOSYS, 0) else (k1, inr e, u0)
      end
    else (k0, inr ENOSYS, 0))))).
  { intros k0 u0. destruct (negb (u0 =? 0)); [|cbn; lia].
    pose proof (eventfd_next k0 false) as N. destruct (k_eventfd k0 false) as [k2 [fd2|e]]; cbn [fst] in *; [exact N|].
    destruct (is_enosys e); exact N. }
  destruct (u =? 2); [|apply OP].
  pose proof (eventfd_next k true) as N. destruct (k_eventfd k true) as [k2 [fd2|e]]; cbn [fst] in *; [exact N|].
  destruct (is_enosys e || is_einval e); [|exact N]. specialize (OP k2 1). lia.
Qed.

Lemma pipe_new : forall k k1 r w, k_pipe k = (k1, Some (r, w)) ->
  r = next_fd k /\ w = next_fd k + 1 /\ k_get k1 r = Some (with_peer (vfd0 K_PIPE_R) w true) /\
  k_get k1 w = Some (with_peer (vfd0 K_PIPE_W) r true).
Proof.
  intros k k1 r w. unfold k_pipe. destruct (emfile (flt k)); [discriminate|]. unfold k_alloc.
  intros E. inversion E; subst. cbn [next_fd k_put k_set_vfds k_set_next].
  split; [reflexivity|split; [reflexivity|]]. rewrite !k_get_put, Z.eqb_refl.
  destruct (Z.eqb_spec (next_fd k) (next_fd k + 1)); [lia|]. rewrite Z.eqb_refl. auto.
Qed.

(* ---------- the event and raw-event layers ---------- *)
Lemma do_close_F3 : forall s fd, F3n s (do_close s fd).
Proof.
  intros s fd. unfold do_close. pose proof (CNT_close (kern s) fd) as C.
  destruct (k_close (kern s) fd) as [k1 ok]. cbn [fst] in C.
  assert (A : F3n s (set_kern s k1)) by (apply F3_kern; exact C).
  destruct ok; [|exact A]. eapply F3_trans; [exact A|].
  constructor; [apply CNTx_refl|auto|auto|apply TrX_emit; exact I].
Qed.

Lemma ctl_retry_F3 : forall s op fd ev d s1 r, ctl_retry s op fd ev d = (s1, r) -> F3n s s1.
Proof. intros. apply FF_F3. eapply ctl_retry_FF. eassumption. Qed.

Lemma F3_setters : forall s s', kern s' = kern s -> rw_reg s' = rw_reg s -> rw_rfd s' = rw_rfd s -> rw_wfd s' = rw_wfd s ->
  trace s' = trace s -> F3n s s'.
Proof. exact F3_plain. Qed.

Lemma F3_halt : forall s e, cs e -> F3r (fun _ => False) s (halt s e).
Proof. intros. exact I. Qed.

Lemma event_rx_on_F3 : forall s, F3r (fun _ => False) s (fst (event_rx_on s)).
Proof.
  intros s. unfold event_rx_on.
  assert (P : F3r (fun _ => False) s (if active_ref s =? 0 then
      match eventfd_grab (kern s) (efd_epoll s) with
      | (k1, inl fd, u) =>
          let '(k2, _) := k_write k1 fd 8 1 in
          R (set_activefd (set_efd (set_kern s k2) u (efd_raw s)) fd (active_ref s))
      | (k1, inr _, u) =>
          let s := set_efd (set_kern s k1) u (efd_raw s) in
          match k_pipe (kern s) with
          | (k2, Some (r, w)) =>
              let '(k3, wr) := k_write k2 w 1 0 in
              match wr with
              | inl _ => R (set_activewr (set_activefd (set_kern s k3) r (active_ref s)) w)
              | inr _ => halt (set_kern s k3) TFatal
              end
          | (k2, None) => halt (set_kern s k2) TFatal
          end
      end
    else R s)).
  { destruct (active_ref s =? 0); [|apply F3_refl].
    pose proof (CNT_grab (kern s) (efd_epoll s)) as CG. pose proof (grab_new (kern s) (efd_epoll s)) as GN.
    pose proof (grab_next (kern s) (efd_epoll s)) as GNX.
    destruct (eventfd_grab (kern s) (efd_epoll s)) as [[k1 [fd|e]] u]; cbn [fst] in CG, GNX.
    - destruct (GN k1 fd u eq_refl) as [FR G1].
      pose proof (CNTx_write k1 fd 8 1) as CW. destruct (k_write k1 fd 8 1) as [k2 x]. cbn [fst] in CW.
      cbn [F3r]. constructor; [|auto|auto|apply TrX_same; reflexivity].
      cbn [kern set_activefd set_efd set_kern]. eapply CNT_absorb; [exact CG|exact CW|].
      intros y (v & O & [[_ ->]|[KW _]]); [exact FR|].
      apply k_open_get in O. destruct O as [O _]. rewrite G1 in O. inversion O; subst v. discriminate KW.
    - cbv zeta. cbn [kern set_efd set_kern].
      pose proof (CNT_pipe k1) as CP. pose proof (pipe_new k1) as PN.
      destruct (k_pipe k1) as [k2 [[r w]|]]; cbn [fst] in CP; [|exact I].
      destruct (PN k2 r w eq_refl) as (Er & Ew & Gr & Gw).
      pose proof (CNTx_write k2 w 1 0) as CW. destruct (k_write k2 w 1 0) as [k3 wr]. cbn [fst] in CW.
      destruct wr; [|exact I]. cbn [F3r]. constructor; [|auto|auto|apply TrX_same; reflexivity].
      cbn [kern set_activewr set_activefd set_efd set_kern].
      eapply CNT_absorb; [eapply CNTx_trans; [exact CG|exact CP]|exact CW|].
      intros y (v & O & [[KE _]|[_ ->]]); apply k_open_get in O; destruct O as [O _]; rewrite Gw in O; inversion O; subst v.
      + discriminate KE.
      + cbn [vpeer with_peer]. rewrite Er.
        exact GNX. }
  match goal with |- F3r _ s (fst (match ?X with R _ => _ | Halt _ => _ end)) => destruct X as [s1|s1] end; cbn [fst]; [|exact I].
  cbn [F3r] in P.
  set (s2 := set_activefd s1 (active_fd s1) (active_ref s1 + 1)).
  destruct (ctl_retry s2 CTL_ADD (active_fd s2) 0 (-1)) as [s3 e] eqn:C.
  pose proof (ctl_retry_F3 _ _ _ _ _ _ _ C) as A3.
  assert (A2 : F3n s1 s2) by (apply F3_plain; reflexivity).
  destruct e; cbn [fst F3r].
  - eapply F3_trans; [exact P|]. eapply F3_trans; eassumption.
  - eapply F3_trans; [exact P|]. eapply F3_trans; [exact A2|]. eapply F3_trans; [exact A3|]. apply F3_plain; reflexivity.
Qed.

Lemma event_rx_off_F3 : forall s, F3r (fun _ => False) s (event_rx_off s).
Proof.
  intros s. unfold event_rx_off.
  destruct (ctl_retry s CTL_DEL (active_fd s) 0 (-1)) as [s1 e] eqn:C.
  pose proof (ctl_retry_F3 _ _ _ _ _ _ _ C) as A1.
  destruct e; [exact I|]. cbn [F3r]. eapply F3_trans; [exact A1|].
  set (s2 := set_activefd s1 (active_fd s1) (active_ref s1 - 1)).
  assert (A2 : F3n s1 s2) by (apply F3_plain; reflexivity).
  eapply F3_trans; [exact A2|].
  match goal with |- F3 _ s2 (set_numobjs ?X _) => assert (A3 : F3n s2 X) end.
  { destruct (active_ref s2 =? 0); [|apply F3_refl].
    set (s3 := do_close s2 (active_fd s2)). assert (A3 : F3n s2 s3) by apply do_close_F3.
    eapply F3_trans; [exact A3|]. destruct (active_wr s3 =? -1); [apply F3_refl|].
    eapply F3_trans; [apply do_close_F3|]. apply F3_plain; reflexivity. }
  eapply F3_trans; [exact A3|]. apply F3_plain; reflexivity.
Qed.

(* registration of raw event j: a fresh descriptor with an empty counter *)
Definition RawRegSpec (s : core) (j : Z) (r : res) (failed : bool) : Prop :=
  match r with
  | Halt _ => True
  | R s' =>
      CNT (kern s) (kern s') /\ TrX s s' /\
      (forall j', j' <> j -> rw_reg s' j' = rw_reg s j' /\ rw_rfd s' j' = rw_rfd s j' /\ rw_wfd s' j' = rw_wfd s j') /\
      (failed = true -> rw_reg s' j = rw_reg s j /\ rw_rfd s' j = rw_rfd s j) /\
      (failed = false -> rw_reg s' j = true /\ next_fd (kern s) <= rw_rfd s' j /\
         forall v, k_get (kern s') (rw_rfd s' j) = Some v -> vcnt v = 0)
  end.

Lemma F3n_parts : forall s s', F3n s s' -> CNT (kern s) (kern s') /\ TrX s s'.
Proof. intros s s' [A _ _ D]. split; assumption. Qed.

Lemma FF_parts : forall s s', FF s s' -> CNT (kern s) (kern s') /\ TrX s s' /\ vfds (kern s') = vfds (kern s) /\
  rw_reg s' = rw_reg s /\ rw_rfd s' = rw_rfd s /\ rw_wfd s' = rw_wfd s.
Proof.
  intros s s' (_ & L & T). destruct (lk_fields3 _ _ L) as (V & N & A & B & C).
  split; [apply CNT_fields; assumption|]. auto.
Qed.

Lemma raw_register_spec3 : forall s j, RawRegSpec s j (fst (raw_register s j)) (snd (raw_register s j)).
Proof.
  intros s j. unfold raw_register.
  (* stage 1: eventfd *)
  assert (S1 : exists s1 got failed,
    (if negb (efd_raw s =? 0) then
      match eventfd_grab (kern s) (efd_raw s) with
      | (k1, inl fd, u) => (set_efd (set_kern s k1) (efd_epoll s) u, Some (fd, fd), false)
      | (k1, inr e, u) => (set_efd (set_kern s k1) (efd_epoll s) u, None, negb (is_enosys e))
      end
    else (s, @None (Z * Z), false)) = (s1, got, failed) /\
    CNT (kern s) (kern s1) /\ trace s1 = trace s /\ rw_reg s1 = rw_reg s /\ rw_rfd s1 = rw_rfd s /\ rw_wfd s1 = rw_wfd s /\
    next_fd (kern s) <= next_fd (kern s1) /\
    (forall rfd wfd, got = Some (rfd, wfd) -> next_fd (kern s) <= rfd /\ exists v, k_get (kern s1) rfd = Some v /\ vcnt v = 0)).
  { destruct (negb (efd_raw s =? 0)).
    2:{ exists s, None, false. split; [reflexivity|]. split; [apply CNTx_refl|]. do 4 (split; [reflexivity|]). split; [lia|]. intros ? ? E; discriminate E. }
    pose proof (CNT_grab (kern s) (efd_raw s)) as CG. pose proof (grab_new (kern s) (efd_raw s)) as GN.
    pose proof (grab_next (kern s) (efd_raw s)) as GX.
    destruct (eventfd_grab (kern s) (efd_raw s)) as [[k1 [fd|e]] u]; cbn [fst] in CG, GX; eexists _, _, _; (split; [reflexivity|]);
      cbn [kern set_efd set_kern trace rw_reg rw_rfd rw_wfd]; (split; [exact CG|]); do 4 (split; [reflexivity|]); (split; [exact GX|]).
    - intros r0 w0 E. inversion E; subst r0 w0. destruct (GN k1 fd u eq_refl) as [A B]. split; [exact A|]. exists (vfd0 K_EVENTFD). auto.
    - intros rfd wfd E. discriminate E. }
  destruct S1 as (s1 & got & failed & -> & C1 & T1 & A1 & B1 & W1 & N1 & G1).
  destruct failed; cbn [fst snd RawRegSpec].
  { split; [exact C1|]. split; [apply TrX_same; exact T1|]. split; [intros j' _; rewrite A1, B1, W1; auto|].
    split; [intros _; rewrite A1, B1; auto|discriminate]. }
  assert (S2 : exists s2 got2 failed2,
    (match got with
     | Some p => (s1, Some p, false)
     | None =>
        if efd_raw s1 =? 0 then
          match k_pipe (kern s1) with
          | (k1, Some (r, w)) => (set_kern s1 k1, Some (r, w), false)
          | (k1, None) => (set_kern s1 k1, None, true)
          end
        else (s1, None, true)
     end) = (s2, got2, failed2) /\
    CNT (kern s) (kern s2) /\ trace s2 = trace s /\ rw_reg s2 = rw_reg s /\ rw_rfd s2 = rw_rfd s /\ rw_wfd s2 = rw_wfd s /\
    (forall rfd wfd, got2 = Some (rfd, wfd) -> next_fd (kern s) <= rfd /\ exists v, k_get (kern s2) rfd = Some v /\ vcnt v = 0)).
  { destruct got as [[rfd wfd]|].
    - exists s1, (Some (rfd, wfd)), false. split; [reflexivity|]. do 5 (split; [assumption|]).
      intros r0 w0 E. inversion E; subst. apply (G1 r0 w0 eq_refl).
    - destruct (efd_raw s1 =? 0).
      2:{ exists s1, None, true. split; [reflexivity|]. do 5 (split; [assumption|]). intros ? ? E; discriminate E. }
      pose proof (CNT_pipe (kern s1)) as CP. pose proof (pipe_new (kern s1)) as PN.
      destruct (k_pipe (kern s1)) as [k1 [[r w]|]]; cbn [fst] in CP; eexists _, _, _; (split; [reflexivity|]);
        cbn [kern set_kern trace rw_reg rw_rfd rw_wfd]; (split; [eapply CNTx_trans; eassumption|]); do 4 (split; [assumption|]).
      + intros r0 w0 E. inversion E; subst. destruct (PN k1 r0 w0 eq_refl) as (Er & _ & Gr & _). split; [lia|].
        eexists. split; [exact Gr|reflexivity].
      + intros ? ? E; discriminate E. }
  destruct S2 as (s2 & got2 & failed2 & -> & C2 & T2 & A2 & B2 & W2 & G2).
  destruct got2 as [[rfd wfd]|]; cbn [fst snd RawRegSpec].
  2:{ split; [exact C2|]. split; [apply TrX_same; exact T2|]. split; [intros j' _; rewrite A2, B2, W2; auto|].
      split; [intros _; rewrite A2, B2; auto|discriminate]. }
  destruct (G2 rfd wfd eq_refl) as (FR & v0 & GV & VC).
  set (s3 := putfd s2 (RAW_KEY j) _).
  pose proof (fd_register_FF s3 (RAW_KEY j)) as FR3.
  destruct (fd_register s3 (RAW_KEY j)) as [s4|s4]; cbn [bind RawRegSpec]; [|exact I].
  unfold FFr in FR3. cbn [res_state] in FR3. destruct (FF_parts _ _ FR3) as (C4 & T4 & V4 & A4 & B4 & W4).
  cbn [kern set_rw rw_reg rw_rfd rw_wfd].
  split; [eapply CNTx_trans; [exact C2|exact C4]|].
  split; [eapply TrX_trans; [apply TrX_same; exact T2|exact T4]|].
  split; [intros j' NJ; unfold upd; destruct (Z.eqb_spec j' j); [contradiction|]; rewrite A4, B4, W4; cbn [s3 putfd set_fdt rw_reg rw_rfd rw_wfd]; rewrite A2, B2, W2; auto|].
  split; [discriminate|]. intros _. unfold upd. rewrite Z.eqb_refl. split; [reflexivity|]. split; [exact FR|].
  intros v G. unfold k_get in *. rewrite V4 in G. change (vfds (kern s3)) with (vfds (kern s2)) in G. rewrite GV in G. inversion G; subst. exact VC.
Qed.

Definition RawUnregSpec (s : core) (j : Z) (r : res) : Prop :=
  match r with
  | Halt _ => True
  | R s' =>
      CNT (kern s) (kern s') /\ TrX s s' /\
      (forall j', j' <> j -> rw_reg s' j' = rw_reg s j' /\ rw_rfd s' j' = rw_rfd s j' /\ rw_wfd s' j' = rw_wfd s j') /\
      rw_reg s' j = false
  end.

Lemma raw_unregister_spec3 : forall s j, RawUnregSpec s j (raw_unregister s j).
Proof.
  intros s j. unfold raw_unregister.
  pose proof (fd_unregister_FF s (RAW_KEY j)) as FU.
  destruct (fd_unregister s (RAW_KEY j)) as [s1|s1]; cbn [bind RawUnregSpec]; [|exact I].
  unfold FFr in FU. cbn [res_state] in FU. destruct (FF_parts _ _ FU) as (C1 & T1 & _ & A1 & B1 & W1).
  set (s2 := do_close s1 (rw_rfd s1 j)).
  assert (F2 : F3n s1 s2) by apply do_close_F3.
  set (s3 := if raw_is_pipe s2 j then do_close s2 (rw_wfd s2 j) else s2).
  assert (F3' : F3n s2 s3) by (unfold s3; destruct (raw_is_pipe s2 j); [apply do_close_F3|apply F3_refl]).
  assert (RW2 : rw_reg s2 = rw_reg s1 /\ rw_rfd s2 = rw_rfd s1 /\ rw_wfd s2 = rw_wfd s1).
  { unfold s2, do_close. destruct (k_close (kern s1) (rw_rfd s1 j)) as [k ok]. destruct ok; repeat split. }
  assert (RW3 : rw_reg s3 = rw_reg s2 /\ rw_rfd s3 = rw_rfd s2 /\ rw_wfd s3 = rw_wfd s2).
  { unfold s3. destruct (raw_is_pipe s2 j); [|repeat split]. unfold do_close.
    destruct (k_close (kern s2) (rw_wfd s2 j)) as [k ok]. destruct ok; repeat split. }
  destruct RW2 as (P2 & Q2 & V2). destruct RW3 as (P3 & Q3 & V3).
  destruct (F3n_parts _ _ F2) as [C2 T2]. destruct (F3n_parts _ _ F3') as [C3 T3].
  cbn [kern set_rw rw_reg rw_rfd rw_wfd].
  split; [eapply CNTx_trans; [exact C1|eapply CNTx_trans; eassumption]|].
  split; [eapply TrX_trans; [exact T1|eapply TrX_trans; eassumption]|].
  split; [|unfold upd; rewrite Z.eqb_refl; reflexivity].
  intros j' NJ. unfold upd. destruct (Z.eqb_spec j' j); [contradiction|]. rewrite P3, Q3, V3, P2, Q2, V2, A1, B1, W1. auto.
Qed.

Lemma raw_post_F3 : forall s j,
  F3 (fun y => exists v, k_open (kern s) (rw_wfd s j) = Some v /\
                         ((vkind v = K_EVENTFD /\ y = rw_wfd s j) \/ (vkind v = K_PIPE_W /\ y = vpeer v)))
     s (raw_post s j).
Proof.
  intros s j. unfold raw_post. destruct (raw_is_pipe s j).
  - pose proof (CNTx_write (kern s) (rw_wfd s j) 1 0) as C. destruct (k_write (kern s) (rw_wfd s j) 1 0) as [k1 x].
    apply F3_kern. exact C.
  - pose proof (CNTx_write (kern s) (rw_wfd s j) 8 1) as C. destruct (k_write (kern s) (rw_wfd s j) 8 1) as [k1 x].
    apply F3_kern. exact C.
Qed.

Lemma write_efd_pos : forall k fd v, k_open k fd = Some v -> vkind v = K_EVENTFD ->
  exists v', k_get (fst (k_write k fd 8 1)) fd = Some v' /\ vcnt v' = vcnt v + 1.
Proof.
  intros k fd v O KE. unfold k_write. rewrite O, KE. cbn [Z.eqb K_EVENTFD Pos.eqb Z.ltb Z.compare Pos.compare Pos.compare_cont fst].
  rewrite k_get_put, Z.eqb_refl. eexists. split; [reflexivity|reflexivity].
Qed.

Lemma write_pipe_pos : forall k w vw r, k_open k w = Some vw -> vkind vw = K_PIPE_W -> vpeer_open vw = true ->
  k_get k (vpeer vw) = Some r -> 0 <= vcnt r ->
  exists r', k_get (fst (k_write k w 1 0)) (vpeer vw) = Some r' /\ 0 < vcnt r'.
Proof.
  intros k w vw r O KW PO GR NN. unfold k_write. rewrite O, KW, PO, GR.
  change (K_PIPE_W =? K_EVENTFD) with false. change (K_PIPE_W =? K_PIPE_W) with true. cbn [negb].
  destruct (Z.leb_spec (Z.min 1 (65536 - vcnt r)) 0) as [L|L]; cbn [fst].
  - exists r. split; [exact GR|lia].
  - rewrite k_get_put, Z.eqb_refl. eexists. split; [reflexivity|]. cbn [vcnt with_cnt]. lia.
Qed.

Lemma event_register_F3 : forall s j, F3r (fun _ => False) s (fst (event_register s j)).
Proof.
  intros s j. unfold event_register.
  set (s1 := set_ev (set_numobjs s (numobjs s + 1)) _ _ _).
  assert (A1 : F3n s s1) by (apply F3_plain; reflexivity).
  assert (P : exists r failed,
    (if ev_count (set_numobjs s (numobjs s + 1)) =? 0 then
      let '(r, s_use) :=
        if negb (use_raw s1) then
          if is_epoll s1 then
            match event_rx_on s1 with
            | (R s2, true) => (R (set_ev s2 (ev_count s2) (ev_reg s2) true), true)
            | (R s2, false) => (R s2, false)
            | (Halt s2, _) => (Halt s2, false)
            end
          else (R (set_ev s1 (ev_count s1) (ev_reg s1) true), true)
        else (R s1, true) in
      match r with
      | Halt s2 => (Halt s2, false)
      | R s2 =>
          if use_raw s2 then
            match raw_register s2 KICK_RAW with
            | (R s3, true) =>
                (R (set_numobjs (set_ev s3 (ev_count s3 - 1) (ev_reg s3) (use_raw s3)) (numobjs s3 - 1)), true)
            | (r2, fl) => (r2, fl)
            end
          else (R s2, false)
      end
    else (R s1, false)) = (r, failed) /\ F3r (fun _ => False) s1 r).
  { destruct (ev_count (set_numobjs s (numobjs s + 1)) =? 0); [|exists (R s1), false; split; [reflexivity|apply F3_refl]].
    assert (Q : exists r0 u0,
      (if negb (use_raw s1) then
          if is_epoll s1 then
            match event_rx_on s1 with
            | (R s2, true) => (R (set_ev s2 (ev_count s2) (ev_reg s2) true), true)
            | (R s2, false) => (R s2, false)
            | (Halt s2, _) => (Halt s2, false)
            end
          else (R (set_ev s1 (ev_count s1) (ev_reg s1) true), true)
        else (R s1, true)) = (r0, u0) /\ F3r (fun _ => False) s1 r0).
    { destruct (negb (use_raw s1)); [|exists (R s1), true; split; [reflexivity|apply F3_refl]].
      destruct (is_epoll s1); [|eexists _, _; split; [reflexivity|apply F3_plain; reflexivity]].
      pose proof (event_rx_on_F3 s1) as X. destruct (event_rx_on s1) as [[s2|s2] fl]; cbn [fst] in X.
      - destruct fl; eexists _, _; (split; [reflexivity|]); [|exact X].
        cbn [F3r] in *. eapply F3_trans; [exact X|apply F3_plain; reflexivity].
      - eexists _, _; split; [reflexivity|exact I]. }
    destruct Q as (r0 & u0 & -> & A2).
    destruct r0 as [s2|s2]; [|eexists _, _; split; [reflexivity|exact I]].
    destruct (use_raw s2); [|eexists _, _; split; [reflexivity|exact A2]].
    pose proof (raw_register_spec3 s2 KICK_RAW) as X.
    destruct (raw_register s2 KICK_RAW) as [[s3|s3] fl]; cbn [fst snd RawRegSpec] in X.
    - destruct X as (C3 & T3 & O3 & _).
      assert (F23 : F3n s2 s3).
      { constructor; [exact C3| |auto|exact T3]. intros j' J. apply O3. unfold r16, KICK_RAW in *. lia. }
      destruct fl; eexists _, _; (split; [reflexivity|]); cbn [F3r] in *.
      + eapply F3_trans; [exact A2|]. eapply F3_trans; [exact F23|apply F3_plain; reflexivity].
      + eapply F3_trans; [exact A2|exact F23].
    - eexists _, _; split; [reflexivity|exact I]. }
  destruct P as (r & failed & -> & A2).
  destruct failed; cbn [fst].
  - destruct r; cbn [F3r] in *; [eapply F3_trans; eassumption|exact I].
  - destruct r as [s4|s4]; cbn [bind F3r] in *; [|exact I].
    eapply F3_trans; [exact A1|]. eapply F3_trans; [exact A2|apply F3_plain; reflexivity].
Qed.

Lemma event_unregister_F3 : forall s j, F3r (fun _ => False) s (event_unregister s j).
Proof.
  intros s j. unfold event_unregister.
  match goal with |- F3r _ s (bind (if ev_count ?S =? 0 then _ else _) _) => set (s1 := S) end.
  assert (A1 : F3n s s1) by (apply F3_plain; reflexivity).
  assert (P : F3r (fun _ => False) s1 (if ev_count s1 =? 0 then (if use_raw s1 then raw_unregister s1 KICK_RAW else event_rx_off s1) else R s1)).
  { destruct (ev_count s1 =? 0); [|apply F3_refl]. destruct (use_raw s1); [|apply event_rx_off_F3].
    pose proof (raw_unregister_spec3 s1 KICK_RAW) as X. destruct (raw_unregister s1 KICK_RAW) as [s2|s2]; cbn [RawUnregSpec F3r] in *; [|exact I].
    destruct X as (C & T & O & _). constructor; [exact C| |auto|exact T]. intros j' J. apply O. unfold r16, KICK_RAW in *. lia. }
  destruct (if ev_count s1 =? 0 then (if use_raw s1 then raw_unregister s1 KICK_RAW else event_rx_off s1) else R s1) as [s2|s2];
    cbn [bind F3r] in *; [|exact I].
  eapply F3_trans; [exact A1|]. eapply F3_trans; [exact P|apply F3_plain; reflexivity].
Qed.
