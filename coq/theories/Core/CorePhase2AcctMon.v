(* CorePhase2AcctMon.v -- the tracker of Monitors.v: which failure codes each trace
   event can add, monotonicity of posted_ever, and transport of "no code of a
   set has been recorded" along trace extensions. *)
From Coq Require Import List ZArith Bool Lia.
From Ivv Require Import Core.Kernel Core.CoreTypes Core.CoreFd Core.CoreModel Core.Monitors Core.CoreSpec
  Core.CoreRelBase Core.CoreRelMon Core.CorePhase2AcctTr.
Import ListNotations.
Local Open Scope Z_scope.

(* ---------- codes an event can add ---------- *)
Definition ev_codes (e : tev) : list Z :=
  match e with
  | TCallFd _ _ _ _ => [709; 101; 301; 302; 303; 304; 1501]
  | TCallTimer _ _ => [709; 102; 401; 406]
  | TCallTask _ => [709; 103; 603]
  | TCallEvent _ => [709; 104; 801]
  | TCallRaw _ => [709; 105]
  | TWait _ _ _ _ _ _ => [204; 707; 711; 201; 704]
  | TRet None _ _ => [1502]
  | TRet (Some _) _ _ => [202; 203; 705; 602; 708; 902; 403; 404; 407]
  | TEnd _ _ => [204; 707; 711; 701; 702; 703]
  | TTear _ => [706]
  | TDone _ => [1802]
  | THang => [705; 405; 604; 710; 901]
  | TFatal => [1804]
  | TCrash => [1801]
  | _ => []
  end.

Definition Sub (m' m : mon) (l : list Z) : Prop := forall c, In c (fails m') -> In c (fails m) \/ In c l.

Lemma Sub_refl : forall m l, Sub m m l. Proof. intros m l c H. left. exact H. Qed.
Lemma Sub_eq : forall m' m l, fails m' = fails m -> Sub m' m l.
Proof. intros m' m l E c H. left. rewrite <- E. exact H. Qed.
Lemma Sub_trans : forall a b c l, Sub a b l -> Sub b c l -> Sub a c l.
Proof. intros a b c l A B x H. destruct (A x H) as [H1|H1]; [apply B; exact H1|right; exact H1]. Qed.
Lemma Sub_chk : forall m b x l, In x l -> Sub (chk m b x) m l.
Proof.
  intros m b x l I c H. unfold chk in H. destruct b; [left; exact H|].
  unfold m_fail in H. cbn [fails] in H. destruct (mem_z x (fails m)); [left; exact H|].
  apply in_app_or in H. destruct H as [H|[H|[]]]; [left; exact H|right; subst; exact I].
Qed.
Lemma Sub_fail : forall m x l, In x l -> Sub (m_fail m x) m l.
Proof. intros m x l I. apply (Sub_chk m false x l I). Qed.
Lemma Sub_chk_t : forall m0 m b x l, In x l -> Sub m0 m l -> Sub (chk m0 b x) m l.
Proof. intros. eapply Sub_trans; [apply Sub_chk; assumption|assumption]. Qed.

Ltac inl := cbn [In ev_codes]; repeat first [left; reflexivity | right].
Ltac strip := match goal with
  | |- Sub (m_iter ?X _ _ _ _) _ _ => apply (Sub_trans _ X); [apply Sub_eq; reflexivity|]
  | |- Sub (m_tms ?X _ _) _ _ => apply (Sub_trans _ X); [apply Sub_eq; reflexivity|]
  | |- Sub (m_tks ?X _ _) _ _ => apply (Sub_trans _ X); [apply Sub_eq; reflexivity|]
  | |- Sub (m_evs ?X _ _) _ _ => apply (Sub_trans _ X); [apply Sub_eq; reflexivity|]
  | |- Sub (m_rws ?X _ _) _ _ => apply (Sub_trans _ X); [apply Sub_eq; reflexivity|]
  | |- Sub (m_fds ?X _ _ _) _ _ => apply (Sub_trans _ X); [apply Sub_eq; reflexivity|]
  | |- Sub (m_loop ?X _ _ _ _) _ _ => apply (Sub_trans _ X); [apply Sub_eq; reflexivity|]
  | |- Sub (m_spin ?X _ _ _ _) _ _ => apply (Sub_trans _ X); [apply Sub_eq; reflexivity|]
  | |- Sub (m_wait ?X _ _ _ _ _ _) _ _ => apply (Sub_trans _ X); [apply Sub_eq; reflexivity|]
  end.
Ltac sct := match goal with |- Sub (chk _ _ _) _ _ => apply Sub_chk_t; [inl|] end.

Lemma Sub_on_call : forall m l, In 709 l -> Sub (on_call m) m l.
Proof. intros m l I. unfold on_call. cbv zeta. apply (Sub_trans _ (chk m (a_main m) 709)); [apply Sub_eq; reflexivity|apply Sub_chk; exact I]. Qed.

Lemma Sub_close : forall m l, In 204 l -> In 707 l -> In 711 l -> Sub (close_iteration m) m l.
Proof.
  intros m l I1 I2 I3. unfold close_iteration. cbv zeta.
  repeat strip.
  apply Sub_chk_t; [exact I3|]. apply Sub_chk_t; [exact I2|]. apply Sub_chk; exact I1.
Qed.

Definition SubL (l : list Z) (m m' : mon) : Prop := Sub m' m l.

Lemma fails_step : forall m e, Sub (mon_step m e) m (ev_codes e).
Proof.
  intros m e. destruct e; try (apply Sub_refl); try (apply Sub_eq; reflexivity); cbn [ev_codes].
  - (* TCallFd *) unfold mon_step. cbv zeta. repeat strip.
    repeat sct. apply Sub_on_call. inl.
  - unfold mon_step. cbv zeta. repeat strip.
    repeat sct. apply Sub_on_call. inl.
  - unfold mon_step. cbv zeta. repeat strip.
    repeat sct. apply Sub_on_call. inl.
  - unfold mon_step. cbv zeta. repeat strip.
    repeat sct. apply Sub_on_call. inl.
  - unfold mon_step. cbv zeta. repeat strip.
    repeat sct. apply Sub_on_call. inl.
  - (* TWait *) unfold mon_step. cbv zeta. repeat strip.
    repeat sct. apply Sub_close; inl.
  - (* TRet *) destruct n as [n|].
    + change (SubL (ev_codes (TRet (Some n) fds clk)) m (mon_step m (TRet (Some n) fds clk))).
      lazy beta iota delta [mon_step]. repeat lift_let. unfold SubL.
      set (l := ev_codes (TRet (Some n) fds clk)).
      assert (S00 : Sub m m l) by apply Sub_refl.
      repeat match goal with
      | x := chk ?y _ _ : mon, H : Sub ?z m l |- _ =>
          constr_eq y z;
          assert (Sub x m l) by (unfold x; apply Sub_chk_t; [unfold l; inl|exact H]); clearbody x
      | x := (if _ then _ else ?y) : mon, H : Sub ?z m l |- _ =>
          constr_eq y z;
          assert (Sub x m l) by (unfold x;
                                 match goal with |- Sub (if ?c then _ else _) _ _ => destruct c end; [|exact H];
                                 match goal with |- Sub (match ?c with _ => _ end) _ _ => destruct c end; [|exact H]; cbv zeta;
                                 apply Sub_chk_t; [unfold l; inl|]; apply Sub_chk_t; [unfold l; inl|]; exact H);
          clearbody x
      end.
      repeat first [strip | match goal with |- Sub ?x _ _ => unfold x end]. assumption.
    + unfold mon_step. cbv zeta. repeat strip.
      apply Sub_chk_t; [inl|]. apply Sub_eq. reflexivity.
  - (* TAct *) apply Sub_eq. apply fails_action.
  - (* TRes *) apply Sub_eq. unfold mon_step. repeat dm; reflexivity.
  - (* TEnd *) unfold mon_step. cbv zeta. repeat strip.
    repeat sct. apply Sub_close; inl.
  - apply Sub_chk. inl.
  - apply Sub_chk. inl.
  - (* THang *) unfold mon_step. cbv zeta. repeat sct. apply Sub_refl.
  - apply Sub_fail. inl.
  - apply Sub_fail. inl.
Qed.

(* ---------- no code of a set recorded ---------- *)
Definition Clean (S : list Z) (m : mon) : Prop := forall c, In c (fails m) -> ~ In c S.

Definition quiet_for (S : list Z) (e : tev) : Prop := forall c, In c (ev_codes e) -> ~ In c S.

Lemma Clean_step : forall S m e, quiet_for S e -> Clean S m -> Clean S (mon_step m e).
Proof. intros S m e Q C c H. destruct (fails_step m e c H) as [H1|H1]; [apply C; exact H1|apply Q; exact H1]. Qed.

Lemma mst_ext : forall s s' l, trace s' = l ++ trace s -> mst s' = fold_left mon_step (rev l) (mst s).
Proof. intros s s' l E. unfold mst, mon_run. rewrite E, rev_app_distr, fold_left_app. reflexivity. Qed.

Lemma Clean_ext : forall S (P : tev -> Prop) s s', (forall e, P e -> quiet_for S e) ->
  TrExt P s s' -> Clean S (mst s) -> Clean S (mst s').
Proof.
  intros S P s s' Q (l & E & F) C. rewrite (mst_ext s s' l E).
  assert (F' : Forall P (rev l)) by (apply Forall_rev; exact F).
  clear E F. revert C. generalize (mst s). induction (rev l) as [|e r IH]; intros m C; cbn [fold_left]; [exact C|].
  inversion F' as [|? ? Pe Pr]; subst. apply IH; [exact Pr|]. apply Clean_step; [apply Q; exact Pe|exact C].
Qed.

(* ---------- posted_ever never goes back ---------- *)
Lemma pe_chk : forall m b c, posted_ever (chk m b c) = posted_ever m.
Proof. intros m b c. destruct b; reflexivity. Qed.

Lemma pe_close : forall m, posted_ever (close_iteration m) = posted_ever m.
Proof. intros m. unfold close_iteration. cbv zeta. cbn [posted_ever m_tks m_iter m_spin]. rewrite !pe_chk. reflexivity. Qed.

Lemma pe_on_call : forall m, posted_ever (on_call m) = posted_ever m.
Proof. intros m. unfold on_call. cbv zeta. cbn [posted_ever m_iter m_spin]. apply pe_chk. Qed.

Lemma pe_action : forall m a, posted_ever m = true -> posted_ever (mon_action m a) = true.
Proof. intros m a H. destruct a; cbn [mon_action posted_ever m_fds m_iter m_tms m_tks m_evs m_spin m_rws m_loop]; auto. Qed.

Lemma pe_step : forall m e, posted_ever m = true -> posted_ever (mon_step m e) = true.
Proof.
  intros m e H. destruct e; try exact H.
  - unfold mon_step. cbv zeta. cbn [posted_ever m_iter]. rewrite !pe_chk. rewrite pe_on_call. exact H.
  - unfold mon_step. cbv zeta. cbn [posted_ever m_tms]. rewrite !pe_chk. rewrite pe_on_call. exact H.
  - unfold mon_step. cbv zeta. cbn [posted_ever m_tks]. rewrite !pe_chk. rewrite pe_on_call. exact H.
  - unfold mon_step. cbv zeta. cbn [posted_ever m_evs]. rewrite !pe_chk. rewrite pe_on_call. exact H.
  - unfold mon_step. cbv zeta. cbn [posted_ever m_rws]. rewrite !pe_chk. rewrite pe_on_call. exact H.
  - unfold mon_step. cbv zeta. cbn [posted_ever m_wait]. rewrite !pe_chk. rewrite pe_close. exact H.
  - destruct n as [n|].
    + lazy beta iota delta [mon_step]. repeat lift_let.
      repeat match goal with
      | x := chk ?y _ _ : mon, H0 : posted_ever ?z = true |- _ =>
          constr_eq y z;
          assert (posted_ever x = true) by (unfold x; rewrite pe_chk; exact H0); clearbody x
      | x := (if _ then _ else ?y) : mon, H0 : posted_ever ?z = true |- _ =>
          constr_eq y z;
          assert (posted_ever x = true) by (unfold x;
                                 match goal with |- posted_ever (if ?c then _ else _) = _ => destruct c end; [|exact H0];
                                 match goal with |- posted_ever (match ?c with _ => _ end) = _ => destruct c end; [|exact H0];
                                 cbv zeta; rewrite !pe_chk; exact H0);
          clearbody x
      end.
      cbn [posted_ever m_iter].
      repeat match goal with |- posted_ever ?x = true => unfold x; cbn [posted_ever m_iter m_spin m_loop m_wait] end.
      assumption.
    + unfold mon_step. cbv zeta. cbn [posted_ever m_iter m_loop]. rewrite pe_chk. exact H.
  - apply pe_action. exact H.
  - unfold mon_step. repeat dm; exact H.
  - unfold mon_step. cbv zeta. cbn [posted_ever m_loop]. rewrite !pe_chk. rewrite pe_close. exact H.
  - unfold mon_step. rewrite pe_chk. exact H.
  - unfold mon_step. rewrite pe_chk. exact H.
  - unfold mon_step. cbv zeta. rewrite !pe_chk. exact H.
Qed.

Lemma pe_ext : forall P s s', TrExt P s s' -> posted_ever (mst s) = true -> posted_ever (mst s') = true.
Proof.
  intros P s s' (l & E & _) H. rewrite (mst_ext s s' l E). revert H. generalize (mst s).
  induction (rev l) as [|e r IH]; intros m H; cbn [fold_left]; [exact H|]. apply IH. apply pe_step. exact H.
Qed.

(* ---------- a recorded code comes from an event that can add it ---------- *)
Lemma fails_origin : forall tr c, In c (mon_fails tr) -> exists e, In e tr /\ In c (ev_codes e).
Proof.
  intros tr c. unfold mon_fails, mon_run.
  assert (G : forall l m, In c (fails (fold_left mon_step l m)) -> In c (fails m) \/ exists e, In e l /\ In c (ev_codes e)).
  { induction l as [|e l IH]; intros m H; cbn [fold_left] in H; [left; exact H|].
    destruct (IH _ H) as [H1|(e' & I & C)].
    - destruct (fails_step m e c H1) as [H2|H2]; [left; exact H2|right; exists e; split; [left; reflexivity|exact H2]].
    - right. exists e'. split; [right; exact I|exact C]. }
  intros H. destruct (G tr mon0 H) as [[]|E]. exact E.
Qed.

Lemma no_event_no_code : forall tr c, (forall e, In e tr -> ~ In c (ev_codes e)) -> ~ In c (mon_fails tr).
Proof. intros tr c H F. destruct (fails_origin tr c F) as (e & I & C). exact (H e I C). Qed.
