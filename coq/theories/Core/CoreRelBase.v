(* CoreRelBase.v -- interface lemmas used by the tracker/model relation
   (Core/CoreRel*.v): lists, virtual-kernel operations (what they leave alone),
   record setters, the tracker state `mst` of a model state. *)
From Coq Require Import List ZArith Bool Lia.
From Ivv Require Import Core.Kernel Core.CoreTypes Core.CoreFd Core.CoreModel Core.Monitors.
Import ListNotations.
Local Open Scope Z_scope.

(* ---------- lists ---------- *)
Lemma mem_z_In : forall x l, mem_z x l = true <-> In x l.
Proof.
  intros x l. unfold mem_z. rewrite existsb_exists. split.
  - intros (y & H & E). apply Z.eqb_eq in E. subst. assumption.
  - intros H. exists x. split; [assumption|apply Z.eqb_refl].
Qed.

Lemma mem_z_false : forall x l, mem_z x l = false <-> ~ In x l.
Proof.
  intros x l. destruct (mem_z x l) eqn:E.
  - split; [discriminate|intros H; exfalso; apply H; apply mem_z_In; assumption].
  - split; [intros _ H; apply mem_z_In in H; congruence|reflexivity].
Qed.

Lemma In_remove_z : forall x l y, In y (remove_z x l) <-> In y l /\ y <> x.
Proof.
  intros x l y. induction l as [|a l IH]; cbn [remove_z In].
  - tauto.
  - destruct (Z.eqb_spec a x) as [->|N]; cbn [In]; rewrite IH.
    + split; [tauto|]. intros [[E|H] K]; [congruence|tauto].
    + split; [intros [E|[H K]]; [subst; tauto|tauto]|tauto].
Qed.

Lemma NoDup_remove_z : forall x l, NoDup l -> NoDup (remove_z x l).
Proof.
  intros x l H. induction H as [|a l NI ND IH]; cbn [remove_z]; [constructor|].
  destruct (Z.eqb_spec a x); [assumption|]. constructor; [|assumption].
  rewrite In_remove_z. tauto.
Qed.

Lemma mem_z_remove_z_same : forall x l, mem_z x (remove_z x l) = false.
Proof. intros. apply mem_z_false. rewrite In_remove_z. tauto. Qed.

Lemma mem_z_remove_z_other : forall x y l, y <> x -> mem_z y (remove_z x l) = mem_z y l.
Proof.
  intros x y l N. destruct (mem_z y l) eqn:E.
  - apply mem_z_In. apply In_remove_z. split; [apply mem_z_In; assumption|assumption].
  - apply mem_z_false. rewrite In_remove_z. apply mem_z_false in E. tauto.
Qed.

Lemma mem_z_app : forall x l1 l2, mem_z x (l1 ++ l2) = mem_z x l1 || mem_z x l2.
Proof. intros. unfold mem_z. apply existsb_app. Qed.

Lemma NoDup_app_iff : forall (A : Type) (l1 l2 : list A),
  NoDup (l1 ++ l2) <-> NoDup l1 /\ NoDup l2 /\ (forall x, In x l1 -> In x l2 -> False).
Proof.
  intros A l1 l2. induction l1 as [|a l1 IH]; cbn [app].
  - split; [intros H; split; [constructor|split; [assumption|intros x []]]|tauto].
  - split.
    + intros H. inversion H as [|? ? NI ND]; subst. apply IH in ND. destruct ND as (N1 & N2 & D).
      split; [constructor; [intro; apply NI; apply in_or_app; tauto|assumption]|].
      split; [assumption|]. intros x [E|I1] I2; [subst; apply NI; apply in_or_app; tauto|eauto].
    + intros (N1 & N2 & D). inversion N1 as [|? ? NI ND]; subst. constructor.
      * intro H. apply in_app_or in H. destruct H as [H|H]; [tauto|]. apply (D a); [left; reflexivity|assumption].
      * apply IH. split; [assumption|split; [assumption|]]. intros x I1 I2. apply (D x); [right; assumption|assumption].
Qed.

Lemma In_zseq : forall n lo x, In x (zseq lo n) <-> lo <= x < lo + Z.of_nat n.
Proof.
  induction n as [|n IH]; intros lo x; cbn [zseq In].
  - lia.
  - rewrite IH. lia.
Qed.

(* ---------- virtual-kernel operations: clock, fault set, epoll set ---------- *)
Definition ksame (k k' : kernel) : Prop := clock k' = clock k /\ flt k' = flt k /\ ep k' = ep k.

Lemma ksame_refl : forall k, ksame k k.
Proof. intros; repeat split. Qed.
Lemma ksame_trans : forall a b c, ksame a b -> ksame b c -> ksame a c.
Proof. unfold ksame. intros a b c (A1 & A2 & A3) (B1 & B2 & B3). repeat split; congruence. Qed.

Lemma ksame_put : forall k fd v, ksame k (k_put k fd v).
Proof. intros; repeat split. Qed.

Lemma ksame_alloc : forall k kind, ksame k (snd (k_alloc k kind)).
Proof. intros; repeat split. Qed.

Lemma ksame_read : forall k fd c, ksame k (fst (k_read k fd c)).
Proof.
  intros k fd c. unfold k_read.
  repeat match goal with |- context [match ?x with _ => _ end] => destruct x end;
    cbn [fst]; try apply ksame_refl; apply ksame_put.
Qed.

Lemma ksame_write : forall k fd c v, ksame k (fst (k_write k fd c v)).
Proof.
  intros k fd c v. unfold k_write.
  repeat match goal with |- context [match ?x with _ => _ end] => destruct x end;
    cbn [fst]; try apply ksame_refl; apply ksame_put.
Qed.

Lemma ksame_pipe : forall k, ksame k (fst (k_pipe k)).
Proof.
  intros k. unfold k_pipe. destruct (emfile (flt k)); [apply ksame_refl|].
  cbn. repeat split.
Qed.

Lemma ksame_eventfd : forall k b, ksame k (fst (k_eventfd k b)).
Proof.
  intros k b. unfold k_eventfd.
  repeat match goal with |- context [if ?x then _ else _] => destruct x end;
    cbn; repeat split.
Qed.

Lemma ksame_timerfd_create : forall k, ksame k (fst (k_timerfd_create k)).
Proof. intros k. unfold k_timerfd_create. destruct (no_timerfd (flt k)); cbn; repeat split. Qed.

Lemma timerfd_create_ok : forall k k1 fd, k_timerfd_create k = (k1, inl fd) -> no_timerfd (flt k) = false.
Proof. intros k k1 fd. unfold k_timerfd_create. destruct (no_timerfd (flt k)); [discriminate|reflexivity]. Qed.

Lemma ksame_settime : forall k fd d, ksame k (k_timerfd_settime k fd d).
Proof. intros. unfold k_timerfd_settime. destruct (k_open k fd); [apply ksame_put|apply ksame_refl]. Qed.

Lemma ksame_user_fd : forall k i, ksame k (k_user_fd k i).
Proof. intros; apply ksame_put. Qed.
Lemma ksame_set_cond : forall k i c, ksame k (k_set_cond k i c).
Proof. intros. unfold k_set_cond. destruct (k_get k (100 + i)); [apply ksame_put|apply ksame_refl]. Qed.
Lemma ksame_user_close : forall k i, ksame k (k_user_close k i).
Proof. intros. unfold k_user_close. destruct (k_get k (100 + i)); [apply ksame_put|apply ksame_refl]. Qed.
Lemma ksame_set_nwait : forall k n, ksame k (k_set_nwait k n).
Proof. intros; repeat split. Qed.

Lemma ksame_grab : forall k u, ksame k (fst (fst (eventfd_grab k u))).
Proof.
  intros k u. unfold eventfd_grab.
  assert (OP : forall k0 u0, ksame k0 (fst (fst (
     if negb (u0 =? 0) then
      match k_eventfd k0 false with
      | (k1, inl fd) => (k1, inl fd, u0)
      | (k1, inr e) => if is_enosys e then (k1, @inr Z errno ENOSYS, 0) else (k1, inr e, u0)
      end
    else (k0, inr ENOSYS, 0))))).
  { intros k0 u0. destruct (negb (u0 =? 0)); [|apply ksame_refl].
    pose proof (ksame_eventfd k0 false) as H. destruct (k_eventfd k0 false) as [k1 [fd|e]]; cbn [fst] in *.
    - assumption.
    - destruct (is_enosys e); assumption. }
  destruct (u =? 2).
  - pose proof (ksame_eventfd k true) as H. destruct (k_eventfd k true) as [k1 [fd|e]]; cbn [fst] in *.
    + assumption.
    + destruct (is_enosys e || is_einval e); [|assumption].
      eapply ksame_trans; [eassumption|apply OP].
  - apply OP.
Qed.

(* epoll_ctl *)
Lemma epoll_ctl_spec : forall k op fd ev data k' r, k_epoll_ctl k op fd ev data = (k', r) ->
  clock k' = clock k /\ flt k' = flt k /\
  match r with
  | Some _ => ep k' = ep k
  | None =>
      let ent := {| en_fd := fd; en_events := ev; en_data := data; en_enabled := true |} in
      if op =? CTL_ADD then ep k' = ep k ++ [ent]
      else if op =? CTL_MOD then ep k' = ep_replace (ep k) ent
      else ep k' = ep_remove (ep k) fd
  end.
Proof.
  intros k op fd ev data k' r. unfold k_epoll_ctl.
  set (k0 := k_set_nctl k (nctl k + 1)).
  change (clock k) with (clock k0). change (flt k) with (flt k0). change (ep k) with (ep k0).
  generalize k0. clear k0 k. intros k.
  destruct (negb (eintr_ctl (flt k) =? 0) && (nctl k =? eintr_ctl (flt k))).
  { intros E; inversion E; subst. repeat split. }
  destruct (k_open k fd); [|intros E; inversion E; subst; repeat split].
  destruct (op =? CTL_ADD).
  { destruct (ep_find (ep k) fd); intros E; inversion E; subst; repeat split. }
  destruct (op =? CTL_MOD).
  { destruct (ep_find (ep k) fd); intros E; inversion E; subst; repeat split. }
  destruct (ep_find (ep k) fd); intros E; inversion E; subst; repeat split.
Qed.

Lemma In_ep_remove : forall l fd e, In e (ep_remove l fd) <-> In e l /\ en_fd e <> fd.
Proof.
  intros l fd e. induction l as [|a l IH]; cbn [ep_remove In]; [tauto|].
  destruct (Z.eqb_spec (en_fd a) fd) as [E|N]; cbn [In]; rewrite IH.
  - split; [tauto|]. intros [[H|H] K]; [subst; congruence|tauto].
  - split; [intros [H|[H K]]; [subst; tauto|tauto]|tauto].
Qed.

Lemma In_ep_replace : forall l n e, In e (ep_replace l n) -> e = n \/ In e l.
Proof.
  intros l n e. induction l as [|a l IH]; cbn [ep_replace In]; [tauto|].
  destruct (en_fd a =? en_fd n); cbn [In]; intros [H|H]; auto. apply IH in H. tauto.
Qed.

Lemma k_close_spec : forall k fd, clock (fst (k_close k fd)) = clock k /\ flt (fst (k_close k fd)) = flt k /\
  (forall e, In e (ep (fst (k_close k fd))) -> In e (ep k)).
Proof.
  intros k fd. unfold k_close. destruct (k_open k fd) as [v|]; cbn [fst]; [|repeat split; auto].
  set (k1 := k_put k fd (with_closed v true)).
  assert (S2 : ksame k (if (vkind v =? K_PIPE_R) || (vkind v =? K_PIPE_W)
                then match k_get k1 (vpeer v) with
                     | Some p => k_put k1 (vpeer v) (with_peer p (vpeer p) false)
                     | None => k1
                     end
                else k1)).
  { destruct ((vkind v =? K_PIPE_R) || (vkind v =? K_PIPE_W)); [|apply ksame_put].
    destruct (k_get k1 (vpeer v)); [|apply ksame_put].
    eapply ksame_trans; [apply (ksame_put k fd)|apply ksame_put]. }
  destruct S2 as (C & F & E). cbn [clock flt ep k_set_ep]. split; [assumption|split; [assumption|]].
  intros e H. apply In_ep_remove in H. rewrite E in H. tauto.
Qed.

Lemma In_ins_ent : forall e x l, In e (ins_ent x l) <-> e = x \/ In e l.
Proof.
  intros e x l. induction l as [|a l IH]; cbn [ins_ent In].
  - split; [intros [H|[]]; auto|intros [H|[]]; auto].
  - destruct (en_fd x <? en_fd a); cbn [In]; [split; intros [H|H]; auto|].
    rewrite IH. split; [intros [H|[H|H]]; auto|intros [H|[H|H]]; auto].
Qed.

Lemma In_sort_ents : forall e l, In e (sort_ents l) <-> In e l.
Proof.
  intros e l. induction l as [|a l IH]; cbn [sort_ents fold_right In]; [tauto|].
  fold (sort_ents l). rewrite In_ins_ent, IH. split; intros [H|H]; auto.
Qed.

Lemma In_rotate : forall (A : Type) n (l : list A) x, In x (rotate n l) -> In x l.
Proof.
  intros A n l x H. unfold rotate in H. apply in_app_or in H.
  rewrite <- (firstn_skipn n l). apply in_or_app. tauto.
Qed.

Lemma In_ep_scan : forall k l m ev, In ev (ep_scan k l m) -> exists e, In e l /\ ev = (en_fd e, ep_ready_bits k e, en_data e).
Proof.
  intros k l. induction l as [|a l IH]; intros m ev H.
  - destruct m; destruct H.
  - destruct m as [|m]; [destruct H|]. cbn [ep_scan] in H.
    destruct (ep_ready_bits k a =? 0).
    + apply IH in H. destruct H as (e & I & E). exists e. split; [right; assumption|assumption].
    + destruct H as [H|H].
      * exists a. split; [left; reflexivity|symmetry; assumption].
      * apply IH in H. destruct H as (e & I & E). exists e. split; [right; assumption|assumption].
Qed.

Lemma In_disable_oneshot : forall l rep e', In e' (disable_oneshot l rep) ->
  exists e, In e l /\ en_fd e' = en_fd e /\ en_data e' = en_data e.
Proof.
  intros l rep e' H. unfold disable_oneshot in H. apply in_map_iff in H. destruct H as (e & E & I).
  exists e. split; [assumption|].
  destruct (existsb (fun r => fst (fst r) =? en_fd e) rep && has (en_events e) E_ONESHOT); subst e'; split; reflexivity.
Qed.

Lemma epoll_sleep_spec : forall k maxev timeout rot,
  match k_epoll_sleep k maxev timeout rot with
  | WReady k1 evs =>
      flt k1 = flt k /\ clock k <= clock k1 /\
      (forall e', In e' (ep k1) -> exists e, In e (ep k) /\ en_fd e' = en_fd e /\ en_data e' = en_data e) /\
      (forall ev, In ev evs -> exists e, In e (ep k) /\ snd ev = en_data e)
  | WHang => True
  | WEintr _ => False
  | WLimit => False
  end.
Proof.
  intros k maxev timeout rot. unfold k_epoll_sleep.
  set (sorted := sort_ents (ep k)).
  set (order := rotate _ sorted).
  assert (ORD : forall e, In e order -> In e (ep k)).
  { intros e H. apply In_rotate in H. unfold sorted in H. apply (proj1 (In_sort_ents _ _)) in H. assumption. }
  assert (SC : forall k0 m ev, In ev (ep_scan k0 order m) -> exists e, In e (ep k) /\ snd ev = en_data e).
  { intros k0 m ev H. apply In_ep_scan in H. destruct H as (e & I & E). exists e. split; [auto|subst; reflexivity]. }
  destruct (ep_scan k order (Z.to_nat maxev)) as [|ev0 evs0] eqn:SCAN.
  - destruct (timeout =? 0).
    + split; [reflexivity|split; [lia|split]].
      * intros e' H. exists e'. auto.
      * intros ev [].
    + set (wake := ep_wake k sorted _). destruct (wake <? 0); [exact I|].
      set (k1 := if clock k <? wake then k_set_clock k wake else k).
      assert (F1 : flt k1 = flt k) by (unfold k1; destruct (clock k <? wake); reflexivity).
      assert (E1 : ep k1 = ep k) by (unfold k1; destruct (clock k <? wake); reflexivity).
      assert (C1 : clock k <= clock k1).
      { unfold k1. destruct (Z.ltb_spec (clock k) wake); cbn [clock k_set_clock]; lia. }
      cbn [flt clock ep k_set_ep]. split; [assumption|split; [assumption|split]].
      * intros e' H. apply In_disable_oneshot in H. rewrite E1 in H. assumption.
      * intros ev H. eapply SC; eassumption.
  - cbn [flt clock ep k_set_ep]. split; [reflexivity|split; [lia|split]].
    + intros e' H. apply In_disable_oneshot in H. assumption.
    + intros ev H. rewrite <- SCAN in H. eapply SC; eassumption.
Qed.

Lemma poll_sleep_spec : forall k pf timeout,
  match k_poll_sleep k pf timeout with
  | PReady k1 _ => flt k1 = flt k /\ clock k <= clock k1 /\ ep k1 = ep k
  | PHang => True
  end.
Proof.
  intros k pf timeout. unfold k_poll_sleep.
  destruct ((0 <? count_nonzero (poll_eval k pf)) || (timeout =? 0)) eqn:E.
  - repeat split; lia.
  - destruct (Z.ltb_spec timeout 0); [exact I|].
    apply orb_false_iff in E. destruct E as [_ E]. apply Z.eqb_neq in E.
    cbn [flt clock ep k_set_clock]. repeat split; lia.
Qed.

(* ---------- the tracker state of a model state ---------- *)
Definition mst (s : core) : mon := mon_run (rev (trace s)).

Lemma mst_emit : forall s e, mst (emit s e) = mon_step (mst s) e.
Proof.
  intros s e. unfold mst, emit, mon_run. cbn [trace set_trace rev].
  rewrite fold_left_app. reflexivity.
Qed.

Lemma mst_trace : forall s s', trace s' = trace s -> mst s' = mst s.
Proof. intros s s' H. unfold mst. rewrite H. reflexivity. Qed.

(* events the tracker ignores *)
Lemma mon_step_TKClose : forall m fd, mon_step m (TKClose fd) = m.
Proof. reflexivity. Qed.
Lemma mon_step_TKTfd : forall m d, mon_step m (TKTfd d) = m.
Proof. reflexivity. Qed.
Lemma mon_step_TInit : forall m x, mon_step m (TInit x) = m.
Proof. reflexivity. Qed.

Lemma mst_do_close : forall s fd, mst (do_close s fd) = mst s.
Proof.
  intros s fd. unfold do_close. destruct (k_close (kern s) fd) as [k1 ok].
  destruct ok; [rewrite mst_emit, mon_step_TKClose|]; reflexivity.
Qed.
