(* CorePhase2TimeMon.v -- the tracker of Monitors.v seen through interface lemmas
   for the "nothing due when the loop sleeps" clauses: which failure codes an
   event can add, and how the ghost fields a_stale / ran / a_rwp evolve. *)
From Coq Require Import List ZArith Bool Lia.
From Ivv Require Import Core.Kernel Core.CoreTypes Core.CoreFd Core.CoreModel Core.Monitors
  Core.CoreRelBase Core.CoreRelMon.
Import ListNotations.
Local Open Scope Z_scope.

(* code c has not been recorded *)
Definition NF (c : Z) (m : mon) : Prop := ~ In c (fails m).

Lemma In_fails_fail : forall m c c', In c (fails (m_fail m c')) -> In c (fails m) \/ c = c'.
Proof.
  intros m c c' H. unfold m_fail in H. cbn [fails] in H.
  destruct (mem_z c' (fails m)); [left; assumption|].
  apply in_app_or in H. destruct H as [H|[H|[]]]; auto.
Qed.

Lemma In_fails_chk : forall m b c c', In c (fails (chk m b c')) -> In c (fails m) \/ (b = false /\ c = c').
Proof.
  intros m b c c' H. unfold chk in H. destruct b; [left; assumption|].
  apply In_fails_fail in H. destruct H; auto.
Qed.

(* the codes an event can add *)
Definition codes_of (e : tev) : list Z :=
  match e with
  | TCallFd _ _ _ _ => [709; 101; 301; 302; 303; 304; 1501]
  | TCallTimer _ _ => [709; 102; 401; 406]
  | TCallTask _ => [709; 103; 603]
  | TCallEvent _ => [709; 104; 801]
  | TCallRaw _ => [709; 105]
  | TWait _ _ _ _ _ _ => [204; 707; 711; 201; 704]
  | TRet None _ _ => [1502]
  | TRet (Some _) _ _ => [202; 203; 705; 602; 708; 902; 403; 404; 407]
  | TEnd _ _ => [204; 707; 711; 701; 702; 703]
  | TTear _ => [706]
  | TDone _ => [1802]
  | THang => [705; 405; 604; 710; 901]
  | TFatal => [1804]
  | TCrash => [1801]
  | _ => []
  end.

Ltac fails_inv H :=
  repeat first
    [ progress cbn [fails m_fds m_tms m_tks m_evs m_rws m_loop m_wait m_iter m_spin] in H
    | match type of H with
      | In _ (fails (chk _ _ _)) =>
          apply In_fails_chk in H; destruct H as [H|[_ H]]; [|right; subst; cbn; tauto]
      | In _ (fails (m_fail _ _)) =>
          apply In_fails_fail in H; destruct H as [H|H]; [|right; subst; cbn; tauto]
      end ].

Lemma In_fails_on_call : forall m c, In c (fails (on_call m)) -> In c (fails m) \/ In c [709].
Proof. intros m c H. unfold on_call in H. cbv zeta in H. fails_inv H. left; assumption. Qed.

Lemma In_fails_close : forall m c, In c (fails (close_iteration m)) -> In c (fails m) \/ In c [204; 707; 711].
Proof. intros m c H. unfold close_iteration in H. cbv zeta in H. fails_inv H. left; assumption. Qed.

Lemma NF_chk_ne : forall c m b c', NF c m -> c <> c' -> NF c (chk m b c').
Proof. intros c m b c' N NE H. apply In_fails_chk in H. destruct H as [H|[_ H]]; [exact (N H)|exact (NE H)]. Qed.

Lemma NF_chk_true : forall c m b c', NF c m -> b = true -> NF c (chk m b c').
Proof. intros c m b c' N E. subst b. exact N. Qed.

Lemma NF_TRet_some : forall m n fds clk c, NF c m -> ~ In c [202; 203; 705; 602; 708; 902; 403; 404; 407] ->
  NF c (mon_step m (TRet (Some n) fds clk)).
Proof.
  intros m n fds clk c N NI. lazy beta iota delta [mon_step]. repeat lift_let.
  assert (N5 : NF c m5).
  { unfold m5, m4, m3, m2, m1, m0. repeat (apply NF_chk_ne; [|intros ->; apply NI; cbn; tauto]). exact N. }
  clearbody m5.
  assert (N6 : NF c m6).
  { unfold m6. destruct (slept && negb (a_stale m5)); [|exact N5]. destruct (min_expiry m5); [|exact N5].
    cbv zeta. repeat (apply NF_chk_ne; [|intros ->; apply NI; cbn; tauto]). exact N5. }
  clearbody m6. unfold m10, m9, m8, m7. intros H.
  cbn [fails m_fds m_tms m_tks m_evs m_rws m_loop m_wait m_iter m_spin] in H. revert H.
  apply NF_chk_ne; [exact N6|intros ->; apply NI; cbn; tauto].
Qed.

Lemma In_fails_step : forall m e c, In c (fails (mon_step m e)) -> In c (fails m) \/ In c (codes_of e).
Proof.
  intros m e c H. destruct e; cbn [codes_of].
  - (* TInit *) left; exact H.
  - unfold mon_step in H. cbv zeta in H. fails_inv H.
    apply In_fails_on_call in H. destruct H as [H|[H|[]]]; [left; assumption|right; subst; cbn; tauto].
  - unfold mon_step in H. cbv zeta in H. fails_inv H.
    apply In_fails_on_call in H. destruct H as [H|[H|[]]]; [left; assumption|right; subst; cbn; tauto].
  - unfold mon_step in H. cbv zeta in H. fails_inv H.
    apply In_fails_on_call in H. destruct H as [H|[H|[]]]; [left; assumption|right; subst; cbn; tauto].
  - unfold mon_step in H. cbv zeta in H. fails_inv H.
    apply In_fails_on_call in H. destruct H as [H|[H|[]]]; [left; assumption|right; subst; cbn; tauto].
  - unfold mon_step in H. cbv zeta in H. fails_inv H.
    apply In_fails_on_call in H. destruct H as [H|[H|[]]]; [left; assumption|right; subst; cbn; tauto].
  - (* TWait *) unfold mon_step in H. cbv zeta in H. fails_inv H.
    apply In_fails_close in H. destruct H as [H|H]; [left; assumption|right; cbn in *; tauto].
  - (* TRet *) destruct n as [n|].
    + destruct (in_dec Z.eq_dec c [202; 203; 705; 602; 708; 902; 403; 404; 407]) as [I|NI]; [right; exact I|].
      destruct (in_dec Z.eq_dec c (fails m)) as [I|NF0]; [left; exact I|].
      exfalso. exact (NF_TRet_some m n fds clk c NF0 NI H).
    + unfold mon_step in H. cbv zeta in H. fails_inv H. left; exact H.
  - (* TAct *) cbn [mon_step] in H. rewrite fails_action in H. left; exact H.
  - (* TMain *) left; exact H.
  - (* TKTfd *) left; exact H.
  - (* TKClose *) left; exact H.
  - (* TRes *) unfold mon_step in H. destruct (rc =? 0); [|left; exact H].
    destruct (kind =? 0); [left; exact H|]. destruct (kind =? 1); left; exact H.
  - (* TEnd *) unfold mon_step in H. cbv zeta in H. fails_inv H.
    apply In_fails_close in H. destruct H as [H|H]; [left; assumption|right; cbn in *; tauto].
  - unfold mon_step in H. fails_inv H. left; exact H.
  - unfold mon_step in H. fails_inv H. left; exact H.
  - (* TLimit *) left; exact H.
  - (* THang *) unfold mon_step in H. cbv zeta in H. fails_inv H. left; exact H.
  - unfold mon_step in H. fails_inv H. left; exact H.
  - unfold mon_step in H. fails_inv H. left; exact H.
Qed.

Lemma NF_step : forall c m e, NF c m -> ~ In c (codes_of e) -> NF c (mon_step m e).
Proof. intros c m e N NI H. apply In_fails_step in H. destruct H as [H|H]; [exact (N H)|exact (NI H)]. Qed.

(* ---------- ghost fields of the tracker ---------- *)
Lemma a_stale_chk : forall m b c, a_stale (chk m b c) = a_stale m. Proof. intros m b c; destruct b; reflexivity. Qed.
Lemma ran_chk : forall m b c, ran (chk m b c) = ran m. Proof. intros m b c; destruct b; reflexivity. Qed.
Lemma a_rwp_chk : forall m b c, a_rwp (chk m b c) = a_rwp m. Proof. intros m b c; destruct b; reflexivity. Qed.
Lemma w_call_chk : forall m b c, w_call (chk m b c) = w_call m. Proof. intros m b c; destruct b; reflexivity. Qed.
Lemma w_to_chk : forall m b c, w_to (chk m b c) = w_to m. Proof. intros m b c; destruct b; reflexivity. Qed.
Lemma w_entry_chk : forall m b c, w_entry (chk m b c) = w_entry m. Proof. intros m b c; destruct b; reflexivity. Qed.
Global Hint Rewrite a_stale_chk ran_chk a_rwp_chk w_call_chk w_to_chk w_entry_chk : monq.

Ltac qproj1 :=
  cbn [a_stale ran a_rwp w_call w_to w_entry a_fd a_fh a_ck a_tm a_exp a_tk a_ev a_evp a_rw a_main a_quit a_clk
       m_fds m_tms m_tks m_evs m_rws m_loop m_wait m_iter m_spin];
  autorewrite with monq monp.
Ltac qproj := unfold on_call, close_iteration; repeat (progress qproj1).

Lemma a_stale_on_call : forall m, a_stale (on_call m) = a_stale m. Proof. intros; qproj; reflexivity. Qed.
Lemma ran_on_call : forall m, ran (on_call m) = ran m. Proof. intros; qproj; reflexivity. Qed.
Lemma a_rwp_on_call : forall m, a_rwp (on_call m) = a_rwp m. Proof. intros; qproj; reflexivity. Qed.
Lemma a_stale_close : forall m, a_stale (close_iteration m) = a_stale m. Proof. intros; qproj; reflexivity. Qed.
Lemma ran_close : forall m, ran (close_iteration m) = []. Proof. intros; qproj; reflexivity. Qed.
Lemma a_rwp_close : forall m, a_rwp (close_iteration m) = a_rwp m. Proof. intros; qproj; reflexivity. Qed.
Global Hint Rewrite a_stale_on_call ran_on_call a_rwp_on_call a_stale_close ran_close a_rwp_close : monq.

(* ghost fields across a wait return *)
Definition ghost3 (m : mon) : list Z * (Z -> bool) * bool := (ran m, a_rwp m, a_stale m).

Lemma ghost3_TRet_some : forall m n fds clk,
  ghost3 (mon_step m (TRet (Some n) fds clk)) = (ran m, a_rwp m, false).
Proof.
  intros. lazy beta iota delta [mon_step]. repeat lift_let.
  assert (E5 : ran m5 = ran m /\ a_rwp m5 = a_rwp m).
  { unfold m5, m4, m3, m2, m1, m0. autorewrite with monq. split; reflexivity. }
  clearbody m5.
  assert (E6 : ran m6 = ran m /\ a_rwp m6 = a_rwp m).
  { unfold m6. destruct (slept && negb (a_stale m5)); [|exact E5]. destruct (min_expiry m5); [|exact E5].
    cbv zeta. autorewrite with monq. exact E5. }
  clearbody m6. unfold ghost3, m10, m9, m8, m7. cbn [ran a_rwp a_stale m_iter m_spin m_loop m_wait].
  autorewrite with monq. destruct E6 as [-> ->]. reflexivity.
Qed.

Ltac ghost_cases G :=
  intros m e; destruct e;
  [ reflexivity                                   (* TInit *)
  | unfold mon_step; cbv zeta; qproj; reflexivity (* TCallFd *)
  | unfold mon_step; cbv zeta; qproj; reflexivity (* TCallTimer *)
  | unfold mon_step; cbv zeta; qproj; reflexivity (* TCallTask *)
  | unfold mon_step; cbv zeta; qproj; reflexivity (* TCallEvent *)
  | unfold mon_step; cbv zeta; qproj; reflexivity (* TCallRaw *)
  | unfold mon_step; cbv zeta; qproj; reflexivity (* TWait *)
  | match goal with |- context [TRet ?n ?fds ?clk] => destruct n as [n'|];
      [ pose proof (G m n' fds clk) as GG; unfold ghost3 in GG; congruence
      | unfold mon_step; cbv zeta; qproj; reflexivity ] end
  | match goal with |- context [TAct ?a] => destruct a; reflexivity end
  | reflexivity | reflexivity | reflexivity       (* TMain TKTfd TKClose *)
  | match goal with |- context [TRes ?kind ?id ?rc] => unfold mon_step; destruct (rc =? 0); [|reflexivity];
      destruct (kind =? 0); [reflexivity|]; destruct (kind =? 1); reflexivity end
  | unfold mon_step; cbv zeta; qproj; reflexivity (* TEnd *)
  | unfold mon_step; qproj; reflexivity           (* TTear *)
  | unfold mon_step; qproj; reflexivity           (* TDone *)
  | reflexivity                                   (* TLimit *)
  | unfold mon_step; cbv zeta; qproj; reflexivity (* THang *)
  | reflexivity | reflexivity ].                  (* TFatal TCrash *)

Lemma a_stale_step : forall m e, a_stale (mon_step m e) =
  match e with
  | TAct (AClockAdv _) => true
  | TAct AInvalidate => false
  | TRet _ _ _ => false
  | _ => a_stale m
  end.
Proof. ghost_cases ghost3_TRet_some. Qed.

Lemma ran_step : forall m e, ran (mon_step m e) =
  match e with
  | TCallTask k => k :: ran m
  | TWait _ _ _ _ _ _ => []
  | TEnd _ _ => []
  | _ => ran m
  end.
Proof. ghost_cases ghost3_TRet_some. Qed.

Lemma a_rwp_step : forall m e, a_rwp (mon_step m e) =
  match e with
  | TAct (ARwUnreg j) => upd (a_rwp m) j false
  | TAct (ARwPost j) => upd (a_rwp m) j true
  | TCallRaw j => upd (a_rwp m) j false
  | _ => a_rwp m
  end.
Proof. ghost_cases ghost3_TRet_some. Qed.
