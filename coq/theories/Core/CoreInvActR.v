(* CoreInvActR.v -- InvE (InvW without the event clauses, accounting with an offset),
   raw events (iv_event_raw_register / unregister / post), close. *)
From Coq Require Import List ZArith Bool Lia.
From Ivv Require Import Core.Kernel Core.CoreTypes Core.CoreFd Core.CoreModel Core.CoreSpec
  Core.CoreInvBase Core.CoreInvDefs Core.CoreInvFd Core.CoreInvPoll Core.CoreInvReg Core.CoreInvObj Core.CoreInvAct.
From Ivv Require Timer.HeapModel Timer.HeapSpec.
Import ListNotations.
Local Open Scope Z_scope.

(* accounting with an offset (inside iv_event_unregister the event count is decremented
   before numobjs is) *)
Record AcctD (d : Z) (s : core) : Prop := {
  ad_numfds : numfds s = cntf (fun k => registered (fdt s k)) (zseq 0 33);
  ad_numobjs : numobjs s = numfds s + HeapModel.num (heap s) + Z.of_nat (length (tasks s ++ curl s))
                           + ev_count s + active_ref s + d;
}.
Lemma Acct_AcctD : forall s, Acct s -> AcctD 0 s.
Proof. intros s [A B]. constructor; [exact A|lia]. Qed.
Lemma AcctD_Acct : forall s, AcctD 0 s -> Acct s.
Proof. intros s [A B]. constructor; [exact A|lia]. Qed.

Lemma AcctD_fd : forall d0 k s s' d, AcctD d0 s -> FdStep k s s' -> 0 <= k <= 32 ->
  (d = 0 /\ registered (fdt s' k) = registered (fdt s k) \/
   d = 1 /\ registered (fdt s k) = false /\ registered (fdt s' k) = true \/
   d = -1 /\ registered (fdt s k) = true /\ registered (fdt s' k) = false) ->
  numfds s' = numfds s + d -> numobjs s' = numobjs s + d -> AcctD d0 s'.
Proof.
  intros d0 k s s' d [A B] S K C NF NO. pose proof (fs_rest _ _ _ S) as RS.
  assert (IN : In k (zseq 0 33)) by (apply In_zseq'; lia).
  assert (CNT : cntf (regf s') (zseq 0 33) = cntf (regf s) (zseq 0 33) + d).
  { destruct C as [(->&C)|[(->&C1&C2)|(->&C1&C2)]].
    - rewrite Z.add_0_r. apply cntf_ext. intros x _. unfold regf.
      destruct (Z.eq_dec x k) as [->|N]; [assumption|apply (fs_reg _ _ _ S); assumption].
    - apply (cntf_flip (regf s) (regf s') _ k); try assumption; [apply NoDup_zseq|].
      intros x N. unfold regf. symmetry. apply (fs_reg _ _ _ S). assumption.
    - assert (cntf (regf s) (zseq 0 33) = cntf (regf s') (zseq 0 33) + 1); [|lia].
      apply (cntf_flip (regf s') (regf s) _ k); try assumption; [apply NoDup_zseq|].
      intros x N. unfold regf. apply (fs_reg _ _ _ S). assumption. }
  constructor.
  - change (numfds s' = cntf (regf s') (zseq 0 33)). rewrite CNT, NF. change (cntf (regf s) (zseq 0 33)) with (cntf (fun k => registered (fdt s k)) (zseq 0 33)). lia.
  - rewrite NO, NF, B. destruct RS. rewrite rs_heap, rs_tasks, rs_evc, rs_ar. unfold curl. rewrite rs_cur. lia.
Qed.

Section Offset.
Variable dA : Z.

(* ---------- InvW without the event clauses (inside iv_event_register / unregister) ---------- *)
Record InvE (s : core) : Prop := {
  ie_fd : FdInv (-1) s;
  ie_sync : forall k, sync_at s k;
  ie_dyn : DynInv s;
  ie_heap : HeapSpec.HeapInv (heap s);
  ie_task : TaskInv s;
  ie_acct : AcctD dA s;
  ie_misc : Misc s;
}.

Lemma InvE_kstable : forall s k', InvE s -> kstable (kern s) k' -> InvE (set_kern s k').
Proof.
  intros s k' [A B C D E G H] S. constructor.
  - apply FdInv_kern; [assumption|apply (kt_ep _ _ S)| |].
    + intros k L. eapply kstable_open_some; [eassumption|]. apply (fv_open _ _ A). assumption.
    + intros fd Q. eapply kstable_get_some; eassumption.
  - intros k. apply sync_at_same with (s := s); try reflexivity. apply B.
  - destruct C. constructor; sp; try assumption.
    + intros j J. specialize (dy_kern j J). dyk;
        [eapply pipe_ok_kstable|eapply evfd_ok_kstable]; eassumption.
    + intros J. destruct (dy_act J) as (X & (v & V1 & V2) & W). split; [assumption|]. split.
      * destruct (kstable_open _ _ _ _ S V1) as (v' & V1' & Q). destruct (Q X) as (Q1 & _).
        exists v'. split; [assumption|]. rewrite Q1. assumption.
      * destruct W as [W|W]; [left; assumption|right; eapply pipe_ok_kstable; eassumption].
    + destruct dy_tfd as [T|(T & v & V1 & V2)]; [left; assumption|right]. split; [assumption|].
      destruct (kstable_get_kind _ _ _ _ S V1 T) as (v' & V1' & Q). exists v'. split; congruence.
    + rewrite (kt_ep _ _ S). intros e He Q. destruct (dy_tfdent e He Q) as (v & V1 & V2).
      assert (T : 1000 <= tfd s).
      { destruct (fv_ent _ _ A e He) as [((L&_)&_)|[(L&_)|(_&L1&_&L2)]]; first [lia|destruct L; lia]. }
      destruct (kstable_open _ _ _ _ S V1) as (v' & V1' & Q'). destruct (Q' T) as (Q1 & _).
      exists v'. split; congruence.
  - exact D.
  - apply (TaskInv_same s); [reflexivity..|exact E].
  - destruct G. constructor; assumption.
  - destruct H. constructor; sp; try assumption.
    + rewrite (kt_flt _ _ S). assumption.
    + eapply KInv_kstable; eassumption.
Qed.

(* the eventfd mode of the raw events changes *)
Definition ModeOK (s : core) (u : Z) : Prop := u = 0 \/ u = 1 \/ u = 2.

Lemma InvE_efd_raw : forall s a u, InvE s -> ModeOK s u -> InvE (set_efd s a u).
Proof.
  intros s a u [A B C D E G H] M1. constructor.
  - eapply FdInv_eq; [exact A|intros; tauto|reflexivity..].
  - intros k. apply sync_at_same with (s := s); try reflexivity. apply B.
  - destruct C. constructor; sp; try assumption.
  - exact D.
  - apply (TaskInv_same s); [reflexivity..|exact E].
  - destruct G. constructor; assumption.
  - apply (Misc_same s); [reflexivity..|exact H].
Qed.

(* ---------- raw events ---------- *)
Record EvFr (s s' : core) : Prop := {
  ef_evp : ev_pending s' = ev_pending s; ef_evb : ev_batch s' = ev_batch s; ef_evc : ev_count s' = ev_count s;
  ef_evr : ev_reg s' = ev_reg s; ef_ur : use_raw s' = use_raw s; ef_ar : active_ref s' = active_ref s;
  ef_method : method s' = method s;
}.
Lemma EvFr_refl : forall s, EvFr s s. Proof. intros; constructor; reflexivity. Qed.
Lemma EvFr_trans : forall a b c, EvFr a b -> EvFr b c -> EvFr a c.
Proof. intros a b c [] []. constructor; congruence. Qed.
Lemma EvFr_restsame : forall s s', restsame s s' -> EvFr s s'.
Proof. intros s s' []. constructor; assumption. Qed.

Lemma EvInv_frame : forall s s', EvFr s s' -> rw_reg s' 16 = rw_reg s 16 -> EvInv s -> EvInv s'.
Proof.
  intros s s' [A B C D E F G] R [H1 H2 H3 H4 H5 H6 H7]. constructor; unfold is_epoll;
    rewrite ?A, ?B, ?C, ?D, ?E, ?F, ?G, ?R; assumption.
Qed.

Definition raw_fdo (j rfd : Z) : fdo :=
  fd_with_handlers (fd_fresh rfd (1000 + j)) (Some (H_RAW j)) None None.

Definition raw_install (s : core) (j rfd wfd : Z) : res :=
  bind (fd_register (putfd s (RAW_KEY j) (raw_fdo j rfd)) (RAW_KEY j)) (fun s =>
    R (set_rw s (upd (rw_reg s) j true) (upd (rw_rfd s) j rfd) (upd (rw_wfd s) j wfd))).

Definition RawPost (j : Z) (s s' : core) : Prop :=
  InvE s' /\ Fr s s' /\ EvFr s s' /\ rw_reg s' = upd (rw_reg s) j true /\
  numobjs s' = numobjs s + 1 /\ trace s' = trace s.

Lemma raw_install_ok : forall s j rfd wfd, InvE s -> 0 <= j <= 16 -> rw_reg s j = false ->
  1000 <= rfd -> k_open (kern s) rfd <> None ->
  (forall k', registered (fdt s k') = true -> fdnum (fdt s k') <> rfd) ->
  ep_find (ep (kern s)) rfd = false ->
  (active_ref s = 1 -> rfd <> active_fd s) ->
  (if negb (wfd =? rfd) then pipe_ok (kern s) rfd wfd else evfd_ok (kern s) rfd wfd) ->
  okr (RawPost j s) (raw_install s j rfd wfd).
Proof.
  intros s j rfd wfd I J RF D1 O1 INJ ABS ACT KOK. unfold raw_install, RAW_KEY.
  set (key := 16 + j). set (f := raw_fdo j rfd).
  pose proof (ie_fd _ I) as FI. pose proof (ie_dyn _ I) as DI.
  assert (UR : registered (fdt s key) = false) by (subst key; rewrite (dy_reg _ DI j J); assumption).
  assert (NL : ~ live s (-1) key) by (rewrite live_none; intros [_ Q]; congruence).
  set (s2 := putfd s key f).
  assert (I2 : FdInv (-1) s2) by (apply FdInv_putfd_dead; [assumption..|reflexivity|subst key; lia]).
  assert (F2k : fdt s2 key = f) by (subst s2; sp; apply upd_same).
  assert (F2o : forall k0, k0 <> key -> fdt s2 k0 = fdt s k0) by (intros; subst s2; sp; apply upd_other; assumption).
  assert (P2 : RegPre s2 key).
  { constructor.
    - rewrite F2k. reflexivity.
    - subst key. lia.
    - rewrite F2k. exact O1.
    - intros _. rewrite F2k. exact D1.
    - intros k' R'. rewrite F2k. destruct (Z.eq_dec k' key) as [->|N]; [rewrite F2k in R'; discriminate|].
      rewrite F2o in * by assumption. apply INJ. assumption.
    - rewrite F2k. exact ABS. }
  eapply okr_bind; [apply (fd_register_ok s2 key I2 P2)|].
  intros s3 (I3 & S3 & R3 & SY3 & A3 & H3 & NF3 & NO3). cbn [okr].
  assert (RS3 : restsame s s3) by (eapply restsame_trans; [|apply (fs_rest _ _ _ S3)]; constructor; reflexivity).
  pose proof (fs_kctl _ _ _ S3) as K3.
  change (kern s2) with (kern s) in K3.
  set (s4 := set_rw s3 (upd (rw_reg s3) j true) (upd (rw_rfd s3) j rfd) (upd (rw_wfd s3) j wfd)).
  assert (HS : forall k0, k0 <> key -> hsame (fdt s3 k0) (fdt s k0)).
  { intros k0 N. rewrite <- (F2o k0 N). apply (fs_hsame _ _ _ S3). }
  assert (HK : hsame (fdt s3 key) f) by (rewrite <- F2k; apply (fs_hsame _ _ _ S3)).
  assert (RO : forall k0, k0 <> key -> registered (fdt s3 k0) = registered (fdt s k0)).
  { intros k0 N. rewrite (fs_reg _ _ _ S3) by assumption. rewrite F2o by assumption. reflexivity. }
  assert (RR : rw_reg s3 = rw_reg s) by apply (rs_rr _ _ RS3).
  assert (RFD : rw_rfd s3 = rw_rfd s) by apply (rs_rf _ _ RS3).
  assert (RWF : rw_wfd s3 = rw_wfd s) by apply (rs_rwf _ _ RS3).
  unfold RawPost. split; [constructor|].
  - (* FdInv *) eapply FdInv_eq; [exact I3|intros; tauto|reflexivity..].
  - (* sync *)
    intros k0. apply sync_at_same with (s := s3); try reflexivity.
    destruct (Z.eq_dec k0 key) as [->|N]; [assumption|].
    apply (fs_sync _ _ _ S3); [assumption|].
    apply sync_at_same with (s := s); try reflexivity; [apply F2o; assumption|apply (ie_sync _ I)].
  - (* DynInv *)
    destruct DI. unfold raw_is_pipe in dy_kern. constructor; unfold raw_is_pipe; subst s4; sp; rewrite ?RR, ?RFD, ?RWF, ?(rs_er _ _ RS3), ?(rs_ar _ _ RS3),
      ?(rs_af _ _ RS3), ?(rs_aw _ _ RS3), ?(rs_tfd _ _ RS3).
    + intros j0. unfold upd. destruct (Z.eqb_spec j0 j) as [->|N]; auto.
    + intros j0 J0. unfold upd. destruct (Z.eqb_spec j0 j) as [->|N]; [exact R3|].
      rewrite RO by (subst key; lia). auto.
    + intros j0. unfold upd. destruct (Z.eqb_spec j0 j) as [->|N].
      * intros _. destruct HK as (A&B&C&D&_). fold key. rewrite A, B, C, D. subst f. repeat split.
      * intros J0. destruct (HS (16 + j0)) as (A&B&C&D&_); [subst key; lia|]. rewrite A, B, C, D. auto.
    + intros j0. unfold upd. destruct (Z.eqb_spec j0 j) as [->|N].
      * intros _. destruct (negb (wfd =? rfd));
          [eapply pipe_ok_kctl|eapply evfd_ok_kctl]; eassumption.
      * intros J0. specialize (dy_kern j0 J0). destruct (negb (rw_wfd s j0 =? rw_rfd s j0));
          [eapply pipe_ok_kctl|eapply evfd_ok_kctl]; eassumption.
    + assumption.
    + intros k0 K0. destruct (HS k0) as (_&B&C&D&_); [subst key; lia|]. unfold hids_ok. rewrite B, C, D. apply (dy_userh k0 K0).
    + intros Q. destruct (dy_act Q) as (X & (v & V1 & V2) & W). split; [assumption|]. split.
      * exists v. rewrite (kctl_open _ _ _ K3). tauto.
      * destruct W as [W|W]; [left; assumption|right; eapply pipe_ok_kctl; eassumption].
    + assumption.
    + intros Q j0. unfold upd. destruct (Z.eqb_spec j0 j); auto.
    + destruct dy_tfd as [T|(T & v & V1 & V2)]; [left; assumption|right]. split; [assumption|].
      exists v. rewrite (kctl_get _ _ _ K3). tauto.
    + intros e He Q. rewrite (kctl_open _ _ _ K3). apply (dy_tfdent e); [|assumption].
      apply (fs_epneg _ _ _ S3) in He; [exact He|lia].
  - (* heap *) change (heap s4) with (heap s3). rewrite (rs_heap _ _ RS3). apply (ie_heap _ I).
  - (* tasks *) apply (TaskInv_same s); [apply (rs_tasks _ _ RS3)|apply (rs_cur _ _ RS3)|apply (ie_task _ I)].
  - (* accounting *)
    assert (A2 : AcctD dA s2).
    { destruct (ie_acct _ I) as [A B]. constructor; [|exact B]. change (numfds s2) with (numfds s). rewrite A.
      apply cntf_ext. intros x _. destruct (Z.eq_dec x key) as [->|N]; [rewrite F2k, UR; reflexivity|rewrite F2o by assumption; reflexivity]. }
    assert (A3' : AcctD dA s3).
    { apply (AcctD_fd dA key s2 s3 1); try assumption; [subst key; lia|]. right; left. rewrite F2k. tauto. }
    destruct A3'. constructor; assumption.
  - (* misc *) apply (Misc_same s3); [reflexivity..|]. eapply Misc_step; [exact S3|].
    apply (Misc_same s); [reflexivity..|apply (ie_misc _ I)].
  - split; [|split; [|split; [|split]]].
    + apply Fr_trans with (b := s3).
      * apply Fr_restsame; [exact RS3| |rewrite A3; subst s2; sp; lia|left; rewrite H3; reflexivity].
        destruct K3 as (_&_&_&->&_). reflexivity.
      * constructor; subst s4; sp; try reflexivity; try lia; try tauto.
    + subst s4. destruct RS3. constructor; sp; assumption.
    + subst s4. sp. rewrite RR. reflexivity.
    + subst s4. sp. rewrite NO3. reflexivity.
    + subst s4. sp. apply (rs_trace _ _ RS3).
Qed.

Lemma KInv_kfresh : forall k, KInv k -> kfresh k.
Proof. intros k [A B]. exact B. Qed.

(* a descriptor number not yet allocated is referenced by nothing *)
Lemma fresh_hyps : forall s fd, InvE s -> next_fd (kern s) <= fd ->
  1000 <= fd /\ (forall k', registered (fdt s k') = true -> fdnum (fdt s k') <> fd) /\
  ep_find (ep (kern s)) fd = false /\ (active_ref s = 1 -> fd <> active_fd s).
Proof.
  intros s fd I N. pose proof (ms_kinv _ (ie_misc _ I)) as [K1 K2]. pose proof (ie_fd _ I) as FI.
  split; [lia|]. split; [|split].
  - intros k' R Q. pose proof (fv_open _ _ FI k' (live_reg _ _ _ FI R (-1))) as O.
    apply k_open_some_get in O. apply K2 in O. lia.
  - apply ep_find_false. intros e He Q. pose proof (fv_ealloc _ _ FI e He) as G. apply K2 in G. lia.
  - intros A Q. destruct (dy_act _ (ie_dyn _ I) A) as (_ & (v & V & _) & _).
    assert (G : k_get (kern s) (active_fd s) <> None) by (apply k_open_some_get; congruence).
    apply K2 in G. lia.
Qed.

Definition RawFail (s s' : core) : Prop :=
  InvE s' /\ Fr s s' /\ EvFr s s' /\ rw_reg s' = rw_reg s /\ numobjs s' = numobjs s /\ trace s' = trace s.

(* the state after the eventfd mode has been updated *)
Lemma efd_state_ok : forall s k1 u, InvE s -> kstable (kern s) k1 ->
  (u = 0 \/ u = 1 \/ u = 2) ->
  let s1 := set_efd (set_kern s k1) (efd_epoll s) u in
  InvE s1 /\ Fr s s1 /\ EvFr s s1 /\ rw_reg s1 = rw_reg s /\ numobjs s1 = numobjs s /\ trace s1 = trace s /\
  fdt s1 = fdt s /\ active_ref s1 = active_ref s /\ active_fd s1 = active_fd s.
Proof.
  intros s k1 u I S U1 s1. pose proof (kt_nwait _ _ S) as NW. split.
  - subst s1. apply InvE_efd_raw; [apply InvE_kstable; assumption|]. exact U1.
  - split; [constructor; subst s1; sp; try reflexivity; try lia; try tauto|].
    split; [constructor; reflexivity|]. repeat split.
Qed.

Definition raw_stage2 (s : core) (got : option (Z * Z)) : core * option (Z * Z) * bool :=
  match got with
  | Some p => (s, Some p, false)
  | None =>
      if efd_raw s =? 0 then
        match k_pipe (kern s) with
        | (k1, Some (r, w)) => (set_kern s k1, Some (r, w), false)
        | (k1, None) => (set_kern s k1, None, true)
        end
      else (s, None, true)
  end.

Definition raw_finish (j : Z) (x : core * option (Z * Z) * bool) : res * bool :=
  let '(s, got, _) := x in
  match got with
  | None => (R s, true)
  | Some (rfd, wfd) => (raw_install s j rfd wfd, false)
  end.

Lemma raw_register_unfold : forall s j,
  raw_register s j =
  let in_use := efd_raw s in
  let '(s1, got, failed) :=
    if negb (in_use =? 0) then
      match eventfd_grab (kern s) in_use with
      | (k1, inl fd, u) => (set_efd (set_kern s k1) (efd_epoll s) u, Some (fd, fd), false)
      | (k1, inr e, u) => (set_efd (set_kern s k1) (efd_epoll s) u, None, negb (is_enosys e))
      end
    else (s, None, false) in
  if failed then (R s1, true) else raw_finish j (raw_stage2 s1 got).
Proof.
  intros s j. unfold raw_register, raw_finish, raw_stage2, raw_install, RAW_KEY, raw_fdo. cbv zeta.
  destruct (negb (efd_raw s =? 0)).
  - destruct (eventfd_grab (kern s) (efd_raw s)) as [[k1 [fd|e]] u]; [reflexivity|].
    destruct (negb (is_enosys e)); [reflexivity|].
    destruct (efd_raw (set_efd (set_kern s k1) (efd_epoll s) u) =? 0); [|reflexivity].
    destruct (k_pipe (kern (set_efd (set_kern s k1) (efd_epoll s) u))) as [k2 [[r w]|]]; reflexivity.
  - destruct (efd_raw s =? 0); [|reflexivity].
    destruct (k_pipe (kern s)) as [k2 [[r w]|]]; reflexivity.
Qed.

Definition RawRes (j : Z) (s : core) (failed : bool) (s' : core) : Prop :=
  if failed then RawFail s s' else RawPost j s s'.

(* the second stage, entered without descriptors: the pipe fall-back *)
Lemma raw_pipe_ok : forall s0 s j, InvE s -> 0 <= j <= 16 -> rw_reg s j = false ->
  Fr s0 s -> EvFr s0 s -> rw_reg s = rw_reg s0 -> numobjs s = numobjs s0 -> trace s = trace s0 ->
  (efd_raw s <> 0 -> emfile (flt (kern s)) = true \/ True) ->
  let x := raw_finish j (raw_stage2 s None) in okr (RawRes j s0 (snd x)) (fst x).
Proof.
  intros s0 s j I J RF F0 E0 R0 N0 T0 _. unfold raw_stage2.
  assert (FAIL : forall s1, s1 = s -> okr (RawRes j s0 true) (R s1)).
  { intros s1 ->. cbn [okr]. unfold RawRes, RawFail. tauto. }
  destruct (Z.eqb_spec (efd_raw s) 0) as [Z0|NZ]; [|cbn [raw_finish fst snd]; apply FAIL; reflexivity].
  pose proof (pipe_spec (kern s) (KInv_kfresh _ (ms_kinv _ (ie_misc _ I)))) as PS.
  destruct (k_pipe (kern s)) as [k1 [[r w]|]].
  - destruct PS as (EM & -> & -> & KS & KF & OR & OW). cbn [raw_finish fst snd].
    set (s1 := set_kern s k1).
    assert (I1 : InvE s1) by (apply InvE_kstable; assumption).
    destruct (fresh_hyps s (next_fd (kern s)) I ltac:(lia)) as (H1 & H2 & H3 & H4).
    eapply okr_weaken; [apply (raw_install_ok s1 j (next_fd (kern s)) (next_fd (kern s) + 1) I1 J RF H1)|].
    + subst s1. sp. congruence.
    + exact H2.
    + subst s1. sp. rewrite (kt_ep _ _ KS). exact H3.
    + exact H4.
    + subst s1. sp. replace (next_fd (kern s) + 1 =? next_fd (kern s)) with false by (symmetry; apply Z.eqb_neq; lia).
      cbn [negb]. split; [assumption|]. split; [lia|].
      eexists _, _. split; [exact OR|]. split; [reflexivity|]. split; [reflexivity|]. split; [reflexivity|].
      split; [exact OW|]. split; reflexivity.
    + intros s' (A & B & C & D & E & G). unfold RawRes, RawPost.
      assert (F1 : Fr s s1) by (apply Fr_set_kern; apply (kt_nwait _ _ KS)).
      split; [assumption|]. split; [eapply Fr_trans; [exact F0|]; eapply Fr_trans; eassumption|].
      split; [eapply EvFr_trans; [exact E0|]; eapply EvFr_trans; [|exact C]; constructor; reflexivity|]. split; [rewrite D; subst s1; sp; rewrite R0; reflexivity|].
      split; [rewrite E; subst s1; sp; lia|rewrite G; subst s1; sp; assumption].
  - destruct PS as (-> & EM). cbn [raw_finish fst snd okr]. unfold RawRes, RawFail.
    assert (I1 : InvE (set_kern s (kern s))) by (apply InvE_kstable; [assumption|apply kstable_refl]).
    split; [assumption|]. split; [eapply Fr_trans; [exact F0|]; apply Fr_set_kern; reflexivity|].
    split; [destruct E0; constructor; assumption|]. repeat split; assumption.
Qed.

Lemma raw_register_ok : forall s j, InvE s -> 0 <= j <= 16 -> rw_reg s j = false ->
  okr (RawRes j s (snd (raw_register s j))) (fst (raw_register s j)).
Proof.
  intros s j I J RF. rewrite raw_register_unfold. cbv zeta.
  pose proof (ie_dyn _ I) as DI. pose proof (ms_kinv _ (ie_misc _ I)) as KI.
  destruct (Z.eqb_spec (efd_raw s) 0) as [Z0|NZ]; cbn [negb].
  - (* no eventfd support known: straight to the pipe *)
    apply (raw_pipe_ok s s j I J RF (Fr_refl s) (EvFr_refl s)); try reflexivity. tauto.
  - pose proof (grab_spec (kern s) (efd_raw s) (KInv_kfresh _ KI) (dy_modes _ DI)) as GS.
    destruct (eventfd_grab (kern s) (efd_raw s)) as [[k1 [fd|e]] u].
    + (* an eventfd *)
      destruct GS as (-> & KS & KF & OP & NE & EM & U & _). cbn [raw_stage2 raw_finish fst snd].
      destruct (efd_state_ok s k1 u I KS) as (I1 & F1 & E1 & R1 & N1 & T1 & FD1 & AR1 & AF1);
        [lia|].
      cbv zeta in *. set (s1 := set_efd (set_kern s k1) (efd_epoll s) u) in *.
      destruct (fresh_hyps s (next_fd (kern s)) I ltac:(lia)) as (H1 & H2 & H3 & H4).
      eapply okr_weaken; [apply (raw_install_ok s1 j (next_fd (kern s)) (next_fd (kern s)) I1 J)|].
      * rewrite R1. assumption.
      * exact H1.
      * subst s1. sp. congruence.
      * rewrite FD1. exact H2.
      * subst s1. sp. rewrite (kt_ep _ _ KS). exact H3.
      * rewrite AR1, AF1. exact H4.
      * subst s1. sp. rewrite Z.eqb_refl. cbn [negb]. split; [assumption|]. split; [reflexivity|].
        eexists. split; [exact OP|reflexivity].
      * intros s' (A & B & C & D & E & G). unfold RawRes, RawPost.
        split; [assumption|]. split; [eapply Fr_trans; eassumption|]. split; [eapply EvFr_trans; eassumption|].
        split; [rewrite D, R1; reflexivity|]. split; [rewrite E, N1; reflexivity|rewrite G, T1; reflexivity].
    + destruct GS as (-> & [(EN & -> & [IU|NE])|(EN & EM & -> & IU)]); rewrite EN; cbn [negb].
      * contradiction.
      * (* ENOSYS: the mode drops to 0, then the pipe *)
        destruct (efd_state_ok s (kern s) 0 I (kstable_refl _)) as (I1 & F1 & E1 & R1 & N1 & T1 & _);
          [tauto|].
        cbv zeta in *. set (s1 := set_efd (set_kern s (kern s)) (efd_epoll s) 0) in *.
        assert (RF1 : rw_reg s1 j = false) by (rewrite R1; assumption).
        apply (raw_pipe_ok s s1 j I1 J RF1 F1 E1 R1 N1 T1). tauto.
      * (* EMFILE *)
        destruct (efd_state_ok s (kern s) (efd_raw s) I (kstable_refl _)) as (I1 & F1 & E1 & R1 & N1 & T1 & _);
          [apply (dy_modes _ DI)|].
        cbn [fst snd okr]. unfold RawRes, RawFail. tauto.
Qed.

(* ---------- close ---------- *)
Lemma InvE_trace : forall s l, InvE s -> nobad l -> InvE (set_trace s l).
Proof.
  intros s l [A B C D E G H] NB. constructor.
  - apply FdInv_trace. assumption.
  - intros k. apply sync_at_same with (s := s); try reflexivity. apply B.
  - destruct C. constructor; assumption.
  - exact D.
  - apply (TaskInv_same s); [reflexivity..|exact E].
  - destruct G. constructor; assumption.
  - destruct H. constructor; assumption.
Qed.

Definition unref (s : core) (fd : Z) : Prop :=
  (forall k', registered (fdt s k') = true -> fdnum (fdt s k') <> fd) /\
  (forall j', rw_reg s j' = true -> rw_rfd s j' <> fd /\ rw_wfd s j' <> fd) /\
  (active_ref s = 1 -> active_fd s <> fd /\ active_wr s <> fd).
Definition unrefR (s : core) (p : Z) : Prop :=
  (forall j', rw_reg s j' = true -> rw_rfd s j' <> p) /\ (active_ref s = 1 -> active_fd s <> p).

Definition is_pipe (v : vfd) : bool := (vkind v =? K_PIPE_R) || (vkind v =? K_PIPE_W).

Lemma pipe_ok_close : forall k fd r w, r <> fd -> w <> fd ->
  (forall v, k_open k fd = Some v -> is_pipe v = true -> r <> vpeer v) ->
  pipe_ok k r w -> pipe_ok (fst (k_close k fd)) r w.
Proof.
  intros k fd r w N1 N2 P (X & Y & v & vw & A & B & C & D & E & F & G).
  destruct (k_close_spec k fd) as (_ & _ & _ & _ & _ & S6 & S7 & _). cbv zeta in *.
  split; [assumption|]. split; [assumption|].
  apply k_open_get in A. destruct A as [A1 A2]. apply k_open_get in E. destruct E as [E1 E2].
  exists v. destruct (S7 w vw E1) as (vw' & Q1 & Q2 & Q3 & Q4). exists vw'.
  split; [apply k_get_open; [rewrite S6; assumption|assumption]|].
  split; [assumption|]. split; [assumption|]. split; [assumption|].
  split; [apply k_get_open; [assumption|rewrite (Q4 N2); assumption]|]. split; congruence.
Qed.

Lemma k_open_close_other : forall k fd x v, x <> fd -> k_open k x = Some v ->
  exists v', k_open (fst (k_close k fd)) x = Some v' /\ vkind v' = vkind v.
Proof.
  intros k fd x v N O. destruct (k_close_spec k fd) as (_ & _ & _ & _ & _ & _ & S7 & _). cbv zeta in *.
  apply k_open_get in O. destruct O as [G C]. destruct (S7 x v G) as (v' & Q1 & Q2 & Q3 & Q4).
  exists v'. split; [apply k_get_open; [assumption|rewrite (Q4 N); assumption]|assumption].
Qed.

Lemma evfd_ok_close : forall k fd r w, r <> fd -> evfd_ok k r w -> evfd_ok (fst (k_close k fd)) r w.
Proof.
  intros k fd r w N (X & A & v & B & C). destruct (k_open_close_other k fd r v N B) as (v' & Q1 & Q2).
  split; [assumption|]. split; [assumption|]. exists v'. split; congruence.
Qed.

Lemma set_kern_close_ok : forall s fd, InvE s -> unref s fd ->
  (forall v, k_open (kern s) fd = Some v -> is_pipe v = true -> unrefR s (vpeer v)) ->
  InvE (set_kern s (fst (k_close (kern s) fd))).
Proof.
  intros s fd [A B C D E G H] (U1 & U2 & U3) UP.
  destruct (k_close_spec (kern s) fd) as (S1 & S2 & S3 & S4 & S5 & S6 & S7 & S8 & S9). cbv zeta in *.
  set (k' := fst (k_close (kern s) fd)) in *.
  assert (OPN : forall x, x <> fd -> k_open (kern s) x <> None -> k_open k' x <> None).
  { intros x N O. destruct (k_open (kern s) x) as [v|] eqn:Q; [|congruence].
    destruct (k_open_close_other (kern s) fd x v N Q) as (v' & Q1 & _). fold k' in Q1. congruence. }
  assert (GET : forall x, k_get (kern s) x <> None -> k_get k' x <> None).
  { intros x O. destruct (k_get (kern s) x) as [v|] eqn:Q; [|congruence].
    destruct (S7 x v Q) as (v' & Q1 & _). congruence. }
  constructor.
  - (* FdInv *)
    constructor; sp; try fd_auto A.
    + intros k L. apply OPN; [|apply (fv_open _ _ A); assumption]. apply U1. apply live_none in L. tauto.
    + intros EE. destruct (fv_poll_excl _ _ A EE) as [P Q]. split; [assumption|].
      destruct (ep k') as [|e l] eqn:EP; [reflexivity|]. exfalso.
      assert (X : In e (ep (kern s))) by (apply (proj1 (S4 e)); try rewrite EP; left; reflexivity). rewrite Q in X. contradiction.
    + intros e He. apply S4 in He. apply (fv_ent _ _ A). tauto.
    + intros EE k L R. destruct (fv_has _ _ A EE k L R) as (e & He & F1 & F2). exists e. split; [|tauto].
      apply S4. split; [assumption|]. intros _. rewrite F1. apply U1. apply live_none in L. tauto.
    + intros EE k L R. pose proof (fv_none _ _ A EE k L R) as F. apply ep_find_false. intros e He.
      apply S4 in He. rewrite ep_find_false in F. apply F. tauto.
    + apply S5. apply (fv_nodup _ _ A).
    + intros e He. apply S4 in He. apply GET. apply (fv_ealloc _ _ A). tauto.
    + intros Q. destruct (fv_kick _ _ A Q) as (e & He & F1 & F2). exists e. split; [|tauto].
      apply S4. split; [assumption|]. intros _. rewrite F1. apply U3. assumption.
  - intros k. apply sync_at_same with (s := s); try reflexivity. apply B.
  - destruct C. constructor; sp; try assumption.
    + intros j J. specialize (dy_kern j J). destruct (U2 j J) as [N1 N2].
      change (raw_is_pipe (set_kern s k') j) with (raw_is_pipe s j). destruct (raw_is_pipe s j).
      * apply pipe_ok_close; try assumption. intros v O PK. apply (UP v O PK). assumption.
      * apply evfd_ok_close; assumption.
    + intros Q. destruct (dy_act Q) as (X & (v & V1 & V2) & W). destruct (U3 Q) as [N1 N2]. split; [assumption|]. split.
      * destruct (k_open_close_other (kern s) fd _ v N1 V1) as (v' & Q1 & Q2). exists v'. split; [assumption|]. rewrite Q2. assumption.
      * destruct W as [W|W]; [left; assumption|right]. apply pipe_ok_close; try assumption.
        intros v0 O PK. apply (UP v0 O PK). assumption.
    + destruct dy_tfd as [T|(T & v & V1 & V2)]; [left; assumption|right]. split; [assumption|].
      destruct (S7 _ v V1) as (v' & Q1 & Q2 & _). exists v'. split; congruence.
    + intros e He Q. apply S4 in He. destruct He as [He NF]. destruct (dy_tfdent e He Q) as (v & V1 & V2).
      assert (TF : en_fd e = tfd s).
      { destruct (fv_ent _ _ A e He) as [((L&_)&_)|[(L&_)|(_&L1&_)]]; [destruct L; lia|lia|assumption]. }
      assert (N : tfd s <> fd).
      { intro EQ. apply NF; [rewrite <- EQ; congruence|congruence]. }
      destruct (k_open_close_other (kern s) fd _ v N V1) as (v' & Q1 & Q2). exists v'. split; [exact Q1|congruence].
  - exact D.
  - apply (TaskInv_same s); [reflexivity..|exact E].
  - destruct G. constructor; assumption.
  - destruct H as [H1 H2 H3 [K1 K2]]. constructor; sp; try assumption.
    + rewrite S2. assumption.
    + constructor; [rewrite S1; assumption|]. intros x Q. rewrite S1. apply K2.
      destruct (k_get (kern s) x) eqn:Z; [congruence|]. rewrite (S8 x Z) in Q. congruence.
Qed.

Lemma do_close_ok : forall s fd, InvE s -> unref s fd ->
  (forall v, k_open (kern s) fd = Some v -> is_pipe v = true -> unrefR s (vpeer v)) ->
  let s' := do_close s fd in
  InvE s' /\ Fr s s' /\ coresame (set_kern s (kern s')) s' /\
  (forall x, x <> fd -> (forall v, k_open (kern s) fd = Some v -> is_pipe v = true -> x <> vpeer v) -> k_get (kern s') x = k_get (kern s) x) /\
  (k_open (kern s) fd <> None -> k_open (kern s') fd = None) /\
  (forall x v, k_open (kern s') x = Some v -> exists v0, k_open (kern s) x = Some v0 /\ vkind v0 = vkind v /\ vpeer v0 = vpeer v).
Proof.
  intros s fd I U UP. pose proof (set_kern_close_ok s fd I U UP) as I1.
  destruct (k_close_spec (kern s) fd) as (S1 & S2 & S3 & S4 & S5 & S6 & S7 & S8 & S9). cbv zeta in *.
  assert (BACK : forall x v, k_open (fst (k_close (kern s) fd)) x = Some v ->
            exists v0, k_open (kern s) x = Some v0 /\ vkind v0 = vkind v /\ vpeer v0 = vpeer v).
  { intros x v O. destruct (k_open (kern s) fd) as [vf|] eqn:OO.
    - assert (N : x <> fd).
      { intro; subst x. rewrite S9 in O; [discriminate|congruence]. }
      apply k_open_get in O. destruct O as [G C].
      destruct (k_get (kern s) x) as [v0|] eqn:Z; [|rewrite (S8 x Z) in G; discriminate].
      destruct (S7 x v0 Z) as (v' & Q1 & Q2 & Q3 & Q4). rewrite G in Q1. injection Q1 as <-.
      exists v0. split; [|split; congruence]. apply k_get_open; [assumption|]. rewrite <- (Q4 N). assumption.
    - assert (EQ : fst (k_close (kern s) fd) = kern s) by (unfold k_close; rewrite OO; reflexivity).
      rewrite EQ in O. exists v. tauto. }
  unfold do_close. destruct (k_close (kern s) fd) as [k1 ok] eqn:KC. cbn [fst] in *.
  assert (NW : nwait k1 = nwait (kern s)) by assumption.
  destruct ok; cbv zeta; sp.
  - split; [apply InvE_trace; [exact I1|]; apply nobad_cons; [apply (ms_nobad _ (ie_misc _ I))|discriminate..]|].
    split; [constructor; sp; try reflexivity; try lia; try tauto|].
    split; [cs_refl|]. tauto.
  - split; [exact I1|]. split; [apply Fr_set_kern; assumption|]. split; [cs_refl|]. tauto.
Qed.

(* ---------- iv_event_raw_unregister ---------- *)
Definition close_pair (s : core) (r w : Z) : core :=
  let s := do_close s r in if negb (w =? r) then do_close s w else s.

Lemma do_close_set_rw : forall s fd a b c, set_rw (do_close s fd) a b c = do_close (set_rw s a b c) fd.
Proof.
  intros. unfold do_close. change (kern (set_rw s a b c)) with (kern s).
  destruct (k_close (kern s) fd) as [k1 ok]. destruct ok; reflexivity.
Qed.
Lemma do_close_efd_raw : forall s fd, efd_raw (do_close s fd) = efd_raw s.
Proof. intros. unfold do_close. destruct (k_close (kern s) fd) as [k1 ok]. destruct ok; reflexivity. Qed.
Lemma do_close_rw : forall s fd, rw_reg (do_close s fd) = rw_reg s /\ rw_rfd (do_close s fd) = rw_rfd s /\
  rw_wfd (do_close s fd) = rw_wfd s.
Proof. intros. unfold do_close. destruct (k_close (kern s) fd) as [k1 ok]. destruct ok; repeat split. Qed.

Lemma raw_unregister_unfold : forall s j,
  raw_unregister s j =
  bind (fd_unregister s (RAW_KEY j)) (fun s1 =>
    R (close_pair (set_rw s1 (upd (rw_reg s1) j false) (rw_rfd s1) (rw_wfd s1)) (rw_rfd s1 j) (rw_wfd s1 j))).
Proof.
  intros s j. unfold raw_unregister. destruct (fd_unregister s (RAW_KEY j)) as [s1|s1]; [|reflexivity].
  cbn [bind]. f_equal. unfold close_pair, raw_is_pipe. cbv zeta.
  set (a := upd (rw_reg s1) j false).
  destruct (do_close_rw s1 (rw_rfd s1 j)) as (E1 & E2 & E3).
  rewrite E2, E3.
  destruct (negb (rw_wfd s1 j =? rw_rfd s1 j)).
  - destruct (do_close_rw (do_close s1 (rw_rfd s1 j)) (rw_wfd s1 j)) as (G1 & G2 & G3).
    rewrite G1, G2, G3, E1, E2, E3. rewrite !do_close_set_rw. reflexivity.
  - rewrite E1, E2, E3. rewrite do_close_set_rw. reflexivity.
Qed.

(* DynInv after the descriptor of raw event j has been unregistered and the raw event dropped *)
Lemma DynInv_unreg : forall s s1 j, DynInv s -> FdStep (16 + j) s s1 -> 0 <= j <= 16 ->
  registered (fdt s1 (16 + j)) = false ->
  DynInv (set_rw s1 (upd (rw_reg s1) j false) (rw_rfd s1) (rw_wfd s1)).
Proof.
  intros s s1 j D S J RF. pose proof (fs_rest _ _ _ S) as RS. pose proof (fs_kctl _ _ _ S) as K.
  assert (FL : flt (kern s1) = flt (kern s)) by (destruct K as (_&_&_&_&->); reflexivity).
  destruct D. unfold raw_is_pipe in dy_kern. constructor; unfold raw_is_pipe; sp; rewrite ?(rs_rr _ _ RS), ?(rs_rf _ _ RS), ?(rs_rwf _ _ RS), ?(rs_er _ _ RS),
    ?(rs_ar _ _ RS), ?(rs_af _ _ RS), ?(rs_aw _ _ RS), ?(rs_tfd _ _ RS), ?FL.
  - intros j0. unfold upd. destruct (Z.eqb_spec j0 j); [discriminate|auto].
  - intros j0 J0. unfold upd. destruct (Z.eqb_spec j0 j) as [->|N]; [assumption|].
    rewrite (fs_reg _ _ _ S) by lia. auto.
  - intros j0. unfold upd. destruct (Z.eqb_spec j0 j) as [->|N]; [discriminate|]. intros J0.
    destruct (fs_hsame _ _ _ S (16 + j0)) as (A&B&C&E&_). rewrite A, B, C, E. auto.
  - intros j0. unfold upd. destruct (Z.eqb_spec j0 j) as [->|N]; [discriminate|]. intros J0.
    specialize (dy_kern j0 J0). destruct (negb (rw_wfd s j0 =? rw_rfd s j0)); [eapply pipe_ok_kctl|eapply evfd_ok_kctl]; eassumption.
  - assumption.
  - intros k0 K0. destruct (fs_hsame _ _ _ S k0) as (_&B&C&E&_). unfold hids_ok. rewrite B, C, E. apply (dy_userh k0 K0).
  - intros Q. destruct (dy_act Q) as (X & (v & V1 & V2) & W). split; [assumption|]. split.
    + exists v. rewrite (kctl_open _ _ _ K). tauto.
    + destruct W as [W|W]; [left; assumption|right; eapply pipe_ok_kctl; eassumption].
  - assumption.
  - intros Q j0. unfold upd. destruct (Z.eqb_spec j0 j) as [->|N]; [discriminate|]. auto.
  - destruct dy_tfd as [T|(T & v & V1 & V2)]; [left; assumption|right]. split; [assumption|].
    exists v. rewrite (kctl_get _ _ _ K). tauto.
  - intros e He Q. rewrite (kctl_open _ _ _ K). apply (dy_tfdent e); [|assumption].
    apply (fs_epneg _ _ _ S); [lia|assumption].
Qed.

Lemma kind_neq : forall k a b va vb, k_open k a = Some va -> k_open k b = Some vb -> vkind va <> vkind vb -> a <> b.
Proof. intros k a b va vb A B N E. subst. congruence. Qed.
Lemma peer_neq : forall k a b va vb, k_open k a = Some va -> k_open k b = Some vb -> vpeer va <> vpeer vb -> a <> b.
Proof. intros k a b va vb A B N E. subst. congruence. Qed.

Lemma raw_facts : forall s j, InvE s -> rw_reg s j = true ->
  let r := rw_rfd s j in let w := rw_wfd s j in let key := 16 + j in
  0 <= j <= 16 /\ registered (fdt s key) = true /\ fdnum (fdt s key) = r /\ 1000 <= r /\
  (forall k', k' <> key -> registered (fdt s k') = true ->
     fdnum (fdt s k') <> r /\ (raw_is_pipe s j = true -> fdnum (fdt s k') <> w)) /\
  (forall j', j' <> j -> rw_reg s j' = true ->
     rw_rfd s j' <> r /\ rw_wfd s j' <> r /\ (raw_is_pipe s j = true -> rw_rfd s j' <> w /\ rw_wfd s j' <> w)) /\
  (active_ref s = 1 -> active_fd s <> r /\ active_wr s <> r /\ (raw_is_pipe s j = true -> active_fd s <> w /\ active_wr s <> w)) /\
  (if raw_is_pipe s j then pipe_ok (kern s) r w else evfd_ok (kern s) r w).
Proof.
  intros s j I RJ r w key. pose proof (ie_fd _ I) as FI. pose proof (ie_dyn _ I) as DI.
  pose proof (dy_range _ DI j RJ) as J.
  assert (RK : registered (fdt s key) = true) by (subst key; rewrite (dy_reg _ DI j J); assumption).
  destruct (dy_obj _ DI j RJ) as (FN & _). fold key r in FN.
  pose proof (dy_kern _ DI j RJ) as KJ. fold r w in KJ.
  assert (LK : live s (-1) key) by (apply (live_reg _ _ _ FI RK)).
  assert (R1000 : 1000 <= r) by (rewrite <- FN; apply (fv_dyn _ _ FI); [subst key; lia|assumption]).
  assert (RAWK : forall k', registered (fdt s k') = true -> 16 <= k' ->
            exists j', k' = 16 + j' /\ rw_reg s j' = true /\ fdnum (fdt s k') = rw_rfd s j').
  { intros k' R' G. pose proof (fv_range _ _ FI k' R'). exists (k' - 16).
    assert (Q : k' = 16 + (k' - 16)) by lia. split; [assumption|].
    assert (RR : rw_reg s (k' - 16) = true) by (rewrite <- (dy_reg _ DI (k' - 16)) by lia; rewrite <- Q; assumption).
    split; [assumption|]. destruct (dy_obj _ DI _ RR) as (A & _). rewrite <- Q in A. assumption. }
  assert (INJ : forall j', j' <> j -> rw_reg s j' = true -> rw_rfd s j' <> r).
  { intros j' N R' Q. pose proof (dy_range _ DI j' R') as J'.
    destruct (dy_obj _ DI j' R') as (A & _).
    assert (16 + j' = key); [|subst key; lia].
    apply (fv_inj _ _ FI); [apply (live_reg _ _ _ FI); rewrite (dy_reg _ DI j' J'); assumption|assumption|congruence]. }
  (* kinds of the two ends of any registered raw event, whatever its transport *)
  assert (RKD : forall j', rw_reg s j' = true ->
            exists v', k_open (kern s) (rw_rfd s j') = Some v' /\ (vkind v' = K_PIPE_R \/ vkind v' = K_EVENTFD)).
  { intros j' R'. pose proof (dy_kern _ DI j' R') as Q. destruct (raw_is_pipe s j').
    - destruct Q as (_ & _ & v' & vw' & O' & K' & _). exists v'. auto.
    - destruct Q as (_ & _ & v' & O' & K'). exists v'. auto. }
  assert (WKD : forall j', rw_reg s j' = true -> rw_wfd s j' = rw_rfd s j' \/
            exists vw', k_open (kern s) (rw_wfd s j') = Some vw' /\ vkind vw' = K_PIPE_W /\ vpeer vw' = rw_rfd s j').
  { intros j' R'. pose proof (dy_kern _ DI j' R') as Q. destruct (raw_is_pipe s j').
    - destruct Q as (_ & _ & v' & vw' & O' & K' & P' & _ & OW' & KW' & PW'). right. exists vw'. auto.
    - destruct Q as (_ & E & _). left. exact E. }
  destruct (RKD j RJ) as (vr & ORr & KRr). fold r in ORr.
  assert (WNR : forall j', j' <> j -> rw_reg s j' = true -> rw_wfd s j' <> r).
  { intros j' N R'. destruct (WKD j' R') as [E|(vw' & OW' & KW' & PW')]; [rewrite E; apply INJ; assumption|].
    eapply kind_neq; [exact OW'|exact ORr|]. rewrite KW'. destruct KRr as [-> | ->]; discriminate. }
  assert (AF : active_ref s = 1 -> active_fd s <> r /\ active_wr s <> r).
  { intros A. destruct (dy_act _ DI A) as (X & (va & OA & KA) & WA).
    pose proof (dy_actraw _ DI A j RJ) as NA. fold r in NA. split; [congruence|].
    destruct WA as [WA|(_ & _ & va' & vwa & OA' & KA' & PA' & _ & OWA & KWA & PWA)]; [rewrite WA; lia|].
    eapply kind_neq; [exact OWA|exact ORr|]. rewrite KWA. destruct KRr as [-> | ->]; discriminate. }
  split; [assumption|]. split; [assumption|]. split; [assumption|]. split; [assumption|].
  destruct (raw_is_pipe s j) eqn:RP.
  - (* this object is a pipe *)
    destruct KJ as (_ & W1000 & v & vw & OR & KR & PR & PO & OW & KW & PW).
    assert (RNW : forall j', rw_reg s j' = true -> rw_rfd s j' <> w).
    { intros j' R'. destruct (RKD j' R') as (v' & O' & K'). eapply kind_neq; [exact O'|exact OW|].
      rewrite KW. destruct K' as [-> | ->]; discriminate. }
    split; [|split; [|split]].
    + intros k' N R'. split.
      * rewrite <- FN. intro Q. apply N. apply (fv_inj _ _ FI); [apply (live_reg _ _ _ FI R')|assumption|assumption].
      * intros _. destruct (Z_lt_ge_dec k' 16) as [Lt|Ge].
        -- pose proof (fv_range _ _ FI k' R'). rewrite (fv_user _ _ FI k') by lia. lia.
        -- destruct (RAWK k' R' ltac:(lia)) as (j' & -> & R'' & ->). apply RNW. assumption.
    + intros j' N R'. split; [apply INJ; assumption|]. split; [apply WNR; assumption|].
      intros _. split; [apply RNW; assumption|].
      destruct (WKD j' R') as [E|(vw' & OW' & KW' & PW')]; [rewrite E; apply RNW; assumption|].
      eapply peer_neq; [exact OW'|exact OW|]. rewrite PW', PW. apply INJ; assumption.
    + intros A. destruct (AF A) as [A1 A2]. split; [exact A1|]. split; [exact A2|]. intros _.
      destruct (dy_act _ DI A) as (X & (va & OA & KA) & WA). split.
      * eapply kind_neq; [exact OA|exact OW|]. rewrite KW. destruct KA as [(-> & _)|(-> & _)]; discriminate.
      * destruct WA as [WA|(_ & _ & va' & vwa & OA' & KA' & PA' & _ & OWA & KWA & PWA)]; [rewrite WA; lia|].
        eapply peer_neq; [exact OWA|exact OW|]. rewrite PWA, PW. exact A1.
    + split; [assumption|]. split; [assumption|]. exists v, vw. tauto.
  - (* this object is an eventfd *)
    destruct KJ as (_ & WR & v & OR & KR).
    split; [|split; [|split]].
    + intros k' N R'. split; [|intros; discriminate].
      rewrite <- FN. intro Q. apply N. apply (fv_inj _ _ FI); [apply (live_reg _ _ _ FI R')|assumption|assumption].
    + intros j' N R'. split; [apply INJ; assumption|]. split; [apply WNR; assumption|intros; discriminate].
    + intros A. destruct (AF A) as [A1 A2]. split; [exact A1|]. split; [exact A2|intros; discriminate].
    + split; [assumption|]. split; [assumption|]. exists v. tauto.
Qed.

Definition RawUnPost (j : Z) (s s' : core) : Prop :=
  InvE s' /\ Fr s s' /\ EvFr s s' /\ rw_reg s' = upd (rw_reg s) j false /\ numobjs s' = numobjs s - 1.

Lemma EvFr_coresame : forall s s', coresame s s' -> EvFr s s'.
Proof. intros s s' []. constructor; assumption. Qed.

Lemma raw_unregister_ok : forall s j, InvE s -> rw_reg s j = true -> okr (RawUnPost j s) (raw_unregister s j).
Proof.
  intros s j I RJ. rewrite raw_unregister_unfold. unfold RAW_KEY.
  destruct (raw_facts s j I RJ) as (J & RK & FN & R1000 & FK & FJ & FA & KJ). cbv zeta in *.
  set (key := 16 + j) in *. set (r := rw_rfd s j) in *. set (w := rw_wfd s j) in *.
  eapply okr_bind; [apply (fd_unregister_ok s key (ie_fd _ I) RK)|].
  intros s1 (I1 & S1 & R1 & W1 & NA1 & NN1 & NP1 & NH1 & EF1 & A1 & H1 & NF1 & NO1). cbn [okr].
  pose proof (fs_rest _ _ _ S1) as RS. pose proof (fs_kctl _ _ _ S1) as K1.
  assert (ER : efd_raw s1 = efd_raw s) by apply (rs_er _ _ RS).
  assert (RR : rw_reg s1 = rw_reg s) by apply (rs_rr _ _ RS).
  assert (RF : rw_rfd s1 = rw_rfd s) by apply (rs_rf _ _ RS).
  assert (RWF : rw_wfd s1 = rw_wfd s) by apply (rs_rwf _ _ RS).
  rewrite RF, RWF. fold r w.
  set (s1' := set_rw s1 (upd (rw_reg s1) j false) (rw_rfd s) (rw_wfd s)).
  assert (I1' : InvE s1').
  { constructor.
    - eapply FdInv_eq; [exact I1|intros; tauto|reflexivity..].
    - intros k0. apply sync_at_same with (s := s1); try reflexivity.
      destruct (Z.eq_dec k0 key) as [->|N]; [unfold sync_at; rewrite R1; discriminate|].
      apply (fs_sync _ _ _ S1); [assumption|apply (ie_sync _ I)].
    - subst s1'. rewrite <- RF, <- RWF. apply (DynInv_unreg s s1 j (ie_dyn _ I) S1 J R1).
    - change (heap s1') with (heap s1). rewrite (rs_heap _ _ RS). apply (ie_heap _ I).
    - apply (TaskInv_same s); [apply (rs_tasks _ _ RS)|apply (rs_cur _ _ RS)|apply (ie_task _ I)].
    - assert (AC : AcctD dA s1).
      { assert (KR : 0 <= key <= 32) by (subst key; lia).
        apply (AcctD_fd dA key s s1 (-1) (ie_acct _ I) S1 KR); [right; right; tauto|lia|lia]. }
      destruct AC. constructor; assumption.
    - apply (Misc_same s1); [reflexivity..|]. eapply Misc_step; [exact S1|apply (ie_misc _ I)]. }
  assert (F1 : Fr s s1') .
  { eapply Fr_trans with (b := s1).
    - apply (Fr_fdstep key); [assumption|rewrite A1; apply remz_length|assumption].
    - constructor; subst s1'; sp; try reflexivity; try lia; try tauto. }
  assert (E1 : EvFr s s1').
  { destruct RS. constructor; subst s1'; sp; assumption. }
  assert (HS : forall k0, fdnum (fdt s1 k0) = fdnum (fdt s k0)) by (intros k0; apply (fs_hsame _ _ _ S1 k0)).
  assert (REGK : forall k', registered (fdt s1 k') = true -> k' <> key /\ registered (fdt s k') = true).
  { intros k' Q. assert (N : k' <> key) by (intro; subst; congruence). split; [assumption|].
    rewrite <- (fs_reg _ _ _ S1) by assumption. assumption. }
  assert (REGJ : forall j', upd (rw_reg s1) j false j' = true -> j' <> j /\ rw_reg s j' = true).
  { intros j'. unfold upd. destruct (Z.eqb_spec j' j); [discriminate|]. rewrite RR. tauto. }
  (* first close *)
  assert (U1 : unref s1' r).
  { split; [|split].
    - intros k' Q. change (fdt s1') with (fdt s1) in *. destruct (REGK k' Q) as [N Q']. rewrite HS. apply (FK k' N Q').
    - intros j' Q. change (rw_reg s1') with (upd (rw_reg s1) j false) in Q. destruct (REGJ j' Q) as [N Q'].
      change (rw_rfd s1') with (rw_rfd s). change (rw_wfd s1') with (rw_wfd s). destruct (FJ j' N Q') as (A & B & _). tauto.
    - change (active_ref s1') with (active_ref s1). rewrite (rs_ar _ _ RS).
      change (active_fd s1') with (active_fd s1). change (active_wr s1') with (active_wr s1).
      rewrite (rs_af _ _ RS), (rs_aw _ _ RS). intros Q. destruct (FA Q) as (A & B & _). tauto. }
  assert (KO : forall x, k_open (kern s1') x = k_open (kern s) x) by (intros; apply (kctl_open _ _ _ K1)).
  assert (P1 : forall v, k_open (kern s1') r = Some v -> is_pipe v = true -> unrefR s1' (vpeer v)).
  { intros v O PK. rewrite KO in O. destruct (raw_is_pipe s j) eqn:Z0.
    - destruct KJ as (_ & _ & v0 & vw & OR & KR & PR & _). rewrite OR in O. injection O as <-. rewrite PR.
      split.
      + intros j' Q. change (rw_reg s1') with (upd (rw_reg s1) j false) in Q. destruct (REGJ j' Q) as [N Q'].
        change (rw_rfd s1') with (rw_rfd s). destruct (FJ j' N Q') as (_ & _ & C). apply C. reflexivity.
      + change (active_ref s1') with (active_ref s1). rewrite (rs_ar _ _ RS).
        change (active_fd s1') with (active_fd s1). rewrite (rs_af _ _ RS). intros Q.
        destruct (FA Q) as (_ & _ & C). apply C. reflexivity.
    - destruct KJ as (_ & _ & v0 & OR & KR). rewrite OR in O. injection O as <-.
      unfold is_pipe in PK. rewrite KR in PK. discriminate. }
  destruct (do_close_ok s1' r I1' U1 P1) as (I2 & F2 & C2 & G2 & O2 & B2). cbv zeta in *.
  unfold close_pair. cbv zeta. set (s2 := do_close s1' r) in *.
  assert (POST : forall s3, InvE s3 -> Fr s2 s3 -> coresame (set_kern s2 (kern s3)) s3 -> RawUnPost j s s3).
  { intros s3 I3 F3 C3. unfold RawUnPost. split; [assumption|].
    split; [eapply Fr_trans; [exact F1|]; eapply Fr_trans; eassumption|].
    assert (E2 : EvFr s1' s2).
    { apply EvFr_trans with (b := set_kern s1' (kern s2)); [constructor; reflexivity|apply (EvFr_coresame _ _ C2)]. }
    assert (E3 : EvFr s2 s3).
    { apply EvFr_trans with (b := set_kern s2 (kern s3)); [constructor; reflexivity|apply (EvFr_coresame _ _ C3)]. }
    split; [eapply EvFr_trans; [exact E1|]; eapply EvFr_trans; eassumption|].
    split.
    - rewrite (cs_rr _ _ C3). change (rw_reg (set_kern s2 (kern s3))) with (rw_reg s2).
      rewrite (cs_rr _ _ C2). subst s1'. sp. rewrite RR. reflexivity.
    - rewrite (cs_numobjs _ _ C3). change (numobjs (set_kern s2 (kern s3))) with (numobjs s2).
      rewrite (cs_numobjs _ _ C2). subst s1'. sp. assumption. }
  change (negb (w =? r)) with (raw_is_pipe s j). destruct (raw_is_pipe s j) eqn:Z0.
  - (* second close *)
    destruct KJ as (_ & W1000 & v0 & vw & OR & KR & PR & PO & OW & KW & PW).
    assert (FD2 : fdt s2 = fdt s1) by (rewrite (cs_fdt _ _ C2); reflexivity).
    assert (U2 : unref s2 w).
    { split; [|split].
      - intros k' Q. rewrite FD2 in *. destruct (REGK k' Q) as [N Q']. rewrite HS. destruct (FK k' N Q') as [_ B]. apply B. reflexivity.
      - intros j' Q. rewrite (cs_rr _ _ C2) in Q. change (rw_reg (set_kern s1' (kern s2))) with (upd (rw_reg s1) j false) in Q.
        destruct (REGJ j' Q) as [N Q']. rewrite (cs_rf _ _ C2), (cs_rwf _ _ C2).
        change (rw_rfd (set_kern s1' (kern s2))) with (rw_rfd s). change (rw_wfd (set_kern s1' (kern s2))) with (rw_wfd s).
        destruct (FJ j' N Q') as (_ & _ & C). apply C. reflexivity.
      - rewrite (cs_ar _ _ C2), (cs_af _ _ C2), (cs_aw _ _ C2).
        change (active_ref (set_kern s1' (kern s2))) with (active_ref s1). change (active_fd (set_kern s1' (kern s2))) with (active_fd s1).
        change (active_wr (set_kern s1' (kern s2))) with (active_wr s1).
        rewrite (rs_ar _ _ RS), (rs_af _ _ RS), (rs_aw _ _ RS). intros Q. destruct (FA Q) as (_ & _ & C). apply C. reflexivity. }
    assert (P2 : forall v, k_open (kern s2) w = Some v -> is_pipe v = true -> unrefR s2 (vpeer v)).
    { intros v O _. destruct (B2 w v O) as (vv & OV & _ & PV). rewrite KO, OW in OV. injection OV as <-.
      rewrite <- PV, PW. split.
      - intros j' Q. rewrite (cs_rr _ _ C2) in Q. change (rw_reg (set_kern s1' (kern s2))) with (upd (rw_reg s1) j false) in Q.
        destruct (REGJ j' Q) as [N Q']. rewrite (cs_rf _ _ C2). change (rw_rfd (set_kern s1' (kern s2))) with (rw_rfd s).
        destruct (FJ j' N Q') as (A & _). exact A.
      - rewrite (cs_ar _ _ C2), (cs_af _ _ C2).
        change (active_ref (set_kern s1' (kern s2))) with (active_ref s1). change (active_fd (set_kern s1' (kern s2))) with (active_fd s1).
        rewrite (rs_ar _ _ RS), (rs_af _ _ RS). intros Q. destruct (FA Q) as (A & _). exact A. }
    destruct (do_close_ok s2 w I2 U2 P2) as (I3 & F3 & C3 & _). cbv zeta in *.
    apply POST; assumption.
  - apply POST; [assumption|apply Fr_refl|].
    assert (Q : set_kern s2 (kern s2) = s2) by (destruct s2; reflexivity). rewrite Q. cs_refl.
Qed.

End Offset.

Lemma InvW_InvE : forall s, InvW s -> InvE 0 s.
Proof. intros s []. constructor; try assumption. apply Acct_AcctD. assumption. Qed.
Lemma InvE_InvW : forall s, InvE 0 s -> EvInv s -> InvW s.
Proof. intros s [] E. constructor; try assumption. apply AcctD_Acct. assumption. Qed.

(* ---------- raw-event actions ---------- *)
Lemma InvW_of_raw : forall s s', InvW s -> InvE 0 s' -> EvFr s s' -> rw_reg s' 16 = rw_reg s 16 -> InvW s'.
Proof. intros s s' I E F R. apply InvE_InvW; [assumption|]. eapply EvInv_frame; [eassumption..|apply (iw_ev _ I)]. Qed.

Lemma Fr_emit : forall s e, Fr s (emit s e).
Proof. intros. constructor; sp; try reflexivity; try lia; tauto. Qed.

Lemma StepW_emit : forall s0 s e, StepW s0 s -> e <> TCrash -> e <> TFatal -> StepW s0 (emit s e).
Proof.
  intros s0 s e [I F] A B. split; [apply InvW_emit; assumption|eapply Fr_trans; [exact F|apply Fr_emit]].
Qed.

Lemma act_rw_reg : forall s j, InvW s -> 0 <= j < 16 -> rw_reg s j = false ->
  okr (StepW s) (let '(r, failed) := raw_register s j in
                 bind r (fun s => R (emit s (TRes 2 j (if failed then -1 else 0))))).
Proof.
  intros s j I J RF. pose proof (raw_register_ok 0 s j (InvW_InvE _ I) ltac:(lia) RF) as H.
  destruct (raw_register s j) as [r failed]. cbn [fst snd] in H.
  eapply okr_bind; [exact H|]. intros s' P. cbn [okr]. apply StepW_emit; try discriminate.
  destruct failed; cbn [RawRes] in P.
  - destruct P as (A & B & C & D & _). split; [|assumption]. apply (InvW_of_raw s); try assumption. rewrite D. reflexivity.
  - destruct P as (A & B & C & D & _). split; [|assumption]. apply (InvW_of_raw s); try assumption.
    rewrite D. apply upd_other. lia.
Qed.

Lemma act_rw_unreg : forall s j, InvW s -> 0 <= j < 16 -> rw_reg s j = true ->
  okr (StepW s) (raw_unregister s j).
Proof.
  intros s j I J RT. eapply okr_weaken; [apply (raw_unregister_ok 0 s j (InvW_InvE _ I) RT)|].
  intros s' (A & B & C & D & _). split; [|assumption]. apply (InvW_of_raw s); try assumption.
  rewrite D. apply upd_other. lia.
Qed.

Lemma act_rw_post : forall s j, InvW s -> StepW s (raw_post s j).
Proof.
  intros s j I. unfold raw_post.
  assert (G : forall c x, StepW s (let '(k1, _) := k_write (kern s) (rw_wfd s j) c x in set_kern s k1)).
  { intros c x. pose proof (kstable_write (kern s) (rw_wfd s j) c x) as K.
    destruct (k_write (kern s) (rw_wfd s j) c x) as [k1 o]. cbn [fst] in K.
    split; [apply InvW_kstable; assumption|apply Fr_set_kern; apply (kt_nwait _ _ K)]. }
  destruct (raw_is_pipe s j); apply G.
Qed.

