(* CorePhase2FdTop.v -- whole runs: no run of a well-formed scenario adds one of the
   codes 201 202 203 204 303 304 to the tracker's failure list or 1104 to the guard
   monitor's.  Parametrised (Section hypotheses) by the two facts of CoreInv.v the
   proof starts from: do_action_ok and the invariant of the initial state. *)
From Coq Require Import List ZArith Bool Lia.
From Ivv Require Import Core.Kernel Core.CoreTypes Core.CoreFd Core.CoreModel Core.Monitors Core.GuardMon Core.CoreSpec
  Core.CoreInvBase Core.CoreInvDefs Core.CoreInvFd Core.CoreInvPoll Core.CoreInvReg Core.CoreInvObj Core.CoreInvLoop
  Core.CoreInvWait.
From Ivv Require Import Core.CorePhase2FdBase Core.CorePhase2FdMon Core.CorePhase2FdStep.
From Ivv Require Import Core.CoreRel Core.CorePhase2FdInv Core.CorePhase2FdLoop Core.CorePhase2FdWait.
Import ListNotations.
Local Open Scope Z_scope.

Lemma LoopInv_StepT2 : forall s s', LoopInv s -> StepT s s' -> LoopInv s'.
Proof.
  intros s s' (I0 & Q & T & A) (I1 & F & TM). split; [exact I1|]. split; [eapply Q3_Fr; eassumption|].
  split; [eapply TfdM_tm; eassumption|]. eapply len0; [apply (fr_act _ _ F)|exact A].
Qed.

Lemma LoopInv_main_enter : forall s, LoopInv s -> LoopInv (set_quit (emit s TMain) false).
Proof.
  intros s (I0 & Q & T & A). split; [|split; [exact Q|split; [exact T|exact A]]].
  apply (InvW_coresame (emit s TMain)); [cs_refl| |apply InvW_emit; [assumption|discriminate..]].
  apply nobad_cons; [apply (ms_nobad _ (iw_misc _ I0))|discriminate..].
Qed.

Section Top2.
Variable sc : scenario.
Hypothesis WF : wf_scenario sc.
Hypothesis DA : forall s a, InvW s -> wf_action a -> okr (StepW s) (do_action s a).
Hypothesis C0 : LoopInv (core0 sc).

Notation Y := (Y sc).
Notation G2 := (G2 sc).

(* ---------- the initial state ---------- *)
Lemma KX_fold_user : forall l k, KX k -> KX (fold_left k_user_fd l k).
Proof. induction l as [|i l IH]; intros k K; cbn [fold_left]; [exact K|apply IH; apply KX_user_fd; exact K]. Qed.

Lemma KX_kernel0 : forall f, KX (kernel0 f).
Proof.
  intros f. split; [split; [cbn; lia|intros i v _ H; discriminate H]|intros e []].
Qed.

Lemma core0_Y : Y false (core0 sc) /\ active (core0 sc) = [] /\ expect (mst (core0 sc)) = [].
Proof.
  pose proof (core0_J sc) as J0. unfold core0 in *.
  set (k0 := fold_left k_user_fd (zseq 0 16) (kernel0 (sc_faults sc))) in *.
  assert (K0 : KX k0) by (apply KX_fold_user; apply KX_kernel0).
  assert (G : exists efd k, (if (sc_backend sc =? M_ET) || (sc_backend sc =? M_EP) then k_epoll_create k0 else (-1, k0)) = (efd, k) /\ KX k).
  { destruct ((sc_backend sc =? M_ET) || (sc_backend sc =? M_EP)).
    - unfold k_epoll_create. destruct K0 as [V E]. pose proof (KV_alloc k0 K_EPOLL V) as [V1 _].
      destruct (k_alloc k0 K_EPOLL) as [efd k] eqn:A. cbn [snd] in V1. exists efd, k. split; [reflexivity|].
      split; [exact V1|]. unfold k_alloc in A. inversion A; subst. exact E.
    - exists (-1), k0. split; [reflexivity|exact K0]. }
  destruct G as (efd & k & EQ & KK). rewrite EQ in *.
  split; [|split; reflexivity].
  constructor; [exact J0|exact KK|intros i R; reflexivity|].
  split; [intros c []|intros []].
Qed.

(* ---------- tear-down ---------- *)
Lemma teardown_obj_Y : forall s i, Y false s -> ok_idx i -> PostY sc false s (teardown_obj s i).
Proof.
  intros s i H I0. unfold teardown_obj.
  eapply PostY_bind; [apply do_action_Y; [assumption|exact I0]|]. intros s1 Y1 _ _.
  eapply PostY_bind; [apply do_action_Y; [assumption|exact I0]|]. intros s2 Y2 _ _.
  eapply PostY_bind; [apply do_action_Y; [assumption|exact I0]|]. intros s3 Y3 _ _.
  eapply PostY_bind; [apply do_action_Y; [assumption|exact I0]|]. intros s4 Y4 _ _.
  apply do_action_Y; [assumption|exact I0].
Qed.

Lemma teardown_Y : forall l s, Y false s -> Forall ok_idx l -> PostY sc false s (teardown s l).
Proof.
  induction l as [|i l IH]; intros s H OK; cbn [teardown]; [apply PostY_same; exact H|].
  inversion OK as [|? ? O1 O2]; subst.
  eapply PostY_bind; [apply teardown_obj_Y; assumption|]. intros s1 Y1 _ _. apply IH; assumption.
Qed.

Lemma G2_deinit : forall s, G2 s -> G2 (deinit sc s).
Proof.
  intros s G. unfold deinit. destruct ((sc_backend sc =? M_ET) || (sc_backend sc =? M_EP)); [|exact G].
  set (s1 := if tfd s =? -1 then s else do_close s (tfd s)).
  assert (G1 : G2 s1).
  { unfold s1. destruct (tfd s =? -1); [exact G|]. apply (TrExt_G2 sc s _ (s0_tr _ _ (do_close_st0 s (tfd s))) G). }
  apply (TrExt_G2 sc s1 _ (s0_tr _ _ (do_close_st0 s1 (epfd s1))) G1).
Qed.

(* ---------- whole runs ---------- *)
Definition final_state : core :=
  res_state
    (bind (run_acts (core0 sc) (sc_setup sc)) (fun s =>
     bind (main_loop sc (Z.to_nat (sc_limit sc) + 2) (set_quit (emit s TMain) false) true) (fun s =>
     let s := emit s (TEnd (if quit s then 1 else 0) (numobjs s)) in
     bind (teardown s (zseq 0 16)) (fun s =>
     let s := emit s (TTear (numobjs s)) in
     let s := deinit sc s in
     R (emit s (TDone (open_dyn (kern s)))))))).

Lemma run_scenario_final : run_scenario sc = rev (trace final_state).
Proof. reflexivity. Qed.

Theorem core_G2 : G2 final_state.
Proof.
  unfold final_state. destruct core0_Y as (Y0 & A0 & E0).
  pose proof (run_acts_Y sc false (sc_setup sc) (core0 sc) Y0 (wf_setup sc WF)) as P0.
  pose proof (run_acts_ok DA (sc_setup sc) (core0 sc) (proj1 C0) (wf_setup sc WF)) as Q0.
  destruct (run_acts (core0 sc) (sc_setup sc)) as [s1|s1]; cbn [bind PostY okr res_state] in *; [|exact P0].
  destruct P0 as (Y1 & M1 & _). pose proof (LoopInv_StepT2 _ _ C0 Q0) as L1.
  destruct (MF_idle _ _ M1 A0 E0) as [A1 E1].
  set (s2 := set_quit (emit s1 TMain) false).
  assert (Y2 : Y true s2).
  { destruct Y1 as [J1 K U G]. constructor; [apply J_main_enter; exact J1|exact K|exact U|].
    apply (G2_trace sc (emit s1 TMain)); [reflexivity|apply G2_sil; [exact I|exact G]]. }
  assert (E2 : expect (mst s2) = []).
  { change (mst s2) with (mst (emit s1 TMain)). rewrite mst_emit.
    destruct (tv_fields _ _ (sil_tv (mst s1) TMain I)) as (_ & _ & T). rewrite T. exact E1. }
  pose proof (main_loop_W sc WF DA (Z.to_nat (sc_limit sc) + 2) s2 true (LoopInv_main_enter s1 L1) Y2 E2) as P3.
  destruct (main_loop sc (Z.to_nat (sc_limit sc) + 2) s2 true) as [s3|s3]; cbn [bind IdleOut res_state] in *; [|exact P3].
  destruct P3 as (Y3 & A3 & E3).
  set (s4 := emit s3 (TEnd (if quit s3 then 1 else 0) (numobjs s3))).
  assert (Y4 : Y false s4).
  { destruct Y3 as [J3 K U G]. constructor; [apply J_main_leave; exact J3|exact K|exact U|].
    apply G2_emit; [exact G|apply good2_TEnd; [apply G|exact E3]|intros; discriminate]. }
  pose proof (teardown_Y (zseq 0 16) s4 Y4 zseq_ok) as P5.
  destruct (teardown s4 (zseq 0 16)) as [s5|s5]; cbn [bind PostY res_state] in *; [|exact P5].
  destruct P5 as (Y5 & _). apply G2_sil; [exact I|]. apply G2_deinit. apply G2_sil; [exact I|apply Y5].
Qed.

Theorem core_fd_codes : forall c, In c (mon_fails (run_scenario sc)) -> okc2 c = true.
Proof.
  intros c H. rewrite run_scenario_final in H. exact (proj1 core_G2 c H).
Qed.

Theorem core_no_1104 : ~ In 1104 (gmon_fails sc (run_scenario sc)).
Proof. rewrite run_scenario_final. exact (proj2 core_G2). Qed.

End Top2.
