(* CorePhase2Fd.v -- the descriptor-related monitor clauses on every run of a
   well-formed scenario: C02 (codes 201 202 203 204), C03 (303 304, with 301 302
   from CoreRel), and code 1104 of the guard monitor.

   Build order: CorePhase2FdBase, CorePhase2FdMon, CorePhase2FdStep, CorePhase2FdInv,
   CorePhase2FdLoop, CorePhase2FdWait, CorePhase2FdTop, CorePhase2Fd
   (after Core/CoreRel.v and Core/CoreInv.v). *)
From Coq Require Import List ZArith Bool Lia.
From Ivv Require Import Core.Kernel Core.CoreTypes Core.CoreFd Core.CoreModel Core.Monitors Core.GuardMon Core.CoreSpec.
From Ivv Require Import Core.CoreInvWait Core.CoreInv.
From Ivv Require Import Core.CoreRel Core.CorePhase2FdMon Core.CorePhase2FdTop.
Import ListNotations.
Local Open Scope Z_scope.

Lemma core0_LoopInv : forall sc, wf_scenario sc -> LoopInv (core0 sc).
Proof. intros sc WF. apply InvT_LoopInv. apply (core0_inv sc WF). Qed.

Theorem core_fd_okc2 : forall sc, wf_scenario sc -> forall c, In c (mon_fails (run_scenario sc)) -> okc2 c = true.
Proof. intros sc WF. exact (core_fd_codes sc WF do_action_ok (core0_LoopInv sc WF)). Qed.

Theorem core_mon_C02 : forall sc, wf_scenario sc -> mon_C02 (run_scenario sc) = true.
Proof.
  intros sc WF. unfold mon_C02, none_in. apply negb_true_iff.
  destruct (existsb (in_range 200 300) (mon_fails (run_scenario sc))) eqn:E; [|reflexivity].
  apply existsb_exists in E. destruct E as (c & H & R).
  pose proof (core_fd_okc2 sc WF c H) as K. unfold okc2, in_range in *.
  apply andb_true_iff in R. destruct R as [R1 R2]. apply Z.leb_le in R1. apply Z.ltb_lt in R2.
  apply andb_true_iff in K. destruct K as [K _]. apply negb_true_iff in K.
  apply andb_false_iff in K. destruct K as [K|K]; [apply Z.leb_gt in K|apply Z.ltb_ge in K]; lia.
Qed.

Theorem core_mon_C03 : forall sc, wf_scenario sc ->
  mon_C03 (run_scenario sc) = true /\ (forall c, In c (mon_fails (run_scenario sc)) -> ~ In c [101]).
Proof.
  intros sc WF. split.
  - unfold mon_C03, none_in. apply negb_true_iff.
    destruct (existsb (in_range 300 400) (mon_fails (run_scenario sc))) eqn:E; [|reflexivity].
    apply existsb_exists in E. destruct E as (c & H & R).
    pose proof (core_fd_okc2 sc WF c H) as K. unfold okc2, in_range in *.
    destruct (core_mon_handlers sc WF c H) as (N1 & N2 & _).
    apply andb_true_iff in R. destruct R as [R1 R2]. apply Z.leb_le in R1. apply Z.ltb_lt in R2.
    apply andb_true_iff in K. destruct K as [K1 K2]. apply negb_true_iff in K1, K2.
    apply andb_false_iff in K1, K2.
    destruct K1 as [K1|K1]; [apply Z.leb_gt in K1|apply Z.ltb_ge in K1];
      (destruct K2 as [K2|K2]; [apply Z.leb_gt in K2|apply Z.ltb_ge in K2]); lia.
  - intros c H [E|[]]. subst c. pose proof (core_mon_good sc WF 101 H) as K. vm_compute in K. discriminate K.
Qed.

Theorem core_gmon_1104 : forall sc, wf_scenario sc ->
  forall c, In c (gmon_fails sc (run_scenario sc)) -> ~ In c [1104].
Proof.
  intros sc WF c H [E|[]]. subst c.
  exact (core_no_1104 sc WF do_action_ok (core0_LoopInv sc WF) H).
Qed.

Print Assumptions core_mon_C02.
Print Assumptions core_mon_C03.
Print Assumptions core_gmon_1104.
