(* CorePhase2AcctCqWait.v -- code 711, part: the kernel waits and iv_fd_poll_and_run keep CQ
   (same structure as CorePhase2AcctOwnWait.v). *)
From Coq Require Import List ZArith Bool Lia.
From Ivv Require Import Core.Kernel Core.CoreTypes Core.CoreFd Core.CoreModel Core.CoreSpec
  Core.CoreInvBase Core.CoreInvDefs Core.CoreInvFd Core.CoreInvPoll Core.CoreInvReg Core.CoreInvObj
  Core.CoreInvTm Core.CoreInvLoop Core.CoreInvWait
  Core.CorePhase2K1Base Core.CorePhase2AcctOwn Core.CorePhase2AcctCq Core.CorePhase2AcctCqAct Core.CorePhase2AcctCqLoop.
Import ListNotations.
Local Open Scope Z_scope.

Section Wait.
Variable sc : scenario.
Hypothesis WF : wf_scenario sc.
Hypothesis do_action_ok : forall s a, InvW s -> wf_action a -> okr (StepW s) (do_action s a).
Let Hh := wf_handlers sc WF.

Lemma wait_wf : forall a, wf_wait_action a -> wf_action a.
Proof. intros a. destruct a; cbn; tauto. Qed.

Lemma wait_enter_C : forall s, InvW s -> PC s (wait_enter sc s).
Proof.
  intros s I. unfold wait_enter. cbv zeta. destruct (_ <? _); [exact Logic.I|].
  set (s1 := set_kern s _).
  apply (PC_pre s s1); [apply CQI_kern; apply KP_fields; reflexivity|].
  apply (run_acts_C do_action_ok); [apply InvW_nwait; exact I|].
  eapply Forall_impl; [exact wait_wf|apply (wf_waits sc WF)].
Qed.

Definition PCw (s : core) (w : wres) : Prop :=
  match w with WR s' _ => InvW s' /\ CQI s s' | WE s' => InvW s' /\ CQI s s' | WH _ => True end.

Lemma PCw_pre : forall s s0 w, CQI s s0 -> PCw s0 w -> PCw s w.
Proof. intros s s0 w T P. destruct w; cbn [PCw] in *; try exact Logic.I; destruct P as [A B]; (split; [exact A|eapply CQI_trans; eassumption]). Qed.

Lemma do_epoll_wait_C : forall s call maxev timeout, InvW s -> TfdM s -> PCw s (do_epoll_wait sc s call maxev timeout).
Proof.
  intros s call maxev timeout I TM.
  pose proof (do_epoll_wait_ok sc WF do_action_ok s call maxev timeout I TM) as P.
  unfold do_epoll_wait in *.
  pose proof (wait_enter_C s I) as Q.
  destruct (wait_enter sc s) as [s1|s1]; [|exact Logic.I]. unfold PC in Q. cbn [ARes] in Q. destruct Q as [I1 T1]. cbv zeta in *.
  set (s2 := emit s1 (TWait _ _ _ _ _ _)) in *.
  assert (T2 : CQI s s2) by (eapply CQI_trans; [exact T1|apply CQI_plain; reflexivity]).
  destruct (mem_z _ _); cbn [PCw WPost] in *.
  - split; [apply P|]. eapply CQI_trans; [exact T2|].
    destruct (0 <? timeout); [|apply CQI_plain; reflexivity].
    apply (CQI_trans _ (set_kern s2 (k_set_clock (kern s2) (clock (kern s2) + timeout / 2)))); [apply CQI_kern; apply KP_fields; reflexivity|apply CQI_plain; reflexivity].
  - pose proof (sleep_spec (kern s2) maxev timeout (sc_rot sc (nwait (kern s2)))) as SP.
    change (kern s2) with (kern s1) in *.
    specialize (SP (fun e H => no_oneshot s1 e (iw_fd _ I1) H)).
    destruct (k_epoll_sleep (kern s1) maxev timeout _) as [k1 evs|k1| |]; cbn [PCw WPost] in *; try exact Logic.I.
    + split; [apply P|]. destruct SP as (kX & KX & -> & _).
      eapply CQI_trans; [exact T2|].
      apply (CQI_trans _ (set_kern s2 (k_set_ep kX (ep (kern s1))))); [|apply CQI_plain; reflexivity].
      apply CQI_kern. change (kern s2) with (kern s1). apply KP_fields; cbn [vfds k_set_ep].
      destruct KX as [->|(w & ->)]; reflexivity.
    + destruct SP.
Qed.

Lemma epoll_wait_m_C : forall s abs maxev, InvW s -> TfdM s -> PCw s (epoll_wait_m sc s abs maxev).
Proof.
  intros s abs maxev I TM. unfold epoll_wait_m.
  assert (V : forall s0, InvW s0 -> TfdM s0 -> CQI s s0 ->
    PCw s (let '(s1, ms) := to_msec s0 abs in do_epoll_wait sc s1 0 maxev (if ms <? 0 then -1 else ms * 1000000))).
  { intros s0 I0 TM0 T0. unfold to_msec. destruct abs as [a|]; cbn [to_relative].
    - apply (PCw_pre s (validate_now s0)).
      + eapply CQI_trans; [exact T0|]. unfold validate_now. destruct (time_valid s0); apply CQI_plain; reflexivity.
      + apply do_epoll_wait_C; [apply InvW_validate; exact I0|].
        unfold TfdM, validate_now in *. destruct (time_valid s0); exact TM0.
    - apply (PCw_pre s s0 _ T0). apply do_epoll_wait_C; assumption. }
  destruct (pwait2 s); [|apply V; [exact I|exact TM|apply CQI_refl]].
  destruct abs as [a|]; cbn [to_relative].
  - set (s1 := validate_now s).
    assert (I1 : InvW s1) by (apply InvW_validate; exact I).
    assert (TM1 : TfdM s1) by (unfold TfdM, s1, validate_now in *; destruct (time_valid s); exact TM).
    assert (T1 : CQI s s1) by (unfold s1, validate_now; destruct (time_valid s); apply CQI_plain; reflexivity).
    destruct (_ || _).
    + apply V; [|exact TM1|eapply CQI_trans; [exact T1|apply CQI_plain; reflexivity]].
      apply (InvW_coresame s1); [constructor; reflexivity|apply (ms_nobad _ (iw_misc _ I1))|exact I1].
    + apply (PCw_pre s s1 _ T1). apply do_epoll_wait_C; assumption.
  - destruct (_ || _).
    + apply V; [|exact TM|apply CQI_plain; reflexivity].
      apply (InvW_coresame s); [constructor; reflexivity|apply (ms_nobad _ (iw_misc _ I))|exact I].
    + apply do_epoll_wait_C; assumption.
Qed.



(* ---------- iv_fd_epoll_poll ---------- *)
Lemma epoll_process_CF : forall evs s re tm, CF s (fst (fst (epoll_process s evs re tm))).
Proof.
  induction evs as [|[[fd bits] data] evs IH]; intros s re tm; cbn [epoll_process]; [apply CF_refl|].
  destruct (data =? -1); [apply IH|]. destruct (_ && _); [apply IH|].
  eapply CF_trans; [apply activate_CF|apply IH].
Qed.

Lemma CF_TfdM : forall s s', CF s s' -> TfdM s -> TfdM s'.
Proof. intros s s' [_ E] T. unfold owners in E. unfold TfdM in *. replace (tfd s') with (tfd s) by congruence. replace (method s') with (method s) by congruence. exact T. Qed.

Lemma epoll_poll_C : forall s abs s', InvW s -> Q3 s -> TfdM s -> is_epoll s = true ->
  fst (epoll_poll sc s abs) = R s' -> CQI s s'.
Proof.
  intros s abs s' I Q TM IE. unfold epoll_poll. cbv zeta.
  destruct (flush_pending_ok (S (length (notify s))) s I IE ltac:(lia)) as (s1 & FL & I1 & _).
  pose proof (flush_pending_CF (S (length (notify s))) s) as F1. rewrite FL in *. cbn [ARes] in F1.
  pose proof (CF_TfdM _ _ F1 TM) as TM1. pose proof (CQI_CF _ _ F1) as T1.
  set (maxev := if method s =? M_ET then numfds s + 1 else if numfds s =? 0 then 1 else numfds s).
  pose proof (epoll_wait_m_ok sc WF do_action_ok s1 abs maxev I1 TM1) as W.
  pose proof (epoll_wait_m_C s1 abs maxev I1 TM1) as KW.
  destruct (epoll_wait_m sc s1 abs maxev) as [s2 evs|s2|r]; cbn [WPost PCw fst snd] in *.
  - destruct W as (I2 & _ & _ & _ & EV2 & RD2). destruct KW as [_ T2].
    set (s3 := invalidate_now s2).
    assert (I3 : InvW s3) by (apply InvW_invalidate; exact I2).
    assert (T03 : CQI s s3) by (eapply CQI_trans; [exact T1|]; eapply CQI_trans; [exact T2|apply CQI_plain; reflexivity]).
    destruct (epoll_process_ok evs s3 false false I3 EV2) as (I4 & _ & TMR).
    pose proof (epoll_process_CF evs s3 false false) as K4.
    destruct (epoll_process s3 evs false false) as [[s4 re] tmr]. cbn [fst snd] in *.
    assert (T04 : CQI s s4) by (eapply CQI_trans; [exact T03|apply CQI_CF; exact K4]).
    assert (FIN : forall s5, InvW s5 -> CQI s s5 ->
              (if re then run_pending_events sc s5 else R s5) = R s' -> CQI s s').
    { intros s5 I5 T05. destruct re; [|intros E; inversion E; subst; exact T05].
      pose proof (run_pending_events_C sc WF do_action_ok s5 I5) as P.
      destruct (run_pending_events sc s5) as [s6|s6]; unfold PC in P; cbn [ARes] in P; [|discriminate].
      intros E. inversion E; subst. eapply CQI_trans; [exact T05|apply P]. }
    destruct tmr.
    + pose proof (kstable_read (kern s4) (tfd s4) 8) as KS. pose proof (KP_read (kern s4) (tfd s4) 8) as KR.
      destruct (k_read (kern s4) (tfd s4) 8) as [k1 [x|e]] eqn:RD; cbn [fst] in KS, KR; [|cbn [bind halt]; discriminate].
      cbn [bind]. apply (FIN (set_kern s4 k1)); [apply InvW_kstable; assumption|].
      eapply CQI_trans; [exact T04|apply CQI_kern; exact KR].
    + cbn [bind]. apply (FIN s4 I4 T04).
  - destruct W as (I2 & _). destruct KW as [_ T2]. intros E. inversion E; subst.
    eapply CQI_trans; [exact T1|]. eapply CQI_trans; [exact T2|apply CQI_plain; reflexivity].
  - destruct r; [destruct W|discriminate].
Qed.

(* ---------- the poll(2) / ppoll(2) back ends ---------- *)
Lemma poll_activate_CF : forall keys revs s, CF s (poll_activate s keys revs).
Proof.
  induction keys as [|k keys IH]; intros revs s; cbn [poll_activate]; [apply CF_refl|].
  destruct revs as [|r revs]; [apply CF_refl|]. eapply CF_trans; [apply activate_CF|apply IH].
Qed.

Lemma do_poll_wait_C : forall s call timeout s', InvW s -> fst (do_poll_wait sc s call timeout) = R s' -> CQI s s'.
Proof.
  intros s call timeout s' I. unfold do_poll_wait.
  pose proof (wait_enter_C s I) as Q.
  destruct (wait_enter sc s) as [s1|s1]; [|discriminate]. unfold PC in Q. cbn [ARes] in Q. destruct Q as [_ T1]. cbv zeta.
  destruct (mem_z _ _); cbn [fst].
  - intros E. inversion E; subst. eapply CQI_trans; [exact T1|].
    destruct (0 <? timeout); [|apply CQI_plain; reflexivity].
    apply CQI_CF. constructor; [apply KP_fields; reflexivity|reflexivity].
  - unfold k_poll_sleep. cbv zeta.
    assert (G : forall k1 revs, vfds k1 = vfds (kern s1) ->
      CQI s (poll_activate (invalidate_now (emit (set_kern (emit s1 (TWait (nwait (kern s1)) call (Z.of_nat (length (pfds s1))) timeout
         (interest_of_pfds (pfds s1)) (ground (kern s1)))) k1)
         (TRet (Some (count_nonzero revs)) (reported_pfds (pfds s1) revs) (clock k1)))) (pkeys s1) revs)).
    { intros k1 revs V. eapply CQI_trans; [exact T1|]. apply CQI_CF.
      eapply CF_trans; [|apply poll_activate_CF]. constructor; [apply KP_fields; exact V|reflexivity]. }
    destruct (_ || _); cbn [fst halt].
    + intros E. inversion E; subst. apply G. reflexivity.
    + destruct (timeout <? 0); cbn [fst halt]; [discriminate|]. intros E. inversion E; subst. apply G. reflexivity.
Qed.

Lemma CQI_meth : forall s m, is_epoll (set_method s m) = is_epoll s -> CQI s (set_method s m).
Proof. intros s m E D. exact D. Qed.

Lemma poll_poll_C : forall s abs s', InvW s -> is_epoll s = false -> fst (poll_poll sc s abs) = R s' -> CQI s s'.
Proof.
  intros s abs s' I IE. unfold poll_poll.
  assert (V : forall s0, InvW s0 -> CQI s s0 ->
    fst (let '(s1, ms) := to_msec s0 abs in do_poll_wait sc s1 2 (if ms <? 0 then -1 else ms * 1000000)) = R s' -> CQI s s').
  { intros s0 I0 T0. unfold to_msec. destruct abs as [a|]; cbn [to_relative].
    - intros E. eapply CQI_trans; [exact T0|]. apply (CQI_trans _ (validate_now s0)); [apply CQI_CF; apply CF_validate|].
      apply (do_poll_wait_C _ _ _ _ (InvW_validate s0 I0) E).
    - intros E. eapply CQI_trans; [exact T0|]. apply (do_poll_wait_C _ _ _ _ I0 E). }
  destruct (Z.eqb_spec (method s) M_PP) as [MP|MP]; [|apply V; [exact I|apply CQI_refl]].
  assert (W : forall s1, InvW s1 -> method s1 = M_PP -> CQI s s1 ->
    (if no_ppoll (flt (kern s1)) then
       fst (let '(s2, ms) := to_msec (set_method (invalidate_now s1) M_PO) abs in do_poll_wait sc s2 2 (if ms <? 0 then -1 else ms * 1000000))
     else fst (do_poll_wait sc s1 3 (match snd (to_relative s abs) with Some r => r | None => -1 end))) = R s' -> CQI s s').
  { intros s1 I1 M1 T1. destruct (no_ppoll _).
    - apply V.
      + apply InvW_set_method; [apply InvW_invalidate; exact I1| |unfold M_PO; lia].
        unfold is_epoll. cbn [method set_method invalidate_now set_time]. rewrite M1. reflexivity.
      + eapply CQI_trans; [exact T1|]. apply (CQI_trans _ (invalidate_now s1)); [apply CQI_plain; reflexivity|].
        apply CQI_meth. unfold is_epoll. cbn [method set_method invalidate_now set_time]. rewrite M1. reflexivity.
    - intros E. eapply CQI_trans; [exact T1|]. apply (do_poll_wait_C _ _ _ _ I1 E). }
  destruct abs as [a|]; cbn [to_relative].
  - specialize (W (validate_now s) (InvW_validate s I) ltac:(unfold validate_now; destruct (time_valid s); exact MP)
                  ltac:(apply CQI_CF; apply CF_validate)).
    cbn [to_relative snd] in W. destruct (no_ppoll _); exact W.
  - specialize (W s I MP (CQI_refl s)). cbn [to_relative snd] in W. destruct (no_ppoll _); exact W.
Qed.

(* ---------- the kernel timer ---------- *)
Lemma tfd_settime_CF : forall s d, CF s (tfd_settime s d).
Proof.
  intros s d. unfold tfd_settime. constructor; [|reflexivity]. cbn [kern emit set_trace set_kern].
  unfold k_timerfd_settime. unfold k_open. destruct (k_get (kern s) (tfd s)) as [v|] eqn:G; [|apply KP_refl].
  destruct (vclosed v) eqn:VC; [apply KP_refl|]. eapply KP_put_keep; [exact G|rewrite VC; discriminate|cbn; tauto].
Qed.

Lemma set_poll_timeout_C : forall s a s0 fl, method s = M_ET -> set_poll_timeout s a = (R s0, fl) -> CQI s s0.
Proof.
  intros s a s0 fl ME. unfold set_poll_timeout.
  destruct (Z.eqb_spec (tfd s) (-1)) as [E|NE].
  - unfold k_timerfd_create. destruct (no_timerfd _).
    + intros H. inversion H; subst. apply (CQI_trans _ (set_kern s (kern s))); [apply CQI_kern; apply KP_refl|].
      apply CQI_meth. unfold is_epoll. cbn [method set_method set_kern]. rewrite ME. reflexivity.
    + pose proof (KP_alloc (kern s) K_TIMERFD) as KA.
      destruct (k_alloc (kern s) K_TIMERFD) as [fd k1]. cbn [fst snd] in KA. cbv zeta.
      set (s1 := set_epoll (set_kern s k1) (epfd s) fd (pwait2 s)).
      destruct (ctl_retry s1 CTL_ADD fd B_IN (-2)) as [s2 e] eqn:C. apply ctl_retry_CF in C.
      destruct e; [discriminate|]. intros H. inversion H; subst. clear H.
      assert (T1 : CQI s s1).
      { intros D. apply (CQ_step [] s); [exact D|exact KA| |intros x []].
        intros x L H. left. exact H. }
      eapply CQI_trans; [exact T1|]. eapply CQI_trans; [apply CQI_CF; exact C|apply CQI_CF; apply tfd_settime_CF].
  - intros H. inversion H; subst. apply CQI_CF. apply tfd_settime_CF.
Qed.

Lemma timeout_check_C : forall s abs s0 fl, method s = M_ET -> timeout_check s abs = (R s0, fl) -> CQI s s0.
Proof.
  intros s abs s0 fl ME. unfold timeout_check. cbv zeta.
  destruct (_ && _); [intros E; inversion E; subst; apply CQI_refl|].
  set (s1 := if last_abs_count s =? 5 then tfd_settime s 0 else s).
  assert (T1 : CQI s s1 /\ method s1 = M_ET).
  { unfold s1. destruct (last_abs_count s =? 5); [split; [apply CQI_CF; apply tfd_settime_CF|exact ME]|split; [apply CQI_refl|exact ME]]. }
  destruct T1 as [T1 M1].
  destruct (abs_cmp abs (last_abs s) =? 0).
  - set (s2 := if last_abs_count s1 <? 5 then _ else s1).
    assert (T2 : CQI s s2 /\ method s2 = M_ET).
    { unfold s2. destruct (last_abs_count s1 <? 5); [|split; assumption].
      split; [eapply CQI_trans; [exact T1|apply CQI_plain; reflexivity]|exact M1]. }
    destruct T2 as [T2 M2].
    destruct (last_abs_count s2 =? 5); [|intros E; inversion E; subst; exact T2].
    destruct abs as [a|]; [|intros E; inversion E; subst; exact T2].
    intros E. eapply CQI_trans; [exact T2|apply (set_poll_timeout_C s2 a s0 fl M2 E)].
  - destruct abs as [a|]; intros E; inversion E; subst; (eapply CQI_trans; [exact T1|apply CQI_plain; reflexivity]).
Qed.

(* ---------- iv_fd_poll_and_run ---------- *)
Lemma poll_and_run_C : forall s abs s', LoopInv s -> fst (poll_and_run sc s abs) = R s' -> CQI s s'.
Proof.
  intros s abs s' (I & Q & TM & AC). unfold poll_and_run.
  assert (DISP : forall s1, InvW s1 -> CQI s s1 -> dispatch_active sc (S (length (active s1))) s1 = R s' -> CQI s s').
  { intros s1 I1 T1 E. pose proof (dispatch_active_C sc WF do_action_ok (S (length (active s1))) s1 I1) as P.
    rewrite E in P. unfold PC in P. cbn [ARes] in P. eapply CQI_trans; [exact T1|apply P]. }
  assert (MP : forall s0 a r rt, InvW s0 -> Q3 s0 -> TfdM s0 -> CQI s s0 -> m_poll sc s0 a = (r, rt) ->
            forall s1, r = R s1 -> InvW s1 /\ CQI s s1).
  { intros s0 a r rt I0 Q0 TM0 T0 E s1 ->. unfold m_poll in E. destruct (is_epoll s0) eqn:IE0.
    - pose proof (epoll_poll_ok sc WF do_action_ok s0 a I0 Q0 TM0 IE0) as PP. rewrite E in PP. cbn [fst okr] in PP.
      split; [apply PP|]. eapply CQI_trans; [exact T0|]. apply (epoll_poll_C s0 a s1 I0 Q0 TM0 IE0). rewrite E. reflexivity.
    - pose proof (poll_poll_ok sc WF do_action_ok s0 a I0 Q0 TM0 IE0) as PP. rewrite E in PP. cbn [fst okr] in PP.
      split; [apply PP|]. eapply CQI_trans; [exact T0|]. apply (poll_poll_C s0 a s1 I0 IE0). rewrite E. reflexivity. }
  destruct (Z.eqb_spec (method s) M_ET) as [ME|NE].
  - pose proof (timeout_check_ok sc WF do_action_ok s abs I ME) as TC.
    destruct (timeout_check s abs) as [[s0|s0] fl] eqn:TCE; cbn [fst okr] in TC; [|cbn [fst bind]; discriminate].
    destruct TC as (I0 & F0 & TM0 & IE0).
    pose proof (timeout_check_C s abs s0 fl ME TCE) as T0. pose proof (TcFr_Q3 _ _ F0 Q) as Q0.
    destruct fl.
    + destruct (m_poll sc s0 None) as [r rt] eqn:MPE. cbn [fst].
      destruct r as [s1|s1]; cbn [bind]; [|discriminate].
      destruct (MP s0 None (R s1) rt I0 Q0 TM0 T0 MPE s1 eq_refl) as [I1 T1].
      destruct rt.
      * apply DISP; [apply (InvW_coresame s1); [constructor; reflexivity|apply (ms_nobad _ (iw_misc _ I1))|exact I1]|].
        eapply CQI_trans; [exact T1|apply CQI_plain; reflexivity].
      * apply DISP; assumption.
    + destruct (m_poll sc s0 abs) as [r rt] eqn:MPE. cbn [fst].
      destruct r as [s1|s1]; cbn [bind]; [|discriminate].
      destruct (MP s0 abs (R s1) rt I0 Q0 TM0 T0 MPE s1 eq_refl) as [I1 T1]. apply DISP; assumption.
  - destruct (m_poll sc s abs) as [r rt] eqn:MPE. cbn [fst].
    destruct r as [s1|s1]; cbn [bind]; [|discriminate].
    destruct (MP s abs (R s1) rt I Q TM (CQI_refl s) MPE s1 eq_refl) as [I1 T1]. apply DISP; assumption.
Qed.

End Wait.
