(* CoreTypes.v -- scenario language, trace events and state of the core-loop
   model (iv_main_posix.c, iv_fd.c, iv_fd_epoll.c, iv_fd_poll.c, iv_task.c,
   iv_timer.c, iv_event.c, iv_event_raw_posix.c).  Definitions only. *)

From Coq Require Import List ZArith Bool.
From Ivv Require Import Core.Kernel Timer.HeapModel.
Import ListNotations.
Local Open Scope Z_scope.

(* ---- actions of handler scripts (see harness/ivsim.c for the concrete syntax) ---- *)
Inductive action : Type :=
| AFdReg (i : Z) | AFdTry (i : Z) | AFdUnreg (i : Z)
| AFdSetH (i : Z) (band : Z) (h : option Z)        (* band 0 in, 1 out, 2 err *)
| AFdCookie (i c : Z) | AFdFresh (i : Z)
| AKSet (i c : Z) | AKClose (i : Z) | AKOpen (i : Z)
| ATmRegAbs (j e : Z) | ATmRegRel (j d : Z) | ATmUnreg (j : Z) | ATmFresh (j : Z)
| ATkReg (j : Z) | ATkUnreg (j : Z) | ATkFresh (j : Z)
| AEvReg (j : Z) | AEvUnreg (j : Z) | AEvPost (j : Z) | AEvFresh (j : Z)
| ARwReg (j : Z) | ARwUnreg (j : Z) | ARwPost (j : Z) | ARwFresh (j : Z)
| AQuit | AClockAdv (d : Z) | AInvalidate | AValidate.

(* handler keys: descriptor handler ids 0..15; timers 100+j; tasks 200+j; events 300+j; raws 400+j *)
Definition HK_T : Z := 100.
Definition HK_K : Z := 200.
Definition HK_E : Z := 300.
Definition HK_R : Z := 400.

Record scenario := {
  sc_backend : Z;                         (* 0 epoll-timerfd, 1 epoll, 2 ppoll, 3 poll *)
  sc_faults : faults;
  sc_limit : Z;                           (* main waits before the run is cut *)
  sc_setup : list action;
  sc_handlers : Z -> list (list action);  (* by handler key; k-th invocation runs k-th list, last repeats *)
  sc_wait : Z -> list action;             (* external actions at the k-th wait *)
  sc_rot : Z -> Z;
}.

(* ---- trace ---- *)
Inductive tev : Type :=
| TInit (method : Z)
| TCallFd (obj band hid cookie : Z)
| TCallTimer (j now : Z) | TCallTask (j : Z) | TCallEvent (j : Z) | TCallRaw (j : Z)
| TWait (n call maxev timeout : Z) (interest : list (Z * Z * bool)) (gnd : list (Z * Z))
        (* call: 0 epoll_wait 1 epoll_pwait2 2 poll 3 ppoll; for poll maxev is nfds *)
| TRet (n : option Z) (fds : list Z) (clk : Z)   (* None = EINTR; fds: descriptors reported, in report order *)
| TAct (a : action)                       (* an action whose guard passed (relative timer expiries resolved) *)
| TMain                                   (* iv_main is entered *)
| TKTfd (deadline : Z) | TKClose (fd : Z)
| TRes (kind id rc : Z)                   (* kind 0 ft, 1 er, 2 rr *)
| TEnd (quit numobjs : Z) | TTear (numobjs : Z) | TDone (openfds : Z)
| TLimit | THang | TFatal | TCrash.

(* ---- per-object state ---- *)
Record fdo := {
  fdnum : Z;
  h_in : option Z; h_out : option Z; h_err : option Z;    (* handler ids; >= 1000: internal (raw event) *)
  cookie : Z;
  registered : bool;
  wanted : Z; regb : Z; ready : Z;                         (* band sets: IN=1 OUT=2 ERR=4 *)
  pidx : Z;                                               (* poll back end: index in pfds, -1 none *)
}.

Definition GARBAGE : Z := -99.      (* contents of a field the library has not written yet *)

Definition fd_fresh (num c : Z) : fdo :=
  {| fdnum := num; h_in := None; h_out := None; h_err := None; cookie := c; registered := false;
     wanted := GARBAGE; regb := GARBAGE; ready := GARBAGE; pidx := GARBAGE |}.

Definition M_IN : Z := 1.
Definition M_OUT : Z := 2.
Definition M_ERR : Z := 4.

(* fd-object keys: user objects 0..15, the descriptor inside raw event j is 16+j (j = 16: events_kick) *)
Definition RAW_KEY (j : Z) : Z := 16 + j.
Definition KICK_RAW : Z := 16.            (* raw-event index of st->events_kick *)
Definition LOCAL_TASK : Z := 16.          (* task index of st->events_local *)
Definition H_RAW (j : Z) : Z := 1000 + j. (* internal handler id: iv_event_raw_got_event of raw j *)

Definition upd {A} (f : Z -> A) (x : Z) (v : A) : Z -> A := fun y => if y =? x then v else f y.

Record core := {
  (* iv_fd.c *)
  fdt : Z -> fdo;
  active : list Z;                 (* the local list `active` of iv_fd_poll_and_run *)
  handled : option Z;              (* st->handled_fd *)
  numfds : Z;
  last_abs : Z; last_abs_count : Z;
  method : Z;
  (* epoll *)
  notify : list Z;
  epfd : Z; tfd : Z;
  pwait2 : bool;                   (* epoll_pwait2_support *)
  efd_epoll : Z; efd_raw : Z;      (* eventfd_in_use, one copy per translation unit *)
  active_fd : Z; active_ref : Z; active_wr : Z;   (* iv_active_fd, its refcount, write end of the pipe fallback *)
  (* poll *)
  pfds : list (Z * Z);             (* (descriptor, events) *)
  pkeys : list Z;
  (* iv_main / accounting *)
  quit : bool; numobjs : Z;
  (* timers *)
  heap : tstate; time : Z; time_valid : bool;
  (* tasks *)
  tasks : list Z; cur : option (list Z); epoch : Z; tepoch : Z -> Z;
  (* events *)
  ev_pending : list Z; ev_batch : list Z; ev_count : Z; ev_reg : Z -> bool; use_raw : bool;
  (* raw events *)
  rw_reg : Z -> bool; rw_rfd : Z -> Z; rw_wfd : Z -> Z;
  (* environment *)
  kern : kernel;
  trace : list tev;                (* most recent first *)
  invoc : Z -> Z;                  (* invocation counters of the handler scripts *)
}.

(* one setter per field (records are updated by reconstruction so that extraction stays plain) *)
Definition set_fdt s v := {| fdt := v; active := active s; handled := handled s; numfds := numfds s; last_abs := last_abs s; last_abs_count := last_abs_count s; method := method s; notify := notify s; epfd := epfd s; tfd := tfd s; pwait2 := pwait2 s; efd_epoll := efd_epoll s; efd_raw := efd_raw s; active_fd := active_fd s; active_ref := active_ref s; active_wr := active_wr s; pfds := pfds s; pkeys := pkeys s; quit := quit s; numobjs := numobjs s; heap := heap s; time := time s; time_valid := time_valid s; tasks := tasks s; cur := cur s; epoch := epoch s; tepoch := tepoch s; ev_pending := ev_pending s; ev_batch := ev_batch s; ev_count := ev_count s; ev_reg := ev_reg s; use_raw := use_raw s; rw_reg := rw_reg s; rw_rfd := rw_rfd s; rw_wfd := rw_wfd s; kern := kern s; trace := trace s; invoc := invoc s |}.
Definition set_active s v := {| fdt := fdt s; active := v; handled := handled s; numfds := numfds s; last_abs := last_abs s; last_abs_count := last_abs_count s; method := method s; notify := notify s; epfd := epfd s; tfd := tfd s; pwait2 := pwait2 s; efd_epoll := efd_epoll s; efd_raw := efd_raw s; active_fd := active_fd s; active_ref := active_ref s; active_wr := active_wr s; pfds := pfds s; pkeys := pkeys s; quit := quit s; numobjs := numobjs s; heap := heap s; time := time s; time_valid := time_valid s; tasks := tasks s; cur := cur s; epoch := epoch s; tepoch := tepoch s; ev_pending := ev_pending s; ev_batch := ev_batch s; ev_count := ev_count s; ev_reg := ev_reg s; use_raw := use_raw s; rw_reg := rw_reg s; rw_rfd := rw_rfd s; rw_wfd := rw_wfd s; kern := kern s; trace := trace s; invoc := invoc s |}.
Definition set_handled s v := {| fdt := fdt s; active := active s; handled := v; numfds := numfds s; last_abs := last_abs s; last_abs_count := last_abs_count s; method := method s; notify := notify s; epfd := epfd s; tfd := tfd s; pwait2 := pwait2 s; efd_epoll := efd_epoll s; efd_raw := efd_raw s; active_fd := active_fd s; active_ref := active_ref s; active_wr := active_wr s; pfds := pfds s; pkeys := pkeys s; quit := quit s; numobjs := numobjs s; heap := heap s; time := time s; time_valid := time_valid s; tasks := tasks s; cur := cur s; epoch := epoch s; tepoch := tepoch s; ev_pending := ev_pending s; ev_batch := ev_batch s; ev_count := ev_count s; ev_reg := ev_reg s; use_raw := use_raw s; rw_reg := rw_reg s; rw_rfd := rw_rfd s; rw_wfd := rw_wfd s; kern := kern s; trace := trace s; invoc := invoc s |}.
Definition set_numfds s v := {| fdt := fdt s; active := active s; handled := handled s; numfds := v; last_abs := last_abs s; last_abs_count := last_abs_count s; method := method s; notify := notify s; epfd := epfd s; tfd := tfd s; pwait2 := pwait2 s; efd_epoll := efd_epoll s; efd_raw := efd_raw s; active_fd := active_fd s; active_ref := active_ref s; active_wr := active_wr s; pfds := pfds s; pkeys := pkeys s; quit := quit s; numobjs := numobjs s; heap := heap s; time := time s; time_valid := time_valid s; tasks := tasks s; cur := cur s; epoch := epoch s; tepoch := tepoch s; ev_pending := ev_pending s; ev_batch := ev_batch s; ev_count := ev_count s; ev_reg := ev_reg s; use_raw := use_raw s; rw_reg := rw_reg s; rw_rfd := rw_rfd s; rw_wfd := rw_wfd s; kern := kern s; trace := trace s; invoc := invoc s |}.
Definition set_last_abs s v c := {| fdt := fdt s; active := active s; handled := handled s; numfds := numfds s; last_abs := v; last_abs_count := c; method := method s; notify := notify s; epfd := epfd s; tfd := tfd s; pwait2 := pwait2 s; efd_epoll := efd_epoll s; efd_raw := efd_raw s; active_fd := active_fd s; active_ref := active_ref s; active_wr := active_wr s; pfds := pfds s; pkeys := pkeys s; quit := quit s; numobjs := numobjs s; heap := heap s; time := time s; time_valid := time_valid s; tasks := tasks s; cur := cur s; epoch := epoch s; tepoch := tepoch s; ev_pending := ev_pending s; ev_batch := ev_batch s; ev_count := ev_count s; ev_reg := ev_reg s; use_raw := use_raw s; rw_reg := rw_reg s; rw_rfd := rw_rfd s; rw_wfd := rw_wfd s; kern := kern s; trace := trace s; invoc := invoc s |}.
Definition set_method s v := {| fdt := fdt s; active := active s; handled := handled s; numfds := numfds s; last_abs := last_abs s; last_abs_count := last_abs_count s; method := v; notify := notify s; epfd := epfd s; tfd := tfd s; pwait2 := pwait2 s; efd_epoll := efd_epoll s; efd_raw := efd_raw s; active_fd := active_fd s; active_ref := active_ref s; active_wr := active_wr s; pfds := pfds s; pkeys := pkeys s; quit := quit s; numobjs := numobjs s; heap := heap s; time := time s; time_valid := time_valid s; tasks := tasks s; cur := cur s; epoch := epoch s; tepoch := tepoch s; ev_pending := ev_pending s; ev_batch := ev_batch s; ev_count := ev_count s; ev_reg := ev_reg s; use_raw := use_raw s; rw_reg := rw_reg s; rw_rfd := rw_rfd s; rw_wfd := rw_wfd s; kern := kern s; trace := trace s; invoc := invoc s |}.
Definition set_notify s v := {| fdt := fdt s; active := active s; handled := handled s; numfds := numfds s; last_abs := last_abs s; last_abs_count := last_abs_count s; method := method s; notify := v; epfd := epfd s; tfd := tfd s; pwait2 := pwait2 s; efd_epoll := efd_epoll s; efd_raw := efd_raw s; active_fd := active_fd s; active_ref := active_ref s; active_wr := active_wr s; pfds := pfds s; pkeys := pkeys s; quit := quit s; numobjs := numobjs s; heap := heap s; time := time s; time_valid := time_valid s; tasks := tasks s; cur := cur s; epoch := epoch s; tepoch := tepoch s; ev_pending := ev_pending s; ev_batch := ev_batch s; ev_count := ev_count s; ev_reg := ev_reg s; use_raw := use_raw s; rw_reg := rw_reg s; rw_rfd := rw_rfd s; rw_wfd := rw_wfd s; kern := kern s; trace := trace s; invoc := invoc s |}.
Definition set_epoll s e t p := {| fdt := fdt s; active := active s; handled := handled s; numfds := numfds s; last_abs := last_abs s; last_abs_count := last_abs_count s; method := method s; notify := notify s; epfd := e; tfd := t; pwait2 := p; efd_epoll := efd_epoll s; efd_raw := efd_raw s; active_fd := active_fd s; active_ref := active_ref s; active_wr := active_wr s; pfds := pfds s; pkeys := pkeys s; quit := quit s; numobjs := numobjs s; heap := heap s; time := time s; time_valid := time_valid s; tasks := tasks s; cur := cur s; epoch := epoch s; tepoch := tepoch s; ev_pending := ev_pending s; ev_batch := ev_batch s; ev_count := ev_count s; ev_reg := ev_reg s; use_raw := use_raw s; rw_reg := rw_reg s; rw_rfd := rw_rfd s; rw_wfd := rw_wfd s; kern := kern s; trace := trace s; invoc := invoc s |}.
Definition set_efd s a b := {| fdt := fdt s; active := active s; handled := handled s; numfds := numfds s; last_abs := last_abs s; last_abs_count := last_abs_count s; method := method s; notify := notify s; epfd := epfd s; tfd := tfd s; pwait2 := pwait2 s; efd_epoll := a; efd_raw := b; active_fd := active_fd s; active_ref := active_ref s; active_wr := active_wr s; pfds := pfds s; pkeys := pkeys s; quit := quit s; numobjs := numobjs s; heap := heap s; time := time s; time_valid := time_valid s; tasks := tasks s; cur := cur s; epoch := epoch s; tepoch := tepoch s; ev_pending := ev_pending s; ev_batch := ev_batch s; ev_count := ev_count s; ev_reg := ev_reg s; use_raw := use_raw s; rw_reg := rw_reg s; rw_rfd := rw_rfd s; rw_wfd := rw_wfd s; kern := kern s; trace := trace s; invoc := invoc s |}.
Definition set_activewr s w := {| fdt := fdt s; active := active s; handled := handled s; numfds := numfds s; last_abs := last_abs s; last_abs_count := last_abs_count s; method := method s; notify := notify s; epfd := epfd s; tfd := tfd s; pwait2 := pwait2 s; efd_epoll := efd_epoll s; efd_raw := efd_raw s; active_fd := active_fd s; active_ref := active_ref s; active_wr := w; pfds := pfds s; pkeys := pkeys s; quit := quit s; numobjs := numobjs s; heap := heap s; time := time s; time_valid := time_valid s; tasks := tasks s; cur := cur s; epoch := epoch s; tepoch := tepoch s; ev_pending := ev_pending s; ev_batch := ev_batch s; ev_count := ev_count s; ev_reg := ev_reg s; use_raw := use_raw s; rw_reg := rw_reg s; rw_rfd := rw_rfd s; rw_wfd := rw_wfd s; kern := kern s; trace := trace s; invoc := invoc s |}.
Definition set_activefd s a r := {| fdt := fdt s; active := active s; handled := handled s; numfds := numfds s; last_abs := last_abs s; last_abs_count := last_abs_count s; method := method s; notify := notify s; epfd := epfd s; tfd := tfd s; pwait2 := pwait2 s; efd_epoll := efd_epoll s; efd_raw := efd_raw s; active_fd := a; active_ref := r; active_wr := active_wr s; pfds := pfds s; pkeys := pkeys s; quit := quit s; numobjs := numobjs s; heap := heap s; time := time s; time_valid := time_valid s; tasks := tasks s; cur := cur s; epoch := epoch s; tepoch := tepoch s; ev_pending := ev_pending s; ev_batch := ev_batch s; ev_count := ev_count s; ev_reg := ev_reg s; use_raw := use_raw s; rw_reg := rw_reg s; rw_rfd := rw_rfd s; rw_wfd := rw_wfd s; kern := kern s; trace := trace s; invoc := invoc s |}.
Definition set_poll s p k := {| fdt := fdt s; active := active s; handled := handled s; numfds := numfds s; last_abs := last_abs s; last_abs_count := last_abs_count s; method := method s; notify := notify s; epfd := epfd s; tfd := tfd s; pwait2 := pwait2 s; efd_epoll := efd_epoll s; efd_raw := efd_raw s; active_fd := active_fd s; active_ref := active_ref s; active_wr := active_wr s; pfds := p; pkeys := k; quit := quit s; numobjs := numobjs s; heap := heap s; time := time s; time_valid := time_valid s; tasks := tasks s; cur := cur s; epoch := epoch s; tepoch := tepoch s; ev_pending := ev_pending s; ev_batch := ev_batch s; ev_count := ev_count s; ev_reg := ev_reg s; use_raw := use_raw s; rw_reg := rw_reg s; rw_rfd := rw_rfd s; rw_wfd := rw_wfd s; kern := kern s; trace := trace s; invoc := invoc s |}.
Definition set_quit s v := {| fdt := fdt s; active := active s; handled := handled s; numfds := numfds s; last_abs := last_abs s; last_abs_count := last_abs_count s; method := method s; notify := notify s; epfd := epfd s; tfd := tfd s; pwait2 := pwait2 s; efd_epoll := efd_epoll s; efd_raw := efd_raw s; active_fd := active_fd s; active_ref := active_ref s; active_wr := active_wr s; pfds := pfds s; pkeys := pkeys s; quit := v; numobjs := numobjs s; heap := heap s; time := time s; time_valid := time_valid s; tasks := tasks s; cur := cur s; epoch := epoch s; tepoch := tepoch s; ev_pending := ev_pending s; ev_batch := ev_batch s; ev_count := ev_count s; ev_reg := ev_reg s; use_raw := use_raw s; rw_reg := rw_reg s; rw_rfd := rw_rfd s; rw_wfd := rw_wfd s; kern := kern s; trace := trace s; invoc := invoc s |}.
Definition set_numobjs s v := {| fdt := fdt s; active := active s; handled := handled s; numfds := numfds s; last_abs := last_abs s; last_abs_count := last_abs_count s; method := method s; notify := notify s; epfd := epfd s; tfd := tfd s; pwait2 := pwait2 s; efd_epoll := efd_epoll s; efd_raw := efd_raw s; active_fd := active_fd s; active_ref := active_ref s; active_wr := active_wr s; pfds := pfds s; pkeys := pkeys s; quit := quit s; numobjs := v; heap := heap s; time := time s; time_valid := time_valid s; tasks := tasks s; cur := cur s; epoch := epoch s; tepoch := tepoch s; ev_pending := ev_pending s; ev_batch := ev_batch s; ev_count := ev_count s; ev_reg := ev_reg s; use_raw := use_raw s; rw_reg := rw_reg s; rw_rfd := rw_rfd s; rw_wfd := rw_wfd s; kern := kern s; trace := trace s; invoc := invoc s |}.
Definition set_heap s v := {| fdt := fdt s; active := active s; handled := handled s; numfds := numfds s; last_abs := last_abs s; last_abs_count := last_abs_count s; method := method s; notify := notify s; epfd := epfd s; tfd := tfd s; pwait2 := pwait2 s; efd_epoll := efd_epoll s; efd_raw := efd_raw s; active_fd := active_fd s; active_ref := active_ref s; active_wr := active_wr s; pfds := pfds s; pkeys := pkeys s; quit := quit s; numobjs := numobjs s; heap := v; time := time s; time_valid := time_valid s; tasks := tasks s; cur := cur s; epoch := epoch s; tepoch := tepoch s; ev_pending := ev_pending s; ev_batch := ev_batch s; ev_count := ev_count s; ev_reg := ev_reg s; use_raw := use_raw s; rw_reg := rw_reg s; rw_rfd := rw_rfd s; rw_wfd := rw_wfd s; kern := kern s; trace := trace s; invoc := invoc s |}.
Definition set_time s t v := {| fdt := fdt s; active := active s; handled := handled s; numfds := numfds s; last_abs := last_abs s; last_abs_count := last_abs_count s; method := method s; notify := notify s; epfd := epfd s; tfd := tfd s; pwait2 := pwait2 s; efd_epoll := efd_epoll s; efd_raw := efd_raw s; active_fd := active_fd s; active_ref := active_ref s; active_wr := active_wr s; pfds := pfds s; pkeys := pkeys s; quit := quit s; numobjs := numobjs s; heap := heap s; time := t; time_valid := v; tasks := tasks s; cur := cur s; epoch := epoch s; tepoch := tepoch s; ev_pending := ev_pending s; ev_batch := ev_batch s; ev_count := ev_count s; ev_reg := ev_reg s; use_raw := use_raw s; rw_reg := rw_reg s; rw_rfd := rw_rfd s; rw_wfd := rw_wfd s; kern := kern s; trace := trace s; invoc := invoc s |}.
Definition set_tasks s t c := {| fdt := fdt s; active := active s; handled := handled s; numfds := numfds s; last_abs := last_abs s; last_abs_count := last_abs_count s; method := method s; notify := notify s; epfd := epfd s; tfd := tfd s; pwait2 := pwait2 s; efd_epoll := efd_epoll s; efd_raw := efd_raw s; active_fd := active_fd s; active_ref := active_ref s; active_wr := active_wr s; pfds := pfds s; pkeys := pkeys s; quit := quit s; numobjs := numobjs s; heap := heap s; time := time s; time_valid := time_valid s; tasks := t; cur := c; epoch := epoch s; tepoch := tepoch s; ev_pending := ev_pending s; ev_batch := ev_batch s; ev_count := ev_count s; ev_reg := ev_reg s; use_raw := use_raw s; rw_reg := rw_reg s; rw_rfd := rw_rfd s; rw_wfd := rw_wfd s; kern := kern s; trace := trace s; invoc := invoc s |}.
Definition set_epoch s e t := {| fdt := fdt s; active := active s; handled := handled s; numfds := numfds s; last_abs := last_abs s; last_abs_count := last_abs_count s; method := method s; notify := notify s; epfd := epfd s; tfd := tfd s; pwait2 := pwait2 s; efd_epoll := efd_epoll s; efd_raw := efd_raw s; active_fd := active_fd s; active_ref := active_ref s; active_wr := active_wr s; pfds := pfds s; pkeys := pkeys s; quit := quit s; numobjs := numobjs s; heap := heap s; time := time s; time_valid := time_valid s; tasks := tasks s; cur := cur s; epoch := e; tepoch := t; ev_pending := ev_pending s; ev_batch := ev_batch s; ev_count := ev_count s; ev_reg := ev_reg s; use_raw := use_raw s; rw_reg := rw_reg s; rw_rfd := rw_rfd s; rw_wfd := rw_wfd s; kern := kern s; trace := trace s; invoc := invoc s |}.
Definition set_evlists s p b := {| fdt := fdt s; active := active s; handled := handled s; numfds := numfds s; last_abs := last_abs s; last_abs_count := last_abs_count s; method := method s; notify := notify s; epfd := epfd s; tfd := tfd s; pwait2 := pwait2 s; efd_epoll := efd_epoll s; efd_raw := efd_raw s; active_fd := active_fd s; active_ref := active_ref s; active_wr := active_wr s; pfds := pfds s; pkeys := pkeys s; quit := quit s; numobjs := numobjs s; heap := heap s; time := time s; time_valid := time_valid s; tasks := tasks s; cur := cur s; epoch := epoch s; tepoch := tepoch s; ev_pending := p; ev_batch := b; ev_count := ev_count s; ev_reg := ev_reg s; use_raw := use_raw s; rw_reg := rw_reg s; rw_rfd := rw_rfd s; rw_wfd := rw_wfd s; kern := kern s; trace := trace s; invoc := invoc s |}.
Definition set_ev s c r u := {| fdt := fdt s; active := active s; handled := handled s; numfds := numfds s; last_abs := last_abs s; last_abs_count := last_abs_count s; method := method s; notify := notify s; epfd := epfd s; tfd := tfd s; pwait2 := pwait2 s; efd_epoll := efd_epoll s; efd_raw := efd_raw s; active_fd := active_fd s; active_ref := active_ref s; active_wr := active_wr s; pfds := pfds s; pkeys := pkeys s; quit := quit s; numobjs := numobjs s; heap := heap s; time := time s; time_valid := time_valid s; tasks := tasks s; cur := cur s; epoch := epoch s; tepoch := tepoch s; ev_pending := ev_pending s; ev_batch := ev_batch s; ev_count := c; ev_reg := r; use_raw := u; rw_reg := rw_reg s; rw_rfd := rw_rfd s; rw_wfd := rw_wfd s; kern := kern s; trace := trace s; invoc := invoc s |}.
Definition set_rw s r a b := {| fdt := fdt s; active := active s; handled := handled s; numfds := numfds s; last_abs := last_abs s; last_abs_count := last_abs_count s; method := method s; notify := notify s; epfd := epfd s; tfd := tfd s; pwait2 := pwait2 s; efd_epoll := efd_epoll s; efd_raw := efd_raw s; active_fd := active_fd s; active_ref := active_ref s; active_wr := active_wr s; pfds := pfds s; pkeys := pkeys s; quit := quit s; numobjs := numobjs s; heap := heap s; time := time s; time_valid := time_valid s; tasks := tasks s; cur := cur s; epoch := epoch s; tepoch := tepoch s; ev_pending := ev_pending s; ev_batch := ev_batch s; ev_count := ev_count s; ev_reg := ev_reg s; use_raw := use_raw s; rw_reg := r; rw_rfd := a; rw_wfd := b; kern := kern s; trace := trace s; invoc := invoc s |}.
Definition set_kern s v := {| fdt := fdt s; active := active s; handled := handled s; numfds := numfds s; last_abs := last_abs s; last_abs_count := last_abs_count s; method := method s; notify := notify s; epfd := epfd s; tfd := tfd s; pwait2 := pwait2 s; efd_epoll := efd_epoll s; efd_raw := efd_raw s; active_fd := active_fd s; active_ref := active_ref s; active_wr := active_wr s; pfds := pfds s; pkeys := pkeys s; quit := quit s; numobjs := numobjs s; heap := heap s; time := time s; time_valid := time_valid s; tasks := tasks s; cur := cur s; epoch := epoch s; tepoch := tepoch s; ev_pending := ev_pending s; ev_batch := ev_batch s; ev_count := ev_count s; ev_reg := ev_reg s; use_raw := use_raw s; rw_reg := rw_reg s; rw_rfd := rw_rfd s; rw_wfd := rw_wfd s; kern := v; trace := trace s; invoc := invoc s |}.
Definition set_trace s v := {| fdt := fdt s; active := active s; handled := handled s; numfds := numfds s; last_abs := last_abs s; last_abs_count := last_abs_count s; method := method s; notify := notify s; epfd := epfd s; tfd := tfd s; pwait2 := pwait2 s; efd_epoll := efd_epoll s; efd_raw := efd_raw s; active_fd := active_fd s; active_ref := active_ref s; active_wr := active_wr s; pfds := pfds s; pkeys := pkeys s; quit := quit s; numobjs := numobjs s; heap := heap s; time := time s; time_valid := time_valid s; tasks := tasks s; cur := cur s; epoch := epoch s; tepoch := tepoch s; ev_pending := ev_pending s; ev_batch := ev_batch s; ev_count := ev_count s; ev_reg := ev_reg s; use_raw := use_raw s; rw_reg := rw_reg s; rw_rfd := rw_rfd s; rw_wfd := rw_wfd s; kern := kern s; trace := v; invoc := invoc s |}.
Definition set_invoc s v := {| fdt := fdt s; active := active s; handled := handled s; numfds := numfds s; last_abs := last_abs s; last_abs_count := last_abs_count s; method := method s; notify := notify s; epfd := epfd s; tfd := tfd s; pwait2 := pwait2 s; efd_epoll := efd_epoll s; efd_raw := efd_raw s; active_fd := active_fd s; active_ref := active_ref s; active_wr := active_wr s; pfds := pfds s; pkeys := pkeys s; quit := quit s; numobjs := numobjs s; heap := heap s; time := time s; time_valid := time_valid s; tasks := tasks s; cur := cur s; epoch := epoch s; tepoch := tepoch s; ev_pending := ev_pending s; ev_batch := ev_batch s; ev_count := ev_count s; ev_reg := ev_reg s; use_raw := use_raw s; rw_reg := rw_reg s; rw_rfd := rw_rfd s; rw_wfd := rw_wfd s; kern := kern s; trace := trace s; invoc := v |}.

Definition emit (s : core) (e : tev) : core := set_trace s (e :: trace s).

(* results: R = continue; Halt = the run has ended (the final event is already in the trace) *)
Inductive res : Type := R (s : core) | Halt (s : core).

Definition bind (r : res) (f : core -> res) : res :=
  match r with R s => f s | Halt s => Halt s end.

Definition halt (s : core) (e : tev) : res := Halt (emit s e).

Definition res_state (r : res) : core := match r with R s => s | Halt s => s end.

Fixpoint remove_z (x : Z) (l : list Z) : list Z :=
  match l with
  | [] => []
  | y :: l' => if y =? x then remove_z x l' else y :: remove_z x l'
  end.

Definition mem_z (x : Z) (l : list Z) : bool := existsb (Z.eqb x) l.
