(* CorePhase2AcctEvLoop.v -- the invariant XI (CorePhase2AcctEv.v) through handler
   scripts and the callback dispatchers. *)
From Coq Require Import List ZArith Bool Lia.
From Ivv Require Import Core.Kernel Core.CoreTypes Core.CoreFd Core.CoreModel Core.Monitors Core.CoreSpec
  Core.CoreRel Core.CorePhase2AcctTr Core.CorePhase2AcctMon Core.CorePhase2AcctFd Core.CorePhase2AcctAct
  Core.CorePhase2AcctLoop Core.CorePhase2AcctEv.
From Ivv Require Timer.HeapModel.
Import ListNotations.
Local Open Scope Z_scope.

(* results: XI holds again and no event batch is left *)
Definition PXb (r : res) : Prop := ARes (fun s' => XI s' /\ ev_batch s' = []) r.

Lemma PXb_of : forall s r, ev_batch s = [] -> PXI s r -> PXb r.
Proof. intros s r B P. destruct r; unfold PXI, PXb in *; cbn [ARes] in *; [|exact Logic.I]. destruct P as [P1 P2]. auto. Qed.

(* the part of XI that does not mention the internal task *)
Definition XIw (s : core) : Prop :=
  (forall j, inr16 j -> a_evp (mst s) j = true -> ev_on_list s j = true) /\ 1 <= clock (kern s) /\
  (time_valid s = true -> 1 <= time s).

Lemma XI_w : forall s, XI s -> XIw s.
Proof. intros s [A B C D]. split; [exact A|split; [exact C|exact D]]. Qed.

Lemma XIw_XI : forall s, XIw s -> (ev_pending s <> [] -> task_registered s LOCAL_TASK = true) -> XI s.
Proof. intros s (A & C & D) B. constructor; assumption. Qed.

Section Loop.
Variable sc : scenario.
Hypothesis WF : wf_scenario sc.

Lemma run_acts_XI : forall b l s, J b s -> Acc s -> XI s -> Forall wf_action l -> PXI s (run_acts s l).
Proof.
  intros b l. induction l as [|a l IH]; intros s Jh A X W; cbn [run_acts]; [apply PXI_same; exact X|].
  inversion W as [|? ? W1 W2]; subst.
  pose proof (do_action_PJA b s a Jh A W1) as P. pose proof (do_action_XI b s a Jh X W1) as Q.
  destruct (do_action s a) as [s1|s1]; unfold PXI in *; cbn [bind PJA ARes] in *; [|exact Logic.I].
  destruct P as (J1 & A1 & _ & _), Q as [X1 E1].
  pose proof (IH s1 J1 A1 X1 W2) as R. destruct (run_acts s1 l) as [s2|s2]; cbn [ARes] in *; [|exact Logic.I].
  destruct R as [X2 E2]. split; [exact X2|eapply Eb_trans; eassumption].
Qed.

Lemma run_script_XI : forall b s key, J b s -> Acc s -> XI s -> PXI s (run_script sc s key).
Proof.
  intros b s key Jh A X. unfold run_script.
  pose proof (wf_handlers sc WF key) as WH.
  destruct (sc_handlers sc key) as [|l0 ls] eqn:EH; [apply PXI_same; exact X|].
  set (lists := l0 :: ls) in *.
  set (k := if invoc s key <? Z.of_nat (length lists) then invoc s key else Z.of_nat (length lists) - 1).
  set (s1 := set_invoc s _).
  assert (J1 : J b s1) by (apply (J_irr b s s1 Jh); reflexivity).
  assert (A1 : Acc s1) by (apply (Acc_plain lp s s1 A); try reflexivity; apply TrExt_same; reflexivity).
  assert (X1 : XI s1) by (apply (XI_plain s s1 X); reflexivity).
  assert (WL : Forall wf_action (nth (Z.to_nat k) lists [])).
  { destruct (nth_in_or_default (Z.to_nat k) lists []) as [H|H].
    - rewrite Forall_forall in WH. apply WH. assumption.
    - rewrite H. constructor. }
  pose proof (run_acts_XI b _ s1 J1 A1 X1 WL) as Q.
  destruct (run_acts s1 _) as [s2|s2]; unfold PXI in *; cbn [ARes] in *; [|exact Logic.I].
  destruct Q as [Q1 Q2]. split; [exact Q1|]. intros H. apply Q2. exact H.
Qed.

(* ---------- events ---------- *)
Lemma XI_call_event : forall s ie rest, SiEv s -> XI s -> ev_batch s = ie :: rest ->
  XI (emit (set_evlists s (ev_pending s) rest) (TCallEvent ie)).
Proof.
  intros s ie rest [S1 S2] [X1 X2 X3 X4] B. set (s1 := emit _ _).
  assert (ND : ~ In ie (ev_pending s ++ rest)).
  { rewrite B in S2. apply NoDup_remove in S2. tauto. }
  constructor; try assumption.
  intros y Y H. unfold s1 in H. rewrite mst_emit in H.
  change (mst (set_evlists s (ev_pending s) rest)) with (mst s) in H.
  destruct (mview_fields _ _ (mview_TCallEvent (mst s) ie)) as (_ & _ & _ & _ & _ & _ & _ & Q8 & _).
  rewrite Q8 in H. cbn [a_evp m_evs] in H. unfold upd in H.
  destruct (Z.eqb_spec y ie) as [->|N]; [discriminate H|].
  specialize (X1 y Y H). apply ev_on_list_In in X1. apply ev_on_list_In.
  cbn [s1 ev_pending ev_batch set_evlists emit set_trace]. rewrite B in X1.
  apply in_app_or in X1. apply in_or_app. destruct X1 as [X1|[X1|X1]]; [left; exact X1|congruence|right; exact X1].
Qed.

Lemma events_loop_XI : forall fuel s, J true s -> Acc s -> XI s -> PXb (events_loop sc fuel s).
Proof.
  induction fuel as [|fuel IH]; intros s Jh A X; cbn [events_loop].
  - destruct (ev_batch s) as [|ie rest] eqn:B; unfold PXb; cbn [ARes halt]; [auto|exact Logic.I].
  - destruct (ev_batch s) as [|ie rest] eqn:B; [unfold PXb; cbn [ARes]; auto|].
    pose proof (J_call_event s ie rest Jh B) as J1.
    pose proof (XI_call_event s ie rest (J_SiEv _ _ Jh) X B) as X1.
    set (s1 := emit (set_evlists s (ev_pending s) rest) (TCallEvent ie)) in *.
    assert (A1 : Acc s1).
    { apply (Acc_plain lp s s1 A); try reflexivity.
      eapply TrExt_l with (s := set_evlists s (ev_pending s) rest); [reflexivity|apply TrExt_emit; exact Logic.I]. }
    pose proof (run_script_PJA sc WF true s1 (HK_E + ie) J1 A1) as P.
    pose proof (run_script_XI true s1 (HK_E + ie) J1 A1 X1) as Q.
    destruct (run_script sc s1 (HK_E + ie)) as [s2|s2]; unfold PXb, PXI in *; cbn [bind PJA ARes] in *; [|exact Logic.I].
    destruct P as (J2 & A2 & _), Q as [X2 E2].
    destruct rest as [|r0 rest']; [cbn [ARes]; split; [exact X2|apply E2; reflexivity]|].
    apply IH; assumption.
Qed.

Lemma run_pending_events_XI : forall s, J true s -> Acc s -> XIw s -> ev_batch s = [] -> PXb (run_pending_events sc s).
Proof.
  intros s Jh A (W1 & W2 & W3) B. unfold run_pending_events.
  destruct (ev_pending s) as [|p0 pl] eqn:PE.
  { unfold PXb. cbn [ARes]. split; [|exact B]. apply XIw_XI; [split; [exact W1|split; assumption]|]. rewrite PE. intros H. congruence. }
  set (p := p0 :: pl) in *. set (s1 := set_evlists s [] p).
  destruct (J_SiEv _ _ Jh) as [S1 S2]. pose proof (J_AgEv _ _ Jh) as GE.
  assert (SUB : forall y, In y ([] ++ p) -> In y (ev_pending s ++ ev_batch s)).
  { intros y H. cbn [app] in H. rewrite PE. apply in_or_app. left. exact H. }
  assert (J1 : J true s1).
  { apply (J_upd true s s1 Jh); try reflexivity; try (apply (j_good _ _ Jh));
      try (solve [left; repeat split; first [reflexivity | intros; apply fkeep_refl]]).
    - right. intros y Y. destruct (GE y Y) as [G1 G2]. split; [exact G1|].
      intros H. apply G2. apply ev_on_list_In. apply SUB. apply ev_on_list_In in H. exact H.
    - right. split; cbn [s1 ev_pending ev_batch set_evlists ev_reg].
      + intros y H. apply S1. apply SUB. exact H.
      + cbn [app]. rewrite PE in S2. apply NoDup_app_iff in S2. apply S2.
    - apply (FdI_keep s s1 (-1) (j_fd _ _ Jh)); reflexivity.
    - apply (FdX_keep s s1 (j_fx _ _ Jh)); try reflexivity; intros; repeat split. }
  assert (A1 : Acc s1) by (apply (Acc_plain lp s s1 A); try reflexivity; apply TrExt_same; reflexivity).
  assert (X1 : XI s1).
  { constructor; try assumption.
    - intros y Y H. change (mst s1) with (mst s) in H. specialize (W1 y Y H).
      apply ev_on_list_In in W1. apply ev_on_list_In. cbn [s1 ev_pending ev_batch set_evlists app].
      rewrite B, app_nil_r, PE in W1. exact W1.
    - cbn [s1 ev_pending set_evlists]. intros H. congruence. }
  apply events_loop_XI; assumption.
Qed.

Lemma PXb_script : forall s key, J true s -> Acc s -> XI s -> ev_batch s = [] -> PXb (run_script sc s key).
Proof. intros s key Jh A X B. eapply PXb_of; [exact B|]. eapply run_script_XI; eassumption. Qed.

(* ---------- raw events and descriptor callbacks ---------- *)
Lemma raw_got_event_XI : forall s j, J true s -> Acc s -> XI s -> ev_batch s = [] ->
  (j = KICK_RAW \/ (inr16 j /\ rw_reg s j = true)) -> PXb (raw_got_event sc s j).
Proof.
  intros s j Jh A X B JR. unfold raw_got_event.
  pose proof (ksame_read (kern s) (rw_rfd s j) (if raw_is_pipe s j then 1024 else 8)) as KS.
  destruct (k_read (kern s) (rw_rfd s j) (if raw_is_pipe s j then 1024 else 8)) as [k1 [n|e]]; cbn [fst] in KS.
  - destruct (n =? 0); [exact Logic.I|].
    pose proof (J_set_kern_plain true s k1 Jh KS) as J1.
    set (s1 := set_kern s k1) in *.
    assert (A1 : Acc s1) by (apply (Acc_plain lp s s1 A); try reflexivity; apply TrExt_same; reflexivity).
    assert (X1 : XI s1) by (apply (XI_plain s s1 X); try reflexivity; apply KS).
    destruct (Z.eqb_spec j KICK_RAW) as [EK|NK]; [apply run_pending_events_XI; [assumption|assumption|apply XI_w; exact X1|exact B]|].
    destruct JR as [JR|[JR1 JR2]]; [contradiction|].
    assert (J2 : J true (emit s1 (TCallRaw j))).
    { apply J_event_same; [exact J1|apply mview_TCallRaw|].
      apply good_TCallRaw; [apply (j_good _ _ J1)|apply (j_main _ _ J1)|].
      rewrite (J_AgRw _ _ J1 j JR1). exact JR2. }
    assert (A2 : Acc (emit s1 (TCallRaw j))).
    { apply (Acc_plain lp s1 _ A1); try reflexivity. apply TrExt_emit. exact Logic.I. }
    apply PXb_script; [exact J2|exact A2|apply XI_emit; [exact X1|exact Logic.I]|exact B].
  - destruct e; try exact Logic.I.
    unfold PXb. cbn [ARes]. split; [|exact B]. apply (XI_plain s _ X); try reflexivity. apply KS.
Qed.

Lemma call_fd_XI : forall s k band h, J true s -> Acc s -> XI s -> ev_batch s = [] -> 0 <= k <= 32 ->
  registered (fdt s k) = true ->
  ((band = 0 /\ h = h_in (fdt s k)) \/ (band = 1 /\ h = h_out (fdt s k)) \/ (band = 2 /\ h = h_err (fdt s k))) ->
  PXb (call_fd sc s k band h).
Proof.
  intros s k band h Jh A X B K RG HB. unfold call_fd.
  destruct h as [hid|]; [|unfold PXb; cbn [ARes]; auto].
  pose proof (j_fx _ _ Jh) as FX.
  destruct (Z_lt_le_dec k 16) as [KU|KR].
  - assert (I : inr16 k) by (unfold inr16; lia).
    destruct (fx_userh _ FX k I) as (U1 & U2 & U3).
    assert (HR : 0 <= hid < 16).
    { destruct HB as [[_ E]|[[_ E]|[_ E]]]; symmetry in E; [apply U1|apply U2|apply U3]; exact E. }
    destruct (Z.leb_spec 1000 hid) as [L|L]; [lia|].
    destruct (J_AgFd _ _ Jh k I) as (A1 & A2 & A3 & A4 & A5).
    assert (J2 : J true (emit s (TCallFd k band hid (cookie (getfd s k))))).
    { apply J_event_same; [exact Jh|apply mview_TCallFd|].
      apply good_TCallFd; [apply (j_good _ _ Jh)|apply (j_main _ _ Jh)|congruence| |exact A5].
      destruct HB as [[-> E]|[[-> E]|[-> E]]]; congruence. }
    assert (AC2 : Acc (emit s (TCallFd k band hid (cookie (getfd s k))))).
    { apply (Acc_plain lp s _ A); try reflexivity. apply TrExt_emit. exact Logic.I. }
    apply PXb_script; [exact J2|exact AC2|apply XI_emit; [exact X|exact Logic.I]|exact B].
  - destruct (fx_rawh _ FX k ltac:(lia)) as (U1 & U2 & U3).
    assert (HR : hid = 1000 + (k - 16)).
    { destruct HB as [[_ E]|[[_ E]|[_ E]]]; symmetry in E; [apply U1|apply U2|apply U3]; exact E. }
    destruct (Z.leb_spec 1000 hid) as [L|L]; [|lia].
    apply raw_got_event_XI; try assumption.
    replace (hid - 1000) with (k - 16) by lia.
    destruct (Z.eq_dec (k - 16) KICK_RAW) as [E|N]; [left; exact E|right].
    unfold KICK_RAW in N. split; [unfold inr16; lia|].
    apply (fx_raw _ FX (k - 16)); [lia|]. replace (16 + (k - 16)) with k by lia. exact RG.
Qed.

Lemma guarded_call_XI : forall s k band (c : bool), J true s -> Acc s -> XI s -> ev_batch s = [] -> 0 <= k <= 32 ->
  (handled s = Some k \/ handled s = None) -> (band = 0 \/ band = 1 \/ band = 2) ->
  let h := if band =? 0 then h_in (fdt s k) else if band =? 1 then h_out (fdt s k) else h_err (fdt s k) in
  PXb (match handled s with
       | Some _ => if c then call_fd sc s k band h else R s
       | None => R s
       end).
Proof.
  intros s k band c Jh A X B K H Bd h.
  destruct (handled s) as [k'|] eqn:HD; [|unfold PXb; cbn [ARes]; auto].
  destruct c; [|unfold PXb; cbn [ARes]; auto].
  destruct H as [H|H]; [|discriminate]. inversion H; subst k'.
  destruct (fi_handled s (-1) (j_fd _ _ Jh) k HD) as [_ RG]. specialize (RG ltac:(lia)).
  apply call_fd_XI; try assumption.
  unfold h. destruct Bd as [->|[->| ->]]; cbn; auto.
Qed.

Lemma dispatch_active_XI : forall fuel s, J true s -> Acc s -> XI s -> ev_batch s = [] -> PXb (dispatch_active sc fuel s).
Proof.
  induction fuel as [|fuel IH]; intros s Jh A X B; cbn [dispatch_active].
  - destruct (active s) as [|k rest]; [|exact Logic.I]. unfold PXb. cbn [ARes]. auto.
  - destruct (active s) as [|k rest] eqn:AC; [unfold PXb; cbn [ARes]; auto|].
    destruct (J_pop_active s k rest Jh AC) as [J1 K].
    set (s1 := set_handled (set_active s rest) (Some k)) in *.
    assert (A1 : Acc s1) by (apply (Acc_plain lp s s1 A); try reflexivity; apply TrExt_same; reflexivity).
    assert (X1 : XI s1) by (apply (XI_plain s s1 X); reflexivity).
    (* error band *)
    assert (PA1 : PJA true s1 (if has (ready (getfd s1 k)) M_ERR then call_fd sc s1 k 2 (h_err (getfd s1 k)) else R s1)).
    { pose proof (guarded_call_PJA sc WF s1 k 2 (has (ready (getfd s1 k)) M_ERR) J1 A1 K (or_introl eq_refl) ltac:(auto)) as Q.
      cbv zeta in Q. change (handled s1) with (Some k) in Q. cbn in Q. exact Q. }
    assert (PX1 : PXb (if has (ready (getfd s1 k)) M_ERR then call_fd sc s1 k 2 (h_err (getfd s1 k)) else R s1)).
    { pose proof (guarded_call_XI s1 k 2 (has (ready (getfd s1 k)) M_ERR) J1 A1 X1 B K (or_introl eq_refl) ltac:(auto)) as Q.
      cbv zeta in Q. change (handled s1) with (Some k) in Q. cbn in Q. exact Q. }
    destruct (if has (ready (getfd s1 k)) M_ERR then call_fd sc s1 k 2 (h_err (getfd s1 k)) else R s1) as [s2|s2];
      unfold PXb in *; cbn [bind PJA ARes] in *; [|exact Logic.I].
    destruct PA1 as (J2 & A2 & F2 & _), PX1 as [X2 B2].
    (* input band *)
    pose proof (guarded_call_PJA sc WF s2 k 0 (has (ready (getfd s2 k)) M_IN) J2 A2 K (proj1 F2) ltac:(auto)) as PB.
    pose proof (guarded_call_XI s2 k 0 (has (ready (getfd s2 k)) M_IN) J2 A2 X2 B2 K (proj1 F2) ltac:(auto)) as QB.
    cbv zeta in PB, QB. cbn [Z.eqb] in PB, QB.
    match type of PB with PJA true s2 ?X => change X with
      (match handled s2 with
       | Some _ => if has (ready (getfd s2 k)) M_IN then call_fd sc s2 k 0 (h_in (getfd s2 k)) else R s2
       | None => R s2 end) in PB, QB end.
    destruct (match handled s2 with
       | Some _ => if has (ready (getfd s2 k)) M_IN then call_fd sc s2 k 0 (h_in (getfd s2 k)) else R s2
       | None => R s2 end) as [s3|s3]; unfold PXb in *; cbn [bind PJA ARes] in *; [|exact Logic.I].
    destruct PB as (J3 & A3 & F3 & _), QB as [X3 B3].
    pose proof (Fr_trans _ _ _ F2 F3) as F13.
    (* output band *)
    pose proof (guarded_call_PJA sc WF s3 k 1 (has (ready (getfd s3 k)) M_OUT) J3 A3 K (proj1 F13) ltac:(auto)) as PC.
    pose proof (guarded_call_XI s3 k 1 (has (ready (getfd s3 k)) M_OUT) J3 A3 X3 B3 K (proj1 F13) ltac:(auto)) as QC.
    cbv zeta in PC, QC. cbn [Z.eqb Pos.eqb] in PC, QC.
    match type of PC with PJA true s3 ?X => change X with
      (match handled s3 with
       | Some _ => if has (ready (getfd s3 k)) M_OUT then call_fd sc s3 k 1 (h_out (getfd s3 k)) else R s3
       | None => R s3 end) in PC, QC end.
    destruct (match handled s3 with
       | Some _ => if has (ready (getfd s3 k)) M_OUT then call_fd sc s3 k 1 (h_out (getfd s3 k)) else R s3
       | None => R s3 end) as [s4|s4]; unfold PXb in *; cbn [bind PJA ARes] in *; [|exact Logic.I].
    destruct PC as (J4 & A4 & F4 & _), QC as [X4 B4].
    apply IH; assumption.
Qed.

(* ---------- timers ---------- *)
Lemma timers_dispatch_XI : forall fuel s, J true s -> Acc s -> XI s -> ev_batch s = [] -> PXb (timers_dispatch sc fuel s).
Proof.
  induction fuel as [|fuel IH]; intros s Jh A X B; cbn [timers_dispatch].
  - destruct (HeapModel.batch (heap s)) as [|t rest]; [|exact Logic.I]. unfold PXb. cbn [ARes]. auto.
  - destruct (HeapModel.batch (heap s)) as [|t rest] eqn:HB; [unfold PXb; cbn [ARes]; auto|].
    pose proof (J_call_timer s t rest Jh HB) as J1. cbv zeta in J1.
    set (h' := HeapModel.set_idx (HeapModel.set_batch (heap s) rest) t (-1)) in *.
    set (s1 := validate_now (set_heap s h')) in *.
    set (s1e := emit s1 (TCallTimer (Z.pos t - 1) (time s1))) in *.
    (* Acc and XI of the state in which the handler runs: via the lemma of the Acc file *)
    pose proof (timers_dispatch_PJA sc WF (S fuel) s Jh A) as PP. cbn [timers_dispatch] in PP. rewrite HB in PP. cbv zeta in PP.
    fold h' in PP. fold s1 in PP. fold s1e in PP.
    assert (X1 : XI s1e).
    { apply XI_emit; [|exact Logic.I]. apply (XI_XF (set_heap s h')); [apply (XI_plain s _ X); reflexivity|apply XF_validate]. }
    assert (B1 : ev_batch s1e = []).
    { unfold s1e, s1, validate_now. cbn [time_valid set_heap]. destruct (time_valid s); exact B. }
    assert (A1 : Acc s1e).
    { (* re-derive as in CorePhase2AcctLoop *)
      assert (TS : trace s1 = trace s) by (unfold s1; rewrite validate_trace; reflexivity).
      assert (FS : numobjs s1 = numobjs s /\ numfds s1 = numfds s /\ fdt s1 = fdt s /\ heap s1 = h' /\ tasks s1 = tasks s /\
                   cur s1 = cur s /\ ev_count s1 = ev_count s /\ use_raw s1 = use_raw s /\ rw_reg s1 = rw_reg s).
      { unfold s1, validate_now. cbn [time_valid set_heap]. destruct (time_valid s); repeat split. }
      destruct FS as (E1 & E2 & E3 & E4 & E5 & E6 & E7 & E8 & E9).
      unfold s1e. apply (Acc_step lp s _ A); cbn [numfds numobjs fdt heap tasks cur ev_count use_raw rw_reg emit set_trace].
      - eapply TrExt_l with (s := s1); [exact TS|apply TrExt_emit; exact Logic.I].
      - rewrite E2, (ac_nf _ A). unfold regf. cbn [fdt emit set_trace]. rewrite E3. reflexivity.
      - unfold hnum, kick. cbn [numfds numobjs fdt heap tasks cur ev_count use_raw rw_reg emit set_trace].
        rewrite (ntask_same s (emit s1 (TCallTimer (Z.pos t - 1) (time s1))) E5 E6).
        rewrite E1, E2, E4, E7, E8. unfold h'. rewrite HeapBase.num_set_idx. cbn [HeapModel.num HeapModel.set_batch]. lia.
      - intros y Y H. rewrite E3. rewrite E9 in H. apply (ac_raw _ A); assumption.
      - rewrite E8, E7, E9. apply (ac_kick _ A).
      - intros H. left. unfold task_registered in *. cbn [tasks cur emit set_trace] in H. rewrite E5, E6 in H. exact H. }
    pose proof (run_script_PJA sc WF true s1e (HK_T + (Z.pos t - 1)) J1 A1) as P.
    pose proof (PXb_script s1e (HK_T + (Z.pos t - 1)) J1 A1 X1 B1) as Q.
    destruct (run_script sc s1e _) as [s2|s2]; unfold PXb in *; cbn [bind PJA ARes] in *; [|exact Logic.I].
    destruct P as (J2 & A2 & _), Q as [X2 B2]. apply IH; assumption.
Qed.

Lemma run_timers_XI : forall s, J true s -> Acc s -> XI s -> ev_batch s = [] -> PXb (run_timers sc s).
Proof.
  intros s Jh A X B. unfold run_timers.
  destruct (HeapModel.num (heap s) =? 0); [unfold PXb; cbn [ARes]; auto|].
  destruct (J_validate true s Jh) as (J1 & F1 & M1 & _).
  set (s1 := validate_now s) in *.
  assert (A1 : Acc s1) by (apply (Acc_AS lp s s1 A); [apply AS_validate|apply TrExt_same; apply validate_trace]).
  assert (X1 : XI s1) by (apply (XI_XF s s1 X); apply XF_validate).
  assert (B1 : ev_batch s1 = []) by (unfold s1, validate_now; destruct (time_valid s); exact B).
  destruct (J_SiTm _ _ J1) as [HI HR]. pose proof (J_AgTm _ _ J1) as GT.
  destruct (heap_collect_spec (heap s1) (time s1) HI) as (h' & C & I' & T).
  cbv zeta. fold s1. rewrite C. unfold lift_heap. cbn [bind].
  set (s2 := set_numobjs (set_heap s1 h') _).
  assert (J2 : J true s2).
  { apply (J_upd true s1 s2 J1); try reflexivity; try (apply (j_good _ _ J1));
      try (solve [left; repeat split; first [reflexivity | intros; apply fkeep_refl]]).
    - right. intros y Y. destruct (GT y Y) as [G1 G2]. unfold timer_registered in *.
      cbn [s2 heap set_numobjs set_heap]. destruct (T (tmid y)) as [T1 T2].
      rewrite (treg_iff _ _ _ _ T1), T2. split; assumption.
    - right. split; cbn [s2 heap set_numobjs set_heap]; [exact I'|].
      intros t H. apply HR. intros E. apply H. apply (proj1 (T t)). exact E.
    - apply (FdI_keep s1 s2 (-1) (j_fd _ _ J1)); reflexivity.
    - apply (FdX_keep s1 s2 (j_fx _ _ J1)); try reflexivity; intros; repeat split. }
  assert (A2 : Acc s2).
  { unfold s2. apply (Acc_lift_heap lp s1 s1 h' A1); [apply AW_refl|apply TrExt_refl|exact HI|exact I']. }
  assert (X2 : XI s2) by (apply (XI_plain s1 s2 X1); reflexivity).
  apply timers_dispatch_XI; assumption.
Qed.

(* ---------- tasks ---------- *)
Lemma tasks_loop_XI : forall fuel s, J true s -> Acc s -> XI s -> ev_batch s = [] -> PXb (tasks_loop sc fuel s).
Proof.
  induction fuel as [|fuel IH]; intros s Jh A X B; cbn [tasks_loop].
  - destruct (cur s) as [[|k rest]|] eqn:C; unfold PXb; cbn [ARes halt]; try exact Logic.I.
    + split; [|exact B]. apply (XI_XF s _ X).
      constructor; try reflexivity; auto; try lia; try (intros H; left; split; [exact H|reflexivity]);
        try (unfold task_registered; cbn [tasks cur set_tasks]; rewrite C; auto).
    + auto.
  - destruct (cur s) as [[|k rest]|] eqn:C.
    + unfold PXb; cbn [ARes]. split; [|exact B]. apply (XI_XF s _ X).
      constructor; try reflexivity; auto; try lia; try (intros H; left; split; [exact H|reflexivity]);
        try (unfold task_registered; cbn [tasks cur set_tasks]; rewrite C; auto).
    + destruct (J_pop_task s k rest Jh C) as [JL JN]. cbv zeta in JL, JN.
      set (s3 := set_epoch _ _ _) in *.
      pose proof (tasks_loop_PJAT sc WF (S fuel) s Jh A) as PP. cbn [tasks_loop] in PP. rewrite C in PP. cbv zeta in PP. fold s3 in PP.
      destruct (J_SiTk _ _ Jh) as [S1 S2].
      assert (A3 : Acc s3).
      { apply (Acc_step lp s s3 A); try (cbn [s3 numfds numobjs fdt heap tasks cur ev_count use_raw rw_reg set_tasks set_numobjs set_epoch]; first [exact (ac_nf _ A) | exact (ac_raw _ A) | exact (ac_kick _ A)]).
        - apply TrExt_same. reflexivity.
        - unfold hnum, kick, ntask, curl. cbn [s3 numfds numobjs fdt heap tasks cur ev_count use_raw rw_reg set_tasks set_numobjs set_epoch].
          rewrite C. rewrite !app_length. cbn [length]. lia.
        - intros H. left. unfold task_registered in *. cbn [s3 tasks cur set_tasks set_numobjs set_epoch] in H. rewrite C.
          apply orb_true_iff in H. apply orb_true_iff. destruct H as [H|H]; [left; exact H|right].
          cbn [mem_z existsb]. unfold mem_z in H. rewrite H. apply orb_true_r. }
      assert (W3 : XIw s3).
      { destruct X as [X1 X2 X3 X4]. split; [exact X1|split; [exact X3|exact X4]]. }
      assert (B3 : ev_batch s3 = []) by exact B.
      assert (K : forall r, match r with R s' => J true s' /\ Acc s' | Halt _ => True end -> PXb r ->
                  PXb (bind r (tasks_loop sc fuel))).
      { intros r P Q. destruct r as [s5|s5]; unfold PXb in *; cbn [bind ARes] in *; [|exact Logic.I].
        destruct P as [J5 A5], Q as [X5 B5]. apply IH; assumption. }
      destruct (Z.eqb_spec k LOCAL_TASK) as [EK|NK].
      * apply K.
        -- pose proof (run_pending_events_PJA sc WF s3 (JL EK) A3) as P. destruct (run_pending_events sc s3); cbn [PJA] in P; [|exact Logic.I]. tauto.
        -- apply run_pending_events_XI; [exact (JL EK)|exact A3|exact W3|exact B3].
      * assert (X3 : XI s3).
        { apply XIw_XI; [exact W3|]. intros H. destruct X as [_ X2 _ _]. specialize (X2 H).
          apply task_registered_In in X2. apply task_registered_In.
          unfold curl in *. cbn [s3 tasks cur set_tasks set_numobjs set_epoch]. rewrite C in X2.
          apply in_app_or in X2. apply in_or_app. destruct X2 as [X2|[X2|X2]]; [left; exact X2|congruence|right; exact X2]. }
        assert (A4 : Acc (emit s3 (TCallTask k))).
        { apply (Acc_plain lp s3 _ A3); try reflexivity. apply TrExt_emit. exact Logic.I. }
        apply K.
        -- pose proof (run_script_PJA sc WF true _ (HK_K + k) (JN NK) A4) as P.
           destruct (run_script sc _ _); cbn [PJA] in P; [|exact Logic.I]. tauto.
        -- apply PXb_script; [exact (JN NK)|exact A4|apply XI_emit; [exact X3|exact Logic.I]|exact B3].
    + unfold PXb; cbn [ARes]. auto.
Qed.

Lemma run_tasks_XI : forall s, J true s -> Acc s -> XI s -> ev_batch s = [] -> cur s = None -> PXb (run_tasks sc s).
Proof.
  intros s Jh A X B C. unfold run_tasks.
  set (s1 := set_epoch (set_tasks s [] (Some (tasks s))) _ _).
  pose proof (run_tasks_PJAT sc WF s Jh A C) as PP.
  assert (J1 : J true s1).
  { apply (J_upd true s s1 Jh); try reflexivity; try (apply (j_good _ _ Jh));
      try (solve [left; repeat split; first [reflexivity | intros; apply fkeep_refl]]).
    - right. intros y Y. change (a_tk (mst s) y = task_registered s1 y).
      rewrite (J_AgTk _ _ Jh y Y). unfold task_registered. cbn [s1 tasks cur set_tasks set_epoch].
      rewrite C. cbn [mem_z existsb orb]. rewrite orb_false_r. reflexivity.
    - right. destruct (J_SiTk _ _ Jh) as [S1 S2]. unfold SiTk, curl in *. cbn [s1 tasks cur set_tasks set_epoch].
      rewrite C in S1, S2. rewrite app_nil_r in S1, S2. split; assumption.
    - apply (FdI_keep s s1 (-1) (j_fd _ _ Jh)); reflexivity.
    - apply (FdX_keep s s1 (j_fx _ _ Jh)); try reflexivity; intros; repeat split. }
  assert (A1 : Acc s1).
  { apply (Acc_step lp s s1 A); try (cbn [s1 numfds numobjs fdt heap tasks cur ev_count use_raw rw_reg set_tasks set_epoch]; first [exact (ac_nf _ A) | exact (ac_raw _ A) | exact (ac_kick _ A)]).
    - apply TrExt_same. reflexivity.
    - unfold hnum, kick, ntask, curl. cbn [s1 numfds numobjs fdt heap tasks cur ev_count use_raw rw_reg set_tasks set_epoch].
      rewrite C. rewrite app_nil_r. cbn [app]. lia.
    - intros H. left. unfold task_registered in *. cbn [s1 tasks cur set_tasks set_epoch] in H. rewrite C.
      cbn [mem_z existsb orb] in H. rewrite orb_false_r. exact H. }
  assert (X1 : XI s1).
  { apply (XI_XF s s1 X).
    constructor; try reflexivity; auto; try lia; try (intros H; left; split; [exact H|reflexivity]);
      try (unfold task_registered; cbn [s1 tasks cur set_tasks set_epoch]; rewrite C; cbn [mem_z existsb orb]; rewrite orb_false_r; auto). }
  apply tasks_loop_XI; assumption.
Qed.

(* ---------- the waits ---------- *)
Lemma XF_plain : forall s s', ev_pending s' = ev_pending s -> ev_batch s' = ev_batch s -> tasks s' = tasks s -> cur s' = cur s ->
  clock (kern s) <= clock (kern s') -> time s' = time s -> time_valid s' = time_valid s -> trace s' = trace s -> XF s s'.
Proof.
  intros s s' E1 E2 E3 E4 E5 E6 E7 T. constructor; try assumption.
  - unfold task_registered. rewrite E3, E4. auto.
  - intros H. left. split; congruence.
  - rewrite (mst_trace s s' T). reflexivity.
Qed.

Lemma XF_kern : forall s k', clock (kern s) <= clock k' -> XF s (set_kern s k').
Proof. intros s k' C. apply XF_plain; try reflexivity. exact C. Qed.

Lemma wait_action_XF : forall s a, wf_wait_action a -> ARes (XF s) (do_action s a).
Proof.
  intros s a W. destruct a; cbn [wf_wait_action] in W; try contradiction; cbn [do_action ARes].
  - eapply XF_trans; [apply (XF_emit s (TAct (AKSet i c))); exact Logic.I|]. apply XF_kern.
    cbn [kern emit set_trace]. rewrite (proj1 (ksame_set_cond (kern s) i c)). lia.
  - eapply XF_trans; [apply (XF_emit s (TAct (AKOpen i))); exact Logic.I|]. apply XF_kern. cbn [kern emit set_trace clock k_user_fd k_put k_set_vfds]. lia.
  - destruct (rw_reg s j); cbn [ARes]; [|apply XF_refl]. unfold raw_post.
    match goal with |- context [let '(k1, _) := ?X in _] => assert (KS : clock (fst X) = clock (kern s)); [|destruct X as [k1 x]] end.
    { destruct (raw_is_pipe _ _); apply ksame_write. }
    cbn [fst] in KS. eapply XF_trans; [apply (XF_emit s (TAct (ARwPost j))); exact Logic.I|]. apply XF_kern.
    cbn [kern emit set_trace]. lia.
  - eapply XF_trans; [apply (XF_emit s (TAct (AClockAdv d))); exact Logic.I|]. apply XF_kern.
    cbn [kern emit set_trace clock k_set_clock]. lia.
Qed.

Lemma wait_acts_XF : forall l s, Forall wf_wait_action l -> ARes (XF s) (run_acts s l).
Proof.
  induction l as [|a l IH]; intros s W; cbn [run_acts]; [apply XF_refl|].
  inversion W as [|? ? W1 W2]; subst.
  eapply ARes_bind; [apply wait_action_XF; exact W1|]. cbn beta. intros s1 A1.
  eapply ARes_imp; [apply IH; exact W2|]. cbn beta. intros s2 A2. eapply XF_trans; eassumption.
Qed.

Lemma wait_enter_XF : forall s, ARes (XF s) (wait_enter sc s).
Proof.
  intros s. unfold wait_enter. cbv zeta. destruct (_ <? _); [exact Logic.I|].
  eapply ARes_imp; [apply wait_acts_XF; apply (wf_waits sc WF)|]. cbn beta. intros s1 A1.
  eapply XF_trans; [|exact A1]. apply XF_kern. cbn [clock k_set_nwait]. lia.
Qed.

Definition XFw (s : core) (w : wres) : Prop :=
  match w with WR s' _ => XF s s' | WE s' => XF s s' | WH _ => True end.

Lemma XFw_l : forall s0 s w, XF s0 s -> XFw s w -> XFw s0 w.
Proof. intros s0 s w A P. destruct w; cbn [XFw] in *; try exact Logic.I; eapply XF_trans; eassumption. Qed.

Lemma do_epoll_wait_XF : forall s call maxev timeout, XFw s (do_epoll_wait sc s call maxev timeout).
Proof.
  intros s call maxev timeout. unfold do_epoll_wait. pose proof (wait_enter_XF s) as Q.
  destruct (wait_enter sc s) as [s1|s1]; [|exact Logic.I]. cbn [ARes] in Q. cbv zeta.
  set (s2 := emit s1 (TWait _ _ _ _ _ _)).
  assert (Q2 : XF s s2) by (eapply XF_trans; [exact Q|apply XF_emit; exact Logic.I]).
  destruct (mem_z _ _); cbn [XFw].
  - eapply XF_trans; [exact Q2|].
    match goal with |- XF s2 (emit ?X ?e) => apply (XF_trans _ X); [|apply XF_emit; exact Logic.I] end.
    destruct (Z.ltb_spec 0 timeout); [|apply XF_refl]. apply XF_kern. cbn [clock k_set_clock].
    assert (0 <= timeout / 2) by (apply Z.div_pos; lia). lia.
  - pose proof (epoll_sleep_spec (kern s2) maxev timeout (sc_rot sc (nwait (kern s1)))) as KS.
    change (kern s2) with (kern s1) in KS.
    destruct (k_epoll_sleep _ _ _ _) as [k1 evs|k1| |]; cbn [XFw]; try exact Logic.I.
    + destruct KS as (_ & KC & _). eapply XF_trans; [exact Q2|].
      eapply XF_trans; [apply (XF_kern s2 k1); exact KC|apply XF_emit; exact Logic.I].
    + destruct KS.
Qed.

Lemma to_relative_XF : forall s a, XF s (fst (to_relative s a)).
Proof. intros s [a|]; cbn [to_relative fst]; [apply XF_validate|apply XF_refl]. Qed.

Lemma to_msec_XF : forall s a, XF s (fst (to_msec s a)).
Proof.
  intros s a. unfold to_msec. pose proof (to_relative_XF s a) as H.
  destruct (to_relative s a) as [s1 [r|]]; exact H.
Qed.

Lemma epoll_wait_m_XF : forall s abs maxev, XFw s (epoll_wait_m sc s abs maxev).
Proof.
  intros s abs maxev. unfold epoll_wait_m.
  assert (V : forall s0, XF s s0 ->
    XFw s (let '(s1, ms) := to_msec s0 abs in do_epoll_wait sc s1 0 maxev (if ms <? 0 then -1 else ms * 1000000))).
  { intros s0 A0. pose proof (to_msec_XF s0 abs) as A1. destruct (to_msec s0 abs) as [s1 ms]. cbn [fst] in A1.
    eapply XFw_l; [eapply XF_trans; eassumption|]. apply do_epoll_wait_XF. }
  destruct (pwait2 s); [|apply V; apply XF_refl].
  pose proof (to_relative_XF s abs) as A1. destruct (to_relative s abs) as [s1 rel]. cbn [fst] in A1.
  destruct (_ || _).
  - apply V. eapply XF_trans; [exact A1|]. apply XF_plain; try reflexivity; try lia.
  - eapply XFw_l; [exact A1|]. apply do_epoll_wait_XF.
Qed.

Lemma make_ready_XF : forall s k b, XF s (make_ready s k b).
Proof.
  intros s k b. unfold make_ready. apply XF_plain; repeat dm; try reflexivity; try (cbn [kern putfd set_fdt set_active]; lia).
Qed.

Lemma activate_XF : forall s k bits, XF s (activate s k bits).
Proof.
  intros s k bits. unfold activate. cbv zeta.
  repeat match goal with |- context [if ?c then _ else _] => destruct c end;
    repeat (eapply XF_trans; [|apply make_ready_XF]); apply XF_refl.
Qed.

Lemma epoll_process_XF : forall evs s re tm, XF s (fst (fst (epoll_process s evs re tm))).
Proof.
  induction evs as [|[[fd bits] data] evs IH]; intros s re tm; cbn [epoll_process]; [apply XF_refl|].
  destruct (data =? -1); [apply IH|]. destruct (_ && _); [apply IH|].
  eapply XF_trans; [apply activate_XF|apply IH].
Qed.

Lemma poll_activate_XF : forall keys revs s, XF s (poll_activate s keys revs).
Proof.
  induction keys as [|k keys IH]; intros revs s; cbn [poll_activate]; [apply XF_refl|].
  destruct revs as [|r revs]; [apply XF_refl|]. eapply XF_trans; [apply activate_XF|apply IH].
Qed.

Lemma XF_invalidate : forall s, XF s (invalidate_now s).
Proof. intros s. constructor; try reflexivity; auto; try (cbn [kern invalidate_now set_time]; lia). intros H. discriminate H. Qed.

Lemma do_poll_wait_XF : forall s call timeout, ARes (XF s) (fst (do_poll_wait sc s call timeout)).
Proof.
  intros s call timeout. unfold do_poll_wait. pose proof (wait_enter_XF s) as Q.
  destruct (wait_enter sc s) as [s1|s1]; [|exact Logic.I]. cbn [ARes] in Q. cbv zeta.
  set (s2 := emit s1 (TWait _ _ _ _ _ _)).
  assert (Q2 : XF s s2) by (eapply XF_trans; [exact Q|apply XF_emit; exact Logic.I]).
  destruct (mem_z _ _); cbn [fst ARes].
  - eapply XF_trans; [exact Q2|]. eapply XF_trans; [|apply XF_invalidate].
    match goal with |- XF s2 (emit ?X ?e) => apply (XF_trans _ X); [|apply XF_emit; exact Logic.I] end.
    destruct (Z.ltb_spec 0 timeout); [|apply XF_refl]. apply XF_kern. cbn [clock k_set_clock].
    assert (0 <= timeout / 2) by (apply Z.div_pos; lia). lia.
  - pose proof (poll_sleep_spec (kern s2) (pfds s2) timeout) as KS.
    change (kern s2) with (kern s1) in KS. change (pfds s2) with (pfds s1) in KS.
    destruct (k_poll_sleep _ _ _) as [k1 revs|]; cbn [fst ARes halt]; [|exact Logic.I].
    destruct KS as (_ & KC & _). eapply XF_trans; [exact Q2|].
    eapply XF_trans; [apply (XF_kern s2 k1); exact KC|].
    match goal with |- XF _ (poll_activate (invalidate_now (emit ?X ?e)) _ _) =>
      apply (XF_trans _ (emit X e)); [apply XF_emit; exact Logic.I|] end.
    eapply XF_trans; [apply XF_invalidate|apply poll_activate_XF].
Qed.

Lemma poll_poll_XF : forall s abs, ARes (XF s) (fst (poll_poll sc s abs)).
Proof.
  intros s abs. unfold poll_poll.
  assert (V : forall s0, XF s s0 ->
    ARes (XF s) (fst (let '(s1, ms) := to_msec s0 abs in do_poll_wait sc s1 2 (if ms <? 0 then -1 else ms * 1000000)))).
  { intros s0 A0. pose proof (to_msec_XF s0 abs) as A1. destruct (to_msec s0 abs) as [s1 ms]. cbn [fst] in A1.
    eapply ARes_imp; [apply do_poll_wait_XF|]. cbn beta. intros s2 A2.
    eapply XF_trans; [exact A0|]. eapply XF_trans; eassumption. }
  destruct (method s =? M_PP); [|apply V; apply XF_refl].
  pose proof (to_relative_XF s abs) as A1. destruct (to_relative s abs) as [s1 rel]. cbn [fst] in A1.
  destruct (no_ppoll _).
  - apply V. eapply XF_trans; [exact A1|]. eapply XF_trans; [apply XF_invalidate|]. apply XF_plain; try reflexivity; try lia.
  - eapply ARes_imp; [apply do_poll_wait_XF|]. cbn beta. intros s2 A2. eapply XF_trans; eassumption.
Qed.

Lemma tfd_settime_XF : forall s d, XF s (tfd_settime s d).
Proof.
  intros s d. unfold tfd_settime. eapply XF_trans; [|apply XF_emit; exact Logic.I].
  apply XF_kern. rewrite (proj1 (ksame_settime (kern s) (tfd s) d)). lia.
Qed.

Lemma ctl_retry_XF : forall s op fd ev d s1 r, ctl_retry s op fd ev d = (s1, r) -> XF s s1.
Proof.
  intros s op fd ev d s1 r E. apply ctl_retry_spec in E. destruct E as (k' & -> & CK & _). apply XF_kern. lia.
Qed.

Lemma set_poll_timeout_XF : forall s a, ARes (XF s) (fst (set_poll_timeout s a)).
Proof.
  intros s a. unfold set_poll_timeout.
  destruct (tfd s =? -1).
  - pose proof (ksame_timerfd_create (kern s)) as KS.
    destruct (k_timerfd_create (kern s)) as [k1 [fd|e]]; cbn [fst] in KS; destruct KS as (KC & _).
    + cbv zeta. destruct (ctl_retry _ _ _ _ _) as [s1 e] eqn:C. apply ctl_retry_XF in C.
      destruct e; cbn [fst ARes halt]; [exact Logic.I|].
      eapply XF_trans; [|apply tfd_settime_XF]. eapply XF_trans; [|exact C].
      apply XF_plain; try reflexivity; try (cbn [kern set_epoll set_kern]; lia).
    + cbn [fst ARes]. apply XF_plain; try reflexivity; try (cbn [kern set_method set_kern]; lia).
  - cbn [fst ARes]. apply tfd_settime_XF.
Qed.

Lemma timeout_check_XF : forall s abs, ARes (XF s) (fst (timeout_check s abs)).
Proof.
  intros s abs. unfold timeout_check. cbv zeta.
  destruct (_ && _); [apply XF_refl|].
  set (s1 := if last_abs_count s =? 5 then tfd_settime s 0 else s).
  assert (A1 : XF s s1) by (unfold s1; destruct (last_abs_count s =? 5); [apply tfd_settime_XF|apply XF_refl]).
  destruct (abs_cmp abs (last_abs s) =? 0).
  - set (s2 := if last_abs_count s1 <? 5 then _ else s1).
    assert (A2 : XF s s2).
    { eapply XF_trans; [exact A1|]. unfold s2. destruct (last_abs_count s1 <? 5); [apply XF_plain; try reflexivity; try lia|apply XF_refl]. }
    destruct (last_abs_count s2 =? 5); [|exact A2].
    destruct abs as [a|]; [|exact A2].
    eapply ARes_imp; [apply set_poll_timeout_XF|]. cbn beta. intros s3 A3. eapply XF_trans; eassumption.
  - destruct abs as [a|]; cbn [fst ARes]; (eapply XF_trans; [exact A1|apply XF_plain; try reflexivity; try lia]).
Qed.

(* ---------- the polls ---------- *)
Lemma epoll_poll_XI : forall s abs, J true s -> Acc s -> XI s -> ev_batch s = [] -> quit s = false -> is_epoll s = true ->
  PXb (fst (epoll_poll sc s abs)).
Proof.
  intros s abs Jh A X B Q IE. unfold epoll_poll.
  pose proof (J_inner_res s _ _ Jh (flush_pending_res (S (length (notify s))) s (j_fd _ _ Jh) IE)) as P.
  pose proof (flush_pending_AS (S (length (notify s))) s) as AS1.
  pose proof (flush_pending_ext (S (length (notify s))) s) as T1. apply (RExt_weaken ca lp _ _ ca_lp) in T1.
  destruct (epoll_flush_pending (S (length (notify s))) s) as [s1|s1]; [|exact Logic.I].
  destruct P as (J1 & F1 & E1); [intros s1' (X0 & Y0 & _); split; [apply Inner_W; exact X0|exact Y0]|].
  cbn [ARes] in AS1. unfold RExt in T1. cbn [res_state] in T1.
  assert (XF1 : XF s s1) by (destruct E1 as (X0 & _); apply XF_Same; apply (in_same _ _ X0)).
  assert (Q1 : quit s1 = false).
  { destruct E1 as (X0 & _). rewrite (sm_quit _ _ (in_same _ _ X0)). exact Q. }
  set (maxev := if method s =? M_ET then numfds s + 1 else if numfds s =? 0 then 1 else numfds s).
  pose proof (epoll_wait_m_post sc WF s1 abs maxev J1 Q1) as W.
  pose proof (epoll_wait_m_AW sc WF s1 abs maxev) as AW2.
  pose proof (epoll_wait_m_XF s1 abs maxev) as XF2.
  pose proof (epoll_wait_m_ext sc s1 abs maxev) as T2. unfold WExt in T2.
  destruct (epoll_wait_m sc s1 abs maxev) as [s2 evs|s2|r]; cbn [WPost AWw XFw wres_state] in *.
  - destruct W as (J2 & F2 & OK2).
    destruct (J_invalidate true s2 J2) as (J3 & F3 & _).
    set (s3 := invalidate_now s2) in *.
    assert (OK3 : forall ev, In ev evs -> EvOk s3 ev) by (intros ev H; exact (OK2 ev H)).
    destruct (epoll_process_post evs s3 false false J3 OK3) as [J4 F4].
    pose proof (epoll_process_AW evs s3 false false) as AW4.
    pose proof (epoll_process_XF evs s3 false false) as XF4.
    pose proof (epoll_process_trace evs s3 false false) as T4.
    destruct (epoll_process s3 evs false false) as [[s4 run_events] tmr]. cbn [fst] in *.
    assert (AW04 : AW s s4).
    { eapply AW_trans; [apply AS_AW; exact AS1|]. eapply AW_trans; [exact AW2|].
      eapply AW_trans; [|exact AW4]. constructor; reflexivity. }
    assert (T04 : TrExt lp s s4).
    { eapply TrExt_trans; [exact T1|]. eapply TrExt_trans; [exact T2|]. apply TrExt_same. rewrite T4. reflexivity. }
    assert (A4 : Acc s4) by (eapply Acc_AW; eassumption).
    assert (XF04 : XF s s4).
    { eapply XF_trans; [exact XF1|]. eapply XF_trans; [exact XF2|]. eapply XF_trans; [apply XF_invalidate|exact XF4]. }
    assert (X4 : XI s4) by (eapply XI_XF; eassumption).
    assert (B4 : ev_batch s4 = []) by (rewrite (xf_evb _ _ XF04); exact B).
    assert (PR : match (if tmr then match k_read (kern s4) (tfd s4) 8 with
                                     | (k1, inl _) => R (set_kern s4 k1)
                                     | (k1, inr _) => halt (set_kern s4 k1) TFatal
                                     end else R s4) with
                 | R s5 => J true s5 /\ Acc s5 /\ XI s5 /\ ev_batch s5 = []
                 | Halt _ => True end).
    { destruct tmr; [|auto].
      pose proof (ksame_read (kern s4) (tfd s4) 8) as KS.
      destruct (k_read (kern s4) (tfd s4) 8) as [k1 [x|e]]; cbn [fst] in KS; [|exact Logic.I].
      split; [apply J_set_kern_plain; assumption|].
      split; [apply (Acc_plain lp s4 _ A4); try reflexivity; apply TrExt_same; reflexivity|].
      split; [apply (XI_plain s4 _ X4); try reflexivity; apply KS|exact B4]. }
    destruct (if tmr then _ else R s4) as [s5|s5]; cbn [bind]; [|exact Logic.I].
    destruct PR as (J5 & A5 & X5 & B5).
    destruct run_events; [apply run_pending_events_XI; [assumption|assumption|apply XI_w; exact X5|exact B5]|].
    unfold PXb. cbn [ARes]. auto.
  - cbn [fst]. unfold PXb. cbn [ARes].
    assert (XF03 : XF s (invalidate_now s2)).
    { eapply XF_trans; [exact XF1|]. eapply XF_trans; [exact XF2|apply XF_invalidate]. }
    split; [eapply XI_XF; eassumption|]. rewrite (xf_evb _ _ XF03). exact B.
  - cbn [fst]. destruct r; [destruct W|exact Logic.I].
Qed.

Lemma poll_poll_XI : forall s abs, XI s -> ev_batch s = [] -> PXb (fst (poll_poll sc s abs)).
Proof.
  intros s abs X B. pose proof (poll_poll_XF s abs) as Q.
  destruct (fst (poll_poll sc s abs)) as [s1|s1]; unfold PXb; cbn [ARes] in *; [|exact Logic.I].
  split; [eapply XI_XF; eassumption|]. rewrite (xf_evb _ _ Q). exact B.
Qed.

Lemma m_poll_XI : forall s abs, J true s -> Acc s -> XI s -> ev_batch s = [] -> quit s = false -> PXb (fst (m_poll sc s abs)).
Proof.
  intros s abs Jh A X B Q. unfold m_poll. destruct (is_epoll s) eqn:IE; [apply epoll_poll_XI; assumption|apply poll_poll_XI; assumption].
Qed.

Lemma poll_and_run_XI : forall s abs, J true s -> Acc s -> XI s -> ev_batch s = [] -> quit s = false ->
  PXb (fst (poll_and_run sc s abs)).
Proof.
  intros s abs Jh A X B Q. unfold poll_and_run.
  assert (G : match fst (if method s =? M_ET
      then match timeout_check s abs with
           | (Halt s0, _) => (Halt s0, true)
           | (R s0, true) => let '(r, rt) := m_poll sc s0 None in
                             (bind r (fun s1 => R (if rt then set_last_abs s1 (last_abs s1) 0 else s1)), rt)
           | (R s0, false) => m_poll sc s0 abs
           end
      else m_poll sc s abs) with
    | R s1 => J true s1 /\ Acc s1 /\ XI s1 /\ ev_batch s1 = []
    | Halt _ => True end).
  { assert (MP : forall s0 ab, J true s0 -> Acc s0 -> XI s0 -> ev_batch s0 = [] -> quit s0 = false ->
               match fst (m_poll sc s0 ab) with R s1 => J true s1 /\ Acc s1 /\ XI s1 /\ ev_batch s1 = [] | Halt _ => True end).
    { intros s0 ab J0 A0 X0 B0 Q0. pose proof (m_poll_PJA0 sc WF s0 ab J0 A0 Q0) as P. pose proof (m_poll_XI s0 ab J0 A0 X0 B0 Q0) as P2.
      destruct (fst (m_poll sc s0 ab)); unfold PXb in *; cbn [PJA0 ARes] in *; [|exact Logic.I]. tauto. }
    destruct (Z.eqb_spec (method s) M_ET) as [ME|NE]; [|apply MP; assumption].
    pose proof (timeout_check_post s abs Jh ME) as P.
    pose proof (timeout_check_AW s abs) as AWt.
    pose proof (timeout_check_XF s abs) as XFt.
    pose proof (timeout_check_ext s abs) as Tt. unfold RExt in Tt.
    destruct (timeout_check s abs) as [[s0|s0] fl]; cbn [fst PostQ ARes res_state] in *; [|exact Logic.I].
    destruct P as (J0 & F0 & Q0).
    assert (A0 : Acc s0) by (eapply Acc_AW; eassumption).
    assert (X0 : XI s0) by (eapply XI_XF; eassumption).
    assert (B0 : ev_batch s0 = []) by (rewrite (xf_evb _ _ XFt); exact B).
    destruct fl; [|apply MP; [assumption|assumption|assumption|assumption|congruence]].
    pose proof (MP s0 None J0 A0 X0 B0 ltac:(congruence)) as P.
    destruct (m_poll sc s0 None) as [r rt]. cbn [fst] in *.
    destruct r as [s1|s1]; cbn [bind]; [|exact Logic.I]. destruct P as (J1 & A1 & X1 & B1).
    destruct rt; [|auto].
    split; [apply J_set_last_abs; assumption|].
    split; [apply (Acc_plain lp s1 _ A1); try reflexivity; apply TrExt_same; reflexivity|].
    split; [apply (XI_plain s1 _ X1); reflexivity|exact B1]. }
  destruct (if method s =? M_ET then _ else m_poll sc s abs) as [r rt]. cbn [fst] in *.
  destruct r as [s1|s1]; cbn [bind]; [|exact Logic.I]. destruct G as (J1 & A1 & X1 & B1).
  apply dispatch_active_XI; assumption.
Qed.

(* ---------- iv_main ---------- *)
Record MLX (s : core) : Prop := { mx_ml : ML s; mx_xi : XI s; mx_evb : ev_batch s = [] }.

Lemma main_loop_MLX : forall fuel s rt, MLX s ->
  match main_loop sc fuel s rt with
  | R s' => MLX s' /\ quit s' || (numobjs s' =? 0) = true
  | Halt _ => True
  end.
Proof.
  induction fuel as [|fuel IH]; intros s rt [[Jh A C B] X EB]; cbn [main_loop]; [exact Logic.I|].
  assert (P1 : match (if rt then run_timers sc s else R s) with
               | R s1 => J true s1 /\ Acc s1 /\ cur s1 = None /\ HeapModel.batch (heap s1) = [] /\ XI s1 /\ ev_batch s1 = []
               | Halt _ => True end).
  { destruct rt; [|tauto].
    pose proof (run_timers_PJA sc WF s Jh A) as P. pose proof (run_timers_batch sc s) as PB.
    pose proof (run_timers_XI s Jh A X EB) as PX.
    destruct (run_timers sc s) as [s1|s1]; unfold PXb in *; cbn [PJAt ARes] in *; [|exact Logic.I].
    destruct P as (P1 & P2 & P3), PX as [PX1 PX2].
    split; [exact P1|split; [exact P2|split; [apply (proj2 P3); exact C|split; [apply PB; [exact B|reflexivity]|auto]]]]. }
  destruct (if rt then run_timers sc s else R s) as [s1|s1]; cbn [bind]; [|exact Logic.I].
  destruct P1 as (J1 & A1 & C1 & B1 & X1 & EB1).
  pose proof (run_tasks_PJAT sc WF s1 J1 A1 C1) as P2. pose proof (run_tasks_XI s1 J1 A1 X1 EB1 C1) as PX2.
  destruct (run_tasks sc s1) as [s2|s2]; unfold PXb in *; cbn [bind PJAT ARes] in *; [|exact Logic.I].
  destruct P2 as (J2 & A2 & C2 & B2), PX2 as [X2 EB2].
  destruct (quit s2 || (numobjs s2 =? 0)) eqn:QN.
  { split; [constructor; [constructor|..]; auto|exact QN]. }
  apply orb_false_iff in QN. destruct QN as [Q2 _].
  set (abs := match tasks s2 with _ :: _ => Some 0 | [] => soonest_timeout s2 end).
  pose proof (poll_and_run_PJA0 sc WF s2 abs J2 A2 Q2) as P3. pose proof (poll_and_run_XI s2 abs J2 A2 X2 EB2 Q2) as PX3.
  destruct (poll_and_run sc s2 abs) as [r rt']. cbn [fst] in P3, PX3.
  destruct r as [s3|s3]; unfold PXb in *; cbn [bind PJA0 ARes] in *; [|exact Logic.I].
  destruct P3 as (J3 & A3 & C3 & B3), PX3 as [X3 EB3]. apply IH. constructor; [constructor|..]; auto.
Qed.

End Loop.
