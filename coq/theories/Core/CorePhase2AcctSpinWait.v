(* CorePhase2AcctSpinWait.v -- code 711: when iv_fd_poll_and_run ends "eventful-idle" (the wait
   reported something, no callback ran), the only thing reported was the timer descriptor of the
   epoll-timerfd method, which has been read (and was armed). *)
From Coq Require Import List ZArith Bool Lia.
From Ivv Require Import Core.Kernel Core.CoreTypes Core.CoreFd Core.CoreModel Core.CoreSpec Core.Monitors.
From Ivv Require Import Core.CoreInvBase Core.CoreInvDefs Core.CoreInvFd Core.CoreInvPoll Core.CoreInvReg Core.CoreInvObj
  Core.CoreInvLoop Core.CoreInvWait.
From Ivv Require Import Core.CoreRel Core.CorePhase2FdBase Core.CorePhase2FdMon Core.CorePhase2FdStep Core.CorePhase2FdInv
  Core.CorePhase2FdLoop Core.CorePhase2FdWait.
From Ivv Require Import Core.CorePhase2K1.
From Ivv Require Core.CorePhase2AcctIdleTv Core.CorePhase2AcctOwnWait.
From Ivv Require Import Core.CorePhase2AcctTr Core.CorePhase2AcctTr2 Core.CorePhase2AcctMon Core.CorePhase2AcctNc
  Core.CorePhase2AcctNcWait Core.CorePhase2AcctOwn Core.CorePhase2AcctCq Core.CorePhase2AcctCqAct Core.CorePhase2AcctCqLoop
  Core.CorePhase2AcctCqWait Core.CorePhase2AcctK0 Core.CorePhase2AcctQuiet Core.CorePhase2AcctSpin Core.CorePhase2AcctSpinLoop
  Core.CorePhase2AcctSpinEnt.
Import ListNotations.
Local Open Scope Z_scope.

Section SpinWait.
Variable sc : scenario.
Hypothesis WF : wf_scenario sc.
Hypothesis DA : forall s a, InvW s -> wf_action a -> okr (StepW s) (do_action s a).

(* where a returned batch comes from *)
Definition WSrc (s s2 : core) (evs : list (Z * Z * Z)) : Prop :=
  exists s1 kx,
    InvW s1 /\ KX (kern s1) /\ TFs s s1 /\ CQI s s1 /\ notify s1 = notify s /\ active s1 = active s /\
    vfds kx = vfds (kern s1) /\
    (forall ev, In ev evs -> exists e, In e (ep (kern s1)) /\ ev = (en_fd e, ep_ready_bits kx e, en_data e) /\ ep_ready_bits kx e <> 0) /\
    fdt s2 = fdt s1 /\ active s2 = active s1 /\ owners s2 = owners s1 /\ rw_wfd s2 = rw_wfd s1 /\
    last_abs_count s2 = last_abs_count s1 /\ vfds (kern s2) = vfds (kern s1) /\
    had_ev (mst s2) = (0 <? Z.of_nat (length evs)) /\ ncall (mst s2) = 0.

Lemma do_epoll_wait_src : forall s call maxev timeout s2 evs, WP sc s ->
  do_epoll_wait sc s call maxev timeout = WR s2 evs -> WSrc s s2 evs.
Proof.
  intros s call maxev timeout s2 evs W E. unfold do_epoll_wait in E.
  pose proof (wait_enter_W sc WF s W) as P.
  pose proof (wait_enter_K sc WF DA s (wp_inv _ _ W)) as PKK.
  pose proof (wait_enter_C sc WF DA s (wp_inv _ _ W)) as PCC.
  destruct (wait_enter sc s) as [s1|s1]; [|discriminate E].
  destruct P as ([I1 Y1 A1 E1 Q1] & K1). unfold PK, PC in *. cbn [ARes] in *. cbv zeta in E.
  destruct (mem_z _ _); [discriminate E|].
  match type of E with context [k_epoll_sleep ?a ?b ?c ?d] => destruct (k_epoll_sleep a b c d) as [k1 evs0|k1| |] eqn:SL end; try discriminate E.
  cbn [kern emit set_trace] in SL.
  inversion E; subst s2 evs0. clear E.
  destruct (sleep_scan _ _ _ _ _ _ (y_kx _ _ _ Y1) SL) as (order & ORD & V1 & _ & _ & SC).
  assert (SRC : exists kx, vfds kx = vfds (kern s1) /\ evs = ep_scan kx order (Z.to_nat maxev)).
  { destruct SC as [[EQ _]|[_ (kx & V & EQ)]]; [exists (kern s1)|exists kx]; split; auto. }
  destruct SRC as (kx & VX & EQ).
  exists s1, kx. split; [exact I1|]. split; [apply Y1|]. split; [apply PKK|]. split; [apply PCC|].
  split; [apply (ko_notify _ _ K1)|]. split; [apply (ko_active _ _ K1)|]. split; [exact VX|]. split.
  { intros ev IN. rewrite EQ in IN. destruct (In_ep_scan_nz _ _ _ _ IN) as (e & IO & Q & NZ). exists e. split; [apply ORD; exact IO|auto]. }
  split; [reflexivity|]. split; [reflexivity|]. split; [reflexivity|]. split; [reflexivity|]. split; [reflexivity|]. split; [exact V1|].
  rewrite mst_emit. set (m := mst _).
  pose proof (sp3_ret m (Z.of_nat (length evs)) (map (fun e => fst (fst e)) evs) (clock k1)) as S3.
  split; [exact (f_equal (fun x => fst (fst x)) S3)|exact (f_equal (fun x => snd (fst x)) S3)].
Qed.

Lemma WSrc_pre : forall s s0 s2 evs, TFs s s0 -> CQI s s0 -> notify s0 = notify s -> active s0 = active s ->
  WSrc s0 s2 evs -> WSrc s s2 evs.
Proof.
  intros s s0 s2 evs T C N A (s1 & kx & H1 & H2 & H3 & H4 & H5 & H6 & R).
  exists s1, kx. split; [exact H1|]. split; [exact H2|]. split; [eapply TFs_trans; eassumption|].
  split; [eapply CQI_trans; eassumption|]. split; [congruence|]. split; [congruence|exact R].
Qed.

Lemma validate_pre : forall s, TFs s (validate_now s) /\ CQI s (validate_now s) /\ notify (validate_now s) = notify s /\
  active (validate_now s) = active s.
Proof.
  intros s. unfold validate_now. destruct (time_valid s).
  - split; [apply TFs_refl|]. split; [apply CQI_refl|]. split; reflexivity.
  - split; [apply TFs_plain; reflexivity|]. split; [apply CQI_plain; reflexivity|]. split; reflexivity.
Qed.

Lemma epoll_wait_m_src : forall s abs maxev s2 evs, WP sc s -> epoll_wait_m sc s abs maxev = WR s2 evs -> WSrc s s2 evs.
Proof.
  intros s abs maxev s2 evs W E. unfold epoll_wait_m in E.
  assert (TR : forall s0 a, fst (to_relative s0 a) = s0 \/ fst (to_relative s0 a) = validate_now s0)
    by (intros s0 [a|]; cbn [to_relative fst]; auto).
  assert (PRE : forall s0 a, TFs s0 (fst (to_relative s0 a)) /\ CQI s0 (fst (to_relative s0 a)) /\
                  notify (fst (to_relative s0 a)) = notify s0 /\ active (fst (to_relative s0 a)) = active s0).
  { intros s0 a. destruct (TR s0 a) as [-> | ->]; [split; [apply TFs_refl|split; [apply CQI_refl|split; reflexivity]]|apply validate_pre]. }
  assert (VIA : forall s0, WP sc s0 ->
     (let '(s1, ms) := to_msec s0 abs in do_epoll_wait sc s1 0 maxev (if ms <? 0 then -1 else ms * 1000000)) = WR s2 evs -> WSrc s0 s2 evs).
  { intros s0 W0 E0. destruct (WP_to_msec sc s0 abs W0) as [W1 _].
    assert (S1 : fst (to_msec s0 abs) = fst (to_relative s0 abs)) by (unfold to_msec; destruct (to_relative s0 abs) as [x [r|]]; reflexivity).
    destruct (PRE s0 abs) as (P1 & P2 & P3 & P4). rewrite <- S1 in P1, P2, P3, P4.
    destruct (to_msec s0 abs) as [s1 ms]. cbn [fst] in *.
    apply (WSrc_pre s0 s1 s2 evs P1 P2 P3 P4). apply (do_epoll_wait_src _ _ _ _ _ _ W1 E0). }
  destruct (pwait2 s); [|apply VIA; assumption].
  destruct (WP_to_relative sc s abs W) as [W1 _]. destruct (PRE s abs) as (P1 & P2 & P3 & P4).
  destruct (to_relative s abs) as [s1 rel]. cbn [fst] in *.
  apply (WSrc_pre s s1 s2 evs P1 P2 P3 P4).
  destruct (_ || _).
  - apply (WSrc_pre s1 (set_epoll s1 (epfd s1) (tfd s1) false)); [apply TFs_plain; reflexivity|apply CQI_plain; reflexivity|reflexivity|reflexivity|].
    apply VIA; [apply WP_set_epoll; exact W1|exact E].
  - apply (do_epoll_wait_src _ _ _ _ _ _ W1 E).
Qed.

(* ---------- after the batch has been turned into the dispatch list ---------- *)
Definition FiresS (s : core) (d : Z) : Prop :=
  exists b hid, 0 <= b <= 2 /\ has (ready (fdt s d)) (bbit b) = true /\ hnd (fdt s d) b = Some hid /\
    (hid < 1000 \/ (1000 <= hid /\ rw_reg s (hid - 1000) = true /\ RawRd (kern s) s (hid - 1000))).

Lemma FiresS_NoFire : forall s d, FiresS s d -> NoFire s d -> False.
Proof.
  intros s d (b & hid & B & R & H & C) N. destruct (N b hid B R H) as [L D].
  destruct C as [C|(_ & _ & RR)]; [lia|]. exact (RawRd_not_dry s _ RR D).
Qed.

Lemma epoll_process_tm_mono : forall evs s re, snd (epoll_process s evs re true) = true.
Proof.
  induction evs as [|[[fd bits] data] evs IH]; intros s re; cbn [epoll_process]; [reflexivity|].
  destruct (data =? -1); [apply IH|]. destruct (_ && _); apply IH.
Qed.

Lemma epoll_process_tmr_true : forall evs s re tm, (exists ev, In ev evs /\ snd ev = -2) -> method s = M_ET ->
  snd (epoll_process s evs re tm) = true.
Proof.
  induction evs as [|[[fd bits] data] evs IH]; intros s re tm (ev & IN & D) ME; [destruct IN|]. cbn [epoll_process].
  destruct IN as [<-|IN].
  - cbn [snd] in D. subst data. cbn [Z.eqb]. rewrite ME. change (M_ET =? M_ET) with true. cbn [andb]. apply epoll_process_tm_mono.
  - assert (EX : exists ev0, In ev0 evs /\ snd ev0 = -2) by (exists ev; split; assumption).
    destruct (data =? -1); [apply (IH _ _ _ EX ME)|]. destruct (_ && _); [apply (IH _ _ _ EX ME)|].
    apply (IH _ _ _ EX). rewrite (kf_method _ _ _ (activate_KF 0 s data bits)). exact ME.
Qed.

Lemma owners_rw : forall s s', owners s' = owners s -> rw_reg s' = rw_reg s /\ rw_rfd s' = rw_rfd s /\ tfd s' = tfd s /\ method s' = method s.
Proof. intros s s' E. unfold owners in E. repeat split; congruence. Qed.

Lemma do_epoll_wait_we : forall s call maxev timeout s2, do_epoll_wait sc s call maxev timeout = WE s2 -> had_ev (mst s2) = false.
Proof.
  intros s call maxev timeout s2 E. unfold do_epoll_wait in E. destruct (wait_enter sc s) as [s1|s1]; [|discriminate E]. cbv zeta in E.
  set (e2 := TWait _ _ _ _ _ _) in E.
  assert (HW : had_ev (mst (emit s1 e2)) = false).
  { rewrite mst_emit. unfold e2. match goal with |- had_ev (mon_step ?m (TWait ?a ?b ?c ?d ?e ?f)) = _ => exact (f_equal (fun x => fst (fst x)) (sp3_wait m a b c d e f)) end. }
  destruct (mem_z _ _).
  - inversion E; subst. rewrite mst_emit.
    match goal with |- had_ev (mon_step ?m ?e) = false =>
      assert (X : had_ev (mon_step m e) = had_ev m) by (exact (f_equal (fun x => fst (fst x)) (sp3_plain m e I))); rewrite X end.
    destruct (0 <? timeout); exact HW.
  - match type of E with context [k_epoll_sleep ?a ?b ?c ?d] => destruct (k_epoll_sleep a b c d) end; try discriminate E.
    inversion E; subst. exact HW.
Qed.

Lemma epoll_wait_m_we : forall s abs maxev s2, epoll_wait_m sc s abs maxev = WE s2 -> had_ev (mst s2) = false.
Proof.
  intros s abs maxev s2. unfold epoll_wait_m. destruct (pwait2 s).
  - destruct (to_relative s abs) as [s1 rel]. destruct (_ || _); [|apply do_epoll_wait_we].
    destruct (to_msec _ abs) as [s3 ms]. apply do_epoll_wait_we.
  - destruct (to_msec s abs) as [s3 ms]. apply do_epoll_wait_we.
Qed.

Definition TmrCase (s : core) (rt : bool) : Prop := method s = M_ET /\ rt = true /\ (UA s -> False).

Lemma epoll_poll_EI : forall s abs s', WP sc s -> Q3 s -> TfdM s -> CQ s -> is_epoll s = true ->
  fst (epoll_poll sc s abs) = R s' -> EIs s' ->
  (exists d, In d (active s') /\ FiresS s' d) \/ TmrCase s (snd (epoll_poll sc s abs)).
Proof.
  intros s abs s' W Q TM C IE. pose proof W as [I0 H A E Qt]. pose proof (y_j _ _ _ H) as Jh. unfold epoll_poll.
  destruct (flush_pending_ok (S (length (notify s))) s I0 IE ltac:(lia)) as (s1 & F1 & I1 & N1 & _ & RS1 & _).
  pose proof (J_inner_res s _ _ Jh (flush_pending_res (S (length (notify s))) s (j_fd _ _ Jh) IE)) as P.
  pose proof (flush_pending_st0 (S (length (notify s))) s) as S1.
  pose proof (flush_pending_CF (S (length (notify s))) s) as CF1.
  destruct (flush_pending_K s I0 IE) as (s1' & F1' & _ & TF1 & _).
  rewrite F1 in *. inversion F1'; subst s1'. clear F1'. cbn [res_state ARes] in S1, CF1.
  destruct P as (J1 & _ & E1); [intros s1'' (A0 & B0 & _); split; [apply Inner_W; exact A0|exact B0]|].
  assert (Q1 : quit s1 = quit s) by (destruct E1 as (A0 & _); apply (sm_quit _ _ (in_same _ _ A0))).
  assert (W1 : WP sc s1) by (apply (WP_st0 sc s s1 W S1 J1 I1 Q1)).
  assert (IE1 : is_epoll s1 = true) by (rewrite (restsame_epoll _ _ RS1); exact IE).
  set (maxev := if method s =? M_ET then numfds s + 1 else if numfds s =? 0 then 1 else numfds s).
  pose proof (epoll_wait_m_src s1 abs maxev) as SRC.
  destruct (epoll_wait_m sc s1 abs maxev) as [s2 evs|s2|r] eqn:EW; cbn [fst snd].
  2:{ intros E2 [HEI _]. inversion E2; subst. exfalso.
      rewrite (mst_trace s2 (invalidate_now s2) eq_refl) in HEI. rewrite (epoll_wait_m_we _ _ _ _ EW) in HEI. discriminate HEI. }
  2:{ intros E2. destruct (CorePhase2AcctIdleTv.epoll_wait_m_WH sc _ _ _ _ EW) as [s0 ->]. discriminate E2. }
  destruct (SRC s2 evs W1 eq_refl) as (sw & kx & Iw & KXw & TFw & CQw & NTw & ACw & VX & SRCw & FD2 & AC2 & OW2 & ER2 & LC2 & VF2 & HE2 & NC2).
  destruct (owners_rw _ _ OW2) as (RW2 & RF2 & TD2 & MT2).
  assert (Cw : CQ sw) by (apply CQw; eapply CQ_CF; eassumption).
  assert (TMw : TfdM sw).
  { unfold TfdM in *. rewrite (tf_tfd _ _ _ TFw), (tf_method _ _ _ TFw), (tf_tfd _ _ _ TF1), (tf_method _ _ _ TF1). exact TM. }
  assert (IEw : is_epoll sw = true) by (unfold is_epoll in *; rewrite (tf_method _ _ _ TFw); exact IE1).
  assert (NW : notify sw = []) by (rewrite NTw; exact N1).
  set (s3 := invalidate_now s2).
  pose proof (epoll_process_trace evs s3 false false) as T4.
  pose proof (epoll_process_KF 0 evs s3 false false) as KF4.
  pose proof (CorePhase2AcctOwnWait.epoll_process_OF evs s3 false false) as OF4.
  assert (RJ3 : RJ (fun _ _ => True) s3).
  { split; [|intros; exact I]. change (active s3) with (active s2). rewrite AC2, ACw, (s0_act _ _ S1), A. constructor. }
  destruct (process_eff (fun _ _ => True) evs s3 false false RJ3 ltac:(intros; exact I)) as (AF4 & _ & _ & EA4).
  pose proof (epoll_process_tmr_true evs s3 false false) as TMR.
  destruct (epoll_process s3 evs false false) as [[s4 re] tmr]. cbn [fst snd] in *.
  destruct (owners_rw _ _ (of_own _ _ OF4)) as (RW4 & RF4 & TD4 & MT4).
  (* the rest of iv_fd_epoll_poll did nothing *)
  intros E2 HEI.
  assert (TAIL : fdt s' = fdt s4 /\ active s' = active s4 /\ rw_reg s' = rw_reg s4 /\ rw_rfd s' = rw_rfd s4 /\
                 rw_wfd s' = rw_wfd s4 /\ trace s' = trace s4 /\
                 (forall fd, fd <> tfd s4 -> k_get (kern s') fd = k_get (kern s4) fd)).
  { destruct (if tmr then match k_read (kern s4) (tfd s4) 8 with
                          | (k1, inl _) => R (set_kern s4 k1) | (k1, inr _) => halt (set_kern s4 k1) TFatal end else R s4) as [s5|s5] eqn:E5;
      cbn [bind] in E2; [|discriminate E2].
    assert (S5 : fdt s5 = fdt s4 /\ active s5 = active s4 /\ rw_reg s5 = rw_reg s4 /\ rw_rfd s5 = rw_rfd s4 /\
                 rw_wfd s5 = rw_wfd s4 /\ trace s5 = trace s4 /\
                 (forall fd, fd <> tfd s4 -> k_get (kern s5) fd = k_get (kern s4) fd)).
    { destruct tmr; [|inversion E5; repeat split; reflexivity].
      destruct (k_read (kern s4) (tfd s4) 8) as [k1 [x|e]] eqn:RD; [|unfold halt in E5; discriminate E5].
      inversion E5. repeat split. cbn [kern set_kern]. intros fd NF.
      revert RD. unfold k_read. destruct (k_open (kern s4) (tfd s4)) as [v|]; [|intros X; inversion X; reflexivity].
      repeat match goal with |- context [if ?c then _ else _] => destruct c end; intros X; inversion X; subst; try reflexivity;
        rewrite k_get_put'; destruct (Z.eqb_spec fd (tfd s4)); try contradiction; reflexivity. }
    destruct re; [|inversion E2; subst; exact S5].
    destruct (run_pending_events_q sc EIs EIs_ext EIs_call _ _ E2 HEI) as [_ ->]. exact S5. }
  destruct TAIL as (FD5 & AC5 & RW5 & RF5 & ER5 & TR5 & G5).
  assert (EI2 : EI (mst s2)).
  { unfold EIs in HEI. rewrite (mst_trace s4 s' TR5), (mst_trace s3 s4 T4), (mst_trace s2 s3 eq_refl) in HEI. exact HEI. }
  assert (NE : evs <> []).
  { destruct EI2 as [HE _]. rewrite HE2 in HE. destruct evs; [discriminate HE|discriminate]. }
  destruct (existsb (fun ev => negb (snd ev =? -2)) evs) eqn:EX.
  - (* some entry is not the timer descriptor's: its handler fires *)
    left. apply existsb_exists in EX. destruct EX as ([[fd bits] data] & IN & ND). cbn [snd] in ND.
    apply negb_true_iff in ND. apply Z.eqb_neq in ND.
    destruct (SRCw _ IN) as (e & IO & EQ & NZ). inversion EQ; subst fd bits data. clear EQ.
    destruct (entry_fires sw kx e Iw TMw KXw Cw IEw NW VX IO NZ) as [[D2 _]|[RD (b & hid & B & BH & HH & CC)]]; [contradiction|].
    destruct (EA4 _ _ _ IN ltac:(lia) b B BH) as [INA RDY].
    exists (en_data e). split; [rewrite AC5; exact INA|]. exists b, hid. split; [exact B|]. split; [rewrite FD5; exact RDY|].
    assert (HN : hnd (fdt s4 (en_data e)) b = Some hid).
    { destruct (af_fd _ _ AF4 (en_data e)) as (_ & H1 & H2 & H3 & _). unfold hnd in *. change (fdt s3) with (fdt s2) in *.
      rewrite H1, H2, H3, FD2. exact HH. }
    split; [rewrite FD5; exact HN|]. destruct CC as [CC|(L1 & RR & _ & (v & OV & NV & KV))]; [left; exact CC|right].
    split; [exact L1|]. split; [rewrite RW5, RW4; change (rw_reg s3) with (rw_reg s2); rewrite RW2; exact RR|].
    assert (RFE : rw_rfd s4 = rw_rfd sw) by (rewrite RF4; change (rw_rfd s3) with (rw_rfd s2); exact RF2).
    assert (ERE : rw_wfd s4 = rw_wfd sw) by (rewrite (kf_wf _ _ _ KF4); change (rw_wfd s3) with (rw_wfd s2); exact ER2).
    exists v. unfold raw_is_pipe in *. rewrite RF5, ER5, RFE, ERE. split; [|split; [exact NV|exact KV]].
    destruct (al_raw _ _ (InvW_AL sw Iw) _ RR) as (_ & NT & _).
    unfold k_open in *. rewrite G5; [|rewrite TD4; change (tfd s3) with (tfd s2); rewrite TD2; exact NT].
    rewrite (af_kern _ _ AF4). change (kern s3) with (kern s2). rewrite (get_same (kern s2) (kern sw) _ VF2). exact OV.
  - (* only the timer descriptor was reported *)
    right. assert (ALL : forall ev, In ev evs -> snd ev = -2).
    { intros ev IN. destruct (Z.eq_dec (snd ev) (-2)) as [X|X]; [exact X|]. exfalso.
      assert (Y : existsb (fun ev => negb (snd ev =? -2)) evs = true) by (apply existsb_exists; exists ev; split; [exact IN|apply negb_true_iff; apply Z.eqb_neq; exact X]).
      congruence. }
    destruct evs as [|ev0 evs']; [contradiction|].
    destruct (SRCw ev0 (or_introl eq_refl)) as (e & IO & EQ & NZ). pose proof (ALL ev0 (or_introl eq_refl)) as D0. rewrite EQ in D0. cbn [snd] in D0.
    destruct (entry_fires sw kx e Iw TMw KXw Cw IEw NW VX IO NZ) as [[_ MEw]|[RD _]]; [|lia].
    assert (ME : method s = M_ET) by (rewrite <- (tf_method _ _ _ TF1), <- (tf_method _ _ _ TFw); exact MEw).
    split; [exact ME|]. split.
    + rewrite (TMR ltac:(exists ev0; split; [left; reflexivity|apply ALL; left; reflexivity])
                  ltac:(change (method s3) with (method s2); rewrite MT2; exact MEw)). apply orb_true_r.
    + intros U. assert (Uw : UA sw) by (apply (UA_TFs s1 sw); [apply (UA_TFs s s1 U TF1)|exact TFw]).
      destruct (fv_ent _ _ (CoreInvDefs.iw_fd _ Iw) e IO) as [(L & _)|[(D & _)|(_ & F & _ & GE)]]; [destruct L as [L _]; lia|lia|].
      destruct Uw as [T1|EXV]; [lia|]. apply NZ. apply (tfd_not_ready sw kx e Iw VX F ltac:(lia) EXV).
Qed.

(* ---------- poll / ppoll: there is no silent descriptor at all ---------- *)
Lemma count_nonzero_ex : forall l, 0 < count_nonzero l -> exists n r, nth_error l n = Some r /\ r <> 0.
Proof.
  induction l as [|x l IH]; intros H; [cbn in H; lia|].
  destruct (Z.eq_dec x 0) as [Z0|NZ].
  - unfold count_nonzero in *. cbn [filter] in H. subst x. cbn [Z.eqb negb] in H.
    destruct (IH H) as (n & r & A & B). exists (S n), r. split; assumption.
  - exists O, x. split; [reflexivity|exact NZ].
Qed.

Lemma poll_sleep_vfds : forall k pf t k1 revs, k_poll_sleep k pf t = PReady k1 revs -> vfds k1 = vfds k.
Proof.
  intros k pf t k1 revs. unfold k_poll_sleep. destruct (_ || _); [intros E; inversion E; reflexivity|].
  destruct (t <? 0); [discriminate|]. intros E; inversion E; reflexivity.
Qed.

Lemma do_poll_wait_EI : forall s call timeout s', WP sc s -> CQ s -> is_epoll s = false ->
  fst (do_poll_wait sc s call timeout) = R s' -> EIs s' -> exists d, In d (active s') /\ FiresS s' d.
Proof.
  intros s call timeout s' W C IE E HEI. unfold do_poll_wait in E.
  pose proof (wait_enter_W sc WF s W) as P.
  pose proof (wait_enter_C sc WF DA s (wp_inv _ _ W)) as PCC.
  destruct (wait_enter sc s) as [s1|s1]; [|discriminate E].
  destruct P as ([I1 Y1 A1 E1 Q1] & K1). unfold PC in PCC. cbn [ARes] in PCC. destruct PCC as [_ CQ1]. pose proof (CQ1 C) as C1.
  assert (IE1 : is_epoll s1 = false) by (unfold is_epoll in *; rewrite (ko_method _ _ K1); exact IE).
  cbv zeta in E. set (e2 := TWait _ _ _ _ _ _) in E. set (s2 := emit s1 e2) in E.
  assert (HW : had_ev (mst s2) = false).
  { unfold s2. rewrite mst_emit. unfold e2.
    match goal with |- had_ev (mon_step ?m (TWait ?a ?b ?c ?d ?e ?f)) = _ => exact (f_equal (fun x => fst (fst x)) (sp3_wait m a b c d e f)) end. }
  destruct (mem_z _ _); cbn [fst] in E.
  { exfalso. inversion E; subst s'. destruct HEI as [HE _].
    match type of HE with had_ev (mst (invalidate_now (emit ?X ?e))) = true =>
      change (mst (invalidate_now (emit X e))) with (mst (emit X e)) in HE; rewrite mst_emit in HE;
      assert (TX : mst X = mst s2) by (destruct (0 <? timeout); reflexivity); rewrite TX in HE end.
    match type of HE with had_ev (mon_step ?m ?e) = true =>
      assert (X : had_ev (mon_step m e) = had_ev m) by (exact (f_equal (fun x => fst (fst x)) (sp3_plain m e I))); rewrite X in HE end.
    congruence. }
  change (kern s2) with (kern s1) in E. change (pfds s2) with (pfds s1) in E.
  destruct (k_poll_sleep (kern s1) (pfds s1) timeout) as [k1 revs|] eqn:SL; cbn [fst] in E; [|unfold halt in E; discriminate E].
  inversion E. clear E.
  set (s3 := emit (set_kern s2 k1) (TRet (Some (count_nonzero revs)) (reported_pfds (pfds s1) revs) (clock k1))) in *.
  set (s4 := invalidate_now s3) in *. change (pkeys s3) with (pkeys s1) in *.
  assert (RJ4 : RJ (fun _ _ => True) s4) by (split; [change (active s4) with (active s1); rewrite A1; constructor|intros; exact I]).
  destruct (poll_activate_eff (fun _ _ => True) (pkeys s1) revs s4 RJ4 ltac:(intros; exact I)) as (AF & _ & _ & EA5).
  pose proof (poll_activate_trace7 (pkeys s1) revs s4) as TR5.
  pose proof (CorePhase2AcctOwnWait.poll_activate_OF (pkeys s1) revs s4) as OF5.
  pose proof (poll_activate_KF 0 (pkeys s1) revs s4) as KF5.
  set (s5 := poll_activate s4 (pkeys s1) revs) in *. subst s'.
  destruct (owners_rw _ _ (of_own _ _ OF5)) as (RW5 & RF5 & _ & _).
  assert (HE3 : had_ev (mst s3) = true).
  { destruct HEI as [HE _]. rewrite (mst_trace s4 s5 TR5), (mst_trace s3 s4 eq_refl) in HE. exact HE. }
  unfold s3 in HE3. rewrite mst_emit in HE3.
  match type of HE3 with had_ev (mon_step ?m (TRet (Some ?n) ?f ?c)) = true =>
    assert (X : had_ev (mon_step m (TRet (Some n) f c)) = (0 <? n)) by (exact (f_equal (fun x => fst (fst x)) (sp3_ret m n f c))); rewrite X in HE3 end.
  apply Z.ltb_lt in HE3. destruct (count_nonzero_ex _ HE3) as (n & r & NR & RNZ).
  destruct (poll_sleep_scan _ _ _ _ _ SL) as (kx & VX & RV & _).
  pose proof (poll_sleep_vfds _ _ _ _ _ SL) as V1.
  assert (LEN : (n < length (pkeys s1))%nat).
  { rewrite <- (fv_plen _ _ (CoreInvDefs.iw_fd _ I1)). assert (LR : (n < length revs)%nat) by (apply nth_error_Some; rewrite NR; discriminate).
    rewrite RV in LR. unfold poll_eval in LR. rewrite map_length in LR. exact LR. }
  destruct (nth_error (pkeys s1) n) as [d|] eqn:PK; [|apply nth_error_None in PK; lia].
  destruct (slot_fires s1 kx n d I1 C1 IE1 VX PK) as (ev & PF & RD & FR).
  assert (RE : r = poll_revents kx (fdnum (fdt s1 d)) ev).
  { rewrite RV, (nth_poll_eval kx (pfds s1) n _ PF) in NR. inversion NR. reflexivity. }
  rewrite <- RE in FR. destruct (FR RNZ) as (b & hid & B & BH & HH & CC).
  destruct (EA5 n d r PK NR b B BH) as [INA RDY].
  exists d. split; [exact INA|]. exists b, hid. split; [exact B|]. split; [exact RDY|].
  split.
  { destruct (af_fd _ _ AF d) as (_ & H1 & H2 & H3 & _). unfold hnd in *. rewrite H1, H2, H3. exact HH. }
  destruct CC as [CC|(L1 & RR & _ & (v & OV & NV & KV))]; [left; exact CC|right].
  split; [exact L1|]. split; [rewrite RW5; exact RR|].
  exists v. unfold raw_is_pipe in *. rewrite RF5, (kf_wf _ _ _ KF5). change (rw_rfd s4) with (rw_rfd s1). change (rw_wfd s4) with (rw_wfd s1).
  split; [|split; [exact NV|exact KV]].
  unfold k_open in *. rewrite (af_kern _ _ AF). change (kern s4) with k1. rewrite (get_same k1 (kern s1) _ V1). exact OV.
Qed.

Lemma poll_poll_EI : forall s abs s', WP sc s -> CQ s -> is_epoll s = false ->
  fst (poll_poll sc s abs) = R s' -> EIs s' -> exists d, In d (active s') /\ FiresS s' d.
Proof.
  intros s abs s' W C IE. unfold poll_poll.
  assert (VIA : forall s0, WP sc s0 -> CQ s0 -> is_epoll s0 = false ->
     fst (let '(s1, ms) := to_msec s0 abs in do_poll_wait sc s1 2 (if ms <? 0 then -1 else ms * 1000000)) = R s' ->
     EIs s' -> exists d, In d (active s') /\ FiresS s' d).
  { intros s0 W0 C0 IE0. destruct (WP_to_msec sc s0 abs W0) as [W1 K1].
    assert (C1 : CQ (fst (to_msec s0 abs))).
    { unfold to_msec. destruct abs as [a|]; cbn [to_relative fst]; [|exact C0]. eapply CQ_CF; [exact C0|apply CF_validate]. }
    destruct (to_msec s0 abs) as [s1 ms]. cbn [fst] in *.
    apply do_poll_wait_EI; [exact W1|exact C1|]. unfold is_epoll in *. rewrite (ko_method _ _ K1). exact IE0. }
  destruct (Z.eqb_spec (method s) M_PP) as [MP|NMP]; [|apply VIA; assumption].
  destruct (WP_to_relative sc s abs W) as [W1 K1].
  assert (C1 : CQ (fst (to_relative s abs))).
  { destruct abs as [a|]; cbn [to_relative fst]; [|exact C]. eapply CQ_CF; [exact C|apply CF_validate]. }
  destruct (to_relative s abs) as [s1 rel]. cbn [fst] in *.
  assert (IE1 : is_epoll s1 = false) by (unfold is_epoll in *; rewrite (ko_method _ _ K1); exact IE).
  destruct (no_ppoll (flt (kern s1))).
  - apply VIA; [| |reflexivity].
    + pose proof W1 as [I1 Hy1 A1 E1 Q1].
      destruct (J_invalidate true s1 (y_j _ _ _ Hy1)) as (J2 & _ & _ & Q2).
      assert (IE2 : is_epoll (invalidate_now s1) = false) by exact IE1.
      apply (WP_st0 sc s1 _ W1).
      * eapply ST0_trans; [apply invalidate_st0|apply ST0_set_method].
      * apply J_set_method_poll; [exact J2|exact IE2|reflexivity].
      * apply InvW_set_method; [apply InvW_invalidate; exact I1| |unfold M_PO; lia].
        change (is_epoll (invalidate_now s1)) with (is_epoll s1). rewrite IE1. reflexivity.
      * exact Q2.
    + intros fd L P. apply (C1 fd L P).
  - apply do_poll_wait_EI; assumption.
Qed.

(* ---------- the dispatch loop needs these two facts ---------- *)
Lemma kickraw_zero : forall s v, InvW s -> CQ s -> rw_reg s KICK_RAW = true ->
  k_open (kern s) (rw_rfd s KICK_RAW) = Some v -> vcnt v = 0.
Proof.
  intros s v I C RK O. destruct (Z.eq_dec (vcnt v) 0) as [Z0|NZ]; [exact Z0|exfalso].
  pose proof (CoreInvDefs.iw_fd _ I) as FI. pose proof (CoreInvDefs.iw_dyn _ I) as DI.
  assert (L32 : live s (-1) 32).
  { apply live_none. split; [lia|]. change 32 with (16 + 16). rewrite (dy_reg _ DI 16 ltac:(lia)). exact RK. }
  assert (F32 : fdnum (fdt s 32) = rw_rfd s KICK_RAW) by (apply (dy_obj _ DI KICK_RAW RK)).
  assert (R1000 : 1000 <= rw_rfd s KICK_RAW) by (rewrite <- F32; apply (fv_dyn _ _ FI 32 ltac:(lia) L32)).
  destruct (C _ R1000 ltac:(exists v; split; [exact O|exact NZ])) as [(j & RG & RJ & E)|(AR & E)].
  - assert (Lj : live s (-1) (16 + j)).
    { apply live_none. split; [lia|]. rewrite (dy_reg _ DI j ltac:(lia)). exact RJ. }
    assert (Fj : fdnum (fdt s (16 + j)) = rw_rfd s j) by (apply (dy_obj _ DI j RJ)).
    pose proof (fv_inj _ _ FI 32 (16 + j) L32 Lj ltac:(rewrite F32, Fj; exact E)). unfold KICK_RAW in *. lia.
  - destruct (fv_ref _ _ FI) as [Z0|O1]; [contradiction|]. apply (dy_actraw _ DI O1 KICK_RAW RK). exact E.
Qed.

Lemma KickDry_inv : forall s, InvW s -> CQ s -> KickDry s.
Proof.
  intros s I C RK kx n RD. pose proof (dy_kern _ (CoreInvDefs.iw_dyn _ I) KICK_RAW RK) as DK. unfold toread in RD.
  destruct (raw_is_pipe s KICK_RAW).
  - destruct DK as (_ & _ & v & vw & O1 & K1 & _ & PO & _).
    pose proof (kickraw_zero s v I C RK O1) as Z0.
    revert RD. unfold k_read. rewrite O1, K1. change (K_PIPE_R =? K_EVENTFD) with false. change (K_PIPE_R =? K_PIPE_R) with true. cbv iota.
    rewrite Z0, PO. cbn [Z.eqb]. discriminate.
  - destruct DK as (_ & _ & v & O1 & K1).
    pose proof (kickraw_zero s v I C RK O1) as Z0.
    revert RD. unfold k_read. rewrite O1, K1. change (K_EVENTFD =? K_EVENTFD) with true. cbv iota.
    rewrite Z0. cbn. discriminate.
Qed.

Lemma RawH_inv : forall s, InvW s -> RawH s.
Proof.
  intros s I k IN b hid B HH L. pose proof (CoreInvDefs.iw_fd _ I) as FI. pose proof (CoreInvDefs.iw_dyn _ I) as DI.
  pose proof (fv_active _ _ FI k IN) as LK. apply live_none in LK. destruct LK as [RK RG].
  assert (HB : b = 0 \/ b = 1 \/ b = 2) by lia.
  destruct (Z_lt_le_dec k 16) as [U|R16].
  - exfalso. destruct (dy_userh _ DI k ltac:(lia)) as (A1 & A2 & A3). unfold hnd in HH.
    destruct HB as [->|[->| ->]]; cbn [Z.eqb Pos.eqb] in HH; [apply A1 in HH|apply A2 in HH|apply A3 in HH]; lia.
  - set (j := k - 16). assert (KJ : k = 16 + j) by (unfold j; lia).
    assert (RJ : rw_reg s j = true) by (rewrite <- (dy_reg _ DI j ltac:(unfold j; lia)), <- KJ; exact RG).
    destruct (dy_obj _ DI j RJ) as (_ & HI & HO & HE). rewrite <- KJ in HI, HO, HE. unfold hnd in HH.
    destruct HB as [->|[->| ->]]; cbn [Z.eqb Pos.eqb] in HH; rewrite ?HI, ?HO, ?HE in HH; try discriminate HH.
    inversion HH. unfold H_RAW. replace (1000 + j - 1000) with j by lia. exact RJ.
Qed.

(* ---------- iv_fd_timeout_check ---------- *)
Lemma tc_false_cnt : forall s abs s0, timeout_check s abs = (R s0, false) -> method s0 = M_ET -> last_abs_count s0 <> 5.
Proof.
  intros s abs s0 TCE M0 C5. revert TCE. unfold timeout_check. cbv zeta.
  destruct (_ && _); [discriminate|].
  set (s1 := if last_abs_count s =? 5 then tfd_settime s 0 else s).
  destruct abs as [a|]; [|cbn [abs_cmp Z.eqb]; intros E; inversion E; subst; cbn in C5; discriminate C5].
  destruct (abs_cmp (Some a) (last_abs s) =? 0); [|intros E; inversion E; subst; cbn in C5; discriminate C5].
  set (s2 := if last_abs_count s1 <? 5 then _ else s1).
  destruct (Z.eqb_spec (last_abs_count s2) 5) as [E5|N5]; [|intros E; inversion E; subst; contradiction].
  intros E. exact (set_poll_timeout_K0 _ _ _ E M0).
Qed.

Lemma tc_zero : forall s abs s0 fl, last_abs_count s = 0 -> timeout_check s abs = (R s0, fl) -> fl = false.
Proof.
  intros s abs s0 fl Z0. unfold timeout_check. cbv zeta. rewrite Z0. cbn [Z.eqb andb].
  destruct (abs_cmp abs (last_abs s) =? 0).
  - cbn [Z.ltb Z.compare]. cbn [last_abs_count set_last_abs]. rewrite Z0. cbn. intros E. inversion E. reflexivity.
  - destruct abs; intros E; inversion E; reflexivity.
Qed.

(* ---------- iv_fd_poll_and_run ---------- *)
Lemma FiresS_same : forall s s' d, fdt s' = fdt s -> kern s' = kern s -> rw_reg s' = rw_reg s -> rw_rfd s' = rw_rfd s ->
  rw_wfd s' = rw_wfd s -> FiresS s d -> FiresS s' d.
Proof.
  intros s s' d F K R1 R2 R3 (b & hid & B & RD & HH & CC). exists b, hid. rewrite F. split; [exact B|]. split; [exact RD|]. split; [exact HH|].
  destruct CC as [CC|(L & RR & (v & O & N & KK))]; [left; exact CC|right]. split; [exact L|]. rewrite R1. split; [exact RR|].
  exists v. unfold raw_is_pipe. rewrite K, R2, R3. auto.
Qed.

Lemma poll_and_run_EI : forall s abs s'', LoopInv s -> WP sc s -> CQ s -> LKM s -> K0 s ->
  fst (poll_and_run sc s abs) = R s'' -> EIs s'' -> last_abs_count s'' = 0 /\ last_abs_count s <> 0.
Proof.
  intros s abs s'' (I & Q & TM & AC) W C L K. unfold poll_and_run.
  (* the dispatch loop: a descriptor whose handler must fire contradicts "no callback" *)
  assert (DISP : forall sd, InvW sd -> CQ sd -> dispatch_active sc (S (length (active sd))) sd = R s'' -> EIs s'' ->
            QF sd s'' /\ ((exists d, In d (active sd) /\ FiresS sd d) -> False)).
  { intros sd Id Cd E HEI.
    destruct (dispatch_active_q sc EIs EIs_ext EIs_call _ sd s'' (KickDry_inv sd Id Cd) (RawH_inv sd Id) E HEI) as [F N].
    split; [exact F|]. intros (d & IN & FS). exact (FiresS_NoFire sd d FS (N d IN)). }
  assert (MP : forall s0 a r rt, WP sc s0 -> Q3 s0 -> TfdM s0 -> CQ s0 -> m_poll sc s0 a = (r, rt) ->
            forall s1, r = R s1 -> InvW s1 /\ CQ s1 /\
              (EIs s1 -> (exists d, In d (active s1) /\ FiresS s1 d) \/ (is_epoll s0 = true /\ TmrCase s0 rt))).
  { intros s0 a r rt W0 Q0 TM0 C0 E s1 ->. pose proof (wp_inv _ _ W0) as I0. unfold m_poll in E. destruct (is_epoll s0) eqn:IE0.
    - pose proof (epoll_poll_ok sc WF DA s0 a I0 Q0 TM0 IE0) as PP. rewrite E in PP. cbn [fst okr] in PP.
      assert (E1 : fst (epoll_poll sc s0 a) = R s1) by (rewrite E; reflexivity).
      split; [apply PP|]. split; [apply (epoll_poll_C sc WF DA s0 a s1 I0 Q0 TM0 IE0 E1 C0)|].
      intros HEI. destruct (epoll_poll_EI s0 a s1 W0 Q0 TM0 C0 IE0 E1 HEI) as [X|X]; [left; exact X|right; split; [reflexivity|]].
      rewrite E in X. exact X.
    - pose proof (poll_poll_ok sc WF DA s0 a I0 Q0 TM0 IE0) as PP. rewrite E in PP. cbn [fst okr] in PP.
      assert (E1 : fst (poll_poll sc s0 a) = R s1) by (rewrite E; reflexivity).
      split; [apply PP|]. split; [apply (poll_poll_C sc WF DA s0 a s1 I0 IE0 E1 C0)|].
      intros HEI. left. apply (poll_poll_EI s0 a s1 W0 C0 IE0 E1 HEI). }
  destruct (Z.eqb_spec (method s) M_ET) as [ME|NE].
  - pose proof W as [I0 Hy A E0 Qt].
    pose proof (timeout_check_ok sc WF DA s abs I ME) as T1.
    pose proof (timeout_check_post s abs (y_j _ _ _ Hy) ME) as T2.
    pose proof (timeout_check_st0 s abs) as T3.
    destruct (timeout_check s abs) as [[s0|s0] fl] eqn:TCE; cbn [fst okr PostQ res_state] in *; [|cbn [fst bind]; discriminate].
    destruct T1 as (I1 & F1 & TM1 & IE1). destruct T2 as (J1 & _ & Q1).
    assert (W0 : WP sc s0) by (apply (WP_st0 sc s s0 W T3 J1 I1 Q1)).
    pose proof (TcFr_Q3 _ _ F1 Q) as Q0.
    pose proof (timeout_check_C s abs s0 fl ME TCE C) as C0.
    pose proof (timeout_check_K0 s abs s0 fl (L ME) K ME TCE) as K00.
    destruct fl.
    + destruct (m_poll sc s0 None) as [r rt] eqn:MPE. cbn [fst].
      destruct r as [s1|s1]; cbn [bind]; [|discriminate].
      destruct (MP s0 None (R s1) rt W0 Q0 TM1 C0 MPE s1 eq_refl) as (Is1 & Cs1 & EI1).
      set (sd := if rt then set_last_abs s1 (last_abs s1) 0 else s1).
      assert (Id : InvW sd) by (unfold sd; destruct rt; [apply (InvW_coresame s1); [constructor; reflexivity|apply (ms_nobad _ (iw_misc _ Is1))|exact Is1]|exact Is1]).
      assert (Cd : CQ sd) by (unfold sd; destruct rt; [intros fd LL P; apply (Cs1 fd LL P)|exact Cs1]).
      intros E HEI. destruct (DISP sd Id Cd E HEI) as [F NO].
      assert (EI1' : EIs s1).
      { apply (EIs_trace sd); [unfold sd; destruct rt; reflexivity|].
        pose proof (dispatch_active_exth sc (S (length (active sd))) sd) as T. unfold RExt in T. rewrite E in T.
        apply (EIs_ext ch sd s'' ch_nr' T HEI). }
      destruct (EI1 EI1') as [(d & IN & FS)|(_ & (M0 & RT & NU))].
      * exfalso. apply NO. exists d. split; [unfold sd; destruct rt; exact IN|].
        apply (FiresS_same s1); try (unfold sd; destruct rt; reflexivity). exact FS.
      * split.
        -- rewrite (qf_lac _ _ F). unfold sd. rewrite RT. reflexivity.
        -- intros Z0. pose proof (tc_zero s abs s0 true Z0 TCE). discriminate.
    + destruct (m_poll sc s0 abs) as [r rt] eqn:MPE. cbn [fst].
      destruct r as [s1|s1]; cbn [bind]; [|discriminate].
      destruct (MP s0 abs (R s1) rt W0 Q0 TM1 C0 MPE s1 eq_refl) as (Is1 & Cs1 & EI1).
      intros E HEI. destruct (DISP s1 Is1 Cs1 E HEI) as [F NO].
      assert (EI1' : EIs s1).
      { pose proof (dispatch_active_exth sc (S (length (active s1))) s1) as T. unfold RExt in T. rewrite E in T.
        apply (EIs_ext ch s1 s'' ch_nr' T HEI). }
      exfalso. destruct (EI1 EI1') as [X|(_ & (M0 & _ & NU))]; [exact (NO X)|].
      apply NU. apply (K00 M0). apply (tc_false_cnt s abs s0 TCE M0).
  - destruct (m_poll sc s abs) as [r rt] eqn:MPE. cbn [fst].
    destruct r as [s1|s1]; cbn [bind]; [|discriminate].
    destruct (MP s abs (R s1) rt W Q TM C MPE s1 eq_refl) as (Is1 & Cs1 & EI1).
    intros E HEI. destruct (DISP s1 Is1 Cs1 E HEI) as [F NO].
    assert (EI1' : EIs s1).
    { pose proof (dispatch_active_exth sc (S (length (active s1))) s1) as T. unfold RExt in T. rewrite E in T.
      apply (EIs_ext ch s1 s'' ch_nr' T HEI). }
    exfalso. destruct (EI1 EI1') as [X|(_ & (M0 & _))]; [exact (NO X)|contradiction].
Qed.

End SpinWait.
