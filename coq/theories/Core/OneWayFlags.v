(* OneWayFlags.v -- the one-way feature-detection flags of the core model (C14).

   The C library keeps a few process-wide (static) flags that record what the running kernel
   supports.  They are read and written without any lock by every thread that runs a loop; C14
   lists them as the tolerated exception: "idempotent one-way feature-detection flags".  What makes
   that tolerable is proved here on the sequential core model (Core/CoreModel.v), for ALL states
   (no invariant is assumed), all scenarios and all fault oracles:

     pwait2      epoll_pwait2_support (iv_fd_epoll.c)            true -> false only
     efd_epoll   eventfd_in_use of iv_fd_epoll.c   \  eventfd-linux.h, one static per
     efd_raw     eventfd_in_use of iv_event_raw_posix.c /  translation unit: 2 -> 1 -> 0 only
     method      the poll method: epoll-timerfd -> epoll (timerfd_create missing),
                 ppoll -> poll (ppoll ENOSYS); never back, never across families
     use_raw     iv_event_use_event_raw (iv_event.c)             false -> true only

   `FL s s'` says: from s to s' every flag kept its value or moved in its documented direction, and
   it moved only if the kernel's fault oracle -- what the kernel supports, `flt (kern s)` -- demands
   it (epoll_pwait2 ENOSYS/EPERM, eventfd/eventfd2 ENOSYS, timerfd_create ENOSYS, ppoll ENOSYS);
   the oracle itself is the same in s and s'.  FL is a
   preorder and every operation of the model satisfies it (for both outcomes R s' and Halt s').

   Idempotence.  For epoll_pwait2, ppoll and timerfd_create the kernel's answer is a function of the
   constant oracle, so a write stores a value determined by the oracle alone (lemmas
   pwait2_cleared_iff, ppoll_switched_iff, timerfd_switched_iff): two threads that write the same
   flag concurrently store the same value.  For the two eventfd_in_use flags this is no longer true
   as stated: eventfd2 / eventfd may start failing after efd_ok descriptors have been created
   (faults.efd_ok), so the kernel's answer varies in time.  What remains, and is proved here:
     - monotonicity (FL) is unaffected: a flag moves only downwards, and only if the oracle has the
       fault (no_eventfd || no_eventfd2);
     - the answer depends on the oracle and on ONE more bit, `efd_cut k` (are the eventfd faults in
       effect yet); that bit is itself one-way: false -> true only (efd_cut_mono: the creation
       counter never decreases);
     - the value a grab stores is grab_flag(oracle, cut, old value) (grab_spec); before the cut a
       grab leaves the flag alone (grab_flag_nocut); at a given cut status the write is idempotent
       (grab_flag_idem); writes made at different cut status compose, in either order, to the write at
       the later status (grab_flag_compose).  Hence two unsynchronised writers can store different
       values only if the cut fell between their system calls, both values are legal positions of
       the one-way flag, and whichever store wins, the next grab brings the flag to the same final
       value.  *)
From Coq Require Import List ZArith Bool Lia.
From Ivv Require Import Core.Kernel Core.CoreTypes Core.CoreFd Core.CoreModel.
From Ivv Require Timer.HeapModel.
Import ListNotations.
Local Open Scope Z_scope.

(* ---- the order: a flag keeps its value, or moves one way AND the kernel's oracle says why ---- *)
Definition pw_le (f : faults) (new old : bool) : Prop :=
  new = old \/ (old = true /\ new = false /\ no_pwait2 f || perm_pwait2 f = true).
Definition efd_le (f : faults) (new old : Z) : Prop :=
  new = old \/ ((new = 0 \/ (old = 2 /\ new = 1)) /\ no_eventfd f || no_eventfd2 f = true).
Definition method_le (f : faults) (new old : Z) : Prop :=
  new = old \/ (old = M_ET /\ new = M_EP /\ no_timerfd f = true) \/ (old = M_PP /\ new = M_PO /\ no_ppoll f = true).

Record FL (s s' : core) : Prop := {
  fl_pwait2 : pw_le (flt (kern s)) (pwait2 s') (pwait2 s);
  fl_efd_epoll : efd_le (flt (kern s)) (efd_epoll s') (efd_epoll s);
  fl_efd_raw : efd_le (flt (kern s)) (efd_raw s') (efd_raw s);
  fl_method : method_le (flt (kern s)) (method s') (method s);
  fl_use_raw : use_raw s = true -> use_raw s' = true;
  fl_flt : flt (kern s') = flt (kern s)
}.

(* the flags and the oracle *)
Definition fv (s : core) : bool * Z * Z * Z * bool * faults :=
  (pwait2 s, efd_epoll s, efd_raw s, method s, use_raw s, flt (kern s)).

Lemma efd_le_refl : forall f a, efd_le f a a. Proof. left; reflexivity. Qed.
Lemma efd_le_trans : forall f a b c, efd_le f a b -> efd_le f b c -> efd_le f a c.
Proof. unfold efd_le. intros f a b c H1 H2. destruct (no_eventfd f || no_eventfd2 f); intuition lia. Qed.
Lemma method_le_refl : forall f a, method_le f a a. Proof. left; reflexivity. Qed.
Lemma method_le_trans : forall f a b c, method_le f a b -> method_le f b c -> method_le f a c.
Proof.
  unfold method_le, M_ET, M_EP, M_PP, M_PO. intros f a b c H1 H2.
  destruct (no_timerfd f); destruct (no_ppoll f); intuition lia.
Qed.
Lemma pw_le_refl : forall f a, pw_le f a a. Proof. left; reflexivity. Qed.
Lemma pw_le_trans : forall f a b c, pw_le f a b -> pw_le f b c -> pw_le f a c.
Proof.
  unfold pw_le. intros f a b c H1 H2. destruct a, b, c; intuition congruence.
Qed.

Lemma FL_fv : forall s s', fv s' = fv s -> FL s s'.
Proof.
  unfold fv. intros s s' H. inversion H. constructor; try congruence.
  - rewrite H1. apply pw_le_refl.
  - rewrite H2. apply efd_le_refl.
  - rewrite H3. apply efd_le_refl.
  - rewrite H4. apply method_le_refl.
Qed.

Lemma FL_refl : forall s, FL s s.
Proof. intro s. apply FL_fv. reflexivity. Qed.

Lemma FL_trans : forall a b c, FL a b -> FL b c -> FL a c.
Proof.
  intros a b c [A1 A2 A3 A4 A5 A6] [B1 B2 B3 B4 B5 B6]. rewrite A6 in *. constructor; auto.
  - eapply pw_le_trans; eauto.
  - eapply efd_le_trans; eauto.
  - eapply efd_le_trans; eauto.
  - eapply method_le_trans; eauto.
Qed.

(* both outcomes *)
Definition FLr (s : core) (r : res) : Prop := FL s (res_state r).

Lemma FLr_bind : forall s r f, FLr s r -> (forall s1, FL s s1 -> FLr s (f s1)) -> FLr s (bind r f).
Proof. intros s r f H Hf. destruct r as [s1|s1]; simpl; [apply Hf; exact H|exact H]. Qed.

Lemma FLr_bind' : forall s r f, FLr s r -> (forall s1, FLr s1 (f s1)) -> FLr s (bind r f).
Proof.
  intros s r f H Hf. apply FLr_bind; [exact H|]. intros s1 H1. unfold FLr. eapply FL_trans; [exact H1|apply Hf].
Qed.

Lemma FLr_trans : forall a b r, FL a b -> FLr b r -> FLr a r.
Proof. intros a b r H1 H2. unfold FLr in *. eapply FL_trans; eauto. Qed.

Lemma FLr_R : forall s s', FL s s' -> FLr s (R s'). Proof. intros; assumption. Qed.
Lemma FLr_halt : forall s s' e, FL s s' -> FLr s (halt s' e).
Proof. intros s s' e H. unfold FLr, halt. simpl. eapply FL_trans; [exact H|apply FL_fv; reflexivity]. Qed.

(* ---- the virtual kernel never changes its fault oracle ---- *)
Lemma flt_put : forall k fd v, flt (k_put k fd v) = flt k. Proof. reflexivity. Qed.
Lemma flt_alloc : forall k kind, flt (snd (k_alloc k kind)) = flt k. Proof. reflexivity. Qed.

Lemma flt_ctl : forall k op fd ev data, flt (fst (k_epoll_ctl k op fd ev data)) = flt k.
Proof.
  intros. unfold k_epoll_ctl.
  repeat match goal with
         | |- context [if ?c then _ else _] => destruct c
         | |- context [match k_open ?a ?b with _ => _ end] => destruct (k_open a b)
         end; reflexivity.
Qed.

Lemma flt_epoll_sleep : forall k maxev timeout rot,
  match k_epoll_sleep k maxev timeout rot with
  | WReady k1 _ | WEintr k1 => flt k1 = flt k
  | _ => True
  end.
Proof.
  intros. unfold k_epoll_sleep.
  repeat match goal with
         | |- context [match ?x with _ => _ end] =>
             lazymatch x with
             | context [match _ with _ => _ end] => fail
             | _ => destruct x eqn:?
             end
         end; try exact I; try reflexivity.
Qed.

Lemma flt_poll_sleep : forall k pfds timeout,
  match k_poll_sleep k pfds timeout with PReady k1 _ => flt k1 = flt k | PHang => True end.
Proof.
  intros. unfold k_poll_sleep.
  repeat match goal with |- context [if ?c then _ else _] => destruct c end; try exact I; reflexivity.
Qed.

Ltac kcases :=
  repeat match goal with
         | |- context [match ?x with _ => _ end] =>
             lazymatch x with
             | context [match _ with _ => _ end] => fail
             | _ => destruct x eqn:?
             end
         end.

Lemma flt_read : forall k fd c, flt (fst (k_read k fd c)) = flt k.
Proof. intros. unfold k_read. kcases; reflexivity. Qed.
Lemma flt_write : forall k fd c v, flt (fst (k_write k fd c v)) = flt k.
Proof. intros. unfold k_write. kcases; reflexivity. Qed.
Lemma flt_close : forall k fd, flt (fst (k_close k fd)) = flt k.
Proof. intros. unfold k_close. kcases; reflexivity. Qed.
Lemma flt_pipe : forall k, flt (fst (k_pipe k)) = flt k.
Proof. intros. unfold k_pipe. destruct (emfile (flt k)); reflexivity. Qed.
Lemma flt_eventfd : forall k b, flt (fst (k_eventfd k b)) = flt k.
Proof. intros. unfold k_eventfd, k_alloc. kcases; reflexivity. Qed.
Lemma flt_timerfd_create : forall k, flt (fst (k_timerfd_create k)) = flt k.
Proof. intros. unfold k_timerfd_create, k_alloc. kcases; reflexivity. Qed.
Lemma flt_timerfd_settime : forall k fd d, flt (k_timerfd_settime k fd d) = flt k.
Proof. intros. unfold k_timerfd_settime. kcases; reflexivity. Qed.
Lemma flt_set_cond : forall k i c, flt (k_set_cond k i c) = flt k.
Proof. intros. unfold k_set_cond. kcases; reflexivity. Qed.
Lemma flt_user_close : forall k i, flt (k_user_close k i) = flt k.
Proof. intros. unfold k_user_close. kcases; reflexivity. Qed.

(* a state that differs from s in the kernel only (same oracle) and in unflagged fields *)
Lemma FL_kern : forall s k1, flt k1 = flt (kern s) -> FL s (set_kern s k1).
Proof. intros s k1 H. apply FL_fv. unfold fv. cbn. rewrite H. reflexivity. Qed.

(* ---- the descriptor layer (Core/CoreFd.v) touches neither the flags nor the oracle ---- *)
Definition Kr (s : core) (r : res) : Prop := fv (res_state r) = fv s.

Lemma Kr_bind : forall s r f, Kr s r -> (forall s1, Kr s1 (f s1)) -> Kr s (bind r f).
Proof.
  intros s r f H Hf. destruct r as [s1|s1]; simpl; [|exact H]. unfold Kr in *. simpl in H. rewrite <- H. apply Hf.
Qed.
Lemma Kr_trans : forall a b r, fv b = fv a -> Kr b r -> Kr a r.
Proof. unfold Kr. intros. congruence. Qed.
Lemma Kr_FLr : forall s r, Kr s r -> FLr s r.
Proof. intros s r H. apply FL_fv. exact H. Qed.

Lemma fv_kern : forall s k1, flt k1 = flt (kern s) -> fv (set_kern s k1) = fv s.
Proof. intros s k1 H. unfold fv. cbn. rewrite H. reflexivity. Qed.

Lemma fv_ctl_retry : forall s op fd ev data s1 r, ctl_retry s op fd ev data = (s1, r) -> fv s1 = fv s.
Proof.
  intros s op fd ev data s1 r H. unfold ctl_retry in H.
  destruct (k_epoll_ctl (kern s) op fd ev data) as [k1 r1] eqn:E1.
  pose proof (flt_ctl (kern s) op fd ev data) as F1. rewrite E1 in F1. simpl in F1.
  destruct r1 as [e|]; [destruct e|]; try (inversion H; subst; apply fv_kern; exact F1).
  destruct (k_epoll_ctl k1 op fd ev data) as [k2 r2] eqn:E2.
  pose proof (flt_ctl k1 op fd ev data) as F2. rewrite E2 in F2. simpl in F2.
  inversion H; subst. apply fv_kern. congruence.
Qed.

Lemma fv_flush_one_ : forall s k s1 b, epoll_flush_one_ s k = (s1, b) -> fv s1 = fv s.
Proof.
  intros s k s1 b H. unfold epoll_flush_one_ in H.
  match type of H with context [if ?c then _ else _] => destruct c end; [inversion H; reflexivity|].
  match type of H with context [ctl_retry ?a ?b ?c ?d ?e] => destruct (ctl_retry a b c d e) as [s2 r] eqn:E end.
  apply fv_ctl_retry in E. destruct r; inversion H; subst.
  - rewrite E. reflexivity.
  - transitivity (fv s2); [reflexivity|rewrite E; reflexivity].
Qed.

Lemma Kr_flush_one : forall s k, Kr s (epoll_flush_one s k).
Proof.
  intros s k. unfold epoll_flush_one. destruct (epoll_flush_one_ s k) as [s1 b] eqn:E.
  apply fv_flush_one_ in E. destruct b; unfold Kr; simpl; exact E.
Qed.

Lemma Kr_flush_pending : forall fuel s, Kr s (epoll_flush_pending fuel s).
Proof.
  induction fuel as [|f IH]; intro s; simpl; destruct (notify s); try reflexivity.
  apply Kr_bind; [apply Kr_flush_one|apply IH].
Qed.

Lemma fv_epoll_notify : forall s k, fv (epoll_notify_fd s k) = fv s.
Proof. intros. unfold epoll_notify_fd. match goal with |- context [if ?c then _ else _] => destruct c end; reflexivity. Qed.

Lemma Kr_epoll_unregister : forall s k, Kr s (epoll_unregister_fd s k).
Proof. intros. unfold epoll_unregister_fd. destruct (mem_z k (notify s)); [apply Kr_flush_one|reflexivity]. Qed.

Lemma Kr_poll_notify : forall s k, Kr s (poll_notify_fd s k).
Proof.
  intros. unfold poll_notify_fd.
  repeat match goal with
         | |- context [if ?c then _ else _] => destruct c
         | |- context [match nth_z ?a ?b with _ => _ end] => destruct (nth_z a b)
         end; reflexivity.
Qed.

Lemma Kr_m_notify : forall s k, Kr s (m_notify_fd s k).
Proof. intros. unfold m_notify_fd. destruct (is_epoll s); [apply fv_epoll_notify|apply Kr_poll_notify]. Qed.

Lemma Kr_notify : forall s k, Kr s (notify_fd s k).
Proof. intros. unfold notify_fd. eapply Kr_trans; [|apply Kr_m_notify]. reflexivity. Qed.

Lemma fv_prologue : forall s k, fv (register_prologue s k) = fv s.
Proof. intros. unfold register_prologue. destruct (is_epoll s); reflexivity. Qed.

Lemma Kr_fd_register : forall s k, Kr s (fd_register s k).
Proof.
  intros. unfold fd_register. apply Kr_bind; [eapply Kr_trans; [apply fv_prologue|apply Kr_notify]|].
  intro s1. reflexivity.
Qed.

Lemma Kr_fd_unregister : forall s k, Kr s (fd_unregister s k).
Proof.
  intros. unfold fd_unregister. apply Kr_bind; [eapply Kr_trans; [|apply Kr_notify]; reflexivity|].
  intro s1. apply Kr_bind; [destruct (is_epoll s1); [apply Kr_epoll_unregister|reflexivity]|].
  intro s2. unfold Kr. simpl.
  match goal with |- context [match ?x with _ => _ end] => destruct x end; [|reflexivity].
  match goal with |- context [if ?c then _ else _] => destruct c end; reflexivity.
Qed.

Lemma Kr_fd_set_handler : forall s k band h, Kr s (fd_set_handler s k band h).
Proof.
  intros. unfold fd_set_handler. destruct (registered (getfd s k)); [|reflexivity].
  eapply Kr_trans; [|apply Kr_notify]. reflexivity.
Qed.

Lemma Kr_fd_register_try : forall s k, Kr s (fst (fd_register_try s k)).
Proof.
  intros. unfold fd_register_try.
  set (s1 := putfd (register_prologue s k) k (recompute_wanted (getfd (register_prologue s k) k))).
  assert (F1 : fv s1 = fv s) by (unfold s1; rewrite <- (fv_prologue s k); reflexivity).
  clearbody s1. set (orig := wanted (getfd s1 k)). clearbody orig.
  set (s2 := if orig =? 0 then putfd s1 k (fd_with_wanted (getfd s1 k) (M_IN + M_OUT)) else s1).
  assert (F2 : fv s2 = fv s) by (unfold s2; destruct (orig =? 0); rewrite <- F1; reflexivity).
  clearbody s2.
  assert (G : forall r0 fl, (if is_epoll s2 then (let '(s3, fl) := epoll_flush_one_ s2 k in (R s3, fl))
                             else poll_notify_fd_sync s2 k) = (r0, fl) -> Kr s r0).
  { intros r0 fl H. destruct (is_epoll s2).
    - destruct (epoll_flush_one_ s2 k) as [s3 b] eqn:E. apply fv_flush_one_ in E. inversion H; subst.
      unfold Kr. simpl. congruence.
    - unfold poll_notify_fd_sync in H. match type of H with context [if ?c then _ else _] => destruct c end;
        inversion H; subst; [unfold Kr; simpl; exact F2|eapply Kr_trans; [exact F2|apply Kr_poll_notify]]. }
  destruct (if is_epoll s2 then (let '(s3, fl) := epoll_flush_one_ s2 k in (R s3, fl)) else poll_notify_fd_sync s2 k)
    as [r0 fl] eqn:E.
  specialize (G r0 fl eq_refl). destruct fl; simpl.
  - apply Kr_bind; [exact G|]. intro s4.
    match goal with |- context [if ?c then _ else _] => destruct c end;
      [eapply Kr_trans; [|apply Kr_epoll_unregister]; reflexivity|reflexivity].
  - apply Kr_bind; [exact G|]. intro s4. apply Kr_bind; [|intro; reflexivity].
    destruct (orig =? 0); [eapply Kr_trans; [|apply Kr_m_notify]; reflexivity|reflexivity].
Qed.

Lemma fv_make_ready : forall s k b, fv (make_ready s k b) = fv s.
Proof. intros. unfold make_ready. destruct (mem_z k (active s)); reflexivity. Qed.

Lemma fv_activate : forall s k bits, fv (activate s k bits) = fv s.
Proof.
  intros. unfold activate.
  repeat match goal with |- context [if ?c then _ else _] => destruct c end;
    rewrite ?fv_make_ready; reflexivity.
Qed.

(* ---- eventfd_grab: the new value of eventfd_in_use is a function of the oracle, of whether the eventfd
   faults are in effect yet (efd_cut: they start after efd_ok creations), and of the old value ---- *)
Definition grab_flag (f : faults) (cut : bool) (u : Z) : Z :=
  let ne := cut && no_eventfd f in
  let ne2 := cut && no_eventfd2 f in
  let old (u : Z) := if u =? 0 then 0 else if emfile f then u else if ne then 0 else u in
  if u =? 2 then (if emfile f then 2 else if ne || ne2 then old 1 else 2) else old u.

Lemma grab_spec : forall k u k1 r u', eventfd_grab k u = (k1, r, u') ->
  flt k1 = flt k /\ u' = grab_flag (flt k) (efd_cut k) u.
Proof.
  intros k u k1 r u' H. unfold eventfd_grab, k_eventfd, k_alloc, grab_flag in *.
  destruct (efd_cut k) eqn:CUT;
  destruct (u =? 2) eqn:E2; destruct (emfile (flt k)) eqn:EM; destruct (no_eventfd (flt k)) eqn:NE;
    destruct (no_eventfd2 (flt k)) eqn:NE2; destruct (u =? 0) eqn:E0; cbn in H;
    rewrite ?CUT, ?EM, ?NE, ?NE2 in H; cbn in H; inversion H; subst; split; reflexivity.
Qed.

Lemma grab_flag_le : forall f c u, efd_le f (grab_flag f c u) u.
Proof.
  intros f c u. unfold grab_flag, efd_le.
  destruct c; destruct (u =? 2) eqn:E2; destruct (emfile f); destruct (no_eventfd f); destruct (no_eventfd2 f);
    destruct (u =? 0) eqn:E0; cbn; try (left; reflexivity); try (left; lia); right; split; try reflexivity; lia.
Qed.

(* before the cut a grab leaves the flag alone *)
Lemma grab_flag_nocut : forall f u, u = 0 \/ u = 1 \/ u = 2 -> grab_flag f false u = u.
Proof.
  intros f u H. unfold grab_flag. destruct H as [->|[->| ->]]; cbn; destruct (emfile f); reflexivity.
Qed.

(* at a given cut status the write is idempotent *)
Lemma grab_flag_idem : forall f c u, grab_flag f c (grab_flag f c u) = grab_flag f c u.
Proof.
  intros f c u. unfold grab_flag.
  destruct c; destruct (u =? 2) eqn:E2; destruct (emfile f); destruct (no_eventfd f); destruct (no_eventfd2 f);
    destruct (u =? 0) eqn:E0; cbn; rewrite ?E2, ?E0; cbn; try reflexivity; try lia.
Qed.

(* writes made at different cut status compose to the write at the later status, in either order *)
Lemma grab_flag_compose : forall f c1 c2 u, u = 0 \/ u = 1 \/ u = 2 ->
  grab_flag f c2 (grab_flag f c1 u) = grab_flag f (c1 || c2) u.
Proof.
  intros f c1 c2 u H. destruct c1, c2; cbn [orb].
  - apply grab_flag_idem.
  - apply grab_flag_nocut. unfold grab_flag.
    destruct H as [->|[->| ->]]; cbn; destruct (emfile f); destruct (no_eventfd f); destruct (no_eventfd2 f); cbn; tauto.
  - rewrite (grab_flag_nocut f u H). reflexivity.
  - rewrite (grab_flag_nocut f u H). apply grab_flag_nocut. exact H.
Qed.

(* the cut status is one-way: the creation counter only grows *)
Definition nefd_le (k k' : kernel) : Prop := nefd k <= nefd k' /\ flt k' = flt k.

Lemma efd_cut_mono : forall k k', nefd_le k k' -> efd_cut k = true -> efd_cut k' = true.
Proof.
  intros k k' [N F] C. unfold efd_cut in *. rewrite F. apply Z.leb_le. apply Z.leb_le in C. lia.
Qed.

Lemma nefd_eventfd : forall k b, nefd_le k (fst (k_eventfd k b)).
Proof.
  intros k b. unfold k_eventfd, nefd_le. destruct (emfile (flt k)); [cbn; split; [lia|reflexivity]|].
  destruct (efd_cut k && _); cbn; split; try reflexivity; lia.
Qed.

Lemma nefd_grab : forall k u, nefd_le k (fst (fst (eventfd_grab k u))).
Proof.
  intros k u. unfold eventfd_grab.
  assert (OLD : forall k0 u0, nefd_le k k0 ->
    nefd_le k (fst (fst (if negb (u0 =? 0) then
      match k_eventfd k0 false with
      | (k1, inl fd) => (k1, inl fd, u0)
      | (k1, inr e) => if is_enosys e then (k1, @inr Z errno ENOSYS, 0) else (k1, inr e, u0)
      end
    else (k0, inr ENOSYS, 0))))).
  { intros k0 u0 [N0 F0]. destruct (negb (u0 =? 0)); [|split; assumption].
    pose proof (nefd_eventfd k0 false) as [N1 F1].
    destruct (k_eventfd k0 false) as [k1 [fd|e]]; cbn [fst] in *; [split; [lia|congruence]|].
    destruct (is_enosys e); cbn [fst]; split; first [lia|congruence]. }
  destruct (u =? 2).
  - pose proof (nefd_eventfd k true) as [N1 F1].
    destruct (k_eventfd k true) as [k1 [fd|e]]; cbn [fst] in *; [split; [lia|congruence]|].
    destruct (is_enosys e || is_einval e); [apply OLD; split; assumption|cbn [fst]; split; assumption].
  - apply OLD. split; [lia|reflexivity].
Qed.

(* ---- small pieces of Core/CoreModel.v ---- *)
Lemma fv_validate : forall s, fv (validate_now s) = fv s.
Proof. intro s. unfold validate_now. destruct (time_valid s); reflexivity. Qed.
Lemma fv_invalidate : forall s, fv (invalidate_now s) = fv s. Proof. reflexivity. Qed.
Lemma fv_to_relative : forall s abs, fv (fst (to_relative s abs)) = fv s.
Proof. intros. unfold to_relative. destruct abs; simpl; [apply fv_validate|reflexivity]. Qed.
Lemma fv_to_msec : forall s abs, fv (fst (to_msec s abs)) = fv s.
Proof.
  intros. unfold to_msec. pose proof (fv_to_relative s abs) as H.
  destruct (to_relative s abs) as [s1 [r|]]; exact H.
Qed.
Lemma Kr_lift_heap : forall s o, Kr s (lift_heap s o).
Proof. intros. unfold lift_heap. destruct o; reflexivity. Qed.
Lemma fv_task_register : forall s k, fv (task_register s k) = fv s.
Proof.
  intros. unfold task_register. cbn.
  destruct (cur s); [|reflexivity]. match goal with |- context [if ?c then _ else _] => destruct c end; reflexivity.
Qed.
Lemma fv_task_unregister : forall s k, fv (task_unregister s k) = fv s. Proof. reflexivity. Qed.
Lemma fv_do_close : forall s fd, fv (do_close s fd) = fv s.
Proof.
  intros. unfold do_close. pose proof (flt_close (kern s) fd) as F.
  destruct (k_close (kern s) fd) as [k1 ok]. simpl in F. destruct ok; unfold fv; cbn; rewrite F; reflexivity.
Qed.
Lemma fv_raw_post : forall s j, fv (raw_post s j) = fv s.
Proof.
  intros. unfold raw_post.
  destruct (raw_is_pipe s j);
    match goal with |- context [k_write ?a ?b ?c ?d] => pose proof (flt_write a b c d) as F; destruct (k_write a b c d) as [k1 x] end;
    simpl in F; apply fv_kern; exact F.
Qed.
Lemma fv_event_post : forall s j, fv (event_post s j) = fv s.
Proof.
  intros. unfold event_post. destruct (ev_on_list s j); [reflexivity|].
  match goal with |- context [if ?c then _ else _] => destruct c end; [rewrite fv_task_register|]; reflexivity.
Qed.
Lemma Kr_raw_unregister : forall s j, Kr s (raw_unregister s j).
Proof.
  intros. unfold raw_unregister. apply Kr_bind; [apply Kr_fd_unregister|]. intro s1. unfold Kr. simpl.
  destruct (raw_is_pipe (do_close s1 (rw_rfd s1 j)) j).
  - transitivity (fv (do_close s1 (rw_rfd s1 j))); [|apply fv_do_close].
    transitivity (fv (do_close (do_close s1 (rw_rfd s1 j)) (rw_wfd (do_close s1 (rw_rfd s1 j)) j))); [reflexivity|apply fv_do_close].
  - transitivity (fv (do_close s1 (rw_rfd s1 j))); [reflexivity|apply fv_do_close].
Qed.

(* ---- the operations that write a flag ---- *)
Ltac facts :=
  repeat match goal with
  | E : eventfd_grab _ _ = (_, _, _) |- _ => apply grab_spec in E; destruct E
  | E : k_pipe ?k = (_, _) |- _ =>
      let F := fresh "F" in pose proof (flt_pipe k) as F; rewrite E in F; simpl in F; clear E
  | E : k_write ?k ?a ?b ?c = (_, _) |- _ =>
      let F := fresh "F" in pose proof (flt_write k a b c) as F; rewrite E in F; simpl in F; clear E
  | E : k_read ?k ?a ?b = (_, _) |- _ =>
      let F := fresh "F" in pose proof (flt_read k a b) as F; rewrite E in F; simpl in F; clear E
  | E : k_timerfd_create ?k = (_, _) |- _ =>
      let F := fresh "F" in pose proof (flt_timerfd_create k) as F; rewrite E in F; simpl in F; clear E
  | E : ctl_retry _ _ _ _ _ = (_, _) |- _ => apply fv_ctl_retry in E
  | E : fd_register ?s ?k = _ |- _ =>
      let F := fresh "F" in pose proof (Kr_fd_register s k) as F; rewrite E in F; unfold Kr in F; simpl in F; clear E
  end.

Ltac fvs :=
  unfold fv;
  cbn [pwait2 efd_epoll efd_raw method use_raw kern trace
       set_fdt set_active set_handled set_numfds set_last_abs set_method set_notify set_epoll set_efd
       set_activewr set_activefd set_poll set_quit set_numobjs set_heap set_time set_tasks set_epoch
       set_evlists set_ev set_rw set_kern set_trace set_invoc emit putfd].

(* iv_event_raw_register: eventfd_in_use of iv_event_raw_posix.c becomes grab_flag(oracle, old
   value); nothing else moves *)
Lemma raw_register_fv : forall s j,
  fv (res_state (fst (raw_register s j))) =
  (pwait2 s, efd_epoll s, grab_flag (flt (kern s)) (efd_cut (kern s)) (efd_raw s), method s, use_raw s, flt (kern s)).
Proof.
  intros s j. unfold raw_register. cbv zeta.
  set (tgt := (pwait2 s, efd_epoll s, grab_flag (flt (kern s)) (efd_cut (kern s)) (efd_raw s), method s, use_raw s, flt (kern s))).
  assert (T : forall s1 (got : option (Z * Z)), fv s1 = tgt ->
    fv (res_state (fst (match got with
        | None => (R s1, true)
        | Some (rfd, wfd) =>
            (bind (fd_register (putfd s1 (RAW_KEY j) (fd_with_handlers (fd_fresh rfd (1000 + j)) (Some (H_RAW j)) None None))
                               (RAW_KEY j))
                  (fun s0 => R (set_rw s0 (upd (rw_reg s0) j true) (upd (rw_rfd s0) j rfd) (upd (rw_wfd s0) j wfd))), false)
        end))) = tgt).
  { intros s1 got H1. destruct got as [[rfd wfd]|]; [|exact H1]. cbn [fst]. rewrite <- H1.
    apply (Kr_bind s1); [eapply Kr_trans; [|apply Kr_fd_register]; reflexivity|intro; reflexivity]. }
  assert (T2 : forall s1 (got : option (Z * Z)), fv s1 = tgt ->
    fv (res_state (fst (
      let '(s2, got2, failed2) :=
        match got with
        | Some p => (s1, Some p, false)
        | None =>
            if efd_raw s1 =? 0 then
              match k_pipe (kern s1) with
              | (k1, Some (r, w)) => (set_kern s1 k1, Some (r, w), false)
              | (k1, None) => (set_kern s1 k1, None, true)
              end
            else (s1, None, true)
        end in
      match got2 with
      | None => (R s2, true)
      | Some (rfd, wfd) =>
          (bind (fd_register (putfd s2 (RAW_KEY j) (fd_with_handlers (fd_fresh rfd (1000 + j)) (Some (H_RAW j)) None None))
                             (RAW_KEY j))
                (fun s0 => R (set_rw s0 (upd (rw_reg s0) j true) (upd (rw_rfd s0) j rfd) (upd (rw_wfd s0) j wfd))), false)
      end))) = tgt).
  { intros s1 got H1. destruct got as [p0|]; [apply (T s1 (Some p0) H1)|].
    destruct (efd_raw s1 =? 0); [|apply (T s1 None H1)].
    pose proof (flt_pipe (kern s1)) as F. destruct (k_pipe (kern s1)) as [k1 [[r w]|]]; simpl in F.
    - apply (T (set_kern s1 k1) (Some (r, w))). rewrite <- H1. apply fv_kern. exact F.
    - apply (T (set_kern s1 k1) None). rewrite <- H1. apply fv_kern. exact F. }
  destruct (negb (efd_raw s =? 0)) eqn:E0.
  - destruct (eventfd_grab (kern s) (efd_raw s)) as [[k1 r] u] eqn:G. apply grab_spec in G. destruct G as [F U].
    assert (H1 : fv (set_efd (set_kern s k1) (efd_epoll s) u) = tgt).
    { unfold tgt. fvs. rewrite F, U. reflexivity. }
    destruct r as [fd|e]; cbv beta iota.
    + apply (T2 _ (Some (fd, fd)) H1).
    + destruct (negb (is_enosys e)); [exact H1|apply (T2 _ None H1)].
  - cbv beta iota. apply (T2 s None). unfold tgt. apply negb_false_iff in E0. apply Z.eqb_eq in E0.
    rewrite E0. unfold fv. rewrite E0. reflexivity.
Qed.

Lemma FL_efd : forall s s' e1 e2,
  fv s' = (pwait2 s, e1, e2, method s, use_raw s, flt (kern s)) ->
  efd_le (flt (kern s)) e1 (efd_epoll s) -> efd_le (flt (kern s)) e2 (efd_raw s) -> FL s s'.
Proof.
  intros s s' e1 e2 H L1 L2. unfold fv in H. inversion H. constructor; try congruence.
  - rewrite H1. apply pw_le_refl.
  - rewrite H4. apply method_le_refl.
Qed.

Lemma FLr_raw_register : forall s j, FLr s (fst (raw_register s j)).
Proof.
  intros. unfold FLr. eapply FL_efd; [apply raw_register_fv|apply efd_le_refl|apply grab_flag_le].
Qed.

(* iv_fd_epoll_event_rx_on: eventfd_in_use of iv_fd_epoll.c becomes grab_flag(oracle, old value)
   when the shared kick descriptor is created; nothing else moves *)
Lemma rx_on_fv : forall s,
  fv (res_state (fst (event_rx_on s))) =
  (pwait2 s, (if active_ref s =? 0 then grab_flag (flt (kern s)) (efd_cut (kern s)) (efd_epoll s) else efd_epoll s),
   efd_raw s, method s, use_raw s, flt (kern s)).
Proof.
  intros s. unfold event_rx_on. cbv zeta.
  set (tgt := (pwait2 s, (if active_ref s =? 0 then grab_flag (flt (kern s)) (efd_cut (kern s)) (efd_epoll s) else efd_epoll s),
               efd_raw s, method s, use_raw s, flt (kern s))).
  assert (T : forall r, fv (res_state r) = tgt ->
    fv (res_state (fst (match r with
      | Halt s0 => (Halt s0, true)
      | R s0 =>
          let '(s1, e) := ctl_retry (set_activefd s0 (active_fd s0) (active_ref s0 + 1)) CTL_ADD
                                    (active_fd (set_activefd s0 (active_fd s0) (active_ref s0 + 1))) 0 (-1) in
          match e with
          | None => (R (set_numobjs s1 (numobjs s1 + 1)), false)
          | Some _ => (R s1, true)
          end
      end))) = tgt).
  { intros r H. destruct r as [s0|s0]; [|exact H]. simpl in H.
    match goal with |- context [ctl_retry ?a ?b ?c ?d ?e] => destruct (ctl_retry a b c d e) as [s1 e1] eqn:E end.
    apply fv_ctl_retry in E. destruct e1; cbn [fst res_state]; rewrite <- H;
      (transitivity (fv s1); [reflexivity|rewrite E; reflexivity]). }
  apply T. destruct (active_ref s =? 0) eqn:E0; [|reflexivity].
  destruct (eventfd_grab (kern s) (efd_epoll s)) as [[k1 r] u] eqn:G. apply grab_spec in G. destruct G as [F U].
  destruct r as [fd|e].
  - pose proof (flt_write k1 fd 8 1) as F2. destruct (k_write k1 fd 8 1) as [k2 x]. simpl in F2.
    cbn [res_state]. unfold tgt. fvs. rewrite F2, F, U. reflexivity.
  - fvs. pose proof (flt_pipe k1) as F2. destruct (k_pipe k1) as [k2 [[r w]|]]; simpl in F2.
    + pose proof (flt_write k2 w 1 0) as F3. destruct (k_write k2 w 1 0) as [k3 wr]. simpl in F3.
      destruct wr; unfold halt; cbn [res_state]; unfold tgt; fvs; rewrite F3, F2, F, U; reflexivity.
    + unfold halt; cbn [res_state]; unfold tgt; fvs; rewrite F2, F, U; reflexivity.
Qed.

Lemma FLr_rx_on : forall s, FLr s (fst (event_rx_on s)).
Proof.
  intros. unfold FLr. eapply FL_efd; [apply rx_on_fv| |apply efd_le_refl].
  destruct (active_ref s =? 0); [apply grab_flag_le|apply efd_le_refl].
Qed.

Lemma Kr_rx_off : forall s, Kr s (event_rx_off s).
Proof.
  intros. unfold event_rx_off.
  match goal with |- context [ctl_retry ?a ?b ?c ?d ?e] => destruct (ctl_retry a b c d e) as [s1 e1] eqn:E end.
  apply fv_ctl_retry in E. destruct e1; [unfold Kr, halt; simpl; rewrite <- E; reflexivity|].
  unfold Kr. cbn [res_state]. rewrite <- E.
  set (s2 := set_activefd s1 (active_fd s1) (active_ref s1 - 1)).
  assert (F2 : fv s2 = fv s1) by reflexivity. rewrite <- F2. clearbody s2.
  destruct (active_ref s2 =? 0); [|reflexivity].
  destruct (active_wr (do_close s2 (active_fd s2)) =? -1).
  - transitivity (fv (do_close s2 (active_fd s2))); [reflexivity|apply fv_do_close].
  - transitivity (fv (do_close (do_close s2 (active_fd s2)) (active_wr (do_close s2 (active_fd s2)))));
      [reflexivity|rewrite fv_do_close; apply fv_do_close].
Qed.

(* iv_event_register: iv_event_use_event_raw is only ever set (to 1) *)
Lemma er_tail : forall s1 j,
  FLr s1 (fst (let '(r, failed) :=
                 if use_raw s1 then
                   match raw_register s1 KICK_RAW with
                   | (R s2, true) =>
                       (R (set_numobjs (set_ev s2 (ev_count s2 - 1) (ev_reg s2) (use_raw s2)) (numobjs s2 - 1)), true)
                   | (r2, fl) => (r2, fl)
                   end
                 else (R s1, false) in
               if failed then (r, true)
               else (bind r (fun s => R (set_ev s (ev_count s) (upd (ev_reg s) j true) (use_raw s))), false))).
Proof.
  intros s1 j. destruct (use_raw s1).
  - pose proof (FLr_raw_register s1 KICK_RAW) as X. destruct (raw_register s1 KICK_RAW) as [[s2|s2] b]; simpl in X;
      destruct b; cbn [fst bind]; unfold FLr in *; cbn [res_state] in *;
      try exact X; (eapply FL_trans; [exact X|apply FL_fv; reflexivity]).
  - cbn [fst bind]. apply FL_fv. reflexivity.
Qed.

Lemma FL_set_use_raw : forall s c r, FL s (set_ev s c r true).
Proof.
  intros. constructor; cbn; try (intros; assumption); try apply efd_le_refl; try apply method_le_refl;
    try apply pw_le_refl; auto.
Qed.

Lemma FLr_event_register : forall s j, FLr s (fst (event_register s j)).
Proof.
  intros s j. unfold event_register.
  set (s0 := set_ev (set_numobjs s (numobjs s + 1)) (ev_count (set_numobjs s (numobjs s + 1)) + 1)
                    (ev_reg (set_numobjs s (numobjs s + 1))) (use_raw (set_numobjs s (numobjs s + 1)))).
  assert (F0 : FL s s0) by (apply FL_fv; reflexivity).
  eapply FLr_trans; [exact F0|]. clearbody s0. cbv zeta.
  destruct (ev_count (set_numobjs s (numobjs s + 1)) =? 0).
  - destruct (negb (use_raw s0)).
    + destruct (is_epoll s0).
      * pose proof (FLr_rx_on s0) as X. destruct (event_rx_on s0) as [[s1|s1] b]; unfold FLr in X; simpl in X.
        { destruct b; cbv beta iota.
          - eapply FLr_trans; [eapply FL_trans; [exact X|apply (FL_set_use_raw s1)]|]. apply er_tail.
          - eapply FLr_trans; [exact X|]. apply er_tail. }
        { cbv beta iota. cbn [fst bind]. exact X. }
      * cbv beta iota. eapply FLr_trans; [apply (FL_set_use_raw s0)|]. apply er_tail.
    + cbv beta iota. apply er_tail.
  - cbv beta iota. cbn [fst bind]. apply FL_fv. reflexivity.
Qed.

Lemma FLr_event_unregister : forall s j, FLr s (event_unregister s j).
Proof.
  intros s j. unfold event_unregister. cbv zeta.
  match goal with |- FLr s (bind (if ?c then _ else _) _) => destruct c end.
  - match goal with |- FLr s (bind (if ?c then _ else _) _) => destruct c end;
      (apply FLr_bind'; [apply Kr_FLr; eapply Kr_trans; [|first [apply Kr_raw_unregister|apply Kr_rx_off]]; reflexivity
                        |intro; apply FL_fv; reflexivity]).
  - cbn [bind]. apply FL_fv. reflexivity.
Qed.

(* ---- every action of a handler script ---- *)
Lemma FLr_Kr_emit : forall s e r, Kr (emit s e) r -> FLr s r.
Proof. intros s e r H. apply Kr_FLr. eapply Kr_trans; [|exact H]. reflexivity. Qed.

Lemma FLr_emit : forall s e r, FLr (emit s e) r -> FLr s r.
Proof. intros s e r H. eapply FLr_trans; [|exact H]. apply FL_fv. reflexivity. Qed.

Lemma FLr_keep : forall s s', fv s' = fv s -> FLr s (R s').
Proof. intros. apply FL_fv. assumption. Qed.

Lemma FLr_do_action : forall s a, FLr s (do_action s a).
Proof.
  intros s a. unfold do_action. cbv zeta. destruct a.
  - (* AFdReg *) destruct (registered (getfd s i)); [apply FL_refl|].
    destruct (k_open (kern s) (fdnum (getfd s i))); [|apply FL_refl]. eapply FLr_Kr_emit. apply Kr_fd_register.
  - (* AFdTry *) destruct (registered (getfd s i)); [apply FL_refl|].
    pose proof (Kr_fd_register_try (emit s (TAct (AFdTry i))) i) as X.
    destruct (fd_register_try (emit s (TAct (AFdTry i))) i) as [r f]. simpl in X.
    apply FLr_bind'; [eapply FLr_Kr_emit; exact X|intro; apply FLr_keep; reflexivity].
  - destruct (registered (getfd s i)); [|apply FL_refl]. eapply FLr_Kr_emit. apply Kr_fd_unregister.
  - eapply FLr_Kr_emit. apply Kr_fd_set_handler.
  - apply FLr_keep. reflexivity.
  - destruct (registered (getfd s i)); [apply FL_refl|apply FLr_keep; reflexivity].
  - apply FLr_keep. unfold fv. cbn. rewrite flt_set_cond. reflexivity.
  - destruct (registered (getfd s i)); [apply FL_refl|]. apply FLr_keep. unfold fv. cbn. rewrite flt_user_close. reflexivity.
  - apply FLr_keep. reflexivity.
  - destruct (timer_registered s j); [apply FL_refl|]. eapply FLr_Kr_emit. apply Kr_lift_heap.
  - destruct (timer_registered s j); [apply FL_refl|].
    eapply FLr_trans; [apply FL_fv; apply (fv_validate s)|]. eapply FLr_Kr_emit. apply Kr_lift_heap.
  - destruct (timer_registered s j); [|apply FL_refl]. eapply FLr_Kr_emit. apply Kr_lift_heap.
  - destruct (timer_registered s j); [apply FL_refl|apply FLr_keep; reflexivity].
  - destruct (task_registered s j); [apply FL_refl|]. apply FLr_keep. rewrite fv_task_register. reflexivity.
  - destruct (task_registered s j); [|apply FL_refl]. apply FLr_keep. reflexivity.
  - destruct (task_registered s j); [apply FL_refl|apply FLr_keep; reflexivity].
  - (* AEvReg *) destruct (ev_reg s j); [apply FL_refl|].
    pose proof (FLr_event_register (emit s (TAct (AEvReg j))) j) as X.
    destruct (event_register (emit s (TAct (AEvReg j))) j) as [r f]. simpl in X.
    apply FLr_bind'; [eapply FLr_emit; exact X|intro; apply FLr_keep; reflexivity].
  - destruct (ev_reg s j); [|apply FL_refl]. eapply FLr_emit. apply FLr_event_unregister.
  - destruct (ev_reg s j); [|apply FL_refl]. apply FLr_keep. rewrite fv_event_post. reflexivity.
  - destruct (ev_reg s j); [apply FL_refl|apply FLr_keep; reflexivity].
  - (* ARwReg *) destruct (rw_reg s j); [apply FL_refl|].
    pose proof (FLr_raw_register (emit s (TAct (ARwReg j))) j) as X.
    destruct (raw_register (emit s (TAct (ARwReg j))) j) as [r f]. simpl in X.
    apply FLr_bind'; [eapply FLr_emit; exact X|intro; apply FLr_keep; reflexivity].
  - destruct (rw_reg s j); [|apply FL_refl]. eapply FLr_Kr_emit. apply Kr_raw_unregister.
  - destruct (rw_reg s j); [|apply FL_refl]. apply FLr_keep. rewrite fv_raw_post. reflexivity.
  - destruct (rw_reg s j); [apply FL_refl|apply FLr_keep; reflexivity].
  - apply FLr_keep. reflexivity.
  - apply FLr_keep. reflexivity.
  - apply FLr_keep. reflexivity.
  - apply FLr_keep. rewrite fv_validate. reflexivity.
Qed.

Lemma FLr_run_acts : forall l s, FLr s (run_acts s l).
Proof.
  induction l as [|a l IH]; intro s; simpl; [apply FL_refl|]. apply FLr_bind'; [apply FLr_do_action|apply IH].
Qed.

(* ---- handler scripts, events, descriptors, timers, tasks ---- *)
Section WithScenario.
Variable sc : scenario.

Lemma FLr_run_script : forall s key, FLr s (run_script sc s key).
Proof.
  intros. unfold run_script. destruct (sc_handlers sc key); [apply FL_refl|].
  eapply FLr_trans; [|apply FLr_run_acts]. apply FL_fv. reflexivity.
Qed.

Lemma FLr_events_loop : forall fuel s, FLr s (events_loop sc fuel s).
Proof.
  induction fuel as [|f IH]; intro s; cbn [events_loop]; destruct (ev_batch s) as [|ie rest]; try apply FL_refl.
  - apply FLr_halt. apply FL_refl.
  - apply FLr_bind'.
    + eapply FLr_trans; [|apply FLr_run_script]. apply FL_fv. reflexivity.
    + intro s1. destruct rest; [apply FL_refl|apply IH].
Qed.

Lemma FLr_run_pending : forall s, FLr s (run_pending_events sc s).
Proof.
  intros. unfold run_pending_events. destruct (ev_pending s); [apply FL_refl|].
  eapply FLr_trans; [|apply FLr_events_loop]. apply FL_fv. reflexivity.
Qed.

Lemma FLr_raw_got_event : forall s j, FLr s (raw_got_event sc s j).
Proof.
  intros. unfold raw_got_event. cbv zeta.
  match goal with |- context [k_read ?a ?b ?c] => pose proof (flt_read a b c) as F; destruct (k_read a b c) as [k1 x] end.
  simpl in F. destruct x as [n|e].
  - destruct (n =? 0); [apply FLr_halt; apply FL_kern; exact F|].
    destruct (j =? KICK_RAW).
    + eapply FLr_trans; [apply FL_kern; exact F|apply FLr_run_pending].
    + eapply FLr_trans; [apply FL_kern; exact F|]. eapply FLr_emit. apply FLr_run_script.
  - destruct e; try (apply FLr_halt; apply FL_kern; exact F). apply FL_kern. exact F.
Qed.

Lemma FLr_call_fd : forall s k band h, FLr s (call_fd sc s k band h).
Proof.
  intros. unfold call_fd. destruct h as [hid|]; [|apply FL_refl].
  destruct (1000 <=? hid); [apply FLr_raw_got_event|eapply FLr_emit; apply FLr_run_script].
Qed.

Lemma FLr_dispatch_active : forall fuel s, FLr s (dispatch_active sc fuel s).
Proof.
  induction fuel as [|f IH]; intro s; cbn [dispatch_active]; destruct (active s) as [|k rest]; try apply FL_refl.
  - apply FLr_halt. apply FL_refl.
  - eapply (FLr_trans s (set_handled (set_active s rest) (Some k))); [apply FL_fv; reflexivity|].
    apply FLr_bind'.
    { match goal with |- context [if ?c then _ else _] => destruct c end; [apply FLr_call_fd|apply FL_refl]. }
    intro s1. apply FLr_bind'.
    { destruct (handled s1); [|apply FL_refl].
      match goal with |- context [if ?c then _ else _] => destruct c end; [apply FLr_call_fd|apply FL_refl]. }
    intro s2. apply FLr_bind'; [|apply IH].
    destruct (handled s2); [|apply FL_refl].
    match goal with |- context [if ?c then _ else _] => destruct c end; [apply FLr_call_fd|apply FL_refl].
Qed.

Lemma FLr_timers_dispatch : forall fuel s, FLr s (timers_dispatch sc fuel s).
Proof.
  induction fuel as [|f IH]; intro s; cbn [timers_dispatch]; destruct (HeapModel.batch (heap s)) as [|t rest]; try apply FL_refl.
  - apply FLr_halt. apply FL_refl.
  - apply FLr_bind'; [|apply IH].
    eapply FLr_trans; [|eapply FLr_emit; apply FLr_run_script].
    apply FL_fv. rewrite fv_validate. reflexivity.
Qed.

Lemma FLr_run_timers : forall s, FLr s (run_timers sc s).
Proof.
  intros. unfold run_timers. destruct (HeapModel.num (heap s) =? 0); [apply FL_refl|]. cbv zeta.
  eapply FLr_trans; [apply FL_fv; apply (fv_validate s)|].
  apply FLr_bind'; [apply Kr_FLr; apply Kr_lift_heap|intro; apply FLr_timers_dispatch].
Qed.

Lemma FLr_tasks_loop : forall fuel s, FLr s (tasks_loop sc fuel s).
Proof.
  induction fuel as [|f IH]; intro s; cbn [tasks_loop]; destruct (cur s) as [[|k rest]|]; try apply FL_refl;
    try (apply FLr_keep; reflexivity).
  apply FLr_bind'; [|apply IH].
  destruct (k =? LOCAL_TASK).
  - eapply FLr_trans; [|apply FLr_run_pending]. apply FL_fv. reflexivity.
  - eapply FLr_trans; [|eapply FLr_emit; apply FLr_run_script]. apply FL_fv. reflexivity.
Qed.

Lemma FLr_run_tasks : forall s, FLr s (run_tasks sc s).
Proof. intros. unfold run_tasks. cbv zeta. eapply FLr_trans; [|apply FLr_tasks_loop]. apply FL_fv. reflexivity. Qed.

Lemma FLr_wait_enter : forall s, FLr s (wait_enter sc s).
Proof.
  intros. unfold wait_enter. cbv zeta. destruct (sc_limit sc <? nwait (kern s) + 1); [apply FLr_halt; apply FL_refl|].
  eapply FLr_trans; [|apply FLr_run_acts]. apply FL_kern. reflexivity.
Qed.

(* ---- the kernel waits ---- *)
Definition FLw (s : core) (w : wres) : Prop :=
  match w with WR s1 _ | WE s1 => FL s s1 | WH r => FLr s r end.

Lemma FLw_trans : forall a b w, FL a b -> FLw b w -> FLw a w.
Proof.
  intros a b w H1 H2. destruct w; cbn [FLw] in *; [eapply FL_trans; eauto|eapply FL_trans; eauto|eapply FLr_trans; eauto].
Qed.

Lemma FLw_do_epoll_wait : forall s call maxev timeout, FLw s (do_epoll_wait sc s call maxev timeout).
Proof.
  intros. unfold do_epoll_wait. pose proof (FLr_wait_enter s) as X.
  destruct (wait_enter sc s) as [s1|s1]; [|exact X]. unfold FLr in X. simpl in X. cbv zeta.
  eapply FLw_trans; [exact X|]. clear X.
  set (s2 := emit s1 (TWait (nwait (kern s1)) call maxev timeout (interest_of (kern s1)) (ground (kern s1)))).
  assert (F2 : FL s1 s2) by (apply FL_fv; reflexivity). eapply FLw_trans; [exact F2|]. clearbody s2.
  destruct (mem_z (nwait (kern s1)) (eintr_waits (flt (kern s2)))).
  - cbn [FLw]. destruct (0 <? timeout); apply FL_fv; reflexivity.
  - pose proof (flt_epoll_sleep (kern s2) maxev timeout (sc_rot sc (nwait (kern s1)))) as F.
    destruct (k_epoll_sleep (kern s2) maxev timeout (sc_rot sc (nwait (kern s1)))) as [k1 evs|k1| |]; cbn [FLw].
    + eapply FL_trans; [apply FL_kern; exact F|apply FL_fv; reflexivity].
    + apply FL_kern. exact F.
    + apply FLr_halt. apply FL_refl.
    + apply FLr_halt. apply FL_refl.
Qed.

(* iv_fd_epoll_wait: epoll_pwait2_support is cleared exactly here, and only on ENOSYS / EPERM *)
Lemma FL_clear_pwait2 : forall s, pwait2 s = true ->
  no_pwait2 (flt (kern s)) || perm_pwait2 (flt (kern s)) = true -> FL s (set_epoll s (epfd s) (tfd s) false).
Proof.
  intros s P O. constructor; cbn; try apply efd_le_refl; try apply method_le_refl; auto.
  right. auto.
Qed.

Lemma FLw_epoll_wait_m : forall s abs maxev, FLw s (epoll_wait_m sc s abs maxev).
Proof.
  intros. unfold epoll_wait_m. cbv zeta.
  assert (V : forall s0, FLw s0 (let '(s1, ms) := to_msec s0 abs in
                                  do_epoll_wait sc s1 0 maxev (if ms <? 0 then -1 else ms * 1000000))).
  { intro s0. pose proof (fv_to_msec s0 abs) as F. destruct (to_msec s0 abs) as [s1 ms]. simpl in F.
    eapply FLw_trans; [apply FL_fv; exact F|apply FLw_do_epoll_wait]. }
  destruct (pwait2 s) eqn:P; [|apply V].
  pose proof (fv_to_relative s abs) as F. destruct (to_relative s abs) as [s1 rel]. simpl in F.
  eapply FLw_trans; [apply FL_fv; exact F|].
  destruct (no_pwait2 (flt (kern s1)) || perm_pwait2 (flt (kern s1))) eqn:O.
  - eapply FLw_trans; [|apply V]. apply FL_clear_pwait2; [|exact O].
    unfold fv in F. inversion F. congruence.
  - apply FLw_do_epoll_wait.
Qed.

Lemma fv_epoll_process : forall evs s re tm, fv (fst (fst (epoll_process s evs re tm))) = fv s.
Proof.
  induction evs as [|[[a bits] data] evs IH]; intros s re tm; cbn [epoll_process]; [reflexivity|].
  destruct (data =? -1); [apply IH|].
  destruct ((data =? -2) && (method s =? M_ET)); [apply IH|]. rewrite IH. apply fv_activate.
Qed.

Lemma FLr_epoll_poll : forall s abs, FLr s (fst (epoll_poll sc s abs)).
Proof.
  intros. unfold epoll_poll. cbv zeta.
  pose proof (Kr_flush_pending (S (length (notify s))) s) as X.
  destruct (epoll_flush_pending (S (length (notify s))) s) as [s1|s1]; [|apply Kr_FLr; exact X].
  unfold Kr in X. simpl in X. eapply FLr_trans; [apply FL_fv; exact X|]. clear X.
  match goal with |- context [epoll_wait_m sc s1 abs ?m] =>
    pose proof (FLw_epoll_wait_m s1 abs m) as W; destruct (epoll_wait_m sc s1 abs m) as [s2 evs|s2|r] end;
    simpl in W; cbn [fst].
  - eapply FLr_trans; [exact W|].
    pose proof (fv_epoll_process evs (invalidate_now s2) false false) as F.
    destruct (epoll_process (invalidate_now s2) evs false false) as [[s3 re] tm]. simpl in F. cbn [fst].
    eapply FLr_trans; [apply FL_fv; rewrite F; reflexivity|].
    apply FLr_bind'.
    + destruct tm; [|apply FL_refl].
      pose proof (flt_read (kern s3) (tfd s3) 8) as F3. destruct (k_read (kern s3) (tfd s3) 8) as [k1 x]. simpl in F3.
      destruct x; [apply FL_kern; exact F3|apply FLr_halt; apply FL_kern; exact F3].
    + intro s4. destruct re; [apply FLr_run_pending|apply FL_refl].
  - eapply FL_trans; [exact W|apply FL_fv; reflexivity].
  - exact W.
Qed.

Lemma fv_poll_activate : forall keys revs s, fv (poll_activate s keys revs) = fv s.
Proof.
  induction keys as [|k keys IH]; intros revs s; cbn [poll_activate]; [reflexivity|].
  destruct revs as [|r revs]; [reflexivity|]. rewrite IH. apply fv_activate.
Qed.

Lemma FLr_do_poll_wait : forall s call timeout, FLr s (fst (do_poll_wait sc s call timeout)).
Proof.
  intros. unfold do_poll_wait. pose proof (FLr_wait_enter s) as X.
  destruct (wait_enter sc s) as [s1|s1]; [|exact X]. unfold FLr in X. cbn [res_state] in X. cbv zeta.
  eapply FLr_trans; [exact X|]. clear X.
  match goal with |- context [emit s1 ?e] => set (s2 := emit s1 e) end.
  assert (F2 : FL s1 s2) by (apply FL_fv; reflexivity). eapply FLr_trans; [exact F2|]. clearbody s2.
  destruct (mem_z (nwait (kern s1)) (eintr_waits (flt (kern s2)))).
  - cbn [fst]. destruct (0 <? timeout); apply FLr_keep; reflexivity.
  - pose proof (flt_poll_sleep (kern s2) (pfds s2) timeout) as F.
    destruct (k_poll_sleep (kern s2) (pfds s2) timeout) as [k1 revs|]; cbn [fst].
    + apply FLr_keep. rewrite fv_poll_activate. unfold fv. cbn. rewrite F. reflexivity.
    + apply FLr_halt. apply FL_refl.
Qed.

(* iv_fd_poll_ppoll: the method is switched ppoll -> poll here, and only on ENOSYS *)
Lemma FL_ppoll_to_poll : forall s, method s = M_PP -> no_ppoll (flt (kern s)) = true ->
  FL s (set_method (invalidate_now s) M_PO).
Proof.
  intros s M O. constructor; cbn; try apply efd_le_refl; try apply pw_le_refl; auto.
  right. right. auto.
Qed.

Lemma FLr_poll_poll : forall s abs, FLr s (fst (poll_poll sc s abs)).
Proof.
  intros. unfold poll_poll. cbv zeta.
  assert (V : forall s0, FLr s0 (fst (let '(s1, ms) := to_msec s0 abs in
                                       do_poll_wait sc s1 2 (if ms <? 0 then -1 else ms * 1000000)))).
  { intro s0. pose proof (fv_to_msec s0 abs) as F. destruct (to_msec s0 abs) as [s1 ms]. cbn [fst] in F.
    eapply FLr_trans; [apply FL_fv; exact F|apply FLr_do_poll_wait]. }
  destruct (method s =? M_PP) eqn:M; [|apply V]. apply Z.eqb_eq in M.
  pose proof (fv_to_relative s abs) as F. destruct (to_relative s abs) as [s1 rel]. cbn [fst] in F.
  eapply FLr_trans; [apply FL_fv; exact F|].
  destruct (no_ppoll (flt (kern s1))) eqn:O.
  - eapply FLr_trans; [|apply V]. apply FL_ppoll_to_poll; [|exact O]. unfold fv in F. inversion F. congruence.
  - apply FLr_do_poll_wait.
Qed.

Lemma FLr_m_poll : forall s abs, FLr s (fst (m_poll sc s abs)).
Proof. intros. unfold m_poll. destruct (is_epoll s); [apply FLr_epoll_poll|apply FLr_poll_poll]. Qed.

Lemma fv_tfd_settime : forall s d, fv (tfd_settime s d) = fv s.
Proof. intros. unfold tfd_settime, fv. cbn. rewrite flt_timerfd_settime. reflexivity. Qed.

(* iv_fd_epoll_timerfd_set_poll_timeout: the method is switched epoll-timerfd -> epoll here, and
   only when timerfd_create fails, which it does iff the oracle has no timerfd *)
Lemma FLr_set_poll_timeout : forall s a, method s = M_ET -> FLr s (fst (set_poll_timeout s a)).
Proof.
  intros s a M. unfold set_poll_timeout. cbv zeta.
  destruct (tfd s =? -1).
  - destruct (k_timerfd_create (kern s)) as [k1 [fd|e]] eqn:E.
    + pose proof (flt_timerfd_create (kern s)) as F. rewrite E in F. cbn [fst] in F.
      match goal with |- context [ctl_retry ?a ?b ?c ?d ?e] => destruct (ctl_retry a b c d e) as [s1 r] eqn:C end.
      apply fv_ctl_retry in C.
      assert (F1 : FL s s1).
      { apply FL_fv. rewrite C. unfold fv. cbn. rewrite F. reflexivity. }
      destruct r; cbn [fst].
      * apply FLr_halt. exact F1.
      * eapply FLr_trans; [exact F1|]. apply FLr_keep. apply fv_tfd_settime.
    + cbn [fst]. unfold FLr. cbn [res_state].
      assert (O : no_timerfd (flt (kern s)) = true).
      { unfold k_timerfd_create in E. destruct (no_timerfd (flt (kern s))); [reflexivity|].
        unfold k_alloc in E. cbn in E. discriminate E. }
      assert (F : k1 = kern s).
      { unfold k_timerfd_create in E. rewrite O in E. inversion E. reflexivity. }
      subst k1. constructor; cbn; try apply efd_le_refl; try apply pw_le_refl; auto.
      right. left. auto.
  - cbn [fst]. apply FLr_keep. apply fv_tfd_settime.
Qed.

Lemma FLr_timeout_check : forall s abs, method s = M_ET -> FLr s (fst (timeout_check s abs)).
Proof.
  intros s abs M. unfold timeout_check. cbv zeta.
  match goal with |- context [if ?c then (R s, true) else _] => destruct c end; [apply FL_refl|].
  set (s1 := if last_abs_count s =? 5 then tfd_settime s 0 else s).
  assert (F1 : fv s1 = fv s) by (unfold s1; destruct (last_abs_count s =? 5); [apply fv_tfd_settime|reflexivity]).
  clearbody s1.
  destruct (abs_cmp abs (last_abs s) =? 0).
  - set (s2 := if last_abs_count s1 <? 5 then set_last_abs s1 (last_abs s1) (last_abs_count s1 + 1) else s1).
    assert (F2 : fv s2 = fv s) by (unfold s2; destruct (last_abs_count s1 <? 5); rewrite <- F1; reflexivity).
    clearbody s2.
    destruct (last_abs_count s2 =? 5); [|cbn [fst]; apply FLr_keep; exact F2].
    destruct abs as [a|]; [|cbn [fst]; apply FLr_keep; exact F2].
    eapply FLr_trans; [apply FL_fv; exact F2|]. apply FLr_set_poll_timeout.
    unfold fv in F2. inversion F2. congruence.
  - destruct abs; cbn [fst]; apply FLr_keep; rewrite <- F1; reflexivity.
Qed.

Lemma FLr_poll_and_run : forall s abs, FLr s (fst (poll_and_run sc s abs)).
Proof.
  intros. unfold poll_and_run.
  assert (G : forall p : res * bool, FLr s (fst p) ->
              FLr s (fst (let '(r, rt) := p in (bind r (fun s0 => dispatch_active sc (S (length (active s0))) s0), rt)))).
  { intros [r rt] H. cbn [fst] in *. apply FLr_bind'; [exact H|intro; apply FLr_dispatch_active]. }
  apply G. destruct (method s =? M_ET) eqn:M; [|apply FLr_m_poll]. apply Z.eqb_eq in M.
  pose proof (FLr_timeout_check s abs M) as X.
  destruct (timeout_check s abs) as [[s1|s1] b]; unfold FLr in X; cbn [fst res_state] in X.
  - destruct b.
    + pose proof (FLr_m_poll s1 None) as Y. destruct (m_poll sc s1 None) as [r rt]. cbn [fst] in *.
      eapply FLr_trans; [exact X|]. apply FLr_bind'; [exact Y|]. intro s2. destruct rt; apply FLr_keep; reflexivity.
    + eapply FLr_trans; [exact X|apply FLr_m_poll].
  - exact X.
Qed.

Lemma FLr_main_loop : forall fuel s rt, FLr s (main_loop sc fuel s rt).
Proof.
  induction fuel as [|f IH]; intros s rt; cbn [main_loop]; [apply FLr_halt; apply FL_refl|].
  apply FLr_bind'; [destruct rt; [apply FLr_run_timers|apply FL_refl]|]. intro s1.
  apply FLr_bind'; [apply FLr_run_tasks|]. intro s2.
  destruct (quit s2 || (numobjs s2 =? 0)); [apply FL_refl|].
  match goal with |- context [poll_and_run sc s2 ?a] =>
    pose proof (FLr_poll_and_run s2 a) as X; destruct (poll_and_run sc s2 a) as [r rt'] end.
  cbn [fst] in X. apply FLr_bind'; [exact X|intro; apply IH].
Qed.

(* ---- tear-down and the whole run ---- *)
Lemma FLr_teardown_obj : forall s i, FLr s (teardown_obj s i).
Proof.
  intros. unfold teardown_obj.
  repeat (apply FLr_bind'; [apply FLr_do_action|intro]). apply FLr_do_action.
Qed.

Lemma FLr_teardown : forall l s, FLr s (teardown s l).
Proof.
  induction l as [|i l IH]; intro s; cbn [teardown]; [apply FL_refl|].
  apply FLr_bind'; [apply FLr_teardown_obj|apply IH].
Qed.

Lemma fv_deinit : forall s, fv (deinit sc s) = fv s.
Proof.
  intros. unfold deinit. destruct ((sc_backend sc =? M_ET) || (sc_backend sc =? M_EP)); [|reflexivity].
  cbv zeta. rewrite fv_do_close. destruct (tfd s =? -1); [reflexivity|apply fv_do_close].
Qed.

(* the run of Core/CoreModel.run_scenario, before the trace is read off *)
Definition run_result : res :=
  bind (run_acts (core0 sc) (sc_setup sc)) (fun s =>
  bind (main_loop sc (Z.to_nat (sc_limit sc) + 2) (set_quit (emit s TMain) false) true) (fun s =>
  let s := emit s (TEnd (if quit s then 1 else 0) (numobjs s)) in
  bind (teardown s (zseq 0 16)) (fun s =>
  let s := emit s (TTear (numobjs s)) in
  let s := deinit sc s in
  R (emit s (TDone (open_dyn (kern s))))))).

Lemma run_result_trace : run_scenario sc = rev (trace (res_state run_result)).
Proof. reflexivity. Qed.

Lemma FLr_run : FLr (core0 sc) run_result.
Proof.
  unfold run_result. apply FLr_bind'; [apply FLr_run_acts|]. intro s1.
  apply FLr_bind'; [eapply FLr_trans; [|apply FLr_main_loop]; apply FL_fv; reflexivity|]. intro s2. cbv zeta.
  apply FLr_bind'; [eapply FLr_trans; [|apply FLr_teardown]; apply FL_fv; reflexivity|]. intro s3.
  apply FLr_keep.
  transitivity (fv (deinit sc (emit s3 (TTear (numobjs s3))))); [reflexivity|]. rewrite fv_deinit. reflexivity.
Qed.

(* ---- idempotence: what a write stores is decided by the (constant) oracle ---- *)
Definition wres_state (w : wres) : core :=
  match w with WR s _ | WE s => s | WH r => res_state r end.

Lemma FLw_state : forall s w, FLw s w -> FL s (wres_state w).
Proof. intros s w H. destruct w; exact H. Qed.

Lemma pw_le_false : forall f b, pw_le f b false -> b = false.
Proof. unfold pw_le. intros f b [H|[H _]]; [exact H|discriminate]. Qed.

(* iv_fd_epoll_wait with epoll_pwait2_support still set: afterwards it is clear iff the kernel
   answers ENOSYS / EPERM to epoll_pwait2 *)
Lemma pwait2_cleared_iff : forall s abs maxev, pwait2 s = true ->
  pwait2 (wres_state (epoll_wait_m sc s abs maxev)) =
  negb (no_pwait2 (flt (kern s)) || perm_pwait2 (flt (kern s))).
Proof.
  intros s abs maxev P. pose proof (FLw_state _ _ (FLw_epoll_wait_m s abs maxev)) as X.
  destruct X as [X _ _ _ _ _]. rewrite P in X. destruct X as [X|(_ & X & O)].
  - (* not cleared: then the oracle cannot have demanded it *)
    rewrite X. destruct (no_pwait2 (flt (kern s)) || perm_pwait2 (flt (kern s))) eqn:O; [|reflexivity].
    exfalso. unfold epoll_wait_m in X. cbv zeta in X. rewrite P in X.
    pose proof (fv_to_relative s abs) as F. destruct (to_relative s abs) as [s1 rel]. cbn [fst] in F.
    assert (O1 : no_pwait2 (flt (kern s1)) || perm_pwait2 (flt (kern s1)) = true).
    { unfold fv in F. inversion F. congruence. }
    rewrite O1 in X.
    pose proof (fv_to_msec (set_epoll s1 (epfd s1) (tfd s1) false) abs) as F2.
    destruct (to_msec (set_epoll s1 (epfd s1) (tfd s1) false) abs) as [s2 ms]. cbn [fst] in F2.
    match type of X with pwait2 (wres_state ?w) = true =>
      assert (W : FL s2 (wres_state w)) by (apply FLw_state; apply FLw_do_epoll_wait) end.
    destruct W as [W _ _ _ _ _]. unfold fv in F2. inversion F2.
    match goal with H : pwait2 s2 = _ |- _ => rewrite H in W end. cbn in W. apply pw_le_false in W. congruence.
  - rewrite X, O. reflexivity.
Qed.

(* iv_fd_poll_ppoll with method ppoll: afterwards the method is poll iff ppoll answers ENOSYS *)
Lemma ppoll_switched_iff : forall s abs, method s = M_PP ->
  method (res_state (fst (poll_poll sc s abs))) = if no_ppoll (flt (kern s)) then M_PO else M_PP.
Proof.
  intros s abs M. pose proof (FLr_poll_poll s abs) as X. unfold FLr in X.
  destruct X as [_ _ _ X _ _]. rewrite M in X. unfold method_le, M_ET, M_EP, M_PP, M_PO in *.
  destruct (no_ppoll (flt (kern s))) eqn:O.
  - destruct X as [X|[X|X]]; [|lia|lia]. exfalso.
    unfold poll_poll in X. cbv zeta in X. rewrite M in X. change (2 =? M_PP) with true in X. cbv iota in X.
    pose proof (fv_to_relative s abs) as F. destruct (to_relative s abs) as [s1 rel]. cbn [fst] in F.
    assert (O1 : no_ppoll (flt (kern s1)) = true) by (unfold fv in F; inversion F; congruence).
    rewrite O1 in X.
    pose proof (fv_to_msec (set_method (invalidate_now s1) M_PO) abs) as F2.
    destruct (to_msec (set_method (invalidate_now s1) M_PO) abs) as [s2 ms]. cbn [fst] in F2.
    match type of X with method (res_state (fst ?p)) = _ =>
      assert (W : FL s2 (res_state (fst p))) by apply FLr_do_poll_wait end.
    destruct W as [_ _ _ W _ _]. unfold fv in F2. inversion F2.
    match goal with H : method s2 = _ |- _ => rewrite H in W end. cbn in W.
    unfold method_le, M_ET, M_EP, M_PP, M_PO in W. lia.
  - destruct X as [X|[X|X]]; [exact X|lia|]. destruct X as (_ & _ & X). discriminate X.
Qed.

(* iv_fd_epoll_timerfd_set_poll_timeout: afterwards the method is epoll iff no timer descriptor
   existed and timerfd_create answers ENOSYS *)
Lemma timerfd_switched_iff : forall s a, method s = M_ET ->
  method (res_state (fst (set_poll_timeout s a))) =
  if (tfd s =? -1) && no_timerfd (flt (kern s)) then M_EP else M_ET.
Proof.
  intros s a M. unfold set_poll_timeout. cbv zeta. destruct (tfd s =? -1); cbn [andb].
  - unfold k_timerfd_create. destruct (no_timerfd (flt (kern s))); [reflexivity|].
    unfold k_alloc. cbv zeta. cbv beta iota.
    match goal with |- context [ctl_retry ?a ?b ?c ?d ?e] => destruct (ctl_retry a b c d e) as [s1 r] eqn:C end.
    apply fv_ctl_retry in C. unfold fv in C. inversion C.
    destruct r; cbn [fst]; [unfold halt; cbn; congruence|].
    pose proof (fv_tfd_settime s1 (if a =? 0 then 1 else a)) as F. unfold fv in F. inversion F. cbn [res_state]. congruence.
  - cbn [fst res_state]. pose proof (fv_tfd_settime s (if a =? 0 then 1 else a)) as F. unfold fv in F. inversion F. congruence.
Qed.

End WithScenario.

(* ---- non-vacuity: a kernel without epoll_pwait2, timerfd, ppoll and eventfd2 (eventfd exists);
   one timer, one event, one raw event.  With the epoll-timerfd back end the run ends with
   epoll_pwait2_support cleared and both eventfd_in_use at 1; with the ppoll back end the method
   ends as poll, eventfd_in_use of the raw events at 1 and iv_event_use_event_raw set ---- *)
Definition ex_faults : faults :=
  {| no_pwait2 := true; perm_pwait2 := false; no_timerfd := true; no_ppoll := true;
     no_eventfd2 := true; no_eventfd := false; no_create1 := false; emfile := false;
     eintr_waits := []; eintr_ctl := 0; efd_ok := 0 |}.
Definition ex_scenario (b : Z) : scenario :=
  {| sc_backend := b; sc_faults := ex_faults; sc_limit := 20;
     sc_setup := [ATmRegRel 0 5000000000; AEvReg 0; ARwReg 1];
     sc_handlers := fun _ => []; sc_wait := fun _ => []; sc_rot := fun _ => 0 |}.

Lemma flags_nonvacuous :
  fv (core0 (ex_scenario 0)) = (true, 2, 2, 0, false, ex_faults) /\
  fv (res_state (run_result (ex_scenario 0))) = (false, 1, 1, 0, false, ex_faults) /\
  fv (core0 (ex_scenario 2)) = (true, 2, 2, 2, false, ex_faults) /\
  fv (res_state (run_result (ex_scenario 2))) = (true, 2, 1, 3, true, ex_faults).
Proof. repeat match goal with |- _ /\ _ => split end; vm_compute; reflexivity. Qed.

(* ---- non-vacuity of the time-varying eventfd answer: eventfd2 and eventfd exist for ONE creation, then fail
   with ENOSYS (efd_ok := 1).  Two raw events: the first registration leaves eventfd_in_use of
   iv_event_raw_posix.c at 2 (an eventfd was created), the second drops it to 0 (pipe fall-back) ---- *)
Definition ex_cut_faults : faults :=
  {| no_pwait2 := false; perm_pwait2 := false; no_timerfd := false; no_ppoll := false;
     no_eventfd2 := true; no_eventfd := true; no_create1 := false; emfile := false;
     eintr_waits := []; eintr_ctl := 0; efd_ok := 1 |}.
Definition ex_cut_scenario (n : nat) : scenario :=
  {| sc_backend := 3; sc_faults := ex_cut_faults; sc_limit := 20;
     sc_setup := firstn n [ARwReg 0; ARwReg 1; ARwUnreg 0; ARwUnreg 1];
     sc_handlers := fun _ => []; sc_wait := fun _ => []; sc_rot := fun _ => 0 |}.

Lemma flags_cut_nonvacuous :
  fv (core0 (ex_cut_scenario 4)) = (true, 2, 2, 3, false, ex_cut_faults) /\
  fv (res_state (run_acts (core0 (ex_cut_scenario 1)) (sc_setup (ex_cut_scenario 1)))) = (true, 2, 2, 3, false, ex_cut_faults) /\
  fv (res_state (run_acts (core0 (ex_cut_scenario 2)) (sc_setup (ex_cut_scenario 2)))) = (true, 2, 0, 3, false, ex_cut_faults) /\
  fv (res_state (run_result (ex_cut_scenario 4))) = (true, 2, 0, 3, false, ex_cut_faults) /\
  grab_flag ex_cut_faults false 2 = 2 /\ grab_flag ex_cut_faults true 2 = 0.
Proof. repeat match goal with |- _ /\ _ => split end; vm_compute; reflexivity. Qed.

(* the name used in DESIGN.md / Properties_C14.v *)
Notation flags_le := FL.
Notation flags_le_res := FLr.
Notation flags_le_wait := FLw.
