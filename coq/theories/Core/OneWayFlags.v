(* OneWayFlags.v -- the one-way feature-detection flags of the core model (C14).

   The C library keeps a few process-wide (static) flags that record what the running kernel
   supports.  They are read and written without any lock by every thread that runs a loop; C14
   lists them as the tolerated exception: "idempotent one-way feature-detection flags".  What makes
   that tolerable is proved here on the sequential core model (Core/CoreModel.v), for ALL states
   (no invariant is assumed), all scenarios and all fault oracles:

     pwait2      epoll_pwait2_support (iv_fd_epoll.c)            true -> false only
     efd_epoll   eventfd_in_use of iv_fd_epoll.c   \  eventfd-linux.h, one static per
     efd_raw     eventfd_in_use of iv_event_raw_posix.c /  translation unit: 2 -> 1 -> 0 only
     method      the poll method: epoll-timerfd -> epoll (timerfd_create missing),
                 ppoll -> poll (ppoll ENOSYS); never back, never across families
     use_raw     iv_event_use_event_raw (iv_event.c)             false -> true only

   `FL s s'` says: from s to s' every flag moved in its documented direction (or not at all) and
   the kernel's fault oracle -- what the kernel supports, `flt (kern s)` -- is the same.  FL is a
   preorder and every operation of the model satisfies it (for both outcomes R s' and Halt s').
   The idempotence lemmas at the end say that a write stores a value determined by the kernel's
   answer alone, which is a function of the constant oracle: two threads that write the same flag
   concurrently store the same value.  *)
From Coq Require Import List ZArith Bool Lia.
From Ivv Require Import Core.Kernel Core.CoreTypes Core.CoreFd Core.CoreModel.
From Ivv Require Timer.HeapModel.
Import ListNotations.
Local Open Scope Z_scope.

(* ---- the order ---- *)
Definition efd_le (new old : Z) : Prop := new = old \/ new = 0 \/ (old = 2 /\ new = 1).
Definition method_le (new old : Z) : Prop :=
  new = old \/ (old = M_ET /\ new = M_EP) \/ (old = M_PP /\ new = M_PO).

Record FL (s s' : core) : Prop := {
  fl_pwait2 : pwait2 s' = true -> pwait2 s = true;
  fl_efd_epoll : efd_le (efd_epoll s') (efd_epoll s);
  fl_efd_raw : efd_le (efd_raw s') (efd_raw s);
  fl_method : method_le (method s') (method s);
  fl_use_raw : use_raw s = true -> use_raw s' = true;
  fl_flt : flt (kern s') = flt (kern s)
}.

(* the flags and the oracle *)
Definition fv (s : core) : bool * Z * Z * Z * bool * faults :=
  (pwait2 s, efd_epoll s, efd_raw s, method s, use_raw s, flt (kern s)).

Lemma efd_le_refl : forall a, efd_le a a. Proof. left; reflexivity. Qed.
Lemma efd_le_trans : forall a b c, efd_le a b -> efd_le b c -> efd_le a c.
Proof. unfold efd_le. intros a b c H1 H2. lia. Qed.
Lemma method_le_refl : forall a, method_le a a. Proof. left; reflexivity. Qed.
Lemma method_le_trans : forall a b c, method_le a b -> method_le b c -> method_le a c.
Proof. unfold method_le, M_ET, M_EP, M_PP, M_PO. intros a b c H1 H2. lia. Qed.

Lemma FL_fv : forall s s', fv s' = fv s -> FL s s'.
Proof.
  unfold fv. intros s s' H. inversion H. constructor; try congruence.
  - rewrite H2. apply efd_le_refl.
  - rewrite H3. apply efd_le_refl.
  - rewrite H4. apply method_le_refl.
Qed.

Lemma FL_refl : forall s, FL s s.
Proof. intro s. apply FL_fv. reflexivity. Qed.

Lemma FL_trans : forall a b c, FL a b -> FL b c -> FL a c.
Proof.
  intros a b c [A1 A2 A3 A4 A5 A6] [B1 B2 B3 B4 B5 B6]. constructor; auto.
  - eapply efd_le_trans; eauto.
  - eapply efd_le_trans; eauto.
  - eapply method_le_trans; eauto.
  - congruence.
Qed.

(* both outcomes *)
Definition FLr (s : core) (r : res) : Prop := FL s (res_state r).

Lemma FLr_bind : forall s r f, FLr s r -> (forall s1, FL s s1 -> FLr s (f s1)) -> FLr s (bind r f).
Proof. intros s r f H Hf. destruct r as [s1|s1]; simpl; [apply Hf; exact H|exact H]. Qed.

Lemma FLr_bind' : forall s r f, FLr s r -> (forall s1, FLr s1 (f s1)) -> FLr s (bind r f).
Proof.
  intros s r f H Hf. apply FLr_bind; [exact H|]. intros s1 H1. unfold FLr. eapply FL_trans; [exact H1|apply Hf].
Qed.

Lemma FLr_trans : forall a b r, FL a b -> FLr b r -> FLr a r.
Proof. intros a b r H1 H2. unfold FLr in *. eapply FL_trans; eauto. Qed.

Lemma FLr_R : forall s s', FL s s' -> FLr s (R s'). Proof. intros; assumption. Qed.
Lemma FLr_halt : forall s s' e, FL s s' -> FLr s (halt s' e).
Proof. intros s s' e H. unfold FLr, halt. simpl. eapply FL_trans; [exact H|apply FL_fv; reflexivity]. Qed.

(* ---- the virtual kernel never changes its fault oracle ---- *)
Lemma flt_put : forall k fd v, flt (k_put k fd v) = flt k. Proof. reflexivity. Qed.
Lemma flt_alloc : forall k kind, flt (snd (k_alloc k kind)) = flt k. Proof. reflexivity. Qed.

Lemma flt_ctl : forall k op fd ev data, flt (fst (k_epoll_ctl k op fd ev data)) = flt k.
Proof.
  intros. unfold k_epoll_ctl.
  repeat match goal with
         | |- context [if ?c then _ else _] => destruct c
         | |- context [match k_open ?a ?b with _ => _ end] => destruct (k_open a b)
         end; reflexivity.
Qed.

Lemma flt_epoll_sleep : forall k maxev timeout rot,
  match k_epoll_sleep k maxev timeout rot with
  | WReady k1 _ | WEintr k1 => flt k1 = flt k
  | _ => True
  end.
Proof.
  intros. unfold k_epoll_sleep.
  repeat match goal with
         | |- context [match ?x with _ => _ end] =>
             lazymatch x with
             | context [match _ with _ => _ end] => fail
             | _ => destruct x eqn:?
             end
         end; try exact I; try reflexivity.
Qed.

Lemma flt_poll_sleep : forall k pfds timeout,
  match k_poll_sleep k pfds timeout with PReady k1 _ => flt k1 = flt k | PHang => True end.
Proof.
  intros. unfold k_poll_sleep.
  repeat match goal with |- context [if ?c then _ else _] => destruct c end; try exact I; reflexivity.
Qed.

Ltac kcases :=
  repeat match goal with
         | |- context [match ?x with _ => _ end] =>
             lazymatch x with
             | context [match _ with _ => _ end] => fail
             | _ => destruct x eqn:?
             end
         end.

Lemma flt_read : forall k fd c, flt (fst (k_read k fd c)) = flt k.
Proof. intros. unfold k_read. kcases; reflexivity. Qed.
Lemma flt_write : forall k fd c v, flt (fst (k_write k fd c v)) = flt k.
Proof. intros. unfold k_write. kcases; reflexivity. Qed.
Lemma flt_close : forall k fd, flt (fst (k_close k fd)) = flt k.
Proof. intros. unfold k_close. kcases; reflexivity. Qed.
Lemma flt_pipe : forall k, flt (fst (k_pipe k)) = flt k.
Proof. intros. unfold k_pipe. destruct (emfile (flt k)); reflexivity. Qed.
Lemma flt_eventfd : forall k b, flt (fst (k_eventfd k b)) = flt k.
Proof. intros. unfold k_eventfd, k_alloc. kcases; reflexivity. Qed.
Lemma flt_timerfd_create : forall k, flt (fst (k_timerfd_create k)) = flt k.
Proof. intros. unfold k_timerfd_create, k_alloc. kcases; reflexivity. Qed.
Lemma flt_timerfd_settime : forall k fd d, flt (k_timerfd_settime k fd d) = flt k.
Proof. intros. unfold k_timerfd_settime. kcases; reflexivity. Qed.
Lemma flt_set_cond : forall k i c, flt (k_set_cond k i c) = flt k.
Proof. intros. unfold k_set_cond. kcases; reflexivity. Qed.
Lemma flt_user_close : forall k i, flt (k_user_close k i) = flt k.
Proof. intros. unfold k_user_close. kcases; reflexivity. Qed.

(* a state that differs from s in the kernel only (same oracle) and in unflagged fields *)
Lemma FL_kern : forall s k1, flt k1 = flt (kern s) -> FL s (set_kern s k1).
Proof. intros s k1 H. apply FL_fv. unfold fv. cbn. rewrite H. reflexivity. Qed.

(* ---- the descriptor layer (Core/CoreFd.v) touches neither the flags nor the oracle ---- *)
Definition Kr (s : core) (r : res) : Prop := fv (res_state r) = fv s.

Lemma Kr_bind : forall s r f, Kr s r -> (forall s1, Kr s1 (f s1)) -> Kr s (bind r f).
Proof.
  intros s r f H Hf. destruct r as [s1|s1]; simpl; [|exact H]. unfold Kr in *. simpl in H. rewrite <- H. apply Hf.
Qed.
Lemma Kr_trans : forall a b r, fv b = fv a -> Kr b r -> Kr a r.
Proof. unfold Kr. intros. congruence. Qed.
Lemma Kr_FLr : forall s r, Kr s r -> FLr s r.
Proof. intros s r H. apply FL_fv. exact H. Qed.

Lemma fv_kern : forall s k1, flt k1 = flt (kern s) -> fv (set_kern s k1) = fv s.
Proof. intros s k1 H. unfold fv. cbn. rewrite H. reflexivity. Qed.

Lemma fv_ctl_retry : forall s op fd ev data s1 r, ctl_retry s op fd ev data = (s1, r) -> fv s1 = fv s.
Proof.
  intros s op fd ev data s1 r H. unfold ctl_retry in H.
  destruct (k_epoll_ctl (kern s) op fd ev data) as [k1 r1] eqn:E1.
  pose proof (flt_ctl (kern s) op fd ev data) as F1. rewrite E1 in F1. simpl in F1.
  destruct r1 as [e|]; [destruct e|]; try (inversion H; subst; apply fv_kern; exact F1).
  destruct (k_epoll_ctl k1 op fd ev data) as [k2 r2] eqn:E2.
  pose proof (flt_ctl k1 op fd ev data) as F2. rewrite E2 in F2. simpl in F2.
  inversion H; subst. apply fv_kern. congruence.
Qed.

Lemma fv_flush_one_ : forall s k s1 b, epoll_flush_one_ s k = (s1, b) -> fv s1 = fv s.
Proof.
  intros s k s1 b H. unfold epoll_flush_one_ in H.
  match type of H with context [if ?c then _ else _] => destruct c end; [inversion H; reflexivity|].
  match type of H with context [ctl_retry ?a ?b ?c ?d ?e] => destruct (ctl_retry a b c d e) as [s2 r] eqn:E end.
  apply fv_ctl_retry in E. destruct r; inversion H; subst.
  - rewrite E. reflexivity.
  - transitivity (fv s2); [reflexivity|rewrite E; reflexivity].
Qed.

Lemma Kr_flush_one : forall s k, Kr s (epoll_flush_one s k).
Proof.
  intros s k. unfold epoll_flush_one. destruct (epoll_flush_one_ s k) as [s1 b] eqn:E.
  apply fv_flush_one_ in E. destruct b; unfold Kr; simpl; exact E.
Qed.

Lemma Kr_flush_pending : forall fuel s, Kr s (epoll_flush_pending fuel s).
Proof.
  induction fuel as [|f IH]; intro s; simpl; destruct (notify s); try reflexivity.
  apply Kr_bind; [apply Kr_flush_one|apply IH].
Qed.

Lemma fv_epoll_notify : forall s k, fv (epoll_notify_fd s k) = fv s.
Proof. intros. unfold epoll_notify_fd. match goal with |- context [if ?c then _ else _] => destruct c end; reflexivity. Qed.

Lemma Kr_epoll_unregister : forall s k, Kr s (epoll_unregister_fd s k).
Proof. intros. unfold epoll_unregister_fd. destruct (mem_z k (notify s)); [apply Kr_flush_one|reflexivity]. Qed.

Lemma Kr_poll_notify : forall s k, Kr s (poll_notify_fd s k).
Proof.
  intros. unfold poll_notify_fd.
  repeat match goal with
         | |- context [if ?c then _ else _] => destruct c
         | |- context [match nth_z ?a ?b with _ => _ end] => destruct (nth_z a b)
         end; reflexivity.
Qed.

Lemma Kr_m_notify : forall s k, Kr s (m_notify_fd s k).
Proof. intros. unfold m_notify_fd. destruct (is_epoll s); [apply fv_epoll_notify|apply Kr_poll_notify]. Qed.

Lemma Kr_notify : forall s k, Kr s (notify_fd s k).
Proof. intros. unfold notify_fd. eapply Kr_trans; [|apply Kr_m_notify]. reflexivity. Qed.

Lemma fv_prologue : forall s k, fv (register_prologue s k) = fv s.
Proof. intros. unfold register_prologue. destruct (is_epoll s); reflexivity. Qed.

Lemma Kr_fd_register : forall s k, Kr s (fd_register s k).
Proof.
  intros. unfold fd_register. apply Kr_bind; [eapply Kr_trans; [apply fv_prologue|apply Kr_notify]|].
  intro s1. reflexivity.
Qed.

Lemma Kr_fd_unregister : forall s k, Kr s (fd_unregister s k).
Proof.
  intros. unfold fd_unregister. apply Kr_bind; [eapply Kr_trans; [|apply Kr_notify]; reflexivity|].
  intro s1. apply Kr_bind; [destruct (is_epoll s1); [apply Kr_epoll_unregister|reflexivity]|].
  intro s2. unfold Kr. simpl.
  match goal with |- context [match ?x with _ => _ end] => destruct x end; [|reflexivity].
  match goal with |- context [if ?c then _ else _] => destruct c end; reflexivity.
Qed.

Lemma Kr_fd_set_handler : forall s k band h, Kr s (fd_set_handler s k band h).
Proof.
  intros. unfold fd_set_handler. destruct (registered (getfd s k)); [|reflexivity].
  eapply Kr_trans; [|apply Kr_notify]. reflexivity.
Qed.

Lemma Kr_fd_register_try : forall s k, Kr s (fst (fd_register_try s k)).
Proof.
  intros. unfold fd_register_try.
  set (s1 := putfd (register_prologue s k) k (recompute_wanted (getfd (register_prologue s k) k))).
  assert (F1 : fv s1 = fv s) by (unfold s1; rewrite <- (fv_prologue s k); reflexivity).
  clearbody s1. set (orig := wanted (getfd s1 k)). clearbody orig.
  set (s2 := if orig =? 0 then putfd s1 k (fd_with_wanted (getfd s1 k) (M_IN + M_OUT)) else s1).
  assert (F2 : fv s2 = fv s) by (unfold s2; destruct (orig =? 0); rewrite <- F1; reflexivity).
  clearbody s2.
  assert (G : forall r0 fl, (if is_epoll s2 then (let '(s3, fl) := epoll_flush_one_ s2 k in (R s3, fl))
                             else poll_notify_fd_sync s2 k) = (r0, fl) -> Kr s r0).
  { intros r0 fl H. destruct (is_epoll s2).
    - destruct (epoll_flush_one_ s2 k) as [s3 b] eqn:E. apply fv_flush_one_ in E. inversion H; subst.
      unfold Kr. simpl. congruence.
    - unfold poll_notify_fd_sync in H. match type of H with context [if ?c then _ else _] => destruct c end;
        inversion H; subst; [unfold Kr; simpl; exact F2|eapply Kr_trans; [exact F2|apply Kr_poll_notify]]. }
  destruct (if is_epoll s2 then (let '(s3, fl) := epoll_flush_one_ s2 k in (R s3, fl)) else poll_notify_fd_sync s2 k)
    as [r0 fl] eqn:E.
  specialize (G r0 fl eq_refl). destruct fl; simpl.
  - apply Kr_bind; [exact G|]. intro s4.
    match goal with |- context [if ?c then _ else _] => destruct c end;
      [eapply Kr_trans; [|apply Kr_epoll_unregister]; reflexivity|reflexivity].
  - apply Kr_bind; [exact G|]. intro s4. apply Kr_bind; [|intro; reflexivity].
    destruct (orig =? 0); [eapply Kr_trans; [|apply Kr_m_notify]; reflexivity|reflexivity].
Qed.

Lemma fv_make_ready : forall s k b, fv (make_ready s k b) = fv s.
Proof. intros. unfold make_ready. destruct (mem_z k (active s)); reflexivity. Qed.

Lemma fv_activate : forall s k bits, fv (activate s k bits) = fv s.
Proof.
  intros. unfold activate.
  repeat match goal with |- context [if ?c then _ else _] => destruct c end;
    rewrite ?fv_make_ready; reflexivity.
Qed.

(* ---- eventfd_grab: the new value of eventfd_in_use is a function of the oracle and the old value ---- *)
Definition grab_flag (f : faults) (u : Z) : Z :=
  let old (u : Z) := if u =? 0 then 0 else if emfile f then u else if no_eventfd f then 0 else u in
  if u =? 2 then (if emfile f then 2 else if no_eventfd f || no_eventfd2 f then old 1 else 2) else old u.

Lemma grab_spec : forall k u k1 r u', eventfd_grab k u = (k1, r, u') ->
  flt k1 = flt k /\ u' = grab_flag (flt k) u.
Proof.
  intros k u k1 r u' H. unfold eventfd_grab, k_eventfd, k_alloc, grab_flag in *.
  destruct (u =? 2) eqn:E2; destruct (emfile (flt k)) eqn:EM; destruct (no_eventfd (flt k)) eqn:NE;
    destruct (no_eventfd2 (flt k)) eqn:NE2; destruct (u =? 0) eqn:E0; cbn in H;
    rewrite ?EM, ?NE, ?NE2 in H; cbn in H; inversion H; subst; split; reflexivity.
Qed.

Lemma grab_flag_le : forall f u, efd_le (grab_flag f u) u.
Proof.
  intros f u. unfold grab_flag, efd_le.
  destruct (u =? 2) eqn:E2; destruct (emfile f); destruct (no_eventfd f); destruct (no_eventfd2 f);
    destruct (u =? 0) eqn:E0; cbn; lia.
Qed.

Lemma grab_flag_idem : forall f u, grab_flag f (grab_flag f u) = grab_flag f u.
Proof.
  intros f u. unfold grab_flag.
  destruct (u =? 2) eqn:E2; destruct (emfile f); destruct (no_eventfd f); destruct (no_eventfd2 f);
    destruct (u =? 0) eqn:E0; cbn; rewrite ?E2, ?E0; cbn; try reflexivity; try lia.
Qed.

(* ---- small pieces of Core/CoreModel.v ---- *)
Lemma fv_validate : forall s, fv (validate_now s) = fv s.
Proof. intro s. unfold validate_now. destruct (time_valid s); reflexivity. Qed.
Lemma fv_invalidate : forall s, fv (invalidate_now s) = fv s. Proof. reflexivity. Qed.
Lemma fv_to_relative : forall s abs, fv (fst (to_relative s abs)) = fv s.
Proof. intros. unfold to_relative. destruct abs; simpl; [apply fv_validate|reflexivity]. Qed.
Lemma fv_to_msec : forall s abs, fv (fst (to_msec s abs)) = fv s.
Proof.
  intros. unfold to_msec. pose proof (fv_to_relative s abs) as H.
  destruct (to_relative s abs) as [s1 [r|]]; exact H.
Qed.
Lemma Kr_lift_heap : forall s o, Kr s (lift_heap s o).
Proof. intros. unfold lift_heap. destruct o; reflexivity. Qed.
Lemma fv_task_register : forall s k, fv (task_register s k) = fv s.
Proof.
  intros. unfold task_register. cbn.
  destruct (cur s); [|reflexivity]. match goal with |- context [if ?c then _ else _] => destruct c end; reflexivity.
Qed.
Lemma fv_task_unregister : forall s k, fv (task_unregister s k) = fv s. Proof. reflexivity. Qed.
Lemma fv_do_close : forall s fd, fv (do_close s fd) = fv s.
Proof.
  intros. unfold do_close. pose proof (flt_close (kern s) fd) as F.
  destruct (k_close (kern s) fd) as [k1 ok]. simpl in F. destruct ok; unfold fv; cbn; rewrite F; reflexivity.
Qed.
Lemma fv_raw_post : forall s j, fv (raw_post s j) = fv s.
Proof.
  intros. unfold raw_post.
  destruct (efd_raw s =? 0);
    match goal with |- context [k_write ?a ?b ?c ?d] => pose proof (flt_write a b c d) as F; destruct (k_write a b c d) as [k1 x] end;
    simpl in F; apply fv_kern; exact F.
Qed.
Lemma fv_event_post : forall s j, fv (event_post s j) = fv s.
Proof.
  intros. unfold event_post. destruct (ev_on_list s j); [reflexivity|].
  match goal with |- context [if ?c then _ else _] => destruct c end; [rewrite fv_task_register|]; reflexivity.
Qed.
Lemma Kr_raw_unregister : forall s j, Kr s (raw_unregister s j).
Proof.
  intros. unfold raw_unregister. apply Kr_bind; [apply Kr_fd_unregister|]. intro s1. unfold Kr. simpl.
  destruct (efd_raw (do_close s1 (rw_rfd s1 j)) =? 0).
  - transitivity (fv (do_close s1 (rw_rfd s1 j))); [|apply fv_do_close].
    transitivity (fv (do_close (do_close s1 (rw_rfd s1 j)) (rw_wfd (do_close s1 (rw_rfd s1 j)) j))); [reflexivity|apply fv_do_close].
  - transitivity (fv (do_close s1 (rw_rfd s1 j))); [reflexivity|apply fv_do_close].
Qed.

(* ---- the operations that write a flag ---- *)
Ltac facts :=
  repeat match goal with
  | E : eventfd_grab _ _ = (_, _, _) |- _ => apply grab_spec in E; destruct E
  | E : k_pipe ?k = (_, _) |- _ =>
      let F := fresh "F" in pose proof (flt_pipe k) as F; rewrite E in F; simpl in F; clear E
  | E : k_write ?k ?a ?b ?c = (_, _) |- _ =>
      let F := fresh "F" in pose proof (flt_write k a b c) as F; rewrite E in F; simpl in F; clear E
  | E : k_read ?k ?a ?b = (_, _) |- _ =>
      let F := fresh "F" in pose proof (flt_read k a b) as F; rewrite E in F; simpl in F; clear E
  | E : k_timerfd_create ?k = (_, _) |- _ =>
      let F := fresh "F" in pose proof (flt_timerfd_create k) as F; rewrite E in F; simpl in F; clear E
  | E : ctl_retry _ _ _ _ _ = (_, _) |- _ => apply fv_ctl_retry in E
  | E : fd_register ?s ?k = _ |- _ =>
      let F := fresh "F" in pose proof (Kr_fd_register s k) as F; rewrite E in F; unfold Kr in F; simpl in F; clear E
  end.

Ltac fvs :=
  unfold fv;
  cbn [pwait2 efd_epoll efd_raw method use_raw kern trace
       set_fdt set_active set_handled set_numfds set_last_abs set_method set_notify set_epoll set_efd
       set_activewr set_activefd set_poll set_quit set_numobjs set_heap set_time set_tasks set_epoch
       set_evlists set_ev set_rw set_kern set_trace set_invoc emit putfd].

(* iv_event_raw_register: eventfd_in_use of iv_event_raw_posix.c becomes grab_flag(oracle, old
   value); nothing else moves *)
Lemma raw_register_fv : forall s j,
  fv (res_state (fst (raw_register s j))) =
  (pwait2 s, efd_epoll s, grab_flag (flt (kern s)) (efd_raw s), method s, use_raw s, flt (kern s)).
Proof.
  intros s j. unfold raw_register. cbv zeta.
  set (tgt := (pwait2 s, efd_epoll s, grab_flag (flt (kern s)) (efd_raw s), method s, use_raw s, flt (kern s))).
  assert (T : forall s1 (got : option (Z * Z)), fv s1 = tgt ->
    fv (res_state (fst (match got with
        | None => (R s1, true)
        | Some (rfd, wfd) =>
            (bind (fd_register (putfd s1 (RAW_KEY j) (fd_with_handlers (fd_fresh rfd (1000 + j)) (Some (H_RAW j)) None None))
                               (RAW_KEY j))
                  (fun s0 => R (set_rw s0 (upd (rw_reg s0) j true) (upd (rw_rfd s0) j rfd) (upd (rw_wfd s0) j wfd))), false)
        end))) = tgt).
  { intros s1 got H1. destruct got as [[rfd wfd]|]; [|exact H1]. cbn [fst]. rewrite <- H1.
    apply (Kr_bind s1); [eapply Kr_trans; [|apply Kr_fd_register]; reflexivity|intro; reflexivity]. }
  assert (T2 : forall s1 (got : option (Z * Z)), fv s1 = tgt ->
    fv (res_state (fst (
      let '(s2, got2, failed2) :=
        match got with
        | Some p => (s1, Some p, false)
        | None =>
            if efd_raw s1 =? 0 then
              match k_pipe (kern s1) with
              | (k1, Some (r, w)) => (set_kern s1 k1, Some (r, w), false)
              | (k1, None) => (set_kern s1 k1, None, true)
              end
            else (s1, None, true)
        end in
      match got2 with
      | None => (R s2, true)
      | Some (rfd, wfd) =>
          (bind (fd_register (putfd s2 (RAW_KEY j) (fd_with_handlers (fd_fresh rfd (1000 + j)) (Some (H_RAW j)) None None))
                             (RAW_KEY j))
                (fun s0 => R (set_rw s0 (upd (rw_reg s0) j true) (upd (rw_rfd s0) j rfd) (upd (rw_wfd s0) j wfd))), false)
      end))) = tgt).
  { intros s1 got H1. destruct got as [p0|]; [apply (T s1 (Some p0) H1)|].
    destruct (efd_raw s1 =? 0); [|apply (T s1 None H1)].
    pose proof (flt_pipe (kern s1)) as F. destruct (k_pipe (kern s1)) as [k1 [[r w]|]]; simpl in F.
    - apply (T (set_kern s1 k1) (Some (r, w))). rewrite <- H1. apply fv_kern. exact F.
    - apply (T (set_kern s1 k1) None). rewrite <- H1. apply fv_kern. exact F. }
  destruct (negb (efd_raw s =? 0)) eqn:E0.
  - destruct (eventfd_grab (kern s) (efd_raw s)) as [[k1 r] u] eqn:G. apply grab_spec in G. destruct G as [F U].
    assert (H1 : fv (set_efd (set_kern s k1) (efd_epoll s) u) = tgt).
    { unfold tgt. fvs. rewrite F, U. reflexivity. }
    destruct r as [fd|e]; cbv beta iota.
    + apply (T2 _ (Some (fd, fd)) H1).
    + destruct (negb (is_enosys e)); [exact H1|apply (T2 _ None H1)].
  - cbv beta iota. apply (T2 s None). unfold tgt. apply negb_false_iff in E0. apply Z.eqb_eq in E0.
    rewrite E0. unfold fv. rewrite E0. reflexivity.
Qed.

Lemma FL_efd : forall s s' e1 e2,
  fv s' = (pwait2 s, e1, e2, method s, use_raw s, flt (kern s)) ->
  efd_le e1 (efd_epoll s) -> efd_le e2 (efd_raw s) -> FL s s'.
Proof.
  intros s s' e1 e2 H L1 L2. unfold fv in H. inversion H. constructor; try congruence.
  - rewrite H4. apply method_le_refl.
Qed.

Lemma FLr_raw_register : forall s j, FLr s (fst (raw_register s j)).
Proof.
  intros. unfold FLr. eapply FL_efd; [apply raw_register_fv|apply efd_le_refl|apply grab_flag_le].
Qed.

(* iv_fd_epoll_event_rx_on: eventfd_in_use of iv_fd_epoll.c becomes grab_flag(oracle, old value)
   when the shared kick descriptor is created; nothing else moves *)
Lemma rx_on_fv : forall s,
  fv (res_state (fst (event_rx_on s))) =
  (pwait2 s, (if active_ref s =? 0 then grab_flag (flt (kern s)) (efd_epoll s) else efd_epoll s),
   efd_raw s, method s, use_raw s, flt (kern s)).
Proof.
  intros s. unfold event_rx_on. cbv zeta.
  set (tgt := (pwait2 s, (if active_ref s =? 0 then grab_flag (flt (kern s)) (efd_epoll s) else efd_epoll s),
               efd_raw s, method s, use_raw s, flt (kern s))).
  assert (T : forall r, fv (res_state r) = tgt ->
    fv (res_state (fst (match r with
      | Halt s0 => (Halt s0, true)
      | R s0 =>
          let '(s1, e) := ctl_retry (set_activefd s0 (active_fd s0) (active_ref s0 + 1)) CTL_ADD
                                    (active_fd (set_activefd s0 (active_fd s0) (active_ref s0 + 1))) 0 (-1) in
          match e with
          | None => (R (set_numobjs s1 (numobjs s1 + 1)), false)
          | Some _ => (R s1, true)
          end
      end))) = tgt).
  { intros r H. destruct r as [s0|s0]; [|exact H]. simpl in H.
    match goal with |- context [ctl_retry ?a ?b ?c ?d ?e] => destruct (ctl_retry a b c d e) as [s1 e1] eqn:E end.
    apply fv_ctl_retry in E. destruct e1; cbn [fst res_state]; rewrite <- H;
      (transitivity (fv s1); [reflexivity|rewrite E; reflexivity]). }
  apply T. destruct (active_ref s =? 0) eqn:E0; [|reflexivity].
  destruct (eventfd_grab (kern s) (efd_epoll s)) as [[k1 r] u] eqn:G. apply grab_spec in G. destruct G as [F U].
  destruct r as [fd|e].
  - pose proof (flt_write k1 fd 8 1) as F2. destruct (k_write k1 fd 8 1) as [k2 x]. simpl in F2.
    cbn [res_state]. unfold tgt. fvs. rewrite F2, F, U. reflexivity.
  - fvs. pose proof (flt_pipe k1) as F2. destruct (k_pipe k1) as [k2 [[r w]|]]; simpl in F2.
    + pose proof (flt_write k2 w 1 0) as F3. destruct (k_write k2 w 1 0) as [k3 wr]. simpl in F3.
      destruct wr; unfold halt; cbn [res_state]; unfold tgt; fvs; rewrite F3, F2, F, U; reflexivity.
    + unfold halt; cbn [res_state]; unfold tgt; fvs; rewrite F2, F, U; reflexivity.
Qed.

Lemma FLr_rx_on : forall s, FLr s (fst (event_rx_on s)).
Proof.
  intros. unfold FLr. eapply FL_efd; [apply rx_on_fv| |apply efd_le_refl].
  destruct (active_ref s =? 0); [apply grab_flag_le|apply efd_le_refl].
Qed.

Lemma Kr_rx_off : forall s, Kr s (event_rx_off s).
Proof.
  intros. unfold event_rx_off.
  match goal with |- context [ctl_retry ?a ?b ?c ?d ?e] => destruct (ctl_retry a b c d e) as [s1 e1] eqn:E end.
  apply fv_ctl_retry in E. destruct e1; [unfold Kr, halt; simpl; rewrite <- E; reflexivity|].
  unfold Kr. cbn [res_state]. rewrite <- E.
  set (s2 := set_activefd s1 (active_fd s1) (active_ref s1 - 1)).
  assert (F2 : fv s2 = fv s1) by reflexivity. rewrite <- F2. clearbody s2.
  destruct (active_ref s2 =? 0); [|reflexivity].
  destruct (active_wr (do_close s2 (active_fd s2)) =? -1).
  - transitivity (fv (do_close s2 (active_fd s2))); [reflexivity|apply fv_do_close].
  - transitivity (fv (do_close (do_close s2 (active_fd s2)) (active_wr (do_close s2 (active_fd s2)))));
      [reflexivity|rewrite fv_do_close; apply fv_do_close].
Qed.
