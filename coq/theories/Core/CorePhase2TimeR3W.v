(* CorePhase2TimeR3W.v -- the raw-event invariant R3 through the kernel waits and
   iv_fd_poll_and_run. *)
From Coq Require Import List ZArith Bool Lia.
From Ivv Require Import Core.Kernel Core.CoreTypes Core.CoreFd Core.CoreModel Core.Monitors Core.CoreSpec
  Core.CoreRelBase Core.CoreInvBase Core.CoreInvDefs Core.CoreInvFd Core.CoreInvPoll Core.CoreInvReg Core.CoreInvObj
  Core.CoreInvTm Core.CoreInvLoop Core.CoreInvWait Core.CoreInv
  Core.CorePhase2K1Base Core.CorePhase2K1Fd Core.CorePhase2K1Act Core.CorePhase2K1Inv Core.CorePhase2K1Loop
  Core.CorePhase2TimeMon Core.CorePhase2TimeFr Core.CorePhase2TimeT1
  Core.CorePhase2TimeR3K Core.CorePhase2TimeR3 Core.CorePhase2TimeR3A Core.CorePhase2TimeR3L
  Core.CorePhase2FdBase Core.CorePhase2FdMon Core.CorePhase2FdStep.
Import ListNotations.
Local Open Scope Z_scope.

Definition RK (s : core) : Prop := R3 s /\ KX (kern s).
Definition PQ (r : res) : Prop := ARes RK r.

Lemma sleep_fields : forall k maxev timeout rot,
  match k_epoll_sleep k maxev timeout rot with
  | WReady k1 _ => vfds k1 = vfds k /\ next_fd k1 = next_fd k
  | _ => True
  end.
Proof.
  intros k maxev timeout rot. unfold k_epoll_sleep.
  destruct (ep_scan k _ (Z.to_nat maxev)); [|split; reflexivity].
  destruct (timeout =? 0); [split; reflexivity|].
  match goal with |- context [if ?w <? 0 then _ else _] => destruct (w <? 0); [exact I|] end.
  match goal with |- context [if clock k <? ?w then _ else _] => destruct (clock k <? w) end; split; reflexivity.
Qed.

Lemma poll_sleep_fields : forall k pf timeout,
  match k_poll_sleep k pf timeout with
  | PReady k1 _ => vfds k1 = vfds k /\ next_fd k1 = next_fd k
  | PHang => True
  end.
Proof.
  intros k pf timeout. unfold k_poll_sleep.
  destruct ((0 <? count_nonzero (poll_eval k pf)) || (timeout =? 0)); [split; reflexivity|].
  destruct (timeout <? 0); [exact I|split; reflexivity].
Qed.

Lemma RK_kern : forall s k1, InvW s -> RK s -> vfds k1 = vfds (kern s) -> next_fd k1 = next_fd (kern s) -> KX k1 ->
  RK (set_kern s k1).
Proof.
  intros s k1 I [R K] V N K1. split; [|exact K1].
  apply (R3_F3n s _ R (InvW_RawFacts s I)). apply F3_kern. apply CNT_fields; assumption.
Qed.

Lemma RK_emit : forall s e, RK s -> match e with TAct _ | TCallRaw _ => False | _ => True end -> RK (emit s e).
Proof. intros s e [R K] C. split; [apply R3_emit_plain; assumption|exact K]. Qed.

Lemma RK_same : forall s s', RK s -> kern s' = kern s -> rw_reg s' = rw_reg s -> rw_rfd s' = rw_rfd s ->
  trace s' = trace s -> RK s'.
Proof. intros s s' [R K] E1 E2 E3 E4. split; [apply (R3_same s s' R); assumption|rewrite E1; exact K]. Qed.

Section Wait.
Variable sc : scenario.
Hypothesis WF : wf_scenario sc.
Let dok := CoreInv.do_action_ok.
Let Hh := wf_handlers sc WF.

Lemma wait_enter_QI : forall s, InvW s -> RK s -> QI (wait_enter sc s).
Proof.
  intros s I [R K]. unfold wait_enter. destruct (sc_limit sc <? nwait (kern s) + 1); [exact Logic.I|].
  set (s1 := set_kern s _).
  assert (I1 : InvW s1) by (apply InvW_nwait; exact I).
  assert (RK1 : RK s1) by (apply RK_kern; [exact I|split; assumption|reflexivity|reflexivity|apply KX_set_nwait; exact K]).
  apply run_acts_QI; [exact I1|apply RK1|apply RK1|].
  eapply Forall_impl; [|apply (wf_waits sc WF)]. intros a. destruct a; cbn; tauto.
Qed.

Definition WQ (w : wres) : Prop :=
  match w with WR s' _ => RK s' | WE s' => RK s' | WH _ => True end.

Lemma do_epoll_wait_R3 : forall s call maxev timeout, InvW s -> RK s -> WQ (do_epoll_wait sc s call maxev timeout).
Proof.
  intros s call maxev timeout I RKs. unfold do_epoll_wait.
  pose proof (wait_enter_QI s I RKs) as Q.
  destruct (wait_enter sc s) as [s1|s1]; [|exact Logic.I]. cbn [QI ARes] in Q. destruct Q as (I1 & R1 & K1). cbv zeta.
  set (s2 := emit s1 (TWait _ _ _ _ _ _)).
  assert (I2 : InvW s2) by (apply InvW_emit; [exact I1|discriminate..]).
  assert (RK2 : RK s2) by (apply RK_emit; [split; assumption|exact Logic.I]).
  destruct (mem_z _ _); cbn [WQ].
  - apply RK_emit; [|exact Logic.I]. destruct (0 <? timeout); [|exact RK2].
    apply RK_kern; [exact I2|exact RK2|reflexivity|reflexivity|apply KX_set_clock; apply RK2].
  - change (kern s2) with (kern s1).
    pose proof (sleep_fields (kern s1) maxev timeout (sc_rot sc (nwait (kern s1)))) as SF.
    pose proof (epoll_sleep_KX (kern s1) maxev timeout (sc_rot sc (nwait (kern s1))) K1) as SK.
    pose proof (epoll_sleep_spec (kern s1) maxev timeout (sc_rot sc (nwait (kern s1)))) as KS.
    destruct (k_epoll_sleep (kern s1) maxev timeout (sc_rot sc (nwait (kern s1)))) as [k1 evs|k1| |]; cbn [WQ];
      try exact Logic.I; try (destruct KS; fail).
    apply RK_emit; [|exact Logic.I]. apply RK_kern; [exact I2|exact RK2|apply SF|apply SF|apply SK].
Qed.

Lemma epoll_wait_m_R3 : forall s abs maxev, InvW s -> RK s -> WQ (epoll_wait_m sc s abs maxev).
Proof.
  intros s abs maxev I RKs. unfold epoll_wait_m.
  assert (TR : forall s0, InvW s0 -> RK s0 -> InvW (fst (to_relative s0 abs)) /\ RK (fst (to_relative s0 abs))).
  { intros s0 I0 RK0. unfold to_relative. destruct abs; cbn [fst]; [|split; assumption].
    split; [apply InvW_validate; exact I0|]. unfold validate_now. destruct (time_valid s0); [exact RK0|].
    apply (RK_same s0); [exact RK0|reflexivity..]. }
  assert (V : forall s0, InvW s0 -> RK s0 ->
    WQ (let '(s1, ms) := to_msec s0 abs in do_epoll_wait sc s1 0 maxev (if ms <? 0 then -1 else ms * 1000000))).
  { intros s0 I0 RK0. unfold to_msec. destruct (TR s0 I0 RK0) as [A B].
    destruct (to_relative s0 abs) as [s1 [r|]]; cbn [fst] in A, B; apply do_epoll_wait_R3; assumption. }
  destruct (pwait2 s); [|apply V; assumption].
  destruct (TR s I RKs) as [A B]. destruct (to_relative s abs) as [s1 rel]. cbn [fst] in A, B.
  destruct (no_pwait2 (flt (kern s1)) || perm_pwait2 (flt (kern s1))).
  - apply V; [apply (InvW_coresame s1); [constructor; reflexivity|apply (ms_nobad _ (iw_misc _ A))|exact A]|].
    apply (RK_same s1); [exact B|reflexivity..].
  - apply do_epoll_wait_R3; assumption.
Qed.
End Wait.
