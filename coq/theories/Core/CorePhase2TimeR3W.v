(* CorePhase2TimeR3W.v -- the raw-event invariant R3 through the kernel waits and
   iv_fd_poll_and_run. *)
From Coq Require Import List ZArith Bool Lia.
From Ivv Require Import Core.Kernel Core.CoreTypes Core.CoreFd Core.CoreModel Core.Monitors Core.CoreSpec
  Core.CoreRelBase Core.CoreInvBase Core.CoreInvDefs Core.CoreInvFd Core.CoreInvPoll Core.CoreInvReg Core.CoreInvObj
  Core.CoreInvTm Core.CoreInvLoop Core.CoreInvWait Core.CoreInv
  Core.CorePhase2K1Base Core.CorePhase2K1Fd Core.CorePhase2K1Act Core.CorePhase2K1Inv Core.CorePhase2K1Loop
  Core.CorePhase2TimeMon Core.CorePhase2TimeFr Core.CorePhase2TimeT1
  Core.CorePhase2TimeR3K Core.CorePhase2TimeR3 Core.CorePhase2TimeR3A Core.CorePhase2TimeR3L
  Core.CorePhase2FdBase Core.CorePhase2FdMon Core.CorePhase2FdStep.
From Ivv Require Core.CorePhase2TimeT1W.
Import ListNotations.
Local Open Scope Z_scope.

Definition RK (s : core) : Prop := R3 s /\ KX (kern s).
Definition PQ (r : res) : Prop := ARes RK r.

Lemma sleep_fields : forall k maxev timeout rot,
  match k_epoll_sleep k maxev timeout rot with
  | WReady k1 _ => vfds k1 = vfds k /\ next_fd k1 = next_fd k
  | _ => True
  end.
Proof.
  intros k maxev timeout rot. unfold k_epoll_sleep.
  destruct (ep_scan k _ (Z.to_nat maxev)); [|split; reflexivity].
  destruct (timeout =? 0); [split; reflexivity|].
  match goal with |- context [if ?w <? 0 then _ else _] => destruct (w <? 0); [exact I|] end.
  match goal with |- context [if clock k <? ?w then _ else _] => destruct (clock k <? w) end; split; reflexivity.
Qed.

Lemma poll_sleep_fields : forall k pf timeout,
  match k_poll_sleep k pf timeout with
  | PReady k1 _ => vfds k1 = vfds k /\ next_fd k1 = next_fd k
  | PHang => True
  end.
Proof.
  intros k pf timeout. unfold k_poll_sleep.
  destruct ((0 <? count_nonzero (poll_eval k pf)) || (timeout =? 0)); [split; reflexivity|].
  destruct (timeout <? 0); [exact I|split; reflexivity].
Qed.

Lemma RK_kern : forall s k1, InvW s -> RK s -> vfds k1 = vfds (kern s) -> next_fd k1 = next_fd (kern s) -> KX k1 ->
  RK (set_kern s k1).
Proof.
  intros s k1 I [R K] V N K1. split; [|exact K1].
  apply (R3_F3n s _ R (InvW_RawFacts s I)). apply F3_kern. apply CNT_fields; assumption.
Qed.

Lemma RK_emit : forall s e, RK s -> match e with TAct _ | TCallRaw _ => False | _ => True end -> RK (emit s e).
Proof. intros s e [R K] C. split; [apply R3_emit_plain; assumption|exact K]. Qed.

Lemma RK_same : forall s s', RK s -> kern s' = kern s -> rw_reg s' = rw_reg s -> rw_rfd s' = rw_rfd s ->
  trace s' = trace s -> RK s'.
Proof. intros s s' [R K] E1 E2 E3 E4. split; [apply (R3_same s s' R); assumption|rewrite E1; exact K]. Qed.

Section Wait.
Variable sc : scenario.
Hypothesis WF : wf_scenario sc.
Let dok := CoreInv.do_action_ok.
Let Hh := wf_handlers sc WF.

Lemma wait_enter_QI : forall s, InvW s -> RK s -> QI (wait_enter sc s).
Proof.
  intros s I [R K]. unfold wait_enter. destruct (sc_limit sc <? nwait (kern s) + 1); [exact Logic.I|].
  set (s1 := set_kern s _).
  assert (I1 : InvW s1) by (apply InvW_nwait; exact I).
  assert (RK1 : RK s1) by (apply RK_kern; [exact I|split; assumption|reflexivity|reflexivity|apply KX_set_nwait; exact K]).
  apply run_acts_QI; [exact I1|apply RK1|apply RK1|].
  eapply Forall_impl; [|apply (wf_waits sc WF)]. intros a. destruct a; cbn; tauto.
Qed.

Definition WQ (w : wres) : Prop :=
  match w with WR s' _ => RK s' | WE s' => RK s' | WH _ => True end.

Lemma do_epoll_wait_R3 : forall s call maxev timeout, InvW s -> RK s -> WQ (do_epoll_wait sc s call maxev timeout).
Proof.
  intros s call maxev timeout I RKs. unfold do_epoll_wait.
  pose proof (wait_enter_QI s I RKs) as Q.
  destruct (wait_enter sc s) as [s1|s1]; [|exact Logic.I]. cbn [QI ARes] in Q. destruct Q as (I1 & R1 & K1). cbv zeta.
  set (s2 := emit s1 (TWait _ _ _ _ _ _)).
  assert (I2 : InvW s2) by (apply InvW_emit; [exact I1|discriminate..]).
  assert (RK2 : RK s2) by (apply RK_emit; [split; assumption|exact Logic.I]).
  destruct (mem_z _ _); cbn [WQ].
  - apply RK_emit; [|exact Logic.I]. destruct (0 <? timeout); [|exact RK2].
    apply RK_kern; [exact I2|exact RK2|reflexivity|reflexivity|apply KX_set_clock; apply RK2].
  - change (kern s2) with (kern s1).
    pose proof (sleep_fields (kern s1) maxev timeout (sc_rot sc (nwait (kern s1)))) as SF.
    pose proof (epoll_sleep_KX (kern s1) maxev timeout (sc_rot sc (nwait (kern s1))) K1) as SK.
    pose proof (epoll_sleep_spec (kern s1) maxev timeout (sc_rot sc (nwait (kern s1)))) as KS.
    destruct (k_epoll_sleep (kern s1) maxev timeout (sc_rot sc (nwait (kern s1)))) as [k1 evs|k1| |]; cbn [WQ];
      try exact Logic.I; try (destruct KS; fail).
    apply RK_emit; [|exact Logic.I]. apply RK_kern; [exact I2|exact RK2|apply SF|apply SF|apply SK].
Qed.

Lemma epoll_wait_m_R3 : forall s abs maxev, InvW s -> RK s -> WQ (epoll_wait_m sc s abs maxev).
Proof.
  intros s abs maxev I RKs. unfold epoll_wait_m.
  assert (TR : forall s0, InvW s0 -> RK s0 -> InvW (fst (to_relative s0 abs)) /\ RK (fst (to_relative s0 abs))).
  { intros s0 I0 RK0. unfold to_relative. destruct abs; cbn [fst]; [|split; assumption].
    split; [apply InvW_validate; exact I0|]. unfold validate_now. destruct (time_valid s0); [exact RK0|].
    apply (RK_same s0); [exact RK0|reflexivity..]. }
  assert (V : forall s0, InvW s0 -> RK s0 ->
    WQ (let '(s1, ms) := to_msec s0 abs in do_epoll_wait sc s1 0 maxev (if ms <? 0 then -1 else ms * 1000000))).
  { intros s0 I0 RK0. unfold to_msec. destruct (TR s0 I0 RK0) as [A B].
    destruct (to_relative s0 abs) as [s1 [r|]]; cbn [fst] in A, B; apply do_epoll_wait_R3; assumption. }
  destruct (pwait2 s); [|apply V; assumption].
  destruct (TR s I RKs) as [A B]. destruct (to_relative s abs) as [s1 rel]. cbn [fst] in A, B.
  destruct (no_pwait2 (flt (kern s1)) || perm_pwait2 (flt (kern s1))).
  - apply V; [apply (InvW_coresame s1); [constructor; reflexivity|apply (ms_nobad _ (iw_misc _ A))|exact A]|].
    apply (RK_same s1); [exact B|reflexivity..].
  - apply do_epoll_wait_R3; assumption.
Qed.

Lemma make_ready_kern : forall s k b, kern (make_ready s k b) = kern s.
Proof. intros s k b. unfold make_ready. destruct (mem_z k (active s)); reflexivity. Qed.

Lemma activate_kern : forall s k bits, kern (activate s k bits) = kern s.
Proof.
  intros s k bits. unfold activate.
  repeat match goal with |- context [if ?c then _ else _] => destruct c end; rewrite ?make_ready_kern; reflexivity.
Qed.

Lemma activate_RK : forall s k bits, RK s -> RK (activate s k bits).
Proof.
  intros s k bits RKs. apply (RK_same s); [exact RKs|apply activate_kern| | |].
  - destruct (lk_fields3 _ _ (proj1 (proj2 (activate_FF s k bits)))) as (_ & _ & A & _). exact A.
  - destruct (lk_fields3 _ _ (proj1 (proj2 (activate_FF s k bits)))) as (_ & _ & _ & A & _). exact A.
  - unfold activate. repeat match goal with |- context [if ?c then _ else _] => destruct c end;
      unfold make_ready; repeat match goal with |- context [if ?c then _ else _] => destruct c end; reflexivity.
Qed.

Lemma epoll_process_RK : forall evs s re tm, RK s -> RK (fst (fst (epoll_process s evs re tm))).
Proof.
  induction evs as [|[[fd bits] data] evs IH]; intros s re tm RKs; cbn [epoll_process]; [exact RKs|].
  destruct (data =? -1); [apply IH; exact RKs|]. destruct ((data =? -2) && (method s =? M_ET)); [apply IH; exact RKs|].
  apply IH. apply activate_RK. exact RKs.
Qed.

Lemma poll_activate_RK : forall keys revs s, RK s -> RK (poll_activate s keys revs).
Proof.
  induction keys as [|k keys IH]; intros revs s RKs; cbn [poll_activate]; [exact RKs|].
  destruct revs as [|r revs]; [exact RKs|]. apply IH. apply activate_RK. exact RKs.
Qed.

Lemma RK_read_tfd : forall s k1 x, InvW s -> RK s -> k_read (kern s) (tfd s) 8 = (k1, x) -> RK (set_kern s k1).
Proof.
  intros s k1 x I [R K] E. split.
  - pose proof (CNTx_read (kern s) (tfd s) 8) as C. rewrite E in C. cbn [fst] in C.
    apply (R3_F3 (fun y => y = tfd s) s _ R (F3_kern _ s k1 C)).
    intros j J RG. destruct (raw_facts s j I RG) as (L & EX & _). split; [exact L|]. split; [|exact EX].
    destruct (al_raw _ _ (InvW_AL s I) j RG) as (_ & N & _). exact N.
  - pose proof (KX_read (kern s) (tfd s) 8 K) as KR. rewrite E in KR. exact KR.
Qed.

Lemma epoll_poll_PQ : forall s abs, InvW s -> Q3 s -> TfdM s -> is_epoll s = true -> RK s ->
  PQ (fst (epoll_poll sc s abs)).
Proof.
  intros s abs I Q TM E RKs. unfold epoll_poll. cbv zeta.
  destruct (flush_pending_ok (S (length (notify s))) s I E ltac:(lia)) as (s1 & F1 & I1 & N1 & W1 & R1 & A1 & NF1 & KC1 & RB1).
  pose proof (CorePhase2TimeFr.flush_pending_FF (S (length (notify s))) s) as FP.
  pose proof (flush_pending_st0 (S (length (notify s))) s) as ST.
  rewrite F1 in *. unfold FFr in FP. cbn [res_state] in FP, ST.
  assert (RK1 : RK s1).
  { destruct RKs as [R K]. split; [apply (R3_F3n s s1 R (InvW_RawFacts s I)); apply FF_F3; exact FP|apply (s0_kx _ _ ST K)]. }
  assert (C1 : Ch s s1) by (apply Ch_restsame; [assumption|assumption|apply (rs_epfd _ _ R1)]).
  pose proof (TfdM_tm _ _ TM (proj1 (proj2 C1))) as T1.
  match goal with |- context [epoll_wait_m sc s1 abs ?m] => pose proof (epoll_wait_m_ok sc WF dok s1 abs m I1 T1) as WP;
    pose proof (epoll_wait_m_R3 s1 abs m I1 RK1) as WR3;
    destruct (epoll_wait_m sc s1 abs m) as [s2 evs|s2|r] end; cbn [WPost WQ] in WP, WR3.
  - destruct WP as (I2 & K2 & N2 & L2 & EV & RD). cbv zeta.
    pose proof (StepT_invalidate s2 I2) as S3. set (s3 := invalidate_now s2) in *.
    assert (RK3 : RK s3) by (apply (RK_same s2); [exact WR3|reflexivity..]).
    pose proof (epoll_process_ok evs s3 false false (proj1 S3) EV) as (I4 & A4 & TMR).
    pose proof (epoll_process_RK evs s3 false false RK3) as RK4.
    destruct (epoll_process s3 evs false false) as [[s4 re] tmr]. cbn [fst snd] in *.
    assert (P5 : ARes (fun s5 => InvW s5 /\ RK s5)
              (if tmr then match k_read (kern s4) (tfd s4) 8 with
                           | (k1, inl _) => R (set_kern s4 k1)
                           | (k1, inr _) => halt (set_kern s4 k1) TFatal end else R s4)).
    { destruct tmr; [|cbn [ARes]; split; assumption].
      destruct (TMR eq_refl) as [X|X]; [discriminate|]. destruct (RD X) as (v & V1 & V2 & V3).
      assert (KE : kern s4 = kern s2) by (rewrite (af_kern _ _ A4); reflexivity).
      assert (TE : tfd s4 = tfd s2) by (rewrite (af_tfd _ _ A4); reflexivity).
      pose proof (RK_read_tfd s4) as RR. pose proof (kstable_read (kern s4) (tfd s4) 8) as KS.
      destruct (k_read (kern s4) (tfd s4) 8) as [k1 [n|e]]; cbn [ARes fst] in *; [|exact Logic.I].
      split; [apply InvW_kstable; assumption|apply (RR k1 (inl n) I4 RK4 eq_refl)]. }
    destruct (if tmr then match k_read (kern s4) (tfd s4) 8 with
                           | (k1, inl _) => R (set_kern s4 k1)
                           | (k1, inr _) => halt (set_kern s4 k1) TFatal end else R s4) as [s5|s5]; cbn [bind ARes] in *; [|exact Logic.I].
    destruct P5 as [I5 RK5].
    destruct re; [|cbn [PQ ARes]; exact RK5].
    pose proof (run_pending_events_QI sc WF s5 I5 (proj1 RK5) (proj2 RK5)) as QQ.
    destruct (run_pending_events sc s5); cbn [QI PQ ARes] in *; [|exact Logic.I]. destruct QQ as (_ & A & B). split; assumption.
  - cbn [fst PQ ARes]. apply (RK_same s2); [exact WR3|reflexivity..].
  - cbn [fst]. destruct r; cbn [PQ ARes]; [destruct WP|exact Logic.I].
Qed.

Lemma do_poll_wait_PQ : forall s call timeout, InvW s -> RK s -> PQ (fst (do_poll_wait sc s call timeout)).
Proof.
  intros s call timeout I RKs. unfold do_poll_wait.
  pose proof (wait_enter_QI s I RKs) as Q.
  destruct (wait_enter sc s) as [s1|s1]; [|exact Logic.I]. cbn [QI ARes] in Q. destruct Q as (I1 & R1 & K1). cbv zeta.
  set (s2 := emit s1 (TWait _ _ _ _ _ _)).
  assert (I2 : InvW s2) by (apply InvW_emit; [exact I1|discriminate..]).
  assert (RK2 : RK s2) by (apply RK_emit; [split; assumption|exact Logic.I]).
  destruct (mem_z _ _); cbn [fst PQ ARes].
  - match goal with |- RK (invalidate_now ?X) => apply (RK_same X); [|reflexivity..] end.
    apply RK_emit; [|exact Logic.I]. destruct (0 <? timeout); [|exact RK2].
    apply RK_kern; [exact I2|exact RK2|reflexivity|reflexivity|apply KX_set_clock; apply RK2].
  - change (kern s2) with (kern s1). change (pfds s2) with (pfds s1).
    pose proof (poll_sleep_fields (kern s1) (pfds s1) timeout) as SF.
    pose proof (poll_sleep_KX (kern s1) (pfds s1) timeout K1) as SK.
    destruct (k_poll_sleep (kern s1) (pfds s1) timeout) as [k1 revs|]; cbn [fst PQ ARes]; [|exact Logic.I].
    apply poll_activate_RK.
    match goal with |- RK (invalidate_now ?X) => apply (RK_same X); [|reflexivity..] end.
    apply RK_emit; [|exact Logic.I]. apply RK_kern; [exact I2|exact RK2|apply SF|apply SF|apply SK].
Qed.

Lemma poll_poll_PQ : forall s abs, InvW s -> is_epoll s = false -> RK s -> PQ (fst (poll_poll sc s abs)).
Proof.
  intros s abs I IE RKs. unfold poll_poll.
  assert (TR : forall s0, InvW s0 -> RK s0 -> InvW (fst (to_relative s0 abs)) /\ RK (fst (to_relative s0 abs))).
  { intros s0 I0 RK0. unfold to_relative. destruct abs; cbn [fst]; [|split; assumption].
    split; [apply InvW_validate; exact I0|]. unfold validate_now. destruct (time_valid s0); [exact RK0|].
    apply (RK_same s0); [exact RK0|reflexivity..]. }
  assert (V : forall s0, InvW s0 -> RK s0 ->
    PQ (fst (let '(s1, ms) := to_msec s0 abs in do_poll_wait sc s1 2 (if ms <? 0 then -1 else ms * 1000000)))).
  { intros s0 I0 RK0. unfold to_msec. destruct (TR s0 I0 RK0) as [A B].
    destruct (to_relative s0 abs) as [s1 [r|]]; cbn [fst] in A, B; apply do_poll_wait_PQ; assumption. }
  destruct (method s =? M_PP) eqn:MP; [|apply V; assumption].
  destruct (TR s I RKs) as [A B]. pose proof (CoreRelWait.method_to_relative s abs) as MR.
  destruct (to_relative s abs) as [s1 rel]. cbn [fst] in A, B, MR.
  destruct (no_ppoll (flt (kern s1))).
  - apply V.
    + apply InvW_set_method; [apply InvW_invalidate; exact A| |unfold M_PO; lia].
      unfold is_epoll. cbn [method set_method invalidate_now set_time]. apply Z.eqb_eq in MP. rewrite MR, MP. reflexivity.
    + apply (RK_same s1); [exact B|reflexivity..].
  - apply do_poll_wait_PQ; assumption.
Qed.

Lemma m_poll_PQ : forall s abs, InvW s -> Q3 s -> TfdM s -> RK s -> PQ (fst (m_poll sc s abs)).
Proof.
  intros s abs I Q TM RKs. unfold m_poll. destruct (is_epoll s) eqn:IE; [apply epoll_poll_PQ|apply poll_poll_PQ]; assumption.
Qed.

(* ---------- the kernel-timer optimisation ---------- *)
Lemma tfd_settime_F3 : forall s d, F3n s (tfd_settime s d).
Proof.
  intros s d. unfold tfd_settime. eapply F3_trans; [apply F3_kern; apply CNT_settime|].
  constructor; [apply CNTx_refl|auto|auto|apply TrX_emit; exact Logic.I].
Qed.

Lemma set_poll_timeout_F3 : forall s a, F3r (fun _ => False) s (fst (set_poll_timeout s a)).
Proof.
  intros s a. unfold set_poll_timeout.
  destruct (tfd s =? -1); [|cbn [fst F3r]; apply tfd_settime_F3].
  pose proof (CNT_timerfd_create (kern s)) as KC.
  destruct (k_timerfd_create (kern s)) as [k1 [fd|e]]; cbn [fst] in KC.
  - set (s1 := set_epoll (set_kern s k1) (epfd s) fd (pwait2 s)).
    assert (A1 : F3n s s1).
    { eapply F3_trans; [apply F3_kern; exact KC|]. apply F3_plain; reflexivity. }
    destruct (ctl_retry s1 CTL_ADD fd B_IN (-2)) as [s2 r] eqn:CT.
    pose proof (ctl_retry_F3 _ _ _ _ _ _ _ CT) as A2.
    destruct r; cbn [fst F3r]; [exact Logic.I|].
    eapply F3_trans; [exact A1|]. eapply F3_trans; [exact A2|]. apply tfd_settime_F3.
  - cbn [fst F3r]. eapply F3_trans; [apply F3_kern; exact KC|]. apply F3_plain; reflexivity.
Qed.

Lemma timeout_check_F3 : forall s abs, F3r (fun _ => False) s (fst (timeout_check s abs)).
Proof.
  intros s abs. unfold timeout_check.
  destruct ((last_abs_count s =? 5) && (0 <=? abs_cmp abs (last_abs s))); [apply F3_refl|].
  set (s1 := if last_abs_count s =? 5 then tfd_settime s 0 else s).
  assert (A1 : F3n s s1) by (unfold s1; destruct (last_abs_count s =? 5); [apply tfd_settime_F3|apply F3_refl]).
  destruct (abs_cmp abs (last_abs s) =? 0).
  - set (s2 := if last_abs_count s1 <? 5 then set_last_abs s1 (last_abs s1) (last_abs_count s1 + 1) else s1).
    assert (A2 : F3n s1 s2) by (unfold s2; destruct (last_abs_count s1 <? 5); [apply F3_plain; reflexivity|apply F3_refl]).
    destruct (last_abs_count s2 =? 5); [|cbn [fst F3r]; eapply F3_trans; eassumption].
    destruct abs as [a|]; [|cbn [fst F3r]; eapply F3_trans; eassumption].
    pose proof (set_poll_timeout_F3 s2 a) as A3.
    destruct (fst (set_poll_timeout s2 a)); cbn [F3r] in *; [|exact Logic.I].
    eapply F3_trans; [exact A1|]. eapply F3_trans; [exact A2|exact A3].
  - destruct abs as [a|]; cbn [fst F3r]; (eapply F3_trans; [exact A1|apply F3_plain; reflexivity]).
Qed.

Lemma timeout_check_RK : forall s abs, InvW s -> RK s -> PQ (fst (timeout_check s abs)).
Proof.
  intros s abs I [R K]. pose proof (timeout_check_F3 s abs) as F. pose proof (timeout_check_st0 s abs) as ST.
  destruct (fst (timeout_check s abs)) as [s0|s0]; cbn [PQ ARes F3r res_state] in *; [|exact Logic.I].
  split; [apply (R3_F3n s s0 R (InvW_RawFacts s I) F)|apply (s0_kx _ _ ST K)].
Qed.

Lemma poll_and_run_PQ : forall s abs, LoopInv s -> RK s -> PQ (fst (poll_and_run sc s abs)).
Proof.
  intros s abs (I & Q & TM & AC) RKs. unfold poll_and_run.
  assert (DISP : forall r, okr (PollPost sc s) r -> PQ r ->
            PQ (bind r (fun s0 => dispatch_active sc (S (length (active s0))) s0))).
  { intros r OK P. destruct r as [s1|s1]; cbn [bind okr PQ ARes] in *; [|exact Logic.I].
    destruct OK as (I1 & _). destruct P as [R1 K1].
    pose proof (dispatch_active_QI sc WF (S (length (active s1))) s1 I1 R1 K1) as QQ.
    destruct (dispatch_active sc (S (length (active s1))) s1); cbn [QI ARes] in *; [|exact Logic.I]. destruct QQ as (_ & A & B). split; assumption. }
  assert (G : okr (PollPost sc s) (fst (if method s =? M_ET
      then match timeout_check s abs with
           | (Halt s0, _) => (Halt s0, true)
           | (R s0, true) => let '(r, rt) := m_poll sc s0 None in
                             (bind r (fun s1 => R (if rt then set_last_abs s1 (last_abs s1) 0 else s1)), rt)
           | (R s0, false) => m_poll sc s0 abs
           end
      else m_poll sc s abs)) /\ PQ (fst (if method s =? M_ET
      then match timeout_check s abs with
           | (Halt s0, _) => (Halt s0, true)
           | (R s0, true) => let '(r, rt) := m_poll sc s0 None in
                             (bind r (fun s1 => R (if rt then set_last_abs s1 (last_abs s1) 0 else s1)), rt)
           | (R s0, false) => m_poll sc s0 abs
           end
      else m_poll sc s abs))).
  { destruct (Z.eqb_spec (method s) M_ET) as [ME|NE]; [|split; [apply (m_poll_ok sc WF dok)|apply m_poll_PQ]; assumption].
    pose proof (timeout_check_ok sc WF dok s abs I ME) as TC. pose proof (timeout_check_RK s abs I RKs) as TR.
    destruct (timeout_check s abs) as [[s0|s0] fl]; cbn [fst okr PQ ARes] in TC, TR.
    2:{ cbn [fst]. split; [apply halts_okr; exact TC|exact Logic.I]. }
    destruct TC as (I0 & F0 & TM0 & IE0). pose proof (TcFr_Q3 _ _ F0 Q) as Q0.
    assert (NW0 : nwait (kern s0) = nwait (kern s)) by apply (tc_nwait _ _ F0).
    destruct fl.
    - pose proof (m_poll_ok sc WF dok s0 None I0 Q0 TM0) as MO. pose proof (m_poll_PQ s0 None I0 Q0 TM0 TR) as MP.
      destruct (m_poll sc s0 None) as [r rt]. cbn [fst] in *.
      destruct r as [s1|s1]; cbn [bind okr PQ ARes] in *.
      + split.
        * destruct MO as (A1 & A2 & A3 & A4 & A5).
          destruct rt; [|split; [exact A1|split; [exact A2|split; [exact A3|lia]]]].
          split; [apply (InvW_coresame s1); [constructor; reflexivity|apply (ms_nobad _ (iw_misc _ A1))|exact A1]|].
          split; [exact A2|split; [exact A3|cbn [kern set_last_abs]; lia]].
        * destruct rt; [apply (RK_same s1); [exact MP|reflexivity..]|exact MP].
      + split; [exact MO|exact Logic.I].
    - split; [apply (PollPost_pre sc s s0); [exact NW0|apply (m_poll_ok sc WF dok); assumption]|apply m_poll_PQ; assumption]. }
  destruct (if method s =? M_ET
      then match timeout_check s abs with
           | (Halt s0, _) => (Halt s0, true)
           | (R s0, true) => let '(r, rt) := m_poll sc s0 None in
                             (bind r (fun s1 => R (if rt then set_last_abs s1 (last_abs s1) 0 else s1)), rt)
           | (R s0, false) => m_poll sc s0 abs
           end
      else m_poll sc s abs) as [r rt]. cbn [fst] in *. apply DISP; apply G.
Qed.
End Wait.
