(* CoreRelFd.v -- the descriptor layer (Core/CoreFd.v) preserves the descriptor
   invariant FdI and is invisible to the tracker. *)
From Coq Require Import List ZArith Bool Lia.
From Ivv Require Import Core.Kernel Core.CoreTypes Core.CoreFd Core.CoreModel Core.Monitors
  Core.CoreRelBase Core.CoreRelMon Core.CoreRelDefs.
Import ListNotations.
Local Open Scope Z_scope.

(* a step inside the descriptor layer: only band sets / back-end bookkeeping change *)
Record Inner (s s' : core) : Prop := {
  in_same : Same s s';
  in_fd : forall i, fkeep (fdt s' i) (fdt s i) /\ wanted (fdt s' i) = wanted (fdt s i);
  in_active : active s' = active s;
  in_handled : handled s' = handled s }.

Lemma Inner_refl : forall s, Inner s s.
Proof. intros; constructor; try reflexivity; [apply Same_refl|]. intros; split; [apply fkeep_refl|reflexivity]. Qed.

Lemma Inner_trans : forall a b c, Inner a b -> Inner b c -> Inner a c.
Proof.
  intros a b c [] []. constructor; try congruence.
  - eapply Same_trans; eassumption.
  - intros i. destruct (in_fd0 i), (in_fd1 i). split; [eapply fkeep_trans; eassumption|congruence].
Qed.

Lemma Inner_is_epoll : forall s s', Inner s s' -> is_epoll s' = is_epoll s.
Proof. intros s s' [[] _ _ _]. unfold is_epoll. rewrite sm_method. reflexivity. Qed.

(* ---------- epoll back end ---------- *)
Lemma epoll_notify_spec : forall s k,
  exists N, epoll_notify_fd s k = set_notify s N /\
    (forall y, In y N -> In y (notify s) \/ y = k) /\
    (~ In k N -> regb (fdt s k) = wanted (fdt s k)).
Proof.
  intros s k. unfold epoll_notify_fd, getfd. cbn [fdt set_notify notify].
  destruct (Z.eqb_spec (regb (fdt s k)) (wanted (fdt s k))) as [E|N].
  - exists (remove_z k (notify s)). split; [reflexivity|split].
    + intros y H. apply In_remove_z in H. tauto.
    + intros _. assumption.
  - exists (remove_z k (notify s) ++ [k]). split; [reflexivity|split].
    + intros y H. apply in_app_or in H. destruct H as [H|[H|[]]]; [apply In_remove_z in H; tauto|auto].
    + intros H. exfalso. apply H. apply in_or_app. right. left. reflexivity.
Qed.

Lemma ctl_retry_spec : forall s op fd ev data s1 r, ctl_retry s op fd ev data = (s1, r) ->
  exists k', s1 = set_kern s k' /\ clock k' = clock (kern s) /\ flt k' = flt (kern s) /\
  match r with
  | Some _ => ep k' = ep (kern s)
  | None =>
      let ent := {| en_fd := fd; en_events := ev; en_data := data; en_enabled := true |} in
      if op =? CTL_ADD then ep k' = ep (kern s) ++ [ent]
      else if op =? CTL_MOD then ep k' = ep_replace (ep (kern s)) ent
      else ep k' = ep_remove (ep (kern s)) fd
  end.
Proof.
  intros s op fd ev data s1 r. unfold ctl_retry.
  destruct (k_epoll_ctl (kern s) op fd ev data) as [k1 r1] eqn:E1.
  apply epoll_ctl_spec in E1. destruct E1 as (C1 & F1 & P1).
  assert (DIRECT : (set_kern s k1, r1) = (s1, r) -> exists k', s1 = set_kern s k' /\ clock k' = clock (kern s) /\ flt k' = flt (kern s) /\
    match r with
    | Some _ => ep k' = ep (kern s)
    | None =>
      let ent := {| en_fd := fd; en_events := ev; en_data := data; en_enabled := true |} in
      if op =? CTL_ADD then ep k' = ep (kern s) ++ [ent]
      else if op =? CTL_MOD then ep k' = ep_replace (ep (kern s)) ent
      else ep k' = ep_remove (ep (kern s)) fd
    end).
  { intros E. inversion E; subst. exists k1. auto. }
  destruct r1 as [e1|]; [|assumption]. destruct e1; try assumption.
  destruct (k_epoll_ctl k1 op fd ev data) as [k2 r2] eqn:E2.
  apply epoll_ctl_spec in E2. destruct E2 as (C2 & F2 & P2).
  intros E. inversion E; subst. exists k2.
  split; [reflexivity|split; [congruence|split; [congruence|]]].
  rewrite <- P1. assumption.
Qed.

Lemma flush_one_spec : forall s x k s1 failed,
  epoll_flush_one_ s k = (s1, failed) -> FdI s x -> is_epoll s = true -> 0 <= k <= 32 ->
  (wanted (fdt s k) <> 0 -> registered (fdt s k) = true) ->
  Inner s s1 /\ FdI s1 x /\ pfds s1 = pfds s /\ pkeys s1 = pkeys s /\
  ~ In k (notify s1) /\ (forall y, In y (notify s1) -> In y (notify s)) /\
  (forall i, pidx (fdt s1 i) = pidx (fdt s i)) /\
  (forall i, i <> k -> regb (fdt s1 i) = regb (fdt s i)) /\
  (failed = false -> regb (fdt s1 k) = wanted (fdt s1 k)) /\
  (failed = true -> regb (fdt s1 k) = regb (fdt s k) /\ forall e, In e (ep (kern s1)) -> In e (ep (kern s))).
Proof.
  intros s x k s1 failed E I IE K W. unfold epoll_flush_one_ in E.
  set (s0 := set_notify s (remove_z k (notify s))) in E.
  assert (I0 : FdI s0 x).
  { eapply FdI_ext; try eassumption; try reflexivity; auto.
    - intros y H. cbn [s0 notify set_notify] in H. apply In_remove_z in H. tauto.
    - intros e H. exists e. auto.
    - intros i. apply gsame_refl. }
  assert (NK : ~ In k (notify s0)) by (cbn [s0 notify set_notify]; rewrite In_remove_z; tauto).
  assert (NS : forall y, In y (notify s0) -> In y (notify s)).
  { intros y H. cbn [s0 notify set_notify] in H. apply In_remove_z in H. tauto. }
  unfold getfd in E. change (fdt s0 k) with (fdt s k) in E.
  set (f := fdt s k) in *.
  destruct (Z.eqb_spec (regb f) (wanted f)) as [EQ|NE].
  { inversion E; subst s1 failed.
    split; [constructor; try reflexivity; [constructor; reflexivity|intros; split; [apply fkeep_refl|reflexivity]]|].
    split; [assumption|]. repeat split; try assumption; try reflexivity; try discriminate.
    intros _. exact EQ. }
  set (op := if (regb f =? 0) && negb (wanted f =? 0) then CTL_ADD
             else if negb (regb f =? 0) && (wanted f =? 0) then CTL_DEL else CTL_MOD) in E.
  destruct (ctl_retry s0 op (fdnum f) (epoll_mask (wanted f)) k) as [s1' r] eqn:CT.
  apply ctl_retry_spec in CT. destruct CT as (k' & -> & CK & FL & EP).
  cbn [s0 kern set_notify] in CK, FL, EP.
  destruct r as [err|].
  - (* epoll_ctl failed *)
    inversion E; subst s1 failed.
    assert (IN : Inner s (set_kern s0 k')).
    { constructor; try reflexivity.
      - constructor; try reflexivity; cbn [kern set_kern]; assumption.
      - intros; split; [apply fkeep_refl|reflexivity]. }
    split; [assumption|]. split.
    { eapply FdI_ext; try eassumption; try reflexivity; auto.
      - cbn [kern set_kern]. rewrite EP. intros e H. exists e. auto.
      - intros i. apply gsame_refl. }
    repeat split; try assumption; try reflexivity; try discriminate.
    cbn [kern set_kern]. rewrite EP. auto.
  - (* success *)
    inversion E; subst s1 failed. clear E.
    change (getfd (set_kern s0 k') k) with f.
    set (s1 := putfd (set_kern s0 k') k _).
    assert (FD : forall i, fdt s1 i = if i =? k then fd_with_regb f (wanted f) else fdt s i).
    { intros i. unfold s1, putfd, upd. reflexivity. }
    assert (IN : Inner s s1).
    { constructor; try reflexivity.
      - constructor; try reflexivity; cbn [kern set_kern s1 putfd set_fdt]; assumption.
      - intros i. rewrite FD. destruct (Z.eqb_spec i k) as [->|N]; [|split; [apply fkeep_refl|reflexivity]].
        repeat split. }
    split; [assumption|]. split.
    { assert (OLD : forall e, In e (ep (kern s)) -> (en_data e <> k \/ wanted f <> 0) -> ent_ok s1 x e).
      { intros e H Q. destruct (fi_ep s x I e H) as [D|[(D & D1 & D2)|(D & D1 & D2)]].
        - left; assumption.
        - right; left. split; [assumption|]. split; [assumption|]. cbn [s1 putfd set_fdt kern set_kern]. rewrite FL. assumption.
        - right; right. split.
          + eapply okk_ext; [eassumption|]. rewrite FD. destruct (Z.eqb_spec (en_data e) k) as [->|N]; reflexivity.
          + rewrite FD. destruct (Z.eqb_spec (en_data e) k) as [EK|N]; [|split; assumption].
            cbn [fdnum regb fd_with_regb fd_with_bands]. split; [rewrite D1, EK; reflexivity|].
            destruct Q as [Q|Q]; [contradiction|assumption]. }
      assert (NEW : wanted f <> 0 ->
                    ent_ok s1 x {| en_fd := fdnum f; en_events := epoll_mask (wanted f); en_data := k; en_enabled := true |}).
      { intros Q. right; right. cbn [en_data en_fd]. rewrite FD, Z.eqb_refl. cbn [fdnum regb fd_with_regb fd_with_bands].
        split; [|split; [reflexivity|assumption]].
        split; [assumption|]. intros _. rewrite FD, Z.eqb_refl. cbn [registered fd_with_regb fd_with_bands]. apply W. assumption. }
      apply (FdI_ext_ep s s1 x I); try reflexivity; auto.
      - intros i. rewrite FD. destruct (Z.eqb_spec i k) as [->|N]; split; reflexivity.
      - cbn [s1 putfd set_fdt kern set_kern]. intros e H.
        unfold op in EP.
        destruct (Z.eqb_spec (regb f) 0) as [R0|R0]; destruct (Z.eqb_spec (wanted f) 0) as [W0|W0];
          cbn [andb negb] in EP; unfold CTL_ADD, CTL_MOD, CTL_DEL in EP; cbn [Z.eqb Pos.eqb] in EP.
        + congruence.
        + rewrite EP in H. apply in_app_or in H. destruct H as [H|[H|[]]]; [apply OLD; auto|subst e; auto].
        + rewrite EP in H. apply In_ep_remove in H. destruct H as [H HN]. apply OLD; [assumption|]. left. intros EK.
          destruct (fi_ep s x I e H) as [D|[(D & _)|(D & D1 & D2)]]; [lia|lia|].
          apply HN. rewrite D1, EK. reflexivity.
        + rewrite EP in H. apply In_ep_replace in H. destruct H as [H|H]; [subst e; auto|apply OLD; auto].
      - rewrite IE. discriminate. }
    repeat split; try assumption; try reflexivity; try discriminate.
    + intros i. rewrite FD. destruct (Z.eqb_spec i k) as [->|N]; reflexivity.
    + intros i N. rewrite FD. destruct (Z.eqb_spec i k); [contradiction|reflexivity].
    + intros _. rewrite FD, Z.eqb_refl. reflexivity.
Qed.

(* ---------- results of descriptor-layer functions ---------- *)
Definition FdRes (s : core) (r : res) (P : core -> Prop) : Prop :=
  match r with R s' => P s' | Halt s' => HaltOf s s' end.

Lemma FdRes_bind : forall s r f (P Q : core -> Prop),
  FdRes s r P -> (forall s1, P s1 -> mst s1 = mst s /\ FdRes s1 (f s1) Q) -> FdRes s (bind r f) Q.
Proof.
  intros s r f P Q H K. destruct r as [s1|s1]; cbn [bind FdRes] in *; [|assumption].
  destruct (K s1 H) as [M F]. destruct (f s1) as [s2|s2]; cbn [FdRes] in *; [assumption|].
  eapply HaltOf_same; eassumption.
Qed.

Lemma FdRes_imp : forall s r (P Q : core -> Prop), FdRes s r P -> (forall s1, P s1 -> Q s1) -> FdRes s r Q.
Proof. intros s r P Q H K. destruct r; cbn [FdRes] in *; auto. Qed.

Lemma Inner_mst : forall s s', Inner s s' -> mst s' = mst s.
Proof. intros s s' [[] _ _ _]. assumption. Qed.

(* a step of the epoll back end *)
Definition EpStep (s s1 : core) (x : Z) : Prop :=
  Inner s s1 /\ FdI s1 x /\ pfds s1 = pfds s /\ pkeys s1 = pkeys s /\
  (forall y, In y (notify s1) -> In y (notify s)) /\ (forall i, pidx (fdt s1 i) = pidx (fdt s i)).

Lemma EpStep_refl : forall s x, FdI s x -> EpStep s s x.
Proof. intros s x I. split; [apply Inner_refl|]. split; [assumption|]. repeat split; auto. Qed.

Lemma EpStep_trans : forall a b c x, EpStep a b x -> EpStep b c x -> EpStep a c x.
Proof.
  intros a b c x (A1 & A2 & A3 & A4 & A5 & A6) (B1 & B2 & B3 & B4 & B5 & B6).
  split; [eapply Inner_trans; eassumption|]. split; [assumption|].
  split; [congruence|split; [congruence|split; [auto|]]]. intros i. rewrite B6. apply A6.
Qed.

Lemma flush_one_res : forall s x k, FdI s x -> is_epoll s = true -> 0 <= k <= 32 ->
  (wanted (fdt s k) <> 0 -> registered (fdt s k) = true) ->
  FdRes s (epoll_flush_one s k) (fun s1 => EpStep s s1 x /\ ~ In k (notify s1) /\
     (forall i, i <> k -> regb (fdt s1 i) = regb (fdt s i)) /\ regb (fdt s1 k) = wanted (fdt s1 k)).
Proof.
  intros s x k I IE K W. unfold epoll_flush_one.
  destruct (epoll_flush_one_ s k) as [s1 failed] eqn:E.
  destruct (flush_one_spec s x k s1 failed E I IE K W) as (A1 & A2 & A3 & A4 & A5 & A6 & A7 & A8 & A9 & A10).
  destruct failed; cbn [FdRes].
  - apply HaltOf_halt; [apply Inner_mst; assumption|left; reflexivity].
  - unfold EpStep. split; [split; [assumption|split; [assumption|repeat split; auto]]|]. repeat split; auto.
Qed.

Lemma flush_pending_res : forall fuel s, FdI s (-1) -> is_epoll s = true ->
  FdRes s (epoll_flush_pending fuel s) (fun s1 => EpStep s s1 (-1)).
Proof.
  induction fuel as [|fuel IH]; intros s I IE; cbn [epoll_flush_pending].
  - destruct (notify s) as [|k l]; cbn [FdRes]; [apply EpStep_refl; assumption|].
    apply HaltOf_halt; [reflexivity|right; left; reflexivity].
  - destruct (notify s) as [|k l] eqn:N; cbn [FdRes]; [apply EpStep_refl; assumption|].
    assert (OK : okk s (-1) k) by (apply (fi_notify s (-1) I); rewrite N; left; reflexivity).
    destruct OK as [K R].
    eapply FdRes_bind.
    + apply (flush_one_res s (-1) k I IE K). intros _. apply R. lia.
    + cbn beta. intros s1 (E1 & _). split; [apply Inner_mst; apply E1|].
      assert (IE1 : is_epoll s1 = true) by (rewrite (Inner_is_epoll s s1); [assumption|apply E1]).
      eapply FdRes_imp; [apply IH; [apply E1|assumption]|].
      cbn beta. intros s2 E2. eapply EpStep_trans; eassumption.
Qed.

Lemma epoll_unregister_res : forall s x k, FdI s x -> is_epoll s = true -> 0 <= k <= 32 ->
  (wanted (fdt s k) <> 0 -> registered (fdt s k) = true) ->
  FdRes s (epoll_unregister_fd s k) (fun s1 => EpStep s s1 x /\ ~ In k (notify s1) /\
     (forall i, i <> k -> regb (fdt s1 i) = regb (fdt s i)) /\
     ((~ In k (notify s) /\ regb (fdt s1 k) = regb (fdt s k)) \/ regb (fdt s1 k) = wanted (fdt s1 k))).
Proof.
  intros s x k I IE K W. unfold epoll_unregister_fd.
  destruct (mem_z k (notify s)) eqn:M.
  - eapply FdRes_imp; [apply (flush_one_res s x k I IE K W)|]. cbn beta.
    intros s1 (A & B & C & D). auto.
  - cbn [FdRes]. apply mem_z_false in M. split; [apply EpStep_refl; assumption|]. auto.
Qed.

(* ---------- list facts for the pollfd array ---------- *)
Lemma nth_error_snoc_inv : forall (A : Type) (l : list A) x n y,
  nth_error (l ++ [x]) n = Some y -> nth_error l n = Some y \/ (n = length l /\ y = x).
Proof.
  intros A l x n y H. destruct (Nat.lt_ge_cases n (length l)) as [L|G].
  - rewrite nth_error_app1 in H by assumption. auto.
  - rewrite nth_error_app2 in H by assumption. right.
    destruct (n - length l)%nat as [|m] eqn:E; cbn in H.
    + inversion H. split; [lia|reflexivity].
    + destruct m; discriminate.
Qed.

Lemma nth_error_firstn_inv : forall (A : Type) m (l : list A) n y,
  nth_error (firstn m l) n = Some y -> (n < m)%nat /\ nth_error l n = Some y.
Proof.
  intros A m. induction m as [|m IH]; intros l n y H; cbn [firstn] in H.
  - destruct n; discriminate.
  - destruct l as [|a l]; [destruct n; discriminate|].
    destruct n as [|n]; cbn [nth_error] in *; [split; [lia|assumption]|].
    apply IH in H. split; [lia|tauto].
Qed.

Lemma nth_error_set_nth_inv : forall (A : Type) (l : list A) p v n y,
  nth_error (set_nth l p v) n = Some y -> (n = p /\ y = v) \/ (n <> p /\ nth_error l n = Some y).
Proof.
  intros A l. induction l as [|a l IH]; intros p v n y H; cbn [set_nth] in H.
  - destruct n; discriminate.
  - destruct p as [|p].
    + destruct n as [|n]; cbn [nth_error] in *; [left; split; [reflexivity|congruence]|right; split; [lia|assumption]].
    + destruct n as [|n]; cbn [nth_error] in *; [right; split; [lia|assumption]|].
      apply IH in H. destruct H as [[E1 E2]|[E1 E2]]; [left; split; [lia|assumption]|right; split; [lia|assumption]].
Qed.

Lemma set_nth_length : forall (A : Type) (l : list A) p v, length (set_nth l p v) = length l.
Proof.
  intros A l. induction l as [|a l IH]; intros p v; cbn [set_nth]; [reflexivity|].
  destruct p; cbn [length]; [reflexivity|rewrite IH; reflexivity].
Qed.

Lemma nth_z_Some : forall (A : Type) (l : list A) i x, nth_z l i = Some x -> 0 <= i /\ nth_error l (Z.to_nat i) = Some x.
Proof. intros A l i x. unfold nth_z. destruct (Z.ltb_spec i 0); [discriminate|]. auto. Qed.

Lemma nth_z_None : forall (A : Type) (l : list A) i, nth_z l i = None -> i < 0 \/ Z.of_nat (length l) <= i.
Proof.
  intros A l i. unfold nth_z. destruct (Z.ltb_spec i 0); [auto|]. intros HN.
  apply nth_error_None in HN. right. lia.
Qed.

(* ---------- poll back end ---------- *)
Lemma fdt_putfd : forall s k f i, fdt (putfd s k f) i = if i =? k then f else fdt s i.
Proof. reflexivity. Qed.

Lemma FdI_ext_pk : forall s s' x, FdI s x ->
  active s' = active s -> handled s' = handled s -> notify s' = notify s -> method s' = method s ->
  kern s' = kern s ->
  (forall i, registered (fdt s' i) = registered (fdt s i) /\ fdnum (fdt s' i) = fdnum (fdt s i) /\
             regb (fdt s' i) = regb (fdt s i)) ->
  length (pfds s') = length (pkeys s') ->
  (is_epoll s = true -> pkeys s' = []) ->
  (forall n k, nth_error (pkeys s') n = Some k -> okk s x k /\ pidx (fdt s' k) = Z.of_nat n) ->
  FdI s' x.
Proof.
  intros s s' x [F1 F2 F3 F4 F5 F6 F7 F8] A H N M K G L E P.
  assert (OK : forall k, okk s x k -> okk s' x k).
  { intros k K0. eapply okk_ext; [eassumption|]. apply (G k). }
  assert (IE : is_epoll s' = is_epoll s) by (unfold is_epoll; rewrite M; reflexivity).
  constructor.
  - rewrite A. auto.
  - rewrite H. auto.
  - rewrite N. auto.
  - rewrite IE, N, K. assumption.
  - rewrite IE. assumption.
  - rewrite K. intros e I. destruct (F6 e I) as [D|[(D & D1 & D2)|(D & D1 & D2)]].
    + left; assumption.
    + right; left. rewrite M, K. auto.
    + right; right. destruct (G (en_data e)) as (G1 & G2 & G3). rewrite G2, G3. auto.
  - assumption.
  - intros n k I. destruct (P n k I). auto.
Qed.

Definition PoStep (s s1 : core) (x : Z) : Prop :=
  Inner s s1 /\ FdI s1 x /\ notify s1 = notify s /\ kern s1 = kern s /\
  (forall i, regb (fdt s1 i) = regb (fdt s i)).

Lemma PoStep_refl : forall s x, FdI s x -> PoStep s s x.
Proof. intros s x I. split; [apply Inner_refl|]. split; [assumption|]. repeat split; auto. Qed.

Lemma PoStep_trans : forall a b c x, PoStep a b x -> PoStep b c x -> PoStep a c x.
Proof.
  intros a b c x (A1 & A2 & A3 & A4 & A5) (B1 & B2 & B3 & B4 & B5).
  split; [eapply Inner_trans; eassumption|]. split; [assumption|].
  split; [congruence|split; [congruence|]]. intros i. rewrite B5. apply A5.
Qed.

Lemma poll_notify_res : forall s x k, FdI s x -> is_epoll s = false -> 0 <= k <= 32 ->
  (wanted (fdt s k) <> 0 -> registered (fdt s k) = true) ->
  FdRes s (poll_notify_fd s k) (fun s1 => PoStep s s1 x /\ (In k (pkeys s1) -> wanted (fdt s k) <> 0)).
Proof.
  intros s x k I IE K W. unfold poll_notify_fd, getfd.
  set (f := fdt s k). set (n := Z.of_nat (length (pfds s))).
  pose proof (fi_len s x I) as LEN.
  pose proof (fi_pkeys s x I) as PK.
  assert (NOEP : is_epoll s = true -> forall l : list Z, l = []) by (rewrite IE; discriminate).
  destruct (Z.eqb_spec (pidx f) (-1)) as [P1|P1]; destruct (Z.eqb_spec (wanted f) 0) as [W0|W0]; cbn [andb negb].
  - (* nothing to do *)
    cbn [FdRes]. split; [apply PoStep_refl; assumption|]. intros H.
    apply In_nth_error in H. destruct H as [p H]. destruct (PK p k H) as [_ Q]. fold f in Q. lia.
  - (* append *)
    destruct (65536 <=? n); [apply HaltOf_halt; [reflexivity|right; left; reflexivity]|].
    cbn [FdRes].
    set (s1 := putfd s k (fd_with_pidx f n)).
    set (s2 := set_poll s1 _ _).
    assert (FD : forall i, fdt s2 i = if i =? k then fd_with_pidx f n else fdt s i) by reflexivity.
    assert (IN : Inner s s2).
    { constructor; try reflexivity; [constructor; reflexivity|].
      intros i. rewrite FD. destruct (Z.eqb_spec i k) as [->|N]; repeat split. }
    split; [|intros _; assumption].
    split; [assumption|]. split; [|repeat split].
    + apply (FdI_ext_pk s s2 x I); try reflexivity.
      * intros i. rewrite FD. destruct (Z.eqb_spec i k) as [->|N]; repeat split.
      * cbn [s2 s1 pfds pkeys set_poll putfd set_fdt]. rewrite !app_length. cbn [length]. lia.
      * intros E. apply NOEP; assumption.
      * cbn [s2 s1 pkeys set_poll putfd set_fdt]. intros p y H.
        apply nth_error_snoc_inv in H. destruct H as [H|[H1 H2]].
        -- destruct (PK p y H) as [Q1 Q2]. split; [assumption|]. rewrite FD.
           destruct (Z.eqb_spec y k) as [->|N]; [fold f in Q2; lia|assumption].
        -- subst y. split; [split; [assumption|intros _; apply W; assumption]|].
           rewrite FD, Z.eqb_refl. cbn [pidx fd_with_pidx]. unfold n. rewrite LEN. lia.
    + intros i. rewrite FD. destruct (Z.eqb_spec i k) as [->|N]; reflexivity.
  - (* remove *)
    set (last := n - 1).
    destruct ((pidx f <? 0) || (last <? pidx f)) eqn:RG; [apply HaltOf_halt; [reflexivity|right; left; reflexivity]|].
    apply orb_false_iff in RG. destruct RG as [RG1 RG2]. apply Z.ltb_ge in RG1, RG2.
    set (L := Z.to_nat last).
    assert (LL : (L < length (pkeys s))%nat /\ Z.of_nat L = last) by (unfold L, last, n in *; lia).
    destruct LL as [LL LZ].
    destruct (nth_error (pkeys s) L) as [kl|] eqn:EKL; [|apply nth_error_None in EKL; lia].
    destruct (nth_error (pfds s) L) as [pl|] eqn:EPL; [|apply nth_error_None in EPL; lia].
    destruct (PK L kl EKL) as [OKL PIL].
    assert (NZK : nth_z (pkeys s) last = Some kl).
    { unfold nth_z. destruct (Z.ltb_spec last 0); [lia|]. exact EKL. }
    assert (NZP : nth_z (pfds s) last = Some pl).
    { unfold nth_z. destruct (Z.ltb_spec last 0); [lia|]. exact EPL. }
    rewrite NZK, NZP.
    set (P := Z.to_nat (pidx f)).
    cbn [FdRes].
    match goal with |- PoStep s ?S x /\ _ => set (s3 := S) end.
    (* the final table of objects and the final key array *)
    assert (FDK : forall i, i <> k -> i <> kl -> fdt s3 i = fdt s i).
    { intros i N1 N2. unfold s3. rewrite fdt_putfd. destruct (Z.eqb_spec i k); [contradiction|].
      destruct (negb (pidx f =? last)); cbn [fdt set_poll]; [|reflexivity].
      rewrite fdt_putfd. destruct (Z.eqb_spec i kl); [contradiction|reflexivity]. }
    assert (FDA : forall i, fkeep (fdt s3 i) (fdt s i) /\ wanted (fdt s3 i) = wanted (fdt s i) /\
                           regb (fdt s3 i) = regb (fdt s i)).
    { intros i. unfold s3. rewrite fdt_putfd. unfold getfd.
      destruct (negb (pidx f =? last)); cbn [fdt set_poll]; rewrite ?fdt_putfd; cbn [fdt set_poll];
        destruct (Z.eqb_spec i k) as [->|N1]; try destruct (Z.eqb_spec k kl) as [->|N2];
        try destruct (Z.eqb_spec i kl) as [->|N3]; repeat split. }
    assert (KLP : pidx f <> last -> kl <> k).
    { intros N ->. fold f in PIL. lia. }
    assert (FDL : pidx f <> last -> pidx (fdt s3 kl) = pidx f).
    { intros N. unfold s3. rewrite fdt_putfd. destruct (Z.eqb_spec kl k) as [E|_]; [exfalso; apply (KLP N E)|].
      destruct (Z.eqb_spec (pidx f) last); [contradiction|]. cbn [negb fdt set_poll]. rewrite fdt_putfd, Z.eqb_refl. reflexivity. }
    assert (PKS : pkeys s3 = firstn L (if negb (pidx f =? last) then set_nth (pkeys s) P kl else pkeys s)).
    { unfold s3. destruct (negb (pidx f =? last)); reflexivity. }
    assert (PFS : pfds s3 = firstn L (if negb (pidx f =? last) then set_nth (pfds s) P pl else pfds s)).
    { unfold s3. destruct (negb (pidx f =? last)); reflexivity. }
    assert (ENT : forall p y, nth_error (pkeys s3) p = Some y -> y <> k /\ okk s x y /\ pidx (fdt s3 y) = Z.of_nat p).
    { intros p y H. rewrite PKS in H. apply nth_error_firstn_inv in H. destruct H as [PL H].
      destruct (Z.eqb_spec (pidx f) last) as [EL|NL]; cbn [negb] in H.
      - destruct (PK p y H) as [Q1 Q2].
        assert (y <> k) by (intros ->; fold f in Q2; lia).
        split; [assumption|split; [assumption|]]. rewrite FDK; [assumption|assumption|].
        intros ->. lia.
      - apply nth_error_set_nth_inv in H. destruct H as [[H1 H2]|[H1 H2]].
        + subst y. split; [apply KLP; assumption|split; [assumption|]]. rewrite FDL by assumption. unfold P in H1. lia.
        + destruct (PK p y H2) as [Q1 Q2].
          assert (y <> k) by (intros ->; fold f in Q2; unfold P in H1; lia).
          split; [assumption|split; [assumption|]]. rewrite FDK; [assumption|assumption|]. intros ->. lia. }
    assert (IN : Inner s s3).
    { constructor.
      - unfold s3. destruct (negb (pidx f =? last)); constructor; reflexivity.
      - intros i. destruct (FDA i) as (A1 & A2 & _). auto.
      - unfold s3. destruct (negb (pidx f =? last)); reflexivity.
      - unfold s3. destruct (negb (pidx f =? last)); reflexivity. }
    split; [split; [assumption|split; [|repeat split]]|].
    + apply (FdI_ext_pk s s3 x I).
      * apply (in_active _ _ IN).
      * apply (in_handled _ _ IN).
      * unfold s3. destruct (negb (pidx f =? last)); reflexivity.
      * unfold s3. destruct (negb (pidx f =? last)); reflexivity.
      * unfold s3. destruct (negb (pidx f =? last)); reflexivity.
      * intros i. destruct (FDA i) as ((A1 & A2) & _ & A3). destruct A1 as (A1 & _). auto.
      * rewrite PKS, PFS. rewrite !firstn_length. destruct (negb (pidx f =? last)); rewrite ?set_nth_length; lia.
      * intros E. apply NOEP; assumption.
      * intros p y H. destruct (ENT p y H) as (_ & Q). exact Q.
    + unfold s3. destruct (negb (pidx f =? last)); reflexivity.
    + unfold s3. destruct (negb (pidx f =? last)); reflexivity.
    + intros i. apply FDA.
    + intros H. apply In_nth_error in H. destruct H as [p H]. destruct (ENT p k H) as (Q & _). contradiction.
  - (* new mask *)
    destruct (nth_z (pfds s) (pidx f)) as [pp|] eqn:NZ; [|apply HaltOf_halt; [reflexivity|right; left; reflexivity]].
    cbn [FdRes]. split; [|intros _; assumption].
    set (s1 := set_poll s _ _).
    split; [constructor; try reflexivity; [constructor; reflexivity|intros i; split; [apply fkeep_refl|reflexivity]]|].
    split; [|repeat split].
    apply (FdI_ext_pk s s1 x I); try reflexivity.
    + intros i. repeat split.
    + cbn [s1 pfds pkeys set_poll]. rewrite set_nth_length. assumption.
    + intros E. apply NOEP; assumption.
    + exact PK.
Qed.

(* ---------- method dispatch ---------- *)
Record InnerW (s s' : core) : Prop := {
  iw_same : Same s s';
  iw_fd : forall i, fkeep (fdt s' i) (fdt s i);
  iw_active : active s' = active s;
  iw_handled : handled s' = handled s }.

Lemma Inner_W : forall s s', Inner s s' -> InnerW s s'.
Proof. intros s s' [A B C D]. constructor; try assumption. intros i. apply (B i). Qed.

Lemma InnerW_refl : forall s, InnerW s s.
Proof. intros. apply Inner_W. apply Inner_refl. Qed.

Lemma InnerW_trans : forall a b c, InnerW a b -> InnerW b c -> InnerW a c.
Proof.
  intros a b c [A1 A2 A3 A4] [B1 B2 B3 B4]. constructor; try congruence.
  - eapply Same_trans; eassumption.
  - intros i. eapply fkeep_trans; [apply B2|apply A2].
Qed.

Lemma InnerW_mst : forall s s', InnerW s s' -> mst s' = mst s.
Proof. intros s s' [[] _ _ _]. assumption. Qed.

Lemma InnerW_is_epoll : forall s s', InnerW s s' -> is_epoll s' = is_epoll s.
Proof. intros s s' [[] _ _ _]. unfold is_epoll. rewrite sm_method. reflexivity. Qed.

Lemma FdI_set_notify : forall s x N, FdI s x -> is_epoll s = true ->
  (forall y, In y N -> okk s x y) -> FdI (set_notify s N) x.
Proof.
  intros s x N [F1 F2 F3 F4 F5 F6 F7 F8] IE OK.
  constructor; cbn [set_notify active handled notify kern pfds pkeys fdt]; try assumption.
  change (is_epoll (set_notify s N)) with (is_epoll s). rewrite IE. discriminate.
Qed.

Lemma m_notify_res : forall s x k, FdI s x -> 0 <= k <= 32 ->
  (k <> x -> registered (fdt s k) = true) ->
  (wanted (fdt s k) <> 0 -> registered (fdt s k) = true) ->
  FdRes s (m_notify_fd s k) (fun s1 => Inner s s1 /\ FdI s1 x /\
     (is_epoll s = true -> pfds s1 = pfds s /\ pkeys s1 = pkeys s /\ kern s1 = kern s /\
         (forall i, fdt s1 i = fdt s i) /\
         (~ In k (notify s1) -> regb (fdt s k) = wanted (fdt s k)) /\
         (forall y, In y (notify s1) -> In y (notify s) \/ y = k)) /\
     (is_epoll s = false -> kern s1 = kern s /\ notify s1 = notify s /\
         (forall i, regb (fdt s1 i) = regb (fdt s i)) /\
         (In k (pkeys s1) -> wanted (fdt s k) <> 0))).
Proof.
  intros s x k I K R W. unfold m_notify_fd. destruct (is_epoll s) eqn:IE.
  - cbn [FdRes]. destruct (epoll_notify_spec s k) as (N & -> & N1 & N2).
    split; [constructor; try reflexivity; [constructor; reflexivity|intros; split; [apply fkeep_refl|reflexivity]]|].
    split.
    + apply FdI_set_notify; try assumption. intros y H. destruct (N1 y H) as [H1| ->].
      * apply (fi_notify s x I). assumption.
      * split; assumption.
    + split; [|discriminate]. intros _. repeat split; try reflexivity; assumption.
  - eapply FdRes_imp; [apply (poll_notify_res s x k I IE K W)|]. cbn beta.
    intros s1 ((A1 & A2 & A3 & A4 & A5) & B). split; [assumption|split; [assumption|]].
    split; [discriminate|]. intros _. auto.
Qed.

Lemma recompute_gsame : forall f, gsame (recompute_wanted f) f.
Proof. intros; repeat split. Qed.

Lemma recompute_wanted_reg : forall f, wanted (recompute_wanted f) <> 0 -> registered f = true.
Proof.
  intros f. unfold recompute_wanted, fd_with_wanted, fd_with_bands. cbn [wanted].
  destruct (registered f); [reflexivity|]. intros H. exfalso. apply H. reflexivity.
Qed.

Lemma notify_fd_res : forall s x k, FdI s x -> 0 <= k <= 32 ->
  (k <> x -> registered (fdt s k) = true) ->
  FdRes s (notify_fd s k) (fun s1 => InnerW s s1 /\ FdI s1 x /\
     (registered (fdt s k) = false -> wanted (fdt s1 k) = 0) /\
     (is_epoll s = true -> pfds s1 = pfds s /\ pkeys s1 = pkeys s /\ kern s1 = kern s /\
         (forall i, regb (fdt s1 i) = regb (fdt s i)) /\
         (~ In k (notify s1) -> regb (fdt s1 k) = wanted (fdt s1 k)) /\
         (forall y, In y (notify s1) -> In y (notify s) \/ y = k)) /\
     (is_epoll s = false -> kern s1 = kern s /\ notify s1 = notify s /\
         (forall i, regb (fdt s1 i) = regb (fdt s i)) /\
         (In k (pkeys s1) -> registered (fdt s k) = true))).
Proof.
  intros s x k I K R. unfold notify_fd, getfd.
  set (s0 := putfd s k (recompute_wanted (fdt s k))).
  assert (I0 : FdI s0 x) by (apply FdI_putfd_gsame; [assumption|apply recompute_gsame]).
  assert (FD0 : fdt s0 k = recompute_wanted (fdt s k)) by (unfold s0; rewrite fdt_putfd, Z.eqb_refl; reflexivity).
  assert (IW0 : InnerW s s0).
  { constructor; try reflexivity; [constructor; reflexivity|]. intros i. unfold s0. rewrite fdt_putfd.
    destruct (Z.eqb_spec i k) as [->|N]; repeat split. }
  assert (RG0 : forall i, regb (fdt s0 i) = regb (fdt s i)).
  { intros i. unfold s0. rewrite fdt_putfd. destruct (Z.eqb_spec i k) as [->|N]; reflexivity. }
  eapply FdRes_imp.
  - apply (m_notify_res s0 x k I0 K).
    + rewrite FD0. exact R.
    + rewrite FD0. intros H. apply recompute_wanted_reg in H. assumption.
  - cbn beta. intros s1 (A & B & C & D).
    split; [eapply InnerW_trans; [eassumption|apply Inner_W; assumption]|].
    split; [assumption|]. split; [|split].
    + intros U. destruct (in_fd _ _ A k) as [_ WQ]. rewrite WQ, FD0.
      unfold recompute_wanted, fd_with_wanted, fd_with_bands. cbn [wanted]. rewrite U. reflexivity.
    + intros IE. destruct (C IE) as (C1 & C2 & C3 & C4 & C5 & C6).
      repeat split; try assumption.
      * intros i. rewrite C4. apply RG0.
      * intros H. rewrite !C4. apply C5. assumption.
    + intros IE. destruct (D IE) as (D1 & D2 & D3 & D4).
      repeat split; try assumption.
      * intros i. rewrite D3. apply RG0.
      * intros H. rewrite FD0 in D4. apply recompute_wanted_reg. apply D4. assumption.
Qed.

(* ---------- iv_fd_register / register_try / unregister / set_handler ---------- *)
Record FdTop (s s' : core) (k : Z) : Prop := {
  ft_same : Same s s';
  ft_h : forall i, hsame (fdt s' i) (fdt s i);
  ft_reg : forall i, i <> k -> registered (fdt s' i) = registered (fdt s i);
  ft_active : forall y, In y (active s') -> In y (active s);
  ft_handled : handled s' = handled s \/ handled s' = None }.

Lemma FdTop_W : forall s s1 s2 k, FdTop s s1 k -> InnerW s1 s2 -> FdTop s s2 k.
Proof.
  intros s s1 s2 k [A1 A2 A3 A4 A5] [B1 B2 B3 B4]. constructor.
  - eapply Same_trans; eassumption.
  - intros i. eapply hsame_trans; [apply (B2 i)|apply A2].
  - intros i N. destruct (B2 i) as [_ E]. rewrite E. auto.
  - rewrite B3. assumption.
  - rewrite B4. assumption.
Qed.

Lemma noref_ext : forall s s' k, noref s k ->
  (forall y, In y (active s') -> In y (active s)) -> (handled s' = handled s \/ handled s' = None) ->
  (forall y, In y (notify s') -> In y (notify s) \/ y <> k) ->
  (forall e, In e (ep (kern s')) -> In e (ep (kern s)) \/ en_data e <> k) ->
  (forall y, In y (pkeys s') -> In y (pkeys s) \/ y <> k) -> noref s' k.
Proof.
  intros s s' k (N1 & N2 & N3 & N4 & N5) A H N E P. repeat split.
  - intros I. apply N1. auto.
  - destruct H as [H|H]; rewrite H; [assumption|discriminate].
  - intros I. destruct (N k I); [auto|congruence].
  - intros e I. destruct (E e I); [auto|assumption].
  - intros I. destruct (P k I); [auto|congruence].
Qed.

Lemma prologue_spec : forall s k, FdI s (-1) -> 0 <= k <= 32 -> registered (fdt s k) = false ->
  let s0 := register_prologue s k in
  FdTop s s0 k /\ FdI s0 (-1) /\ noref s0 k /\ registered (fdt s0 k) = true /\ regb (fdt s0 k) = 0 /\
  active s0 = active s /\ handled s0 = handled s /\ is_epoll s0 = is_epoll s.
Proof.
  intros s k I K U s0. pose proof (FdI_noref s k I ltac:(lia) U) as NR.
  unfold s0, register_prologue, getfd.
  match goal with |- FdTop s (putfd s k ?F) k /\ _ => set (f0 := F) end.
  assert (RF : registered f0 = true /\ regb f0 = 0 /\ hsame f0 (fdt s k)).
  { unfold f0. destruct (is_epoll s); repeat split. }
  destruct RF as (R1 & R2 & R3).
  split; [|split; [apply FdI_putfd_noref; assumption|split; [exact NR|]]].
  - constructor; try reflexivity; auto.
    + constructor; reflexivity.
    + intros i. rewrite fdt_putfd. destruct (Z.eqb_spec i k) as [->|N]; [assumption|apply hsame_refl].
    + intros i N. rewrite fdt_putfd. destruct (Z.eqb_spec i k); [contradiction|reflexivity].
  - rewrite fdt_putfd, Z.eqb_refl. repeat split; assumption.
Qed.

Lemma epilogue_spec : forall s x, FdI s x -> InnerW s (register_epilogue s) /\ FdI (register_epilogue s) x.
Proof.
  intros s x I. split.
  - constructor; try reflexivity; [constructor; reflexivity|intros; apply fkeep_refl].
  - eapply FdI_ext; try eassumption; try reflexivity; auto.
    + intros e H. exists e. auto.
    + intros i. apply gsame_refl.
Qed.

Lemma fd_register_res : forall s k, FdI s (-1) -> 0 <= k <= 32 -> registered (fdt s k) = false ->
  FdRes s (fd_register s k) (fun s' => FdTop s s' k /\ registered (fdt s' k) = true /\ FdI s' (-1)).
Proof.
  intros s k I K U. unfold fd_register.
  destruct (prologue_spec s k I K U) as (T0 & I0 & _ & R0 & _).
  set (s0 := register_prologue s k) in *.
  assert (M0 : mst s0 = mst s) by (apply (sm_mst _ _ (ft_same _ _ _ T0))).
  eapply FdRes_bind with (P := fun s1 => mst s1 = mst s /\ FdTop s s1 k /\ registered (fdt s1 k) = true /\ FdI s1 (-1)).
  - assert (Q := notify_fd_res s0 (-1) k I0 K (fun _ => R0)).
    destruct (notify_fd s0 k) as [s1|s1]; cbn [FdRes] in *.
    + destruct Q as (A & B & _). split; [rewrite (InnerW_mst _ _ A); assumption|].
      split; [eapply FdTop_W; eassumption|]. split; [|assumption].
      destruct (iw_fd _ _ A k) as [_ E]. rewrite E. assumption.
    + eapply HaltOf_same; eassumption.
  - cbn beta. intros s1 (M1 & T1 & R1 & I1). split; [assumption|]. cbn [FdRes].
    destruct (epilogue_spec s1 (-1) I1) as [W2 I2].
    split; [eapply FdTop_W; eassumption|]. split; [|assumption].
    destruct (iw_fd _ _ W2 k) as [_ E]. rewrite E. assumption.
Qed.

Lemma ent_data_ne : forall s x e k, ent_ok s x e -> 0 <= k -> regb (fdt s k) = 0 -> en_data e <> k.
Proof.
  intros s x e k [D|[(D & _)|(_ & _ & D)]] K R E; [lia|lia|]. rewrite E in D. contradiction.
Qed.

Lemma fd_unregister_res : forall s k, FdI s (-1) -> 0 <= k <= 32 ->
  FdRes s (fd_unregister s k) (fun s' => FdTop s s' k /\ registered (fdt s' k) = false /\ FdI s' (-1) /\
                                         (cur s' = cur s)).
Proof.
  intros s k I K. unfold fd_unregister, getfd.
  match goal with |- FdRes s (bind (notify_fd ?S k) _) _ => set (s0 := S) end.
  assert (FD0 : forall i, fdt s0 i = if i =? k then fd_with_registered (fdt s k) false else fdt s i) by reflexivity.
  assert (U0 : registered (fdt s0 k) = false) by (rewrite FD0, Z.eqb_refl; reflexivity).
  assert (T0 : FdTop s s0 k).
  { constructor; try reflexivity; auto.
    - constructor; reflexivity.
    - intros i. rewrite FD0. destruct (Z.eqb_spec i k) as [->|N]; repeat split.
    - intros i N. rewrite FD0. destruct (Z.eqb_spec i k); [contradiction|reflexivity].
    - intros y H. cbn [s0 active set_active] in H. apply In_remove_z in H. tauto. }
  assert (I0 : FdI s0 k).
  { pose proof (FdI_weaken s k I) as Ik. destruct Ik as [F1 F2 F3 F4 F5 F6 F7 F8].
    assert (OK : forall y, okk s k y -> okk s0 k y).
    { intros y [Y1 Y2]. split; [assumption|]. intros N. rewrite FD0.
      destruct (Z.eqb_spec y k); [contradiction|auto]. }
    constructor.
    - intros y H. change (In y (remove_z k (active s))) in H. apply In_remove_z in H. apply OK. apply F1. tauto.
    - intros y H. apply OK. apply F2. exact H.
    - intros y H. apply OK. apply F3. exact H.
    - exact F4.
    - exact F5.
    - intros e H. change (In e (ep (kern s))) in H.
      destruct (F6 e H) as [D|[D|(D & D1 & D2)]]; [left; assumption|right; left; exact D|].
      right; right. split; [apply OK; assumption|]. rewrite FD0.
      destruct (Z.eqb_spec (en_data e) k) as [EK|N]; [rewrite EK in *|]; split; assumption.
    - exact F7.
    - intros n y H. change (nth_error (pkeys s) n = Some y) in H.
      destruct (F8 n y H) as [Q1 Q2]. split; [apply OK; assumption|].
      rewrite FD0. destruct (Z.eqb_spec y k) as [->|N]; assumption. }
  assert (A0 : ~ In k (active s0)) by (cbn [s0 active set_active]; rewrite In_remove_z; tauto).
  assert (M0 : mst s0 = mst s) by reflexivity.
  assert (IE0 : is_epoll s0 = is_epoll s) by reflexivity.
  pose proof (notify_fd_res s0 k k I0 K (fun N => False_ind _ (N eq_refl))) as Q.
  (* the tail of the function *)
  set (fin := fun s : core =>
     let s := set_numfds (set_numobjs s (numobjs s - 1)) (numfds s - 1) in
     R (match handled s with
        | Some h => if h =? k then set_handled s None else s
        | None => s
        end)).
  assert (FIN : forall s3, FdTop s s3 k -> registered (fdt s3 k) = false -> FdI s3 k ->
            ~ In k (active s3) -> ~ In k (notify s3) -> (forall e, In e (ep (kern s3)) -> en_data e <> k) ->
            ~ In k (pkeys s3) -> cur s3 = cur s ->
            FdRes s3 (fin s3) (fun s' => FdTop s s' k /\ registered (fdt s' k) = false /\ FdI s' (-1) /\ cur s' = cur s)).
  { intros s3 T3 U3 I3 N1 N3 N4 N5 C3. unfold fin. cbv zeta. cbn [FdRes].
    set (s4 := set_numfds _ _).
    match goal with |- FdTop s ?S k /\ _ => set (s5 := S) end.
    assert (W5 : Same s3 s5 /\ fdt s5 = fdt s3 /\ active s5 = active s3 /\ handled s5 <> Some k /\
                 (handled s5 = handled s3 \/ handled s5 = None) /\
                 notify s5 = notify s3 /\ kern s5 = kern s3 /\ pfds s5 = pfds s3 /\ pkeys s5 = pkeys s3 /\
                 method s5 = method s3 /\ cur s5 = cur s3).
    { unfold s5. change (handled s4) with (handled s3).
      destruct (handled s3) as [h|] eqn:H3.
      - destruct (Z.eqb_spec h k) as [->|N].
        + split; [constructor; reflexivity|]. repeat split; try reflexivity; try discriminate. right; reflexivity.
        + split; [constructor; reflexivity|]. repeat split; try reflexivity.
          * change (handled s4) with (handled s3). rewrite H3. congruence.
          * left. change (handled s4) with (handled s3). first [assumption|reflexivity].
      - split; [constructor; reflexivity|]. repeat split; try reflexivity.
        + change (handled s4) with (handled s3). rewrite H3. discriminate.
        + left. change (handled s4) with (handled s3). first [assumption|reflexivity]. }
    clearbody s5. destruct W5 as (W1 & W2 & W3 & W4 & W5 & W6 & W7 & W8 & W9 & W10 & W11).
    destruct T3 as [A1 A2 A3 A4 A5].
    split; [|split; [rewrite W2; assumption|split; [|congruence]]].
    - constructor.
      + eapply Same_trans; eassumption.
      + intros i. rewrite W2. apply A2.
      + intros i N. rewrite W2. auto.
      + rewrite W3. assumption.
      + destruct W5 as [W5|W5]; rewrite W5; auto.
    - apply (FdI_close s5 k); [|right].
      + apply (FdI_ext s3 s5 k I3); try congruence.
        * rewrite W7. intros e H. exists e. auto.
        * intros i. rewrite W2. apply gsame_refl.
      + repeat split; try congruence.
        * rewrite W7. assumption. }
  destruct (notify_fd s0 k) as [s1|s1] eqn:NF; cbn [bind FdRes] in *; [|eapply HaltOf_same; eassumption].
  destruct Q as (Q1 & Q2 & Q3 & Q4 & Q5).
  specialize (Q3 U0).
  assert (M1 : mst s1 = mst s) by (rewrite (InnerW_mst _ _ Q1); assumption).
  assert (T1 : FdTop s s1 k) by (eapply FdTop_W; eassumption).
  assert (U1 : registered (fdt s1 k) = false) by (destruct (iw_fd _ _ Q1 k) as [_ E]; rewrite E; assumption).
  assert (A1 : ~ In k (active s1)) by (rewrite (iw_active _ _ Q1); assumption).
  assert (IE1 : is_epoll s1 = is_epoll s) by (rewrite (InnerW_is_epoll _ _ Q1); assumption).
  assert (C1 : cur s1 = cur s) by (rewrite (sm_cur _ _ (iw_same _ _ Q1)); reflexivity).
  rewrite IE1. destruct (is_epoll s) eqn:IE.
  - (* epoll *)
    rewrite IE0 in Q4. destruct (Q4 eq_refl) as (P1 & P2 & P3 & P4 & P5 & P6).
    assert (W1 : wanted (fdt s1 k) <> 0 -> registered (fdt s1 k) = true) by (rewrite Q3; intros H; exfalso; apply H; reflexivity).
    pose proof (epoll_unregister_res s1 k k Q2 IE1 K W1) as R.
    destruct (epoll_unregister_fd s1 k) as [s2|s2]; cbn [bind FdRes] in *;
      [|eapply HaltOf_same; [|eassumption]; assumption].
    destruct R as ((E1 & E2 & E3 & E4 & E5 & E6) & R2 & R3 & R4).
    assert (RB : regb (fdt s2 k) = 0).
    { destruct (in_fd _ _ E1 k) as [_ WQ]. destruct R4 as [[R4 R5]|R4].
      - rewrite R5. rewrite P5 by assumption. assumption.
      - rewrite R4, WQ. assumption. }
    assert (G : FdRes s2 (fin s2) (fun s' => FdTop s s' k /\ registered (fdt s' k) = false /\ FdI s' (-1) /\ cur s' = cur s)).
    { apply FIN.
      - eapply FdTop_W; [eassumption|apply Inner_W; assumption].
      - destruct (in_fd _ _ E1 k) as [[_ E] _]. rewrite E. assumption.
      - assumption.
      - rewrite (in_active _ _ E1). assumption.
      - assumption.
      - intros e H. eapply ent_data_ne; [apply (fi_ep s2 k E2 e H)|lia|assumption].
      - rewrite E4, P2. intros H. pose proof (fi_noepoll s (-1) I IE) as PE.
        change (pkeys s0) with (pkeys s) in H. rewrite PE in H. destruct H.
      - rewrite (sm_cur _ _ (in_same _ _ E1)). assumption. }
    unfold fin in G. cbv zeta in G. exact G.
  - (* poll *)
    rewrite IE0 in Q5. destruct (Q5 eq_refl) as (P1 & P2 & P3 & P4).
    cbn [bind].
    assert (G : FdRes s1 (fin s1) (fun s' => FdTop s s' k /\ registered (fdt s' k) = false /\ FdI s' (-1) /\ cur s' = cur s)).
    { destruct (fi_nopoll s (-1) I IE) as [NN NE].
      apply FIN; try assumption.
      - rewrite P2. change (notify s0) with (notify s). rewrite NN. intros [].
      - rewrite P1. change (kern s0) with (kern s). rewrite NE. intros e [].
      - intros H. apply P4 in H. congruence. }
    unfold fin in G. cbv zeta in G. exact G.
Qed.

Lemma fd_set_handler_res : forall s k band h, FdI s (-1) -> 0 <= k <= 32 ->
  let f := fdt s k in
  let f' := if band =? 0 then fd_with_handlers f h (h_out f) (h_err f)
            else if band =? 1 then fd_with_handlers f (h_in f) h (h_err f)
            else fd_with_handlers f (h_in f) (h_out f) h in
  FdRes s (fd_set_handler s k band h) (fun s' => InnerW (putfd s k f') s' /\ FdI s' (-1)).
Proof.
  intros s k band h I K f f'. unfold fd_set_handler, getfd. fold f. fold f'.
  assert (G : gsame f' f) by (unfold f'; destruct (band =? 0); [|destruct (band =? 1)]; repeat split).
  assert (I0 : FdI (putfd s k f') (-1)) by (apply FdI_putfd_gsame; assumption).
  destruct (registered f) eqn:RG.
  - assert (R0 : registered (fdt (putfd s k f') k) = true).
    { rewrite fdt_putfd, Z.eqb_refl. destruct G as (G1 & _). rewrite G1. assumption. }
    pose proof (notify_fd_res (putfd s k f') (-1) k I0 K (fun _ => R0)) as Q.
    destruct (notify_fd (putfd s k f') k) as [s1|s1]; cbn [FdRes] in *.
    + destruct Q as (A & B & _). auto.
    + eapply HaltOf_same; [|eassumption]. reflexivity.
  - cbn [FdRes]. split; [apply InnerW_refl|assumption].
Qed.

Lemma make_ready_spec : forall s x k bands, FdI s x -> okk s x k ->
  let s' := make_ready s k bands in
  Same s s' /\ (forall i, fkeep (fdt s' i) (fdt s i)) /\ handled s' = handled s /\ FdI s' x.
Proof.
  intros s x k bands I OK s'. unfold s', make_ready, getfd.
  destruct (mem_z k (active s)) eqn:M.
  - split; [constructor; reflexivity|]. split; [|split; [reflexivity|]].
    + intros i. rewrite fdt_putfd. destruct (Z.eqb_spec i k) as [->|N]; repeat split.
    + apply FdI_putfd_gsame; [assumption|repeat split].
  - set (s1 := set_active _ _).
    assert (I1 : FdI s1 x).
    { destruct I as [F1 F2 F3 F4 F5 F6 F7 F8].
      assert (FD : forall i, gsame (fdt s1 i) (fdt s i)).
      { intros i. unfold s1. cbn [fdt set_active]. rewrite fdt_putfd. destruct (Z.eqb_spec i k) as [->|N]; repeat split. }
      assert (OK1 : forall y, okk s x y -> okk s1 x y).
      { intros y Y. eapply okk_ext; [eassumption|]. apply (FD y). }
      constructor.
      - intros y H. change (In y (active s ++ [k])) in H. apply in_app_or in H.
        destruct H as [H|[H|[]]]; [apply OK1; auto|subst y; apply OK1; assumption].
      - intros y H. apply OK1. apply F2. exact H.
      - intros y H. apply OK1. apply F3. exact H.
      - exact F4.
      - exact F5.
      - intros e H. change (In e (ep (kern s))) in H.
        destruct (F6 e H) as [D|[D|(D & D1 & D2)]]; [left; assumption|right; left; exact D|].
        right; right. destruct (FD (en_data e)) as (G1 & G2 & G3 & G4). rewrite G2, G3. auto.
      - exact F7.
      - intros n y H. change (nth_error (pkeys s) n = Some y) in H. destruct (F8 n y H) as [Q1 Q2].
        destruct (FD y) as (_ & _ & _ & G4). rewrite G4. auto. }
    split; [constructor; reflexivity|]. split; [|split; [reflexivity|]].
    + intros i. rewrite fdt_putfd. unfold s1. cbn [fdt set_active]. rewrite !fdt_putfd, Z.eqb_refl.
      destruct (Z.eqb_spec i k) as [->|N]; repeat split.
    + apply FdI_putfd_gsame; [assumption|repeat split].
Qed.

Lemma activate_spec : forall s x k bits, FdI s x -> okk s x k ->
  let s' := activate s k bits in
  Same s s' /\ (forall i, fkeep (fdt s' i) (fdt s i)) /\ handled s' = handled s /\ FdI s' x.
Proof.
  intros s x k bits I OK.
  assert (STEP : forall s0 b (c : bool), Same s s0 /\ (forall i, fkeep (fdt s0 i) (fdt s i)) /\ handled s0 = handled s /\ FdI s0 x ->
     let s1 := if c then make_ready s0 k b else s0 in
     Same s s1 /\ (forall i, fkeep (fdt s1 i) (fdt s i)) /\ handled s1 = handled s /\ FdI s1 x).
  { intros s0 b c (A & B & C & D). destruct c; cbn zeta; [|auto].
    assert (OK0 : okk s0 x k) by (eapply okk_ext; [eassumption|]; apply (B k)).
    destruct (make_ready_spec s0 x k b D OK0) as (A1 & B1 & C1 & D1).
    split; [eapply Same_trans; eassumption|]. split; [|split; [congruence|assumption]].
    intros i. eapply fkeep_trans; [apply B1|apply B]. }
  unfold activate. cbv zeta.
  apply STEP. apply STEP. apply STEP.
  split; [apply Same_refl|]. split; [intros; apply fkeep_refl|]. auto.
Qed.

(* ---------- iv_fd_register_try ---------- *)
Lemma FdTop_putfd_k : forall s s4 k f, FdTop s s4 k -> hsame f (fdt s4 k) -> FdTop s (putfd s4 k f) k.
Proof.
  intros s s4 k f [A1 A2 A3 A4 A5] H. constructor; try assumption.
  - eapply Same_trans; [eassumption|constructor; reflexivity].
  - intros i. rewrite fdt_putfd. destruct (Z.eqb_spec i k) as [->|N]; [|apply A2].
    eapply hsame_trans; [eassumption|apply A2].
  - intros i N. rewrite fdt_putfd. destruct (Z.eqb_spec i k); [contradiction|auto].
Qed.

Lemma try_fail_cont : forall s s4 k, FdTop s s4 k -> FdI s4 (-1) -> noref s4 k -> 0 <= k <= 32 ->
  FdRes s4 (let s5 := putfd s4 k (fd_with_registered (getfd s4 k) false) in
            if is_epoll s5 then epoll_unregister_fd s5 k else R s5)
    (fun s' => FdTop s s' k /\ registered (fdt s' k) = false /\ FdI s' (-1)).
Proof.
  intros s s4 k T I NR K. cbv zeta.
  set (s5 := putfd s4 k _).
  assert (G : FdTop s s5 k /\ registered (fdt s5 k) = false /\ FdI s5 (-1)).
  { split; [apply FdTop_putfd_k; [assumption|repeat split]|].
    split; [unfold s5; rewrite fdt_putfd, Z.eqb_refl; reflexivity|].
    apply FdI_putfd_noref; assumption. }
  destruct (is_epoll s5); [|exact G].
  unfold epoll_unregister_fd.
  assert (M : mem_z k (notify s5) = false).
  { apply mem_z_false. destruct NR as (_ & _ & N3 & _). exact N3. }
  rewrite M. exact G.
Qed.

Lemma try_success_cont : forall s s4 k (o : bool), FdTop s s4 k -> registered (fdt s4 k) = true ->
  FdI s4 (-1) -> 0 <= k <= 32 ->
  FdRes s4 (bind (if o then m_notify_fd (putfd s4 k (fd_with_wanted (getfd s4 k) 0)) k else R s4)
                 (fun s => R (register_epilogue s)))
    (fun s' => FdTop s s' k /\ registered (fdt s' k) = true /\ FdI s' (-1)).
Proof.
  intros s s4 k o T RG I K.
  assert (FIN : forall s6, InnerW s4 s6 -> FdI s6 (-1) ->
            FdTop s (register_epilogue s6) k /\ registered (fdt (register_epilogue s6) k) = true /\
            FdI (register_epilogue s6) (-1)).
  { intros s6 W6 I6. destruct (epilogue_spec s6 (-1) I6) as [W7 I7].
    pose proof (InnerW_trans _ _ _ W6 W7) as W.
    split; [eapply FdTop_W; eassumption|]. split; [|assumption].
    destruct (iw_fd _ _ W k) as [_ E]. rewrite E. assumption. }
  destruct o; cbn [bind FdRes]; [|apply FIN; [apply InnerW_refl|assumption]].
  unfold getfd. set (s5 := putfd s4 k _).
  assert (I5 : FdI s5 (-1)) by (apply FdI_putfd_gsame; [assumption|repeat split]).
  assert (W5 : InnerW s4 s5).
  { constructor; try reflexivity; [constructor; reflexivity|]. intros i. unfold s5. rewrite fdt_putfd.
    destruct (Z.eqb_spec i k) as [->|N]; repeat split. }
  assert (R5 : registered (fdt s5 k) = true).
  { destruct (iw_fd _ _ W5 k) as [_ E]. rewrite E. assumption. }
  assert (Q := m_notify_res s5 (-1) k I5 K (fun _ => R5) (fun _ => R5)).
  destruct (m_notify_fd s5 k) as [s6|s6]; cbn [bind FdRes] in *.
  - destruct Q as (A & B & _). apply FIN; [|assumption].
    eapply InnerW_trans; [eassumption|apply Inner_W; assumption].
  - eapply HaltOf_same; [|eassumption]. reflexivity.
Qed.

Lemma fd_register_try_res : forall s k, FdI s (-1) -> 0 <= k <= 32 -> registered (fdt s k) = false ->
  FdRes s (fst (fd_register_try s k))
    (fun s' => FdTop s s' k /\ registered (fdt s' k) = negb (snd (fd_register_try s k)) /\ FdI s' (-1)).
Proof.
  intros s k I K U. unfold fd_register_try.
  destruct (prologue_spec s k I K U) as (T1 & I1 & NR1 & R1 & RB1 & A1 & H1 & IE1).
  set (s1 := register_prologue s k) in *.
  set (s2 := putfd s1 k (recompute_wanted (getfd s1 k))).
  set (orig := wanted (getfd s2 k)).
  set (s3 := if orig =? 0 then putfd s2 k (fd_with_wanted (getfd s2 k) (M_IN + M_OUT)) else s2).
  assert (I2 : FdI s2 (-1)) by (apply FdI_putfd_gsame; [assumption|apply recompute_gsame]).
  assert (W2 : InnerW s1 s2).
  { constructor; try reflexivity; [constructor; reflexivity|]. intros i. unfold s2, getfd. rewrite fdt_putfd.
    destruct (Z.eqb_spec i k) as [->|N]; repeat split. }
  assert (P3 : InnerW s2 s3 /\ FdI s3 (-1) /\ noref s3 k /\ regb (fdt s3 k) = 0 /\ is_epoll s3 = is_epoll s /\
               notify s3 = notify s1 /\ kern s3 = kern s1 /\ pkeys s3 = pkeys s1 /\ active s3 = active s1 /\
               handled s3 = handled s1).
  { unfold s3. destruct (orig =? 0).
    - split.
      { constructor; try reflexivity; [constructor; reflexivity|]. intros i. unfold getfd. rewrite fdt_putfd.
        destruct (Z.eqb_spec i k) as [->|N]; repeat split. }
      split; [apply FdI_putfd_gsame; [assumption|repeat split]|].
      split; [exact NR1|]. split; [|repeat split; assumption].
      unfold s2, getfd. rewrite !fdt_putfd, !Z.eqb_refl. exact RB1.
    - split; [apply InnerW_refl|]. split; [assumption|]. split; [exact NR1|]. split; [|repeat split; assumption].
      unfold s2, getfd. rewrite !fdt_putfd, !Z.eqb_refl. exact RB1. }
  clearbody s3. destruct P3 as (W3 & I3 & NR3 & RB3 & IE3 & N3 & K3 & PK3 & A3 & H3).
  pose proof (InnerW_trans _ _ _ W2 W3) as W13.
  assert (T3 : FdTop s s3 k) by (eapply FdTop_W; eassumption).
  assert (R3 : registered (fdt s3 k) = true) by (destruct (iw_fd _ _ W13 k) as [_ E]; rewrite E; assumption).
  assert (M3 : mst s3 = mst s).
  { rewrite (InnerW_mst _ _ W13). apply (sm_mst _ _ (ft_same _ _ _ T1)). }
  destruct (is_epoll s3) eqn:IE.
  - (* epoll *)
    destruct (epoll_flush_one_ s3 k) as [s4 fl] eqn:FL.
    destruct (flush_one_spec s3 (-1) k s4 fl FL I3 IE K (fun _ => R3)) as (E1 & E2 & E3 & E4 & E5 & E6 & E7 & E8 & E9 & E10).
    assert (T4 : FdTop s s4 k) by (eapply FdTop_W; [eassumption|apply Inner_W; assumption]).
    assert (M4 : mst s4 = mst s) by (rewrite (Inner_mst _ _ E1); assumption).
    destruct fl; cbn [fst snd bind negb].
    + destruct (E10 eq_refl) as [E11 E12].
      assert (NR4 : noref s4 k).
      { apply (noref_ext s3 s4 k NR3).
        - rewrite (in_active _ _ E1). auto.
        - left. apply (in_handled _ _ E1).
        - auto.
        - auto.
        - rewrite E4. auto. }
      pose proof (try_fail_cont s s4 k T4 E2 NR4 K) as Q. cbv zeta in Q.
      destruct (if is_epoll (putfd s4 k (fd_with_registered (getfd s4 k) false))
                then epoll_unregister_fd (putfd s4 k (fd_with_registered (getfd s4 k) false)) k
                else R (putfd s4 k (fd_with_registered (getfd s4 k) false))) as [s'|s']; cbn [FdRes] in *.
      * exact Q.
      * eapply HaltOf_same; eassumption.
    + assert (R4 : registered (fdt s4 k) = true).
      { destruct (in_fd _ _ E1 k) as [[_ E] _]. rewrite E. assumption. }
      pose proof (try_success_cont s s4 k (orig =? 0) T4 R4 E2 K) as Q.
      destruct (bind (if orig =? 0 then m_notify_fd (putfd s4 k (fd_with_wanted (getfd s4 k) 0)) k else R s4)
                     (fun s0 => R (register_epilogue s0))) as [s'|s']; cbn [FdRes] in *.
      * exact Q.
      * eapply HaltOf_same; eassumption.
  - (* poll *)
    unfold poll_notify_fd_sync.
    destruct (has (poll_revents (kern s3) (fdnum (getfd s3 k)) 7) P_NVAL); cbn [fst snd bind negb].
    + pose proof (try_fail_cont s s3 k T3 I3 NR3 K) as Q. cbv zeta in Q.
      destruct (if is_epoll (putfd s3 k (fd_with_registered (getfd s3 k) false))
                then epoll_unregister_fd (putfd s3 k (fd_with_registered (getfd s3 k) false)) k
                else R (putfd s3 k (fd_with_registered (getfd s3 k) false))) as [s'|s']; cbn [FdRes] in *.
      * exact Q.
      * eapply HaltOf_same; eassumption.
    + pose proof (poll_notify_res s3 (-1) k I3 IE K (fun _ => R3)) as Q.
      destruct (poll_notify_fd s3 k) as [s4|s4]; cbn [bind FdRes] in *.
      * destruct Q as ((E1 & E2 & _) & _).
        assert (T4 : FdTop s s4 k) by (eapply FdTop_W; [eassumption|apply Inner_W; assumption]).
        assert (M4 : mst s4 = mst s) by (rewrite (Inner_mst _ _ E1); assumption).
        assert (R4 : registered (fdt s4 k) = true).
        { destruct (in_fd _ _ E1 k) as [[_ E] _]. rewrite E. assumption. }
        pose proof (try_success_cont s s4 k (orig =? 0) T4 R4 E2 K) as Q.
        destruct (bind (if orig =? 0 then m_notify_fd (putfd s4 k (fd_with_wanted (getfd s4 k) 0)) k else R s4)
                       (fun s0 => R (register_epilogue s0))) as [s'|s']; cbn [FdRes] in *.
        -- exact Q.
        -- eapply HaltOf_same; eassumption.
      * eapply HaltOf_same; eassumption.
Qed.
