(* CoreInvBase.v -- utilities for the core-loop invariant: lists, counting,
   the result monad, projections of the state setters, virtual-kernel lemmas. *)
From Coq Require Import List ZArith Bool Lia.
From Ivv Require Import Core.Kernel Core.CoreTypes Core.CoreFd Core.CoreModel.
Import ListNotations.
Local Open Scope Z_scope.

(* ---------- projections through the setters ---------- *)
Ltac sp :=
  cbn [fdt active handled numfds last_abs last_abs_count method notify epfd tfd pwait2
       efd_epoll efd_raw active_fd active_ref active_wr pfds pkeys quit numobjs heap time
       time_valid tasks cur epoch tepoch ev_pending ev_batch ev_count ev_reg use_raw
       rw_reg rw_rfd rw_wfd kern trace invoc
       set_fdt set_active set_handled set_numfds set_last_abs set_method set_notify set_epoll
       set_efd set_activewr set_activefd set_poll set_quit set_numobjs set_heap set_time
       set_tasks set_epoch set_evlists set_ev set_rw set_kern set_trace set_invoc
       emit putfd getfd] in *.
Ltac spg :=
  cbn [fdt active handled numfds last_abs last_abs_count method notify epfd tfd pwait2
       efd_epoll efd_raw active_fd active_ref active_wr pfds pkeys quit numobjs heap time
       time_valid tasks cur epoch tepoch ev_pending ev_batch ev_count ev_reg use_raw
       rw_reg rw_rfd rw_wfd kern trace invoc
       set_fdt set_active set_handled set_numfds set_last_abs set_method set_notify set_epoll
       set_efd set_activewr set_activefd set_poll set_quit set_numobjs set_heap set_time
       set_tasks set_epoch set_evlists set_ev set_rw set_kern set_trace set_invoc
       emit putfd getfd].

Ltac splits := repeat match goal with |- _ /\ _ => split end.

(* ---------- upd ---------- *)
Lemma upd_same : forall A (f : Z -> A) x v, upd f x v x = v.
Proof. intros. unfold upd. rewrite Z.eqb_refl. reflexivity. Qed.
Lemma upd_other : forall A (f : Z -> A) x v y, y <> x -> upd f x v y = f y.
Proof. intros. unfold upd. destruct (Z.eqb_spec y x); [contradiction|reflexivity]. Qed.

(* ---------- mem_z / remove_z ---------- *)
Lemma memz_In : forall x l, mem_z x l = true <-> In x l.
Proof.
  intros x l. unfold mem_z. rewrite existsb_exists. split.
  - intros (y & H & E). apply Z.eqb_eq in E. subst. assumption.
  - intros H. exists x. split; [assumption|apply Z.eqb_refl].
Qed.
Lemma memz_nIn : forall x l, mem_z x l = false <-> ~ In x l.
Proof. intros. rewrite <- memz_In. destruct (mem_z x l); split; congruence. Qed.
Lemma In_remz : forall x l y, In y (remove_z x l) <-> In y l /\ y <> x.
Proof.
  intros x l y. induction l as [|a l IH]; cbn [remove_z In]; [tauto|].
  destruct (Z.eqb_spec a x); cbn [In]; rewrite IH; intuition congruence.
Qed.
Lemma remz_length : forall x l, (length (remove_z x l) <= length l)%nat.
Proof. intros x l. induction l as [|a l IH]; cbn [remove_z length]; [lia|]. destruct (a =? x); cbn [length]; lia. Qed.
Lemma NoDup_remz : forall x l, NoDup l -> NoDup (remove_z x l).
Proof.
  intros x l H. induction H as [|a l N H IH]; cbn [remove_z]; [constructor|].
  destruct (a =? x); [assumption|]. constructor; [|assumption]. rewrite In_remz. tauto.
Qed.
Lemma remz_notin : forall x l, ~ In x l -> remove_z x l = l.
Proof.
  intros x l. induction l as [|a l IH]; cbn [remove_z In]; intros H; [reflexivity|].
  destruct (Z.eqb_spec a x); [exfalso; apply H; left; assumption|]. f_equal. apply IH. tauto.
Qed.
Lemma remz_length_in : forall x l, In x l -> (length (remove_z x l) < length l)%nat.
Proof.
  intros x l. induction l as [|a l IH]; cbn [remove_z In length]; intros H; [contradiction|].
  destruct (Z.eqb_spec a x).
  - pose proof (remz_length x l). lia.
  - cbn [length]. destruct H; [contradiction|]. apply IH in H. lia.
Qed.

(* ---------- zseq and counting ---------- *)
Lemma In_zseq' : forall n lo x, In x (zseq lo n) <-> lo <= x < lo + Z.of_nat n.
Proof.
  induction n as [|n IH]; intros lo x; cbn [zseq In]; [lia|]. rewrite IH. lia.
Qed.
Lemma NoDup_zseq : forall n lo, NoDup (zseq lo n).
Proof.
  induction n as [|n IH]; intros lo; cbn [zseq]; constructor; [|apply IH].
  rewrite In_zseq'. lia.
Qed.
Lemma zseq_length : forall n lo, length (zseq lo n) = n.
Proof. induction n; intros; cbn [zseq length]; [reflexivity|]. rewrite IHn. reflexivity. Qed.

Definition cntf (f : Z -> bool) (l : list Z) : Z := Z.of_nat (length (filter f l)).

Lemma cntf_ext : forall f g l, (forall x, In x l -> f x = g x) -> cntf f l = cntf g l.
Proof.
  intros f g l H. unfold cntf. f_equal. f_equal. induction l as [|a l IH]; [reflexivity|].
  cbn [filter]. rewrite (H a) by (left; reflexivity). rewrite IH; [reflexivity|].
  intros; apply H; right; assumption.
Qed.
Lemma cntf_le : forall f g l, (forall x, In x l -> f x = true -> g x = true) -> cntf f l <= cntf g l.
Proof.
  intros f g l H. unfold cntf. apply inj_le. induction l as [|a l IH]; [cbn; lia|].
  cbn [filter]. assert (IH' := IH (fun x Hx => H x (or_intror Hx))).
  destruct (f a) eqn:E.
  - rewrite (H a (or_introl eq_refl) E). cbn [length]. lia.
  - destruct (g a); cbn [length]; lia.
Qed.
Lemma cntf_flip : forall f g l k, NoDup l -> In k l -> f k = false -> g k = true ->
  (forall x, x <> k -> f x = g x) -> cntf g l = cntf f l + 1.
Proof.
  intros f g l k ND. unfold cntf. induction ND as [|a l NI ND IH]; intros I Fk Gk O; [contradiction|].
  cbn [filter]. destruct (Z.eq_dec a k) as [->|NE].
  - rewrite Fk, Gk. cbn [length].
    assert (E : filter g l = filter f l).
    { apply filter_ext_in. intros b Hb. symmetry. apply O. intro; subst; contradiction. }
    rewrite E. lia.
  - destruct I as [|I]; [contradiction|]. specialize (IH I Fk Gk O).
    rewrite (O a NE). destruct (g a); cbn [length]; lia.
Qed.
Lemma cntf_nonneg : forall f l, 0 <= cntf f l.
Proof. intros; unfold cntf; lia. Qed.
Lemma cntf_bound : forall f l, cntf f l <= Z.of_nat (length l).
Proof.
  intros. unfold cntf. apply inj_le. induction l as [|a l IH]; [cbn; lia|].
  cbn [filter]. destruct (f a); cbn [length]; lia.
Qed.
Lemma cntf_pos : forall f l k, In k l -> f k = true -> 1 <= cntf f l.
Proof.
  intros f l k I F. unfold cntf. assert (In k (filter f l)) by (apply filter_In; tauto).
  destruct (filter f l); [contradiction|]. cbn [length]. lia.
Qed.

(* ---------- the result monad ---------- *)
Definition nobad (l : list tev) : Prop := ~ In TCrash l /\ ~ In TFatal l.

Definition okr (P : core -> Prop) (r : res) : Prop :=
  match r with R s => P s | Halt s => nobad (trace s) end.

Lemma okr_bind : forall (P Q : core -> Prop) r f,
  okr P r -> (forall s, P s -> okr Q (f s)) -> okr Q (bind r f).
Proof. intros P Q [s|s] f H K; cbn [bind okr] in *; [apply K; assumption|assumption]. Qed.
Lemma okr_weaken : forall (P Q : core -> Prop) r, okr P r -> (forall s, P s -> Q s) -> okr Q r.
Proof. intros P Q [s|s] H K; cbn [okr] in *; [apply K; assumption|assumption]. Qed.
Lemma okr_R_inv : forall (P : core -> Prop) r s, okr P r -> r = R s -> P s.
Proof. intros P r s H ->. exact H. Qed.
Lemma nobad_cons : forall e l, nobad l -> e <> TCrash -> e <> TFatal -> nobad (e :: l).
Proof. intros e l [A B] C D. split; intros [H|H]; congruence || contradiction. Qed.
Lemma okr_halt : forall P s e, nobad (trace s) -> e <> TCrash -> e <> TFatal -> okr P (halt s e).
Proof. intros. unfold halt. cbn [okr]. spg. apply nobad_cons; assumption. Qed.

(* ---------- association lists / descriptors ---------- *)
Lemma k_get_put : forall k fd v fd', k_get (k_put k fd v) fd' = if fd' =? fd then Some v else k_get k fd'.
Proof. intros. unfold k_get, k_put, k_set_vfds. cbn [vfds assoc]. reflexivity. Qed.
Lemma k_open_put : forall k fd v fd',
  k_open (k_put k fd v) fd' = if fd' =? fd then (if vclosed v then None else Some v) else k_open k fd'.
Proof. intros. unfold k_open. rewrite k_get_put. destruct (fd' =? fd); reflexivity. Qed.
Lemma k_open_get : forall k fd v, k_open k fd = Some v -> k_get k fd = Some v /\ vclosed v = false.
Proof. intros k fd v. unfold k_open. destruct (k_get k fd) as [w|]; [|discriminate]. destruct (vclosed w) eqn:E; [discriminate|]. intros [= ->]. tauto. Qed.
Lemma k_get_open : forall k fd v, k_get k fd = Some v -> vclosed v = false -> k_open k fd = Some v.
Proof. intros k fd v H C. unfold k_open. rewrite H, C. reflexivity. Qed.
Lemma k_open_some_get : forall k fd, k_open k fd <> None -> k_get k fd <> None.
Proof. intros k fd. unfold k_open. destruct (k_get k fd); congruence. Qed.

(* kernel fields other than the epoll set and the call counter *)
Definition kctl (k k' : kernel) : Prop :=
  vfds k' = vfds k /\ next_fd k' = next_fd k /\ clock k' = clock k /\ nwait k' = nwait k /\ flt k' = flt k.
Lemma kctl_refl : forall k, kctl k k. Proof. intros; repeat split. Qed.
Lemma kctl_trans : forall a b c, kctl a b -> kctl b c -> kctl a c.
Proof. unfold kctl. intros a b c (A1&A2&A3&A4&A5) (B1&B2&B3&B4&B5). repeat split; congruence. Qed.
Lemma kctl_get : forall k k' fd, kctl k k' -> k_get k' fd = k_get k fd.
Proof. intros k k' fd (A&_). unfold k_get. rewrite A. reflexivity. Qed.
Lemma kctl_open : forall k k' fd, kctl k k' -> k_open k' fd = k_open k fd.
Proof. intros. unfold k_open. erewrite kctl_get by eassumption. reflexivity. Qed.

(* ---------- the epoll interest list ---------- *)
Lemma ep_find_In : forall l fd, ep_find l fd = true <-> exists e, In e l /\ en_fd e = fd.
Proof.
  induction l as [|a l IH]; intros fd; cbn [ep_find In].
  - split; [discriminate|intros (e & [] & _)].
  - rewrite orb_true_iff, IH, Z.eqb_eq. split.
    + intros [H|(e & H & E)]; [exists a; tauto|exists e; tauto].
    + intros (e & [->|H] & E); [left; assumption|right; exists e; tauto].
Qed.
Lemma ep_find_false : forall l fd, ep_find l fd = false <-> forall e, In e l -> en_fd e <> fd.
Proof.
  intros l fd. split.
  - intros H e I E. assert (ep_find l fd = true) by (apply ep_find_In; exists e; tauto). congruence.
  - intros H. destruct (ep_find l fd) eqn:E; [|reflexivity]. apply ep_find_In in E.
    destruct E as (e & I & E). exfalso. eapply H; eassumption.
Qed.
Lemma ep_find_app : forall l1 l2 fd, ep_find (l1 ++ l2) fd = ep_find l1 fd || ep_find l2 fd.
Proof. induction l1 as [|a l IH]; intros; cbn [ep_find app]; [reflexivity|]. rewrite IH, orb_assoc. reflexivity. Qed.
Lemma In_ep_rem : forall l fd e, In e (ep_remove l fd) <-> In e l /\ en_fd e <> fd.
Proof.
  induction l as [|a l IH]; intros fd e; cbn [ep_remove In]; [tauto|].
  destruct (Z.eqb_spec (en_fd a) fd); cbn [In]; rewrite IH; intuition congruence.
Qed.
Lemma ep_find_rem : forall l fd fd', ep_find (ep_remove l fd) fd' = ep_find l fd' && negb (fd' =? fd).
Proof.
  intros l fd fd'. destruct (ep_find (ep_remove l fd) fd') eqn:E.
  - apply ep_find_In in E. destruct E as (e & I & E). apply In_ep_rem in I. destruct I as [I N].
    symmetry. apply andb_true_iff. split; [apply ep_find_In; exists e; tauto|].
    apply negb_true_iff. apply Z.eqb_neq. congruence.
  - symmetry. apply andb_false_iff. destruct (Z.eqb_spec fd' fd) as [->|N]; [right; reflexivity|left].
    rewrite ep_find_false in E |- *. intros e I EE. apply (E e); [apply In_ep_rem; split; congruence|assumption].
Qed.
Lemma map_fd_replace : forall l n, map en_fd (ep_replace l n) = map en_fd l.
Proof.
  induction l as [|a l IH]; intros n; cbn [ep_replace map]; [reflexivity|].
  destruct (Z.eqb_spec (en_fd a) (en_fd n)); cbn [map]; [congruence|]. rewrite IH. reflexivity.
Qed.
Lemma In_ep_repl : forall l n e, In e (ep_replace l n) -> e = n \/ (In e l).
Proof.
  induction l as [|a l IH]; intros n e; cbn [ep_replace In]; [tauto|].
  destruct (en_fd a =? en_fd n); cbn [In]; [intros [H|H]; [left; congruence|tauto]|].
  intros [H|H]; [tauto|]. apply IH in H. tauto.
Qed.
Lemma In_ep_repl_other : forall l n e, In e l -> en_fd e <> en_fd n -> In e (ep_replace l n).
Proof.
  induction l as [|a l IH]; intros n e; cbn [ep_replace In]; [tauto|].
  destruct (Z.eqb_spec (en_fd a) (en_fd n)) as [E|NE]; cbn [In]; intros [H|H] N.
  - subst. contradiction.
  - right. assumption.
  - left. assumption.
  - right. apply IH; assumption.
Qed.
Lemma In_ep_repl_new : forall l n, ep_find l (en_fd n) = true -> In n (ep_replace l n).
Proof.
  induction l as [|a l IH]; intros n; cbn [ep_replace ep_find In]; [discriminate|].
  destruct (Z.eqb_spec (en_fd a) (en_fd n)); cbn [orb In]; [tauto|]. intros H. right. apply IH. assumption.
Qed.
Lemma In_ep_repl_old : forall l n e, NoDup (map en_fd l) -> In e (ep_replace l n) -> en_fd e = en_fd n -> e = n.
Proof.
  induction l as [|a l IH]; intros n e ND; cbn [ep_replace In]; [tauto|].
  cbn [map] in ND. inversion ND as [|? ? NI ND']; subst.
  destruct (Z.eqb_spec (en_fd a) (en_fd n)) as [E|NE]; cbn [In].
  - intros [H|H] E'; [congruence|]. exfalso. apply NI. rewrite E, <- E'. apply in_map. assumption.
  - intros [H|H] E'; [congruence|]. apply IH; assumption.
Qed.
Lemma ep_find_map : forall l fd, ep_find l fd = true <-> In fd (map en_fd l).
Proof.
  intros. rewrite ep_find_In, in_map_iff. split; intros (e & A & B); exists e; tauto.
Qed.
Lemma NoDup_fd_rem : forall l fd, NoDup (map en_fd l) -> NoDup (map en_fd (ep_remove l fd)).
Proof.
  induction l as [|a l IH]; intros fd ND; cbn [ep_remove map] in *; [constructor|].
  inversion ND as [|? ? NI ND']; subst. destruct (en_fd a =? fd); [apply IH; assumption|].
  cbn [map]. constructor; [|apply IH; assumption].
  intros H. apply NI. apply in_map_iff in H. destruct H as (e & E & I). apply In_ep_rem in I.
  apply in_map_iff. exists e. tauto.
Qed.
Lemma NoDup_fd_app : forall l n, NoDup (map en_fd l) -> ep_find l (en_fd n) = false -> NoDup (map en_fd (l ++ [n])).
Proof.
  induction l as [|a l IH]; intros n ND F; cbn [map app] in *; [constructor; [tauto|constructor]|].
  cbn [ep_find] in F. apply orb_false_iff in F. destruct F as [F1 F2]. apply Z.eqb_neq in F1.
  inversion ND as [|? ? NI ND']; subst. constructor; [|apply IH; assumption].
  rewrite map_app, in_app_iff. cbn [map In]. intros [H|[H|[]]]; [contradiction|congruence].
Qed.

(* ---------- epoll_ctl ---------- *)
Definition ctl_ent (fd ev d : Z) : epent := {| en_fd := fd; en_events := ev; en_data := d; en_enabled := true |}.

Definition ctl_pure (k : kernel) (op fd ev d : Z) : list epent * option errno :=
  match k_open k fd with
  | None => (ep k, Some EBADF)
  | Some _ =>
      if op =? CTL_ADD then
        if ep_find (ep k) fd then (ep k, Some EEXIST) else (ep k ++ [ctl_ent fd ev d], None)
      else if op =? CTL_MOD then
        if ep_find (ep k) fd then (ep_replace (ep k) (ctl_ent fd ev d), None) else (ep k, Some ENOENT)
      else
        if ep_find (ep k) fd then (ep_remove (ep k) fd, None) else (ep k, Some ENOENT)
  end.

Lemma ctl_pure_not_eintr : forall k op fd ev d, snd (ctl_pure k op fd ev d) <> Some EINTR.
Proof.
  intros. unfold ctl_pure. destruct (k_open k fd); [|cbn; congruence].
  destruct (op =? CTL_ADD); [destruct (ep_find (ep k) fd); cbn; congruence|].
  destruct (op =? CTL_MOD); destruct (ep_find (ep k) fd); cbn; congruence.
Qed.

Lemma k_epoll_ctl_spec : forall k op fd ev d,
  let r := k_epoll_ctl k op fd ev d in
  kctl k (fst r) /\ nctl (fst r) = nctl k + 1 /\
  ((snd r = Some EINTR /\ ep (fst r) = ep k /\ eintr_ctl (flt k) = nctl k + 1) \/
   (ep (fst r) = fst (ctl_pure k op fd ev d) /\ snd r = snd (ctl_pure k op fd ev d))).
Proof.
  intros k op fd ev d. unfold k_epoll_ctl. cbv zeta.
  set (k0 := k_set_nctl k (nctl k + 1)).
  assert (K0 : kctl k k0) by (repeat split).
  assert (O0 : k_open k0 fd = k_open k fd) by reflexivity.
  assert (E0 : ep k0 = ep k) by reflexivity.
  assert (F0 : flt k0 = flt k) by reflexivity.
  assert (N0 : nctl k0 = nctl k + 1) by reflexivity.
  destruct (negb (eintr_ctl (flt k0) =? 0) && (nctl k0 =? eintr_ctl (flt k0))) eqn:EI.
  - cbn [fst snd]. split; [assumption|split; [assumption|left]].
    apply andb_true_iff in EI. destruct EI as [_ EI]. apply Z.eqb_eq in EI.
    rewrite F0, N0 in EI. repeat split; congruence.
  - unfold ctl_pure. rewrite O0, E0. fold (ctl_ent fd ev d).
    destruct (k_open k fd); [|cbn [fst snd]; split; [assumption|split; [assumption|right; split; reflexivity]]].
    destruct (op =? CTL_ADD).
    { destruct (ep_find (ep k) fd); cbn [fst snd]; (split; [assumption|split; [assumption|right; split; reflexivity]]). }
    destruct (op =? CTL_MOD); destruct (ep_find (ep k) fd); cbn [fst snd];
      (split; [assumption|split; [assumption|right; split; reflexivity]]).
Qed.

Lemma ctl_pure_kctl : forall k k' op fd ev d, kctl k k' -> ep k' = ep k -> ctl_pure k' op fd ev d = ctl_pure k op fd ev d.
Proof. intros. unfold ctl_pure. erewrite kctl_open by eassumption. rewrite H0. reflexivity. Qed.

Lemma ctl_retry_spec : forall s op fd ev d, exists k',
  ctl_retry s op fd ev d = (set_kern s k', snd (ctl_pure (kern s) op fd ev d)) /\
  kctl (kern s) k' /\ ep k' = fst (ctl_pure (kern s) op fd ev d).
Proof.
  intros s op fd ev d. unfold ctl_retry.
  pose proof (k_epoll_ctl_spec (kern s) op fd ev d) as H. cbv zeta in H.
  destruct (k_epoll_ctl (kern s) op fd ev d) as [k1 r1]. cbn [fst snd] in H.
  destruct H as (K1 & N1 & [(R1 & E1 & X1)|(E1 & R1)]).
  - subst r1.
    pose proof (k_epoll_ctl_spec k1 op fd ev d) as H. cbv zeta in H.
    destruct (k_epoll_ctl k1 op fd ev d) as [k2 r2]. cbn [fst snd] in H.
    destruct H as (K2 & N2 & [(R2 & E2 & X2)|(E2 & R2)]).
    + exfalso. destruct K1 as (_&_&_&_&F1). rewrite F1 in X2. lia.
    + rewrite (ctl_pure_kctl _ _ _ _ _ _ K1 E1) in E2, R2.
      exists k2. split; [rewrite R2; reflexivity|]. split; [eapply kctl_trans; eassumption|assumption].
  - exists k1. split; [|split; assumption].
    rewrite R1. pose proof (ctl_pure_not_eintr (kern s) op fd ev d) as NE. rewrite <- R1 in NE |- *.
    destruct r1 as [[]|]; try reflexivity. congruence.
Qed.

(* success conditions *)
Lemma ctl_pure_add : forall k fd ev d, k_open k fd <> None -> ep_find (ep k) fd = false ->
  ctl_pure k CTL_ADD fd ev d = (ep k ++ [ctl_ent fd ev d], None).
Proof. intros. unfold ctl_pure. destruct (k_open k fd); [|congruence]. rewrite H0. reflexivity. Qed.
Lemma ctl_pure_mod : forall k fd ev d, k_open k fd <> None -> ep_find (ep k) fd = true ->
  ctl_pure k CTL_MOD fd ev d = (ep_replace (ep k) (ctl_ent fd ev d), None).
Proof. intros. unfold ctl_pure. destruct (k_open k fd); [|congruence]. rewrite H0. reflexivity. Qed.
Lemma ctl_pure_del : forall k fd ev d, k_open k fd <> None -> ep_find (ep k) fd = true ->
  ctl_pure k CTL_DEL fd ev d = (ep_remove (ep k) fd, None).
Proof. intros. unfold ctl_pure. destruct (k_open k fd); [|congruence]. rewrite H0. reflexivity. Qed.
Lemma ctl_pure_fail_ep : forall k op fd ev d e, snd (ctl_pure k op fd ev d) = Some e -> fst (ctl_pure k op fd ev d) = ep k.
Proof.
  intros k op fd ev d e. unfold ctl_pure. destruct (k_open k fd); [|reflexivity].
  destruct (op =? CTL_ADD); [destruct (ep_find (ep k) fd); cbn; congruence|].
  destruct (op =? CTL_MOD); destruct (ep_find (ep k) fd); cbn; congruence.
Qed.

(* ---------- positions in lists ---------- *)
Lemma nth_error_snoc : forall A (l : list A) a n,
  nth_error (l ++ [a]) n = if (n <? length l)%nat then nth_error l n
                           else if (n =? length l)%nat then Some a else None.
Proof.
  intros A l a n. destruct (Nat.ltb_spec n (length l)) as [H|H].
  - apply nth_error_app1. assumption.
  - rewrite nth_error_app2 by assumption. destruct (Nat.eqb_spec n (length l)) as [->|N].
    + rewrite Nat.sub_diag. reflexivity.
    + destruct (n - length l)%nat eqn:Q; [lia|]. cbn. destruct n0; reflexivity.
Qed.
Lemma set_nth_length : forall A (l : list A) i v, length (set_nth l i v) = length l.
Proof. induction l as [|a l IH]; intros [|i] v; cbn [set_nth length]; try reflexivity. rewrite IH. reflexivity. Qed.
Lemma nth_error_set_nth : forall A (l : list A) i v n,
  nth_error (set_nth l i v) n = if (n =? i)%nat && (i <? length l)%nat then Some v else nth_error l n.
Proof.
  induction l as [|a l IH]; intros i v n.
  - cbn. destruct (n =? i)%nat; destruct n; reflexivity.
  - destruct i as [|i]; destruct n as [|n]; cbn [set_nth nth_error length]; try reflexivity.
    rewrite IH. reflexivity.
Qed.
Lemma nth_error_firstn : forall A (l : list A) m n,
  nth_error (firstn m l) n = if (n <? m)%nat then nth_error l n else None.
Proof.
  induction l as [|a l IH]; intros m n.
  - rewrite firstn_nil. destruct (n <? m)%nat; destruct n; reflexivity.
  - destruct m as [|m]; [cbn; destruct n; reflexivity|]. destruct n as [|n]; [reflexivity|].
    cbn [firstn nth_error]. rewrite IH. reflexivity.
Qed.
Lemma nth_z_nat : forall A (l : list A) i, 0 <= i -> nth_z l i = nth_error l (Z.to_nat i).
Proof. intros. unfold nth_z. destruct (Z.ltb_spec i 0); [lia|reflexivity]. Qed.
Lemma nth_error_lt : forall A (l : list A) n a, nth_error l n = Some a -> (n < length l)%nat.
Proof. intros. apply nth_error_Some. congruence. Qed.
Lemma nth_error_ex : forall A (l : list A) n, (n < length l)%nat -> exists a, nth_error l n = Some a.
Proof. intros A l n H. destruct (nth_error l n) eqn:E; [eauto|]. apply nth_error_None in E. lia. Qed.

Lemma NoDup_range_length : forall l n, NoDup l -> (forall x, In x l -> 0 <= x < Z.of_nat n) -> (length l <= n)%nat.
Proof.
  intros l n ND H. rewrite <- (zseq_length n 0). apply NoDup_incl_length; [assumption|].
  intros x Hx. apply In_zseq'. apply H in Hx. lia.
Qed.

(* ---------- kernel changes that keep every descriptor's identity ---------- *)
(* kind and pipe pairing are tracked for the descriptors created by the library (>= 1000) *)
Record kstable (k k' : kernel) : Prop := {
  kt_ep : ep k' = ep k; kt_next : next_fd k <= next_fd k'; kt_flt : flt k' = flt k;
  kt_nwait : nwait k' = nwait k;
  kt_get : forall fd v, k_get k fd = Some v ->
           exists v', k_get k' fd = Some v' /\ (vclosed v' = true -> vclosed v = true) /\
                      (1000 <= fd -> vkind v' = vkind v /\ vpeer v' = vpeer v /\ vpeer_open v' = vpeer_open v);
  kt_none : forall fd, k_get k fd = None -> k_get k' fd = None \/ fd < 1000 \/ next_fd k <= fd < next_fd k';
}.
Lemma kstable_refl : forall k, kstable k k.
Proof. intros. constructor; try reflexivity; try (cbn; lia); [intros fd v H; exists v; tauto|tauto]. Qed.
Lemma kstable_trans : forall a b c, kstable a b -> kstable b c -> kstable a c.
Proof.
  intros a b c [A1 A2 A3 A6 A4 A5] [B1 B2 B3 B6 B4 B5]. constructor; try congruence.
  - lia.
  - intros fd v H. destruct (A4 fd v H) as (v1 & C1 & C2 & C3).
    destruct (B4 fd v1 C1) as (v2 & D1 & D2 & D3). exists v2. split; [assumption|]. split; [auto|].
    intros Q. destruct (C3 Q) as (E1&E2&E3). destruct (D3 Q) as (F1&F2&F3). repeat split; congruence.
  - intros fd H. destruct (A5 fd H) as [C|[C|C]]; [|right; left; assumption|right; right; lia].
    destruct (B5 fd C) as [D|[D|D]]; [left; assumption|right; left; assumption|right; right; lia].
Qed.
Lemma kstable_open : forall k k' fd v, kstable k k' -> k_open k fd = Some v ->
  exists v', k_open k' fd = Some v' /\
             (1000 <= fd -> vkind v' = vkind v /\ vpeer v' = vpeer v /\ vpeer_open v' = vpeer_open v).
Proof.
  intros k k' fd v S H. apply k_open_get in H. destruct H as [G C].
  destruct (kt_get _ _ S fd v G) as (v' & A & B & D). exists v'. split; [|assumption].
  apply k_get_open; [assumption|]. destruct (vclosed v') eqn:Q; [|reflexivity]. rewrite B in C by reflexivity. discriminate.
Qed.
Lemma kstable_open_some : forall k k' fd, kstable k k' -> k_open k fd <> None -> k_open k' fd <> None.
Proof.
  intros k k' fd S H. destruct (k_open k fd) as [v|] eqn:Q; [|congruence].
  destruct (kstable_open _ _ _ _ S Q) as (v' & A & _). congruence.
Qed.
Lemma kstable_get_some : forall k k' fd, kstable k k' -> k_get k fd <> None -> k_get k' fd <> None.
Proof.
  intros k k' fd S H. destruct (k_get k fd) as [v|] eqn:Q; [|congruence].
  destruct (kt_get _ _ S fd v Q) as (v' & A & _). congruence.
Qed.
Lemma kstable_get_kind : forall k k' fd v, kstable k k' -> k_get k fd = Some v -> 1000 <= fd ->
  exists v', k_get k' fd = Some v' /\ vkind v' = vkind v.
Proof.
  intros k k' fd v S H Q. destruct (kt_get _ _ S fd v H) as (v' & A & _ & B). exists v'. split; [assumption|apply B; assumption].
Qed.

(* rewriting one descriptor without changing its identity *)
Lemma kstable_put : forall k fd v v', k_get k fd = Some v -> (vclosed v' = true -> vclosed v = true) ->
  (1000 <= fd -> vkind v' = vkind v /\ vpeer v' = vpeer v /\ vpeer_open v' = vpeer_open v) ->
  kstable k (k_put k fd v').
Proof.
  intros k fd v v' G A B. constructor; try reflexivity.
  - intros fd0 v0 H. rewrite k_get_put. destruct (Z.eqb_spec fd0 fd) as [->|N].
    + rewrite G in H. injection H as <-. exists v'. tauto.
    + exists v0. tauto.
  - intros fd0 H. rewrite k_get_put. destruct (Z.eqb_spec fd0 fd) as [->|N]; [congruence|tauto].
Qed.
Lemma kstable_clock : forall k c, kstable k (k_set_clock k c).
Proof. intros. constructor; try reflexivity; try (cbn; lia); [intros fd v H; exists v; tauto|tauto]. Qed.
Lemma kstable_setep_same : forall k l, l = ep k -> kstable k (k_set_ep k l).
Proof. intros k l ->. constructor; try reflexivity; try (cbn; lia); [intros fd v H; exists v; tauto|tauto]. Qed.

Lemma kstable_set_cond : forall k i c, kstable k (k_set_cond k i c).
Proof.
  intros. unfold k_set_cond. destruct (k_get k (100 + i)) as [v|] eqn:G; [|apply kstable_refl].
  eapply kstable_put; [eassumption|tauto|tauto].
Qed.
Lemma kstable_user_fd : forall k i, i < 16 -> kstable k (k_user_fd k i).
Proof.
  intros k i H. unfold k_user_fd. destruct (k_get k (100 + i)) as [v|] eqn:G.
  - eapply kstable_put; [eassumption|discriminate|lia].
  - constructor; try reflexivity.
    + intros fd0 v0 Q. rewrite k_get_put. destruct (Z.eqb_spec fd0 (100 + i)) as [->|N]; [congruence|exists v0; tauto].
    + intros fd0 Q. rewrite k_get_put. destruct (Z.eqb_spec fd0 (100 + i)) as [->|N]; [right; left; lia|tauto].
Qed.

Lemma kstable_read : forall k fd c, kstable k (fst (k_read k fd c)).
Proof.
  intros k fd c. unfold k_read. destruct (k_open k fd) as [v|] eqn:O; [|apply kstable_refl].
  apply k_open_get in O. destruct O as [G _].
  destruct (vkind v =? K_EVENTFD).
  { destruct (c <? 8); [apply kstable_refl|]. destruct (vcnt v =? 0); [apply kstable_refl|].
    cbn [fst]. eapply kstable_put; [eassumption|tauto|tauto]. }
  destruct (vkind v =? K_PIPE_R).
  { destruct (vcnt v =? 0); [destruct (vpeer_open v); apply kstable_refl|].
    cbn [fst]. eapply kstable_put; [eassumption|tauto|tauto]. }
  destruct (vkind v =? K_TIMERFD); [|apply kstable_refl].
  destruct (has (k_cond k fd) B_IN); [|apply kstable_refl].
  cbn [fst]. eapply kstable_put; [eassumption|tauto|tauto].
Qed.

Lemma kstable_write : forall k fd c x, kstable k (fst (k_write k fd c x)).
Proof.
  intros k fd c x. unfold k_write. destruct (k_open k fd) as [v|] eqn:O; [|apply kstable_refl].
  apply k_open_get in O. destruct O as [G _].
  destruct (vkind v =? K_EVENTFD).
  { destruct (c <? 8); [apply kstable_refl|]. cbn [fst]. eapply kstable_put; [eassumption|tauto|tauto]. }
  destruct (vkind v =? K_PIPE_W); [|apply kstable_refl].
  destruct (negb (vpeer_open v)); [apply kstable_refl|].
  destruct (k_get k (vpeer v)) as [r|] eqn:GR; [|apply kstable_refl].
  destruct (Z.min c (65536 - vcnt r) <=? 0); [apply kstable_refl|].
  cbn [fst]. eapply kstable_put; [eassumption|tauto|tauto].
Qed.

Lemma kstable_settime : forall k fd d, kstable k (k_timerfd_settime k fd d).
Proof.
  intros k fd d. unfold k_timerfd_settime. destruct (k_open k fd) as [v|] eqn:O; [|apply kstable_refl].
  apply k_open_get in O. destruct O as [G _]. eapply kstable_put; [eassumption|tauto|tauto].
Qed.

(* ---------- more on remove_z ---------- *)
Lemma remz_app : forall x a b, remove_z x (a ++ b) = remove_z x a ++ remove_z x b.
Proof.
  intros x a b. induction a as [|y a IH]; cbn [remove_z app]; [reflexivity|].
  destruct (y =? x); cbn [app]; rewrite IH; reflexivity.
Qed.
Lemma remz_length_nodup : forall x l, NoDup l -> In x l -> (length (remove_z x l) + 1 = length l)%nat.
Proof.
  intros x l ND. induction ND as [|a l NI ND IH]; intros H; [contradiction|].
  cbn [remove_z length]. destruct (Z.eqb_spec a x) as [->|N].
  - rewrite remz_notin by assumption. lia.
  - destruct H as [H|H]; [contradiction|]. cbn [length]. rewrite <- (IH H). lia.
Qed.
Lemma memz_app : forall x a b, mem_z x (a ++ b) = mem_z x a || mem_z x b.
Proof. intros. unfold mem_z. apply existsb_app. Qed.

(* ---------- allocation of descriptors ---------- *)
Definition kfresh (k : kernel) : Prop := forall fd, k_get k fd <> None -> fd < next_fd k.

Lemma kfresh_next_none : forall k n, kfresh k -> next_fd k <= n -> k_get k n = None.
Proof.
  intros k n F H. destruct (k_get k n) eqn:G; [|reflexivity].
  assert (n < next_fd k) by (apply F; congruence). lia.
Qed.

Lemma alloc_spec : forall k kind, kfresh k ->
  fst (k_alloc k kind) = next_fd k /\ kstable k (snd (k_alloc k kind)) /\
  next_fd (snd (k_alloc k kind)) = next_fd k + 1 /\
  k_get (snd (k_alloc k kind)) (next_fd k) = Some (vfd0 kind) /\ kfresh (snd (k_alloc k kind)) /\
  k_get k (next_fd k) = None.
Proof.
  intros k kind F. unfold k_alloc. cbn [fst snd].
  assert (N : k_get k (next_fd k) = None) by (apply kfresh_next_none; [assumption|lia]).
  split; [reflexivity|]. split; [|split; [reflexivity|split; [|split; [|assumption]]]].
  - constructor; try reflexivity.
    + cbn. lia.
    + intros x v H. rewrite k_get_put. destruct (Z.eqb_spec x (next_fd k)) as [Q|Q].
      * subst x. congruence.
      * exists v. split; [exact H|tauto].
    + intros x H. rewrite k_get_put. destruct (Z.eqb_spec x (next_fd k)) as [Q|Q]; [right; right; cbn; lia|left; exact H].
  - rewrite k_get_put, Z.eqb_refl. reflexivity.
  - intros x H. rewrite k_get_put in H. cbn [next_fd k_put k_set_vfds k_set_next].
    destruct (Z.eqb_spec x (next_fd k)) as [Q|Q]; [lia|]. apply F in H. lia.
Qed.

Lemma kfresh_stable_put : forall k fd v, kfresh k -> k_get k fd <> None -> kfresh (k_put k fd v).
Proof.
  intros k fd v F G x H. rewrite k_get_put in H. change (next_fd (k_put k fd v)) with (next_fd k).
  destruct (Z.eqb_spec x fd) as [Q|N]; [subst x|]; apply F; assumption.
Qed.

Lemma k_get_set_next : forall k n fd, k_get (k_set_next k n) fd = k_get k fd.
Proof. reflexivity. Qed.
Lemma k_open_set_next : forall k n fd, k_open (k_set_next k n) fd = k_open k fd.
Proof. reflexivity. Qed.
Ltac kget := repeat (rewrite k_get_put || rewrite k_get_set_next).
Ltac kopen := repeat (rewrite k_open_put || rewrite k_open_set_next).

(* pipe(): two fresh descriptors, paired *)
Lemma pipe_spec : forall k, kfresh k ->
  match k_pipe k with
  | (k', None) => k' = k /\ emfile (flt k) = true
  | (k', Some (r, w)) =>
      emfile (flt k) = false /\ r = next_fd k /\ w = next_fd k + 1 /\ kstable k k' /\ kfresh k' /\
      k_open k' r = Some (with_peer (vfd0 K_PIPE_R) w true) /\
      k_open k' w = Some (with_peer (vfd0 K_PIPE_W) r true)
  end.
Proof.
  intros k F. unfold k_pipe. destruct (emfile (flt k)) eqn:E; [tauto|].
  unfold k_alloc. cbn [fst snd next_fd k_put k_set_vfds k_set_next].
  set (n := next_fd k).
  assert (N0 : k_get k n = None) by (apply kfresh_next_none; [assumption|subst n; lia]).
  assert (N1 : k_get k (n + 1) = None) by (apply kfresh_next_none; [assumption|subst n; lia]).
  split; [reflexivity|]. split; [reflexivity|]. split; [reflexivity|].
  split; [|split].
  - constructor; try reflexivity.
    + cbn. fold n. lia.
    + intros x v H. kget.
      destruct (Z.eqb_spec x (n + 1)) as [Q|Q]; [subst x; unfold k_get in *; cbn in *; congruence|].
      destruct (Z.eqb_spec x n) as [Q'|Q']; [subst x; unfold k_get in *; cbn in *; congruence|].
      exists v. split; [exact H|tauto].
    + intros x H. kget. cbn [next_fd k_put k_set_vfds k_set_next]. fold n.
      destruct (Z.eqb_spec x (n + 1)) as [Q|Q]; [right; right; lia|].
      destruct (Z.eqb_spec x n) as [Q'|Q']; [right; right; lia|]. left. exact H.
  - intros x H. repeat (rewrite k_get_put in H || rewrite k_get_set_next in H). cbn [next_fd k_put k_set_vfds k_set_next]. fold n.
    destruct (Z.eqb_spec x (n + 1)) as [Q|Q]; [lia|].
    destruct (Z.eqb_spec x n) as [Q'|Q']; [lia|].
    assert (x < n) by (apply F; exact H). lia.
  - split.
    + kopen. destruct (Z.eqb_spec n (n + 1)); [lia|]. rewrite Z.eqb_refl. reflexivity.
    + kopen. rewrite Z.eqb_refl. reflexivity.
Qed.

(* eventfd creation is unavailable now: past the cut, and the plain eventfd call is missing too *)
Definition efd_off (k : kernel) : bool := efd_cut k && no_eventfd (flt k).

Lemma kstable_set_nefd : forall k k1 n, kstable k k1 -> kstable k (k_set_nefd k1 n).
Proof. intros k k1 n []. constructor; assumption. Qed.
Lemma kfresh_set_nefd : forall k n, kfresh k -> kfresh (k_set_nefd k n).
Proof. intros k n H. exact H. Qed.

Lemma eventfd_spec : forall k b, kfresh k ->
  match k_eventfd k b with
  | (k', inl fd) => fd = next_fd k /\ kstable k k' /\ kfresh k' /\ k_open k' fd = Some (vfd0 K_EVENTFD) /\
                    emfile (flt k) = false /\ efd_off k = false
  | (k', inr e) => k' = k /\ ((e = EMFILE /\ emfile (flt k) = true) \/
                              (e = ENOSYS /\ emfile (flt k) = false /\
                               (efd_off k = true \/ (b = true /\ no_eventfd2 (flt k) = true))))
  end.
Proof.
  intros k b F. unfold k_eventfd, efd_off. destruct (emfile (flt k)) eqn:E; [split; [reflexivity|left; tauto]|].
  destruct (efd_cut k) eqn:CUT; cbn [andb].
  - destruct (no_eventfd (flt k)) eqn:N1; cbn [orb].
    { split; [reflexivity|right; tauto]. }
    destruct b; cbn [andb]; [destruct (no_eventfd2 (flt k)) eqn:N2; [split; [reflexivity|right; tauto]|]|].
    all: destruct (alloc_spec k K_EVENTFD F) as (A1 & A2 & A3 & A4 & A5 & A6);
      destruct (k_alloc k K_EVENTFD) as [fd k1]; cbn [fst snd] in *; subst fd;
      (split; [reflexivity|]); (split; [apply kstable_set_nefd; assumption|]); (split; [apply kfresh_set_nefd; assumption|]);
      (split; [apply k_get_open; [assumption|reflexivity]|tauto]).
  - destruct (alloc_spec k K_EVENTFD F) as (A1 & A2 & A3 & A4 & A5 & A6);
      destruct (k_alloc k K_EVENTFD) as [fd k1]; cbn [fst snd] in *; subst fd;
      (split; [reflexivity|]); (split; [apply kstable_set_nefd; assumption|]); (split; [apply kfresh_set_nefd; assumption|]);
      (split; [apply k_get_open; [assumption|reflexivity]|tauto]).
Qed.

Lemma grab_spec : forall k in_use, kfresh k -> (in_use = 0 \/ in_use = 1 \/ in_use = 2) ->
  match eventfd_grab k in_use with
  | (k', inl fd, u) => fd = next_fd k /\ kstable k k' /\ kfresh k' /\ k_open k' fd = Some (vfd0 K_EVENTFD) /\
                       efd_off k = false /\ emfile (flt k) = false /\ (u = 1 \/ u = 2) /\ in_use <> 0
  | (k', inr e, u) => k' = k /\
       ((is_enosys e = true /\ u = 0 /\ (in_use = 0 \/ efd_off k = true)) \/
        (is_enosys e = false /\ emfile (flt k) = true /\ u = in_use /\ in_use <> 0))
  end.
Proof.
  intros k in_use F IU. unfold eventfd_grab.
  assert (OLD : forall iu, iu = 0 \/ iu = 1 ->
    match (if negb (iu =? 0) then
             match k_eventfd k false with
             | (k1, inl fd) => (k1, inl fd, iu)
             | (k1, inr e) => if is_enosys e then (k1, inr ENOSYS, 0) else (k1, inr e, iu)
             end
           else (k, inr ENOSYS, 0)) with
    | (k', inl fd, u) => fd = next_fd k /\ kstable k k' /\ kfresh k' /\ k_open k' fd = Some (vfd0 K_EVENTFD) /\
                         efd_off k = false /\ emfile (flt k) = false /\ u = iu /\ iu <> 0
    | (k', inr e, u) => k' = k /\
         ((is_enosys e = true /\ u = 0 /\ (iu = 0 \/ efd_off k = true)) \/
          (is_enosys e = false /\ emfile (flt k) = true /\ u = iu /\ iu <> 0))
    end).
  { intros iu [->| ->]; cbn [Z.eqb negb].
    - split; [reflexivity|left; tauto].
    - pose proof (eventfd_spec k false F) as S. destruct (k_eventfd k false) as [k1 [fd|e]].
      + destruct S as (A&B&C&D&E&G). splits; try assumption; lia.
      + destruct S as (-> & [(-> & E)|(-> & E & [N|(B&_)])]); cbn [is_enosys].
        * split; [reflexivity|right]. splits; try assumption; lia.
        * split; [reflexivity|left; tauto].
        * discriminate. }
  destruct IU as [->|[->| ->]].
  - change (0 =? 2) with false. cbv iota. specialize (OLD 0 (or_introl eq_refl)). cbn [Z.eqb negb] in OLD. exact OLD.
  - change (1 =? 2) with false. cbv iota. specialize (OLD 1 (or_intror eq_refl)).
    destruct (if negb (1 =? 0) then _ else _) as [[k' [fd|e]] u]; [|exact OLD].
    destruct OLD as (A&B&C&D&E&G&H&J). splits; try assumption; lia.
  - change (2 =? 2) with true. cbv iota.
    pose proof (eventfd_spec k true F) as S. destruct (k_eventfd k true) as [k1 [fd|e]].
    + destruct S as (A&B&C&D&E&G). splits; try assumption; lia.
    + destruct S as (-> & [(-> & E)|(-> & E & N)]); cbn [is_enosys is_einval orb].
      * split; [reflexivity|right]. splits; try assumption; lia.
      * specialize (OLD 1 (or_intror eq_refl)).
        destruct (if negb (1 =? 0) then _ else _) as [[k' [fd|e]] u].
        -- destruct OLD as (A&B&C&D&E'&G&H&J). splits; try assumption; lia.
        -- destruct OLD as (A & [(B&C&D)|(B&C&D&_)]); split; try assumption.
           ++ left. splits; try assumption. destruct D as [D|D]; [lia|right; assumption].
           ++ congruence.
Qed.

(* ---------- close ---------- *)
Lemma k_get_set_ep : forall k l fd, k_get (k_set_ep k l) fd = k_get k fd.
Proof. reflexivity. Qed.

Lemma k_close_spec : forall k fd,
  let k' := fst (k_close k fd) in
  next_fd k' = next_fd k /\ flt k' = flt k /\ nwait k' = nwait k /\
  (forall e, In e (ep k') <-> In e (ep k) /\ (k_open k fd <> None -> en_fd e <> fd)) /\
  (NoDup (map en_fd (ep k)) -> NoDup (map en_fd (ep k'))) /\
  (forall x, x <> fd -> (forall v, k_open k fd = Some v -> (vkind v =? K_PIPE_R) || (vkind v =? K_PIPE_W) = true -> x <> vpeer v) ->
             k_get k' x = k_get k x) /\
  (forall x v, k_get k x = Some v -> exists v', k_get k' x = Some v' /\ vkind v' = vkind v /\ vpeer v' = vpeer v /\
                                     (x <> fd -> vclosed v' = vclosed v)) /\
  (forall x, k_get k x = None -> k_get k' x = None) /\
  (k_open k fd <> None -> k_open k' fd = None).
Proof.
  intros k fd. unfold k_close. destruct (k_open k fd) as [v|] eqn:O.
  2:{ cbn [fst]. repeat split; try tauto; try congruence.
      intros x v H. exists v. tauto. }
  apply k_open_get in O. destruct O as [G C].
  set (k1 := k_put k fd (with_closed v true)).
  set (k2 := if (vkind v =? K_PIPE_R) || (vkind v =? K_PIPE_W)
             then match k_get k1 (vpeer v) with
                  | Some p => k_put k1 (vpeer v) (with_peer p (vpeer p) false)
                  | None => k1
                  end
             else k1).
  cbn [fst].
  assert (E2 : ep k2 = ep k).
  { subst k2 k1. destruct ((vkind v =? K_PIPE_R) || (vkind v =? K_PIPE_W)); [|reflexivity].
    destruct (k_get (k_put k fd (with_closed v true)) (vpeer v)); reflexivity. }
  assert (F2 : next_fd k2 = next_fd k /\ flt k2 = flt k /\ nwait k2 = nwait k).
  { subst k2 k1. destruct ((vkind v =? K_PIPE_R) || (vkind v =? K_PIPE_W)); [|repeat split].
    destruct (k_get (k_put k fd (with_closed v true)) (vpeer v)); repeat split. }
  assert (G2 : forall x, k_get k2 x =
                 if (vkind v =? K_PIPE_R) || (vkind v =? K_PIPE_W) then
                   match k_get k1 (vpeer v) with
                   | Some p => if x =? vpeer v then Some (with_peer p (vpeer p) false) else k_get k1 x
                   | None => k_get k1 x
                   end
                 else k_get k1 x).
  { intros x. subst k2. destruct ((vkind v =? K_PIPE_R) || (vkind v =? K_PIPE_W)); [|reflexivity].
    destruct (k_get k1 (vpeer v)); [apply k_get_put|reflexivity]. }
  assert (G1 : forall x, k_get k1 x = if x =? fd then Some (with_closed v true) else k_get k x).
  { intros x. subst k1. apply k_get_put. }
  destruct F2 as (F2a & F2b & F2c).
  split; [exact F2a|]. split; [exact F2b|]. split; [exact F2c|].
  split; [|split; [|split; [|split; [|split]]]].
  - intros e. cbn [ep k_set_ep]. rewrite E2, In_ep_rem. split; intros [A B]; (split; [assumption|]).
    + intros _. assumption.
    + apply B. congruence.
  - intros ND. cbn [ep k_set_ep]. rewrite E2. apply NoDup_fd_rem. assumption.
  - intros x N P. rewrite k_get_set_ep, G2.
    assert (Q : k_get k1 x = k_get k x) by (rewrite G1; destruct (Z.eqb_spec x fd); [contradiction|reflexivity]).
    destruct ((vkind v =? K_PIPE_R) || (vkind v =? K_PIPE_W)) eqn:PK; [|exact Q].
    assert (x <> vpeer v) by (apply P; [reflexivity|exact PK]).
    destruct (k_get k1 (vpeer v)); [|exact Q]. destruct (Z.eqb_spec x (vpeer v)); [contradiction|exact Q].
  - intros x w H. rewrite k_get_set_ep, G2.
    assert (Q : exists w', k_get k1 x = Some w' /\ vkind w' = vkind w /\ vpeer w' = vpeer w /\ (x <> fd -> w' = w)).
    { rewrite G1. destruct (Z.eqb_spec x fd) as [->|N].
      - rewrite G in H. injection H as <-. eexists. split; [reflexivity|]. repeat split. contradiction.
      - exists w. tauto. }
    destruct Q as (w' & Q1 & Q2 & Q3 & Q4).
    destruct ((vkind v =? K_PIPE_R) || (vkind v =? K_PIPE_W)).
    + destruct (k_get k1 (vpeer v)) as [p|] eqn:GP.
      * destruct (Z.eqb_spec x (vpeer v)) as [->|N].
        -- rewrite Q1 in GP. injection GP as <-. eexists. split; [reflexivity|]. cbn.
           repeat split; try assumption. intros N. rewrite (Q4 N). reflexivity.
        -- exists w'. repeat split; try assumption. intros N'. rewrite (Q4 N'). reflexivity.
      * exists w'. repeat split; try assumption. intros N'. rewrite (Q4 N'). reflexivity.
    + exists w'. repeat split; try assumption. intros N'. rewrite (Q4 N'). reflexivity.
  - intros x H. rewrite k_get_set_ep, G2.
    assert (Q : k_get k1 x = None).
    { rewrite G1. destruct (Z.eqb_spec x fd) as [->|N]; [congruence|assumption]. }
    destruct ((vkind v =? K_PIPE_R) || (vkind v =? K_PIPE_W)); [|exact Q].
    destruct (k_get k1 (vpeer v)) as [p|] eqn:GP; [|exact Q].
    destruct (Z.eqb_spec x (vpeer v)) as [->|N]; [congruence|exact Q].
  - intros _. unfold k_open. rewrite k_get_set_ep, G2.
    assert (Q : k_get k1 fd = Some (with_closed v true)) by (rewrite G1, Z.eqb_refl; reflexivity).
    destruct ((vkind v =? K_PIPE_R) || (vkind v =? K_PIPE_W)); [|rewrite Q; reflexivity].
    destruct (k_get k1 (vpeer v)) as [p|] eqn:GP; [|rewrite Q; reflexivity].
    destruct (Z.eqb_spec fd (vpeer v)) as [E|N]; [|rewrite Q; reflexivity].
    rewrite <- E in GP. rewrite Q in GP. injection GP as <-. reflexivity.
Qed.
