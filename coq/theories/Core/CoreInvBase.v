(* CoreInvBase.v -- utilities for the core-loop invariant: lists, counting,
   the result monad, projections of the state setters, virtual-kernel lemmas. *)
From Coq Require Import List ZArith Bool Lia.
From Ivv Require Import Core.Kernel Core.CoreTypes Core.CoreFd Core.CoreModel.
Import ListNotations.
Local Open Scope Z_scope.

(* ---------- projections through the setters ---------- *)
Ltac sp :=
  cbn [fdt active handled numfds last_abs last_abs_count method notify epfd tfd pwait2
       efd_epoll efd_raw active_fd active_ref active_wr pfds pkeys quit numobjs heap time
       time_valid tasks cur epoch tepoch ev_pending ev_batch ev_count ev_reg use_raw
       rw_reg rw_rfd rw_wfd kern trace invoc
       set_fdt set_active set_handled set_numfds set_last_abs set_method set_notify set_epoll
       set_efd set_activewr set_activefd set_poll set_quit set_numobjs set_heap set_time
       set_tasks set_epoch set_evlists set_ev set_rw set_kern set_trace set_invoc
       emit putfd getfd] in *.
Ltac spg :=
  cbn [fdt active handled numfds last_abs last_abs_count method notify epfd tfd pwait2
       efd_epoll efd_raw active_fd active_ref active_wr pfds pkeys quit numobjs heap time
       time_valid tasks cur epoch tepoch ev_pending ev_batch ev_count ev_reg use_raw
       rw_reg rw_rfd rw_wfd kern trace invoc
       set_fdt set_active set_handled set_numfds set_last_abs set_method set_notify set_epoll
       set_efd set_activewr set_activefd set_poll set_quit set_numobjs set_heap set_time
       set_tasks set_epoch set_evlists set_ev set_rw set_kern set_trace set_invoc
       emit putfd getfd].

(* ---------- upd ---------- *)
Lemma upd_same : forall A (f : Z -> A) x v, upd f x v x = v.
Proof. intros. unfold upd. rewrite Z.eqb_refl. reflexivity. Qed.
Lemma upd_other : forall A (f : Z -> A) x v y, y <> x -> upd f x v y = f y.
Proof. intros. unfold upd. destruct (Z.eqb_spec y x); [contradiction|reflexivity]. Qed.

(* ---------- mem_z / remove_z ---------- *)
Lemma memz_In : forall x l, mem_z x l = true <-> In x l.
Proof.
  intros x l. unfold mem_z. rewrite existsb_exists. split.
  - intros (y & H & E). apply Z.eqb_eq in E. subst. assumption.
  - intros H. exists x. split; [assumption|apply Z.eqb_refl].
Qed.
Lemma memz_nIn : forall x l, mem_z x l = false <-> ~ In x l.
Proof. intros. rewrite <- memz_In. destruct (mem_z x l); split; congruence. Qed.
Lemma In_remz : forall x l y, In y (remove_z x l) <-> In y l /\ y <> x.
Proof.
  intros x l y. induction l as [|a l IH]; cbn [remove_z In]; [tauto|].
  destruct (Z.eqb_spec a x); cbn [In]; rewrite IH; intuition congruence.
Qed.
Lemma remz_length : forall x l, (length (remove_z x l) <= length l)%nat.
Proof. intros x l. induction l as [|a l IH]; cbn [remove_z length]; [lia|]. destruct (a =? x); cbn [length]; lia. Qed.
Lemma NoDup_remz : forall x l, NoDup l -> NoDup (remove_z x l).
Proof.
  intros x l H. induction H as [|a l N H IH]; cbn [remove_z]; [constructor|].
  destruct (a =? x); [assumption|]. constructor; [|assumption]. rewrite In_remz. tauto.
Qed.
Lemma remz_notin : forall x l, ~ In x l -> remove_z x l = l.
Proof.
  intros x l. induction l as [|a l IH]; cbn [remove_z In]; intros H; [reflexivity|].
  destruct (Z.eqb_spec a x); [exfalso; apply H; left; assumption|]. f_equal. apply IH. tauto.
Qed.
Lemma remz_length_in : forall x l, In x l -> (length (remove_z x l) < length l)%nat.
Proof.
  intros x l. induction l as [|a l IH]; cbn [remove_z In length]; intros H; [contradiction|].
  destruct (Z.eqb_spec a x).
  - pose proof (remz_length x l). lia.
  - cbn [length]. destruct H; [contradiction|]. apply IH in H. lia.
Qed.

(* ---------- zseq and counting ---------- *)
Lemma In_zseq' : forall n lo x, In x (zseq lo n) <-> lo <= x < lo + Z.of_nat n.
Proof.
  induction n as [|n IH]; intros lo x; cbn [zseq In]; [lia|]. rewrite IH. lia.
Qed.
Lemma NoDup_zseq : forall n lo, NoDup (zseq lo n).
Proof.
  induction n as [|n IH]; intros lo; cbn [zseq]; constructor; [|apply IH].
  rewrite In_zseq'. lia.
Qed.
Lemma zseq_length : forall n lo, length (zseq lo n) = n.
Proof. induction n; intros; cbn [zseq length]; [reflexivity|]. rewrite IHn. reflexivity. Qed.

Definition cntf (f : Z -> bool) (l : list Z) : Z := Z.of_nat (length (filter f l)).

Lemma cntf_ext : forall f g l, (forall x, In x l -> f x = g x) -> cntf f l = cntf g l.
Proof.
  intros f g l H. unfold cntf. f_equal. f_equal. induction l as [|a l IH]; [reflexivity|].
  cbn [filter]. rewrite (H a) by (left; reflexivity). rewrite IH; [reflexivity|].
  intros; apply H; right; assumption.
Qed.
Lemma cntf_le : forall f g l, (forall x, In x l -> f x = true -> g x = true) -> cntf f l <= cntf g l.
Proof.
  intros f g l H. unfold cntf. apply inj_le. induction l as [|a l IH]; [cbn; lia|].
  cbn [filter]. assert (IH' := IH (fun x Hx => H x (or_intror Hx))).
  destruct (f a) eqn:E.
  - rewrite (H a (or_introl eq_refl) E). cbn [length]. lia.
  - destruct (g a); cbn [length]; lia.
Qed.
Lemma cntf_flip : forall f g l k, NoDup l -> In k l -> f k = false -> g k = true ->
  (forall x, x <> k -> f x = g x) -> cntf g l = cntf f l + 1.
Proof.
  intros f g l k ND. unfold cntf. induction ND as [|a l NI ND IH]; intros I Fk Gk O; [contradiction|].
  cbn [filter]. destruct (Z.eq_dec a k) as [->|NE].
  - rewrite Fk, Gk. cbn [length].
    assert (E : filter g l = filter f l).
    { apply filter_ext_in. intros b Hb. symmetry. apply O. intro; subst; contradiction. }
    rewrite E. lia.
  - destruct I as [|I]; [contradiction|]. specialize (IH I Fk Gk O).
    rewrite (O a NE). destruct (g a); cbn [length]; lia.
Qed.
Lemma cntf_nonneg : forall f l, 0 <= cntf f l.
Proof. intros; unfold cntf; lia. Qed.
Lemma cntf_bound : forall f l, cntf f l <= Z.of_nat (length l).
Proof.
  intros. unfold cntf. apply inj_le. induction l as [|a l IH]; [cbn; lia|].
  cbn [filter]. destruct (f a); cbn [length]; lia.
Qed.
Lemma cntf_pos : forall f l k, In k l -> f k = true -> 1 <= cntf f l.
Proof.
  intros f l k I F. unfold cntf. assert (In k (filter f l)) by (apply filter_In; tauto).
  destruct (filter f l); [contradiction|]. cbn [length]. lia.
Qed.

(* ---------- the result monad ---------- *)
Definition nobad (l : list tev) : Prop := ~ In TCrash l /\ ~ In TFatal l.

Definition okr (P : core -> Prop) (r : res) : Prop :=
  match r with R s => P s | Halt s => nobad (trace s) end.

Lemma okr_bind : forall (P Q : core -> Prop) r f,
  okr P r -> (forall s, P s -> okr Q (f s)) -> okr Q (bind r f).
Proof. intros P Q [s|s] f H K; cbn [bind okr] in *; [apply K; assumption|assumption]. Qed.
Lemma okr_weaken : forall (P Q : core -> Prop) r, okr P r -> (forall s, P s -> Q s) -> okr Q r.
Proof. intros P Q [s|s] H K; cbn [okr] in *; [apply K; assumption|assumption]. Qed.
Lemma okr_R_inv : forall (P : core -> Prop) r s, okr P r -> r = R s -> P s.
Proof. intros P r s H ->. exact H. Qed.
Lemma nobad_cons : forall e l, nobad l -> e <> TCrash -> e <> TFatal -> nobad (e :: l).
Proof. intros e l [A B] C D. split; intros [H|H]; congruence || contradiction. Qed.
Lemma okr_halt : forall P s e, nobad (trace s) -> e <> TCrash -> e <> TFatal -> okr P (halt s e).
Proof. intros. unfold halt. cbn [okr]. spg. apply nobad_cons; assumption. Qed.

(* ---------- association lists / descriptors ---------- *)
Lemma k_get_put : forall k fd v fd', k_get (k_put k fd v) fd' = if fd' =? fd then Some v else k_get k fd'.
Proof. intros. unfold k_get, k_put, k_set_vfds. cbn [vfds assoc]. reflexivity. Qed.
Lemma k_open_put : forall k fd v fd',
  k_open (k_put k fd v) fd' = if fd' =? fd then (if vclosed v then None else Some v) else k_open k fd'.
Proof. intros. unfold k_open. rewrite k_get_put. destruct (fd' =? fd); reflexivity. Qed.
Lemma k_open_get : forall k fd v, k_open k fd = Some v -> k_get k fd = Some v /\ vclosed v = false.
Proof. intros k fd v. unfold k_open. destruct (k_get k fd) as [w|]; [|discriminate]. destruct (vclosed w) eqn:E; [discriminate|]. intros [= ->]. tauto. Qed.
Lemma k_get_open : forall k fd v, k_get k fd = Some v -> vclosed v = false -> k_open k fd = Some v.
Proof. intros k fd v H C. unfold k_open. rewrite H, C. reflexivity. Qed.
Lemma k_open_some_get : forall k fd, k_open k fd <> None -> k_get k fd <> None.
Proof. intros k fd. unfold k_open. destruct (k_get k fd); congruence. Qed.

(* kernel fields other than the epoll set and the call counter *)
Definition kctl (k k' : kernel) : Prop :=
  vfds k' = vfds k /\ next_fd k' = next_fd k /\ clock k' = clock k /\ nwait k' = nwait k /\ flt k' = flt k.
Lemma kctl_refl : forall k, kctl k k. Proof. intros; repeat split. Qed.
Lemma kctl_trans : forall a b c, kctl a b -> kctl b c -> kctl a c.
Proof. unfold kctl. intros a b c (A1&A2&A3&A4&A5) (B1&B2&B3&B4&B5). repeat split; congruence. Qed.
Lemma kctl_get : forall k k' fd, kctl k k' -> k_get k' fd = k_get k fd.
Proof. intros k k' fd (A&_). unfold k_get. rewrite A. reflexivity. Qed.
Lemma kctl_open : forall k k' fd, kctl k k' -> k_open k' fd = k_open k fd.
Proof. intros. unfold k_open. erewrite kctl_get by eassumption. reflexivity. Qed.

(* ---------- the epoll interest list ---------- *)
Lemma ep_find_In : forall l fd, ep_find l fd = true <-> exists e, In e l /\ en_fd e = fd.
Proof.
  induction l as [|a l IH]; intros fd; cbn [ep_find In].
  - split; [discriminate|intros (e & [] & _)].
  - rewrite orb_true_iff, IH, Z.eqb_eq. split.
    + intros [H|(e & H & E)]; [exists a; tauto|exists e; tauto].
    + intros (e & [->|H] & E); [left; assumption|right; exists e; tauto].
Qed.
Lemma ep_find_false : forall l fd, ep_find l fd = false <-> forall e, In e l -> en_fd e <> fd.
Proof.
  intros l fd. split.
  - intros H e I E. assert (ep_find l fd = true) by (apply ep_find_In; exists e; tauto). congruence.
  - intros H. destruct (ep_find l fd) eqn:E; [|reflexivity]. apply ep_find_In in E.
    destruct E as (e & I & E). exfalso. eapply H; eassumption.
Qed.
Lemma ep_find_app : forall l1 l2 fd, ep_find (l1 ++ l2) fd = ep_find l1 fd || ep_find l2 fd.
Proof. induction l1 as [|a l IH]; intros; cbn [ep_find app]; [reflexivity|]. rewrite IH, orb_assoc. reflexivity. Qed.
Lemma In_ep_rem : forall l fd e, In e (ep_remove l fd) <-> In e l /\ en_fd e <> fd.
Proof.
  induction l as [|a l IH]; intros fd e; cbn [ep_remove In]; [tauto|].
  destruct (Z.eqb_spec (en_fd a) fd); cbn [In]; rewrite IH; intuition congruence.
Qed.
Lemma ep_find_rem : forall l fd fd', ep_find (ep_remove l fd) fd' = ep_find l fd' && negb (fd' =? fd).
Proof.
  intros l fd fd'. destruct (ep_find (ep_remove l fd) fd') eqn:E.
  - apply ep_find_In in E. destruct E as (e & I & E). apply In_ep_rem in I. destruct I as [I N].
    symmetry. apply andb_true_iff. split; [apply ep_find_In; exists e; tauto|].
    apply negb_true_iff. apply Z.eqb_neq. congruence.
  - symmetry. apply andb_false_iff. destruct (Z.eqb_spec fd' fd) as [->|N]; [right; reflexivity|left].
    rewrite ep_find_false in E |- *. intros e I EE. apply (E e); [apply In_ep_rem; split; congruence|assumption].
Qed.
Lemma map_fd_replace : forall l n, map en_fd (ep_replace l n) = map en_fd l.
Proof.
  induction l as [|a l IH]; intros n; cbn [ep_replace map]; [reflexivity|].
  destruct (Z.eqb_spec (en_fd a) (en_fd n)); cbn [map]; [congruence|]. rewrite IH. reflexivity.
Qed.
Lemma In_ep_repl : forall l n e, In e (ep_replace l n) -> e = n \/ (In e l).
Proof.
  induction l as [|a l IH]; intros n e; cbn [ep_replace In]; [tauto|].
  destruct (en_fd a =? en_fd n); cbn [In]; [intros [H|H]; [left; congruence|tauto]|].
  intros [H|H]; [tauto|]. apply IH in H. tauto.
Qed.
Lemma In_ep_repl_other : forall l n e, In e l -> en_fd e <> en_fd n -> In e (ep_replace l n).
Proof.
  induction l as [|a l IH]; intros n e; cbn [ep_replace In]; [tauto|].
  destruct (Z.eqb_spec (en_fd a) (en_fd n)) as [E|NE]; cbn [In]; intros [H|H] N.
  - subst. contradiction.
  - right. assumption.
  - left. assumption.
  - right. apply IH; assumption.
Qed.
Lemma In_ep_repl_new : forall l n, ep_find l (en_fd n) = true -> In n (ep_replace l n).
Proof.
  induction l as [|a l IH]; intros n; cbn [ep_replace ep_find In]; [discriminate|].
  destruct (Z.eqb_spec (en_fd a) (en_fd n)); cbn [orb In]; [tauto|]. intros H. right. apply IH. assumption.
Qed.
Lemma In_ep_repl_old : forall l n e, NoDup (map en_fd l) -> In e (ep_replace l n) -> en_fd e = en_fd n -> e = n.
Proof.
  induction l as [|a l IH]; intros n e ND; cbn [ep_replace In]; [tauto|].
  cbn [map] in ND. inversion ND as [|? ? NI ND']; subst.
  destruct (Z.eqb_spec (en_fd a) (en_fd n)) as [E|NE]; cbn [In].
  - intros [H|H] E'; [congruence|]. exfalso. apply NI. rewrite E, <- E'. apply in_map. assumption.
  - intros [H|H] E'; [congruence|]. apply IH; assumption.
Qed.
Lemma ep_find_map : forall l fd, ep_find l fd = true <-> In fd (map en_fd l).
Proof.
  intros. rewrite ep_find_In, in_map_iff. split; intros (e & A & B); exists e; tauto.
Qed.
Lemma NoDup_fd_rem : forall l fd, NoDup (map en_fd l) -> NoDup (map en_fd (ep_remove l fd)).
Proof.
  induction l as [|a l IH]; intros fd ND; cbn [ep_remove map] in *; [constructor|].
  inversion ND as [|? ? NI ND']; subst. destruct (en_fd a =? fd); [apply IH; assumption|].
  cbn [map]. constructor; [|apply IH; assumption].
  intros H. apply NI. apply in_map_iff in H. destruct H as (e & E & I). apply In_ep_rem in I.
  apply in_map_iff. exists e. tauto.
Qed.
Lemma NoDup_fd_app : forall l n, NoDup (map en_fd l) -> ep_find l (en_fd n) = false -> NoDup (map en_fd (l ++ [n])).
Proof.
  induction l as [|a l IH]; intros n ND F; cbn [map app] in *; [constructor; [tauto|constructor]|].
  cbn [ep_find] in F. apply orb_false_iff in F. destruct F as [F1 F2]. apply Z.eqb_neq in F1.
  inversion ND as [|? ? NI ND']; subst. constructor; [|apply IH; assumption].
  rewrite map_app, in_app_iff. cbn [map In]. intros [H|[H|[]]]; [contradiction|congruence].
Qed.

(* ---------- epoll_ctl ---------- *)
Definition ctl_ent (fd ev d : Z) : epent := {| en_fd := fd; en_events := ev; en_data := d; en_enabled := true |}.

Definition ctl_pure (k : kernel) (op fd ev d : Z) : list epent * option errno :=
  match k_open k fd with
  | None => (ep k, Some EBADF)
  | Some _ =>
      if op =? CTL_ADD then
        if ep_find (ep k) fd then (ep k, Some EEXIST) else (ep k ++ [ctl_ent fd ev d], None)
      else if op =? CTL_MOD then
        if ep_find (ep k) fd then (ep_replace (ep k) (ctl_ent fd ev d), None) else (ep k, Some ENOENT)
      else
        if ep_find (ep k) fd then (ep_remove (ep k) fd, None) else (ep k, Some ENOENT)
  end.

Lemma ctl_pure_not_eintr : forall k op fd ev d, snd (ctl_pure k op fd ev d) <> Some EINTR.
Proof.
  intros. unfold ctl_pure. destruct (k_open k fd); [|cbn; congruence].
  destruct (op =? CTL_ADD); [destruct (ep_find (ep k) fd); cbn; congruence|].
  destruct (op =? CTL_MOD); destruct (ep_find (ep k) fd); cbn; congruence.
Qed.

Lemma k_epoll_ctl_spec : forall k op fd ev d,
  let r := k_epoll_ctl k op fd ev d in
  kctl k (fst r) /\ nctl (fst r) = nctl k + 1 /\
  ((snd r = Some EINTR /\ ep (fst r) = ep k /\ eintr_ctl (flt k) = nctl k + 1) \/
   (ep (fst r) = fst (ctl_pure k op fd ev d) /\ snd r = snd (ctl_pure k op fd ev d))).
Proof.
  intros k op fd ev d. unfold k_epoll_ctl. cbv zeta.
  set (k0 := k_set_nctl k (nctl k + 1)).
  assert (K0 : kctl k k0) by (repeat split).
  assert (O0 : k_open k0 fd = k_open k fd) by reflexivity.
  assert (E0 : ep k0 = ep k) by reflexivity.
  assert (F0 : flt k0 = flt k) by reflexivity.
  assert (N0 : nctl k0 = nctl k + 1) by reflexivity.
  destruct (negb (eintr_ctl (flt k0) =? 0) && (nctl k0 =? eintr_ctl (flt k0))) eqn:EI.
  - cbn [fst snd]. split; [assumption|split; [assumption|left]].
    apply andb_true_iff in EI. destruct EI as [_ EI]. apply Z.eqb_eq in EI.
    rewrite F0, N0 in EI. repeat split; congruence.
  - unfold ctl_pure. rewrite O0, E0. fold (ctl_ent fd ev d).
    destruct (k_open k fd); [|cbn [fst snd]; split; [assumption|split; [assumption|right; split; reflexivity]]].
    destruct (op =? CTL_ADD).
    { destruct (ep_find (ep k) fd); cbn [fst snd]; (split; [assumption|split; [assumption|right; split; reflexivity]]). }
    destruct (op =? CTL_MOD); destruct (ep_find (ep k) fd); cbn [fst snd];
      (split; [assumption|split; [assumption|right; split; reflexivity]]).
Qed.

Lemma ctl_pure_kctl : forall k k' op fd ev d, kctl k k' -> ep k' = ep k -> ctl_pure k' op fd ev d = ctl_pure k op fd ev d.
Proof. intros. unfold ctl_pure. erewrite kctl_open by eassumption. rewrite H0. reflexivity. Qed.

Lemma ctl_retry_spec : forall s op fd ev d, exists k',
  ctl_retry s op fd ev d = (set_kern s k', snd (ctl_pure (kern s) op fd ev d)) /\
  kctl (kern s) k' /\ ep k' = fst (ctl_pure (kern s) op fd ev d).
Proof.
  intros s op fd ev d. unfold ctl_retry.
  pose proof (k_epoll_ctl_spec (kern s) op fd ev d) as H. cbv zeta in H.
  destruct (k_epoll_ctl (kern s) op fd ev d) as [k1 r1]. cbn [fst snd] in H.
  destruct H as (K1 & N1 & [(R1 & E1 & X1)|(E1 & R1)]).
  - subst r1.
    pose proof (k_epoll_ctl_spec k1 op fd ev d) as H. cbv zeta in H.
    destruct (k_epoll_ctl k1 op fd ev d) as [k2 r2]. cbn [fst snd] in H.
    destruct H as (K2 & N2 & [(R2 & E2 & X2)|(E2 & R2)]).
    + exfalso. destruct K1 as (_&_&_&_&F1). rewrite F1 in X2. lia.
    + rewrite (ctl_pure_kctl _ _ _ _ _ _ K1 E1) in E2, R2.
      exists k2. split; [rewrite R2; reflexivity|]. split; [eapply kctl_trans; eassumption|assumption].
  - exists k1. split; [|split; assumption].
    rewrite R1. pose proof (ctl_pure_not_eintr (kern s) op fd ev d) as NE. rewrite <- R1 in NE |- *.
    destruct r1 as [[]|]; try reflexivity. congruence.
Qed.

(* success conditions *)
Lemma ctl_pure_add : forall k fd ev d, k_open k fd <> None -> ep_find (ep k) fd = false ->
  ctl_pure k CTL_ADD fd ev d = (ep k ++ [ctl_ent fd ev d], None).
Proof. intros. unfold ctl_pure. destruct (k_open k fd); [|congruence]. rewrite H0. reflexivity. Qed.
Lemma ctl_pure_mod : forall k fd ev d, k_open k fd <> None -> ep_find (ep k) fd = true ->
  ctl_pure k CTL_MOD fd ev d = (ep_replace (ep k) (ctl_ent fd ev d), None).
Proof. intros. unfold ctl_pure. destruct (k_open k fd); [|congruence]. rewrite H0. reflexivity. Qed.
Lemma ctl_pure_del : forall k fd ev d, k_open k fd <> None -> ep_find (ep k) fd = true ->
  ctl_pure k CTL_DEL fd ev d = (ep_remove (ep k) fd, None).
Proof. intros. unfold ctl_pure. destruct (k_open k fd); [|congruence]. rewrite H0. reflexivity. Qed.
Lemma ctl_pure_fail_ep : forall k op fd ev d e, snd (ctl_pure k op fd ev d) = Some e -> fst (ctl_pure k op fd ev d) = ep k.
Proof.
  intros k op fd ev d e. unfold ctl_pure. destruct (k_open k fd); [|reflexivity].
  destruct (op =? CTL_ADD); [destruct (ep_find (ep k) fd); cbn; congruence|].
  destruct (op =? CTL_MOD); destruct (ep_find (ep k) fd); cbn; congruence.
Qed.

(* ---------- positions in lists ---------- *)
Lemma nth_error_snoc : forall A (l : list A) a n,
  nth_error (l ++ [a]) n = if (n <? length l)%nat then nth_error l n
                           else if (n =? length l)%nat then Some a else None.
Proof.
  intros A l a n. destruct (Nat.ltb_spec n (length l)) as [H|H].
  - apply nth_error_app1. assumption.
  - rewrite nth_error_app2 by assumption. destruct (Nat.eqb_spec n (length l)) as [->|N].
    + rewrite Nat.sub_diag. reflexivity.
    + destruct (n - length l)%nat eqn:Q; [lia|]. cbn. destruct n0; reflexivity.
Qed.
Lemma set_nth_length : forall A (l : list A) i v, length (set_nth l i v) = length l.
Proof. induction l as [|a l IH]; intros [|i] v; cbn [set_nth length]; try reflexivity. rewrite IH. reflexivity. Qed.
Lemma nth_error_set_nth : forall A (l : list A) i v n,
  nth_error (set_nth l i v) n = if (n =? i)%nat && (i <? length l)%nat then Some v else nth_error l n.
Proof.
  induction l as [|a l IH]; intros i v n.
  - cbn. destruct (n =? i)%nat; destruct n; reflexivity.
  - destruct i as [|i]; destruct n as [|n]; cbn [set_nth nth_error length]; try reflexivity.
    rewrite IH. reflexivity.
Qed.
Lemma nth_error_firstn : forall A (l : list A) m n,
  nth_error (firstn m l) n = if (n <? m)%nat then nth_error l n else None.
Proof.
  induction l as [|a l IH]; intros m n.
  - rewrite firstn_nil. destruct (n <? m)%nat; destruct n; reflexivity.
  - destruct m as [|m]; [cbn; destruct n; reflexivity|]. destruct n as [|n]; [reflexivity|].
    cbn [firstn nth_error]. rewrite IH. reflexivity.
Qed.
Lemma nth_z_nat : forall A (l : list A) i, 0 <= i -> nth_z l i = nth_error l (Z.to_nat i).
Proof. intros. unfold nth_z. destruct (Z.ltb_spec i 0); [lia|reflexivity]. Qed.
Lemma nth_error_lt : forall A (l : list A) n a, nth_error l n = Some a -> (n < length l)%nat.
Proof. intros. apply nth_error_Some. congruence. Qed.
Lemma nth_error_ex : forall A (l : list A) n, (n < length l)%nat -> exists a, nth_error l n = Some a.
Proof. intros A l n H. destruct (nth_error l n) eqn:E; [eauto|]. apply nth_error_None in E. lia. Qed.

Lemma NoDup_range_length : forall l n, NoDup l -> (forall x, In x l -> 0 <= x < Z.of_nat n) -> (length l <= n)%nat.
Proof.
  intros l n ND H. rewrite <- (zseq_length n 0). apply NoDup_incl_length; [assumption|].
  intros x Hx. apply In_zseq'. apply H in Hx. lia.
Qed.
