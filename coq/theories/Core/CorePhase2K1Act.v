(* CorePhase2K1Act.v -- raw events, the kick descriptor and events leave a descriptor t
   alone, given that t is none of the descriptors they own and t is below next_fd. *)
From Coq Require Import List ZArith Bool Lia.
From Ivv Require Import Core.Kernel Core.CoreTypes Core.CoreFd Core.CoreModel Core.CoreSpec Core.CoreRelBase
  Core.CorePhase2K1Base Core.CorePhase2K1Fd.
Import ListNotations.
Local Open Scope Z_scope.

(* the action-level frame: what the kernel-timer invariant reads *)
Record TF (t : Z) (s s' : core) : Prop := {
  tf_k : KT t (kern s) (kern s');
  tf_tfd : tfd s' = tfd s;
  tf_method : method s' = method s;
  tf_la : last_abs s' = last_abs s;
  tf_lac : last_abs_count s' = last_abs_count s }.

Lemma TF_refl : forall t s, TF t s s. Proof. intros. constructor; try reflexivity. apply KT_refl. Qed.
Lemma TF_trans : forall t a b c, TF t a b -> TF t b c -> TF t a c.
Proof. intros t a b c [] []. constructor; try congruence. eapply KT_trans; eassumption. Qed.
Lemma KF_TF : forall t s s', KF t s s' -> TF t s s'.
Proof. intros t s s' []. constructor; assumption. Qed.
Lemma TF_plain : forall t s s', kern s' = kern s -> tfd s' = tfd s -> method s' = method s -> last_abs s' = last_abs s ->
  last_abs_count s' = last_abs_count s -> TF t s s'.
Proof. intros t s s' K. intros. constructor; try assumption. rewrite K. apply KT_refl. Qed.
Lemma TF_kern : forall t s k', KT t (kern s) k' -> TF t s (set_kern s k').
Proof. intros. constructor; try reflexivity. assumption. Qed.

(* ---------- allocation ---------- *)
Lemma eventfd_KT : forall t k b, t < next_fd k ->
  KT t k (fst (k_eventfd k b)) /\ (forall fd, snd (k_eventfd k b) = inl fd -> fd = next_fd k).
Proof.
  intros t k b L. unfold k_eventfd. destruct (emfile _); [split; [apply KT_refl|discriminate]|].
  destruct (_ && _); [split; [apply KT_refl|discriminate]|].
  pose proof (KT_alloc t k K_EVENTFD L) as K. unfold k_alloc in *. cbn [fst snd] in *.
  split; [eapply KT_trans; [exact K|apply KT_fields; try reflexivity; cbn; lia]|]. intros fd E. inversion E. reflexivity.
Qed.

Lemma grab_KT : forall t k u, t < next_fd k ->
  KT t k (fst (fst (eventfd_grab k u))) /\ (forall fd, snd (fst (eventfd_grab k u)) = inl fd -> next_fd k <= fd).
Proof.
  intros t k u L. unfold eventfd_grab.
  assert (OLD : forall k0 u0, t < next_fd k0 -> next_fd k <= next_fd k0 ->
    let x := (if negb (u0 =? 0) then
      match k_eventfd k0 false with
      | (k1, inl fd) => (k1, inl fd, u0)
      | (k1, inr e) => if is_enosys e then (k1, @inr Z errno ENOSYS, 0) else (k1, inr e, u0)
      end
    else (k0, inr ENOSYS, 0)) in
    KT t k0 (fst (fst x)) /\ (forall fd, snd (fst x) = inl fd -> next_fd k <= fd)).
  { intros k0 u0 L0 M0. cbv zeta. destruct (negb (u0 =? 0)); [|split; [apply KT_refl|discriminate]].
    destruct (eventfd_KT t k0 false L0) as [K F].
    destruct (k_eventfd k0 false) as [k1 [fd|e]]; cbn [fst snd] in *.
    - split; [exact K|]. intros fd0 E. inversion E; subst. rewrite (F fd0 eq_refl). exact M0.
    - destruct (is_enosys e); cbn [fst snd]; (split; [exact K|discriminate]). }
  destruct (u =? 2).
  - destruct (eventfd_KT t k true L) as [K F].
    destruct (k_eventfd k true) as [k1 [fd|e]]; cbn [fst snd] in *.
    + split; [exact K|]. intros fd0 E. inversion E; subst. rewrite (F fd0 eq_refl). lia.
    + destruct (_ || _); [|cbn [fst snd]; split; [exact K|discriminate]].
      pose proof (kt_nx _ _ _ K) as NX. assert (L1 : t < next_fd k1) by lia.
      destruct (OLD k1 1 L1 NX) as [K2 F2]. cbv zeta in K2, F2.
      split; [eapply KT_trans; eassumption|exact F2].
  - apply (OLD k u L). lia.
Qed.

Lemma pipe_KT : forall t k, t < next_fd k ->
  KT t k (fst (k_pipe k)) /\ (forall r w, snd (k_pipe k) = Some (r, w) -> next_fd k <= r /\ next_fd k <= w).
Proof.
  intros t k L. unfold k_pipe. destruct (emfile _); [split; [apply KT_refl|discriminate]|].
  unfold k_alloc. cbn [fst snd next_fd k_put k_set_vfds k_set_next].
  split.
  - eapply KT_trans; [apply (KT_alloc t k K_PIPE_R L)|]. unfold k_alloc. cbn [snd].
    set (k1 := k_put (k_set_next k (next_fd k + 1)) (next_fd k) (vfd0 K_PIPE_R)).
    eapply KT_trans; [apply (KT_alloc t k1 K_PIPE_W); cbn; lia|]. unfold k_alloc. cbn [snd].
    eapply KT_trans; [|apply KT_put; cbn; lia]. apply KT_put. cbn. lia.
  - intros r w E. inversion E. lia.
Qed.

(* ---------- raw events ---------- *)
Lemma raw_tail_TF : forall t s0 s j rfd wfd, TF t s0 s ->
  ARes (TF t s0)
       (bind (fd_register (putfd s (RAW_KEY j) (fd_with_handlers (fd_fresh rfd (1000 + j)) (Some (H_RAW j)) None None)) (RAW_KEY j))
             (fun s => R (set_rw s (upd (rw_reg s) j true) (upd (rw_rfd s) j rfd) (upd (rw_wfd s) j wfd)))).
Proof.
  intros t s0 s j rfd wfd S.
  set (f := fd_with_handlers _ _ _ _). set (s1 := putfd s (RAW_KEY j) f).
  eapply ARes_bind; [apply (fd_register_KF t)|]. cbn beta. intros s2 Q. cbn [ARes].
  eapply TF_trans; [exact S|]. apply (TF_trans t _ s1); [apply TF_plain; reflexivity|].
  eapply TF_trans; [apply KF_TF; exact Q|apply TF_plain; reflexivity].
Qed.

Lemma raw_register_TF : forall t s j, t < next_fd (kern s) -> ARes (TF t s) (fst (raw_register s j)).
Proof.
  intros t s j L. unfold raw_register.
  assert (ST2 : forall s1, TF t s s1 -> t < next_fd (kern s1) ->
    ARes (TF t s) (fst (let '(s, got, failed) :=
        if efd_raw s1 =? 0 then
          match k_pipe (kern s1) with
          | (k1, Some (r, w)) => (set_kern s1 k1, Some (r, w), false)
          | (k1, None) => (set_kern s1 k1, None, true)
          end
        else (s1, None, true) in
      match got with
      | None => (R s, true)
      | Some (rfd, wfd) =>
          let key := RAW_KEY j in
          let f := fd_with_handlers (fd_fresh rfd (1000 + j)) (Some (H_RAW j)) None None in
          let s := putfd s key f in
          (bind (fd_register s key) (fun s =>
             R (set_rw s (upd (rw_reg s) j true) (upd (rw_rfd s) j rfd) (upd (rw_wfd s) j wfd))), false)
      end))).
  { intros s1 S1 L1. destruct (efd_raw s1 =? 0); [|cbv beta iota; cbn [fst ARes]; exact S1].
    destruct (pipe_KT t (kern s1) L1) as [K _].
    destruct (k_pipe (kern s1)) as [k1 [[r w]|]]; cbn [fst] in K; cbv beta iota zeta; cbn [fst].
    - apply raw_tail_TF. eapply TF_trans; [exact S1|apply TF_kern; exact K].
    - cbn [ARes]. eapply TF_trans; [exact S1|apply TF_kern; exact K]. }
  destruct (negb (efd_raw s =? 0)).
  - destruct (grab_KT t (kern s) (efd_raw s) L) as [K _].
    destruct (eventfd_grab (kern s) (efd_raw s)) as [[k1 [fd|e]] u]; cbn [fst] in K; cbv beta iota.
    + cbn [fst]. apply raw_tail_TF. apply (TF_trans t _ (set_kern s k1)); [apply TF_kern; exact K|apply TF_plain; reflexivity].
    + destruct (negb (is_enosys e)).
      * cbn [fst ARes]. apply (TF_trans t _ (set_kern s k1)); [apply TF_kern; exact K|apply TF_plain; reflexivity].
      * apply ST2.
        -- apply (TF_trans t _ (set_kern s k1)); [apply TF_kern; exact K|apply TF_plain; reflexivity].
        -- cbn [kern set_efd set_kern]. pose proof (kt_nx _ _ _ K). lia.
  - cbv beta iota. apply ST2; [apply TF_refl|exact L].
Qed.

Lemma raw_unregister_TF : forall t s j, fdnum (fdt s (RAW_KEY j)) <> t -> rw_rfd s j <> t -> rw_wfd s j <> t ->
  ARes (TF t s) (raw_unregister s j).
Proof.
  intros t s j N1 N2 N3. unfold raw_unregister. eapply ARes_bind; [apply (fd_unregister_KF t); exact N1|]. cbn beta.
  intros s1 Q. cbv zeta. cbn [ARes].
  assert (R1 : rw_rfd s1 j = rw_rfd s j) by (rewrite (kf_rf _ _ _ Q); reflexivity).
  set (s2 := do_close s1 (rw_rfd s1 j)).
  assert (A2 : KF t s1 s2) by (apply do_close_KF; rewrite R1; exact N2).
  assert (A3 : KF t s (if raw_is_pipe s2 j then do_close s2 (rw_wfd s2 j) else s2)).
  { eapply KF_trans; [exact Q|]. eapply KF_trans; [exact A2|]. destruct (raw_is_pipe s2 j); [|apply KF_refl].
    apply do_close_KF. rewrite (kf_wf _ _ _ A2), (kf_wf _ _ _ Q). exact N3. }
  eapply TF_trans; [apply KF_TF; exact A3|apply TF_plain; reflexivity].
Qed.

Lemma raw_post_TF : forall t s j, TF t s (raw_post s j).
Proof.
  intros t s j. unfold raw_post.
  match goal with |- context [let '(k1, _) := ?X in _] => assert (K : KT t (kern s) (fst X)); [|destruct X as [k1 x]] end.
  { destruct (raw_is_pipe _ _); apply KT_write. }
  cbn [fst] in K. apply TF_kern. exact K.
Qed.

(* ---------- the kick descriptor ---------- *)
Lemma event_rx_on_TF : forall t s, t < next_fd (kern s) -> (active_ref s <> 0 -> active_fd s <> t) ->
  ARes (TF t s) (fst (event_rx_on s)).
Proof.
  intros t s L NA. unfold event_rx_on.
  match goal with |- context [match ?X with R _ => _ | Halt _ => _ end] =>
    assert (Q : ARes (fun s1 => TF t s s1 /\ active_fd s1 <> t) X); [|destruct X as [s1|s1]] end.
  { destruct (Z.eqb_spec (active_ref s) 0) as [Z0|NZ]; [|cbn [ARes]; split; [apply TF_refl|apply NA; exact NZ]].
    destruct (grab_KT t (kern s) (efd_epoll s) L) as [K F].
    destruct (eventfd_grab (kern s) (efd_epoll s)) as [[k1 [fd|e]] u]; cbn [fst snd] in K, F.
    - pose proof (KT_write t k1 fd 8 1) as K2. destruct (k_write k1 fd 8 1) as [k2 x]. cbn [fst] in K2. cbn [ARes].
      split; [|cbn [active_fd set_activefd]; specialize (F fd eq_refl); lia].
      apply (TF_trans t _ (set_kern s k2)); [apply TF_kern; eapply KT_trans; eassumption|apply TF_plain; reflexivity].
    - cbv zeta. set (s0 := set_efd (set_kern s k1) u (efd_raw s)).
      assert (L0 : t < next_fd (kern s0)) by (cbn [s0 kern set_efd set_kern]; pose proof (kt_nx _ _ _ K); lia).
      destruct (pipe_KT t (kern s0) L0) as [KP FP].
      destruct (k_pipe (kern s0)) as [k2 [[r w]|]]; cbn [fst snd] in KP, FP; [|exact I].
      pose proof (KT_write t k2 w 1 0) as K3. destruct (k_write k2 w 1 0) as [k3 [n|e3]]; cbn [fst] in K3; [|exact I].
      cbn [ARes]. split; [|cbn [active_fd set_activewr set_activefd]; destruct (FP r w eq_refl); lia].
      apply (TF_trans t _ (set_kern s k1)); [apply TF_kern; exact K|].
      apply (TF_trans t _ s0); [apply TF_plain; reflexivity|].
      apply (TF_trans t _ (set_kern s0 k3)); [apply TF_kern; eapply KT_trans; eassumption|apply TF_plain; reflexivity]. }
  - cbn [ARes] in Q. destruct Q as [Q NF]. cbv zeta.
    set (s2 := set_activefd s1 (active_fd s1) (active_ref s1 + 1)).
    destruct (ctl_retry s2 CTL_ADD (active_fd s2) 0 (-1)) as [s3 e] eqn:C.
    apply (ctl_retry_KF t) in C; [|exact NF].
    assert (Q3 : TF t s s3).
    { eapply TF_trans; [exact Q|]. apply (TF_trans t _ s2); [apply TF_plain; reflexivity|apply KF_TF; exact C]. }
    destruct e; cbn [fst ARes]; [exact Q3|]. eapply TF_trans; [exact Q3|apply TF_plain; reflexivity].
  - cbn [fst ARes]. exact I.
Qed.

Lemma event_rx_off_TF : forall t s, active_fd s <> t -> (active_wr s <> -1 -> active_wr s <> t) ->
  ARes (TF t s) (event_rx_off s).
Proof.
  intros t s N1 N2. unfold event_rx_off.
  destruct (ctl_retry s CTL_DEL (active_fd s) 0 (-1)) as [s1 e] eqn:C. apply (ctl_retry_KF t) in C; [|exact N1].
  destruct e; [exact I|]. cbv zeta. cbn [ARes].
  set (s2 := set_activefd s1 (active_fd s1) (active_ref s1 - 1)).
  assert (T2 : TF t s s2) by (eapply TF_trans; [apply KF_TF; exact C|apply TF_plain; reflexivity]).
  assert (AF : active_fd s2 = active_fd s) by (apply (kf_af _ _ _ C)).
  assert (AW : active_wr s2 = active_wr s) by (apply (kf_aw _ _ _ C)).
  match goal with |- TF t s (set_numobjs ?S3 _) => assert (A3 : TF t s S3) end.
  { destruct (active_ref s2 =? 0); [|exact T2].
    set (s3 := do_close s2 (active_fd s2)).
    assert (B3 : KF t s2 s3) by (apply do_close_KF; rewrite AF; exact N1).
    destruct (Z.eqb_spec (active_wr s3) (-1)) as [E|NE]; [eapply TF_trans; [exact T2|apply KF_TF; exact B3]|].
    eapply TF_trans; [exact T2|]. eapply TF_trans; [apply KF_TF; exact B3|].
    eapply TF_trans; [apply (KF_TF t s3 (do_close s3 (active_wr s3))); apply do_close_KF; rewrite (kf_aw _ _ _ B3), AW; apply N2; rewrite <- AW, <- (kf_aw _ _ _ B3); exact NE|].
    apply TF_plain; reflexivity. }
  eapply TF_trans; [exact A3|apply TF_plain; reflexivity].
Qed.

(* ---------- events ---------- *)
Lemma TF_next : forall t s s', TF t s s' -> next_fd (kern s) <= next_fd (kern s').
Proof. intros t s s' T. apply (kt_nx _ _ _ (tf_k _ _ _ T)). Qed.

Lemma event_register_TF : forall t s j, t < next_fd (kern s) -> (active_ref s <> 0 -> active_fd s <> t) ->
  ARes (TF t s) (fst (event_register s j)).
Proof.
  intros t s j L NA. unfold event_register. cbv zeta.
  set (s0 := set_ev (set_numobjs s (numobjs s + 1)) _ _ _).
  assert (T0 : TF t s s0) by (apply TF_plain; reflexivity).
  destruct (ev_count (set_numobjs s (numobjs s + 1)) =? 0).
  2:{ cbn [fst bind ARes]. eapply TF_trans; [exact T0|apply TF_plain; reflexivity]. }
  assert (ST : forall r, ARes (TF t s) r ->
    ARes (TF t s) (fst (let '(r0, failed) :=
          match r with
          | Halt s1 => (Halt s1, false)
          | R s1 =>
              if use_raw s1 then
                match raw_register s1 KICK_RAW with
                | (R s2, true) =>
                    (R (set_numobjs (set_ev s2 (ev_count s2 - 1) (ev_reg s2) (use_raw s2)) (numobjs s2 - 1)), true)
                | (r2, fl) => (r2, fl)
                end
              else (R s1, false)
          end in
        if failed then (r0, true)
        else (bind r0 (fun s => R (set_ev s (ev_count s) (upd (ev_reg s) j true) (use_raw s))), false)))).
  { intros r Q. destruct r as [s1|s1]; [|exact I]. cbn [ARes] in Q.
    destruct (use_raw s1).
    - pose proof (raw_register_TF t s1 KICK_RAW ltac:(pose proof (TF_next _ _ _ Q); lia)) as Q2.
      destruct (raw_register s1 KICK_RAW) as [[s2|s2] fl]; cbn [fst ARes] in Q2; destruct fl; cbn [fst bind ARes]; try exact I.
      + eapply TF_trans; [exact Q|]. eapply TF_trans; [exact Q2|apply TF_plain; reflexivity].
      + eapply TF_trans; [exact Q|]. eapply TF_trans; [exact Q2|apply TF_plain; reflexivity].
    - cbn [fst bind ARes]. eapply TF_trans; [exact Q|apply TF_plain; reflexivity]. }
  destruct (negb (use_raw s0)).
  - destruct (is_epoll s0).
    + pose proof (event_rx_on_TF t s0 L NA) as Q.
      destruct (event_rx_on s0) as [[s1|s1] fl]; cbn [fst ARes] in Q; [destruct fl|].
      * apply (ST (R _)). cbn [ARes]. eapply TF_trans; [exact T0|]. eapply TF_trans; [exact Q|apply TF_plain; reflexivity].
      * apply (ST (R s1)). cbn [ARes]. eapply TF_trans; eassumption.
      * apply (ST (Halt s1)). exact I.
    + apply (ST (R _)). cbn [ARes]. eapply TF_trans; [exact T0|apply TF_plain; reflexivity].
  - apply (ST (R s0)). exact T0.
Qed.

Lemma event_unregister_TF : forall t s j,
  (use_raw s = true -> fdnum (fdt s (RAW_KEY KICK_RAW)) <> t /\ rw_rfd s KICK_RAW <> t /\ rw_wfd s KICK_RAW <> t) ->
  (use_raw s = false -> active_fd s <> t /\ (active_wr s <> -1 -> active_wr s <> t)) ->
  ARes (TF t s) (event_unregister s j).
Proof.
  intros t s j HR HA. unfold event_unregister. cbv zeta.
  set (s0 := set_ev _ _ _ _). assert (T0 : TF t s s0) by (apply TF_plain; reflexivity).
  eapply ARes_bind with (P := TF t s).
  - destruct (ev_count s0 =? 0); [|exact T0].
    destruct (use_raw s0) eqn:UR; change (use_raw s0) with (use_raw s) in UR.
    + destruct (HR UR) as (N1 & N2 & N3).
      eapply ARes_imp; [apply (raw_unregister_TF t s0 KICK_RAW); assumption|]. cbn beta. intros s1 Q. eapply TF_trans; eassumption.
    + destruct (HA UR) as (N1 & N2).
      eapply ARes_imp; [apply (event_rx_off_TF t s0); assumption|]. cbn beta. intros s1 Q. eapply TF_trans; eassumption.
  - cbn beta. intros s1 Q. cbn [ARes]. eapply TF_trans; [exact Q|apply TF_plain; reflexivity].
Qed.

(* ---------- every action ---------- *)
(* what is needed about t in the state in which the action starts *)
Record AL (t : Z) (s : core) : Prop := {
  al_next : t < next_fd (kern s);
  al_user : forall i, 0 <= i < 16 -> fdnum (fdt s i) <> t;
  al_raw : forall j, rw_reg s j = true -> fdnum (fdt s (RAW_KEY j)) <> t /\ rw_rfd s j <> t /\ rw_wfd s j <> t;
  al_kick : active_ref s <> 0 -> active_fd s <> t /\ (active_wr s <> -1 -> active_wr s <> t);
  al_unum : forall i, 0 <= i < 16 -> 100 + i <> t;
  al_evpos : forall j, ev_reg s j = true -> 1 <= ev_count s;
  al_kraw : use_raw s = true -> 1 <= ev_count s -> rw_reg s KICK_RAW = true;
  al_kact : use_raw s = false -> 1 <= ev_count s -> active_ref s <> 0 }.

Lemma AL_emit : forall t s e, AL t s -> AL t (emit s e).
Proof. intros t s e []. constructor; assumption. Qed.

Lemma TF_emit : forall t s e, TF t s (emit s e).
Proof. intros. apply TF_plain; reflexivity. Qed.

Lemma TF_after : forall t s e r, ARes (TF t (emit s e)) r -> ARes (TF t s) r.
Proof. intros t s e r H. eapply ARes_imp; [exact H|]. cbn beta. intros s1 Q. eapply TF_trans; [apply TF_emit|exact Q]. Qed.

Lemma TF_res : forall t s r (e : core -> tev), ARes (TF t s) r -> ARes (TF t s) (bind r (fun s => R (emit s (e s)))).
Proof. intros t s r e H. eapply ARes_bind; [exact H|]. cbn beta. intros s1 Q. cbn [ARes]. eapply TF_trans; [exact Q|apply TF_emit]. Qed.

Lemma lift_heap_TF : forall t s o, ARes (TF t s) (lift_heap s o).
Proof. intros t s [h|h|]; cbn [lift_heap ARes halt]; [apply TF_plain; reflexivity|exact I|exact I]. Qed.

Lemma TF_validate : forall t s, TF t s (validate_now s).
Proof. intros. unfold validate_now. dm; [apply TF_refl|apply TF_plain; reflexivity]. Qed.

Ltac tfa := match goal with |- ARes (TF ?t ?s) ?r =>
  match r with context [emit s (TAct ?a)] => apply (TF_after t s (TAct a)) end end.

Lemma TF_kern_act : forall t s a k', KT t (kern s) k' -> TF t s (set_kern (emit s (TAct a)) k').
Proof. intros. constructor; try reflexivity. assumption. Qed.

Theorem do_action_TF : forall t s a, AL t s -> wf_action a -> ARes (TF t s) (do_action s a).
Proof.
  intros t s a A W. destruct a; cbn [do_action wf_action] in *.
  - (* AFdReg *) repeat dm; cbn [ARes]; try apply TF_refl. tfa. eapply ARes_imp; [apply (fd_register_KF t)|exact (KF_TF t _)].
  - (* AFdTry *) dm; [apply TF_refl|].
    assert (Q : ARes (TF t (emit s (TAct (AFdTry i)))) (fst (fd_register_try (emit s (TAct (AFdTry i))) i))).
    { eapply ARes_imp; [apply (fd_register_try_KF t); apply (al_user _ _ A i W)|exact (KF_TF t _)]. }
    destruct (fd_register_try _ i) as [r failed]. cbn [fst] in Q.
    apply (TF_after t s (TAct (AFdTry i))). apply (TF_res t _ r (fun _ => TRes 0 i (if failed then -1 else 0))). exact Q.
  - (* AFdUnreg *) dm; [|apply TF_refl]. tfa.
    eapply ARes_imp; [apply (fd_unregister_KF t); apply (al_user _ _ A i W)|exact (KF_TF t _)].
  - tfa. eapply ARes_imp; [apply (fd_set_handler_KF t)|exact (KF_TF t _)].
  - cbn [ARes]. apply TF_plain; reflexivity.
  - dm; cbn [ARes]; [apply TF_refl|apply TF_plain; reflexivity].
  - (* AKSet *) cbn [ARes]. apply TF_kern_act. unfold k_set_cond. destruct (k_get (kern s) (100 + i)) as [v|] eqn:G; [|apply KT_refl].
    eapply KT_put_any; [exact G|repeat split].
  - (* AKClose *) dm; cbn [ARes]; [apply TF_refl|]. apply TF_kern_act. unfold k_user_close.
    destruct (k_get (kern s) (100 + i)) as [v|] eqn:G; [|apply KT_refl]. apply KT_put.
    apply (al_unum _ _ A i W).
  - (* AKOpen *) cbn [ARes]. apply TF_kern_act. unfold k_user_fd. apply KT_put. apply (al_unum _ _ A i W).
  - dm; [apply TF_refl|]. tfa. apply lift_heap_TF.
  - dm; [apply TF_refl|]. cbv zeta. eapply ARes_imp; [apply lift_heap_TF|]. cbn beta. intros s1 Q.
    eapply TF_trans; [|exact Q]. eapply TF_trans; [apply TF_validate|apply TF_emit].
  - dm; [|apply TF_refl]. tfa. apply lift_heap_TF.
  - dm; cbn [ARes]; [apply TF_refl|apply TF_emit].
  - dm; cbn [ARes]; [apply TF_refl|]. apply TF_plain; unfold task_register; cbv zeta; repeat dm; reflexivity.
  - dm; cbn [ARes]; [|apply TF_refl]. apply TF_plain; reflexivity.
  - dm; cbn [ARes]; [apply TF_refl|]. apply TF_plain; reflexivity.
  - (* AEvReg *) dm; [apply TF_refl|].
    assert (Q : ARes (TF t (emit s (TAct (AEvReg j)))) (fst (event_register (emit s (TAct (AEvReg j))) j))).
    { apply event_register_TF; [apply (al_next _ _ A)|]. intros H. apply (al_kick _ _ A H). }
    destruct (event_register _ j) as [r failed]. cbn [fst] in Q.
    apply (TF_after t s (TAct (AEvReg j))). apply (TF_res t _ r (fun _ => TRes 1 j (if failed then -1 else 0))). exact Q.
  - (* AEvUnreg *) destruct (ev_reg s j) eqn:ER; [|apply TF_refl]. tfa.
    pose proof (al_evpos _ _ A j ER) as EP.
    apply event_unregister_TF; cbn [use_raw fdt rw_rfd rw_wfd active_fd active_wr emit set_trace].
    + intros U. apply (al_raw _ _ A KICK_RAW). apply (al_kraw _ _ A U EP).
    + intros U. apply (al_kick _ _ A). apply (al_kact _ _ A U EP).
  - dm; cbn [ARes]; [|apply TF_refl]. apply TF_plain; unfold event_post; repeat dm; try reflexivity;
      unfold task_register; cbv zeta; repeat dm; reflexivity.
  - dm; cbn [ARes]; [apply TF_refl|apply TF_emit].
  - (* ARwReg *) dm; [apply TF_refl|].
    assert (Q : ARes (TF t (emit s (TAct (ARwReg j)))) (fst (raw_register (emit s (TAct (ARwReg j))) j))).
    { apply raw_register_TF. apply (al_next _ _ A). }
    destruct (raw_register _ j) as [r failed]. cbn [fst] in Q.
    apply (TF_after t s (TAct (ARwReg j))). apply (TF_res t _ r (fun _ => TRes 2 j (if failed then -1 else 0))). exact Q.
  - (* ARwUnreg *) destruct (rw_reg s j) eqn:RG; [|apply TF_refl]. tfa.
    destruct (al_raw _ _ A j RG) as (N1 & N2 & N3). apply raw_unregister_TF; assumption.
  - dm; cbn [ARes]; [|apply TF_refl]. eapply TF_trans; [apply (TF_emit t s (TAct (ARwPost j)))|apply raw_post_TF].
  - dm; cbn [ARes]; [apply TF_refl|apply TF_emit].
  - cbn [ARes]. apply TF_plain; reflexivity.
  - cbn [ARes]. apply TF_kern_act. apply KT_clock.
  - cbn [ARes]. apply TF_plain; reflexivity.
  - cbn [ARes]. eapply TF_trans; [apply (TF_emit t s (TAct AValidate))|apply TF_validate].
Qed.
