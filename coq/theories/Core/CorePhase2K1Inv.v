(* CorePhase2K1Inv.v -- CoreInv's invariant gives the aliasing facts AL: the timer
   descriptor is none of the descriptors the actions work on. *)
From Coq Require Import List ZArith Bool Lia.
From Ivv Require Import Core.Kernel Core.CoreTypes Core.CoreFd Core.CoreModel Core.CoreSpec
  Core.CoreInvBase Core.CoreInvDefs Core.CorePhase2K1Base Core.CorePhase2K1Fd Core.CorePhase2K1Act.
Import ListNotations.
Local Open Scope Z_scope.

Lemma kind_clash : forall k a va vb, k_get k a = Some va -> k_open k a = Some vb -> vkind va = vkind vb.
Proof. intros k a va vb G O. apply k_open_get in O. destruct O as [O _]. congruence. Qed.

Lemma InvW_AL : forall s, InvW s -> AL (tfd s) s.
Proof.
  intros s [FI SY DI HP TI EI AC MI].
  pose proof (ms_kinv _ MI) as KI. destruct KI as [KN KA].
  pose proof (dy_tfd _ DI) as TD.
  assert (TK : forall fd v, 1000 <= fd -> k_open (kern s) fd = Some v -> vkind v <> K_TIMERFD -> fd <> tfd s).
  { intros fd v L O NK E. destruct TD as [T1|(T1 & vt & G & KT)]; [lia|]. subst fd.
    rewrite (kind_clash _ _ _ _ G O) in KT. contradiction. }
  assert (RAW : forall j, rw_reg s j = true -> fdnum (fdt s (RAW_KEY j)) <> tfd s /\ rw_rfd s j <> tfd s /\ rw_wfd s j <> tfd s).
  { intros j RJ. destruct (dy_obj _ DI j RJ) as (FN & _). pose proof (dy_kern _ DI j RJ) as DK.
    unfold RAW_KEY. rewrite FN.
    destruct (raw_is_pipe s j).
    - destruct DK as (R1 & W1 & v & vw & O1 & K1 & _ & _ & O2 & K2 & _).
      assert (A : rw_rfd s j <> tfd s) by (apply (TK _ v R1 O1); rewrite K1; discriminate).
      assert (B : rw_wfd s j <> tfd s) by (apply (TK _ vw W1 O2); rewrite K2; discriminate). auto.
    - destruct DK as (R1 & W1 & v & O1 & K1).
      assert (A : rw_rfd s j <> tfd s) by (apply (TK _ v R1 O1); rewrite K1; discriminate).
      rewrite W1. auto. }
  constructor.
  - destruct TD as [T1|(T1 & vt & G & _)]; [lia|]. apply KA. congruence.
  - intros i I. rewrite (fv_user _ _ FI i I). destruct TD as [T1|(T1 & _)]; lia.
  - exact RAW.
  - intros AR. destruct (fv_ref _ _ FI) as [Z0|O1]; [contradiction|].
    destruct (dy_act _ DI O1) as (A1 & (v & O & KD) & PW).
    split.
    + apply (TK _ v A1 O). destruct KD as [[K _]|[K _]]; rewrite K; discriminate.
    + intros NW. destruct PW as [E|PO]; [contradiction|].
      destruct PO as (_ & W1 & _ & vw & _ & _ & _ & _ & O2 & K2 & _). apply (TK _ vw W1 O2). rewrite K2. discriminate.
  - intros i I. destruct TD as [T1|(T1 & _)]; lia.
  - intros j ER. rewrite (ev_cnt _ EI). apply (cntf_pos _ _ j); [|exact ER].
    apply In_zseq'. pose proof (ev_range _ EI j ER). lia.
  - intros U P. apply (proj2 (ev_kick _ EI)). auto.
  - intros U P. rewrite (proj2 (ev_ref _ EI)); [discriminate|auto].
Qed.
