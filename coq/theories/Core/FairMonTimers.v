(* FairMonTimers.v -- iv_run_timers pays every debt of the fairness monitor: a registered timer whose expiry is not
   after the clock value of the last return is moved to the expired batch by the collect loop (the cached time is
   not before that clock value), and every batch member is called or unregistered by the dispatch loop. *)
From Coq Require Import List ZArith Bool Lia.
From Ivv Require Import Core.Kernel Core.CoreTypes Core.CoreFd Core.CoreModel Core.Monitors Core.FairMon Core.CoreSpec
  Core.CoreRel Core.CorePhase2AcctTr Core.CorePhase2AcctTr2 Core.CorePhase2TimeMon Core.CorePhase2TimeFr Core.CorePhase2TimeT1
  Core.CorePhase2TimeT1L Core.FairMonBase Core.FairMonAct Core.FairMonLoop.
From Ivv Require Timer.HeapModel Timer.HeapBase Timer.HeapFacts Timer.HeapCollect.
Import ListNotations.
Local Open Scope Z_scope.

Section Timers.
Variable sc : scenario.
Hypothesis WF : wf_scenario sc.
Variable clk : Z.

Lemma timers_dispatch_FP : forall fuel s, J true s -> FP clk true s -> FQ clk true (timers_dispatch sc fuel s).
Proof.
  induction fuel as [|fuel IH]; intros s Jh F; cbn [timers_dispatch].
  - destruct (HeapModel.batch (heap s)) as [|t rest]; [exact F|exact I].
  - destruct (HeapModel.batch (heap s)) as [|t rest] eqn:EB; [exact F|].
    pose proof (J_call_timer s t rest Jh EB) as J1. cbv zeta in J1.
    destruct (J_SiTm _ _ Jh) as [HI HR].
    destruct (heap_pop_spec (heap s) t rest HI EB) as (I' & T0 & T1' & T2 & T3 & BR).
    set (h' := HeapModel.set_idx (HeapModel.set_batch (heap s) rest) t (-1)) in *.
    set (s0 := set_heap s h') in *.
    set (s1 := validate_now s0) in *.
    set (j := Zpos t - 1) in *.
    assert (TJ : tmid j = t) by (unfold tmid, j; replace (Zpos t - 1 + 1) with (Zpos t) by lia; reflexivity).
    assert (F2 : FP clk true (emit s1 (TCallTimer j (time s1)))).
    { destruct F as [P D]. split.
      - assert (P0 : PendT clk s0) by exact P. apply (PendT_validate clk s0) in P0. exact P0.
      - intros _ x H. rewrite fst_emit in H.
        assert (E : fst s1 = fst s) by (apply fst_same; unfold s1, validate_now; destruct (time_valid s0); reflexivity).
        rewrite E in H. cbn [f_step f_due] in H. apply In_f_drop in H. destruct H as [H N].
        destruct (D eq_refl x H) as [X0 XB]. split; [exact X0|].
        assert (EH : heap (emit s1 (TCallTimer j (time s1))) = h') by (unfold s1, validate_now; destruct (time_valid s0); reflexivity).
        rewrite EH, BR. rewrite EB in XB. destruct XB as [XB|XB]; [|exact XB].
        exfalso. apply N. apply tmid_inj; [exact X0|unfold j; lia|]. rewrite TJ. symmetry. exact XB. }
    eapply (FQ_bind true); [apply run_script_post; [exact WF|exact J1]|apply (run_script_FP sc WF clk true true); assumption|].
    intros s2 J2 F2'. apply IH; assumption.
Qed.

Lemma DB_nil : forall s, DB s -> HeapModel.batch (heap s) = [] -> f_due (fst s) = [].
Proof.
  intros s D E. destruct (f_due (fst s)) as [|x l] eqn:L; [reflexivity|].
  destruct (D x) as [_ H]; [rewrite L; left; reflexivity|]. rewrite E in H. destruct H.
Qed.

(* a registered timer outside the batch sits in the heap proper *)
Lemma reg_in_heap : forall s j, J true s -> inr16 j -> HeapModel.batch (heap s) = [] -> f_reg (fst s) j = true ->
  1 <= HeapModel.tidx (heap s) (tmid j) /\ f_exp (fst s) j = HeapModel.texp (heap s) (tmid j).
Proof.
  intros s j Jh JR EB FR. destruct (regag_st s) as [RA XA]. rewrite RA in FR. rewrite XA.
  destruct (J_AgTm _ _ Jh j JR) as [G1 G2]. rewrite G1 in FR. split; [|apply G2; exact FR].
  apply treg_true in FR. destruct (J_SiTm _ _ Jh) as [HI _].
  destruct (HeapFacts.i_batch _ HI) as (B1 & _ & B3). specialize (B3 (tmid j)).
  assert (NZ : HeapModel.tidx (heap s) (tmid j) <> 0).
  { intros Z0. apply B1 in Z0. rewrite EB in Z0. destruct Z0. }
  lia.
Qed.

Lemma run_timers_fair : forall s s', J true s -> due_ok clk (fst s) -> PendT clk s -> HeapModel.batch (heap s) = [] ->
  run_timers sc s = R s' -> f_due (fst s') = [].
Proof.
  intros s s' Jh DK P EB. unfold run_timers.
  destruct (Z.eqb_spec (HeapModel.num (heap s)) 0) as [N0|NN].
  - intros E. inversion E; subst s'. destruct (f_due (fst s)) as [|x l] eqn:L; [reflexivity|]. exfalso.
    destruct (DK x) as (XR & FR & _); [rewrite L; left; reflexivity|].
    destruct (reg_in_heap s x Jh XR EB FR) as [GE _].
    destruct (J_SiTm _ _ Jh) as [HI _]. destruct (HeapFacts.i_back _ HI _ GE) as [RR _]. lia.
  - destruct (J_validate true s Jh) as (J1 & F1 & M1 & _).
    set (s1 := validate_now s) in *.
    assert (TV1 : time_valid s1 = true) by (unfold s1, validate_now; destruct (time_valid s) eqn:E; [exact E|reflexivity]).
    assert (H1 : heap s1 = heap s) by (unfold s1, validate_now; destruct (time_valid s); reflexivity).
    assert (FS1 : fst s1 = fst s) by (apply fst_same; unfold s1, validate_now; destruct (time_valid s); reflexivity).
    pose proof (PendT_validate clk s P) as P1. fold s1 in P1.
    destruct (J_SiTm _ _ J1) as [HI HR]. pose proof (J_AgTm _ _ J1) as GT.
    set (h0 := HeapModel.set_now (heap s1) (time s1)).
    assert (I0 : HeapFacts.Inv h0) by (apply (HeapCollect.Inv_ext (heap s1) h0); try reflexivity; assumption).
    destruct (HeapCollect.collect_ok (S (Z.to_nat (HeapModel.num (heap s1)))) h0 I0) as (h' & l & C & I' & B' & X' & _ & _ & IN' & GE').
    { change (HeapModel.num h0) with (HeapModel.num (heap s1)). pose proof (HeapFacts.i_num _ HI). lia. }
    destruct (heap_collect_spec (heap s1) (time s1) HI) as (h'' & C2 & _ & TT).
    fold h0 in C2. rewrite C in C2. inversion C2; subst h''. clear C2.
    rewrite C. unfold lift_heap. cbn [bind].
    set (s2 := set_numobjs (set_heap s1 h') _).
    assert (J2 : J true s2).
    { apply (J_upd true s1 s2 J1); try reflexivity; try (apply (j_good _ _ J1));
        try (solve [left; repeat split; first [reflexivity | intros; apply fkeep_refl]]).
      - right. intros y Y. destruct (GT y Y) as [G1' G2]. unfold timer_registered in *.
        cbn [s2 heap set_numobjs set_heap]. destruct (TT (tmid y)) as [T1' T2].
        rewrite (treg_iff _ _ _ _ T1'), T2. split; assumption.
      - right. split; cbn [s2 heap set_numobjs set_heap]; [exact I'|].
        intros t H. apply HR. intros E. apply H. apply (proj1 (TT t)). exact E.
      - apply (FdI_keep s1 s2 (-1) (j_fd _ _ J1)); reflexivity.
      - apply (FdX_keep s1 s2 (j_fx _ _ J1)); try reflexivity; intros; repeat split. }
    assert (F2 : FP clk true s2).
    { split; [exact P1|]. intros _ x H.
      assert (E2 : fst s2 = fst s) by (rewrite <- FS1; apply fst_same; reflexivity).
      rewrite E2 in H. destruct (DK x H) as (XR & FR & FX).
      destruct (reg_in_heap s x Jh XR EB FR) as [GE XE]. split; [lia|].
      cbn [s2 heap set_numobjs set_heap]. rewrite B'. apply in_or_app. right. apply IN'.
      change (HeapModel.tidx h0 (tmid x)) with (HeapModel.tidx (heap s1) (tmid x)).
      change (HeapModel.texp h0 (tmid x)) with (HeapModel.texp (heap s1) (tmid x)).
      change (HeapModel.now h0) with (time s1). rewrite H1. split; [exact GE|].
      rewrite <- XE. destruct P1 as [_ P1]. specialize (P1 TV1). lia. }
    pose proof (timers_dispatch_FP (S (length (HeapModel.batch (heap s2)))) s2 J2 F2) as QD.
    pose proof (timers_dispatch_batch sc (S (length (HeapModel.batch (heap s2)))) s2) as BD.
    intros E. rewrite E in QD. cbn [FQ] in QD. destruct QD as [_ D]. apply DB_nil; [apply D; reflexivity|apply (BD s' E)].
Qed.

End Timers.
