(* Monitors.v -- boolean monitors of properties C01-C04, C06, C07, C09, C15, C18
   on a trace of the core loop (the trace format shared by the model and the
   implementation harness).  A single tracker reconstructs the *intended*
   abstract state (what is registered, with which handlers, cookies, expiries;
   what was posted; the true clock) from the logged actions, and records the
   code of every clause that a trace event violates.

   Failure codes: 1xx C01, 2xx C02, 3xx C03, 4xx C04, 6xx C06, 7xx C07,
   8xx over-delivery of events, 9xx C09, 15xx C15, 18xx C18. *)

From Coq Require Import List ZArith Bool.
From Ivv Require Import Core.Kernel Core.CoreTypes Core.CoreFd.
Import ListNotations.
Local Open Scope Z_scope.

Record mon := {
  fails : list Z;
  (* abstract registration state *)
  a_fd : Z -> bool; a_fh : Z -> Z -> option Z; a_ck : Z -> Z;
  a_tm : Z -> bool; a_exp : Z -> Z;
  a_tk : Z -> bool;
  a_ev : Z -> bool; a_evp : Z -> bool;       (* registered / posted and not yet delivered *)
  a_rw : Z -> bool; a_rwp : Z -> bool;
  a_main : bool; a_quit : bool;
  a_clk : Z; a_stale : bool;
  (* the wait in progress / last wait *)
  w_open : bool; w_entry : Z; w_call : Z; w_max : Z; w_to : Z;
  w_gnd : list (Z * Z);
  called : list (Z * Z);                     (* (obj, band) called since the last wait *)
  expect : list (Z * Z);                     (* (obj, band) that must be called before the next wait *)
  ran : list Z;                              (* tasks run since the last wait *)
  need_call : bool;                          (* a user descriptor was reported: some callback must follow *)
  after_eintr : bool;
  had_ev : bool;                             (* the last wait returned at least one event *)
  ncall : Z;                                 (* callbacks since the last wait returned *)
  spin : Z;                                  (* consecutive iterations woken with events but without any callback *)
  posted_ever : bool;
}.

Definition mon0 : mon :=
  {| fails := []; a_fd := fun _ => false; a_fh := fun _ _ => None; a_ck := fun i => i;
     a_tm := fun _ => false; a_exp := fun _ => 0; a_tk := fun _ => false;
     a_ev := fun _ => false; a_evp := fun _ => false; a_rw := fun _ => false; a_rwp := fun _ => false;
     a_main := false; a_quit := false; a_clk := 1000000000; a_stale := false;
     w_open := false; w_entry := 0; w_call := 0; w_max := 0; w_to := 0; w_gnd := [];
     called := []; expect := []; ran := []; need_call := false; after_eintr := false;
     had_ev := false; ncall := 0; spin := 0; posted_ever := false |}.

(* field updates *)
Definition m_fail (m : mon) (c : Z) : mon :=
  {| fails := if mem_z c (fails m) then fails m else fails m ++ [c];
     a_fd := a_fd m; a_fh := a_fh m; a_ck := a_ck m; a_tm := a_tm m; a_exp := a_exp m; a_tk := a_tk m;
     a_ev := a_ev m; a_evp := a_evp m; a_rw := a_rw m; a_rwp := a_rwp m; a_main := a_main m; a_quit := a_quit m;
     a_clk := a_clk m; a_stale := a_stale m; w_open := w_open m; w_entry := w_entry m; w_call := w_call m;
     w_max := w_max m; w_to := w_to m; w_gnd := w_gnd m; called := called m; expect := expect m; ran := ran m;
     need_call := need_call m; after_eintr := after_eintr m;
     had_ev := had_ev m; ncall := ncall m; spin := spin m; posted_ever := posted_ever m |}.
Definition chk (m : mon) (b : bool) (c : Z) : mon := if b then m else m_fail m c.

Definition m_fds (m : mon) r h c : mon :=
  {| fails := fails m; a_fd := r; a_fh := h; a_ck := c; a_tm := a_tm m; a_exp := a_exp m; a_tk := a_tk m;
     a_ev := a_ev m; a_evp := a_evp m; a_rw := a_rw m; a_rwp := a_rwp m; a_main := a_main m; a_quit := a_quit m;
     a_clk := a_clk m; a_stale := a_stale m; w_open := w_open m; w_entry := w_entry m; w_call := w_call m;
     w_max := w_max m; w_to := w_to m; w_gnd := w_gnd m; called := called m; expect := expect m; ran := ran m;
     need_call := need_call m; after_eintr := after_eintr m;
     had_ev := had_ev m; ncall := ncall m; spin := spin m; posted_ever := posted_ever m |}.
Definition m_tms (m : mon) r e : mon :=
  {| fails := fails m; a_fd := a_fd m; a_fh := a_fh m; a_ck := a_ck m; a_tm := r; a_exp := e; a_tk := a_tk m;
     a_ev := a_ev m; a_evp := a_evp m; a_rw := a_rw m; a_rwp := a_rwp m; a_main := a_main m; a_quit := a_quit m;
     a_clk := a_clk m; a_stale := a_stale m; w_open := w_open m; w_entry := w_entry m; w_call := w_call m;
     w_max := w_max m; w_to := w_to m; w_gnd := w_gnd m; called := called m; expect := expect m; ran := ran m;
     need_call := need_call m; after_eintr := after_eintr m;
     had_ev := had_ev m; ncall := ncall m; spin := spin m; posted_ever := posted_ever m |}.
Definition m_tks (m : mon) r rn : mon :=
  {| fails := fails m; a_fd := a_fd m; a_fh := a_fh m; a_ck := a_ck m; a_tm := a_tm m; a_exp := a_exp m; a_tk := r;
     a_ev := a_ev m; a_evp := a_evp m; a_rw := a_rw m; a_rwp := a_rwp m; a_main := a_main m; a_quit := a_quit m;
     a_clk := a_clk m; a_stale := a_stale m; w_open := w_open m; w_entry := w_entry m; w_call := w_call m;
     w_max := w_max m; w_to := w_to m; w_gnd := w_gnd m; called := called m; expect := expect m; ran := rn;
     need_call := need_call m; after_eintr := after_eintr m;
     had_ev := had_ev m; ncall := ncall m; spin := spin m; posted_ever := posted_ever m |}.
Definition m_evs (m : mon) r p : mon :=
  {| fails := fails m; a_fd := a_fd m; a_fh := a_fh m; a_ck := a_ck m; a_tm := a_tm m; a_exp := a_exp m; a_tk := a_tk m;
     a_ev := r; a_evp := p; a_rw := a_rw m; a_rwp := a_rwp m; a_main := a_main m; a_quit := a_quit m;
     a_clk := a_clk m; a_stale := a_stale m; w_open := w_open m; w_entry := w_entry m; w_call := w_call m;
     w_max := w_max m; w_to := w_to m; w_gnd := w_gnd m; called := called m; expect := expect m; ran := ran m;
     need_call := need_call m; after_eintr := after_eintr m;
     had_ev := had_ev m; ncall := ncall m; spin := spin m; posted_ever := posted_ever m |}.
Definition m_rws (m : mon) r p : mon :=
  {| fails := fails m; a_fd := a_fd m; a_fh := a_fh m; a_ck := a_ck m; a_tm := a_tm m; a_exp := a_exp m; a_tk := a_tk m;
     a_ev := a_ev m; a_evp := a_evp m; a_rw := r; a_rwp := p; a_main := a_main m; a_quit := a_quit m;
     a_clk := a_clk m; a_stale := a_stale m; w_open := w_open m; w_entry := w_entry m; w_call := w_call m;
     w_max := w_max m; w_to := w_to m; w_gnd := w_gnd m; called := called m; expect := expect m; ran := ran m;
     need_call := need_call m; after_eintr := after_eintr m;
     had_ev := had_ev m; ncall := ncall m; spin := spin m; posted_ever := posted_ever m |}.
Definition m_loop (m : mon) mn q ck st : mon :=
  {| fails := fails m; a_fd := a_fd m; a_fh := a_fh m; a_ck := a_ck m; a_tm := a_tm m; a_exp := a_exp m; a_tk := a_tk m;
     a_ev := a_ev m; a_evp := a_evp m; a_rw := a_rw m; a_rwp := a_rwp m; a_main := mn; a_quit := q;
     a_clk := ck; a_stale := st; w_open := w_open m; w_entry := w_entry m; w_call := w_call m;
     w_max := w_max m; w_to := w_to m; w_gnd := w_gnd m; called := called m; expect := expect m; ran := ran m;
     need_call := need_call m; after_eintr := after_eintr m;
     had_ev := had_ev m; ncall := ncall m; spin := spin m; posted_ever := posted_ever m |}.
Definition m_wait (m : mon) o en ca mx t g : mon :=
  {| fails := fails m; a_fd := a_fd m; a_fh := a_fh m; a_ck := a_ck m; a_tm := a_tm m; a_exp := a_exp m; a_tk := a_tk m;
     a_ev := a_ev m; a_evp := a_evp m; a_rw := a_rw m; a_rwp := a_rwp m; a_main := a_main m; a_quit := a_quit m;
     a_clk := a_clk m; a_stale := a_stale m; w_open := o; w_entry := en; w_call := ca;
     w_max := mx; w_to := t; w_gnd := g; called := called m; expect := expect m; ran := ran m;
     need_call := need_call m; after_eintr := after_eintr m;
     had_ev := had_ev m; ncall := ncall m; spin := spin m; posted_ever := posted_ever m |}.
Definition m_iter (m : mon) cl ex nc ae : mon :=
  {| fails := fails m; a_fd := a_fd m; a_fh := a_fh m; a_ck := a_ck m; a_tm := a_tm m; a_exp := a_exp m; a_tk := a_tk m;
     a_ev := a_ev m; a_evp := a_evp m; a_rw := a_rw m; a_rwp := a_rwp m; a_main := a_main m; a_quit := a_quit m;
     a_clk := a_clk m; a_stale := a_stale m; w_open := w_open m; w_entry := w_entry m; w_call := w_call m;
     w_max := w_max m; w_to := w_to m; w_gnd := w_gnd m; called := cl; expect := ex; ran := ran m;
     need_call := nc; after_eintr := ae;
     had_ev := had_ev m; ncall := ncall m; spin := spin m; posted_ever := posted_ever m |}.

Definition m_spin (m : mon) he nc sp pe : mon :=
  {| fails := fails m; a_fd := a_fd m; a_fh := a_fh m; a_ck := a_ck m; a_tm := a_tm m; a_exp := a_exp m; a_tk := a_tk m;
     a_ev := a_ev m; a_evp := a_evp m; a_rw := a_rw m; a_rwp := a_rwp m; a_main := a_main m; a_quit := a_quit m;
     a_clk := a_clk m; a_stale := a_stale m; w_open := w_open m; w_entry := w_entry m; w_call := w_call m;
     w_max := w_max m; w_to := w_to m; w_gnd := w_gnd m; called := called m; expect := expect m; ran := ran m;
     need_call := need_call m; after_eintr := after_eintr m; had_ev := he; ncall := nc; spin := sp; posted_ever := pe |}.

Definition upd2 {A} (f : Z -> Z -> A) (x y : Z) (v : A) : Z -> Z -> A :=
  fun a b => if (a =? x) && (b =? y) then v else f a b.

Definition pair_eqb (p q : Z * Z) : bool := (fst p =? fst q) && (snd p =? snd q).
Definition mem_pair (p : Z * Z) (l : list (Z * Z)) : bool := existsb (pair_eqb p) l.
Definition remove_pair (p : Z * Z) (l : list (Z * Z)) : list (Z * Z) := filter (fun q => negb (pair_eqb p q)) l.
Definition remove_obj (i : Z) (l : list (Z * Z)) : list (Z * Z) := filter (fun q => negb (fst q =? i)) l.

Definition objs : list Z := zseq 0 16.

(* condition of a band in ground-truth bits (IN=1 OUT=2 HUP=4 ERR=8) *)
Definition band_holds (band cond : Z) : bool :=
  let he := has cond B_HUP || has cond B_ERR in
  if band =? 0 then has cond B_IN || he else if band =? 1 then has cond B_OUT || he else he.

Definition gnd_of (g : list (Z * Z)) (i : Z) : Z :=
  match assoc g (100 + i) with Some c => c | None => 0 end.

Definition wanted_of (m : mon) (i : Z) : Z :=
  (match a_fh m i 0 with Some _ => M_IN | None => 0 end) +
  (match a_fh m i 1 with Some _ => M_OUT | None => 0 end) +
  (match a_fh m i 2 with Some _ => M_ERR | None => 0 end).

(* the kernel-side interest the tracker expects for the user descriptors *)
Definition expected_interest (m : mon) (is_poll : bool) : list (Z * Z * bool) :=
  flat_map (fun i =>
              if a_fd m i && negb (wanted_of m i =? 0)
              then [(100 + i, (if is_poll then poll_mask (wanted_of m i) else epoll_mask (wanted_of m i)), true)]
              else []) objs.

Definition triple_eqb (p q : Z * Z * bool) : bool :=
  (fst (fst p) =? fst (fst q)) && (snd (fst p) =? snd (fst q)) && Bool.eqb (snd p) (snd q).
Fixpoint list_eqb3 (a b : list (Z * Z * bool)) : bool :=
  match a, b with
  | [], [] => true
  | x :: a', y :: b' => triple_eqb x y && list_eqb3 a' b'
  | _, _ => false
  end.

Definition user_interest (l : list (Z * Z * bool)) : list (Z * Z * bool) :=
  filter (fun e => (100 <=? fst (fst e)) && (fst (fst e) <? 116)) l.

(* (obj, band) pairs that are registered, have a handler and whose condition holds in g *)
Definition ready_wanted (m : mon) (g : list (Z * Z)) : list (Z * Z) :=
  flat_map (fun i =>
              if a_fd m i then
                flat_map (fun b => match a_fh m i b with
                                   | Some _ => if band_holds b (gnd_of g i) then [(i, b)] else []
                                   | None => []
                                   end) [0; 1; 2]
              else []) objs.

Definition any_obj (f : Z -> bool) : bool := existsb f objs.

Definition min_expiry (m : mon) : option Z :=
  fold_left (fun acc j => if a_tm m j then
                            match acc with Some e => Some (Z.min e (a_exp m j)) | None => Some (a_exp m j) end
                          else acc) objs None.

Definition something_registered (m : mon) : bool :=
  any_obj (a_fd m) || any_obj (a_tm m) || any_obj (a_tk m) || any_obj (a_ev m) || any_obj (a_rw m).

Definition ceil_ms (d : Z) : Z := ((d + 999999) / 1000000) * 1000000.

(* a callback is seen: common bookkeeping *)
Definition on_call (m : mon) : mon :=
  let m := chk m (a_main m) 709 in
  let m := m_spin m (had_ev m) (ncall m + 1) (spin m) (posted_ever m) in
  m_iter m (called m) (expect m) false (after_eintr m).

Definition mon_action (m : mon) (a : action) : mon :=
  match a with
  | AFdReg i => m_fds m (upd (a_fd m) i true) (a_fh m) (a_ck m)
  | AFdTry _ => m
  | AFdUnreg i => m_iter (m_fds m (upd (a_fd m) i false) (a_fh m) (a_ck m))
                         (called m) (remove_obj i (expect m)) (need_call m) (after_eintr m)
  | AFdSetH i b h => m_iter (m_fds m (a_fd m) (upd2 (a_fh m) i b h) (a_ck m))
                            (called m) (remove_pair (i, b) (expect m)) (need_call m) (after_eintr m)
  | AFdCookie i c => m_fds m (a_fd m) (a_fh m) (upd (a_ck m) i c)
  | AFdFresh i =>
      m_fds m (a_fd m) (fun a b => if a =? i then None else a_fh m a b) (upd (a_ck m) i i)
  | AKSet _ _ | AKClose _ | AKOpen _ => m
  | ATmRegAbs j e => m_tms m (upd (a_tm m) j true) (upd (a_exp m) j e)
  | ATmRegRel _ _ => m
  | ATmUnreg j => m_tms m (upd (a_tm m) j false) (a_exp m)
  | ATmFresh _ => m
  | ATkReg j => m_tks m (upd (a_tk m) j true) (ran m)
  | ATkUnreg j => m_tks m (upd (a_tk m) j false) (ran m)
  | ATkFresh _ => m
  | AEvReg _ => m
  | AEvUnreg j => m_evs m (upd (a_ev m) j false) (upd (a_evp m) j false)
  | AEvPost j => m_spin (m_evs m (a_ev m) (upd (a_evp m) j true)) (had_ev m) (ncall m) (spin m) true
  | AEvFresh _ => m
  | ARwReg _ => m
  | ARwUnreg j => m_rws m (upd (a_rw m) j false) (upd (a_rwp m) j false)
  | ARwPost j => m_rws m (a_rw m) (upd (a_rwp m) j true)
  | ARwFresh _ => m
  | AQuit => m_loop m (a_main m) true (a_clk m) (a_stale m)
  | AClockAdv d => m_loop m (a_main m) (a_quit m) (a_clk m + d) true
  | AInvalidate => m_loop m (a_main m) (a_quit m) (a_clk m) false
  | AValidate => m
  end.

(* the iteration boundary: what had to be called must have been called *)
Definition close_iteration (m : mon) : mon :=
  let m := chk m (match expect m with [] => true | _ => false end) 204 in
  let m := chk m (negb (need_call m)) 707 in
  let sp := if had_ev m && (ncall m =? 0) then spin m + 1 else 0 in
  let m := chk m (sp <? 2) 711 in
  let m := m_spin m false 0 sp (posted_ever m) in
  m_tks (m_iter m [] [] false false) (a_tk m) [].

Definition mon_step (m : mon) (e : tev) : mon :=
  match e with
  | TInit _ => m
  | TMain => m_loop m true false (a_clk m) (a_stale m)
  | TAct a => mon_action m a
  | TRes kind id rc =>
      if rc =? 0 then
        if kind =? 0 then m_fds m (upd (a_fd m) id true) (a_fh m) (a_ck m)
        else if kind =? 1 then m_evs m (upd (a_ev m) id true) (a_evp m)
        else m_rws m (upd (a_rw m) id true) (a_rwp m)
      else m
  | TCallFd obj band hid ck =>
      let m := on_call m in
      let m := chk m (a_fd m obj) 101 in
      let m := chk m (match a_fh m obj band with Some h => h =? hid | None => false end) 301 in
      let m := chk m (a_ck m obj =? ck) 302 in
      let m := chk m (band_holds band (gnd_of (w_gnd m) obj)) 303 in
      let m := chk m (negb (mem_pair (obj, band) (called m))) 304 in
      let m := chk m (negb (after_eintr m)) 1501 in
      m_iter m ((obj, band) :: called m) (remove_pair (obj, band) (expect m)) false (after_eintr m)
  | TCallTimer j now =>
      let m := on_call m in
      let m := chk m (a_tm m j) 102 in
      let m := chk m (a_exp m j <=? now) 401 in
      let m := chk m (now <=? a_clk m) 406 in
      m_tms m (upd (a_tm m) j false) (a_exp m)
  | TCallTask k =>
      let m := on_call m in
      let m := chk m (a_tk m k) 103 in
      let m := chk m (negb (mem_z k (ran m))) 603 in
      m_tks m (upd (a_tk m) k false) (k :: ran m)
  | TCallEvent j =>
      let m := on_call m in
      let m := chk m (a_ev m j) 104 in
      let m := chk m (a_evp m j) 801 in
      m_evs m (a_ev m) (upd (a_evp m) j false)
  | TCallRaw j =>
      let m := on_call m in
      let m := chk m (a_rw m j) 105 in
      m_rws m (a_rw m) (upd (a_rwp m) j false)
  | TWait n call maxev timeout interest gnd =>
      let m := close_iteration m in
      let is_poll := 2 <=? call in
      let m := chk m (list_eqb3 (user_interest interest) (expected_interest m is_poll)) 201 in
      let m := chk m (negb (a_quit m)) 704 in
      m_wait m true (a_clk m) call maxev timeout gnd
  | TRet None _ clk =>
      let m := m_wait m false (w_entry m) (w_call m) (w_max m) (w_to m) (w_gnd m) in
      let m := chk m (a_clk m <=? clk) 1502 in          (* time may have passed before the interruption *)
      let m := m_loop m (a_main m) (a_quit m) clk false in
      m_iter m (called m) (expect m) (need_call m) true
  | TRet (Some n) fds clk =>
      let slept := a_clk m <? clk in
      let rw := ready_wanted m (w_gnd m) in
      let is_poll := 2 <=? w_call m in
      (* C02: no sleeping on a wanted ready descriptor *)
      let m := chk m (negb (slept && match rw with [] => false | _ => true end)) 202 in
      (* C02: a wanted ready descriptor is unreported only when the batch is full *)
      let unreported := filter (fun p => negb (mem_z (100 + fst p) fds)) rw in
      let m := chk m (match unreported with [] => true | _ => negb is_poll && (w_max m <=? n) end) 203 in
      (* C06 / C07 / C09: nothing due may be pending when the loop sleeps *)
      (* C07: the loop may block in the kernel only while something is registered (a non-sleeping poll for the
         internal task of a self-post is harmless) *)
      let m := chk m (negb slept || something_registered m) 705 in
      let m := chk m (negb (slept && any_obj (a_tk m))) 602 in
      let m := chk m (negb (slept && any_obj (fun j => a_ev m j && a_evp m j))) 708 in
      let m := chk m (negb (slept && any_obj (fun j => a_rw m j && a_rwp m j))) 902 in
      (* C04: no timer due, and no oversleeping, when the clock was not advanced behind the loop's back *)
      let m :=
        if slept && negb (a_stale m) then
          match min_expiry m with
          | Some e =>
              let m := chk m (a_clk m <? e) 403 in
              let bound := if (w_call m =? 0) || (w_call m =? 2)
                           then a_clk m + ceil_ms (e - a_clk m) else e in
              chk m (clk <=? Z.max (a_clk m) bound) 404
          | None => m
          end
        else m in
      let m := chk m (a_clk m <=? clk) 407 in
      let exp := filter (fun p => mem_z (100 + fst p) fds) rw in
      let user_rep := existsb (fun fd => (100 <=? fd) && (fd <? 116)) fds in
      let m := m_wait m false (w_entry m) (w_call m) (w_max m) (w_to m) (w_gnd m) in
      let m := m_loop m (a_main m) (a_quit m) clk false in
      let m := m_spin m (0 <? n) 0 (spin m) (posted_ever m) in
      m_iter m [] exp user_rep false
  | TKTfd _ | TKClose _ => m
  | TEnd q n =>
      let m := close_iteration m in
      let m := chk m ((q =? 1) || negb (something_registered m)) 701 in
      let m := chk m ((q =? 1) || (n =? 0)) 702 in
      let m := chk m (Bool.eqb (q =? 1) (a_quit m)) 703 in
      m_loop m false (a_quit m) (a_clk m) (a_stale m)
  | TTear n => chk m ((n =? 0) || ((n =? 1) && posted_ever m)) 706     (* the internal task of a self-post may be left *)
  | TDone o => chk m (o =? 0) 1802
  | TLimit => m
  | THang =>
      let m := chk m (something_registered m) 705 in
      let m := chk m (negb (any_obj (a_tm m))) 405 in
      let m := chk m (negb (any_obj (a_tk m))) 604 in
      let m := chk m (negb (any_obj (fun j => a_ev m j && a_evp m j))) 710 in
      chk m (negb (any_obj (fun j => a_rw m j && a_rwp m j))) 901
  | TFatal => m_fail m 1804
  | TCrash => m_fail m 1801
  end.

Definition mon_run (tr : list tev) : mon := fold_left mon_step tr mon0.

Definition mon_fails (tr : list tev) : list Z := fails (mon_run tr).

(* per-property verdicts *)
Definition in_range (lo hi : Z) (c : Z) : bool := (lo <=? c) && (c <? hi).
Definition none_in (lo hi : Z) (l : list Z) : bool := negb (existsb (in_range lo hi) l).

Definition mon_C01 tr := none_in 100 200 (mon_fails tr).
Definition mon_C02 tr := none_in 200 300 (mon_fails tr).
Definition mon_C03 tr := none_in 300 400 (mon_fails tr).
Definition mon_C04 tr := none_in 400 500 (mon_fails tr).
Definition mon_C06 tr := none_in 600 700 (mon_fails tr) && negb (mem_z 103 (mon_fails tr)).
Definition mon_C07 tr := none_in 700 800 (mon_fails tr).
Definition mon_C08s tr := none_in 800 900 (mon_fails tr) && negb (mem_z 104 (mon_fails tr)).
Definition mon_C09 tr := none_in 900 1000 (mon_fails tr) && negb (mem_z 105 (mon_fails tr)).
Definition mon_C15 tr := none_in 1500 1600 (mon_fails tr).
Definition mon_C18 tr := none_in 1800 1900 (mon_fails tr).
Definition mon_all tr := match mon_fails tr with [] => true | _ => false end.
