(* CoreSpec.v -- well-formed scenarios for the core-loop model (definitions only).
   "Well-formed" = valid API use as the scenario language can express it: object
   indices in range, the clock never steps backwards, external (kernel-side)
   actions at a wait are only condition changes / raw posts / time passing, and
   descriptor exhaustion (EMFILE) is only injected under the poll methods (under
   epoll the library documents it as fatal).  The optional system calls eventfd2 /
   eventfd may fail from the first call or from the k-th creation on (efd_ok). *)
From Coq Require Import List ZArith Bool.
From Ivv Require Import Core.Kernel Core.CoreTypes Core.CoreFd Core.CoreModel Core.Monitors.
Import ListNotations.
Local Open Scope Z_scope.

Definition ok_idx (i : Z) : Prop := 0 <= i < 16.

Definition wf_action (a : action) : Prop :=
  match a with
  | AFdReg i | AFdTry i | AFdUnreg i | AFdFresh i | AKClose i | AKOpen i => ok_idx i
  | AFdSetH i b h => ok_idx i /\ 0 <= b <= 2 /\ match h with Some x => 0 <= x < 16 | None => True end
  | AFdCookie i c => ok_idx i
  | AKSet i c => ok_idx i /\ 0 <= c < 16
  | ATmRegAbs j e => ok_idx j
  | ATmRegRel j d => ok_idx j
  | ATmUnreg j | ATmFresh j | ATkReg j | ATkUnreg j | ATkFresh j => ok_idx j
  | AEvReg j | AEvUnreg j | AEvPost j | AEvFresh j => ok_idx j
  | ARwReg j | ARwUnreg j | ARwPost j | ARwFresh j => ok_idx j
  | AQuit | AInvalidate | AValidate => True
  | AClockAdv d => 0 <= d
  end.

Definition wf_wait_action (a : action) : Prop :=
  match a with
  | AKSet i c => ok_idx i /\ 0 <= c < 16
  | AKOpen i => ok_idx i
  | ARwPost j => ok_idx j
  | AClockAdv d => 0 <= d
  | _ => False
  end.

Record wf_scenario (sc : scenario) : Prop := {
  wf_backend : 0 <= sc_backend sc <= 3;
  wf_limit : 0 <= sc_limit sc;
  wf_setup : Forall wf_action (sc_setup sc);
  wf_handlers : forall k, Forall (Forall wf_action) (sc_handlers sc k);
  wf_waits : forall k, Forall wf_wait_action (sc_wait sc k);
  wf_emfile : emfile (sc_faults sc) = true -> 2 <= sc_backend sc;
  wf_ctl : 0 <= eintr_ctl (sc_faults sc);
  wf_efd : 0 <= efd_ok (sc_faults sc);
}.
