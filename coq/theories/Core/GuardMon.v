(* GuardMon.v -- second monitor on core-loop traces: the API calls a program
   makes.  Handler scripts guard every call with the library's own
   "is it registered?" predicates (iv_fd_registered, iv_timer_registered,
   iv_task_registered) or with the program's bookkeeping (events, raw events).
   Given the scenario, this monitor replays the scripts against the *abstract*
   registration state reconstructed by Monitors.v and demands that exactly the
   calls the documented state allows are made: e.g. a timer or task is
   unregistered on entry to its handler, so a re-registration scripted there
   must be executed; an object is registered after a successful register and
   until its unregister, so the unregister must be executed.
   Codes: 1101 an action was executed that the script / abstract state does not
   allow at this point; 1102 an action allowed by the abstract state was
   skipped; 1103 the loop polls repeatedly
   (two consecutive waits return nothing without sleeping) without running any callback; 1104 at a
   kernel wait the interest set still has an entry for an unregistered descriptor object. *)

From Coq Require Import List ZArith Bool.
From Ivv Require Import Core.Kernel Core.CoreTypes Core.CoreFd Core.Monitors.
Import ListNotations.
Local Open Scope Z_scope.

Record gmon := {
  g_m : mon;                       (* the tracker of Monitors.v *)
  g_todo : list action;            (* rest of the script being executed *)
  g_closed : Z -> bool;            (* scripted descriptor 100+i closed by kc *)
  g_inv : Z -> Z;                  (* invocation counters per handler key *)
  g_nwait : Z;                     (* waits seen *)
  g_wloaded : bool;                (* the external actions of the coming wait have been loaded *)
  g_fails : list Z;
  g_done : bool;                   (* the trace was cut (LIMIT/HANG/FATAL/CRASH) *)
  g_idle_now : bool;               (* the last wait returned nothing without sleeping and no callback ran since *)
  g_idle : Z;                      (* consecutive such iterations *)
}.

Definition gmon0 (sc : scenario) : gmon :=
  {| g_m := mon0; g_todo := sc_setup sc; g_closed := fun _ => false; g_inv := fun _ => 0;
     g_nwait := 0; g_wloaded := false; g_fails := []; g_done := false;
     g_idle_now := false; g_idle := 0 |}.

Definition g_with (g : gmon) (m : mon) (todo : list action) : gmon :=
  {| g_m := m; g_todo := todo; g_closed := g_closed g; g_inv := g_inv g; g_nwait := g_nwait g;
     g_wloaded := g_wloaded g; g_fails := g_fails g; g_done := g_done g;
     g_idle_now := g_idle_now g; g_idle := g_idle g |}.
Definition g_fail (g : gmon) (c : Z) : gmon :=
  {| g_m := g_m g; g_todo := g_todo g; g_closed := g_closed g; g_inv := g_inv g; g_nwait := g_nwait g;
     g_wloaded := g_wloaded g; g_fails := if mem_z c (g_fails g) then g_fails g else g_fails g ++ [c];
     g_done := g_done g;
     g_idle_now := g_idle_now g; g_idle := g_idle g |}.
Definition g_set_closed (g : gmon) (f : Z -> bool) : gmon :=
  {| g_m := g_m g; g_todo := g_todo g; g_closed := f; g_inv := g_inv g; g_nwait := g_nwait g;
     g_wloaded := g_wloaded g; g_fails := g_fails g; g_done := g_done g;
     g_idle_now := g_idle_now g; g_idle := g_idle g |}.
Definition g_set_inv (g : gmon) (f : Z -> Z) : gmon :=
  {| g_m := g_m g; g_todo := g_todo g; g_closed := g_closed g; g_inv := f; g_nwait := g_nwait g;
     g_wloaded := g_wloaded g; g_fails := g_fails g; g_done := g_done g;
     g_idle_now := g_idle_now g; g_idle := g_idle g |}.
Definition g_set_wait (g : gmon) (n : Z) (l : bool) : gmon :=
  {| g_m := g_m g; g_todo := g_todo g; g_closed := g_closed g; g_inv := g_inv g; g_nwait := n;
     g_wloaded := l; g_fails := g_fails g; g_done := g_done g;
     g_idle_now := g_idle_now g; g_idle := g_idle g |}.
Definition g_set_done (g : gmon) : gmon :=
  {| g_m := g_m g; g_todo := g_todo g; g_closed := g_closed g; g_inv := g_inv g; g_nwait := g_nwait g;
     g_wloaded := g_wloaded g; g_fails := g_fails g; g_done := true;
     g_idle_now := g_idle_now g; g_idle := g_idle g |}.

Definition g_set_idle (g : gmon) (now : bool) (n : Z) : gmon :=
  {| g_m := g_m g; g_todo := g_todo g; g_closed := g_closed g; g_inv := g_inv g; g_nwait := g_nwait g;
     g_wloaded := g_wloaded g; g_fails := g_fails g; g_done := g_done g; g_idle_now := now; g_idle := n |}.

(* iteration boundary for the busy-poll rule (code 1103): two consecutive iterations whose wait returned
   no event without sleeping and in which no callback ran *)
Definition idle_boundary (g : gmon) : gmon :=
  let n := if g_idle_now g then g_idle g + 1 else 0 in
  let g := if 2 <=? n then g_fail g 1103 else g in
  g_set_idle g false n.

(* does the abstract state allow this scripted call? *)
Definition allowed (g : gmon) (a : action) : bool :=
  let m := g_m g in
  match a with
  | AFdReg i => negb (a_fd m i) && negb (g_closed g i)
  | AFdTry i => negb (a_fd m i)
  | AFdUnreg i => a_fd m i
  | AFdSetH _ _ _ | AFdCookie _ _ => true
  | AFdFresh i => negb (a_fd m i)
  | AKSet _ _ | AKOpen _ => true
  | AKClose i => negb (a_fd m i)
  | ATmRegAbs j _ | ATmRegRel j _ => negb (a_tm m j)
  | ATmUnreg j => a_tm m j
  | ATmFresh j => negb (a_tm m j)
  | ATkReg j => negb (a_tk m j)
  | ATkUnreg j => a_tk m j
  | ATkFresh j => negb (a_tk m j)
  | AEvReg j => negb (a_ev m j)
  | AEvUnreg j | AEvPost j => a_ev m j
  | AEvFresh j => negb (a_ev m j)
  | ARwReg j => negb (a_rw m j)
  | ARwUnreg j | ARwPost j => a_rw m j
  | ARwFresh j => negb (a_rw m j)
  | AQuit | AClockAdv _ | AInvalidate | AValidate => true
  end.

Definition opt_eqb (a b : option Z) : bool :=
  match a, b with
  | None, None => true
  | Some x, Some y => x =? y
  | _, _ => false
  end.

(* the logged action is the scripted one (a relative timer registration is logged with its resolved expiry) *)
Definition same_action (scripted logged : action) : bool :=
  match scripted, logged with
  | AFdReg i, AFdReg j | AFdTry i, AFdTry j | AFdUnreg i, AFdUnreg j | AFdFresh i, AFdFresh j
  | AKClose i, AKClose j | AKOpen i, AKOpen j
  | ATmUnreg i, ATmUnreg j | ATmFresh i, ATmFresh j
  | ATkReg i, ATkReg j | ATkUnreg i, ATkUnreg j | ATkFresh i, ATkFresh j
  | AEvReg i, AEvReg j | AEvUnreg i, AEvUnreg j | AEvPost i, AEvPost j | AEvFresh i, AEvFresh j
  | ARwReg i, ARwReg j | ARwUnreg i, ARwUnreg j | ARwPost i, ARwPost j | ARwFresh i, ARwFresh j => i =? j
  | AFdSetH i b h, AFdSetH j c k => (i =? j) && (b =? c) && opt_eqb h k
  | AFdCookie i c, AFdCookie j d => (i =? j) && (c =? d)
  | AKSet i c, AKSet j d => (i =? j) && (c =? d)
  | ATmRegAbs i e, ATmRegAbs j f => (i =? j) && (e =? f)
  | ATmRegRel i _, ATmRegAbs j _ => i =? j
  | AQuit, AQuit | AInvalidate, AInvalidate | AValidate, AValidate => true
  | AClockAdv d, AClockAdv e => d =? e
  | _, _ => false
  end.

(* drop scripted actions the abstract state forbids; the first allowed one must be the logged one *)
Fixpoint consume (g : gmon) (todo : list action) (logged : action) : option (list action) :=
  match todo with
  | [] => None
  | a :: rest =>
      if allowed g a then (if same_action a logged then Some rest else None)
      else consume g rest logged
  end.

(* at a script boundary nothing allowed may be left *)
Definition leftovers (g : gmon) : bool := existsb (allowed g) (g_todo g).

Definition script_of (sc : scenario) (g : gmon) (key : Z) : gmon * list action :=
  match sc_handlers sc key with
  | [] => (g, [])
  | lists =>
      let n := g_inv g key in
      let len := Z.of_nat (length lists) in
      let k := if n <? len then n else len - 1 in
      (g_set_inv g (upd (g_inv g) key (n + 1)), nth (Z.to_nat k) lists [])
  end.

Definition teardown_script : list action :=
  flat_map (fun i => [AFdUnreg i; ATmUnreg i; ATkUnreg i; AEvUnreg i; ARwUnreg i]) (zseq 0 16).

(* a new script starts (callback, wait, end): the previous one must be exhausted *)
Definition boundary (g : gmon) : gmon :=
  if leftovers g then g_fail g 1102 else g.

Definition track (g : gmon) (e : tev) : gmon :=
  g_with g (mon_step (g_m g) e) (g_todo g).

Definition gstep (sc : scenario) (g : gmon) (e : tev) : gmon :=
  if g_done g then g else
  match e with
  | TAct a =>
      (* external actions of the coming wait are logged before its W event *)
      let g1 :=
        match consume g (g_todo g) a with
        | Some _ => g
        | None =>
            if a_main (g_m g) && negb (g_wloaded g) then
              let g' := boundary g in
              g_set_wait (g_with g' (g_m g') (sc_wait sc (g_nwait g + 1))) (g_nwait g) true
            else g
        end in
      let g2 :=
        match consume g1 (g_todo g1) a with
        | Some rest => g_with g1 (g_m g1) rest
        | None => g_fail g1 1101
        end in
      let g3 := match a with
                | AKClose i => g_set_closed g2 (upd (g_closed g2) i true)
                | AKOpen i => g_set_closed g2 (upd (g_closed g2) i false)
                | _ => g2
                end in
      track g3 e
  | TCallFd _ _ hid _ =>
      let g := g_set_idle (track (boundary g) e) false (g_idle g) in
      let '(g, l) := script_of sc g hid in g_with g (g_m g) l
  | TCallTimer j _ =>
      let g := g_set_idle (track (boundary g) e) false (g_idle g) in
      let '(g, l) := script_of sc g (HK_T + j) in g_with g (g_m g) l
  | TCallTask j =>
      let g := g_set_idle (track (boundary g) e) false (g_idle g) in
      let '(g, l) := script_of sc g (HK_K + j) in g_with g (g_m g) l
  | TCallEvent j =>
      let g := g_set_idle (track (boundary g) e) false (g_idle g) in
      let '(g, l) := script_of sc g (HK_E + j) in g_with g (g_m g) l
  | TCallRaw j =>
      let g := g_set_idle (track (boundary g) e) false (g_idle g) in
      let '(g, l) := script_of sc g (HK_R + j) in g_with g (g_m g) l
  | TMain => g_with (track (boundary g) e) (mon_step (g_m (boundary g)) e) []
  | TWait n _ _ _ interest _ =>
      (* 1104: the kernel still holds an interest entry (hence a pointer) for a descriptor object whose
         unregister call has returned -- any event on it would make the library touch that object *)
      let stale := existsb (fun e => let fd := fst (fst e) in
                                     (100 <=? fd) && (fd <? 116) && negb (a_fd (g_m g) (fd - 100))) interest in
      let g := if stale then g_fail g 1104 else g in
      (* if the wait's external actions were not loaded yet, none of them may have been allowed *)
      let g := if g_wloaded g then boundary g
               else boundary (g_with (boundary g) (g_m g) (sc_wait sc (g_nwait g + 1))) in
      idle_boundary (g_set_wait (g_with (track g e) (mon_step (g_m g) e) []) n false)
  | TEnd _ _ => idle_boundary (g_with (track (boundary g) e) (mon_step (g_m (boundary g)) e) teardown_script)
  | TTear _ => g_with (track (boundary g) e) (mon_step (g_m (boundary g)) e) []
  | TRet (Some n) _ clk => g_set_idle (track g e) ((n =? 0) && (clk =? a_clk (g_m g))) (g_idle g)
  | TLimit | THang | TFatal | TCrash => g_set_done (track g e)
  | _ => track g e
  end.

Definition gmon_run (sc : scenario) (tr : list tev) : gmon := fold_left (gstep sc) tr (gmon0 sc).

Definition gmon_fails (sc : scenario) (tr : list tev) : list Z := g_fails (gmon_run sc tr).

Definition mon_guard (sc : scenario) (tr : list tev) : bool :=
  match gmon_fails sc tr with [] => true | _ => false end.
