(* CorePhase2TimeR3K.v -- which kernel operations change the counter / fill of a
   descriptor: only reads and writes do; everything else (and every operation on a
   fresh descriptor) preserves the counters of all existing dynamic descriptors. *)
From Coq Require Import List ZArith Bool Lia.
From Ivv Require Import Core.Kernel Core.CoreTypes Core.CoreFd Core.CoreModel Core.CoreRelBase Core.CoreInvBase.
Import ListNotations.
Local Open Scope Z_scope.

Definition KI (k : kernel) : Prop := forall fd, k_get k fd <> None -> fd < next_fd k.

(* counters of the dynamic descriptors other than those satisfying X are preserved *)
Definition CNTx (X : Z -> Prop) (k k' : kernel) : Prop :=
  KI k -> KI k' /\ next_fd k <= next_fd k' /\
  forall fd v, 1000 <= fd -> ~ X fd -> k_get k fd = Some v -> exists v', k_get k' fd = Some v' /\ vcnt v' = vcnt v.
Definition CNT := CNTx (fun _ => False).

Lemma CNTx_refl : forall X k, CNTx X k k.
Proof. intros X k H. split; [exact H|split; [lia|]]. intros fd v _ _ G. exists v. auto. Qed.

Lemma CNTx_trans : forall X a b c, CNTx X a b -> CNTx X b c -> CNTx X a c.
Proof.
  intros X a b c A B H. destruct (A H) as (H1 & N1 & C1). destruct (B H1) as (H2 & N2 & C2).
  split; [exact H2|split; [lia|]]. intros fd v F NX G. destruct (C1 fd v F NX G) as (v1 & G1 & E1).
  destruct (C2 fd v1 F NX G1) as (v2 & G2 & E2). exists v2. split; [exact G2|congruence].
Qed.

Lemma CNTx_weaken : forall (X Y : Z -> Prop) k k', (forall fd, X fd -> Y fd) -> CNTx X k k' -> CNTx Y k k'.
Proof.
  intros X Y k k' H A K. destruct (A K) as (K1 & N1 & C1). split; [exact K1|split; [exact N1|]].
  intros fd v F NY G. apply (C1 fd v F); [intros XX; apply NY; apply H; exact XX|exact G].
Qed.

Lemma CNT_x : forall X k k', CNT k k' -> CNTx X k k'.
Proof. intros X k k' H. apply (CNTx_weaken (fun _ => False)); [intros fd []|exact H]. Qed.

Lemma CNT_fields : forall k k', vfds k' = vfds k -> next_fd k' = next_fd k -> CNT k k'.
Proof.
  intros k k' V N H. unfold KI, k_get in *. rewrite V, N. split; [exact H|split; [lia|]].
  intros fd v _ _ G. exists v. auto.
Qed.

(* writing a descriptor that exists, keeping its counter *)
Lemma CNT_put_keep : forall k fd v v', k_get k fd = Some v -> vcnt v' = vcnt v -> CNT k (k_put k fd v').
Proof.
  intros k fd v v' G E H. split; [|split; [cbn; lia|]].
  - intros x. rewrite k_get_put. change (next_fd (k_put k fd v')) with (next_fd k).
    destruct (Z.eqb_spec x fd) as [->|N]; [intros _; apply H; congruence|apply H].
  - intros x w _ _ GX. rewrite k_get_put. destruct (Z.eqb_spec x fd) as [->|N].
    + exists v'. split; [reflexivity|congruence].
    + exists w. auto.
Qed.

Lemma CNTx_put : forall k fd v v', k_get k fd = Some v -> CNTx (fun x => x = fd) k (k_put k fd v').
Proof.
  intros k fd v v' G H. split; [|split; [cbn; lia|]].
  - intros x. rewrite k_get_put. change (next_fd (k_put k fd v')) with (next_fd k).
    destruct (Z.eqb_spec x fd) as [->|N]; [intros _; apply H; congruence|apply H].
  - intros x w _ NX GX. rewrite k_get_put. destruct (Z.eqb_spec x fd) as [->|N]; [contradiction NX; reflexivity|].
    exists w. auto.
Qed.

Lemma CNT_put_low : forall k fd v', fd < 1000 -> 1000 <= next_fd k -> CNT k (k_put k fd v').
Proof.
  intros k fd v' L NX H. split; [|split; [cbn; lia|]].
  - intros x. rewrite k_get_put. change (next_fd (k_put k fd v')) with (next_fd k).
    destruct (Z.eqb_spec x fd) as [->|N]; [intros _; lia|apply H].
  - intros x w F _ GX. rewrite k_get_put. destruct (Z.eqb_spec x fd) as [->|N]; [lia|]. exists w. auto.
Qed.

Lemma CNT_alloc : forall k kind, CNT k (snd (k_alloc k kind)).
Proof.
  intros k kind H. unfold k_alloc. cbn [snd]. split; [|split; [cbn; lia|]].
  - intros x. rewrite k_get_put. cbn [next_fd k_put k_set_vfds k_set_next].
    destruct (Z.eqb_spec x (next_fd k)) as [->|N]; [intros _; lia|]. intros G. specialize (H x G). lia.
  - intros x w _ _ GX. rewrite k_get_put. destruct (Z.eqb_spec x (next_fd k)) as [->|N].
    + exfalso. assert (next_fd k < next_fd k) by (apply H; change (k_get k (next_fd k) <> None); congruence). lia.
    + exists w. split; [exact GX|reflexivity].
Qed.

Lemma CNT_ctl : forall k op fd ev d, CNT k (fst (k_epoll_ctl k op fd ev d)).
Proof.
  intros k op fd ev d. apply CNT_fields; unfold k_epoll_ctl;
    repeat match goal with |- context [if ?c then _ else _] => destruct c | |- context [match ?c with _ => _ end] => destruct c end;
    reflexivity.
Qed.

Lemma k_open_get' : forall k fd v, k_open k fd = Some v -> k_get k fd = Some v.
Proof. intros k fd v H. apply k_open_get in H. apply H. Qed.

Lemma CNT_close : forall k fd, CNT k (fst (k_close k fd)).
Proof.
  intros k fd. unfold k_close. destruct (k_open k fd) as [v|] eqn:O; cbn [fst]; [|apply CNTx_refl].
  pose proof (k_open_get' _ _ _ O) as G.
  set (k1 := k_put k fd (with_closed v true)).
  assert (C1 : CNT k k1) by (apply (CNT_put_keep k fd v); [exact G|reflexivity]).
  assert (C2 : CNT k (if (vkind v =? K_PIPE_R) || (vkind v =? K_PIPE_W)
                      then match k_get k1 (vpeer v) with
                           | Some p => k_put k1 (vpeer v) (with_peer p (vpeer p) false)
                           | None => k1 end else k1)).
  { destruct ((vkind v =? K_PIPE_R) || (vkind v =? K_PIPE_W)); [|exact C1].
    destruct (k_get k1 (vpeer v)) as [p|] eqn:GP; [|exact C1].
    eapply CNTx_trans; [exact C1|]. apply (CNT_put_keep k1 (vpeer v) p); [exact GP|reflexivity]. }
  eapply CNTx_trans; [exact C2|]. apply CNT_fields; reflexivity.
Qed.

Lemma CNT_settime : forall k fd d, CNT k (k_timerfd_settime k fd d).
Proof.
  intros k fd d. unfold k_timerfd_settime. destruct (k_open k fd) as [v|] eqn:O; [|apply CNTx_refl].
  apply (CNT_put_keep k fd v); [apply k_open_get'; exact O|reflexivity].
Qed.

Lemma CNTx_read : forall k fd c, CNTx (fun x => x = fd) k (fst (k_read k fd c)).
Proof.
  intros k fd c. unfold k_read. destruct (k_open k fd) as [v|] eqn:O; cbn [fst]; [|apply CNTx_refl].
  pose proof (k_open_get' _ _ _ O) as G.
  repeat match goal with |- context [if ?c then _ else _] => destruct c end; cbn [fst];
    try apply CNTx_refl; apply (CNTx_put k fd v); exact G.
Qed.

(* reading the timer descriptor changes no counter *)
Lemma CNT_read_timer : forall k fd c v, k_open k fd = Some v -> vkind v = K_TIMERFD -> CNT k (fst (k_read k fd c)).
Proof.
  intros k fd c v O KD. unfold k_read. rewrite O, KD.
  change (K_TIMERFD =? K_EVENTFD) with false. change (K_TIMERFD =? K_PIPE_R) with false. change (K_TIMERFD =? K_TIMERFD) with true.
  cbv iota. destruct (has (k_cond k fd) B_IN); cbn [fst]; [|apply CNTx_refl].
  apply (CNT_put_keep k fd v); [apply k_open_get'; exact O|reflexivity].
Qed.

(* a write changes the counter of the descriptor itself (eventfd) or of its peer (pipe) *)
Lemma CNTx_write : forall k fd c x, CNTx (fun y => exists v, k_open k fd = Some v /\
                                       ((vkind v = K_EVENTFD /\ y = fd) \/ (vkind v = K_PIPE_W /\ y = vpeer v)))
                                    k (fst (k_write k fd c x)).
Proof.
  intros k fd c x. unfold k_write. destruct (k_open k fd) as [v|] eqn:O; cbn [fst]; [|apply CNTx_refl].
  pose proof (k_open_get' _ _ _ O) as G.
  destruct (Z.eqb_spec (vkind v) K_EVENTFD) as [KE|NE].
  - destruct (c <? 8); cbn [fst]; [apply CNTx_refl|].
    apply (CNTx_weaken (fun y => y = fd)); [intros y ->; exists v; split; [reflexivity|left; auto]|].
    apply (CNTx_put k fd v); exact G.
  - destruct (Z.eqb_spec (vkind v) K_PIPE_W) as [KW|NW]; [|cbn [fst]; apply CNTx_refl].
    destruct (negb (vpeer_open v)); cbn [fst]; [apply CNTx_refl|].
    destruct (k_get k (vpeer v)) as [r|] eqn:GR; cbn [fst]; [|apply CNTx_refl].
    destruct (Z.min c (65536 - vcnt r) <=? 0); cbn [fst]; [apply CNTx_refl|].
    apply (CNTx_weaken (fun y => y = vpeer v)); [intros y ->; exists v; split; [reflexivity|right; auto]|].
    apply (CNTx_put k (vpeer v) r); exact GR.
Qed.

Lemma CNT_pipe : forall k, CNT k (fst (k_pipe k)).
Proof.
  intros k. unfold k_pipe. destruct (emfile (flt k)); cbn [fst]; [apply CNTx_refl|].
  pose proof (CNT_alloc k K_PIPE_R) as A1. destruct (k_alloc k K_PIPE_R) as [r k1] eqn:E1. cbn [snd] in A1.
  pose proof (CNT_alloc k1 K_PIPE_W) as A2. destruct (k_alloc k1 K_PIPE_W) as [w k2] eqn:E2. cbn [snd] in A2.
  cbn [fst].
  assert (R1 : r = next_fd k /\ k_get k1 r = Some (vfd0 K_PIPE_R) /\ next_fd k1 = next_fd k + 1).
  { unfold k_alloc in E1. inversion E1; subst. rewrite k_get_put, Z.eqb_refl. repeat split. }
  assert (R2 : w = next_fd k1 /\ k_get k2 w = Some (vfd0 K_PIPE_W) /\ k_get k2 r = Some (vfd0 K_PIPE_R)).
  { unfold k_alloc in E2. inversion E2; subst. rewrite !k_get_put, Z.eqb_refl. destruct R1 as (-> & G1 & N1).
    split; [reflexivity|split; [reflexivity|]]. destruct (Z.eqb_spec (next_fd k) (next_fd k1)); [lia|exact G1]. }
  destruct R1 as (Er & G1 & N1). destruct R2 as (Ew & G2w & G2r).
  eapply CNTx_trans; [exact A1|]. eapply CNTx_trans; [exact A2|].
  eapply CNTx_trans; [apply (CNT_put_keep k2 r (vfd0 K_PIPE_R)); [exact G2r|reflexivity]|].
  apply (CNT_put_keep _ w (vfd0 K_PIPE_W)); [|reflexivity].
  rewrite k_get_put. destruct (Z.eqb_spec w r); [lia|exact G2w].
Qed.

Lemma CNT_eventfd : forall k b, CNT k (fst (k_eventfd k b)).
Proof.
  intros k b. unfold k_eventfd.
  destruct (emfile (flt k)); [apply CNTx_refl|]. destruct (no_eventfd (flt k) || (b && no_eventfd2 (flt k))); [apply CNTx_refl|].
  pose proof (CNT_alloc k K_EVENTFD) as A. destruct (k_alloc k K_EVENTFD) as [fd k1]. exact A.
Qed.

Lemma CNT_timerfd_create : forall k, CNT k (fst (k_timerfd_create k)).
Proof.
  intros k. unfold k_timerfd_create. destruct (no_timerfd (flt k)); [apply CNTx_refl|].
  pose proof (CNT_alloc k K_TIMERFD) as A. destruct (k_alloc k K_TIMERFD) as [fd k1]. exact A.
Qed.

Lemma CNT_grab : forall k u, CNT k (fst (fst (eventfd_grab k u))).
Proof.
  intros k u. unfold eventfd_grab.
  assert (OP : forall k0 u0, CNT k0 (fst (fst (
     if negb (u0 =? 0) then
      match k_eventfd k0 false with
      | (k1, inl fd) => (k1, inl fd, u0)
      | (k1, inr e) => if is_enosys e then (k1, @inr Z errno ENOSYS, 0) else (k1, inr e, u0)
      end
    else (k0, inr ENOSYS, 0))))).
  { intros k0 u0. destruct (negb (u0 =? 0)); [|apply CNTx_refl].
    pose proof (CNT_eventfd k0 false) as H. destruct (k_eventfd k0 false) as [k1 [fd|e]]; cbn [fst] in *.
    - assumption.
    - destruct (is_enosys e); assumption. }
  destruct (u =? 2).
  - pose proof (CNT_eventfd k true) as H. destruct (k_eventfd k true) as [k1 [fd|e]]; cbn [fst] in *.
    + assumption.
    + destruct (is_enosys e || is_einval e); [|assumption].
      eapply CNTx_trans; [eassumption|apply OP].
  - apply OP.
Qed.

Lemma CNT_set_cond : forall k i c, 0 <= i < 16 -> 1000 <= next_fd k -> CNT k (k_set_cond k i c).
Proof.
  intros k i c I N. unfold k_set_cond. destruct (k_get k (100 + i)) as [v|]; [|apply CNTx_refl].
  apply CNT_put_low; lia.
Qed.
Lemma CNT_user_close : forall k i, 0 <= i < 16 -> 1000 <= next_fd k -> CNT k (k_user_close k i).
Proof.
  intros k i I N. unfold k_user_close. destruct (k_get k (100 + i)) as [v|]; [|apply CNTx_refl].
  apply CNT_put_low; lia.
Qed.
Lemma CNT_user_fd : forall k i, 0 <= i < 16 -> 1000 <= next_fd k -> CNT k (k_user_fd k i).
Proof. intros k i I N. unfold k_user_fd. apply CNT_put_low; lia. Qed.
