(* CorePhase2TimeR3K.v -- which kernel operations change the counter / fill of a
   descriptor: only reads and writes do; everything else (and every operation on a
   fresh descriptor) preserves the counters of all existing dynamic descriptors. *)
From Coq Require Import List ZArith Bool Lia.
From Ivv Require Import Core.Kernel Core.CoreTypes Core.CoreFd Core.CoreModel Core.CoreRelBase Core.CoreInvBase.
Import ListNotations.
Local Open Scope Z_scope.

Definition KI (k : kernel) : Prop := forall fd, k_get k fd <> None -> fd < next_fd k.

(* pipes come in pairs; the write end knows whether the read end is still open *)
Definition ispipe (v : vfd) : Prop := vkind v = K_PIPE_R \/ vkind v = K_PIPE_W.
Definition PS (k : kernel) : Prop := forall fd v, k_get k fd = Some v -> ispipe v ->
  1000 <= fd /\ 1000 <= vpeer v /\ exists p, k_get k (vpeer v) = Some p /\ vpeer p = fd /\
    ((vkind v = K_PIPE_W /\ vkind p = K_PIPE_R) \/ (vkind v = K_PIPE_R /\ vkind p = K_PIPE_W)) /\
    (vkind v = K_PIPE_W -> vpeer_open v = negb (vclosed p)).
Definition KP (k : kernel) : Prop := KI k /\ PS k /\ 1000 <= next_fd k.

Definition shape (v' v : vfd) : Prop :=
  vkind v' = vkind v /\ vpeer v' = vpeer v /\ vclosed v' = vclosed v /\ vpeer_open v' = vpeer_open v.

Lemma ispipe_dec : forall v, ispipe v \/ ~ ispipe v.
Proof.
  intros v. unfold ispipe. destruct (Z.eq_dec (vkind v) K_PIPE_R); [left; auto|].
  destruct (Z.eq_dec (vkind v) K_PIPE_W); [left; auto|right; tauto].
Qed.

Lemma PS_put_shape : forall k fd v v', PS k -> k_get k fd = Some v -> shape v' v -> PS (k_put k fd v').
Proof.
  intros k fd v v' P G (S1 & S2 & S3 & S4) x w GX IP. rewrite k_get_put in GX.
  assert (PEER : forall y q, k_get k y = Some q -> exists q', k_get (k_put k fd v') y = Some q' /\ vpeer q' = vpeer q /\
                   vkind q' = vkind q /\ vclosed q' = vclosed q).
  { intros y q GY. rewrite k_get_put. destruct (Z.eqb_spec y fd) as [->|N]; [|exists q; auto].
    rewrite G in GY. inversion GY; subst q. exists v'. auto. }
  destruct (Z.eqb_spec x fd) as [->|N].
  - inversion GX; subst w. assert (IP0 : ispipe v) by (unfold ispipe in *; rewrite <- S1; exact IP).
    destruct (P fd v G IP0) as (A & B & p & GP & PP & KK & OO). rewrite S2.
    split; [exact A|split; [exact B|]]. destruct (PEER _ _ GP) as (p' & GP' & E1 & E2 & E3).
    exists p'. split; [exact GP'|]. split; [congruence|]. rewrite S1, S4, E2, E3. split; [exact KK|exact OO].
  - destruct (P x w GX IP) as (A & B & p & GP & PP & KK & OO).
    split; [exact A|split; [exact B|]]. destruct (PEER _ _ GP) as (p' & GP' & E1 & E2 & E3).
    exists p'. split; [exact GP'|]. split; [congruence|]. rewrite E2, E3. split; [exact KK|exact OO].
Qed.

(* a descriptor that is not (and does not become) a pipe end *)
Lemma PS_put_nonpipe : forall k fd v', PS k -> (forall v, k_get k fd = Some v -> ~ ispipe v) -> ~ ispipe v' ->
  PS (k_put k fd v').
Proof.
  intros k fd v' P OLD NEW x w GX IP. rewrite k_get_put in GX.
  destruct (Z.eqb_spec x fd) as [->|N]; [inversion GX; subst w; contradiction|].
  destruct (P x w GX IP) as (A & B & p & GP & PP & KK & OO).
  split; [exact A|split; [exact B|]]. exists p. rewrite k_get_put.
  destruct (Z.eqb_spec (vpeer w) fd) as [E|NE]; [|auto].
  exfalso. rewrite E in GP. apply (OLD p GP). unfold ispipe. destruct KK as [[_ K]|[_ K]]; auto.
Qed.

Lemma PS_fields : forall k k', vfds k' = vfds k -> PS k -> PS k'.
Proof. intros k k' V P. unfold PS, k_get in *. rewrite V. exact P. Qed.

Lemma PS_close : forall k fd, PS k -> PS (fst (k_close k fd)).
Proof.
  intros k fd P. unfold k_close. destruct (k_open k fd) as [v|] eqn:O; cbn [fst]; [|exact P].
  apply k_open_get in O. destruct O as [G C].
  apply (PS_fields (if (vkind v =? K_PIPE_R) || (vkind v =? K_PIPE_W)
                    then match k_get (k_put k fd (with_closed v true)) (vpeer v) with
                         | Some p => k_put (k_put k fd (with_closed v true)) (vpeer v) (with_peer p (vpeer p) false)
                         | None => k_put k fd (with_closed v true) end
                    else k_put k fd (with_closed v true))); [reflexivity|].
  destruct ((vkind v =? K_PIPE_R) || (vkind v =? K_PIPE_W)) eqn:KD.
  - assert (IP : ispipe v).
    { apply orb_true_iff in KD. destruct KD as [E|E]; apply Z.eqb_eq in E; [left|right]; exact E. }
    destruct (P fd v G IP) as (A & B & p & GP & PP & KK & OO).
    assert (NE : vpeer v <> fd).
    { intros E. rewrite E in GP. rewrite G in GP. inversion GP; subst p. destruct KK as [[K1 K2]|[K1 K2]]; rewrite K1 in K2; discriminate. }
    rewrite k_get_put. destruct (Z.eqb_spec (vpeer v) fd) as [E|_]; [contradiction|]. rewrite GP.
    (* both ends rewritten: fd closed, its peer told *)
    intros x w GX IPX. rewrite !k_get_put in GX.
    destruct (Z.eqb_spec x (vpeer v)) as [EX|NX].
    + inversion GX; subst w x. cbn [vpeer with_peer vkind vpeer_open] in *.
      split; [exact B|]. rewrite PP. split; [exact A|].
      exists (with_closed v true). rewrite !k_get_put.
      destruct (Z.eqb_spec fd (vpeer v)) as [E|_]; [congruence|]. rewrite Z.eqb_refl.
      split; [reflexivity|]. split; [reflexivity|]. cbn [vkind with_closed vclosed].
      split; [destruct KK as [[K1 K2]|[K1 K2]]; [right|left]; auto|]. intros _. reflexivity.
    + destruct (Z.eqb_spec x fd) as [EX|NX2].
      * inversion GX; subst w x. cbn [vpeer with_closed vkind vpeer_open vclosed] in *.
        split; [exact A|split; [exact B|]]. exists (with_peer p (vpeer p) false). rewrite k_get_put, Z.eqb_refl.
        split; [reflexivity|]. cbn [vpeer with_peer vkind vclosed]. split; [exact PP|]. split; [exact KK|exact OO].
      * destruct (P x w GX IPX) as (A' & B' & q & GQ & QQ & KK' & OO').
        split; [exact A'|split; [exact B'|]].
        assert (Q1 : vpeer w <> vpeer v).
        { intros E. rewrite E in GQ. rewrite GP in GQ. inversion GQ; subst q. congruence. }
        assert (Q2 : vpeer w <> fd).
        { intros E. rewrite E in GQ. rewrite G in GQ. inversion GQ; subst q.
          destruct (P (vpeer v) p GP ltac:(unfold ispipe; destruct KK as [[_ K]|[_ K]]; auto)) as (_ & _ & p2 & GP2 & PP2 & _).
          rewrite PP in GP2. rewrite G in GP2. inversion GP2; subst p2. congruence. }
        exists q. rewrite !k_get_put. destruct (Z.eqb_spec (vpeer w) (vpeer v)); [contradiction|].
        destruct (Z.eqb_spec (vpeer w) fd); [contradiction|]. auto.
  - apply orb_false_iff in KD. destruct KD as [K1 K2]. apply Z.eqb_neq in K1. apply Z.eqb_neq in K2.
    apply PS_put_nonpipe; [exact P|intros v0 G0; rewrite G in G0; inversion G0; subst v0; unfold ispipe; tauto|].
    unfold ispipe. cbn [vkind with_closed]. tauto.
Qed.

(* counters of the dynamic descriptors other than those satisfying X are preserved *)
Definition CNTx (X : Z -> Prop) (k k' : kernel) : Prop :=
  KP k -> KP k' /\ next_fd k <= next_fd k' /\
  forall fd v, 1000 <= fd -> ~ X fd -> k_get k fd = Some v -> exists v', k_get k' fd = Some v' /\ vcnt v' = vcnt v.
Definition CNT := CNTx (fun _ => False).

Lemma CNTx_refl : forall X k, CNTx X k k.
Proof. intros X k H. split; [exact H|split; [lia|]]. intros fd v _ _ G. exists v. auto. Qed.

Lemma CNTx_trans : forall X a b c, CNTx X a b -> CNTx X b c -> CNTx X a c.
Proof.
  intros X a b c A B H. destruct (A H) as (H1 & N1 & C1). destruct (B H1) as (H2 & N2 & C2).
  split; [exact H2|split; [lia|]]. intros fd v F NX G. destruct (C1 fd v F NX G) as (v1 & G1 & E1).
  destruct (C2 fd v1 F NX G1) as (v2 & G2 & E2). exists v2. split; [exact G2|congruence].
Qed.

Lemma CNTx_weaken : forall (X Y : Z -> Prop) k k', (forall fd, X fd -> Y fd) -> CNTx X k k' -> CNTx Y k k'.
Proof.
  intros X Y k k' H A K. destruct (A K) as (K1 & N1 & C1). split; [exact K1|split; [exact N1|]].
  intros fd v F NY G. apply (C1 fd v F); [intros XX; apply NY; apply H; exact XX|exact G].
Qed.

Lemma CNT_x : forall X k k', CNT k k' -> CNTx X k k'.
Proof. intros X k k' H. apply (CNTx_weaken (fun _ => False)); [intros fd []|exact H]. Qed.

Lemma CNT_fields : forall k k', vfds k' = vfds k -> next_fd k' = next_fd k -> CNT k k'.
Proof.
  intros k k' V N (H & P & NX). split; [|split; [lia|]].
  - split; [|split; [eapply PS_fields; eassumption|lia]]. unfold KI, k_get in *. rewrite V, N. exact H.
  - intros fd v _ _ G. exists v. unfold k_get in *. rewrite V. auto.
Qed.

Lemma KI_put : forall k fd v', KI k -> fd < next_fd k -> KI (k_put k fd v').
Proof.
  intros k fd v' H L x. rewrite k_get_put. change (next_fd (k_put k fd v')) with (next_fd k).
  destruct (Z.eqb_spec x fd) as [->|N]; [intros _; exact L|apply H].
Qed.

(* rewriting an existing descriptor, keeping its shape (and counter, except for X) *)
Lemma CNTx_put : forall k fd v v', k_get k fd = Some v -> shape v' v -> CNTx (fun x => x = fd) k (k_put k fd v').
Proof.
  intros k fd v v' G SH (H & P & NX). split; [|split; [cbn; lia|]].
  - split; [apply KI_put; [exact H|apply H; congruence]|]. split; [eapply PS_put_shape; eassumption|exact NX].
  - intros x w _ NXX GX. rewrite k_get_put. destruct (Z.eqb_spec x fd) as [->|N]; [contradiction NXX; reflexivity|].
    exists w. auto.
Qed.

Lemma CNT_put_keep : forall k fd v v', k_get k fd = Some v -> shape v' v -> vcnt v' = vcnt v -> CNT k (k_put k fd v').
Proof.
  intros k fd v v' G SH E K. destruct (CNTx_put k fd v v' G SH K) as (K1 & N1 & C1).
  split; [exact K1|split; [exact N1|]]. intros x w F _ GX. destruct (Z.eq_dec x fd) as [->|N].
  - rewrite k_get_put, Z.eqb_refl. exists v'. split; [reflexivity|congruence].
  - apply (C1 x w F N GX).
Qed.

Lemma CNT_put_low : forall k fd v', fd < 1000 -> ~ ispipe v' -> CNT k (k_put k fd v').
Proof.
  intros k fd v' L NP (H & P & NX). split; [|split; [cbn; lia|]].
  - split; [apply KI_put; [exact H|lia]|]. split; [|exact NX].
    apply PS_put_nonpipe; [exact P| |exact NP]. intros v G IP. destruct (P fd v G IP) as (A & _). lia.
  - intros x w F _ GX. rewrite k_get_put. destruct (Z.eqb_spec x fd) as [->|N]; [lia|]. exists w. auto.
Qed.

Lemma CNT_alloc : forall k kind, kind <> K_PIPE_R -> kind <> K_PIPE_W -> CNT k (snd (k_alloc k kind)).
Proof.
  intros k kind N1 N2 (H & P & NX). unfold k_alloc. cbn [snd].
  assert (FR : k_get k (next_fd k) = None).
  { destruct (k_get k (next_fd k)) eqn:G; [|reflexivity]. assert (next_fd k < next_fd k) by (apply H; congruence). lia. }
  split; [|split; [cbn; lia|]].
  - split; [|split].
    + intros x. rewrite k_get_put. cbn [next_fd k_put k_set_vfds k_set_next].
      destruct (Z.eqb_spec x (next_fd k)) as [->|N]; [intros _; lia|]. intros G. specialize (H x G). lia.
    + apply PS_put_nonpipe; [apply (PS_fields k); [reflexivity|exact P]| |unfold ispipe; cbn; tauto].
      intros v G. change (k_get (k_set_next k (next_fd k + 1)) (next_fd k)) with (k_get k (next_fd k)) in G. congruence.
    + cbn. lia.
  - intros x w _ _ GX. rewrite k_get_put. destruct (Z.eqb_spec x (next_fd k)) as [->|N]; [congruence|].
    exists w. split; [exact GX|reflexivity].
Qed.

Lemma CNT_ctl : forall k op fd ev d, CNT k (fst (k_epoll_ctl k op fd ev d)).
Proof.
  intros k op fd ev d. apply CNT_fields; unfold k_epoll_ctl;
    repeat match goal with |- context [if ?c then _ else _] => destruct c | |- context [match ?c with _ => _ end] => destruct c end;
    reflexivity.
Qed.

Lemma k_open_get' : forall k fd v, k_open k fd = Some v -> k_get k fd = Some v.
Proof. intros k fd v H. apply k_open_get in H. apply H. Qed.

Lemma KI_fields : forall k k', vfds k' = vfds k -> next_fd k' = next_fd k -> KI k -> KI k'.
Proof. intros k k' V N H. unfold KI, k_get in *. rewrite V, N. exact H. Qed.

Lemma CNT_close : forall k fd, CNT k (fst (k_close k fd)).
Proof.
  intros k fd (H & P & NX). split; [split; [|split; [apply PS_close; exact P|]]|split].
  - unfold k_close. destruct (k_open k fd) as [v|] eqn:O; cbn [fst]; [|exact H].
    pose proof (k_open_get' _ _ _ O) as G.
    match goal with |- KI (k_set_ep ?K _) => apply (KI_fields K); [reflexivity|reflexivity|] end.
    assert (K1 : KI (k_put k fd (with_closed v true))) by (apply KI_put; [exact H|apply H; congruence]).
    destruct ((vkind v =? K_PIPE_R) || (vkind v =? K_PIPE_W)); [|exact K1].
    destruct (k_get (k_put k fd (with_closed v true)) (vpeer v)) as [p|] eqn:GP; [|exact K1].
    apply KI_put; [exact K1|]. apply K1. congruence.
  - unfold k_close. destruct (k_open k fd) as [v|]; cbn [fst]; [|exact NX].
    destruct ((vkind v =? K_PIPE_R) || (vkind v =? K_PIPE_W)); [destruct (k_get _ (vpeer v))|]; cbn; exact NX.
  - unfold k_close. destruct (k_open k fd) as [v|]; cbn [fst]; [|lia].
    destruct ((vkind v =? K_PIPE_R) || (vkind v =? K_PIPE_W)); [destruct (k_get _ (vpeer v))|]; cbn; lia.
  - intros x w _ _ GX. unfold k_close. destruct (k_open k fd) as [v|] eqn:O; cbn [fst]; [|exists w; auto].
    pose proof (k_open_get' _ _ _ O) as G.
    match goal with |- exists v', k_get (k_set_ep ?K _) x = Some v' /\ _ => change (exists v', k_get K x = Some v' /\ vcnt v' = vcnt w) end.
    assert (S1 : exists w1, k_get (k_put k fd (with_closed v true)) x = Some w1 /\ vcnt w1 = vcnt w).
    { rewrite k_get_put. destruct (Z.eqb_spec x fd) as [->|N]; [|exists w; auto].
      rewrite G in GX. inversion GX; subst w. exists (with_closed v true). auto. }
    destruct ((vkind v =? K_PIPE_R) || (vkind v =? K_PIPE_W)); [|exact S1].
    destruct (k_get (k_put k fd (with_closed v true)) (vpeer v)) as [p|] eqn:GP; [|exact S1].
    destruct S1 as (w1 & G1 & E1). rewrite k_get_put. destruct (Z.eqb_spec x (vpeer v)) as [->|N]; [|exists w1; auto].
    rewrite GP in G1. inversion G1; subst w1. exists (with_peer p (vpeer p) false). auto.
Qed.

Lemma shape_refl_timer : forall v d f, shape (with_timer v d f) v. Proof. intros; repeat split. Qed.
Lemma shape_cnt : forall v c, shape (with_cnt v c) v. Proof. intros; repeat split. Qed.
Lemma shape_cond : forall v c, shape (with_cond v c) v. Proof. intros; repeat split. Qed.

Lemma CNT_settime : forall k fd d, CNT k (k_timerfd_settime k fd d).
Proof.
  intros k fd d. unfold k_timerfd_settime. destruct (k_open k fd) as [v|] eqn:O; [|apply CNTx_refl].
  apply (CNT_put_keep k fd v); [apply k_open_get'; exact O|apply shape_refl_timer|reflexivity].
Qed.

Lemma CNTx_read : forall k fd c, CNTx (fun x => x = fd) k (fst (k_read k fd c)).
Proof.
  intros k fd c. unfold k_read. destruct (k_open k fd) as [v|] eqn:O; cbn [fst]; [|apply CNTx_refl].
  pose proof (k_open_get' _ _ _ O) as G.
  repeat match goal with |- context [if ?c then _ else _] => destruct c end; cbn [fst];
    try apply CNTx_refl; apply (CNTx_put k fd v); try exact G; first [apply shape_cnt|apply shape_refl_timer].
Qed.

(* reading the timer descriptor changes no counter *)
Lemma CNT_read_timer : forall k fd c v, k_open k fd = Some v -> vkind v = K_TIMERFD -> CNT k (fst (k_read k fd c)).
Proof.
  intros k fd c v O KD. unfold k_read. rewrite O, KD.
  change (K_TIMERFD =? K_EVENTFD) with false. change (K_TIMERFD =? K_PIPE_R) with false. change (K_TIMERFD =? K_TIMERFD) with true.
  cbv iota. destruct (has (k_cond k fd) B_IN); cbn [fst]; [|apply CNTx_refl].
  apply (CNT_put_keep k fd v); [apply k_open_get'; exact O|apply shape_refl_timer|reflexivity].
Qed.

(* a write changes the counter of the descriptor itself (eventfd) or of its peer (pipe) *)
Lemma CNTx_write : forall k fd c x, CNTx (fun y => exists v, k_open k fd = Some v /\
                                       ((vkind v = K_EVENTFD /\ y = fd) \/ (vkind v = K_PIPE_W /\ y = vpeer v)))
                                    k (fst (k_write k fd c x)).
Proof.
  intros k fd c x. unfold k_write. destruct (k_open k fd) as [v|] eqn:O; cbn [fst]; [|apply CNTx_refl].
  pose proof (k_open_get' _ _ _ O) as G.
  destruct (Z.eqb_spec (vkind v) K_EVENTFD) as [KE|NE].
  - destruct (c <? 8); cbn [fst]; [apply CNTx_refl|].
    apply (CNTx_weaken (fun y => y = fd)); [intros y ->; exists v; split; [reflexivity|left; auto]|].
    apply (CNTx_put k fd v); [exact G|apply shape_cnt].
  - destruct (Z.eqb_spec (vkind v) K_PIPE_W) as [KW|NW]; [|cbn [fst]; apply CNTx_refl].
    destruct (negb (vpeer_open v)); cbn [fst]; [apply CNTx_refl|].
    destruct (k_get k (vpeer v)) as [r|] eqn:GR; cbn [fst]; [|apply CNTx_refl].
    destruct (Z.min c (65536 - vcnt r) <=? 0); cbn [fst]; [apply CNTx_refl|].
    apply (CNTx_weaken (fun y => y = vpeer v)); [intros y ->; exists v; split; [reflexivity|right; auto]|].
    apply (CNTx_put k (vpeer v) r); [exact GR|apply shape_cnt].
Qed.

Lemma k_get_set_next : forall k n x, k_get (k_set_next k n) x = k_get k x.
Proof. reflexivity. Qed.

Lemma CNT_pipe : forall k, CNT k (fst (k_pipe k)).
Proof.
  intros k. unfold k_pipe. destruct (emfile (flt k)); cbn [fst]; [apply CNTx_refl|].
  intros (H & P & NX). unfold k_alloc. cbn [fst snd].
  set (r := next_fd k). set (w := next_fd k + 1).
  assert (FR : forall x, r <= x -> k_get k x = None).
  { intros x L. destruct (k_get k x) eqn:G; [|reflexivity]. assert (x < next_fd k) by (apply H; congruence). unfold r in L. lia. }
  match goal with |- KP ?K /\ _ => set (k4 := K) end.
  assert (G4 : forall x, k_get k4 x = if x =? w then Some (with_peer (vfd0 K_PIPE_W) r true)
                                     else if x =? r then Some (with_peer (vfd0 K_PIPE_R) w true) else k_get k x).
  { intros x. unfold k4. repeat (rewrite ?k_get_put, ?k_get_set_next). cbn [next_fd k_put k_set_vfds k_set_next]. unfold w, r.
    destruct (Z.eqb_spec x (next_fd k + 1)); [reflexivity|]. destruct (Z.eqb_spec x (next_fd k)); [reflexivity|].
    destruct (Z.eqb_spec x (next_fd k + 1)); [contradiction|]. destruct (Z.eqb_spec x (next_fd k)); [contradiction|]. reflexivity. }
  assert (N4 : next_fd k4 = next_fd k + 2) by (unfold k4; cbn; lia).
  split; [split; [|split]|split].
  - intros x. rewrite G4, N4. unfold w, r. destruct (Z.eqb_spec x (next_fd k + 1)); [intros _; lia|].
    destruct (Z.eqb_spec x (next_fd k)); [intros _; lia|]. intros G. specialize (H x G). lia.
  - intros x v GX IP. rewrite G4 in GX.
    destruct (Z.eqb_spec x w) as [->|NW].
    + inversion GX; subst v. cbn [vpeer with_peer vkind vfd0 vpeer_open vclosed]. split; [unfold w; lia|]. split; [unfold r; lia|].
      exists (with_peer (vfd0 K_PIPE_R) w true). rewrite G4. unfold w, r.
      destruct (Z.eqb_spec (next_fd k) (next_fd k + 1)); [lia|]. rewrite Z.eqb_refl.
      split; [reflexivity|]. split; [reflexivity|]. split; [left; auto|]. intros _. reflexivity.
    + destruct (Z.eqb_spec x r) as [->|NR].
      * inversion GX; subst v. cbn [vpeer with_peer vkind vfd0 vpeer_open vclosed]. split; [unfold r; lia|]. split; [unfold w; lia|].
        exists (with_peer (vfd0 K_PIPE_W) r true). rewrite G4, Z.eqb_refl.
        split; [reflexivity|]. split; [reflexivity|]. split; [right; auto|]. intros E. discriminate E.
      * destruct (P x v GX IP) as (A & B & p & GP & PP & KK & OO). split; [exact A|split; [exact B|]].
        exists p. rewrite G4. destruct (Z.eqb_spec (vpeer v) w) as [E|_]; [rewrite E, FR in GP; [discriminate|unfold w, r; lia]|].
        destruct (Z.eqb_spec (vpeer v) r) as [E|_]; [rewrite E, FR in GP; [discriminate|lia]|]. auto.
  - lia.
  - lia.
  - intros x v F _ GX. rewrite G4. destruct (Z.eqb_spec x w) as [->|NW]; [rewrite FR in GX; [discriminate|unfold w, r; lia]|].
    destruct (Z.eqb_spec x r) as [->|NR]; [rewrite FR in GX; [discriminate|lia]|]. exists v. auto.
Qed.

Lemma CNT_eventfd : forall k b, CNT k (fst (k_eventfd k b)).
Proof.
  intros k b. unfold k_eventfd.
  destruct (emfile (flt k)); [apply CNTx_refl|]. destruct (efd_cut k && (no_eventfd (flt k) || (b && no_eventfd2 (flt k)))); [apply CNTx_refl|].
  pose proof (CNT_alloc k K_EVENTFD ltac:(discriminate) ltac:(discriminate)) as A. destruct (k_alloc k K_EVENTFD) as [fd k1]. exact A.
Qed.

Lemma CNT_timerfd_create : forall k, CNT k (fst (k_timerfd_create k)).
Proof.
  intros k. unfold k_timerfd_create. destruct (no_timerfd (flt k)); [apply CNTx_refl|].
  pose proof (CNT_alloc k K_TIMERFD ltac:(discriminate) ltac:(discriminate)) as A. destruct (k_alloc k K_TIMERFD) as [fd k1]. exact A.
Qed.

Lemma CNT_grab : forall k u, CNT k (fst (fst (eventfd_grab k u))).
Proof.
  intros k u. unfold eventfd_grab.
  assert (OP : forall k0 u0, CNT k0 (fst (fst (
     if negb (u0 =? 0) then
      match k_eventfd k0 false with
      | (k1, inl fd) => (k1, inl fd, u0)
      | (k1, inr e) => if is_enosys e then (k1, @inr Z errno ENOSYS, 0) else (k1, inr e, u0)
      end
    else (k0, inr ENOSYS, 0))))).
  { intros k0 u0. destruct (negb (u0 =? 0)); [|apply CNTx_refl].
    pose proof (CNT_eventfd k0 false) as H. destruct (k_eventfd k0 false) as [k1 [fd|e]]; cbn [fst] in *.
    - assumption.
    - destruct (is_enosys e); assumption. }
  destruct (u =? 2).
  - pose proof (CNT_eventfd k true) as H. destruct (k_eventfd k true) as [k1 [fd|e]]; cbn [fst] in *.
    + assumption.
    + destruct (is_enosys e || is_einval e); [|assumption].
      eapply CNTx_trans; [eassumption|apply OP].
  - apply OP.
Qed.

Lemma np_cond : forall v c, ~ ispipe v -> ~ ispipe (with_cond v c). Proof. intros v c H. exact H. Qed.

Lemma CNT_set_cond : forall k i c, 0 <= i < 16 -> CNT k (k_set_cond k i c).
Proof.
  intros k i c I. unfold k_set_cond. destruct (k_get k (100 + i)) as [v|] eqn:G; [|apply CNTx_refl].
  intros K. pose proof K as (_ & P & _). revert K. apply CNT_put_low; [lia|].
  intros IP. destruct (P _ _ G IP) as (A & _). lia.
Qed.
Lemma CNT_user_close : forall k i, 0 <= i < 16 -> CNT k (k_user_close k i).
Proof.
  intros k i I. unfold k_user_close. destruct (k_get k (100 + i)) as [v|] eqn:G; [|apply CNTx_refl].
  intros K. pose proof K as (_ & P & _). revert K. apply CNT_put_low; [lia|].
  intros IP. destruct (P _ _ G IP) as (A & _). lia.
Qed.
Lemma CNT_user_fd : forall k i, 0 <= i < 16 -> CNT k (k_user_fd k i).
Proof. intros k i I. unfold k_user_fd. apply CNT_put_low; [lia|unfold ispipe; cbn; intros [H|H]; discriminate H]. Qed.

Lemma CNT_clock : forall k c, CNT k (k_set_clock k c). Proof. intros; apply CNT_fields; reflexivity. Qed.
Lemma CNT_nwait : forall k n, CNT k (k_set_nwait k n). Proof. intros; apply CNT_fields; reflexivity. Qed.
