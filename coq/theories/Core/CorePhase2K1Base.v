(* CorePhase2K1Base.v -- base of the kernel-timer invariant family (CorePhase2K1*.v):
   results of model functions, and "kernel operations on other descriptors leave a given
   descriptor t (the timer descriptor) and its epoll entries alone" (virtual-kernel level). *)
From Coq Require Import List ZArith Bool Lia.
From Ivv Require Import Core.Kernel Core.CoreTypes Core.CoreFd Core.CoreModel Core.CoreRelBase.
Import ListNotations.
Local Open Scope Z_scope.

Ltac dm := match goal with
  | |- context [match ?x with _ => _ end] => destruct x eqn:?
  end.

(* results: a property of the continuing state; halted runs are handled by the trace lemmas *)
Definition ARes (P : core -> Prop) (r : res) : Prop := match r with R s' => P s' | Halt _ => True end.

Lemma ARes_bind : forall (P Q : core -> Prop) r f, ARes P r -> (forall s1, P s1 -> ARes Q (f s1)) -> ARes Q (bind r f).
Proof. intros P Q r f H K. destruct r as [s1|s1]; cbn [bind ARes] in *; [apply K; exact H|exact I]. Qed.

Lemma ARes_imp : forall (P Q : core -> Prop) r, ARes P r -> (forall s1, P s1 -> Q s1) -> ARes Q r.
Proof. intros P Q r H K. destruct r; cbn [ARes] in *; auto. Qed.

(* the fields of a timer descriptor that matter *)
Definition vsame (v' v : vfd) : Prop :=
  vdeadline v' = vdeadline v /\ vfired v' = vfired v /\ vkind v' = vkind v /\ vclosed v' = vclosed v.

Lemma vsame_refl : forall v, vsame v v. Proof. intros; repeat split. Qed.
Lemma vsame_trans : forall a b c, vsame a b -> vsame b c -> vsame a c.
Proof. unfold vsame. intros a b c (A1 & A2 & A3 & A4) (B1 & B2 & B3 & B4). repeat split; congruence. Qed.

Record KT (t : Z) (k k' : kernel) : Prop := {
  kt_ent : forall e, In e (ep k) -> en_fd e = t -> In e (ep k');
  kt_vfd : forall v, k_get k t = Some v -> exists v', k_get k' t = Some v' /\ vsame v' v;
  kt_nx : next_fd k <= next_fd k' }.

Lemma KT_refl : forall t k, KT t k k.
Proof. intros. constructor; [auto|intros v H; exists v; split; [exact H|apply vsame_refl]|lia]. Qed.

Lemma KT_trans : forall t a b c, KT t a b -> KT t b c -> KT t a c.
Proof.
  intros t a b c [A1 A2 A3] [B1 B2 B3]. constructor; [auto| |lia].
  intros v H. destruct (A2 v H) as (v1 & H1 & S1). destruct (B2 v1 H1) as (v2 & H2 & S2).
  exists v2. split; [exact H2|eapply vsame_trans; eassumption].
Qed.

Lemma k_get_put' : forall k fd v fd', k_get (k_put k fd v) fd' = if fd' =? fd then Some v else k_get k fd'.
Proof. intros. unfold k_get, k_put. cbn [vfds k_set_vfds assoc]. reflexivity. Qed.

Lemma KT_put : forall t k fd v, fd <> t -> KT t k (k_put k fd v).
Proof.
  intros t k fd v N. constructor; [auto| |cbn; lia].
  intros v0 H. exists v0. split; [|apply vsame_refl]. rewrite k_get_put'. destruct (Z.eqb_spec t fd); [congruence|exact H].
Qed.

(* rewriting t itself without touching the timer fields *)
Lemma KT_put_same : forall t k v v', k_get k t = Some v -> vsame v' v -> KT t k (k_put k t v').
Proof.
  intros t k v v' G S. constructor; [auto| |cbn; lia].
  intros v0 H. rewrite G in H. inversion H; subst. exists v'. split; [|exact S]. rewrite k_get_put', Z.eqb_refl. reflexivity.
Qed.

Lemma KT_put_any : forall t k fd v v', k_get k fd = Some v -> vsame v' v -> KT t k (k_put k fd v').
Proof.
  intros t k fd v v' G S. destruct (Z.eq_dec fd t) as [->|N]; [eapply KT_put_same; eassumption|apply KT_put; exact N].
Qed.

Lemma KT_fields : forall t k k', vfds k' = vfds k -> ep k' = ep k -> next_fd k <= next_fd k' -> KT t k k'.
Proof.
  intros t k k' V E N. constructor; [rewrite E; auto| |exact N].
  intros v H. exists v. split; [|apply vsame_refl]. unfold k_get in *. rewrite V. exact H.
Qed.

(* ---------- epoll_ctl ---------- *)
Lemma In_ep_replace_other : forall l n e, In e l -> en_fd e <> en_fd n -> In e (ep_replace l n).
Proof.
  intros l n e. induction l as [|a l IH]; intros I N; [destruct I|]. cbn [ep_replace].
  destruct (Z.eqb_spec (en_fd a) (en_fd n)) as [E|NE].
  - destruct I as [->|I]; [congruence|right; exact I].
  - destruct I as [->|I]; [left; reflexivity|right; apply IH; assumption].
Qed.

Lemma KT_ctl : forall t k op fd ev d, fd <> t -> KT t k (fst (k_epoll_ctl k op fd ev d)).
Proof.
  intros t k op fd ev d N. unfold k_epoll_ctl.
  set (k0 := k_set_nctl k (nctl k + 1)).
  assert (K0 : KT t k k0) by (apply KT_fields; [reflexivity|reflexivity|cbn; lia]).
  destruct (_ && _); [exact K0|]. destruct (k_open k0 fd) as [vo|]; [|exact K0].
  destruct (op =? CTL_ADD).
  { destruct (ep_find (ep k0) fd); cbn [fst]; [exact K0|]. eapply KT_trans; [exact K0|].
    constructor; [|intros v H; exists v; split; [exact H|apply vsame_refl]|cbn; lia].
    intros e I _. cbn [ep k_set_ep]. apply in_or_app. left. exact I. }
  destruct (op =? CTL_MOD).
  { destruct (ep_find (ep k0) fd); cbn [fst]; [|exact K0]. eapply KT_trans; [exact K0|].
    constructor; [|intros v H; exists v; split; [exact H|apply vsame_refl]|cbn; lia].
    intros e I E. cbn [ep k_set_ep]. apply In_ep_replace_other; [exact I|cbn [en_fd]; congruence]. }
  destruct (ep_find (ep k0) fd); cbn [fst]; [|exact K0]. eapply KT_trans; [exact K0|].
  constructor; [|intros v H; exists v; split; [exact H|apply vsame_refl]|cbn; lia].
  intros e I E. cbn [ep k_set_ep]. apply In_ep_remove. split; [exact I|congruence].
Qed.

(* ---------- read / write / close ---------- *)
Lemma KT_read : forall t k fd c, fd <> t -> KT t k (fst (k_read k fd c)).
Proof.
  intros t k fd c N. unfold k_read.
  repeat match goal with |- context [match ?x with _ => _ end] => destruct x end;
    cbn [fst]; try apply KT_refl; apply KT_put; exact N.
Qed.

Lemma with_cnt_vsame : forall v c, vsame (with_cnt v c) v. Proof. intros; repeat split. Qed.
Lemma with_peer_vsame : forall v p o, vsame (with_peer v p o) v. Proof. intros; repeat split. Qed.

(* a write only changes counters, so it is harmless even on t *)
Lemma KT_write : forall t k fd c x, KT t k (fst (k_write k fd c x)).
Proof.
  intros t k fd c x. unfold k_write. unfold k_open.
  destruct (k_get k fd) as [v|] eqn:G; [|apply KT_refl]. destruct (vclosed v); [apply KT_refl|].
  destruct (vkind v =? K_EVENTFD).
  { destruct (c <? 8); cbn [fst]; [apply KT_refl|]. eapply KT_put_any; [exact G|apply with_cnt_vsame]. }
  destruct (vkind v =? K_PIPE_W); [|apply KT_refl].
  destruct (negb (vpeer_open v)); [apply KT_refl|].
  destruct (k_get k (vpeer v)) as [r|] eqn:GR; [|apply KT_refl].
  destruct (_ <=? 0); cbn [fst]; [apply KT_refl|]. eapply KT_put_any; [exact GR|apply with_cnt_vsame].
Qed.

Lemma KT_set_ep_remove : forall t k fd, fd <> t -> KT t k (k_set_ep k (ep_remove (ep k) fd)).
Proof.
  intros t k fd N. constructor; [|intros v H; exists v; split; [exact H|apply vsame_refl]|cbn; lia].
  intros e I E. cbn [ep k_set_ep]. apply In_ep_remove. split; [exact I|congruence].
Qed.

Lemma KT_close : forall t k fd, fd <> t -> KT t k (fst (k_close k fd)).
Proof.
  intros t k fd N. unfold k_close. unfold k_open.
  destruct (k_get k fd) as [v|] eqn:G; [|apply KT_refl]. destruct (vclosed v) eqn:VC; [apply KT_refl|].
  cbn [fst]. set (k1 := k_put k fd (with_closed v true)).
  assert (K1 : KT t k k1) by (apply KT_put; exact N).
  match goal with |- KT t k (k_set_ep ?X _) => assert (HK2 : KT t k X); [|set (k2 := X) in *] end.
  { destruct (_ || _); [|exact K1].
    destruct (k_get k1 (vpeer v)) as [p|] eqn:GP; [|exact K1].
    eapply KT_trans; [exact K1|]. eapply KT_put_any; [exact GP|apply with_peer_vsame]. }
  eapply KT_trans; [exact HK2|]. apply KT_set_ep_remove. exact N.
Qed.

(* ---------- allocation: a descriptor that exists is below next_fd ---------- *)
Lemma KT_alloc : forall t k kind, t < next_fd k -> KT t k (snd (k_alloc k kind)).
Proof.
  intros t k kind L. unfold k_alloc. cbn [snd].
  eapply KT_trans; [apply (KT_fields t k (k_set_next k (next_fd k + 1))); [reflexivity|reflexivity|cbn; lia]|].
  apply KT_put. cbn [next_fd k_set_next]. lia.
Qed.

Lemma KT_clock : forall t k c, KT t k (k_set_clock k c).
Proof. intros. apply KT_fields; [reflexivity|reflexivity|cbn; lia]. Qed.
Lemma KT_nwait : forall t k n, KT t k (k_set_nwait k n).
Proof. intros. apply KT_fields; [reflexivity|reflexivity|cbn; lia]. Qed.
